(* C08: the finality tracker (the ft_ definitions of Model/Pool.v) reports exactly what the accumulated marks and parent
   links justify (Model/FinalitySpec.v), for every operation sequence from the initial tracker whose
   history is consistent with some chain. *)
From Coq Require Import List NArith Bool Lia ZifyBool ZifyNat ZifyN.
From AG Require Import Model.Pool Model.FinalitySpec Proofs.SlotStateProofs Proofs.TrackerProofs.
Import ListNotations.
Open Scope N_scope.

(* ================= small helpers ================= *)
Lemma bid_eqb_iff a b : bid_eqb a b = true <-> a = b.
Proof.
  destruct a as [a1 a2], b as [b1 b2]. unfold bid_eqb. cbn [fst snd]. split.
  - intros H. apply andb_prop in H. destruct H as [H1 H2].
    apply N.eqb_eq in H1. apply N.eqb_eq in H2. subst. reflexivity.
  - intros H. injection H as -> ->. rewrite !N.eqb_refl. reflexivity.
Qed.
Lemma bid_eqb_refl a : bid_eqb a a = true.
Proof. apply bid_eqb_iff. reflexivity. Qed.
Lemma bid_eqb_neq a b : bid_eqb a b = false <-> a <> b.
Proof.
  split.
  - intros H E. apply bid_eqb_iff in E. congruence.
  - intros H. destruct (bid_eqb a b) eqn:E; [|reflexivity]. apply bid_eqb_iff in E. contradiction.
Qed.
Lemma bid_dec (a b : blockid) : {a = b} + {a <> b}.
Proof. destruct (bid_eqb a b) eqn:E; [left; apply bid_eqb_iff; exact E | right; apply bid_eqb_neq; exact E]. Qed.

Lemma in_seqN t lo len : In t (seqN lo len) <-> lo <= t < lo + N.of_nat len.
Proof.
  unfold seqN. rewrite in_map_iff. split.
  - intros [i [E Hi]]. apply in_seq in Hi. lia.
  - intros Ht. exists (N.to_nat (t - lo)). split; [lia|]. apply in_seq. lia.
Qed.
Lemma in_between t p c : In t (seqN (p + 1) (N.to_nat (c - p - 1))) <-> p < t < c.
Proof. rewrite in_seqN. lia. Qed.
Lemma seqN_nodup len : forall lo, NoDup (seqN lo len).
Proof.
  intros lo. unfold seqN. apply FinFun.Injective_map_NoDup; [|apply seq_NoDup].
  intros x y E. lia.
Qed.

Lemma blookup_binsert_same {V} k (v : V) m : blookup k (binsert k v m) = Some v.
Proof.
  induction m as [|[k' v'] m IH]; cbn [binsert blookup].
  - rewrite bid_eqb_refl. reflexivity.
  - destruct (bid_eqb k k') eqn:E; cbn [blookup]; [rewrite bid_eqb_refl; reflexivity|].
    rewrite E. exact IH.
Qed.
Lemma blookup_binsert_other {V} k k' (v : V) m : k <> k' -> blookup k (binsert k' v m) = blookup k m.
Proof.
  intros Hne. induction m as [|[k2 v2] m IH]; cbn [binsert blookup].
  - apply bid_eqb_neq in Hne. rewrite Hne. reflexivity.
  - destruct (bid_eqb k' k2) eqn:E2; cbn [blookup].
    + apply bid_eqb_iff in E2. subst k2. apply bid_eqb_neq in Hne. rewrite Hne. reflexivity.
    + destruct (bid_eqb k k2); [reflexivity | exact IH].
Qed.
Lemma blookup_in {V} k (v : V) m : blookup k m = Some v -> In (k, v) m.
Proof.
  induction m as [|[k' v'] m IH]; cbn [blookup]; [discriminate|].
  destruct (bid_eqb k k') eqn:E.
  - apply bid_eqb_iff in E. subst. intros H. injection H as ->. left. reflexivity.
  - intros H. right. apply IH. exact H.
Qed.
Lemma binsert_in {V} k (v : V) m k2 v2 : In (k2, v2) (binsert k v m) -> (k2 = k /\ v2 = v) \/ In (k2, v2) m.
Proof.
  induction m as [|[k' v'] m IH]; cbn [binsert].
  - intros [H|[]]. injection H as <- <-. left. split; reflexivity.
  - destruct (bid_eqb k k') eqn:E.
    + intros [H|H]; [injection H as <- <-; left; split; reflexivity | right; right; exact H].
    + intros [H|H]; [right; left; exact H|]. destruct (IH H) as [G|G]; [left; exact G | right; right; exact G].
Qed.
Lemma binsert_length {V} k (v : V) m : (length m <= length (binsert k v m))%nat.
Proof.
  induction m as [|[k' v'] m IH]; cbn [binsert length]; [lia|].
  destruct (bid_eqb k k'); cbn [length]; lia.
Qed.
Lemma ainsert_in {V} k (v : V) m k2 v2 : In (k2, v2) (ainsert k v m) -> (k2 = k /\ v2 = v) \/ In (k2, v2) m.
Proof.
  induction m as [|[k' v'] m IH]; cbn [ainsert].
  - intros [H|[]]. injection H as <- <-. left. split; reflexivity.
  - destruct (k =? k') eqn:E.
    + intros [H|H]; [injection H as <- <-; left; split; reflexivity | right; right; exact H].
    + intros [H|H]; [right; left; exact H|]. destruct (IH H) as [G|G]; [left; exact G | right; right; exact G].
Qed.
(* writing a value and then the old value back restores the very same list *)
Lemma ainsert_restore {V} k (v w : V) m : alookup k m = Some v -> ainsert k v (ainsert k w m) = m.
Proof.
  induction m as [|[k' v'] m IH]; cbn [alookup ainsert]; [discriminate|].
  destruct (k =? k') eqn:E.
  - intros H. injection H as ->. cbn [ainsert]. rewrite N.eqb_refl. apply N.eqb_eq in E. subst. reflexivity.
  - intros H. cbn [ainsert]. rewrite E. f_equal. apply IH. exact H.
Qed.
Lemma ainsert_same_value {V} k (v : V) m : alookup k m = Some v -> ainsert k v m = m.
Proof.
  induction m as [|[k' v'] m IH]; cbn [alookup ainsert]; [discriminate|].
  destruct (k =? k') eqn:E.
  - intros H. injection H as ->. apply N.eqb_eq in E. subst. reflexivity.
  - intros H. f_equal. apply IH. exact H.
Qed.

(* lookups in a map filtered by a predicate on the key *)
Lemma alookup_filter_key {V} (f : N -> bool) k (m : list (N * V)) :
  alookup k (filter (fun kv => f (fst kv)) m) = if f k then alookup k m else None.
Proof.
  induction m as [|[k' v'] m IH]; cbn [filter alookup fst].
  - destruct (f k); reflexivity.
  - destruct (f k') eqn:Ek; cbn [alookup].
    + destruct (k =? k') eqn:E; [|exact IH]. apply N.eqb_eq in E. subst. rewrite Ek. reflexivity.
    + destruct (k =? k') eqn:E; [|exact IH]. apply N.eqb_eq in E. subst. rewrite IH, Ek. reflexivity.
Qed.
Lemma blookup_filter_key {V} (f : blockid -> bool) k (m : list (blockid * V)) :
  blookup k (filter (fun kv => f (fst kv)) m) = if f k then blookup k m else None.
Proof.
  induction m as [|[k' v'] m IH]; cbn [filter blookup fst].
  - destruct (f k); reflexivity.
  - destruct (f k') eqn:Ek; cbn [blookup].
    + destruct (bid_eqb k k') eqn:E; [|exact IH]. apply bid_eqb_iff in E. subst. rewrite Ek. reflexivity.
    + destruct (bid_eqb k k') eqn:E; [|exact IH]. apply bid_eqb_iff in E. subst. rewrite IH, Ek. reflexivity.
Qed.

Lemma filter_length_le {A} (f : A -> bool) l : (length (filter f l) <= length l)%nat.
Proof. induction l as [|x l IH]; cbn [filter length]; [lia|]. destruct (f x); cbn [length]; lia. Qed.
(* a strictly weaker filter keeps strictly more when some element separates them *)
Lemma filter_length_lt {A} (f g : A -> bool) l x :
  (forall y, f y = true -> g y = true) -> In x l -> g x = true -> f x = false ->
  (length (filter f l) < length (filter g l))%nat.
Proof.
  intros Hfg. induction l as [|y l IH]; intros Hin Hg Hf; [destruct Hin|].
  cbn [filter]. destruct Hin as [->|Hin].
  - rewrite Hg, Hf. cbn [length].
    assert (length (filter f l) <= length (filter g l))%nat; [|lia].
    clear IH. induction l as [|z l IH]; cbn [filter length]; [lia|].
    destruct (f z) eqn:Fz; [rewrite (Hfg z Fz); cbn [length]; lia|].
    destruct (g z); cbn [length]; lia.
  - specialize (IH Hin Hg Hf). destruct (f y) eqn:Fy; [rewrite (Hfg y Fy); cbn [length]; lia|].
    destruct (g y); cbn [length]; lia.
Qed.

(* ================= histories ================= *)
Lemma Notar_app H o b : Notar (H ++ [o]) b <-> Notar H b \/ o = TNotar b.
Proof.
  unfold Notar. rewrite in_app_iff. cbn [In]. split.
  - intros [E|[E|[E|[]]]]; auto.
  - intros [[E|E]|E]; auto.
Qed.
Lemma Fast_app H o b : Fast (H ++ [o]) b <-> Fast H b \/ o = TFast b.
Proof. unfold Fast. rewrite in_app_iff. cbn [In]. tauto. Qed.
Lemma Fin_app H o s : Fin (H ++ [o]) s <-> Fin H s \/ o = TFinal s.
Proof. unfold Fin. rewrite in_app_iff. cbn [In]. tauto. Qed.
Lemma Link_app H o c p : Link (H ++ [o]) c p <-> Link H c p \/ o = TParent c p.
Proof. unfold Link. rewrite in_app_iff. cbn [In]. tauto. Qed.

(* H' extends H *)
Record Ext (H H' : hist) : Prop := {
  ext_notar : forall b, Notar H b -> Notar H' b;
  ext_fast : forall b, Fast H b -> Fast H' b;
  ext_fin : forall s, Fin H s -> Fin H' s;
  ext_link : forall c p, Link H c p -> Link H' c p }.
Lemma Ext_app H o : Ext H (H ++ [o]).
Proof.
  split; intros.
  - apply Notar_app. left. assumption.
  - apply Fast_app. left. assumption.
  - apply Fin_app. left. assumption.
  - apply Link_app. left. assumption.
Qed.
Lemma Ext_apps H l : Ext H (H ++ l).
Proof.
  split; unfold Notar, Fast, Fin, Link; intros; rewrite in_app_iff; tauto.
Qed.
Lemma Direct_ext H H' b : Ext H H' -> Direct H b -> Direct H' b.
Proof. intros E [D|[D1 D2]]; [left; apply E; exact D | right; split; apply E; assumption]. Qed.
Lemma FinalStar_ext H H' b : Ext H H' -> FinalStar H b -> FinalStar H' b.
Proof.
  intros E F. induction F as [b D|c p F IH L].
  - apply FS_direct. eapply Direct_ext; eassumption.
  - eapply FS_anc; [exact IH | apply E; exact L].
Qed.
Lemma SkippedStar_ext H H' s : Ext H H' -> SkippedStar H s -> SkippedStar H' s.
Proof.
  intros E [c [p [F [L B]]]]. exists c, p. repeat split; try lia.
  - eapply FinalStar_ext; eassumption.
  - apply E. exact L.
Qed.
Lemma Decided_ext H H' s : Ext H H' -> Decided H s -> Decided H' s.
Proof.
  intros E [[h F]|S]; [left; exists h; eapply FinalStar_ext; eassumption | right; eapply SkippedStar_ext; eassumption].
Qed.
Lemma Anc_trans H a b c : Anc H a b -> Anc H b c -> Anc H a c.
Proof. intros A. induction A as [a|a p x L A IH]; intros B; [exact B|]. eapply Anc_step; [exact L | apply IH; exact B]. Qed.
Lemma Anc_snoc H a c p : Anc H a c -> Link H c p -> Anc H a p.
Proof. intros A L. eapply Anc_trans; [exact A|]. eapply Anc_step; [exact L | apply Anc_refl]. Qed.
Lemma FinalStar_anc H a x : FinalStar H a -> Anc H a x -> FinalStar H x.
Proof. intros F A. induction A as [a|a p x L A IH]; [exact F|]. apply IH. eapply FS_anc; eassumption. Qed.

(* ---------- consistency, relational form ---------- *)
Record Cons (C : slot -> option hash) (H : hist) : Prop := {
  c_fast : forall b, Fast H b -> C (fst b) = Some (snd b);
  c_fast_notar : forall s h h', Fast H (s, h) -> Notar H (s, h') -> h = h';
  c_fin_notar : forall s h, Fin H s -> Notar H (s, h) -> C s = Some h;
  c_notar1 : forall s h h', Notar H (s, h) -> Notar H (s, h') -> h = h';
  c_fin : forall s, Fin H s -> C s <> None;
  c_link_lt : forall c p, Link H c p -> fst p < fst c;
  c_link1 : forall c p p', Link H c p -> Link H c p' -> p = p';
  c_link_chain : forall c p, Link H c p -> C (fst c) = Some (snd c) ->
                 C (fst p) = Some (snd p) /\ forall t, fst p < t < fst c -> C t = None }.

Lemma finb_iff_early H s : Fin H s -> finb H s = true.
Proof.
  unfold finb, Fin. intros Hin. apply existsb_exists. exists (TFinal s). split; [exact Hin | apply N.eqb_refl].
Qed.
Lemma finb_true_early H s : finb H s = true -> Fin H s.
Proof.
  unfold finb, Fin. rewrite existsb_exists. intros [o [Hin E]]. destruct o; try discriminate.
  apply N.eqb_eq in E. subst. exact Hin.
Qed.
Lemma chain_has_iff C b : chain_has C b = true <-> C (fst b) = Some (snd b).
Proof.
  unfold chain_has. destruct (C (fst b)) as [h|]; split; intros H; try discriminate.
  - apply N.eqb_eq in H. subst. reflexivity.
  - injection H as ->. apply N.eqb_refl.
Qed.
Lemma chain_agrees_iff C b : chain_agrees C b = true <-> (forall h, C (fst b) = Some h -> h = snd b).
Proof.
  unfold chain_agrees. destruct (C (fst b)) as [h|]; split; intros H.
  - intros h' E. injection E as <-. apply N.eqb_eq. exact H.
  - apply N.eqb_eq. apply H. reflexivity.
  - intros h' E. discriminate.
  - reflexivity.
Qed.

Lemma consistent_Cons C H : ft_consistent C H = true -> Cons C H.
Proof.
  unfold ft_consistent. intros Hc. apply andb_prop in Hc. destruct Hc as [Hg Hc].
  rewrite forallb_forall in Hc.
  assert (HN : forall b, In (TNotar b) H ->
               (Fin H (fst b) -> C (fst b) = Some (snd b)) /\ (fst b = 0 -> snd b = 0) /\
               (forall b', In (TNotar b') H -> fst b = fst b' -> snd b = snd b')).
  { intros b Hb. specialize (Hc _ Hb). cbn [op_consistent] in Hc.
    apply andb_prop in Hc. destruct Hc as [Hc H3]. apply andb_prop in Hc. destruct Hc as [H1 H2].
    split.
    - intros Fs. apply finb_iff_early in Fs. rewrite Fs in H1. cbn [negb orb] in H1. apply chain_has_iff. exact H1.
    - split; [lia|].
      intros b' Hb' E. rewrite forallb_forall in H3. specialize (H3 _ Hb'). cbn in H3. lia. }
  assert (HF : forall b, In (TFast b) H ->
               C (fst b) = Some (snd b) /\ (fst b = 0 -> snd b = 0) /\
               (forall b', In (TNotar b') H -> fst b = fst b' -> snd b = snd b')).
  { intros b Hb. specialize (Hc _ Hb). cbn [op_consistent] in Hc.
    apply andb_prop in Hc. destruct Hc as [Hc H3]. apply andb_prop in Hc. destruct Hc as [H1 H2].
    split; [apply chain_has_iff; exact H1|]. split; [lia|].
    intros b' Hb' E. rewrite forallb_forall in H2. specialize (H2 _ Hb'). cbn in H2. lia. }
  assert (HP : forall c p, In (TParent c p) H ->
               fst p < fst c /\ (forall p', In (TParent c p') H -> p = p') /\
               (C (fst c) = Some (snd c) -> C (fst p) = Some (snd p) /\ forall t, fst p < t < fst c -> C t = None)).
  { intros c p Hb. specialize (Hc _ Hb). cbn [op_consistent] in Hc.
    apply andb_prop in Hc. destruct Hc as [Hc H3]. apply andb_prop in Hc. destruct Hc as [H1 H2].
    split; [lia|]. split.
    - intros p' Hp'. rewrite forallb_forall in H2. specialize (H2 _ Hp'). cbn in H2.
      rewrite bid_eqb_refl in H2. cbn in H2. apply bid_eqb_iff. exact H2.
    - intros Ec. apply chain_has_iff in Ec. rewrite Ec in H3. cbn [negb orb] in H3.
      apply andb_prop in H3. destruct H3 as [H3 H4]. split; [apply chain_has_iff; exact H3|].
      intros t Ht. rewrite forallb_forall in H4. specialize (H4 t). 
      assert (Hin : In t (seqN (fst p + 1) (N.to_nat (fst c - fst p - 1)))) by (apply in_between; exact Ht).
      specialize (H4 Hin). destruct (C t); [discriminate | reflexivity]. }
  split.
  - intros b Hb. apply (HF b Hb).
  - intros s h h' Hf [E|Hb].
    + injection E as -> ->. apply (proj1 (proj2 (HF _ Hf))). reflexivity.
    + apply (proj2 (proj2 (HF _ Hf)) _ Hb). reflexivity.
  - intros s h Fs [E|Hb].
    + injection E as -> ->. apply finb_iff_early in Fs. rewrite Fs in Hg. cbn [negb orb] in Hg.
      apply chain_has_iff in Hg. exact Hg.
    + apply (proj1 (HN _ Hb)). exact Fs.
  - intros s h h' [E|Hb] [E'|Hb'].
    + congruence.
    + injection E as -> ->. symmetry. apply (proj1 (proj2 (HN _ Hb'))). reflexivity.
    + injection E' as -> ->. apply (proj1 (proj2 (HN _ Hb))). reflexivity.
    + apply (proj2 (proj2 (HN _ Hb)) _ Hb'). reflexivity.
  - intros s Hs. specialize (Hc _ Hs). cbn [op_consistent] in Hc. destruct (C s); [discriminate | discriminate].
  - intros c p L. apply (HP c p L).
  - intros c p p' L L'. apply (proj1 (proj2 (HP c p L))). exact L'.
  - intros c p L. apply (proj2 (proj2 (HP c p L))).
Qed.

Lemma Cons_prefix C H l : Cons C (H ++ l) -> Cons C H.
Proof.
  intros [A1 A2 A2' A3 A4 A5 A6 A7]. pose proof (Ext_apps H l) as [E1 E2 E3 E4].
  split; intros.
  - apply A1. auto.
  - eapply A2; eauto.
  - apply A2'; auto.
  - eapply A3; eauto.
  - apply A4. auto.
  - apply A5. auto.
  - eapply A6; eauto.
  - apply A7; auto.
Qed.

Section Chain.
Variable C : slot -> option hash.
Variable H : hist.
Hypothesis HC : Cons C H.

(* everything finalized lies on the chain, everything skipped off it *)
Lemma FinalStar_chain b : FinalStar H b -> C (fst b) = Some (snd b).
Proof.
  intros F. induction F as [b [D|[D1 D2]]|c p F IH L].
  - apply (c_fast _ _ HC). exact D.
  - destruct b as [s h]. cbn [fst snd] in *. apply (c_fin_notar _ _ HC); assumption.
  - apply (c_link_chain _ _ HC _ _ L IH).
Qed.
Lemma FinalStar_unique s h h' : FinalStar H (s, h) -> FinalStar H (s, h') -> h = h'.
Proof.
  intros F F'. apply FinalStar_chain in F. apply FinalStar_chain in F'. cbn [fst snd] in *. congruence.
Qed.
Lemma edge_excl c p t : FinalStar H c -> Link H c p -> fst p < t < fst c -> C t = None.
Proof.
  intros F L B. apply (proj2 (c_link_chain _ _ HC _ _ L (FinalStar_chain _ F))). exact B.
Qed.
Lemma SkippedStar_chain s : SkippedStar H s -> C s = None.
Proof. intros [c [p [F [L B]]]]. eapply edge_excl; eassumption. Qed.
Lemma final_not_skipped s h : FinalStar H (s, h) -> SkippedStar H s -> False.
Proof.
  intros F S. apply FinalStar_chain in F. apply SkippedStar_chain in S. cbn [fst] in F. congruence.
Qed.
(* two edges of finalized blocks that cover a common slot are the same edge *)
Lemma edge_unique c p c' p' t :
  FinalStar H c -> Link H c p -> FinalStar H c' -> Link H c' p' ->
  fst p < t < fst c -> fst p' < t < fst c' -> c = c' /\ p = p'.
Proof.
  intros F L F' L' B B'.
  assert (Ec : fst c = fst c').
  { destruct (N.lt_trichotomy (fst c) (fst c')) as [Hlt|[E|Hgt]]; [|exact E|].
    - exfalso. assert (X : C (fst c) = None) by (apply (edge_excl c' p'); [assumption|assumption|lia]).
      rewrite (FinalStar_chain _ F) in X. discriminate.
    - exfalso. assert (X : C (fst c') = None) by (apply (edge_excl c p); [assumption|assumption|lia]).
      rewrite (FinalStar_chain _ F') in X. discriminate. }
  assert (E : c = c').
  { destruct c as [s h], c' as [s' h']. cbn [fst] in Ec. subst s'. f_equal. eapply FinalStar_unique; eassumption. }
  subst c'. split; [reflexivity|]. eapply (c_link1 _ _ HC); eassumption.
Qed.
Lemma Anc_le a x : Anc H a x -> fst x <= fst a.
Proof.
  intros A. induction A as [a|a p x L A IH]; [lia|]. pose proof (c_link_lt _ _ HC _ _ L). lia.
Qed.
Lemma Anc_lt_inv a x : Anc H a x -> fst x < fst a -> exists p, Link H a p /\ Anc H p x.
Proof. intros A. destruct A as [a|a p x L A]; [lia|]. intros _. exists p. split; assumption. Qed.
End Chain.

Lemma Cons_ext C H H' : Ext H H' -> Cons C H' -> Cons C H.
Proof.
  intros [E1 E2 E3 E4] [A1 A2 A2' A3 A4 A5 A6 A7].
  split; intros.
  - apply A1. auto.
  - eapply A2; eauto.
  - apply A2'; auto.
  - eapply A3; eauto.
  - apply A4. auto.
  - apply A5. auto.
  - eapply A6; eauto.
  - apply A7; auto.
Qed.

(* ================= tracker state against the specification ================= *)
Definition st (t : ftracker) (s : slot) : option fstatus := alookup s (ft_status t).

Lemma st_set t s v s' : st (ft_set_status t s v) s' = if s' =? s then Some v else st t s'.
Proof.
  unfold st, ft_set_status. cbn [ft_status]. destruct (s' =? s) eqn:E.
  - apply N.eqb_eq in E. subst. apply alookup_ainsert_same.
  - apply alookup_ainsert_other. apply N.eqb_neq. exact E.
Qed.

(* a slot marked Finalized (rather than ImplicitlyFinalized) is directly finalized *)
Definition FinDirect (H : hist) (t : ftracker) : Prop :=
  forall s h, st t s = Some (FFinalized h) -> Direct H (s, h).
Definition FinDirectAt (H : hist) (s : slot) (o : option fstatus) : Prop :=
  match o with Some (FFinalized h) => Direct H (s, h) | _ => True end.

Definition Undecided (H : hist) (s : slot) : Prop := (forall h, ~ FinalStar H (s, h)) /\ ~ SkippedStar H s.

(* the status stored for slot s is the one the history justifies *)
Definition StatusSpec (H : hist) (s : slot) (o : option fstatus) : Prop :=
  match o with
  | Some (FFinalized h) | Some (FImplFinalized h) => FinalStar H (s, h)
  | Some FImplSkipped => SkippedStar H s
  | Some FFinalPendingNotar => Fin H s /\ (forall h, ~ Notar H (s, h)) /\ Undecided H s
  | Some (FNotarized h) => Notar H (s, h) /\ ~ Fin H s /\ Undecided H s
  | None => (forall h, ~ Notar H (s, h)) /\ ~ Fin H s /\ Undecided H s
  end.

Lemma StatusSpec_transfer H H' s o : Ext H H' ->
  (forall h, Notar H' (s, h) -> Notar H (s, h)) -> (Fin H' s -> Fin H s) ->
  (forall h, FinalStar H' (s, h) -> FinalStar H (s, h)) -> (SkippedStar H' s -> SkippedStar H s) ->
  StatusSpec H s o -> StatusSpec H' s o.
Proof.
  intros E N1 N2 N3 N4 S.
  assert (U : Undecided H s -> Undecided H' s).
  { intros [U1 U2]. split; [intros h F; apply (U1 h); apply N3; exact F | intros F; apply U2; apply N4; exact F]. }
  destruct o as [[h| |h|h|]|]; cbn [StatusSpec] in *.
  - destruct S as [S1 [S2 S3]]. split; [apply E; exact S1|]. split; [intros F; apply S2; apply N2; exact F | apply U; exact S3].
  - destruct S as [S1 [S2 S3]]. split; [apply E; exact S1|]. split; [intros h F; apply (S2 h); apply N1; exact F | apply U; exact S3].
  - eapply FinalStar_ext; eassumption.
  - eapply FinalStar_ext; eassumption.
  - eapply SkippedStar_ext; eassumption.
  - destruct S as [S1 [S2 S3]]. split; [intros h F; apply (S1 h); apply N1; exact F|].
    split; [intros F; apply S2; apply N2; exact F | apply U; exact S3].
Qed.

Definition ParentsOK (H : hist) (t : ftracker) : Prop :=
  forall b p, blookup b (ft_parents t) = Some p <-> (Link H b p /\ ft_first t <= fst b).
Definition DecidedBelow (H : hist) (t : ftracker) : Prop :=
  forall s, 0 < s <= ft_first t -> Decided H s.
Definition KeysOK (t : ftracker) : Prop :=
  (forall k v, In (k, v) (ft_status t) -> ft_first t <= k) /\
  (forall b p, In (b, p) (ft_parents t) -> ft_first t <= fst b).
Definition mu (t : ftracker) (m : slot) : nat := length (filter (fun kv => fst (fst kv) <? m) (ft_parents t)).

Lemma KeysOK_set t s v : KeysOK t -> ft_first t <= s -> KeysOK (ft_set_status t s v).
Proof.
  intros [K1 K2] Hs. split; cbn [ft_set_status ft_status ft_parents ft_first].
  - intros k w Hin. apply ainsert_in in Hin. destruct Hin as [[-> _]|Hin]; [exact Hs | eapply K1; exact Hin].
  - exact K2.
Qed.

Definition skippable (o : option fstatus) : Prop :=
  match o with None | Some (FNotarized _) => True | _ => False end.

Lemma skip_between_ok : forall l t ev,
  NoDup l -> (forall s, In s l -> skippable (st t s)) -> (forall s, In s l -> ft_first t <= s) -> KeysOK t ->
  exists t', ft_skip_between t ev l =
             Some (t', mkFE (fe_final ev) (fe_impl_final ev) (fe_impl_skipped ev ++ l), false) /\
    ft_parents t' = ft_parents t /\ ft_first t' = ft_first t /\ ft_highest t' = ft_highest t /\
    (forall s, In s l -> st t' s = Some FImplSkipped) /\ (forall s, ~ In s l -> st t' s = st t s) /\ KeysOK t'.
Proof.
  induction l as [|s l IH]; intros t ev ND Hsk Hge K.
  - exists t. cbn [ft_skip_between]. rewrite app_nil_r. destruct ev. cbn. repeat split; try tauto; apply K.
  - cbn [ft_skip_between]. inversion ND as [|? ? Hnin ND']; subst.
    pose proof (Hsk s (or_introl eq_refl)) as Hs. unfold skippable, st in Hs.
    set (t1 := ft_set_status t s FImplSkipped).
    assert (K1 : KeysOK t1) by (apply KeysOK_set; [exact K | apply Hge; left; reflexivity]).
    assert (Hsk1 : forall s', In s' l -> skippable (st t1 s')).
    { intros s' Hin. unfold t1. rewrite st_set. destruct (s' =? s) eqn:E.
      - apply N.eqb_eq in E. subst. contradiction.
      - apply Hsk. right. exact Hin. }
    assert (Hge1 : forall s', In s' l -> ft_first t1 <= s') by (intros s' Hin; apply Hge; right; exact Hin).
    destruct (IH t1 (mkFE (fe_final ev) (fe_impl_final ev) (fe_impl_skipped ev ++ [s])) ND' Hsk1 Hge1 K1)
      as [t' [R [P1 [P2 [P3 [P4 [P5 P6]]]]]]].
    exists t'. cbn [fe_final fe_impl_final fe_impl_skipped] in R. rewrite <- app_assoc in R. cbn [app] in R.
    split.
    { destruct (alookup s (ft_status t)) as [[h| |h|h|]|]; try contradiction; exact R. }
    repeat split; try assumption; try apply P6.
    + intros s' [->|Hin]; [|apply P4; exact Hin]. rewrite P5 by exact Hnin. unfold t1. rewrite st_set, N.eqb_refl. reflexivity.
    + intros s' Hn. rewrite P5 by (intros X; apply Hn; right; exact X). unfold t1. rewrite st_set.
      destruct (s' =? s) eqn:E; [|reflexivity]. apply N.eqb_eq in E. subst. exfalso. apply Hn. left. reflexivity.
Qed.

(* ================= the ancestor walk ================= *)
Section Walk.
Variable C : slot -> option hash.
Variables H H' : hist.
Hypothesis HC' : Cons C H'.
Hypothesis HE : Ext H H'.

Lemma walk_HC : Cons C H.
Proof. exact (Cons_ext _ _ _ HE HC'). Qed.

Lemma Anc_old (m : slot) (a x : blockid) :
  (forall x y, Link H' x y -> Link H x y \/ m <= fst x) -> fst a < m -> Anc H' a x -> Anc H a x.
Proof.
  intros E2 Ha A. revert Ha. induction A as [a|a p x L A IH]; intros Ha; [apply Anc_refl|].
  destruct (E2 _ _ L) as [L0|Hm]; [|lia].
  eapply Anc_step; [exact L0|]. apply IH. pose proof (c_link_lt _ _ HC' _ _ L). lia.
Qed.

(* below the slot e where the walk ends nothing is new *)
Lemma below_transfer e he :
  FinalStar H' (e, he) ->
  (forall x, FinalStar H' x -> fst x < e -> FinalStar H x) ->
  (forall c p, FinalStar H' c -> Link H' c p -> fst c <= e -> FinalStar H c /\ Link H c p) ->
  (forall s h, s < e -> Notar H' (s, h) -> Notar H (s, h)) ->
  (forall s, s < e -> Fin H' s -> Fin H s) ->
  forall s o, s < e -> StatusSpec H s o -> StatusSpec H' s o.
Proof.
  intros Fe F G N1 N2 s o Hs S. apply (StatusSpec_transfer H H' s o HE); [| | | |exact S].
  - intros h. apply N1. exact Hs.
  - apply N2. exact Hs.
  - intros h X. apply (F _ X). cbn [fst]. lia.
  - intros [c [p [Fc [L B]]]]. destruct (N.le_gt_cases (fst c) e) as [Hle|Hgt].
    + destruct (G c p Fc L Hle) as [Fc0 L0]. exists c, p. auto.
    + exfalso. assert (X : C e = None) by (apply (edge_excl C H' HC' c p); [assumption|assumption|lia]).
      pose proof (FinalStar_chain C H' HC' _ Fe) as Y. cbn [fst snd] in Y. congruence.
Qed.

Lemma walk_spec : forall fuel t m b ev hc,
  ft_first t <= m ->
  FinalStar H' (m, hc) -> Link H' (m, hc) b -> ~ (FinalStar H (m, hc) /\ Link H (m, hc) b) ->
  (forall x, FinalStar H' x -> FinalStar H x \/ m <= fst x \/ Anc H' b x) ->
  (forall x y, Link H' x y -> Link H x y \/ m <= fst x) ->
  (forall s h, s < m -> Notar H' (s, h) -> Notar H (s, h)) ->
  (forall s, s < m -> Fin H' s -> Fin H s) ->
  ParentsOK H' t ->
  (forall s, ft_first t <= s -> m <= s -> StatusSpec H' s (st t s)) ->
  (forall s, ft_first t <= s -> s < m -> StatusSpec H s (st t s)) ->
  DecidedBelow H t -> KeysOK t -> (mu t m < fuel)%nat ->
  exists t' ev', ft_handle_impl fuel t m b ev = Some (t', ev') /\
    ft_parents t' = ft_parents t /\ ft_first t' = ft_first t /\ ft_highest t' = ft_highest t /\
    (forall s, ft_first t <= s -> StatusSpec H' s (st t' s)) /\ KeysOK t'.
Proof.
  pose proof walk_HC as HC.
  induction fuel as [|f IH]; intros t m b ev hc Hfm Fc Lcb New E1 E2 N1 N2 PO SA SB DB K Hfuel; [lia|].
  destruct b as [sb hb].
  cbn [ft_handle_impl fst snd].
  pose proof (c_link_lt _ _ HC' _ _ Lcb) as Hlt. cbn [fst] in Hlt.
  assert (Fb : FinalStar H' (sb, hb)) by (eapply FS_anc; eassumption).
  pose proof (FinalStar_chain C H' HC' _ Fb) as Cb. cbn [fst snd] in Cb.
  assert (Cbetween : forall s, sb < s < m -> C s = None).
  { intros s Hs. apply (edge_excl C H' HC' (m, hc) (sb, hb)); auto. }
  assert (OldEdge : forall c' p' s, FinalStar H c' -> Link H c' p' -> fst p' < s < fst c' -> sb < s < m -> False).
  { intros c' p' s F' L' B' B.
    destruct (edge_unique C H' HC' (m, hc) (sb, hb) c' p' s) as [X1 X2]; auto.
    - eapply FinalStar_ext; eassumption.
    - apply HE. exact L'.
    - subst. apply New. split; assumption. }
  replace (sb <? m) with true by lia. cbn [negb].
  destruct (sb <? ft_first t) eqn:Eb.
  - (* parent already pruned: then m is the watermark itself and there is nothing to do *)
    exists t, ev. split; [reflexivity|]. repeat split; try assumption; try apply K.
    intros s Hs. destruct (N.le_gt_cases m s) as [Hms|Hms]; [apply SA; assumption|].
    exfalso.
    assert (Hf0 : 0 < ft_first t <= ft_first t) by lia.
    assert (Cf : C (ft_first t) = None) by (apply Cbetween; lia).
    destruct (DB _ Hf0) as [[h F]|[c' [p' [F' [L' B']]]]].
    + apply (FinalStar_ext H H' _ HE) in F. apply (FinalStar_chain C H' HC') in F. cbn [fst] in F. congruence.
    + apply (OldEdge c' p' (ft_first t) F' L' B'). lia.
  - (* skip the slots in between *)
    assert (Hsb : ft_first t <= sb) by lia.
    destruct (skip_between_ok (seqN (sb + 1) (N.to_nat (m - sb - 1))) t ev) as [t1 [R [P1 [P2 [P3 [P4 [P5 K1]]]]]]].
    { apply seqN_nodup. }
    { intros s Hs. apply in_between in Hs.
      assert (S := SB s ltac:(lia) ltac:(lia)). assert (Cs := Cbetween s Hs).
      destruct (st t s) as [[h| |h|h|]|]; cbn [skippable StatusSpec] in *; try exact I.
      - destruct S as [S _]. apply HE in S. apply (c_fin _ _ HC' _ S). exact Cs.
      - apply (FinalStar_ext H H' _ HE) in S. apply (FinalStar_chain C H' HC') in S. cbn [fst] in S. congruence.
      - apply (FinalStar_ext H H' _ HE) in S. apply (FinalStar_chain C H' HC') in S. cbn [fst] in S. congruence.
      - destruct S as [c' [p' [F' [L' B']]]]. apply (OldEdge c' p' s F' L' B' Hs). }
    { intros s Hs. apply in_between in Hs. lia. }
    { exact K. }
    rewrite R. cbv zeta.
    change (alookup sb (ft_status t1)) with (st t1 sb).
    assert (Hnb : ~ In sb (seqN (sb + 1) (N.to_nat (m - sb - 1)))) by (rewrite in_between; lia).
    rewrite (P5 sb Hnb).
    set (ev1 := mkFE (fe_final ev) (fe_impl_final ev) (fe_impl_skipped ev ++ seqN (sb + 1) (N.to_nat (m - sb - 1)))).
    set (t2 := ft_set_status t1 sb (FImplFinalized hb)).
    assert (K2 : KeysOK t2) by (apply KeysOK_set; [exact K1 | rewrite P2; exact Hsb]).
    (* status of t1 *)
    assert (St1 : forall s, st t1 s = if (sb <? s) && (s <? m) then Some FImplSkipped else st t s).
    { intros s. destruct ((sb <? s) && (s <? m)) eqn:E.
      - apply P4. apply in_between. lia.
      - apply P5. rewrite in_between. lia. }
    assert (Sk : forall s, sb < s < m -> SkippedStar H' s).
    { intros s Hs. exists (m, hc), (sb, hb). cbn [fst]. auto. }
    assert (SbSpec := SB sb Hsb Hlt).
    (* the three cases in which the walk goes on *)
    assert (Cont : ~ FinalStar H (sb, hb) ->
      exists t' ev',
        match blookup (sb, hb) (ft_parents t2) with
        | Some p => ft_handle_impl f t2 sb p (mkFE (fe_final ev1) (fe_impl_final ev1 ++ [(sb, hb)]) (fe_impl_skipped ev1))
        | None => Some (t2, mkFE (fe_final ev1) (fe_impl_final ev1 ++ [(sb, hb)]) (fe_impl_skipped ev1))
        end = Some (t', ev') /\
        ft_parents t' = ft_parents t /\ ft_first t' = ft_first t /\ ft_highest t' = ft_highest t /\
        (forall s, ft_first t <= s -> StatusSpec H' s (st t' s)) /\ KeysOK t').
    { intros NFb.
      assert (S2A : forall s, ft_first t <= s -> sb <= s -> StatusSpec H' s (st t2 s)).
      { intros s Hs1 Hs2. unfold t2. rewrite st_set. destruct (s =? sb) eqn:E.
        - apply N.eqb_eq in E. subst. exact Fb.
        - rewrite St1. destruct ((sb <? s) && (s <? m)) eqn:Ebt.
          + apply Sk. lia.
          + apply SA; lia. }
      assert (S2B : forall s, ft_first t <= s -> s < sb -> StatusSpec H s (st t2 s)).
      { intros s Hs1 Hs2. unfold t2. rewrite st_set. replace (s =? sb) with false by lia.
        rewrite St1. replace ((sb <? s) && (s <? m)) with false by lia. apply SB; lia. }
      assert (Ffun : forall x, FinalStar H' x -> fst x < sb ->
                     FinalStar H x \/ exists p, Link H' (sb, hb) p /\ Anc H' p x).
      { intros x Fx Hx. destruct (E1 x Fx) as [X|[X|X]]; [left; exact X | lia |].
        right. apply (Anc_lt_inv H' (sb, hb) x X). exact Hx. }
      assert (PO2 : ParentsOK H' t2).
      { intros b0 p0. unfold t2. cbn [ft_set_status ft_parents ft_first]. rewrite P1, P2. apply PO. }
      destruct (blookup (sb, hb) (ft_parents t2)) as [p|] eqn:Ep.
      - pose proof (proj1 (PO2 _ _) Ep) as [Lbp _].
        destruct (IH t2 sb p (mkFE (fe_final ev1) (fe_impl_final ev1 ++ [(sb, hb)]) (fe_impl_skipped ev1)) hb)
          as [t' [ev' [R' [Q1 [Q2 [Q3 [Q4 Q5]]]]]]].
        + unfold t2. cbn [ft_set_status ft_first]. rewrite P2. exact Hsb.
        + exact Fb.
        + exact Lbp.
        + intros [X _]. exact (NFb X).
        + intros x Fx. destruct (E1 x Fx) as [X|[X|X]]; [left; exact X | right; left; lia |].
          inversion X as [a|a p0 x0 L0 A0]; subst.
          * right. left. cbn [fst]. lia.
          * right. right. rewrite (c_link1 _ _ HC' _ _ _ Lbp L0). exact A0.
        + intros x y L. destruct (E2 x y L) as [X|X]; [left; exact X | right; lia].
        + intros s h Hs. apply N1. lia.
        + intros s Hs. apply N2. lia.
        + exact PO2.
        + intros s Hs1 Hs2. apply S2A; [|exact Hs2]. unfold t2 in Hs1. cbn [ft_set_status ft_first] in Hs1. rewrite P2 in Hs1. exact Hs1.
        + intros s Hs1 Hs2. apply S2B; [|exact Hs2]. unfold t2 in Hs1. cbn [ft_set_status ft_first] in Hs1. rewrite P2 in Hs1. exact Hs1.
        + intros s Hs. apply DB. unfold t2 in Hs. cbn [ft_set_status ft_first] in Hs. rewrite P2 in Hs. exact Hs.
        + exact K2.
        + assert (mu t2 sb < mu t m)%nat; [|lia].
          unfold mu, t2. cbn [ft_set_status ft_parents]. rewrite P1.
          unfold t2 in Ep. cbn [ft_set_status ft_parents] in Ep. rewrite P1 in Ep.
          apply (filter_length_lt _ _ _ ((sb, hb), p)).
          * intros y Hy. lia.
          * apply blookup_in. exact Ep.
          * cbn [fst]. lia.
          * cbn [fst]. lia.
        + exists t', ev'. split; [exact R'|].
          unfold t2 in Q1, Q2, Q3. cbn [ft_set_status ft_parents ft_first ft_highest] in Q1, Q2, Q3.
          rewrite P1 in Q1. rewrite P2 in Q2. rewrite P3 in Q3.
          repeat split; try assumption; try apply Q5.
          intros s Hs. apply Q4. unfold t2. cbn [ft_set_status ft_first]. rewrite P2. exact Hs.
      - exists t2, (mkFE (fe_final ev1) (fe_impl_final ev1 ++ [(sb, hb)]) (fe_impl_skipped ev1)).
        split; [reflexivity|].
        unfold t2 at 1 2 3. cbn [ft_set_status ft_parents ft_first ft_highest].
        repeat split; try assumption; try apply K2.
        intros s Hs. destruct (N.le_gt_cases sb s) as [Hle|Hgt]; [apply S2A; assumption|].
        assert (NoLink : forall p, ~ Link H' (sb, hb) p).
        { intros p L. assert (X : blookup (sb, hb) (ft_parents t2) = Some p).
          { apply PO2. split; [exact L|]. unfold t2. cbn [ft_set_status ft_first fst]. rewrite P2. exact Hsb. }
          congruence. }
        apply (below_transfer sb hb Fb) with (s := s); [| | | |exact Hgt|apply S2B; assumption].
        + intros x Fx Hx. destruct (Ffun x Fx Hx) as [X|[p [L _]]]; [exact X|]. exfalso. exact (NoLink p L).
        + intros c p Fc' L' Hc. destruct (N.eq_dec (fst c) sb) as [Ec|Ec].
          * exfalso. destruct c as [sc hc']. cbn [fst] in Ec. subst sc.
            rewrite (FinalStar_unique C H' HC' _ _ _ Fc' Fb) in L'. exact (NoLink p L').
          * split.
            -- destruct (Ffun c Fc' ltac:(lia)) as [X|[p0 [L0 _]]]; [exact X|]. exfalso. exact (NoLink p0 L0).
            -- destruct (E2 _ _ L') as [X|X]; [exact X | lia].
        + intros s0 h Hs0. apply N1. lia.
        + intros s0 Hs0. apply N2. lia. }
    (* already finalized: everything below has been handled before *)
    assert (Done : forall h w, st t sb = Some w -> (w = FFinalized h \/ w = FImplFinalized h) ->
      h = hb /\
      (forall t', ft_parents t' = ft_parents t1 -> ft_first t' = ft_first t1 -> ft_highest t' = ft_highest t1 ->
         (forall s, st t' s = st t1 s) -> KeysOK t' ->
         ft_parents t' = ft_parents t /\ ft_first t' = ft_first t /\ ft_highest t' = ft_highest t /\
         (forall s, ft_first t <= s -> StatusSpec H' s (st t' s)) /\ KeysOK t')).
    { intros h w Ew Hw.
      assert (Fh : FinalStar H (sb, h)).
      { rewrite Ew in SbSpec. destruct Hw as [-> | ->]; exact SbSpec. }
      assert (Eh : h = hb) by (apply (FinalStar_unique C H' HC' sb); [eapply FinalStar_ext; eassumption | exact Fb]).
      split; [exact Eh|]. subst h.
      intros t' T1 T2 T3 T4 T5. rewrite T1, T2, T3, P1, P2, P3. repeat split; try apply T5.
      intros s Hs. rewrite T4, St1. destruct ((sb <? s) && (s <? m)) eqn:Ebt; [apply Sk; lia|].
      destruct (N.le_gt_cases m s) as [Hms|Hms]; [apply SA; assumption|].
      destruct (N.eq_dec s sb) as [->|Hne].
      { rewrite Ew. destruct Hw as [-> | ->]; exact Fb. }
      assert (FH : forall x, FinalStar H' x -> fst x < sb -> FinalStar H x).
      { intros x Fx Hx. destruct (E1 x Fx) as [X|[X|X]]; [exact X | lia |].
        apply (FinalStar_anc H (sb, hb) x Fh). apply (Anc_old m); [exact E2 | cbn [fst]; lia | exact X]. }
      apply (below_transfer sb hb Fb) with (s := s); [exact FH| | | |lia|apply SB; lia].
      - intros c p Fc' L' Hc. split.
        + destruct (N.eq_dec (fst c) sb) as [Ec|Ec].
          * destruct c as [sc hc']. cbn [fst] in Ec. subst sc.
            rewrite (FinalStar_unique C H' HC' _ _ _ Fc' Fb). exact Fh.
          * apply FH; [exact Fc' | lia].
        + destruct (E2 _ _ L') as [X|X]; [exact X | lia].
      - intros s0 h Hs0. apply N1. lia.
      - intros s0 Hs0. apply N2. lia. }
    destruct (st t sb) as [[h| |h|h|]|] eqn:Est; cbn [StatusSpec] in SbSpec.
    + (* Notarized h *)
      destruct SbSpec as [Nh [_ [U _]]]. apply Cont. apply U.
    + destruct SbSpec as [_ [_ [U _]]]. apply Cont. apply U.
    + destruct (Done h _ eq_refl (or_introl eq_refl)) as [-> D]. rewrite N.eqb_refl.
      eexists; eexists. split; [reflexivity|]. apply D; try reflexivity.
      * intros s. unfold t2. rewrite !st_set. destruct (s =? sb) eqn:E; [|reflexivity].
        apply N.eqb_eq in E. subst. rewrite St1. replace ((sb <? sb) && (sb <? m)) with false by lia. symmetry. exact Est.
      * apply KeysOK_set; [exact K2 | unfold t2; cbn [ft_set_status ft_first]; rewrite P2; exact Hsb].
    + destruct (Done h _ eq_refl (or_intror eq_refl)) as [-> D]. rewrite N.eqb_refl.
      eexists; eexists. split; [reflexivity|]. apply D; try reflexivity.
      * intros s. unfold t2. rewrite !st_set. destruct (s =? sb) eqn:E; [|reflexivity].
        apply N.eqb_eq in E. subst. rewrite St1. replace ((sb <? sb) && (sb <? m)) with false by lia. symmetry. exact Est.
      * apply KeysOK_set; [exact K2 | unfold t2; cbn [ft_set_status ft_first]; rewrite P2; exact Hsb].
    + exfalso. apply (SkippedStar_ext H H' _ HE) in SbSpec. apply (SkippedStar_chain C H' HC') in SbSpec. congruence.
    + destruct SbSpec as [_ [_ [U _]]]. apply Cont. apply U.
Qed.
End Walk.


(* ================= what a successful walk emits (no assumption on the history) ================= *)
Lemma NoDup_app_intro {A} (a b : list A) :
  NoDup a -> NoDup b -> (forall x, In x a -> ~ In x b) -> NoDup (a ++ b).
Proof.
  induction a as [|x a IH]; intros Na Nb Hd; [exact Nb|].
  inversion Na as [|? ? Hx Na']; subst. cbn [app]. constructor.
  - rewrite in_app_iff. intros [X|X]; [exact (Hx X) | exact (Hd x (or_introl eq_refl) X)].
  - apply IH; [exact Na' | exact Nb | intros y Hy; apply Hd; right; exact Hy].
Qed.

Lemma skip_between_op : forall l t ev t' ev' fl,
  NoDup l -> ft_skip_between t ev l = Some (t', ev', fl) ->
  ft_parents t' = ft_parents t /\ ft_first t' = ft_first t /\ ft_highest t' = ft_highest t /\
  fe_final ev' = fe_final ev /\ fe_impl_final ev' = fe_impl_final ev /\
  exists ns, fe_impl_skipped ev' = fe_impl_skipped ev ++ ns /\
    (forall s, In s ns -> In s l /\ is_decided (st t s) = false /\ st t' s = Some FImplSkipped) /\
    (forall s, st t' s = st t s \/ In s ns) /\ NoDup ns.
Proof.
  induction l as [|s l IH]; intros t ev t' ev' fl ND R; cbn [ft_skip_between] in R.
  - injection R as <- <- <-. do 5 (split; [reflexivity|]). exists []. rewrite app_nil_r.
    split; [reflexivity|]. split; [intros s0 []|]. split; [intros s0; left; reflexivity | constructor].
  - inversion ND as [|? ? Hnin ND']; subst.
    change (alookup s (ft_status t)) with (st t s) in R.
    assert (Go : is_decided (st t s) = false ->
              ft_skip_between (ft_set_status t s FImplSkipped)
                (mkFE (fe_final ev) (fe_impl_final ev) (fe_impl_skipped ev ++ [s])) l = Some (t', ev', fl) ->
              ft_parents t' = ft_parents t /\ ft_first t' = ft_first t /\ ft_highest t' = ft_highest t /\
              fe_final ev' = fe_final ev /\ fe_impl_final ev' = fe_impl_final ev /\
              exists ns, fe_impl_skipped ev' = fe_impl_skipped ev ++ ns /\
                (forall s0, In s0 ns -> In s0 (s :: l) /\ is_decided (st t s0) = false /\ st t' s0 = Some FImplSkipped) /\
                (forall s0, st t' s0 = st t s0 \/ In s0 ns) /\ NoDup ns).
    { intros Und R'. destruct (IH _ _ _ _ _ ND' R') as [P1 [P2 [P3 [P4 [P5 [ns [P6 [P7 [P8 P9]]]]]]]]].
      cbn [ft_set_status ft_parents ft_first ft_highest fe_final fe_impl_final fe_impl_skipped] in *.
      do 5 (split; [assumption|]). exists (s :: ns).
      assert (Hns : ~ In s ns) by (intros X; apply Hnin; apply (P7 s X)).
      split; [rewrite P6, <- app_assoc; reflexivity|]. split; [|split].
      - intros s0 [<-|Hin].
        + split; [left; reflexivity|]. split; [exact Und|].
          destruct (P8 s) as [X|X]; [|contradiction]. rewrite X, st_set, N.eqb_refl. reflexivity.
        + destruct (P7 s0 Hin) as [Q1 [Q2 Q3]]. split; [right; exact Q1|]. split; [|exact Q3].
          rewrite st_set in Q2. replace (s0 =? s) with false in Q2; [exact Q2|].
          symmetry. apply N.eqb_neq. intros ->. contradiction.
      - intros s0. destruct (P8 s0) as [X|X]; [|right; right; exact X].
        rewrite st_set in X. destruct (s0 =? s) eqn:E; [right; left; apply N.eqb_eq in E; congruence | left; exact X].
      - constructor; assumption. }
    destruct (st t s) as [[h| |h|h|]|] eqn:Est; try discriminate.
    + apply Go; [reflexivity | exact R].
    + injection R as <- <- <-. cbn [ft_set_status ft_parents ft_first ft_highest].
      do 5 (split; [reflexivity|]). exists []. rewrite app_nil_r.
      split; [reflexivity|]. split; [intros s0 []|]. split; [|constructor].
      intros s0. left. rewrite st_set. destruct (s0 =? s) eqn:E; [|reflexivity].
      apply N.eqb_eq in E. subst. symmetry. exact Est.
    + apply Go; [reflexivity | exact R].
Qed.

Definition WalkOut (t : ftracker) (m : slot) (ev : fin_event) (t' : ftracker) (ev' : fin_event) : Prop :=
  ft_parents t' = ft_parents t /\ ft_first t' = ft_first t /\ ft_highest t' = ft_highest t /\
  fe_final ev' = fe_final ev /\
  exists nf ns, fe_impl_final ev' = fe_impl_final ev ++ nf /\ fe_impl_skipped ev' = fe_impl_skipped ev ++ ns /\
    (forall s, In s ns -> ft_first t <= s /\ s < m /\ is_decided (st t s) = false /\ st t' s = Some FImplSkipped) /\
    (forall x, In x nf -> ft_first t <= fst x /\ fst x < m /\ is_decided (st t (fst x)) = false /\
                          st t' (fst x) = Some (FImplFinalized (snd x))) /\
    (forall s, st t' s = st t s \/ In s ns \/ exists h, In (s, h) nf) /\
    NoDup ns /\ NoDup (map fst nf).

Lemma WalkOut_intro t m ev t' ev' nf ns :
  ft_parents t' = ft_parents t -> ft_first t' = ft_first t -> ft_highest t' = ft_highest t ->
  fe_final ev' = fe_final ev ->
  fe_impl_final ev' = fe_impl_final ev ++ nf -> fe_impl_skipped ev' = fe_impl_skipped ev ++ ns ->
  (forall s, In s ns -> ft_first t <= s /\ s < m /\ is_decided (st t s) = false /\ st t' s = Some FImplSkipped) ->
  (forall x, In x nf -> ft_first t <= fst x /\ fst x < m /\ is_decided (st t (fst x)) = false /\
                        st t' (fst x) = Some (FImplFinalized (snd x))) ->
  (forall s, st t' s = st t s \/ In s ns \/ exists h, In (s, h) nf) ->
  NoDup ns -> NoDup (map fst nf) -> WalkOut t m ev t' ev'.
Proof.
  intros. unfold WalkOut. do 4 (split; [assumption|]). exists nf, ns. tauto.
Qed.

Lemma handle_impl_op : forall fuel t m b ev t' ev',
  ft_handle_impl fuel t m b ev = Some (t', ev') -> WalkOut t m ev t' ev'.
Proof.
  induction fuel as [|f IH]; intros t m b ev t' ev' R; [discriminate|].
  destruct b as [sb hb]. cbn [ft_handle_impl fst snd] in R.
  destruct (sb <? m) eqn:Elt; cbn [negb] in R; [|discriminate].
  destruct (sb <? ft_first t) eqn:Ef.
  { injection R as <- <-.
    apply (WalkOut_intro t m ev t ev [] []);
      [reflexivity | reflexivity | reflexivity | reflexivity | symmetry; apply app_nil_r | symmetry; apply app_nil_r
      | intros s [] | intros x [] | intros s; left; reflexivity | constructor | constructor]. }
  destruct (ft_skip_between t ev (seqN (sb + 1) (N.to_nat (m - sb - 1)))) as [[[t1 ev1] fl]|] eqn:Esk; [|discriminate].
  destruct (skip_between_op _ _ _ _ _ _ (seqN_nodup _ _) Esk) as [P1 [P2 [P3 [P4 [P5 [ns1 [P6 [P7 [P8 P9]]]]]]]]].
  assert (Hns1 : forall s, In s ns1 -> ft_first t <= s /\ s < m /\ sb < s /\ is_decided (st t s) = false /\ st t1 s = Some FImplSkipped).
  { intros s Hin. destruct (P7 s Hin) as [Q1 [Q2 Q3]]. apply in_between in Q1. repeat split; try assumption; lia. }
  assert (Stb : st t1 sb = st t sb).
  { destruct (P8 sb) as [X|X]; [exact X|]. apply Hns1 in X. lia. }
  destruct fl.
  { injection R as <- <-.
    apply (WalkOut_intro t m ev t1 ev1 [] ns1);
      [assumption | assumption | assumption | assumption | rewrite P5; symmetry; apply app_nil_r | assumption
      | | intros x [] | | assumption | constructor].
    - intros s Hin. destruct (Hns1 s Hin) as [A1 [A2 [A3 [A4 A5]]]]. auto.
    - intros s. destruct (P8 s) as [X|X]; [left; exact X | right; left; exact X]. }
  cbv zeta in R. change (alookup sb (ft_status t1)) with (st t1 sb) in R. rewrite Stb in R.
  set (t2 := ft_set_status t1 sb (FImplFinalized hb)) in R.
  set (ev2 := mkFE (fe_final ev1) (fe_impl_final ev1 ++ [(sb, hb)]) (fe_impl_skipped ev1)) in R.
  assert (Restore : forall w, st t sb = Some w ->
            Some (ft_set_status t2 sb w, ev1) = Some (t', ev') -> WalkOut t m ev t' ev').
  { intros w Ew R'. injection R' as <- <-.
    assert (Stt : forall s, st (ft_set_status t2 sb w) s = st t1 s).
    { intros s. unfold t2. rewrite !st_set. destruct (s =? sb) eqn:E; [|reflexivity]. apply N.eqb_eq in E. subst. rewrite Stb. symmetry. exact Ew. }
    apply (WalkOut_intro t m ev _ ev1 [] ns1);
      [exact P1 | exact P2 | exact P3 | assumption | rewrite P5; symmetry; apply app_nil_r | assumption
      | | intros x [] | | assumption | constructor].
    - intros s Hin. destruct (Hns1 s Hin) as [A1 [A2 [A3 [A4 A5]]]]. rewrite Stt. auto.
    - intros s. rewrite Stt. destruct (P8 s) as [X|X]; [left; exact X | right; left; exact X]. }
  assert (Cont : is_decided (st t sb) = false ->
            match blookup (sb, hb) (ft_parents t2) with
            | Some p => ft_handle_impl f t2 sb p ev2
            | None => Some (t2, ev2)
            end = Some (t', ev') -> WalkOut t m ev t' ev').
  { intros Und R'.
    assert (St2 : forall s, st t2 s = if s =? sb then Some (FImplFinalized hb) else st t1 s) by (intros s; apply st_set).
    destruct (blookup (sb, hb) (ft_parents t2)) as [p|].
    - destruct (IH _ _ _ _ _ _ R') as [Q1 [Q2 [Q3 [Q4 [nf [ns [Q5 [Q6 [Q7 [Q8 [Q9 [Q10 Q11]]]]]]]]]]]].
      unfold t2 in Q1, Q2, Q3. cbn [ft_set_status ft_parents ft_first ft_highest] in Q1, Q2, Q3.
      unfold ev2 in Q4, Q5, Q6. cbn [fe_final fe_impl_final fe_impl_skipped] in Q4, Q5, Q6.
      assert (Above : forall s, sb <= s -> st t' s = st t2 s).
      { intros s Hs. destruct (Q9 s) as [X|[X|[h X]]]; [exact X | apply Q7 in X; lia | apply Q8 in X; cbn [fst] in X; lia]. }
      apply (WalkOut_intro t m ev t' ev' ((sb, hb) :: nf) (ns1 ++ ns)); try congruence.
      + rewrite Q5, P5, <- app_assoc. reflexivity.
      + rewrite Q6, P6, <- app_assoc. reflexivity.
      + intros s Hin. apply in_app_iff in Hin. destruct Hin as [Hin|Hin].
        * destruct (Hns1 s Hin) as [A1 [A2 [A3 [A4 A5]]]]. repeat split; try assumption.
          rewrite Above by lia. rewrite St2. replace (s =? sb) with false by lia. exact A5.
        * destruct (Q7 s Hin) as [A1 [A2 [A3 A4]]]. unfold t2 in A1. cbn [ft_set_status ft_first] in A1.
          repeat split; try assumption; try lia.
          rewrite St2 in A3. replace (s =? sb) with false in A3 by lia.
          destruct (P8 s) as [X|X]; [rewrite <- X; exact A3 | apply Hns1 in X; lia].
      + intros x [<-|Hin].
        * cbn [fst snd]. repeat split; try assumption; try lia.
          rewrite Above by lia. rewrite St2, N.eqb_refl. reflexivity.
        * destruct (Q8 x Hin) as [A1 [A2 [A3 A4]]]. unfold t2 in A1. cbn [ft_set_status ft_first] in A1.
          repeat split; try assumption; try lia.
          rewrite St2 in A3. replace (fst x =? sb) with false in A3 by lia.
          destruct (P8 (fst x)) as [X|X]; [rewrite <- X; exact A3 | apply Hns1 in X; lia].
      + intros s. destruct (Q9 s) as [X|[X|[h X]]].
        * rewrite X, St2. destruct (s =? sb) eqn:E.
          -- apply N.eqb_eq in E. subst. right. right. exists hb. left. reflexivity.
          -- destruct (P8 s) as [Y|Y]; [left; exact Y | right; left; apply in_app_iff; left; exact Y].
        * right. left. apply in_app_iff. right. exact X.
        * right. right. exists h. right. exact X.
      + apply NoDup_app_intro; [exact P9 | exact Q10|].
        intros s A B. apply Hns1 in A. apply Q7 in B. lia.
      + cbn [map fst]. constructor; [|exact Q11].
        intros X. apply in_map_iff in X. destruct X as [x [E X]]. apply Q8 in X. lia.
    - injection R' as <- <-.
      apply (WalkOut_intro t m ev t2 ev2 [(sb, hb)] ns1); try assumption.
      + unfold ev2. cbn [fe_impl_final]. rewrite P5. reflexivity.
      + intros s Hin. destruct (Hns1 s Hin) as [A1 [A2 [A3 [A4 A5]]]]. repeat split; try assumption.
        rewrite St2. replace (s =? sb) with false by lia. exact A5.
      + intros x [<-|[]]. cbn [fst snd]. repeat split; try assumption; try lia.
        rewrite St2, N.eqb_refl. reflexivity.
      + intros s. rewrite St2. destruct (s =? sb) eqn:E.
        * apply N.eqb_eq in E. subst. right. right. exists hb. left. reflexivity.
        * destruct (P8 s) as [Y|Y]; [left; exact Y | right; left; exact Y].
      + cbn [map]. constructor; [intros [] | constructor]. }
  destruct (st t sb) as [[h| |h|h|]|] eqn:Est.
  - apply Cont; [reflexivity | exact R].
  - apply Cont; [reflexivity | exact R].
  - destruct (h =? hb); [|discriminate]. apply (Restore _ eq_refl R).
  - destruct (h =? hb); [|discriminate]. apply (Restore _ eq_refl R).
  - discriminate.
  - apply Cont; [reflexivity | exact R].
Qed.

Lemma walk_fin_direct H fuel t m b ev t' ev' :
  ft_handle_impl fuel t m b ev = Some (t', ev') -> FinDirect H t -> FinDirect H t'.
Proof.
  intros R FD s h E.
  destruct (handle_impl_op _ _ _ _ _ _ _ R) as [_ [_ [_ [_ [nf [ns [_ [_ [W7 [W8 [W9 _]]]]]]]]]]].
  destruct (W9 s) as [X|[X|[h0 X]]].
  - apply FD. rewrite <- X. exact E.
  - destruct (W7 s X) as [_ [_ [_ Y]]]. rewrite Y in E. discriminate.
  - destruct (W8 _ X) as [_ [_ [_ Y]]]. cbn [fst snd] in Y. rewrite Y in E. discriminate.
Qed.

(* ================= the invariant of a run ================= *)
Record Inv (H : hist) (t : ftracker) : Prop := {
  inv_parents : ParentsOK H t;
  inv_status : forall s, ft_first t <= s -> StatusSpec H s (st t s);
  inv_below : DecidedBelow H t;
  inv_wm : is_decided (st t (ft_first t + 1)) = false;
  inv_high_ub : forall b, Direct H b -> fst b <= ft_highest t;
  inv_high_max : ft_highest t = 0 \/ exists b, Direct H b /\ fst b = ft_highest t;
  inv_keys : KeysOK t;
  inv_fin_direct : FinDirect H t }.

Lemma decided_status H s o : is_decided o = true -> StatusSpec H s o -> Decided H s.
Proof.
  destruct o as [[h| |h|h|]|]; cbn [is_decided StatusSpec]; try discriminate; intros _ S.
  - left. exists h. exact S.
  - left. exists h. exact S.
  - right. exact S.
Qed.
Lemma undecided_status H s o : StatusSpec H s o -> is_decided o = false -> Undecided H s.
Proof.
  destruct o as [[h| |h|h|]|]; cbn [is_decided StatusSpec]; try discriminate; intros S _; apply S.
Qed.

(* every finalized block has a directly finalized descendant-or-self *)
Section Direct.
Variable C : slot -> option hash.
Variable H : hist.
Hypothesis HC : Cons C H.
Lemma FinalStar_direct b : FinalStar H b -> exists d, Direct H d /\ fst b <= fst d.
Proof.
  intros F. induction F as [b D|c p F [d [D Hd]] L].
  - exists b. split; [exact D | lia].
  - exists d. split; [exact D|]. pose proof (c_link_lt _ _ HC _ _ L). lia.
Qed.
Lemma Decided_direct s : Decided H s -> exists d, Direct H d /\ s <= fst d.
Proof.
  intros [[h F]|[c [p [F [L B]]]]].
  - destruct (FinalStar_direct _ F) as [d [D Hd]]. exists d. cbn [fst] in Hd. auto.
  - destruct (FinalStar_direct _ F) as [d [D Hd]]. exists d. split; [exact D | lia].
Qed.
End Direct.

(* ---------- pruning ---------- *)
Lemma alookup_in {V} k (v : V) m : alookup k m = Some v -> In (k, v) m.
Proof.
  induction m as [|[k' v'] m IH]; cbn [alookup]; [discriminate|].
  destruct (k =? k') eqn:E.
  - apply N.eqb_eq in E. subst. intros X. injection X as ->. left. reflexivity.
  - intros X. right. apply IH. exact X.
Qed.

Lemma advance_stops : forall fuel (status : list (slot * fstatus)) first,
  (length (filter (fun kv => first <? fst kv) status) <= fuel)%nat ->
  is_decided (alookup (ft_advance fuel status first + 1) status) = false.
Proof.
  induction fuel as [|f IH]; intros status first Hl; cbn [ft_advance].
  - destruct (alookup (first + 1) status) as [v|] eqn:E; [|reflexivity].
    apply alookup_in in E.
    assert (X : In (first + 1, v) (filter (fun kv => first <? fst kv) status)).
    { apply filter_In. split; [exact E|]. cbn [fst]. lia. }
    destruct (filter (fun kv => first <? fst kv) status); [destruct X | cbn [length] in Hl; lia].
  - destruct (is_decided (alookup (first + 1) status)) eqn:E; [|exact E].
    apply IH.
    destruct (alookup (first + 1) status) as [v|] eqn:E2; [|discriminate].
    apply alookup_in in E2.
    assert (length (filter (fun kv => first + 1 <? fst kv) status) < length (filter (fun kv => first <? fst kv) status))%nat; [|lia].
    apply (filter_length_lt _ _ _ (first + 1, v)); [|exact E2| |]; cbn [fst]; intros; lia.
Qed.

Lemma st_prune t s : st (ft_prune t) s = if ft_first (ft_prune t) <=? s then st t s else None.
Proof.
  unfold st, ft_prune. cbn [ft_status ft_first].
  apply (alookup_filter_key (fun k => ft_advance (length (ft_status t)) (ft_status t) (ft_first t) <=? k)).
Qed.

Lemma prune_inv H t :
  ParentsOK H t -> (forall s, ft_first t <= s -> StatusSpec H s (st t s)) -> DecidedBelow H t -> KeysOK t ->
  ParentsOK H (ft_prune t) /\ (forall s, ft_first (ft_prune t) <= s -> StatusSpec H s (st (ft_prune t) s)) /\
  DecidedBelow H (ft_prune t) /\ is_decided (st (ft_prune t) (ft_first (ft_prune t) + 1)) = false /\
  KeysOK (ft_prune t) /\ ft_first t <= ft_first (ft_prune t) /\ ft_highest (ft_prune t) = ft_highest t.
Proof.
  intros PO SS DB K.
  destruct (ft_prune_spec t) as [G1 [G2 [G3 [G4 G5]]]]. cbv zeta in *.
  assert (BL : forall b, blookup b (ft_parents (ft_prune t)) =
               if ft_first (ft_prune t) <=? fst b then blookup b (ft_parents t) else None).
  { intros b. unfold ft_prune. cbn [ft_parents ft_first].
    apply (blookup_filter_key (fun k => ft_advance (length (ft_status t)) (ft_status t) (ft_first t) <=? fst k)). }
  split; [|split; [|split; [|split; [|split; [|split]]]]].
  - intros b p. rewrite BL. split.
    + intros L. destruct (ft_first (ft_prune t) <=? fst b) eqn:E; [|discriminate].
      split; [apply (proj1 (PO b p)); exact L | lia].
    + intros [L Hf]. replace (ft_first (ft_prune t) <=? fst b) with true by lia.
      apply PO. split; [exact L | lia].
  - intros s Hs. rewrite st_prune. replace (ft_first (ft_prune t) <=? s) with true by lia. apply SS. lia.
  - intros s Hs. destruct (N.le_gt_cases s (ft_first t)) as [Hle|Hgt]; [apply DB; lia|].
    apply (decided_status H s (st t s)); [apply G3; lia | apply SS; lia].
  - rewrite st_prune. replace (_ <=? _) with true by lia.
    unfold ft_prune. cbn [ft_first]. apply advance_stops. apply filter_length_le.
  - split; [exact G4 | exact G5].
  - exact G1.
  - exact G2.
Qed.

(* ---------- what a new mark / a new link can add to the finalized set ---------- *)
Lemma FS_new_mark H H' d x :
  (forall y, Direct H' y -> Direct H y \/ y = d) -> (forall a b, Link H' a b -> Link H a b) ->
  FinalStar H' x -> FinalStar H x \/ Anc H d x.
Proof.
  intros D L F. induction F as [b Db|c p F IH Lc].
  - destruct (D b Db) as [X| ->]; [left; apply FS_direct; exact X | right; apply Anc_refl].
  - apply L in Lc. destruct IH as [X|X]; [left; eapply FS_anc; eassumption | right; eapply Anc_snoc; eassumption].
Qed.
Lemma FS_new_link H H' c p x :
  (forall y, Direct H' y -> Direct H y) -> (forall a b, Link H' a b -> Link H a b \/ (a = c /\ b = p)) ->
  FinalStar H' x -> FinalStar H x \/ (FinalStar H c /\ Anc H' p x).
Proof.
  intros D L F. induction F as [b Db|c0 p0 F IH Lc].
  - left. apply FS_direct. apply D. exact Db.
  - destruct IH as [X|[X1 X2]].
    + destruct (L _ _ Lc) as [Y|[-> ->]]; [left; eapply FS_anc; eassumption | right; split; [exact X | apply Anc_refl]].
    + right. split; [exact X1 | eapply Anc_snoc; eassumption].
Qed.
Lemma Anc_ext H H' a x : Ext H H' -> Anc H a x -> Anc H' a x.
Proof. intros E A. induction A as [a|a p x L A IH]; [apply Anc_refl | eapply Anc_step; [apply E; exact L | exact IH]]. Qed.

(* ================= events against the specification ================= *)
(* sound: everything reported is newly justified, nothing twice inside one event;
   complete: everything newly justified is reported (genesis apart, see FinalityProofs: genesis_event_* ) *)
Definition EvSound (H H' : hist) (ev : fin_event) : Prop :=
  (forall x, In x (ev_blocks ev) -> FinalStar H' x /\ ~ FinalStar H x) /\ NoDup (ev_blocks ev) /\
  (forall s, In s (fe_impl_skipped ev) -> SkippedStar H' s /\ ~ SkippedStar H s) /\ NoDup (fe_impl_skipped ev).
Definition EvComplete (H H' : hist) (ev : fin_event) : Prop :=
  (forall x, FinalStar H' x -> ~ FinalStar H x -> 0 < fst x -> In x (ev_blocks ev)) /\
  (forall s, SkippedStar H' s -> ~ SkippedStar H s -> In s (fe_impl_skipped ev)).
Definition EvOK (H H' : hist) (ev : fin_event) : Prop := EvSound H H' ev /\ EvComplete H H' ev.

(* how the event relates the status before (t0) and after the operation, before pruning (t2) *)
Record OpRel (t0 t2 : ftracker) (ev : fin_event) : Prop := {
  or_blocks : forall x, In x (ev_blocks ev) ->
     ft_first t0 <= fst x /\ is_decided (st t0 (fst x)) = false /\ view_of (st t2 (fst x)) = VFinal (snd x);
  or_skips : forall s, In s (fe_impl_skipped ev) ->
     ft_first t0 <= s /\ is_decided (st t0 s) = false /\ st t2 s = Some FImplSkipped;
  or_changes : forall s, view_of (st t2 s) = view_of (st t0 s) \/ is_decided (st t2 s) = false \/
                         In s (fe_impl_skipped ev) \/ exists h, In (s, h) (ev_blocks ev);
  or_nodup_b : NoDup (map fst (ev_blocks ev));
  or_nodup_s : NoDup (fe_impl_skipped ev) }.

Lemma OpRel_empty t0 t2 :
  (forall s, view_of (st t2 s) = view_of (st t0 s) \/ is_decided (st t2 s) = false) -> OpRel t0 t2 fe_empty.
Proof.
  intros Hv. split; cbn.
  - intros x [].
  - intros s [].
  - intros s. destruct (Hv s) as [X|X]; auto.
  - constructor.
  - constructor.
Qed.

Section Events.
Variable C : slot -> option hash.
Variables H H' : hist.
Hypothesis HC' : Cons C H'.
Hypothesis HE : Ext H H'.

Lemma view_final s o h : StatusSpec H' s o -> FinalStar H' (s, h) -> view_of o = VFinal h.
Proof.
  intros S F. destruct o as [[h'| |h'|h'|]|]; cbn [StatusSpec view_of] in *.
  - exfalso. destruct S as [_ [_ [U _]]]. exact (U h F).
  - exfalso. destruct S as [_ [_ [U _]]]. exact (U h F).
  - f_equal. apply (FinalStar_unique C H' HC' s); assumption.
  - f_equal. apply (FinalStar_unique C H' HC' s); assumption.
  - exfalso. exact (final_not_skipped C H' HC' s h F S).
  - exfalso. destruct S as [_ [_ [U _]]]. exact (U h F).
Qed.
Lemma view_skipped s o : StatusSpec H' s o -> SkippedStar H' s -> o = Some FImplSkipped.
Proof.
  intros S F. destruct o as [[h'| |h'|h'|]|]; cbn [StatusSpec] in *.
  - exfalso. destruct S as [_ [_ [_ U]]]. exact (U F).
  - exfalso. destruct S as [_ [_ [_ U]]]. exact (U F).
  - exfalso. exact (final_not_skipped C H' HC' s h' S F).
  - exfalso. exact (final_not_skipped C H' HC' s h' S F).
  - reflexivity.
  - exfalso. destruct S as [_ [_ [_ U]]]. exact (U F).
Qed.
Lemma view_final_inv H0 s o h : StatusSpec H0 s o -> view_of o = VFinal h -> FinalStar H0 (s, h).
Proof.
  destruct o as [[h'| |h'|h'|]|]; cbn [StatusSpec view_of]; intros S E; try discriminate; injection E as <-; exact S.
Qed.

(* below the watermark everything that will ever be justified is justified already *)
Lemma below_final t0 x : Inv H t0 -> FinalStar H' x -> 0 < fst x < ft_first t0 -> FinalStar H x.
Proof.
  intros I F Hx. destruct (inv_below _ _ I (fst x)) as [[h F0]|S0]; [lia| |].
  - destruct x as [sx hx]. cbn [fst] in *.
    rewrite (FinalStar_unique C H' HC' sx hx h F (FinalStar_ext H H' _ HE F0)). exact F0.
  - exfalso. destruct x as [sx hx]. cbn [fst] in *.
    exact (final_not_skipped C H' HC' sx hx F (SkippedStar_ext H H' _ HE S0)).
Qed.
Lemma below_skipped t0 s : Inv H t0 -> SkippedStar H' s -> 0 < s < ft_first t0 -> SkippedStar H s.
Proof.
  intros I F Hs. destruct (inv_below _ _ I s) as [[h F0]|S0]; [lia| |exact S0].
  exfalso. exact (final_not_skipped C H' HC' s h (FinalStar_ext H H' _ HE F0) F).
Qed.

Lemma ev_from_status t0 t2 ev :
  Inv H t0 -> (forall s, ft_first t0 <= s -> StatusSpec H' s (st t2 s)) -> OpRel t0 t2 ev -> EvOK H H' ev.
Proof.
  intros I SS [O1 O2 O3 O4 O5].
  split; [split; [|split; [|split]] | split].
  - intros x Hx. destruct (O1 x Hx) as [A1 [A2 A3]]. destruct x as [sx hx]. cbn [fst snd] in *. split.
    + apply (view_final_inv H' sx (st t2 sx)); [apply SS; exact A1 | exact A3].
    + apply (undecided_status H sx (st t0 sx)); [apply (inv_status _ _ I); exact A1 | exact A2].
  - apply (NoDup_map_inv fst). exact O4.
  - intros s Hs. destruct (O2 s Hs) as [A1 [A2 A3]]. split.
    + pose proof (SS s A1) as S. rewrite A3 in S. exact S.
    + apply (undecided_status H s (st t0 s)); [apply (inv_status _ _ I); exact A1 | exact A2].
  - exact O5.
  - intros x F NF Hx. destruct (N.lt_ge_cases (fst x) (ft_first t0)) as [Hlt|Hge].
    + exfalso. apply NF. apply (below_final t0); [exact I | exact F | lia].
    + destruct x as [sx hx]. cbn [fst] in *.
      pose proof (view_final sx (st t2 sx) hx (SS sx Hge) F) as V.
      destruct (O3 sx) as [X|[X|[X|[h X]]]].
      * exfalso. apply NF. apply (view_final_inv H sx (st t0 sx)); [apply (inv_status _ _ I); exact Hge | congruence].
      * exfalso. destruct (st t2 sx) as [[h'| |h'|h'|]|]; cbn in V, X; discriminate.
      * exfalso. destruct (O2 sx X) as [_ [_ A3]]. rewrite A3 in V. discriminate.
      * destruct (O1 _ X) as [_ [_ A3]]. cbn [fst snd] in A3. rewrite A3 in V. injection V as ->. exact X.
  - intros s F NF.
    assert (Hpos : 0 < s) by (destruct F as [c [p [_ [_ B]]]]; lia).
    destruct (N.lt_ge_cases s (ft_first t0)) as [Hlt|Hge].
    + exfalso. apply NF. apply (below_skipped t0); [exact I | exact F | lia].
    + pose proof (view_skipped s (st t2 s) (SS s Hge) F) as V.
      destruct (O3 s) as [X|[X|[X|[h X]]]].
      * exfalso. apply NF. rewrite V in X. cbn [view_of] in X.
        pose proof (inv_status _ _ I s Hge) as S0.
        destruct (st t0 s) as [[h'| |h'|h'|]|]; cbn in X; try discriminate. exact S0.
      * rewrite V in X. discriminate.
      * exact X.
      * exfalso. destruct (O1 _ X) as [_ [_ A3]]. cbn [fst snd] in A3. rewrite V in A3. discriminate.
Qed.

(* an operation that changes no status and reports nothing *)
Lemma ev_empty_same t0 t2 :
  Inv H t0 -> (forall s, ft_first t0 <= s -> StatusSpec H' s (st t2 s)) ->
  (forall s, view_of (st t2 s) = view_of (st t0 s) \/ is_decided (st t2 s) = false) -> EvOK H H' fe_empty.
Proof. intros I SS Hv. apply (ev_from_status t0 t2); [exact I | exact SS | apply OpRel_empty; exact Hv]. Qed.
End Events.

(* ================= one operation ================= *)
Section Step.
Variable C : slot -> option hash.
Variables H H' : hist.
Hypothesis HC' : Cons C H'.
Hypothesis HE : Ext H H'.

Lemma slot_transfer s o :
  (forall h, Notar H' (s, h) -> Notar H (s, h)) -> (Fin H' s -> Fin H s) ->
  (forall h, FinalStar H' (s, h) -> FinalStar H (s, h)) ->
  (forall c p, FinalStar H' c -> Link H' c p -> fst p < s < fst c -> FinalStar H c /\ Link H c p) ->
  StatusSpec H s o -> StatusSpec H' s o.
Proof.
  intros N1 N2 N3 N4 S. apply (StatusSpec_transfer H H' s o HE); auto.
  intros [c [p [F [L B]]]]. destruct (N4 c p F L B) as [F0 L0]. exists c, p. auto.
Qed.

Lemma finish_inv t0 t2 :
  Inv H t0 -> ParentsOK H' t2 -> (forall s, ft_first t2 <= s -> StatusSpec H' s (st t2 s)) ->
  ft_first t2 = ft_first t0 -> KeysOK t2 ->
  (forall b, Direct H' b -> fst b <= ft_highest t2) ->
  (ft_highest t2 = 0 \/ exists b, Direct H' b /\ fst b = ft_highest t2) ->
  FinDirect H' t2 ->
  Inv H' (ft_prune t2) /\ ft_first t0 <= ft_first (ft_prune t2).
Proof.
  intros I PO SS Ef K HU HM FD.
  assert (DB : DecidedBelow H' t2).
  { intros s Hs. rewrite Ef in Hs. apply (Decided_ext H H' s HE). apply (inv_below _ _ I). exact Hs. }
  destruct (prune_inv H' t2 PO SS DB K) as [Q1 [Q2 [Q3 [Q4 [Q5 [Q6 Q7]]]]]].
  split; [|lia]. split; try assumption; try (rewrite Q7; assumption).
  intros s h E. rewrite st_prune in E. destruct (ft_first (ft_prune t2) <=? s); [apply FD; exact E | discriminate].
Qed.

(* no new finalized block, no change to parents / watermark / highest slot *)
Lemma same_inv t0 t1 :
  Inv H t0 ->
  ft_parents t1 = ft_parents t0 -> ft_first t1 = ft_first t0 -> ft_highest t1 = ft_highest t0 -> KeysOK t1 ->
  (forall a b, Link H' a b -> Link H a b) ->
  (forall y, Direct H' y -> Direct H y \/ fst y <= ft_highest t0) ->
  (forall s, ft_first t0 <= s -> StatusSpec H' s (st t1 s)) ->
  is_decided (st t1 (ft_first t0 + 1)) = false ->
  FinDirect H' t1 ->
  Inv H' t1.
Proof.
  intros I E1 E2 E3 K L D SS WM FD. split.
  - intros b p. rewrite E1, E2. split.
    + intros X. apply (inv_parents _ _ I) in X. destruct X as [X1 X2]. split; [apply HE; exact X1 | exact X2].
    + intros [X1 X2]. apply (inv_parents _ _ I). split; [apply L; exact X1 | exact X2].
  - intros s Hs. apply SS. rewrite <- E2. exact Hs.
  - intros s Hs. rewrite E2 in Hs. apply (Decided_ext H H' s HE). apply (inv_below _ _ I). exact Hs.
  - rewrite E2. exact WM.
  - intros b Db. rewrite E3. destruct (D b Db) as [X|X]; [apply (inv_high_ub _ _ I); exact X | exact X].
  - rewrite E3. destruct (inv_high_max _ _ I) as [X|[b [X1 X2]]]; [left; exact X|].
    right. exists b. split; [eapply Direct_ext; eassumption | exact X2].
  - exact K.
  - exact FD.
Qed.

Lemma decided_le_highest t0 s : Inv H t0 -> Decided H s -> s <= ft_highest t0.
Proof.
  intros I D. destruct (Decided_direct C H (Cons_ext _ _ _ HE HC') s D) as [d [Dd Hd]].
  pose proof (inv_high_ub _ _ I d Dd). lia.
Qed.
Lemma first_le_highest t0 : Inv H t0 -> ft_first t0 <= ft_highest t0.
Proof.
  intros I. destruct (N.eq_dec (ft_first t0) 0) as [E|E]; [lia|].
  apply decided_le_highest; [exact I|]. apply (inv_below _ _ I). lia.
Qed.

(* an operation on a slot below the watermark is ignored, and rightly so *)
Lemma below_inv0 t0 :
  Inv H t0 ->
  (forall x, FinalStar H' x -> FinalStar H x \/ fst x < ft_first t0) ->
  (forall c p, Link H' c p -> Link H c p \/ fst c < ft_first t0) ->
  (forall s h, ft_first t0 <= s -> Notar H' (s, h) -> Notar H (s, h)) ->
  (forall s, ft_first t0 <= s -> Fin H' s -> Fin H s) ->
  (forall y, Direct H' y -> Direct H y \/ fst y < ft_first t0) ->
  Inv H' t0.
Proof.
  intros I F L N1 N2 D.
  pose proof (first_le_highest t0 I) as FH.
  split.
  - intros b p. split.
    + intros X. apply (inv_parents _ _ I) in X. destruct X as [X1 X2]. split; [apply HE; exact X1 | exact X2].
    + intros [X1 X2]. apply (inv_parents _ _ I). split; [|exact X2]. destruct (L _ _ X1) as [Y|Y]; [exact Y | lia].
  - intros s Hs. apply slot_transfer; [intros h; apply N1; exact Hs | apply N2; exact Hs | | | apply (inv_status _ _ I); exact Hs].
    + intros h X. destruct (F _ X) as [Y|Y]; [exact Y | cbn [fst] in Y; lia].
    + intros c p Fc Lc B. split.
      * destruct (F _ Fc) as [Y|Y]; [exact Y | lia].
      * destruct (L _ _ Lc) as [Y|Y]; [exact Y | lia].
  - intros s Hs. apply (Decided_ext H H' s HE). apply (inv_below _ _ I). exact Hs.
  - apply (inv_wm _ _ I).
  - intros b Db. destruct (D b Db) as [X|X]; [apply (inv_high_ub _ _ I); exact X | lia].
  - destruct (inv_high_max _ _ I) as [X|[b [X1 X2]]]; [left; exact X|].
    right. exists b. split; [eapply Direct_ext; eassumption | exact X2].
  - apply (inv_keys _ _ I).
  - intros s h E. apply (Direct_ext H H' _ HE). apply (inv_fin_direct _ _ I). exact E.
Qed.

Lemma below_inv t0 :
  Inv H t0 ->
  (forall x, FinalStar H' x -> FinalStar H x \/ fst x < ft_first t0) ->
  (forall c p, Link H' c p -> Link H c p \/ fst c < ft_first t0) ->
  (forall s h, ft_first t0 <= s -> Notar H' (s, h) -> Notar H (s, h)) ->
  (forall s, ft_first t0 <= s -> Fin H' s -> Fin H s) ->
  (forall y, Direct H' y -> Direct H y \/ fst y < ft_first t0) ->
  Inv H' t0 /\ EvOK H H' fe_empty.
Proof.
  intros I F L N1 N2 D. pose proof (below_inv0 t0 I F L N1 N2 D) as I'. split; [exact I'|].
  apply (ev_empty_same C H H' HC' HE t0 t0 I (inv_status _ _ I')). intros s. left. reflexivity.
Qed.

Lemma undecided_not_decided s o : StatusSpec H s o -> Undecided H s -> is_decided o = false.
Proof.
  intros S [U1 U2]. destruct o as [[h| |h|h|]|]; cbn [StatusSpec is_decided] in *; try reflexivity; exfalso.
  - exact (U1 h S).
  - exact (U1 h S).
  - exact (U2 S).
Qed.

(* handle_finalized_block for a block that has just become directly finalized *)
Lemma hfb_inv t0 t1 s h :
  Inv H t0 -> ft_first t0 <= s ->
  ft_parents t1 = ft_parents t0 -> ft_first t1 = ft_first t0 -> ft_highest t1 = ft_highest t0 ->
  (forall s', st t1 s' = if s' =? s then Some (FFinalized h) else st t0 s') -> KeysOK t1 ->
  Undecided H s -> Direct H' (s, h) ->
  (forall y, Direct H' y -> Direct H y \/ y = (s, h)) ->
  (forall a b, Link H' a b -> Link H a b) ->
  (forall s' h', s' <> s -> Notar H' (s', h') -> Notar H (s', h')) ->
  (forall s', s' <> s -> Fin H' s' -> Fin H s') ->
  exists t' ev', ft_handle_finalized_block t1 (s, h) fe_empty = Some (t', ev') /\
    (Inv H' t' /\ EvOK H H' ev') /\ ft_first t0 <= ft_first t' /\ ft_highest t0 <= ft_highest t'.
Proof.
  intros I Hs E1 E2 E3 St1 K1 [U1 U2] Dn D L N1 N2.
  pose proof (Cons_ext _ _ _ HE HC') as HC.
  unfold ft_handle_finalized_block. cbn [fst fe_impl_final fe_impl_skipped fe_empty ft_parents].
  set (ev1 := mkFE (Some (s, h)) [] []).
  set (t1' := mkFT (ft_status t1) (ft_parents t1) (N.max s (ft_highest t1)) (ft_first t1)).
  assert (Fn : FinalStar H' (s, h)) by (apply FS_direct; exact Dn).
  assert (FSn : forall x, FinalStar H' x -> FinalStar H x \/ Anc H (s, h) x) by (intros x; apply FS_new_mark; assumption).
  assert (PO1 : ParentsOK H' t1').
  { intros b p. unfold t1'. cbn [ft_parents ft_first]. rewrite E1, E2. split.
    - intros X. apply (inv_parents _ _ I) in X. destruct X as [X1 X2]. split; [apply HE; exact X1 | exact X2].
    - intros [X1 X2]. apply (inv_parents _ _ I). split; [apply L; exact X1 | exact X2]. }
  assert (K1' : KeysOK t1') by exact K1.
  assert (HU : forall b, Direct H' b -> fst b <= N.max s (ft_highest t1)).
  { intros b Db. destruct (D b Db) as [X| ->]; [pose proof (inv_high_ub _ _ I b X); lia | cbn [fst]; lia]. }
  assert (HM : N.max s (ft_highest t1) = 0 \/ exists b, Direct H' b /\ fst b = N.max s (ft_highest t1)).
  { destruct (N.max_spec s (ft_highest t1)) as [[_ ->]|[_ ->]].
    - rewrite E3. destruct (inv_high_max _ _ I) as [X|[b [X1 X2]]]; [left; exact X|].
      right. exists b. split; [eapply Direct_ext; eassumption | exact X2].
    - right. exists (s, h). split; [exact Dn | reflexivity]. }
  (* slots other than s that the walk does not touch *)
  assert (Other : forall s', ft_first t0 <= s' -> s' <> s ->
            (s < s' \/ forall p, ~ Link H (s, h) p) -> StatusSpec H' s' (st t0 s')).
  { intros s' Hs' Hne Hcase.
    assert (NA : forall x, Anc H (s, h) x -> fst x = s' -> False).
    { intros x A Ex. destruct Hcase as [Hgt|NoL].
      - pose proof (Anc_le C H HC _ _ A) as Y. cbn [fst] in Y. lia.
      - inversion A as [a|a p0 x0 L0 A0]; subst; [cbn [fst] in Hne; congruence | exact (NoL _ L0)]. }
    apply slot_transfer; [intros h'; apply N1; exact Hne | apply N2; exact Hne | | | apply (inv_status _ _ I); exact Hs'].
    - intros h' X. destruct (FSn _ X) as [Y|Y]; [exact Y|]. exfalso. apply (NA _ Y). reflexivity.
    - intros c p Fc Lc B. split; [|apply L; exact Lc].
      destruct (FSn _ Fc) as [Y|Y]; [exact Y|]. exfalso. destruct Hcase as [Hgt|NoL].
      + pose proof (Anc_le C H HC _ _ Y) as Z. cbn [fst] in Z. lia.
      + inversion Y as [a|a p0 x0 L0 A0]; subst; [exact (NoL _ (L _ _ Lc)) | exact (NoL _ L0)]. }
  assert (FD1 : FinDirect H' t1').
  { intros s' h' E. change (st t1' s') with (st t1 s') in E. rewrite St1 in E. destruct (s' =? s) eqn:Es.
    - apply N.eqb_eq in Es. subst s'. injection E as <-. exact Dn.
    - apply (Direct_ext H H' _ HE). apply (inv_fin_direct _ _ I). exact E. }
  destruct (blookup (s, h) (ft_parents t1)) as [p|] eqn:Ep.
  - assert (Lp : Link H (s, h) p) by (rewrite E1 in Ep; apply (inv_parents _ _ I) in Ep; apply Ep).
    destruct (walk_spec C H H' HC' HE (ft_fuel t1') t1' s p ev1 h) as [t2 [ev2 [R [Q1 [Q2 [Q3 [Q4 Q5]]]]]]].
    + unfold t1'. cbn [ft_first]. lia.
    + exact Fn.
    + apply HE. exact Lp.
    + intros [X _]. exact (U1 h X).
    + intros x Fx. destruct (FSn x Fx) as [X|X]; [left; exact X|].
      inversion X as [a|a p0 x0 L0 A0]; subst; [right; left; cbn [fst]; lia|].
      right. right. rewrite (c_link1 _ _ HC _ _ _ Lp L0). eapply Anc_ext; eassumption.
    + intros x y Lxy. left. apply L. exact Lxy.
    + intros s' h' Hlt. apply N1. lia.
    + intros s' Hlt. apply N2. lia.
    + exact PO1.
    + intros s' Hs1 Hs2. change (st t1' s') with (st t1 s'). rewrite St1. destruct (s' =? s) eqn:E.
      * apply N.eqb_eq in E. subst. exact Fn.
      * unfold t1' in Hs1. cbn [ft_first] in Hs1. apply Other; [lia | lia | left; lia].
    + intros s' Hs1 Hs2. change (st t1' s') with (st t1 s'). rewrite St1. replace (s' =? s) with false by lia.
      apply (inv_status _ _ I). unfold t1' in Hs1. cbn [ft_first] in Hs1. lia.
    + intros s' Hs'. unfold t1' in Hs'. cbn [ft_first] in Hs'. rewrite E2 in Hs'. apply (inv_below _ _ I). exact Hs'.
    + exact K1'.
    + unfold ft_fuel, mu. apply le_n_S, le_S, filter_length_le.
    + match goal with |- context [ft_handle_impl ?a ?b ?c ?d ?e] =>
        replace (ft_handle_impl a b c d e) with (Some (t2, ev2)) by (symmetry; exact R) end.
      destruct (finish_inv t0 t2 I) as [G1 G2].
      * intros b0 p0. rewrite Q1, Q2. apply PO1.
      * intros s' Hs'. apply Q4. rewrite <- Q2. exact Hs'.
      * rewrite Q2. exact E2.
      * exact Q5.
      * rewrite Q3. exact HU.
      * rewrite Q3. exact HM.
      * apply (walk_fin_direct H' _ _ _ _ _ _ _ R). exact FD1.
      * exists (ft_prune t2), ev2. split; [reflexivity|]. split; [split; [exact G1|]|].
        2:{ split; [exact G2|]. unfold ft_prune. cbn [ft_highest]. rewrite Q3. unfold t1'. cbn [ft_highest]. lia. }
        destruct (handle_impl_op _ _ _ _ _ _ _ R) as [W1 [W2 [W3 [W4 [nf [ns [W5 [W6 [W7 [W8 [W9 [W10 W11]]]]]]]]]]]].
        unfold ev1 in W4, W5, W6. cbn [fe_final fe_impl_final fe_impl_skipped app] in W4, W5, W6.
        assert (Ud : is_decided (st t0 s) = false).
        { apply (undecided_not_decided s); [apply (inv_status _ _ I); exact Hs | split; assumption]. }
        assert (Top : st t2 s = Some (FFinalized h)).
        { destruct (W9 s) as [X|[X|[h0 X]]].
          - rewrite X. change (st t1' s) with (st t1 s). rewrite St1, N.eqb_refl. reflexivity.
          - apply W7 in X. lia.
          - apply W8 in X. cbn [fst] in X. lia. }
        assert (Old1 : forall s', s' <> s -> st t1' s' = st t0 s').
        { intros s' Hne. change (st t1' s') with (st t1 s'). rewrite St1. replace (s' =? s) with false by lia. reflexivity. }
        apply (ev_from_status C H H' HC' HE t0 t2 ev2 I).
        { intros s' Hs'. apply Q4. unfold t1'. cbn [ft_first]. lia. }
        assert (Eb : ev_blocks ev2 = (s, h) :: nf) by (unfold ev_blocks; rewrite W4, W5; reflexivity).
        split.
        -- rewrite Eb. intros x [<-|Hin].
           ++ cbn [fst snd]. rewrite Top. cbn [view_of]. auto.
           ++ destruct (W8 x Hin) as [A1 [A2 [A3 A4]]]. unfold t1' in A1. cbn [ft_first] in A1.
              rewrite Old1 in A3 by lia. rewrite A4. cbn [view_of]. split; [lia|]. auto.
        -- rewrite W6. intros s' Hin. destruct (W7 s' Hin) as [A1 [A2 [A3 A4]]]. unfold t1' in A1. cbn [ft_first] in A1.
           rewrite Old1 in A3 by lia. split; [lia|]. auto.
        -- rewrite Eb, W6. intros s'. destruct (W9 s') as [X|[X|[h0 X]]].
           ++ destruct (N.eq_dec s' s) as [->|Hne].
              ** right. right. right. exists h. left. reflexivity.
              ** left. rewrite X, Old1 by exact Hne. reflexivity.
           ++ right. right. left. exact X.
           ++ right. right. right. exists h0. right. exact X.
        -- rewrite Eb. cbn [map fst]. constructor; [|exact W11].
           intros X. apply in_map_iff in X. destruct X as [x [E X]]. apply W8 in X. lia.
        -- rewrite W6. exact W10.
  - assert (NoL : forall p, ~ Link H (s, h) p).
    { intros p Lp. assert (X : blookup (s, h) (ft_parents t0) = Some p) by (apply (inv_parents _ _ I); split; [exact Lp | cbn [fst]; exact Hs]).
      rewrite E1 in Ep. congruence. }
    destruct (finish_inv t0 t1' I) as [G1 G2].
    + exact PO1.
    + intros s' Hs'. change (st t1' s') with (st t1 s'). rewrite St1. destruct (s' =? s) eqn:E.
      * apply N.eqb_eq in E. subst. exact Fn.
      * unfold t1' in Hs'. cbn [ft_first] in Hs'. apply Other; [lia | lia | right; exact NoL].
    + exact E2.
    + exact K1'.
    + exact HU.
    + exact HM.
    + exact FD1.
    + exists (ft_prune t1'), ev1. split; [reflexivity|]. split; [split; [exact G1|]|].
      2:{ split; [exact G2|]. unfold ft_prune, t1'. cbn [ft_highest]. lia. }
      assert (Ud : is_decided (st t0 s) = false).
      { apply (undecided_not_decided s); [apply (inv_status _ _ I); exact Hs | split; assumption]. }
      apply (ev_from_status C H H' HC' HE t0 t1' ev1 I).
      { intros s' Hs'. change (st t1' s') with (st t1 s'). rewrite St1. destruct (s' =? s) eqn:E.
        - apply N.eqb_eq in E. subst. exact Fn.
        - apply Other; [lia | lia | right; exact NoL]. }
      split; unfold ev1, ev_blocks; cbn [fe_final fe_impl_final fe_impl_skipped app map fst].
      * intros x [<-|[]]. cbn [fst snd]. change (st t1' s) with (st t1 s). rewrite St1, N.eqb_refl. cbn [view_of]. auto.
      * intros s' [].
      * intros s'. change (st t1' s') with (st t1 s'). rewrite St1. destruct (s' =? s) eqn:E.
        -- apply N.eqb_eq in E. subst. right. right. right. exists h. left. reflexivity.
        -- left. reflexivity.
      * constructor; [intros [] | constructor].
      * constructor.
Qed.
End Step.

Lemma FS_same H H' x :
  (forall y, Direct H' y -> Direct H y) -> (forall a b, Link H' a b -> Link H a b) ->
  FinalStar H' x -> FinalStar H x.
Proof.
  intros D L F. induction F as [b Db|c p F IH Lc].
  - apply FS_direct. apply D. exact Db.
  - eapply FS_anc; [exact IH | apply L; exact Lc].
Qed.

Section Step2.
Variable C : slot -> option hash.
Variables H H' : hist.
Hypothesis HC' : Cons C H'.
Hypothesis HE : Ext H H'.

(* a mark on slot s that finalizes nothing new *)
Lemma nochange_inv t0 t1 s :
  Inv H t0 ->
  ft_parents t1 = ft_parents t0 -> ft_first t1 = ft_first t0 -> ft_highest t1 = ft_highest t0 -> KeysOK t1 ->
  (forall a b, Link H' a b -> Link H a b) ->
  (forall x, FinalStar H' x -> FinalStar H x) ->
  (forall y, Direct H' y -> Direct H y \/ fst y <= ft_highest t0) ->
  (forall s' h', s' <> s -> Notar H' (s', h') -> Notar H (s', h')) ->
  (forall s', s' <> s -> Fin H' s' -> Fin H s') ->
  (forall s', s' <> s -> st t1 s' = st t0 s') ->
  StatusSpec H' s (st t1 s) -> is_decided (st t1 s) = is_decided (st t0 s) -> FinDirectAt H' s (st t1 s) ->
  ft_first t0 <= s ->
  Inv H' t1 /\ EvOK H H' fe_empty.
Proof.
  intros I E1 E2 E3 K L F D N1 N2 St S Dec FDs Hs.
  assert (I' : Inv H' t1); [|split; [exact I'|]].
  2:{ apply (ev_empty_same C H H' HC' HE t0 t1 I).
      - intros s' Hs'. apply (inv_status _ _ I'). rewrite E2. exact Hs'.
      - intros s'. destruct (N.eq_dec s' s) as [->|Hne]; [|left; rewrite (St s' Hne); reflexivity].
        pose proof (inv_status _ _ I s Hs) as S0.
        destruct (st t1 s) as [[h1| |h1|h1|]|]; cbn [is_decided] in Dec; try (right; reflexivity);
        destruct (st t0 s) as [[h0| |h0|h0|]|]; cbn [is_decided] in Dec; try discriminate;
        cbn [StatusSpec view_of] in *; left;
        try (f_equal; apply (FinalStar_unique C H' HC' s); [exact S | eapply FinalStar_ext; eassumption]);
        try reflexivity; exfalso.
        + exact (final_not_skipped C H' HC' s h1 S (SkippedStar_ext H H' s HE S0)).
        + exact (final_not_skipped C H' HC' s h1 S (SkippedStar_ext H H' s HE S0)).
        + exact (final_not_skipped C H' HC' s h0 (FinalStar_ext H H' _ HE S0) S).
        + exact (final_not_skipped C H' HC' s h0 (FinalStar_ext H H' _ HE S0) S). }
  apply (same_inv H H' HE t0 t1 I E1 E2 E3 K L D).
  - intros s' Hs'. destruct (N.eq_dec s' s) as [->|Hne]; [exact S|].
    rewrite (St s' Hne). apply (slot_transfer H H' HE).
    + intros h'. apply N1. exact Hne.
    + apply N2. exact Hne.
    + intros h'. apply F.
    + intros c p Fc Lc _. split; [apply F; exact Fc | apply L; exact Lc].
    + apply (inv_status _ _ I). exact Hs'.
  - destruct (N.eq_dec (ft_first t0 + 1) s) as [E|Hne].
    + rewrite E, Dec, <- E. apply (inv_wm _ _ I).
    + rewrite (St _ Hne). apply (inv_wm _ _ I).
  - intros s' h' E. destruct (N.eq_dec s' s) as [->|Hne].
    + rewrite E in FDs. exact FDs.
    + rewrite (St s' Hne) in E. apply (Direct_ext H H' _ HE). apply (inv_fin_direct _ _ I). exact E.
Qed.

Lemma Undecided_same s :
  (forall a b, Link H' a b -> Link H a b) -> (forall x, FinalStar H' x -> FinalStar H x) ->
  Undecided H s -> Undecided H' s.
Proof.
  intros L F [U1 U2]. split.
  - intros h X. apply (U1 h). apply F. exact X.
  - intros [c [p [Fc [Lc B]]]]. apply U2. exists c, p. repeat split; try lia; [apply F; exact Fc | apply L; exact Lc].
Qed.
End Step2.

(* ================= the four operations ================= *)
Section Ops.
Variable C : slot -> option hash.
Variable H : hist.
Variable t : ftracker.
Hypothesis I : Inv H t.

Definition StepOK (o : ft_op) : Prop :=
  exists t' ev, ft_step t o = Some (t', ev) /\ (Inv (H ++ [o]) t' /\ EvOK H (H ++ [o]) ev) /\
                ft_first t <= ft_first t' /\ ft_highest t <= ft_highest t'.

Lemma step_fast s h : Cons C (H ++ [TFast (s, h)]) -> StepOK (TFast (s, h)).
Proof.
  set (H' := H ++ [TFast (s, h)]). intros HC'.
  pose proof (Ext_app H (TFast (s, h))) as HE. fold H' in HE.
  pose proof (Cons_ext _ _ _ HE HC') as HC.
  assert (D : forall y, Direct H' y -> Direct H y \/ y = (s, h)).
  { intros y [X|[X1 X2]].
    - apply Fast_app in X. destruct X as [X|X]; [left; left; exact X | right; congruence].
    - left. right. apply Fin_app in X1. destruct X1 as [X1|X1]; [|discriminate].
      apply Notar_app in X2. destruct X2 as [X2|X2]; [|discriminate]. auto. }
  assert (L : forall a b, Link H' a b -> Link H a b).
  { intros a b X. apply Link_app in X. destruct X as [X|X]; [exact X | discriminate]. }
  assert (N1 : forall b, Notar H' b -> Notar H b).
  { intros b X. apply Notar_app in X. destruct X as [X|X]; [exact X | discriminate]. }
  assert (N2 : forall s', Fin H' s' -> Fin H s').
  { intros s' X. apply Fin_app in X. destruct X as [X|X]; [exact X | discriminate]. }
  assert (Dn : Direct H' (s, h)) by (left; apply Fast_app; right; reflexivity).
  assert (Cs : C s = Some h) by (apply (c_fast _ _ HC' (s, h)); apply Fast_app; right; reflexivity).
  assert (FSn : forall x, FinalStar H' x -> FinalStar H x \/ Anc H (s, h) x) by (intros x; apply FS_new_mark; assumption).
  unfold StepOK. fold H'. cbn [ft_step]. unfold ft_mark_fast_finalized. cbn [fst snd].
  destruct (s <? ft_first t) eqn:Es.
  - exists t, fe_empty. split; [reflexivity|]. split; [|lia]. apply (below_inv C H H' HC' HE t I).
    + intros x Fx. destruct (FSn x Fx) as [X|X]; [left; exact X|]. right.
      pose proof (Anc_le C H HC _ _ X) as Y. cbn [fst] in Y. lia.
    + intros c p X. left. apply L. exact X.
    + intros s' h' _. apply N1.
    + intros s' _. apply N2.
    + intros y Dy. destruct (D y Dy) as [X| ->]; [left; exact X | right; cbn [fst]; lia].
  - assert (Hs : ft_first t <= s) by lia. pose proof (inv_status _ _ I s Hs) as S.
    change (alookup s (ft_status t)) with (st t s).
    set (t1 := ft_set_status t s (FFinalized h)).
    assert (K1 : KeysOK t1) by (apply KeysOK_set; [apply (inv_keys _ _ I) | exact Hs]).
    assert (St1 : forall s', st t1 s' = if s' =? s then Some (FFinalized h) else st t s') by (intros s'; apply st_set).
    assert (New : Undecided H s -> exists t' ev, ft_handle_finalized_block t1 (s, h) fe_empty = Some (t', ev) /\
                    (Inv H' t' /\ EvOK H H' ev) /\ ft_first t <= ft_first t' /\ ft_highest t <= ft_highest t').
    { intros U. apply (hfb_inv C H H' HC' HE t t1 s h I Hs); try reflexivity; try assumption.
      - intros s' h' _. apply N1.
      - intros s' _. apply N2. }
    assert (Old : FinalStar H (s, h) -> is_decided (st t s) = true ->
                  exists t' ev, Some (t1, fe_empty) = Some (t', ev) /\
                    (Inv H' t' /\ EvOK H H' ev) /\ ft_first t <= ft_first t' /\ ft_highest t <= ft_highest t').
    { intros Fh Dec. exists t1, fe_empty. split; [reflexivity|]. split; [|unfold t1; cbn [ft_set_status ft_first ft_highest]; lia].
      apply (nochange_inv C H H' HC' HE t t1 s I); try reflexivity; try assumption.
      - intros x Fx. destruct (FSn x Fx) as [X|X]; [exact X | eapply FinalStar_anc; eassumption].
      - intros y Dy. destruct (D y Dy) as [X| ->]; [left; exact X|]. right. cbn [fst].
        apply (decided_le_highest C H H' HC' HE t s I). left. exists h. exact Fh.
      - intros s' h' _. apply N1.
      - intros s' _. apply N2.
      - intros s' Hne. rewrite St1. replace (s' =? s) with false by lia. reflexivity.
      - rewrite St1, N.eqb_refl. cbn [StatusSpec]. eapply FinalStar_ext; eassumption.
      - rewrite St1, N.eqb_refl. rewrite Dec. reflexivity.
      - rewrite St1, N.eqb_refl. cbn [FinDirectAt]. exact Dn. }
    destruct (st t s) as [[h'| |h'|h'|]|] eqn:Est; cbn [StatusSpec] in S.
    + destruct S as [Nh [_ U]].
      assert (h = h').
      { apply (c_fast_notar _ _ HC' s h h'); [apply Fast_app; right; reflexivity | apply HE; exact Nh]. }
      subst h'.
      rewrite N.eqb_refl. apply New. exact U.
    + apply New. apply S.
    + pose proof (FinalStar_chain C H HC _ S) as X. cbn [fst snd] in X. assert (h' = h) by congruence. subst h'.
      rewrite N.eqb_refl. apply Old; [exact S | reflexivity].
    + pose proof (FinalStar_chain C H HC _ S) as X. cbn [fst snd] in X. assert (h' = h) by congruence. subst h'.
      rewrite N.eqb_refl. apply Old; [exact S | reflexivity].
    + exfalso. apply (SkippedStar_chain C H HC) in S. congruence.
    + apply New. apply S.
Qed.

Ltac fin_same := eexists; eexists; split; [reflexivity|]; split; [|cbn [ft_set_status ft_first ft_highest]; lia].
Ltac keys_set I Hs := repeat (apply KeysOK_set; [|exact Hs]); apply (inv_keys _ _ I).
Ltac st_other := let s' := fresh "s'" in let Hne := fresh "Hne" in
  intros s' Hne; rewrite !st_set; replace (s' =? _) with false by lia; reflexivity.

Lemma step_notar s h : Cons C (H ++ [TNotar (s, h)]) -> StepOK (TNotar (s, h)).
Proof.
  set (H' := H ++ [TNotar (s, h)]). intros HC'.
  pose proof (Ext_app H (TNotar (s, h))) as HE. fold H' in HE.
  pose proof (Cons_ext _ _ _ HE HC') as HC.
  assert (Nn : Notar H' (s, h)) by (apply Notar_app; right; reflexivity).
  assert (N1 : forall b, Notar H' b -> Notar H b \/ b = (s, h)).
  { intros b X. apply Notar_app in X. destruct X as [X|X]; [left; exact X | right; congruence]. }
  assert (N1' : forall s' h', s' <> s -> Notar H' (s', h') -> Notar H (s', h')).
  { intros s' h' Hne X. destruct (N1 _ X) as [Y|Y]; [exact Y | congruence]. }
  assert (N2 : forall s', Fin H' s' -> Fin H s').
  { intros s' X. apply Fin_app in X. destruct X as [X|X]; [exact X | discriminate]. }
  assert (N2' : forall s', s' <> s -> Fin H' s' -> Fin H s') by (intros s' _; apply N2).
  assert (D : forall y, Direct H' y -> Direct H y \/ (y = (s, h) /\ Fin H s)).
  { intros y [X|[X1 X2]].
    - apply Fast_app in X. destruct X as [X|X]; [left; left; exact X | discriminate].
    - apply N2 in X1. destruct (N1 _ X2) as [Y| ->]; [left; right; auto | right; auto]. }
  assert (D0 : forall y, Direct H' y -> Direct H y \/ y = (s, h)).
  { intros y Dy. destruct (D y Dy) as [X|[X _]]; auto. }
  assert (L : forall a b, Link H' a b -> Link H a b).
  { intros a b X. apply Link_app in X. destruct X as [X|X]; [exact X | discriminate]. }
  assert (FSn : forall x, FinalStar H' x -> FinalStar H x \/ Anc H (s, h) x) by (intros x; apply FS_new_mark; assumption).
  (* the two reasons why nothing new is finalized *)
  assert (FnoFin : ~ Fin H s -> (forall x, FinalStar H' x -> FinalStar H x) /\
                   (forall y, Direct H' y -> Direct H y \/ fst y <= ft_highest t)).
  { intros NF. assert (Ds : forall y, Direct H' y -> Direct H y).
    { intros y Dy. destruct (D y Dy) as [X|[_ X]]; [exact X | contradiction]. }
    split; [intros x; apply FS_same; assumption | intros y Dy; left; apply Ds; exact Dy]. }
  assert (Ffinal : FinalStar H (s, h) -> (forall x, FinalStar H' x -> FinalStar H x) /\
                   (forall y, Direct H' y -> Direct H y \/ fst y <= ft_highest t)).
  { intros Fh. split.
    - intros x Fx. destruct (FSn x Fx) as [X|X]; [exact X | eapply FinalStar_anc; eassumption].
    - intros y Dy. destruct (D0 y Dy) as [X| ->]; [left; exact X|]. right. cbn [fst].
      apply (decided_le_highest C H H' HC' HE t s I). left. exists h. exact Fh. }
  unfold StepOK. fold H'. cbn [ft_step]. unfold ft_mark_notarized. cbn [fst snd].
  destruct (s <? ft_first t) eqn:Es.
  - exists t, fe_empty. split; [reflexivity|]. split; [|lia]. apply (below_inv C H H' HC' HE t I).
    + intros x Fx. destruct (FSn x Fx) as [X|X]; [left; exact X|]. right.
      pose proof (Anc_le C H HC _ _ X) as Y. cbn [fst] in Y. lia.
    + intros c p X. left. apply L. exact X.
    + intros s' h' Hs'. apply N1'. lia.
    + intros s' _. apply N2.
    + intros y Dy. destruct (D0 y Dy) as [X| ->]; [left; exact X | right; cbn [fst]; lia].
  - assert (Hs : ft_first t <= s) by lia. pose proof (inv_status _ _ I s Hs) as S.
    change (alookup s (ft_status t)) with (st t s).
    destruct (st t s) as [[h'| |h'|h'|]|] eqn:Est; cbn [StatusSpec] in S.
    + (* Notarized h' *)
      destruct S as [Nh [NF U]].
      assert (h' = h) by (apply (c_notar1 _ _ HC' s h' h); [apply HE; exact Nh | exact Nn]). subst h'.
      rewrite N.eqb_refl. destruct (FnoFin NF) as [F Dh]. fin_same.
      apply (nochange_inv C H H' HC' HE t _ s I); try reflexivity; try assumption.
      * keys_set I Hs.
      * st_other.
      * rewrite st_set, N.eqb_refl. cbn [StatusSpec]. split; [exact Nn|]. split; [intros X; apply NF; apply N2; exact X|].
        apply (Undecided_same H H' s L F U).
      * rewrite st_set, N.eqb_refl, Est. reflexivity.
      * rewrite st_set, N.eqb_refl. cbv beta iota delta [FinDirectAt]. first [exact Logic.I | assumption].
    + (* FinalPendingNotar: the block becomes directly finalized *)
      destruct S as [Fs [NN U]].
      apply (hfb_inv C H H' HC' HE t _ s h I Hs); try reflexivity; try assumption.
      * intros s'. rewrite !st_set. destruct (s' =? s); reflexivity.
      * keys_set I Hs.
      * right. split; [apply HE; exact Fs | exact Nn].
    + (* Finalized h': directly finalized, so h' is the slot's only notarized block *)
      pose proof (inv_fin_direct _ _ I s h' Est) as Dd.
      assert (h' = h).
      { destruct Dd as [Fa|[Fi Nh]].
        - apply (c_fast_notar _ _ HC' s h' h); [apply HE; exact Fa | exact Nn].
        - apply (c_notar1 _ _ HC' s h' h); [apply HE; exact Nh | exact Nn]. }
      subst h'. pose proof (Direct_ext H H' _ HE Dd) as Dd'.
      rewrite N.eqb_refl. destruct (Ffinal S) as [F Dh]. fin_same.
      apply (nochange_inv C H H' HC' HE t _ s I); try reflexivity; try assumption.
      * keys_set I Hs.
      * st_other.
      * rewrite st_set, N.eqb_refl. cbn [StatusSpec]. eapply FinalStar_ext; eassumption.
      * rewrite st_set, N.eqb_refl, Est. reflexivity.
      * rewrite st_set, N.eqb_refl. cbv beta iota delta [FinDirectAt]. first [exact Logic.I | assumption].
    + (* ImplFinalized h': the notarized block may be another one (then the slot has no final mark) *)
      assert (FD : (forall x, FinalStar H' x -> FinalStar H x) /\
                   (forall y, Direct H' y -> Direct H y \/ fst y <= ft_highest t)).
      { destruct (finb H s) eqn:Ef.
        - apply finb_true_early in Ef.
          pose proof (c_fin_notar _ _ HC' s h (ext_fin _ _ HE _ Ef) Nn) as X.
          pose proof (FinalStar_chain C H HC _ S) as Y. cbn [fst snd] in Y.
          assert (h' = h) by congruence. subst h'. apply Ffinal. exact S.
        - apply FnoFin. intros X. apply finb_iff_early in X. congruence. }
      destruct FD as [F Dh]. fin_same.
      apply (nochange_inv C H H' HC' HE t _ s I); try reflexivity; try assumption.
      * keys_set I Hs.
      * st_other.
      * rewrite st_set, N.eqb_refl. cbn [StatusSpec]. eapply FinalStar_ext; eassumption.
      * rewrite st_set, N.eqb_refl, Est. reflexivity.
      * rewrite st_set, N.eqb_refl. cbv beta iota delta [FinDirectAt]. first [exact Logic.I | assumption].
    + (* ImplSkipped *)
      assert (NF : ~ Fin H s).
      { intros X. apply (c_fin _ _ HC s X). apply (SkippedStar_chain C H HC). exact S. }
      destruct (FnoFin NF) as [F Dh]. fin_same.
      apply (nochange_inv C H H' HC' HE t _ s I); try reflexivity; try assumption.
      * keys_set I Hs.
      * st_other.
      * rewrite st_set, N.eqb_refl. cbn [StatusSpec]. eapply SkippedStar_ext; eassumption.
      * rewrite st_set, N.eqb_refl, Est. reflexivity.
      * rewrite st_set, N.eqb_refl. cbv beta iota delta [FinDirectAt]. first [exact Logic.I | assumption].
    + (* nothing known *)
      destruct S as [NN [NF U]]. destruct (FnoFin NF) as [F Dh]. fin_same.
      apply (nochange_inv C H H' HC' HE t _ s I); try reflexivity; try assumption.
      * keys_set I Hs.
      * st_other.
      * rewrite st_set, N.eqb_refl. cbn [StatusSpec]. split; [exact Nn|]. split; [intros X; apply NF; apply N2; exact X|].
        apply (Undecided_same H H' s L F U).
      * rewrite st_set, N.eqb_refl, Est. reflexivity.
      * rewrite st_set, N.eqb_refl. cbv beta iota delta [FinDirectAt]. first [exact Logic.I | assumption].
Qed.

Lemma step_final s : Cons C (H ++ [TFinal s]) -> StepOK (TFinal s).
Proof.
  set (H' := H ++ [TFinal s]). intros HC'.
  pose proof (Ext_app H (TFinal s)) as HE. fold H' in HE.
  pose proof (Cons_ext _ _ _ HE HC') as HC.
  assert (Fn : Fin H' s) by (apply Fin_app; right; reflexivity).
  assert (N1 : forall b, Notar H' b -> Notar H b).
  { intros b X. apply Notar_app in X. destruct X as [X|X]; [exact X | discriminate]. }
  assert (N1' : forall s' h', s' <> s -> Notar H' (s', h') -> Notar H (s', h')) by (intros s' h' _; apply N1).
  assert (N2 : forall s', Fin H' s' -> Fin H s' \/ s' = s).
  { intros s' X. apply Fin_app in X. destruct X as [X|X]; [left; exact X | right; congruence]. }
  assert (N2' : forall s', s' <> s -> Fin H' s' -> Fin H s').
  { intros s' Hne X. destruct (N2 _ X) as [Y|Y]; [exact Y | congruence]. }
  assert (D : forall y, Direct H' y -> Direct H y \/ (fst y = s /\ Notar H y)).
  { intros y [X|[X1 X2]].
    - apply Fast_app in X. destruct X as [X|X]; [left; left; exact X | discriminate].
    - apply N1 in X2. destruct (N2 _ X1) as [Y|Y]; [left; right; auto | right; auto]. }
  assert (L : forall a b, Link H' a b -> Link H a b).
  { intros a b X. apply Link_app in X. destruct X as [X|X]; [exact X | discriminate]. }
  assert (Cs : C s <> None) by (apply (c_fin _ _ HC' s Fn)).
  (* with a notarized block h the only possibly new directly finalized block is (s, h) *)
  assert (Dh : forall h, Notar H (s, h) -> forall y, Direct H' y -> Direct H y \/ y = (s, h)).
  { intros h Nh y Dy. destruct (D y Dy) as [X|[X1 X2]]; [left; exact X|]. right.
    destruct y as [sy hy]. cbn [fst] in X1. subst sy. f_equal. apply (c_notar1 _ _ HC s hy h X2 Nh). }
  assert (FnoNotar : (forall h, ~ Notar H (s, h)) -> (forall x, FinalStar H' x -> FinalStar H x) /\
                   (forall y, Direct H' y -> Direct H y \/ fst y <= ft_highest t)).
  { intros NN. assert (Ds : forall y, Direct H' y -> Direct H y).
    { intros y Dy. destruct (D y Dy) as [X|[X1 X2]]; [exact X|]. exfalso. destruct y as [sy hy]. cbn [fst] in X1. subst sy. exact (NN _ X2). }
    split; [intros x; apply FS_same; assumption | intros y Dy; left; apply Ds; exact Dy]. }
  assert (Ffinal : forall h, FinalStar H (s, h) -> (forall x, FinalStar H' x -> FinalStar H x) /\
                   (forall y, Direct H' y -> Direct H y \/ fst y <= ft_highest t)).
  { intros h Fh.
    assert (Dy' : forall y, Direct H' y -> Direct H y \/ y = (s, h)).
    { intros y Dy. destruct (D y Dy) as [X|[X1 X2]]; [left; exact X|]. right.
      destruct y as [sy hy]. cbn [fst] in X1. subst sy. f_equal.
      pose proof (FinalStar_chain C H HC _ Fh) as Y. cbn [fst snd] in Y.
      pose proof (c_fin_notar _ _ HC' s hy Fn (ext_notar _ _ HE _ X2)) as Z. congruence. }
    split.
    - intros x Fx. destruct (FS_new_mark H H' (s, h) x Dy' L Fx) as [X|X]; [exact X | eapply FinalStar_anc; eassumption].
    - intros y Dy. destruct (Dy' y Dy) as [X| ->]; [left; exact X|]. right. cbn [fst].
      apply (decided_le_highest C H H' HC' HE t s I). left. exists h. exact Fh. }
  unfold StepOK. fold H'. cbn [ft_step]. unfold ft_mark_finalized.
  destruct (s <? ft_first t) eqn:Es.
  - exists t, fe_empty. split; [reflexivity|]. split; [|lia]. apply (below_inv C H H' HC' HE t I).
    + assert (Dlt : forall y, Direct H' y -> Direct H y \/ fst y < ft_first t).
      { intros y Dy. destruct (D y Dy) as [X|[X _]]; [left; exact X | right; lia]. }
      intros x Fx. induction Fx as [b Db|c p Fc IH Lc].
      * destruct (Dlt b Db) as [X|X]; [left; apply FS_direct; exact X | right; exact X].
      * apply L in Lc. destruct IH as [X|X]; [left; eapply FS_anc; eassumption|].
        right. pose proof (c_link_lt _ _ HC _ _ Lc). lia.
    + intros c p X. left. apply L. exact X.
    + intros s' h' _. apply N1.
    + intros s' Hs'. apply N2'. lia.
    + intros y Dy. destruct (D y Dy) as [X|[X _]]; [left; exact X | right; lia].
  - assert (Hs : ft_first t <= s) by lia. pose proof (inv_status _ _ I s Hs) as S.
    change (alookup s (ft_status t)) with (st t s).
    destruct (st t s) as [[h'| |h'|h'|]|] eqn:Est; cbn [StatusSpec] in S.
    + (* Notarized h': the block becomes directly finalized *)
      destruct S as [Nh [NF U]].
      apply (hfb_inv C H H' HC' HE t _ s h' I Hs); try reflexivity; try assumption.
      * intros s'. rewrite !st_set. destruct (s' =? s); reflexivity.
      * keys_set I Hs.
      * right. split; [exact Fn | apply HE; exact Nh].
      * apply Dh. exact Nh.
    + (* FinalPendingNotar *)
      destruct S as [Fs [NN U]]. destruct (FnoNotar NN) as [F Dy]. fin_same.
      apply (nochange_inv C H H' HC' HE t _ s I); try reflexivity; try assumption.
      * keys_set I Hs.
      * st_other.
      * rewrite st_set, N.eqb_refl. cbn [StatusSpec]. split; [exact Fn|]. split; [intros h X; apply (NN h); apply N1; exact X|].
        apply (Undecided_same H H' s L F U).
      * rewrite st_set, N.eqb_refl, Est. reflexivity.
      * rewrite st_set, N.eqb_refl. cbv beta iota delta [FinDirectAt]. first [exact Logic.I | assumption].
    + pose proof (Direct_ext H H' _ HE (inv_fin_direct _ _ I s h' Est)) as Dd'.
      destruct (Ffinal _ S) as [F Dy]. fin_same.
      apply (nochange_inv C H H' HC' HE t _ s I); try reflexivity; try assumption.
      * keys_set I Hs.
      * st_other.
      * rewrite st_set, N.eqb_refl. cbn [StatusSpec]. eapply FinalStar_ext; eassumption.
      * rewrite st_set, N.eqb_refl, Est. reflexivity.
      * rewrite st_set, N.eqb_refl. cbv beta iota delta [FinDirectAt]. first [exact Logic.I | assumption].
    + destruct (Ffinal _ S) as [F Dy]. fin_same.
      apply (nochange_inv C H H' HC' HE t _ s I); try reflexivity; try assumption.
      * keys_set I Hs.
      * st_other.
      * rewrite st_set, N.eqb_refl. cbn [StatusSpec]. eapply FinalStar_ext; eassumption.
      * rewrite st_set, N.eqb_refl, Est. reflexivity.
      * rewrite st_set, N.eqb_refl. cbv beta iota delta [FinDirectAt]. first [exact Logic.I | assumption].
    + exfalso. apply Cs. apply (SkippedStar_chain C H HC). exact S.
    + destruct S as [NN [NF U]]. destruct (FnoNotar NN) as [F Dy]. fin_same.
      apply (nochange_inv C H H' HC' HE t _ s I); try reflexivity; try assumption.
      * keys_set I Hs.
      * st_other.
      * rewrite st_set, N.eqb_refl. cbn [StatusSpec]. split; [exact Fn|]. split; [intros h X; apply (NN h); apply N1; exact X|].
        apply (Undecided_same H H' s L F U).
      * rewrite st_set, N.eqb_refl, Est. reflexivity.
      * rewrite st_set, N.eqb_refl. cbv beta iota delta [FinDirectAt]. first [exact Logic.I | assumption].
Qed.

Lemma step_parent c p : Cons C (H ++ [TParent c p]) -> StepOK (TParent c p).
Proof.
  set (H' := H ++ [TParent c p]). intros HC'.
  pose proof (Ext_app H (TParent c p)) as HE. fold H' in HE.
  pose proof (Cons_ext _ _ _ HE HC') as HC.
  destruct c as [sc hc].
  assert (Ln : Link H' (sc, hc) p) by (apply Link_app; right; reflexivity).
  assert (Lk : forall a b, Link H' a b -> Link H a b \/ (a = (sc, hc) /\ b = p)).
  { intros a b X. apply Link_app in X. destruct X as [X|X]; [left; exact X | right; split; congruence]. }
  assert (N1 : forall b, Notar H' b -> Notar H b).
  { intros b X. apply Notar_app in X. destruct X as [X|X]; [exact X | discriminate]. }
  assert (N2 : forall s', Fin H' s' -> Fin H s').
  { intros s' X. apply Fin_app in X. destruct X as [X|X]; [exact X | discriminate]. }
  assert (D : forall y, Direct H' y -> Direct H y).
  { intros y [X|[X1 X2]].
    - apply Fast_app in X. destruct X as [X|X]; [left; exact X | discriminate].
    - right. auto. }
  assert (FSn : forall x, FinalStar H' x -> FinalStar H x \/ (FinalStar H (sc, hc) /\ Anc H' p x)).
  { intros x. apply FS_new_link; assumption. }
  pose proof (c_link_lt _ _ HC' _ _ Ln) as Hlt. cbn [fst] in Hlt.
  assert (AncP : forall x, Anc H' p x -> fst x < sc).
  { intros x A. pose proof (Anc_le C H' HC' _ _ A). lia. }
  assert (HU : forall b, Direct H' b -> fst b <= ft_highest t).
  { intros b Db. apply (inv_high_ub _ _ I). apply D. exact Db. }
  assert (HM : ft_highest t = 0 \/ exists b, Direct H' b /\ fst b = ft_highest t).
  { destruct (inv_high_max _ _ I) as [X|[b [X1 X2]]]; [left; exact X|].
    right. exists b. split; [eapply Direct_ext; eassumption | exact X2]. }
  unfold StepOK. fold H'. cbn [ft_step]. unfold ft_add_parent. cbn [fst snd].
  replace (fst p <? sc) with true by lia. cbn [negb].
  destruct (sc <? ft_first t) eqn:Es.
  - exists t, fe_empty. split; [reflexivity|]. split; [|lia]. apply (below_inv C H H' HC' HE t I).
    + intros x Fx. destruct (FSn x Fx) as [X|[_ X]]; [left; exact X|]. right. pose proof (AncP x X). lia.
    + intros a b X. destruct (Lk a b X) as [Y|[-> _]]; [left; exact Y | right; cbn [fst]; lia].
    + intros s' h' _. apply N1.
    + intros s' _. apply N2.
    + intros y Dy. left. apply D. exact Dy.
  - assert (Hs : ft_first t <= sc) by lia.
    destruct (blookup (sc, hc) (ft_parents t)) as [p'|] eqn:Ep.
    + (* the link is known already *)
      apply (inv_parents _ _ I) in Ep. destruct Ep as [Lp' _].
      assert (p' = p) by (apply (c_link1 _ _ HC' (sc, hc)); [apply HE; exact Lp' | exact Ln]). subst p'.
      rewrite bid_eqb_refl. exists t, fe_empty. split; [reflexivity|]. split; [|lia].
      assert (L : forall a b, Link H' a b -> Link H a b).
      { intros a b X. destruct (Lk a b X) as [Y|[-> ->]]; [exact Y | exact Lp']. }
      assert (F : forall x, FinalStar H' x -> FinalStar H x) by (intros x; apply FS_same; assumption).
      assert (I' : Inv H' t).
      { apply (same_inv H H' HE t t I); try reflexivity.
      * apply (inv_keys _ _ I).
      * exact L.
      * intros y Dy. left. apply D. exact Dy.
      * intros s' Hs'. apply (slot_transfer H H' HE).
        -- intros h'. apply N1.
        -- apply N2.
        -- intros h'. apply F.
        -- intros c0 p0 Fc0 Lc0 _. split; [apply F; exact Fc0 | apply L; exact Lc0].
        -- apply (inv_status _ _ I). exact Hs'.
      * apply (inv_wm _ _ I).
      * intros s' h' E. apply (Direct_ext H H' _ HE). apply (inv_fin_direct _ _ I). exact E. }
      split; [exact I'|].
      apply (ev_empty_same C H H' HC' HE t t I (inv_status _ _ I')). intros s'. left. reflexivity.
    + (* a new link *)
      assert (NoL : forall p0, ~ Link H (sc, hc) p0).
      { intros p0 X. assert (Y : blookup (sc, hc) (ft_parents t) = Some p0) by (apply (inv_parents _ _ I); split; [exact X | exact Hs]).
        congruence. }
      cbv zeta. cbn [ft_status].
      set (t1 := mkFT (ft_status t) (binsert (sc, hc) p (ft_parents t)) (ft_highest t) (ft_first t)).
      change (alookup sc (ft_status t)) with (st t sc).
      assert (PO1 : ParentsOK H' t1).
      { intros b0 p0. unfold t1. cbn [ft_parents ft_first]. destruct (bid_dec b0 (sc, hc)) as [->|Hne].
        - rewrite blookup_binsert_same. cbn [fst]. split.
          + intros X. injection X as <-. split; [exact Ln | exact Hs].
          + intros [X _]. destruct (Lk _ _ X) as [Y|[_ ->]]; [exfalso; exact (NoL _ Y) | reflexivity].
        - rewrite blookup_binsert_other by exact Hne. split.
          + intros X. apply (inv_parents _ _ I) in X. destruct X as [X1 X2]. split; [apply HE; exact X1 | exact X2].
          + intros [X1 X2]. apply (inv_parents _ _ I). split; [|exact X2].
            destruct (Lk _ _ X1) as [Y|[Y _]]; [exact Y | contradiction]. }
      assert (K1 : KeysOK t1).
      { destruct (inv_keys _ _ I) as [Ka Kb]. split; unfold t1; cbn [ft_status ft_parents ft_first]; [exact Ka|].
        intros b0 p0 Hin. apply binsert_in in Hin. destruct Hin as [[-> _]|Hin]; [exact Hs | eapply Kb; exact Hin]. }
      assert (NoWalk : ~ FinalStar H (sc, hc) ->
                exists t' ev, Some (t1, fe_empty) = Some (t', ev) /\ (Inv H' t' /\ EvOK H H' ev) /\
                  ft_first t <= ft_first t' /\ ft_highest t <= ft_highest t').
      { intros NF. exists t1, fe_empty. split; [reflexivity|]. split; [|unfold t1; cbn [ft_first ft_highest]; lia].
        assert (F : forall x, FinalStar H' x -> FinalStar H x).
        { intros x Fx. destruct (FSn x Fx) as [X|[X _]]; [exact X | contradiction]. }
        assert (I' : Inv H' t1); [|split; [exact I'|]].
        2:{ apply (ev_empty_same C H H' HC' HE t t1 I).
            - intros s' Hs'. apply (inv_status _ _ I'). exact Hs'.
            - intros s'. left. reflexivity. }
        split.
        - exact PO1.
        - intros s' Hs'. change (st t1 s') with (st t s'). apply (slot_transfer H H' HE).
          + intros h'. apply N1.
          + apply N2.
          + intros h'. apply F.
          + intros c0 p0 Fc0 Lc0 _. split; [apply F; exact Fc0|].
            destruct (Lk _ _ Lc0) as [Y|[-> _]]; [exact Y | exfalso; apply NF; apply F; exact Fc0].
          + apply (inv_status _ _ I). exact Hs'.
        - intros s' Hs'. apply (Decided_ext H H' s' HE). apply (inv_below _ _ I). exact Hs'.
        - apply (inv_wm _ _ I).
        - exact HU.
        - exact HM.
        - exact K1.
        - intros s' h' E. change (st t1 s') with (st t s') in E.
          apply (Direct_ext H H' _ HE). apply (inv_fin_direct _ _ I). exact E. }
      assert (Walk : FinalStar H (sc, hc) ->
                exists t' ev, match ft_handle_impl (ft_fuel t1) t1 sc p fe_empty with
                              | Some (t2, ev) => Some (ft_prune t2, ev)
                              | None => None
                              end = Some (t', ev) /\ (Inv H' t' /\ EvOK H H' ev) /\
                  ft_first t <= ft_first t' /\ ft_highest t <= ft_highest t').
      { intros Fc.
        destruct (walk_spec C H H' HC' HE (ft_fuel t1) t1 sc p fe_empty hc) as [t2 [ev2 [R [Q1 [Q2 [Q3 [Q4 Q5]]]]]]].
        - exact Hs.
        - eapply FinalStar_ext; eassumption.
        - exact Ln.
        - intros [_ X]. exact (NoL _ X).
        - intros x Fx. destruct (FSn x Fx) as [X|[_ X]]; [left; exact X | right; right; exact X].
        - intros a b X. destruct (Lk a b X) as [Y|[-> _]]; [left; exact Y | right; cbn [fst]; lia].
        - intros s' h' _. apply N1.
        - intros s' _. apply N2.
        - exact PO1.
        - intros s' Hs1 Hs2. change (st t1 s') with (st t s'). apply (slot_transfer H H' HE).
          + intros h'. apply N1.
          + apply N2.
          + intros h' X. destruct (FSn _ X) as [Y|[_ Y]]; [exact Y|]. apply AncP in Y. cbn [fst] in Y. lia.
          + intros c0 p0 Fc0 Lc0 B. split.
            * destruct (FSn _ Fc0) as [Y|[_ Y]]; [exact Y|]. apply AncP in Y. lia.
            * destruct (Lk _ _ Lc0) as [Y|[-> _]]; [exact Y | cbn [fst] in B; lia].
          + apply (inv_status _ _ I). exact Hs1.
        - intros s' Hs1 _. apply (inv_status _ _ I). exact Hs1.
        - exact (inv_below _ _ I).
        - exact K1.
        - unfold ft_fuel, mu. apply le_n_S, le_S, filter_length_le.
        - rewrite R.
          destruct (finish_inv H H' HE t t2 I) as [G1 G2].
          + intros b0 p0. rewrite Q1, Q2. apply PO1.
          + intros s' Hs'. apply Q4. rewrite <- Q2. exact Hs'.
          + rewrite Q2. reflexivity.
          + exact Q5.
          + rewrite Q3. exact HU.
          + rewrite Q3. exact HM.
          + apply (walk_fin_direct H' _ _ _ _ _ _ _ R). intros s' h' E. change (st t1 s') with (st t s') in E.
            apply (Direct_ext H H' _ HE). apply (inv_fin_direct _ _ I). exact E.
          + exists (ft_prune t2), ev2. split; [reflexivity|]. split; [split; [exact G1|]|].
            2:{ split; [exact G2|]. unfold ft_prune. cbn [ft_highest]. rewrite Q3. unfold t1. cbn [ft_highest]. lia. }
            destruct (handle_impl_op _ _ _ _ _ _ _ R) as [W1 [W2 [W3 [W4 [nf [ns [W5 [W6 [W7 [W8 [W9 [W10 W11]]]]]]]]]]]].
            cbn [fe_empty fe_final fe_impl_final fe_impl_skipped app] in W4, W5, W6.
            apply (ev_from_status C H H' HC' HE t t2 ev2 I).
            { intros s' Hs'. apply Q4. exact Hs'. }
            assert (Eb : ev_blocks ev2 = nf) by (unfold ev_blocks; rewrite W4, W5; reflexivity).
            split.
            * rewrite Eb. intros x Hin. destruct (W8 x Hin) as [A1 [A2 [A3 A4]]].
              rewrite A4. cbn [view_of]. auto.
            * rewrite W6. intros s' Hin. destruct (W7 s' Hin) as [A1 [A2 [A3 A4]]]. auto.
            * rewrite Eb, W6. intros s'. destruct (W9 s') as [X|[X|[h0 X]]].
              -- left. rewrite X. reflexivity.
              -- right. right. left. exact X.
              -- right. right. right. exists h0. exact X.
            * rewrite Eb. exact W11.
            * rewrite W6. exact W10. }
      pose proof (inv_status _ _ I sc Hs) as S.
      destruct (st t sc) as [[h| |h|h|]|] eqn:Est; cbn [StatusSpec] in S.
      * apply NoWalk. apply S.
      * apply NoWalk. apply S.
      * destruct (h =? hc) eqn:Eh.
        -- apply N.eqb_eq in Eh. subst h. apply Walk. exact S.
        -- apply NoWalk. intros X. apply N.eqb_neq in Eh. apply Eh. apply (FinalStar_unique C H HC sc); assumption.
      * destruct (h =? hc) eqn:Eh.
        -- apply N.eqb_eq in Eh. subst h. apply Walk. exact S.
        -- apply NoWalk. intros X. apply N.eqb_neq in Eh. apply Eh. apply (FinalStar_unique C H HC sc); assumption.
      * apply NoWalk. intros X. exact (final_not_skipped C H HC _ _ X S).
      * apply NoWalk. apply S.
Qed.

Theorem step_ok o : Cons C (H ++ [o]) -> StepOK o.
Proof.
  destruct o as [c p|[s h]|[s h]|s].
  - apply step_parent.
  - apply step_notar.
  - apply step_fast.
  - apply step_final.
Qed.
End Ops.

(* ================= the boolean specification decides the relational one ================= *)
Lemma notarb_iff H b : notarb H b = true <-> Notar H b.
Proof.
  unfold notarb, Notar. rewrite orb_true_iff, bid_eqb_iff, existsb_exists. split.
  - intros [E|[o [Hin E]]]; [left; exact E|]. right. destruct o; try discriminate. apply bid_eqb_iff in E. subst. exact Hin.
  - intros [E|Hin]; [left; exact E|]. right. exists (TNotar b). split; [exact Hin | apply bid_eqb_refl].
Qed.
Lemma fastb_iff H b : fastb H b = true <-> Fast H b.
Proof.
  unfold fastb, Fast. rewrite existsb_exists. split.
  - intros [o [Hin E]]. destruct o; try discriminate. apply bid_eqb_iff in E. subst. exact Hin.
  - intros Hin. exists (TFast b). split; [exact Hin | apply bid_eqb_refl].
Qed.
Lemma finb_iff H s : finb H s = true <-> Fin H s.
Proof.
  unfold finb, Fin. rewrite existsb_exists. split.
  - intros [o [Hin E]]. destruct o; try discriminate. apply N.eqb_eq in E. subst. exact Hin.
  - intros Hin. exists (TFinal s). split; [exact Hin | apply N.eqb_refl].
Qed.
Lemma links_of_in H c p : In (c, p) (links_of H) <-> Link H c p.
Proof.
  unfold links_of, Link. rewrite in_flat_map. split.
  - intros [o [Hin E]]. destruct o as [c0 p0|b|b|s0]; cbn in E; try contradiction.
    destruct E as [E|[]]. injection E as -> ->. exact Hin.
  - intros Hin. exists (TParent c p). split; [exact Hin | left; reflexivity].
Qed.
Lemma directb_iff H b : directb H b = true <-> Direct H b.
Proof.
  unfold directb, Direct. rewrite orb_true_iff, andb_true_iff, fastb_iff, finb_iff, notarb_iff. tauto.
Qed.

Lemma fstar_fuel_sound n : forall H b, fstar_fuel n H b = true -> FinalStar H b.
Proof.
  induction n as [|n IH]; intros H b; cbn [fstar_fuel]; rewrite orb_true_iff.
  - intros [D|X]; [apply FS_direct; apply directb_iff; exact D | discriminate].
  - intros [D|X]; [apply FS_direct; apply directb_iff; exact D|].
    apply existsb_exists in X. destruct X as [[c p] [Hin E]]. cbn [fst snd] in E.
    apply andb_prop in E. destruct E as [E E3]. apply andb_prop in E. destruct E as [E1 E2].
    apply bid_eqb_iff in E1. subst p. eapply FS_anc; [apply IH; exact E3 | apply links_of_in; exact Hin].
Qed.
Lemma fstar_fuel_mono n : forall n' H b, (n <= n')%nat -> fstar_fuel n H b = true -> fstar_fuel n' H b = true.
Proof.
  induction n as [|n IH]; intros n' H b Hle; cbn [fstar_fuel]; rewrite orb_true_iff.
  - intros [D|X]; [|discriminate]. destruct n'; cbn [fstar_fuel]; rewrite D; reflexivity.
  - intros [D|X]; [destruct n'; cbn [fstar_fuel]; rewrite D; reflexivity|].
    destruct n' as [|n']; [lia|]. cbn [fstar_fuel]. apply orb_true_iff. right.
    apply existsb_exists in X. destruct X as [l [Hin E]]. apply existsb_exists. exists l. split; [exact Hin|].
    apply andb_prop in E. destruct E as [E E3]. rewrite E. cbn [andb]. apply (IH n'); [lia | exact E3].
Qed.
Lemma max_link_slot_ge H c p : Link H c p -> fst c <= max_link_slot H.
Proof.
  intros L. apply links_of_in in L. unfold max_link_slot.
  induction (links_of H) as [|l ls IH]; [destruct L|].
  cbn [map fold_right]. destruct L as [->|L]; [cbn [fst]; lia|]. specialize (IH L). lia.
Qed.
Lemma final_starb_iff H b :
  (forall c p, Link H c p -> fst p < fst c) -> (final_starb H b = true <-> FinalStar H b).
Proof.
  intros LT. unfold final_starb. split; [apply fstar_fuel_sound|].
  intros F. induction F as [b D|c p F IH L].
  - apply directb_iff in D. destruct (N.to_nat (max_link_slot H - fst b)); cbn [fstar_fuel]; rewrite D; reflexivity.
  - pose proof (LT _ _ L) as Hlt. pose proof (max_link_slot_ge _ _ _ L) as Hge.
    destruct (N.to_nat (max_link_slot H - fst p)) as [|k] eqn:Ek; [lia|].
    cbn [fstar_fuel]. apply orb_true_iff. right. apply existsb_exists. exists (c, p). split; [apply links_of_in; exact L|].
    cbn [fst snd]. rewrite bid_eqb_refl. cbn [andb]. apply andb_true_intro. split; [apply N.ltb_lt; exact Hlt|].
    apply (fstar_fuel_mono (N.to_nat (max_link_slot H - fst c))); [lia | exact IH].
Qed.
Lemma spec_skipped_iff (H : hist) (s : slot) :
  (forall c p, Link H c p -> fst p < fst c) -> (spec_skipped H s = true <-> SkippedStar H s).
Proof.
  intros LT. unfold spec_skipped, SkippedStar. rewrite existsb_exists. split.
  - intros [[c p] [Hin E]]. cbn [fst snd] in E. apply andb_prop in E. destruct E as [E E3]. apply andb_prop in E. destruct E as [E1 E2].
    exists c, p. split; [apply final_starb_iff; assumption|]. split; [apply links_of_in; exact Hin|].
    apply N.ltb_lt in E2. apply N.ltb_lt in E3. split; assumption.
  - intros [c [p [F [L [B1 B2]]]]]. exists (c, p). split; [apply links_of_in; exact L|]. cbn [fst snd].
    apply (final_starb_iff H c LT) in F. rewrite F. cbn [andb].
    apply andb_true_intro. split; apply N.ltb_lt; assumption.
Qed.

Lemma FinalStar_dec H b : (forall c p, Link H c p -> fst p < fst c) -> FinalStar H b \/ ~ FinalStar H b.
Proof.
  intros LT. destruct (final_starb H b) eqn:E.
  - left. apply final_starb_iff; assumption.
  - right. intros F. apply (final_starb_iff H b LT) in F. congruence.
Qed.
Lemma SkippedStar_dec H s : (forall c p, Link H c p -> fst p < fst c) -> SkippedStar H s \/ ~ SkippedStar H s.
Proof.
  intros LT. destruct (spec_skipped H s) eqn:E.
  - left. apply spec_skipped_iff; assumption.
  - right. intros F. apply (spec_skipped_iff H s LT) in F. congruence.
Qed.

Lemma cand_of_op H s h o : In o H ->
  match o with
  | TParent c p => c = (s, h) \/ p = (s, h)
  | TNotar b | TFast b => b = (s, h)
  | TFinal _ => False
  end -> In h (cand_hashes H s).
Proof.
  intros Hin Hm. unfold cand_hashes. apply in_app_iff. right. apply in_flat_map. exists o. split; [exact Hin|].
  destruct o as [c p|b|b|s0]; try contradiction.
  - apply in_app_iff. destruct Hm as [->| ->]; [left | right]; cbn [fst snd]; rewrite N.eqb_refl; left; reflexivity.
  - subst b. cbn [fst snd]. rewrite N.eqb_refl. left. reflexivity.
  - subst b. cbn [fst snd]. rewrite N.eqb_refl. left. reflexivity.
Qed.
Lemma Notar_mentioned H s h : Notar H (s, h) -> In h (cand_hashes H s).
Proof.
  intros [E|Hin].
  - injection E as -> ->. unfold cand_hashes. apply in_app_iff. left. cbn. left. reflexivity.
  - apply (cand_of_op H s h (TNotar (s, h)) Hin). reflexivity.
Qed.
Lemma FinalStar_mentioned H s h : FinalStar H (s, h) -> In h (cand_hashes H s).
Proof.
  intros F. inversion F as [b [D|[_ D]]|c p Fc L]; subst.
  - apply (cand_of_op H s h (TFast (s, h)) D). reflexivity.
  - apply Notar_mentioned. exact D.
  - apply (cand_of_op H s h (TParent c (s, h)) L). right. reflexivity.
Qed.

Section SpecView.
Variable C : slot -> option hash.
Variable H : hist.
Hypothesis HC : Cons C H.

Lemma spec_final_some s h : FinalStar H (s, h) -> spec_final H s = Some h.
Proof.
  intros F. unfold spec_final. destruct (find _ _) as [h'|] eqn:E.
  - apply find_some in E. destruct E as [_ E]. apply (final_starb_iff H _ (c_link_lt _ _ HC)) in E.
    f_equal. apply (FinalStar_unique C H HC s); assumption.
  - exfalso. pose proof (find_none _ _ E h (FinalStar_mentioned H s h F)) as X. cbn beta in X.
    apply (final_starb_iff H _ (c_link_lt _ _ HC)) in F. congruence.
Qed.
Lemma spec_final_none s : (forall h, ~ FinalStar H (s, h)) -> spec_final H s = None.
Proof.
  intros U. unfold spec_final. destruct (find _ _) as [h'|] eqn:E; [|reflexivity].
  exfalso. apply find_some in E. destruct E as [_ E]. apply (final_starb_iff H _ (c_link_lt _ _ HC)) in E. exact (U _ E).
Qed.
Lemma spec_notar_some s h : Notar H (s, h) -> spec_notar H s = Some h.
Proof.
  intros F. unfold spec_notar. destruct (find _ _) as [h'|] eqn:E.
  - apply find_some in E. destruct E as [_ E]. apply notarb_iff in E. f_equal. apply (c_notar1 _ _ HC s); assumption.
  - exfalso. pose proof (find_none _ _ E h (Notar_mentioned H s h F)) as X. cbn beta in X.
    apply notarb_iff in F. congruence.
Qed.
Lemma spec_notar_none s : (forall h, ~ Notar H (s, h)) -> spec_notar H s = None.
Proof.
  intros U. unfold spec_notar. destruct (find _ _) as [h'|] eqn:E; [|reflexivity].
  exfalso. apply find_some in E. destruct E as [_ E]. apply notarb_iff in E. exact (U _ E).
Qed.
Lemma spec_skipped_false s : ~ SkippedStar H s -> spec_skipped H s = false.
Proof.
  intros U. destruct (spec_skipped H s) eqn:E; [|reflexivity]. exfalso. apply U. apply spec_skipped_iff; [apply (c_link_lt _ _ HC) | exact E].
Qed.
Lemma finb_false s : ~ Fin H s -> finb H s = false.
Proof. intros U. destruct (finb H s) eqn:E; [|reflexivity]. exfalso. apply U. apply finb_iff. exact E. Qed.

(* 'status s = spec marks s' *)
Lemma spec_view_correct s o : StatusSpec H s o -> view_of o = spec_view H s.
Proof.
  intros S. unfold spec_view. destruct o as [[h| |h|h|]|]; cbn [StatusSpec view_of] in S |- *.
  - destruct S as [S1 [S2 [U1 U2]]].
    rewrite (spec_final_none s U1), (spec_skipped_false s U2), (finb_false s S2), (spec_notar_some s h S1). reflexivity.
  - destruct S as [S1 [S2 [U1 U2]]].
    rewrite (spec_final_none s U1), (spec_skipped_false s U2). apply finb_iff in S1. rewrite S1. reflexivity.
  - rewrite (spec_final_some s h S). reflexivity.
  - rewrite (spec_final_some s h S). reflexivity.
  - rewrite spec_final_none.
    + apply (spec_skipped_iff H s (c_link_lt _ _ HC)) in S. rewrite S. reflexivity.
    + intros h F. exact (final_not_skipped C H HC s h F S).
  - destruct S as [S1 [S2 [U1 U2]]].
    rewrite (spec_final_none s U1), (spec_skipped_false s U2), (finb_false s S2), (spec_notar_none s S1). reflexivity.
Qed.

(* and the boolean view characterises the relational notions *)
Lemma spec_view_final s h : spec_view H s = VFinal h <-> FinalStar H (s, h).
Proof.
  split.
  - unfold spec_view. destruct (spec_final H s) as [h'|] eqn:E.
    + intros X. injection X as ->. unfold spec_final in E. apply find_some in E. destruct E as [_ E].
      apply (final_starb_iff H _ (c_link_lt _ _ HC)) in E. exact E.
    + destruct (spec_skipped H s); [discriminate|]. destruct (finb H s); [discriminate|]. destruct (spec_notar H s); discriminate.
  - intros F. unfold spec_view. rewrite (spec_final_some s h F). reflexivity.
Qed.
Lemma spec_view_skipped s : spec_view H s = VSkipped <-> SkippedStar H s.
Proof.
  split.
  - unfold spec_view. destruct (spec_final H s) as [h'|]; [discriminate|].
    destruct (spec_skipped H s) eqn:E; [intros _; apply (spec_skipped_iff H s (c_link_lt _ _ HC)); exact E|].
    destruct (finb H s); [discriminate|]. destruct (spec_notar H s); discriminate.
  - intros S. unfold spec_view. rewrite spec_final_none.
    + apply (spec_skipped_iff H s (c_link_lt _ _ HC)) in S. rewrite S. reflexivity.
    + intros h F. exact (final_not_skipped C H HC s h F S).
Qed.
Lemma spec_view_decided s : view_decided (spec_view H s) = true <-> Decided H s.
Proof.
  split.
  - intros X. destruct (spec_view H s) as [h| | |h|] eqn:E; try discriminate.
    + left. exists h. apply spec_view_final. exact E.
    + right. apply spec_view_skipped. exact E.
  - intros [[h F]|S].
    + apply spec_view_final in F. rewrite F. reflexivity.
    + apply spec_view_skipped in S. rewrite S. reflexivity.
Qed.
End SpecView.

(* ================= whole runs ================= *)
Lemma FinalStar_nil x : ~ FinalStar [] x.
Proof.
  intros F. induction F as [b [D|[D _]]|c p F IH L]; [destruct D | destruct D | exact IH].
Qed.
Lemma SkippedStar_nil s : ~ SkippedStar [] s.
Proof. intros [c [p [F _]]]. exact (FinalStar_nil c F). Qed.

Lemma Inv_init : Inv [] ft_init.
Proof.
  assert (U : forall s, Undecided [] s).
  { intros s. split; [intros h F; exact (FinalStar_nil _ F) | apply SkippedStar_nil]. }
  split.
  - intros b p. cbn. split; [discriminate | intros [[] _]].
  - intros s _. unfold st, ft_init. cbn [ft_status alookup]. destruct (s =? 0) eqn:E.
    + apply N.eqb_eq in E. subst. cbn [StatusSpec]. split; [left; reflexivity|]. split; [intros []|apply U].
    + cbn [StatusSpec]. split; [|split; [intros [] | apply U]].
      intros h [X|[]]. injection X as -> _. discriminate.
  - intros s Hs. cbn in Hs. lia.
  - reflexivity.
  - intros b [[]|[[] _]].
  - left. reflexivity.
  - split; cbn.
    + intros k v [X|[]]. injection X as <- _. lia.
    + intros b p [].
  - intros s h E. unfold st, ft_init in E. cbn [ft_status alookup] in E. destruct (s =? 0); discriminate.
Qed.

(* what the events of a run from history H to history H'' report *)
Record RunEv (H H'' : hist) (evs : list fin_event) : Prop := {
  re_final_sound : forall x, In x (all_final_events evs) -> FinalStar H'' x /\ ~ FinalStar H x;
  re_final_once : NoDup (all_final_events evs);
  re_skip_sound : forall s, In s (all_skip_events evs) -> SkippedStar H'' s /\ ~ SkippedStar H s;
  re_skip_once : NoDup (all_skip_events evs);
  re_final_complete : forall x, FinalStar H'' x -> ~ FinalStar H x -> 0 < fst x -> In x (all_final_events evs);
  re_skip_complete : forall s, SkippedStar H'' s -> ~ SkippedStar H s -> In s (all_skip_events evs) }.

Lemma run_ok C : forall ops H t, Inv H t -> Cons C (H ++ ops) ->
  exists t' evs, ft_run t ops = Some (t', evs) /\ Inv (H ++ ops) t' /\
    ft_first t <= ft_first t' /\ ft_highest t <= ft_highest t' /\ RunEv H (H ++ ops) evs.
Proof.
  induction ops as [|o rest IH]; intros H t I HC.
  - exists t, []. rewrite app_nil_r. split; [reflexivity|]. split; [exact I|]. split; [lia|]. split; [lia|].
    split; cbn; [intros x [] | constructor | intros x [] | constructor
                | intros x F NF; contradiction | intros x F NF; contradiction].
  - assert (Eapp : H ++ o :: rest = (H ++ [o]) ++ rest) by (rewrite <- app_assoc; reflexivity).
    rewrite Eapp in HC |- *.
    pose proof (Cons_prefix _ _ _ HC) as HC1.
    destruct (step_ok C H t I o HC1) as [t1 [ev [R1 [[I1 [[S1 [S2 [S3 S4]]] [K1 K2]]] [F1 G1]]]]].
    destruct (IH (H ++ [o]) t1 I1 HC) as [t' [evs [R2 [I2 [F2 [G2 [E1 E2 E3 E4 E5 E6]]]]]]].
    exists t', (ev :: evs). cbn [ft_run]. rewrite R1, R2.
    split; [reflexivity|]. split; [exact I2|]. split; [lia|]. split; [lia|].
    pose proof (Ext_app H o) as HE1. pose proof (Ext_apps (H ++ [o]) rest) as HE2.
    pose proof (c_link_lt _ _ HC1) as LT1.
    split; cbn [all_final_events all_skip_events flat_map].
    + intros x Hin. apply in_app_iff in Hin. destruct Hin as [Hin|Hin].
      * destruct (S1 x Hin) as [A1 A2]. split; [eapply FinalStar_ext; eassumption | exact A2].
      * destruct (E1 x Hin) as [A1 A2]. split; [exact A1|]. intros X. apply A2. eapply FinalStar_ext; eassumption.
    + apply NoDup_app_intro; [exact S2 | exact E2|].
      intros x A B. destruct (S1 x A) as [A1 _]. destruct (E1 x B) as [_ B2]. exact (B2 A1).
    + intros s Hin. apply in_app_iff in Hin. destruct Hin as [Hin|Hin].
      * destruct (S3 s Hin) as [A1 A2]. split; [eapply SkippedStar_ext; eassumption | exact A2].
      * destruct (E3 s Hin) as [A1 A2]. split; [exact A1|]. intros X. apply A2. eapply SkippedStar_ext; eassumption.
    + apply NoDup_app_intro; [exact S4 | exact E4|].
      intros s A B. destruct (S3 s A) as [A1 _]. destruct (E3 s B) as [_ B2]. exact (B2 A1).
    + intros x F NF Hx. apply in_app_iff. destruct (FinalStar_dec (H ++ [o]) x LT1) as [Y|Y].
      * left. apply K1; assumption.
      * right. apply E5; assumption.
    + intros s F NF. apply in_app_iff. destruct (SkippedStar_dec (H ++ [o]) s LT1) as [Y|Y].
      * left. apply K2; assumption.
      * right. apply E6; assumption.
Qed.

Lemma ft_run_app : forall a b t,
  ft_run t (a ++ b) = match ft_run t a with
                      | None => None
                      | Some (t1, e1) => match ft_run t1 b with None => None | Some (t2, e2) => Some (t2, e1 ++ e2) end
                      end.
Proof.
  induction a as [|o a IH]; intros b t; cbn [app ft_run].
  - destruct (ft_run t b) as [[t2 e2]|]; reflexivity.
  - destruct (ft_step t o) as [[t1 ev]|]; [|reflexivity]. rewrite IH.
    destruct (ft_run t1 a) as [[t2 e1]|]; [|reflexivity]. destruct (ft_run t2 b) as [[t3 e2]|]; reflexivity.
Qed.

Section FromInit.
Variable C : slot -> option hash.
Variable ops : list ft_op.
Hypothesis Hcons : ft_consistent C ops = true.

Lemma init_run : exists t evs, ft_run ft_init ops = Some (t, evs) /\ Inv ops t /\ RunEv [] ops evs.
Proof.
  destruct (run_ok C ops [] ft_init Inv_init (consistent_Cons C ops Hcons)) as [t [evs [R [I [_ [_ E]]]]]].
  exists t, evs. auto.
Qed.

Theorem consistent_run_never_panics : ft_run ft_init ops <> None.
Proof. destruct init_run as [t [evs [R _]]]. congruence. Qed.

Variable t : ftracker.
Variable evs : list fin_event.
Hypothesis Hrun : ft_run ft_init ops = Some (t, evs).

Lemma init_inv : Inv ops t /\ RunEv [] ops evs.
Proof. destruct init_run as [t' [evs' [R [I E]]]]. rewrite Hrun in R. injection R as <- <-. auto. Qed.

Let HC : Cons C ops := consistent_Cons C ops Hcons.

(* (1) status s = spec marks s, for every slot the tracker still holds *)
Theorem status_is_spec : forall s, ft_first t <= s -> ft_view t s = spec_view ops s.
Proof.
  intros s Hs. destruct init_inv as [I _]. unfold ft_view.
  apply (spec_view_correct C ops HC). apply (inv_status _ _ I). exact Hs.
Qed.
Theorem reported_final_iff : forall s h, ft_first t <= s -> (ft_view t s = VFinal h <-> FinalStar ops (s, h)).
Proof. intros s h Hs. rewrite (status_is_spec s Hs). apply (spec_view_final C ops HC). Qed.
(* (2) *)
Theorem reported_skipped_iff : forall s, ft_first t <= s -> (ft_view t s = VSkipped <-> SkippedStar ops s).
Proof. intros s Hs. rewrite (status_is_spec s Hs). apply (spec_view_skipped C ops HC). Qed.

(* (3) the watermark is the end of the maximal decided prefix; nothing older is retained *)
Theorem watermark_is_decided_prefix :
  (forall s, 0 < s <= ft_first t -> view_decided (spec_view ops s) = true) /\
  view_decided (spec_view ops (ft_first t + 1)) = false /\
  (forall s v, In (s, v) (ft_status t) -> ft_first t <= s) /\
  (forall b p, In (b, p) (ft_parents t) -> ft_first t <= fst b).
Proof.
  destruct init_inv as [I _]. split; [|split].
  - intros s Hs. apply (spec_view_decided C ops HC). apply (inv_below _ _ I). exact Hs.
  - rewrite <- (status_is_spec (ft_first t + 1)) by lia. pose proof (inv_wm _ _ I) as W.
    unfold ft_view. destruct (st t (ft_first t + 1)) as [[h| |h|h|]|] eqn:E; unfold st in E; rewrite E; cbn in W |- *; congruence.
  - exact (inv_keys _ _ I).
Qed.
(* pruned slots are decided exactly as the chain says *)
Theorem pruned_slots_follow_chain : forall s, 0 < s < ft_first t ->
  match C s with Some h => FinalStar ops (s, h) | None => SkippedStar ops s end.
Proof.
  intros s Hs. destruct init_inv as [I _]. destruct (inv_below _ _ I s) as [[h F]|S]; [lia| |].
  - pose proof (FinalStar_chain C ops HC _ F) as X. cbn [fst snd] in X. rewrite X. exact F.
  - rewrite (SkippedStar_chain C ops HC _ S). exact S.
Qed.

(* (3) the highest finalized slot is the highest directly finalized slot *)
Theorem highest_is_max_direct :
  (forall b, Direct ops b -> fst b <= ft_highest t) /\
  (ft_highest t = 0 \/ exists b, Direct ops b /\ fst b = ft_highest t).
Proof. destruct init_inv as [I _]. split; [exact (inv_high_ub _ _ I) | exact (inv_high_max _ _ I)]. Qed.

(* (4) every finalization / skip is reported exactly once over the whole run *)
Theorem events_once :
  NoDup (all_final_events evs) /\ NoDup (all_skip_events evs) /\
  (forall x, In x (all_final_events evs) -> FinalStar ops x) /\
  (forall x, FinalStar ops x -> 0 < fst x -> In x (all_final_events evs)) /\
  (forall s, In s (all_skip_events evs) <-> SkippedStar ops s).
Proof.
  destruct init_inv as [_ [E1 E2 E3 E4 E5 E6]]. cbn [app] in *.
  split; [exact E2|]. split; [exact E4|]. split; [intros x Hx; apply (E1 x Hx)|]. split.
  - intros x F Hx. apply E5; [exact F | apply FinalStar_nil | exact Hx].
  - intros s. split; [intros Hs; apply (E3 s Hs) | intros S; apply E6; [exact S | apply SkippedStar_nil]].
Qed.
End FromInit.

(* (3) monotonicity along a run *)
Theorem run_monotone C ops1 ops2 t1 e1 t2 e2 :
  ft_consistent C (ops1 ++ ops2) = true ->
  ft_run ft_init ops1 = Some (t1, e1) -> ft_run ft_init (ops1 ++ ops2) = Some (t2, e2) ->
  ft_first t1 <= ft_first t2 /\ ft_highest t1 <= ft_highest t2.
Proof.
  intros Hc R1 R2. apply consistent_Cons in Hc.
  destruct (run_ok C ops1 [] ft_init Inv_init (Cons_prefix _ _ _ Hc)) as [t1' [e1' [R1' [I1 _]]]].
  cbn [app] in *. rewrite R1 in R1'. injection R1' as <- <-.
  destruct (run_ok C ops2 ops1 t1 I1 Hc) as [t2' [e2' [R2' [_ [F [G _]]]]]].
  rewrite ft_run_app, R1, R2' in R2. injection R2 as <- _. auto.
Qed.

(* ================= (5) late marks for a decided slot change nothing ================= *)
Lemma ft_eta t : mkFT (ft_status t) (ft_parents t) (ft_highest t) (ft_first t) = t.
Proof. destruct t. reflexivity. Qed.
Lemma set_restore t s v w : alookup s (ft_status t) = Some v -> ft_set_status (ft_set_status t s w) s v = t.
Proof.
  intros E. unfold ft_set_status. cbn [ft_status ft_parents ft_highest ft_first].
  rewrite (ainsert_restore s v w _ E). apply ft_eta.
Qed.

Theorem late_notarization_ignored : forall t b t' ev,
  is_decided (alookup (fst b) (ft_status t)) = true -> ft_mark_notarized t b = Some (t', ev) ->
  t' = t /\ ev = fe_empty.
Proof.
  intros t [s h] t' ev Dec R. unfold ft_mark_notarized in R. cbn [fst snd] in *.
  destruct (s <? ft_first t); [injection R as <- <-; auto|].
  destruct (alookup s (ft_status t)) as [[h'| |h'|h'|]|] eqn:E; cbn [is_decided] in Dec; try discriminate.
  - destruct (h' =? h); [|discriminate]. injection R as <- <-. split; [apply set_restore; exact E | reflexivity].
  - injection R as <- <-. split; [apply set_restore; exact E | reflexivity].
  - injection R as <- <-. split; [apply set_restore; exact E | reflexivity].
Qed.
Theorem late_finalization_ignored : forall t s t' ev,
  is_decided (alookup s (ft_status t)) = true -> ft_mark_finalized t s = Some (t', ev) ->
  t' = t /\ ev = fe_empty.
Proof.
  intros t s t' ev Dec R. unfold ft_mark_finalized in R.
  destruct (s <? ft_first t); [injection R as <- <-; auto|].
  destruct (alookup s (ft_status t)) as [[h'| |h'|h'|]|] eqn:E; cbn [is_decided] in Dec; try discriminate.
  - injection R as <- <-. split; [apply set_restore; exact E | reflexivity].
  - injection R as <- <-. split; [apply set_restore; exact E | reflexivity].
Qed.
(* a late fast-finalization mark may turn "implicitly finalized" into "finalized" (same block) - nothing else *)
Theorem late_fast_finalization_ignored : forall t b t' ev,
  is_decided (alookup (fst b) (ft_status t)) = true -> ft_mark_fast_finalized t b = Some (t', ev) ->
  ev = fe_empty /\ (forall s, ft_view t' s = ft_view t s) /\
  ft_parents t' = ft_parents t /\ ft_first t' = ft_first t /\ ft_highest t' = ft_highest t.
Proof.
  intros t [s h] t' ev Dec R. unfold ft_mark_fast_finalized in R. cbn [fst snd] in *.
  destruct (s <? ft_first t); [injection R as <- <-; auto|].
  assert (G : forall h', (alookup s (ft_status t) = Some (FFinalized h') \/ alookup s (ft_status t) = Some (FImplFinalized h')) ->
              (if h' =? h then Some (ft_set_status t s (FFinalized h), fe_empty) else None) = Some (t', ev) ->
              ev = fe_empty /\ (forall s0, ft_view t' s0 = ft_view t s0) /\
              ft_parents t' = ft_parents t /\ ft_first t' = ft_first t /\ ft_highest t' = ft_highest t).
  { intros h' E R'. destruct (h' =? h) eqn:Eh; [|discriminate]. apply N.eqb_eq in Eh. subst h'.
    injection R' as <- <-. split; [reflexivity|]. split; [|auto].
    intros s0. unfold ft_view. change (alookup s0 (ft_status (ft_set_status t s (FFinalized h)))) with (st (ft_set_status t s (FFinalized h)) s0).
    rewrite st_set. destruct (s0 =? s) eqn:E0; [|reflexivity]. apply N.eqb_eq in E0. subst s0.
    destruct E as [E|E]; rewrite E; reflexivity. }
  destruct (alookup s (ft_status t)) as [[h'| |h'|h'|]|] eqn:E; cbn [is_decided] in Dec; try discriminate.
  - apply (G h'); [left; reflexivity | exact R].
  - apply (G h'); [right; reflexivity | exact R].
Qed.

(* ================= witnesses ================= *)
(* a history that exercises the interesting orders: finalization before notarization, child link before
   parent link, a gap, marks and links for slots already decided *)
Definition ex_chain (s : slot) : option hash :=
  if s =? 0 then Some 0 else if s =? 1 then Some 1 else if s =? 3 then Some 3 else if s =? 5 then Some 5 else None.
Definition ex_ops : list ft_op :=
  [TFinal 3; TParent (5, 5) (3, 3); TNotar (1, 1); TFast (5, 5); TNotar (3, 3); TParent (3, 3) (1, 1);
   TParent (1, 1) (0, 0); TNotar (5, 5); TFinal 1].
Lemma ex_ops_consistent : ft_consistent ex_chain ex_ops = true.
Proof. vm_compute. reflexivity. Qed.
Lemma ex_ops_run : exists t evs, ft_run ft_init ex_ops = Some (t, evs) /\
  ft_first t = 5 /\ ft_highest t = 5 /\
  all_final_events evs = [(5, 5); (3, 3); (1, 1)] /\ all_skip_events evs = [4; 2].
Proof. eexists; eexists. split; [vm_compute; reflexivity|]. vm_compute. repeat split. Qed.

(* without writing a decided status back (the defect recorded for the pinned tree) a late notarization
   mark for an already finalized slot makes the tracker contradict the specification *)
Lemma norestore_refuted : exists C ops b t evs t' ev,
  ft_consistent C (ops ++ [TNotar b]) = true /\ ft_run ft_init ops = Some (t, evs) /\
  is_decided (alookup (fst b) (ft_status t)) = true /\
  ft_mark_notarized_norestore t b = Some (t', ev) /\
  ft_view t' (fst b) <> spec_view (ops ++ [TNotar b]) (fst b) /\
  ft_view t' (fst b) <> ft_view t (fst b).
Proof.
  exists (fun s => if s =? 0 then Some 0 else if s =? 2 then Some 2 else None), [TFast (2, 2)], (2, 2).
  eexists; eexists; eexists; eexists.
  split; [vm_compute; reflexivity|]. split; [vm_compute; reflexivity|].
  split; [vm_compute; reflexivity|]. split; [vm_compute; reflexivity|].
  split; vm_compute; discriminate.
Qed.

(* what happens without consistency: two fast-finalized blocks in one slot (not on one chain).
   If the second mark arrives while the slot is still held the tracker panics; if the slot has already
   been pruned the mark is silently ignored, so the block is justified by the marks but never reported *)
Lemma inconsistent_history_refuted :
  ft_run ft_init [TFast (1, 1); TFast (1, 9)] = None /\
  ft_run ft_init [TNotar (1, 1); TNotar (1, 2)] = None /\
  exists t evs, let ops := [TFast (1, 1); TFast (2, 2); TFast (1, 9)] in
    ft_run ft_init ops = Some (t, evs) /\ FinalStar ops (1, 9) /\ FinalStar ops (1, 1) /\
    ~ In (1, 9) (all_final_events evs).
Proof.
  split; [vm_compute; reflexivity|]. split; [vm_compute; reflexivity|].
  eexists; eexists. cbv zeta. split; [vm_compute; reflexivity|].
  split; [apply FS_direct; left; unfold Fast; cbn; tauto|].
  split; [apply FS_direct; left; unfold Fast; cbn; tauto|].
  vm_compute. intros [X|[X|[]]]; discriminate.
Qed.

(* observation: genesis is reported as implicitly finalized only when the parent link of its child is
   known before the child is finalized (afterwards slot 0 lies below the watermark) - the reason why
   completeness of the reports is stated for slots > 0 *)
Lemma genesis_report_depends_on_order :
  let C := fun s => if s =? 0 then Some 0 else if s =? 1 then Some 1 else None in
  let a := [TParent (1, 1) (0, 0); TFast (1, 1)] in
  let b := [TFast (1, 1); TParent (1, 1) (0, 0)] in
  ft_consistent C a = true /\ ft_consistent C b = true /\
  exists ta ea tb eb, ft_run ft_init a = Some (ta, ea) /\ ft_run ft_init b = Some (tb, eb) /\
    In (0, 0) (all_final_events ea) /\ ~ In (0, 0) (all_final_events eb) /\
    ft_first ta = ft_first tb /\ ft_highest ta = ft_highest tb.
Proof.
  cbv zeta. split; [vm_compute; reflexivity|]. split; [vm_compute; reflexivity|].
  eexists; eexists; eexists; eexists.
  split; [vm_compute; reflexivity|]. split; [vm_compute; reflexivity|].
  split; [vm_compute; tauto|]. split; [vm_compute; intros [X|[]]; discriminate|].
  split; vm_compute; reflexivity.
Qed.

(* consistency of a history is inherited by its prefixes: every theorem above applies after every
   operation of a consistent run ("as soon as") *)
Lemma finb_app a b s : finb (a ++ b) s = finb a s || finb b s.
Proof. unfold finb. apply existsb_app. Qed.
Lemma fin_guard_prefix a b s (x : bool) : negb (finb (a ++ b) s) || x = true -> negb (finb a s) || x = true.
Proof. rewrite finb_app. destruct (finb a s), (finb b s), x; cbn; congruence. Qed.
Lemma op_consistent_prefix C a b o : op_consistent C (a ++ b) o = true -> op_consistent C a o = true.
Proof.
  destruct o as [c p|x|x|s]; cbn [op_consistent]; try (intros X; exact X).
  - rewrite forallb_app. intros X. apply andb_prop in X. destruct X as [X X3]. apply andb_prop in X. destruct X as [X1 X2].
    apply andb_prop in X2. destruct X2 as [X2 _]. rewrite X1, X2, X3. reflexivity.
  - rewrite forallb_app. intros X. apply andb_prop in X. destruct X as [X X3]. apply andb_prop in X. destruct X as [X1 X2].
    apply andb_prop in X3. destruct X3 as [X3 _].
    apply fin_guard_prefix in X1. rewrite X1, X2, X3. reflexivity.
  - rewrite forallb_app. intros X. apply andb_prop in X. destruct X as [X X3]. apply andb_prop in X. destruct X as [X1 X2].
    apply andb_prop in X2. destruct X2 as [X2 _]. rewrite X1, X2, X3. reflexivity.
Qed.
Lemma consistent_prefix C a b : ft_consistent C (a ++ b) = true -> ft_consistent C a = true.
Proof.
  unfold ft_consistent. intros X. apply andb_prop in X. destruct X as [X1 X2].
  apply fin_guard_prefix in X1. rewrite X1. cbn [andb].
  rewrite forallb_app in X2. apply andb_prop in X2. destruct X2 as [X2 _].
  rewrite forallb_forall in X2 |- *. intros o Ho. apply (op_consistent_prefix C a b). apply X2. exact Ho.
Qed.

(* ================= the pinned assertions (Model/FinalitySpec.v, [strict] = true) ================= *)
(* [strict] = false is the current model, definition by definition *)
Lemma ft_handle_impl_gen_false : forall fuel t m b ev,
  ft_handle_impl_gen false fuel t m b ev = ft_handle_impl fuel t m b ev.
Proof.
  induction fuel as [|f IH]; intros t m b ev; [reflexivity|].
  cbn [ft_handle_impl_gen ft_handle_impl andb].
  destruct (negb (fst b <? m)); [reflexivity|]. destruct (fst b <? ft_first t); [reflexivity|].
  destruct (ft_skip_between t ev _) as [[[t1 ev1] fl]|]; [|reflexivity]. destruct fl; [reflexivity|].
  cbv zeta.
  destruct (alookup (fst b) (ft_status t1)) as [[h| |h|h|]|]; try reflexivity;
    (destruct (blookup b (ft_parents (ft_set_status t1 (fst b) (FImplFinalized (snd b))))); [apply IH | reflexivity]).
Qed.
Lemma ft_hfb_gen_false t b ev : ft_handle_finalized_block_gen false t b ev = ft_handle_finalized_block t b ev.
Proof.
  unfold ft_handle_finalized_block_gen, ft_handle_finalized_block. cbv zeta.
  destruct (blookup b _); [|reflexivity]. rewrite ft_handle_impl_gen_false. reflexivity.
Qed.
Lemma ft_step_gen_false t o : ft_step_gen false t o = ft_step t o.
Proof.
  destruct o as [c p|b|b|s]; cbn [ft_step_gen ft_step].
  - unfold ft_add_parent_gen, ft_add_parent. destruct (negb (fst p <? fst c)); [reflexivity|].
    destruct (fst c <? ft_first t); [reflexivity|]. destruct (blookup c (ft_parents t)); [reflexivity|].
    cbv zeta. destruct (alookup (fst c) _) as [[h| |h|h|]|]; try reflexivity;
      (destruct (h =? snd c); [rewrite ft_handle_impl_gen_false; reflexivity | reflexivity]).
  - unfold ft_mark_notarized_gen, ft_mark_notarized. cbn [andb]. destruct (fst b <? ft_first t); [reflexivity|].
    cbv zeta. destruct (alookup (fst b) (ft_status t)) as [[h| |h|h|]|]; try reflexivity. apply ft_hfb_gen_false.
  - unfold ft_mark_fast_finalized_gen, ft_mark_fast_finalized. destruct (fst b <? ft_first t); [reflexivity|].
    cbv zeta. destruct (alookup (fst b) (ft_status t)) as [[h| |h|h|]|]; try reflexivity; try apply ft_hfb_gen_false.
    destruct (h =? snd b); [apply ft_hfb_gen_false | reflexivity].
  - unfold ft_mark_finalized_gen, ft_mark_finalized. destruct (s <? ft_first t); [reflexivity|].
    cbv zeta. destruct (alookup s (ft_status t)) as [[h| |h|h|]|]; try reflexivity. apply ft_hfb_gen_false.
Qed.
Lemma ft_run_gen_false : forall ops t, ft_run_gen false t ops = ft_run t ops.
Proof.
  induction ops as [|o rest IH]; intros t; [reflexivity|]. cbn [ft_run_gen ft_run].
  rewrite ft_step_gen_false. destruct (ft_step t o) as [[t1 ev]|]; [|reflexivity]. rewrite IH. reflexivity.
Qed.

(* the safe execution found by the C01 composition (stakes [41,40,19]): slot 1 holds a notarization
   certificate for (1,12) and a notar-fallback certificate for (1,11); the chain continues from (1,11);
   (4,41) is fast-finalized.  In tracker operations, followed by a late re-delivery of the notarization: *)
Definition nb_chain (s : slot) : option hash :=
  if s =? 0 then Some 0 else if s =? 1 then Some 11 else if s =? 2 then Some 21 else if s =? 4 then Some 41 else None.
Definition nb_ops : list ft_op :=
  [TParent (1, 11) (0, 0); TParent (1, 12) (0, 0); TNotar (1, 12); TParent (2, 21) (1, 11);
   TParent (4, 41) (2, 21); TNotar (4, 41); TFast (4, 41); TNotar (1, 12)].
(* the same conflict met by mark_notarized: the notarization of (2,22) arrives after (2,21) has been
   implicitly finalized, while slot 2 is still held (slot 1 is undecided) *)
Definition nb_chain2 (s : slot) : option hash := if s =? 2 then Some 21 else if s =? 3 then Some 31 else None.
Definition nb_ops2 : list ft_op := [TParent (3, 31) (2, 21); TFast (3, 31); TNotar (2, 22)].

Lemma nb_ops_consistent : ft_consistent nb_chain nb_ops = true /\ ft_consistent nb_chain2 nb_ops2 = true.
Proof. vm_compute. split; reflexivity. Qed.
Lemma nb_ops_run : exists t evs, ft_run ft_init nb_ops = Some (t, evs) /\
  In (1, 11) (flat_map fe_impl_final evs) /\
  all_final_events evs = [(4, 41); (2, 21); (1, 11); (0, 0)] /\ all_skip_events evs = [3] /\
  ft_first t = 4 /\ ft_highest t = 4.
Proof. eexists; eexists. split; [vm_compute; reflexivity|]. vm_compute. repeat split. right. left. reflexivity. Qed.
Lemma nb_ops2_run : exists t evs, ft_run ft_init nb_ops2 = Some (t, evs) /\
  ft_view t 2 = VFinal 21 /\ all_final_events evs = [(3, 31); (2, 21)] /\ ft_first t = 0.
Proof. eexists; eexists. split; [vm_compute; reflexivity|]. vm_compute. repeat split. Qed.

(* with the pinned assertions both consistent histories panic *)
Lemma pinned_notarized_other_block_panics :
  ft_consistent nb_chain nb_ops = true /\ ft_run_pinned ft_init nb_ops = None /\ ft_run ft_init nb_ops <> None /\
  ft_consistent nb_chain2 nb_ops2 = true /\ ft_run_pinned ft_init nb_ops2 = None /\ ft_run ft_init nb_ops2 <> None.
Proof.
  split; [vm_compute; reflexivity|]. split; [vm_compute; reflexivity|]. split; [vm_compute; discriminate|].
  split; [vm_compute; reflexivity|]. split; [vm_compute; reflexivity|]. vm_compute. discriminate.
Qed.
