(* What the executable schedule check of Model/Timers.v means, for every slot of a window. *)
From Coq Require Import List NArith Bool Lia.
From AG Require Import Gen.Params Model.Timers.
Import ListNotations.
Open Scope N_scope.

Lemma timely_from_spec : forall l i, timely_from i l = true ->
  forall k t, nth_error l k = Some t -> timely_block_arrival (i + N.of_nat k) <= t.
Proof.
  induction l as [|x r IH]; intros i H k t Hk.
  - destruct k; discriminate.
  - cbn [timely_from] in H. apply andb_prop in H. destruct H as [Hx Hr].
    destruct k as [|k'].
    + cbn in Hk. injection Hk as <-. apply N.leb_le in Hx. replace (i + N.of_nat 0) with i by lia. exact Hx.
    + cbn [nth_error] in Hk. specialize (IH (i + 1) Hr k' t Hk).
      replace (i + N.of_nat (S k')) with (i + 1 + N.of_nat k') by lia. exact IH.
Qed.

Lemma increasing_from_lower : forall l prev, increasing_from prev l = true -> forall t, In t l -> prev < t.
Proof.
  induction l as [|x r IH]; intros prev H t Hin.
  - destruct Hin.
  - cbn [increasing_from] in H. apply andb_prop in H. destruct H as [Hx Hr]. apply N.ltb_lt in Hx.
    destruct Hin as [<-|Hin]; [exact Hx|]. specialize (IH x Hr t Hin). lia.
Qed.

Theorem schedule_ok_spec : forall crashed slots, schedule_ok crashed slots = true ->
  length slots = N.to_nat SLOTS_PER_WINDOW /\
  timely_first_shred_arrival <= crashed /\
  (forall t, In t slots -> crashed <= t) /\
  (forall k t, nth_error slots k = Some t -> timely_block_arrival (N.of_nat k) <= t).
Proof.
  intros crashed slots H. unfold schedule_ok in H.
  apply andb_prop in H. destruct H as [H Ht].
  apply andb_prop in H. destruct H as [H Hord].
  apply andb_prop in H. destruct H as [Hlen Hc].
  apply N.eqb_eq in Hlen. apply N.leb_le in Hc.
  split; [lia|]. split; [exact Hc|]. split.
  - destruct slots as [|t0 r]; [discriminate|].
    apply andb_prop in Hord. destruct Hord as [H0 Hinc]. apply N.leb_le in H0.
    intros t [<-|Hin]; [exact H0|]. pose proof (increasing_from_lower r t0 Hinc t Hin). lia.
  - intros k t Hk. pose proof (timely_from_spec slots 0 Ht k t Hk) as P. exact P.
Qed.

(* the schedule measured from the code on this run passes the check *)
Lemma measured_schedule_ok : schedule_ok TIMER_CRASHED_MS TIMER_SLOT_MS = true.
Proof. vm_compute. reflexivity. Qed.

Theorem measured_schedule_timely :
  length TIMER_SLOT_MS = N.to_nat SLOTS_PER_WINDOW /\
  timely_first_shred_arrival <= TIMER_CRASHED_MS /\
  (forall t, In t TIMER_SLOT_MS -> TIMER_CRASHED_MS <= t) /\
  (forall k t, nth_error TIMER_SLOT_MS k = Some t -> timely_block_arrival (N.of_nat k) <= t).
Proof. exact (schedule_ok_spec _ _ measured_schedule_ok). Qed.

(* a schedule whose slot timeouts start at the crashed-leader timeout (every slot timeout DELTA_BLOCK - DELTA_FIRST_SLICE
   early) is refused: the first block of a correct leader may then arrive after its timeout *)
Lemma early_schedule_refused :
  schedule_ok (3 * DELTA_MS + D_FIRST) [3 * DELTA_MS + D_FIRST; 3 * DELTA_MS + D_FIRST + D_BLOCK;
                                        3 * DELTA_MS + D_FIRST + 2 * D_BLOCK; 3 * DELTA_MS + D_FIRST + 3 * D_BLOCK] = false.
Proof. vm_compute. reflexivity. Qed.
