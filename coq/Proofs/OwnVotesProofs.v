(* C05, last clause: a correct node's own votes are never a slashable combination.
   A. every list of votes that obeys the node-level rules R1-R3 of Model/NodeRules.v vote by vote
      (ok_chain) is pairwise free of the pool's conflict relation (Model/PoolSpec.v conflicts); the
      own votes of every Votor trace are such a list (SafetyLink.votor_obeys_rules).
   B. replaying such a list through the pool's vote-admission model never yields a slashable
      verdict, and every refusal is an exact / equivalent repeat of an earlier vote of the list.
   C. every own vote is cast for a slot that is unpruned and not retired in the state it is cast in,
      except the repetition of a finalization vote (per-slot invariant J through all handlers). *)
From Coq Require Import List NArith Bool Lia ZifyBool ZifyN ZifyNat.
From AG Require Import Gen.Params Model.Pool Model.PoolSpec Model.Votor Model.Safety Model.NodeRules Model.Node
                       Model.OwnVotesSpec Proofs.SlotStateProofs Proofs.VotorProofs Proofs.SafetyLink Oracle.VotorRun.
Import ListNotations.
Open Scope N_scope.

(* ====================== A. the rules exclude every conflict ====================== *)
(* each vote passed the node-level check against the votes before it (under some evidence) *)
Fixpoint ok_chain (older vs : list vote) : Prop :=
  match vs with
  | [] => True
  | x :: t => (exists ev, vote_okb older ev x = true) /\ ok_chain (older ++ [x]) t
  end.

Lemma ok_chain_app older a b : ok_chain older (a ++ b) <-> ok_chain older a /\ ok_chain (older ++ a) b.
Proof.
  revert older. induction a as [|x a IH]; intros older; cbn [app ok_chain].
  - rewrite app_nil_r. tauto.
  - rewrite IH, <- app_assoc. cbn [app]. tauto.
Qed.

Lemma rules_chain older ev vs : rules_ok_from older ev vs = true -> ok_chain older vs.
Proof.
  revert older. induction vs as [|x t IH]; intros older H; cbn [rules_ok_from ok_chain] in *; [exact I|].
  apply andb_prop in H. destruct H as [H1 H2]. split; [exists ev; exact H1 | apply IH; exact H2].
Qed.

Lemma own_votes_cons i o rest : own_votes ((i, o) :: rest) = decision_votes i o ++ own_votes rest.
Proof. reflexivity. Qed.

Lemma trace_chain own : forall tr older ev,
  trace_ok own older ev tr = true ->
  ok_chain older (own_votes tr) /\ Forall (fun v => v_signer v = own) (own_votes tr).
Proof.
  induction tr as [|[i outs] rest IH]; intros older ev H.
  - split; [exact I | constructor].
  - cbn [trace_ok] in H. apply andb_prop in H. destruct H as [H H3]. apply andb_prop in H. destruct H as [H1 H2].
    rewrite own_votes_cons. destruct (IH _ _ H3) as [C F]. split.
    + apply ok_chain_app. split; [eapply rules_chain; exact H2 | exact C].
    + apply Forall_app. split; [|exact F]. apply Forall_forall. intros v Hv.
      rewrite forallb_forall in H1. apply N.eqb_eq. apply H1. exact Hv.
Qed.

Lemma chain_mid l1 x l2 older : ok_chain older (l1 ++ x :: l2) -> exists ev, vote_okb (older ++ l1) ev x = true.
Proof. intros H. apply ok_chain_app in H. destruct H as [_ [H _]]. exact H. Qed.

Lemma has_w l1 w l2 f : f (v_kind w) = true -> own_has (l1 ++ w :: l2) (v_slot w) f = true.
Proof.
  intros H. unfold own_has. apply existsb_exists. exists w. split; [apply in_or_app; right; left; reflexivity|].
  rewrite N.eqb_refl, H. reflexivity.
Qed.

Lemma own_has_elim older s f : own_has older s f = true -> exists w, In w older /\ v_slot w = s /\ f (v_kind w) = true.
Proof.
  unfold own_has. intros H. apply existsb_exists in H. destruct H as [w [Hw E]]. apply andb_prop in E. destruct E as [E1 E2].
  apply N.eqb_eq in E1. eauto.
Qed.

Lemma own_has_mono l1 l2 s f : own_has l1 s f = true -> own_has (l1 ++ l2) s f = true.
Proof. intros H. rewrite own_has_app, H. reflexivity. Qed.

(* the heart: a vote that passes the check conflicts with none of the (rule-abiding) votes before it *)
Lemma chain_no_conflict : forall l1 w l2 x,
  ok_chain [] (l1 ++ w :: l2) -> (exists ev, vote_okb (l1 ++ w :: l2) ev x = true) -> v_slot w = v_slot x ->
  conflicts (v_kind w) (v_kind x) = None.
Proof.
  intros l1 w l2 x Hc [ev Hx] Hs.
  destruct (chain_mid l1 w l2 [] Hc) as [evw Hw]. cbn [app] in Hw.
  unfold vote_okb in Hx, Hw.
  destruct x as [sx kx ox], w as [sw kw ow]. cbn [v_slot v_kind v_signer] in *. subst sw.
  destruct kx as [hx|hx| | |]; destruct kw as [hw|hw| | |]; cbn [conflicts]; try reflexivity; exfalso;
    repeat match goal with H : _ && _ = true |- _ => apply andb_prop in H; destruct H end;
    try solve [ match goal with
                | H : negb (own_has (l1 ++ ?w :: l2) ?s ?f) = true |- _ =>
                  let Z := fresh "Z" in
                  pose proof (has_w l1 w l2 f eq_refl) as Z; cbn [v_slot] in Z; rewrite Z in H; discriminate
                end ].
  (* skip after final: the final vote was preceded by the own notarization vote of that slot *)
  match goal with H : existsb _ (ev_nc evw) = true |- _ => apply existsb_exists in H; destruct H as [b [_ Hb]] end.
  apply andb_prop in Hb. destruct Hb as [Hb1 Hb2]. apply N.eqb_eq in Hb1.
  apply orb_prop in Hb2. destruct Hb2 as [Hg|Hn].
  - apply bid_eqb_true in Hg. subst b. cbn [genesis fst] in Hb1. subst sx.
    match goal with H : (0 <? 0) = true |- _ => rewrite N.ltb_irrefl in H; discriminate end.
  - apply own_has_elim in Hn. destruct Hn as [w' [Hw' [Sw' Kw']]].
    assert (Ki : k_initial (v_kind w') = true).
    { unfold k_notar in Kw'. destruct (v_kind w'); try discriminate. reflexivity. }
    assert (Z : own_has (l1 ++ mkVote sx KFinal ow :: l2) sx k_initial = true).
    { apply own_has_mono. unfold own_has. apply existsb_exists. exists w'. split; [exact Hw'|].
      rewrite Sw', N.eqb_refl, Ki. reflexivity. }
    match goal with H : negb (own_has (l1 ++ _ :: l2) sx k_initial) = true |- _ => rewrite Z in H; discriminate end.
Qed.

Theorem chain_pairwise : forall l1 w l2 x l3,
  ok_chain [] (l1 ++ w :: l2 ++ x :: l3) -> v_slot w = v_slot x -> conflicts (v_kind w) (v_kind x) = None.
Proof.
  intros l1 w l2 x l3 H Hs.
  replace (l1 ++ w :: l2 ++ x :: l3) with ((l1 ++ w :: l2) ++ x :: l3) in H by (rewrite <- app_assoc; reflexivity).
  apply ok_chain_app in H. destruct H as [Ha [Hb _]]. cbn [app] in Hb.
  eapply chain_no_conflict; [exact Ha | exact Hb | exact Hs].
Qed.

Lemma conflicts_refl k : conflicts k k = None.
Proof. destruct k; cbn [conflicts]; try reflexivity. rewrite N.eqb_refl. reflexivity. Qed.
Lemma conflicts_sym k k' : conflicts k k' = conflicts k' k.
Proof. destruct k, k'; cbn [conflicts]; try reflexivity. rewrite N.eqb_sym. reflexivity. Qed.

Theorem chain_in_pairwise : forall vs v w,
  ok_chain [] vs -> In v vs -> In w vs -> v_slot v = v_slot w -> conflicts (v_kind v) (v_kind w) = None.
Proof.
  intros vs v w Hc Hv Hw Hs. apply in_split in Hv. destruct Hv as (l1 & l2 & ->).
  apply in_app_or in Hw. destruct Hw as [Hw | [<- | Hw]].
  - apply in_split in Hw. destruct Hw as (a & b & ->). rewrite conflicts_sym.
    apply (chain_pairwise a w b v l2); [|symmetry; exact Hs].
    replace (a ++ w :: b ++ v :: l2) with ((a ++ w :: b) ++ v :: l2) by (rewrite <- app_assoc; reflexivity). exact Hc.
  - apply conflicts_refl.
  - apply in_split in Hw. destruct Hw as (a & b & ->). apply (chain_pairwise l1 v a w b); [exact Hc | exact Hs].
Qed.

(* ---------- the executable form ---------- *)
Lemma slashable_pair_sym v w : slashable_pair v w = slashable_pair w v.
Proof. unfold slashable_pair, is_offence. rewrite (N.eqb_sym (v_slot v)), (N.eqb_sym (v_signer v)), conflicts_sym. reflexivity. Qed.
Lemma slashable_pair_refl v : slashable_pair v v = false.
Proof. unfold slashable_pair, is_offence. rewrite conflicts_refl. apply andb_false_r. Qed.

Lemma slashable_pair_false v w :
  slashable_pair v w = false <-> (v_slot v = v_slot w -> v_signer v = v_signer w -> conflicts (v_kind v) (v_kind w) = None).
Proof.
  unfold slashable_pair, is_offence. split.
  - intros H E1 E2. apply N.eqb_eq in E1. apply N.eqb_eq in E2. rewrite E1, E2 in H. cbn [andb] in H.
    destruct (conflicts (v_kind v) (v_kind w)); [discriminate | reflexivity].
  - intros H. destruct (v_slot v =? v_slot w) eqn:E1; [|reflexivity]. destruct (v_signer v =? v_signer w) eqn:E2; [|reflexivity].
    apply N.eqb_eq in E1. apply N.eqb_eq in E2. rewrite (H E1 E2). reflexivity.
Qed.

Lemma cf_intro : forall vs older,
  (forall l1 x l2, vs = l1 ++ x :: l2 -> forall w, In w (older ++ l1) -> slashable_pair w x = false) ->
  conflict_free_from older vs = true.
Proof.
  induction vs as [|a t IH]; intros older H; cbn [conflict_free_from]; [reflexivity|].
  apply andb_true_intro. split.
  - apply forallb_forall. intros w Hw. rewrite (H [] a t eq_refl w); [reflexivity | rewrite app_nil_r; exact Hw].
  - apply IH. intros l1 x l2 E w Hw. apply (H (a :: l1) x l2); [rewrite E; reflexivity|].
    rewrite <- app_assoc in Hw. exact Hw.
Qed.

Lemma cf_elim : forall vs older, conflict_free_from older vs = true ->
  forall l1 x l2, vs = l1 ++ x :: l2 -> forall w, In w (older ++ l1) -> slashable_pair w x = false.
Proof.
  induction vs as [|a t IH]; intros older H l1 x l2 E w Hw.
  - destruct l1; discriminate.
  - cbn [conflict_free_from] in H. apply andb_prop in H. destruct H as [H1 H2]. destruct l1 as [|b l1].
    + cbn [app] in E. injection E as <- <-. rewrite app_nil_r in Hw. rewrite forallb_forall in H1.
      specialize (H1 w Hw). destruct (slashable_pair w a); [discriminate | reflexivity].
    + cbn [app] in E. injection E as <- ->. apply (IH (older ++ [a]) H2 l1 x l2 eq_refl).
      rewrite <- app_assoc. exact Hw.
Qed.

Theorem conflict_free_spec : forall vs,
  conflict_free vs = true <-> (forall v w, In v vs -> In w vs -> slashable_pair v w = false).
Proof.
  intros vs. unfold conflict_free. split.
  - intros H v w Hv Hw. apply in_split in Hv. destruct Hv as (l1 & l2 & ->).
    apply in_app_or in Hw. destruct Hw as [Hw | [<- | Hw]].
    + rewrite slashable_pair_sym. apply (cf_elim _ [] H l1 v l2 eq_refl). exact Hw.
    + apply slashable_pair_refl.
    + apply in_split in Hw. destruct Hw as (a & b & ->).
      apply (cf_elim _ [] H (l1 ++ v :: a) w b); [rewrite <- app_assoc; reflexivity|].
      cbn [app]. apply in_or_app. right. left. reflexivity.
  - intros H. apply cf_intro. intros l1 x l2 -> w Hw. cbn [app] in Hw. apply H.
    + apply in_or_app. left. exact Hw.
    + apply in_or_app. right. left. reflexivity.
Qed.

Lemma chain_conflict_free vs : ok_chain [] vs -> conflict_free vs = true.
Proof.
  intros H. apply conflict_free_spec. intros v w Hv Hw. apply slashable_pair_false. intros Hs _.
  apply (chain_in_pairwise vs v w H Hv Hw Hs).
Qed.

(* ---------- every trace of the Votor model ---------- *)
Theorem votor_own_votes_chain : forall own ins,
  ok_chain [] (own_votes (votor_trace own votor_init ins)) /\
  Forall (fun v => v_signer v = own) (own_votes (votor_trace own votor_init ins)).
Proof. intros own ins. apply (trace_chain own _ [] ev_empty). apply votor_obeys_rules. Qed.

Theorem own_votes_signed_by_self : forall own ins v,
  In v (own_votes (votor_trace own votor_init ins)) -> v_signer v = own.
Proof.
  intros own ins v Hv. destruct (votor_own_votes_chain own ins) as [_ F]. rewrite Forall_forall in F. apply F. exact Hv.
Qed.

Theorem own_votes_never_conflict : forall own ins v w,
  In v (own_votes (votor_trace own votor_init ins)) -> In w (own_votes (votor_trace own votor_init ins)) ->
  v_slot v = v_slot w -> conflicts (v_kind v) (v_kind w) = None.
Proof.
  intros own ins v w Hv Hw Hs. destruct (votor_own_votes_chain own ins) as [C _].
  apply (chain_in_pairwise _ v w C Hv Hw Hs).
Qed.

Theorem own_votes_conflict_free : forall own ins, conflict_free (own_votes (votor_trace own votor_init ins)) = true.
Proof. intros own ins. apply chain_conflict_free. apply votor_own_votes_chain. Qed.

(* the rules are strictly stronger than conflict-freedom: an exact repeat of the notarization vote is
   no offence for the pool (it is refused as a duplicate) but R1 forbids casting it *)
Lemma rules_stricter_than_conflicts : forall ev,
  conflicts (KNotar 5) (KNotar 5) = None /\
  vote_okb [mkVote 1 (KNotar 5) 0] ev (mkVote 1 (KNotar 5) 0) = false.
Proof. intros ev. split; reflexivity. Qed.

(* ====================== B. replay through the vote-admission model ====================== *)
Lemma stored_empty v k : ~ stored ss_empty v k.
Proof. destruct k; cbn; discriminate. Qed.

Lemma aget_ainsert {V} (d : V) k k' x m : aget d k (ainsert k' x m) = if k =? k' then x else aget d k m.
Proof.
  unfold aget. destruct (k =? k') eqn:E.
  - apply N.eqb_eq in E. subst. rewrite alookup_ainsert_same. reflexivity.
  - rewrite alookup_ainsert_other by (apply N.eqb_neq; exact E). reflexivity.
Qed.

Lemma stored_store_inv ss v' k' v k : stored (store_vote ss v' k') v k -> (v = v' /\ k = k') \/ stored ss v k.
Proof.
  destruct k' as [h'|h'| | |]; destruct k as [h|h| | |];
    cbn [stored store_vote with_v ss_v vo_notar vo_nf vo_skip vo_sf vo_fin]; unfold has_nf_vote, memN;
    cbn [ss_v vo_notar vo_nf vo_skip vo_sf vo_fin existsb fst snd]; intros H; try (right; exact H).
  - destruct (N.eq_dec v v') as [->|Hne].
    + rewrite alookup_ainsert_same in H. injection H as <-. left. auto.
    + rewrite alookup_ainsert_other in H by exact Hne. right. exact H.
  - apply orb_prop in H. destruct H as [H|H]; [|right; exact H].
    apply andb_prop in H. destruct H as [H1 H2]. apply N.eqb_eq in H1. apply N.eqb_eq in H2. subst. left. auto.
  - apply orb_prop in H. destruct H as [H|H]; [|right; exact H]. apply N.eqb_eq in H. subst. left. auto.
  - apply orb_prop in H. destruct H as [H|H]; [|right; exact H]. apply N.eqb_eq in H. subst. left. auto.
  - apply orb_prop in H. destruct H as [H|H]; [|right; exact H]. apply N.eqb_eq in H. subst. left. auto.
Qed.

(* everything stored in the replay state was put there by a vote of the replayed prefix *)
Definition replay_inv (ssm : list (slot * slot_state)) (done : list vote) : Prop :=
  forall s v k, stored (aget ss_empty s ssm) v k ->
    exists w, In w done /\ v_slot w = s /\ v_signer w = v /\ v_kind w = k.

Lemma replay_inv_nil : replay_inv [] [].
Proof. intros s v k H. exfalso. exact (stored_empty v k H). Qed.

Lemma replay_inv_mono ssm done x : replay_inv ssm done -> replay_inv ssm (done ++ [x]).
Proof. intros H s v k Hs. destruct (H s v k Hs) as [w [Hw R]]. exists w. split; [apply in_or_app; left; exact Hw | exact R]. Qed.

Lemma replay_inv_add e ssm done x :
  replay_inv ssm done ->
  replay_inv (ainsert (v_slot x) (fst (ss_add_vote e (aget ss_empty (v_slot x) ssm) x)) ssm) (done ++ [x]).
Proof.
  intros H s v k Hs. rewrite aget_ainsert in Hs. destruct (s =? v_slot x) eqn:E.
  - apply N.eqb_eq in E. subst s.
    apply (stored_ext _ (store_vote (aget ss_empty (v_slot x) ssm) (v_signer x) (v_kind x))) in Hs;
      [|unfold ss_add_vote; apply add_vote_stores].
    apply stored_store_inv in Hs. destruct Hs as [[-> ->]|Hs].
    + exists x. split; [apply in_or_app; right; left; reflexivity | auto].
    + destruct (H _ v k Hs) as [w [Hw R]]. exists w. split; [apply in_or_app; left; exact Hw | exact R].
  - destruct (H s v k Hs) as [w [Hw R]]. exists w. split; [apply in_or_app; left; exact Hw | exact R].
Qed.

(* verdict list of a replay: only Ok and Duplicate, a Duplicate names an earlier equivalent vote *)
Inductive verdicts_ok : list vote -> list vote -> list verdict -> Prop :=
| vo_nil : forall done, verdicts_ok done [] []
| vo_ok : forall done x t r, verdicts_ok (done ++ [x]) t r -> verdicts_ok done (x :: t) (VOk :: r)
| vo_dup : forall done x t r w,
    In w done -> v_slot w = v_slot x -> v_signer w = v_signer x -> equivalent (v_kind w) (v_kind x) = true ->
    verdicts_ok (done ++ [x]) t r -> verdicts_ok done (x :: t) (VDuplicate :: r).

Lemma stored_conflict_absurd ssm done x k0 o :
  replay_inv ssm done -> (forall w, In w done -> slashable_pair w x = false) ->
  stored (aget ss_empty (v_slot x) ssm) (v_signer x) k0 -> conflicts k0 (v_kind x) = Some o -> False.
Proof.
  intros Hinv Hpw Hs Hc. destruct (Hinv _ _ _ Hs) as [w [Hw [E1 [E2 E3]]]].
  specialize (Hpw w Hw). unfold slashable_pair, is_offence in Hpw.
  rewrite E1, E2, E3, !N.eqb_refl, Hc in Hpw. discriminate.
Qed.

Lemma replay_verdicts_ok e : forall vs ssm done,
  replay_inv ssm done ->
  (forall l1 x l2, vs = l1 ++ x :: l2 -> forall w, In w (done ++ l1) -> slashable_pair w x = false) ->
  verdicts_ok done vs (replay_verdicts e ssm vs).
Proof.
  induction vs as [|a t IH]; intros ssm done Hinv Hpw; cbn [replay_verdicts]; [constructor|].
  assert (Hpa : forall w, In w done -> slashable_pair w a = false).
  { intros w Hw. apply (Hpw [] a t eq_refl). rewrite app_nil_r. exact Hw. }
  assert (Hpt : forall l1 x l2, t = l1 ++ x :: l2 -> forall w, In w ((done ++ [a]) ++ l1) -> slashable_pair w x = false).
  { intros l1 x l2 E w Hw. apply (Hpw (a :: l1) x l2); [rewrite E; reflexivity|]. rewrite <- app_assoc in Hw. exact Hw. }
  assert (Ea : a = mkVote (v_slot a) (v_kind a) (v_signer a)) by (destruct a; reflexivity).
  destruct (check_slashable (aget ss_empty (v_slot a) ssm) a) as [o|] eqn:CS.
  - exfalso. rewrite Ea in CS. apply flagged_only_conflicts in CS. destruct CS as [k0 [Hs Hc]].
    exact (stored_conflict_absurd ssm done a k0 o Hinv Hpa Hs Hc).
  - destruct (should_ignore (aget ss_empty (v_slot a) ssm) a) eqn:SI.
    + rewrite Ea in SI. apply ignored_only_repeats in SI. destruct SI as [k0 [Hs [He|[o Hc]]]].
      * destruct (Hinv _ _ _ Hs) as [w [Hw [E1 [E2 E3]]]].
        apply (vo_dup done a t _ w Hw E1 E2); [rewrite E3; exact He|].
        apply IH; [apply replay_inv_mono; exact Hinv | exact Hpt].
      * exfalso. exact (stored_conflict_absurd ssm done a k0 o Hinv Hpa Hs Hc).
    + apply vo_ok. apply IH; [apply replay_inv_add; exact Hinv | exact Hpt].
Qed.

Lemma verdicts_ok_length done vs r : verdicts_ok done vs r -> length r = length vs.
Proof. induction 1; cbn [length]; congruence. Qed.

Lemma verdicts_ok_nth done vs r : verdicts_ok done vs r ->
  forall j vd, nth_error r j = Some vd ->
    vd = VOk \/
    (vd = VDuplicate /\ exists w x, nth_error vs j = Some x /\ In w (done ++ firstn j vs) /\
                          v_slot w = v_slot x /\ v_signer w = v_signer x /\ equivalent (v_kind w) (v_kind x) = true).
Proof.
  induction 1 as [done | done x t r H IH | done x t r w Hw E1 E2 E3 H IH]; intros j vd Hj.
  - destruct j; discriminate.
  - destruct j as [|j]; cbn [nth_error] in Hj.
    + injection Hj as <-. left. reflexivity.
    + destruct (IH j vd Hj) as [A|[A (w & y & B1 & B2 & B3)]]; [left; exact A | right; split; [exact A|]].
      exists w, y. cbn [nth_error firstn]. split; [exact B1|]. split; [|exact B3].
      rewrite <- app_assoc in B2. exact B2.
  - destruct j as [|j]; cbn [nth_error] in Hj.
    + injection Hj as <-. right. split; [reflexivity|]. exists w, x. cbn [nth_error firstn]. rewrite app_nil_r. auto.
    + destruct (IH j vd Hj) as [A|[A (w' & y & B1 & B2 & B3)]]; [left; exact A | right; split; [exact A|]].
      exists w', y. cbn [nth_error firstn]. split; [exact B1|]. split; [|exact B3].
      rewrite <- app_assoc in B2. exact B2.
Qed.

(* the replay of a conflict-free list *)
Theorem replay_conflict_free : forall e vs,
  conflict_free vs = true ->
  length (replay_verdicts e [] vs) = length vs /\
  forall j vd, nth_error (replay_verdicts e [] vs) j = Some vd -> vd = VOk \/ (vd = VDuplicate /\ repeats_earlier vs j).
Proof.
  intros e vs H.
  assert (V : verdicts_ok [] vs (replay_verdicts e [] vs)).
  { apply replay_verdicts_ok; [apply replay_inv_nil|]. apply (cf_elim vs [] H). }
  split; [apply (verdicts_ok_length _ _ _ V)|]. intros j vd Hj.
  destruct (verdicts_ok_nth _ _ _ V j vd Hj) as [A|[A (w & x & B)]]; [left; exact A | right; split; [exact A|]].
  exists w, x. cbn [app] in B. exact B.
Qed.

(* the oracle's replay (Oracle/VotorRun.v) accepts exactly when no verdict is slashable *)
Lemma replay_own_verdicts e : forall vs ssm,
  replay_own e ssm vs = forallb (fun vd => match vd with VSlashable _ => false | _ => true end) (replay_verdicts e ssm vs).
Proof.
  induction vs as [|a t IH]; intros ssm; cbn [replay_own replay_verdicts]; [reflexivity|].
  destruct (check_slashable (aget ss_empty (v_slot a) ssm) a); [reflexivity|].
  destruct (should_ignore (aget ss_empty (v_slot a) ssm) a); cbn [forallb andb]; apply IH.
Qed.

Theorem replay_own_conflict_free : forall e vs, conflict_free vs = true -> replay_own e [] vs = true.
Proof.
  intros e vs H. rewrite replay_own_verdicts. apply forallb_forall. intros vd Hin.
  apply In_nth_error in Hin. destruct Hin as [j Hj].
  destruct (proj2 (replay_conflict_free e vs H) j vd Hj) as [->|[-> _]]; reflexivity.
Qed.

Theorem votor_replay_never_slashable : forall e own ins,
  let vs := own_votes (votor_trace own votor_init ins) in
  length (replay_verdicts e [] vs) = length vs /\
  forall j vd, nth_error (replay_verdicts e [] vs) j = Some vd -> vd = VOk \/ (vd = VDuplicate /\ repeats_earlier vs j).
Proof. intros e own ins. apply replay_conflict_free. apply own_votes_conflict_free. Qed.

Theorem votor_replay_own_accepts : forall e own ins,
  replay_own e [] (own_votes (votor_trace own votor_init ins)) = true.
Proof. intros e own ins. apply replay_own_conflict_free. apply own_votes_conflict_free. Qed.

(* ====================== C. where votes are cast ====================== *)
(* per-slot facts behind "retired => only the repeated finalization vote":
   a notarization vote implies voted; a retired slot is voted and (except genesis) its finalization
   vote is among the own votes cast so far *)
Definition jslot (own : vidx) (s : slot) (x : vslot) (older : list vote) : Prop :=
  (vs_voted_notar x <> None -> vs_voted x = true) /\
  (vs_retired x = true -> vs_voted x = true /\ (s = 0 \/ In (mkVote s KFinal own) older)).
Definition J (own : vidx) (t : votor) (older : list vote) : Prop := forall s, jslot own s (vstate t s) older.

Lemma jslot_mono own s x older new : jslot own s x older -> jslot own s x (older ++ new).
Proof.
  intros [A B]. split; [exact A|]. intros R. destruct (B R) as [V [Z|Z]]; split; auto. right. apply in_or_app. left. exact Z.
Qed.
Lemma J_mono own t older new : J own t older -> J own t (older ++ new).
Proof. intros H s. apply jslot_mono. apply H. Qed.
Lemma J_update own t older s x' : J own t older -> jslot own s x' older -> J own (vset t s x') older.
Proof.
  intros H Hs z. rewrite vstate_vset. destruct (z =? s) eqn:E; [apply N.eqb_eq in E; subst z; exact Hs | apply H].
Qed.
Lemma jslot_same3 own s x x' older :
  vs_voted x' = vs_voted x -> vs_voted_notar x' = vs_voted_notar x -> vs_retired x' = vs_retired x ->
  jslot own s x older -> jslot own s x' older.
Proof. intros E1 E2 E3 [A B]. unfold jslot. rewrite E1, E2, E3. split; assumption. Qed.

Lemma v_retired_vset t s x z : v_retired (vset t s x) z = if z =? s then vs_retired x else v_retired t z.
Proof. rewrite !v_retired_vstate, vstate_vset. destruct (z =? s); reflexivity. Qed.

Definition G (own : vidx) (t : votor) (older : list vote) (o : list vout) (t' : votor) : Prop :=
  J own t' (older ++ vouts_votes o) /\
  v_first_unpruned t' = v_first_unpruned t /\
  (forall s, v_retired t s = true -> v_retired t' s = true) /\
  Forall (cast_ok own t older) (vouts_votes o).
Definition Gw (own : vidx) (t : votor) (older : list vote) (o : list vout) (t' : votor) : Prop :=
  J own t' (older ++ vouts_votes o) /\ Forall (cast_ok own t older) (vouts_votes o).
Lemma G_Gw own t older o t' : G own t older o t' -> Gw own t older o t'.
Proof. intros (A & _ & _ & D). split; assumption. Qed.

Lemma G_novotes own t older o : vouts_votes o = [] -> J own t older -> G own t older o t.
Proof. intros E H. unfold G. rewrite E, app_nil_r. split; [exact H|]. split; [reflexivity|]. split; [auto | constructor]. Qed.
Lemma G_nil own t older : J own t older -> G own t older [] t.
Proof. apply G_novotes. reflexivity. Qed.

Lemma G_app own t older o1 t1 o2 t2 :
  G own t older o1 t1 -> G own t1 (older ++ vouts_votes o1) o2 t2 -> G own t older (o1 ++ o2) t2.
Proof.
  intros (A1 & B1 & C1 & D1) (A2 & B2 & C2 & D2). unfold G. rewrite vouts_votes_app. split; [|split; [|split]].
  - rewrite app_assoc. exact A2.
  - congruence.
  - intros s R. apply C2. apply C1. exact R.
  - apply Forall_app. split; [exact D1|]. rewrite Forall_forall in *. intros v Hv.
    destruct (D2 v Hv) as (S1 & S2 & S3). split; [exact S1|]. split; [rewrite <- B1; exact S2|].
    intros R. destruct (S3 (C1 _ R)) as [K [Z|Hin]]; (split; [exact K|]); [left; exact Z|].
    apply in_app_or in Hin. destruct Hin as [Hin|Hin]; [right; exact Hin|].
    destruct (D1 v Hin) as (_ & _ & S3'). exact (proj2 (S3' R)).
Qed.

(* updates that leave voted / voted_notar / retired of the slot alone *)
Lemma G_vset_same own t older o t1 s x' :
  G own t older o t1 ->
  vs_voted x' = vs_voted (vstate t1 s) -> vs_voted_notar x' = vs_voted_notar (vstate t1 s) -> vs_retired x' = vs_retired (vstate t1 s) ->
  G own t older o (vset t1 s x').
Proof.
  intros (A & B & C & D) E1 E2 E3. split; [|split; [|split]].
  - apply J_update; [exact A|]. eapply jslot_same3; [exact E1 | exact E2 | exact E3 | apply A].
  - rewrite fu_vset. exact B.
  - intros z R. rewrite v_retired_vset. destruct (z =? s) eqn:E; [|apply C; exact R].
    apply N.eqb_eq in E. subst z. rewrite E3, <- v_retired_vstate. apply C. exact R.
  - exact D.
Qed.
Lemma J_vset_same own t older s x' :
  J own t older ->
  vs_voted x' = vs_voted (vstate t s) -> vs_voted_notar x' = vs_voted_notar (vstate t s) -> vs_retired x' = vs_retired (vstate t s) ->
  J own (vset t s x') older.
Proof. intros H E1 E2 E3. apply J_update; [exact H|]. eapply jslot_same3; [exact E1 | exact E2 | exact E3 | apply H]. Qed.
Lemma G_pre_vset own t older o t' s x' :
  vs_retired x' = vs_retired (vstate t s) -> G own (vset t s x') older o t' -> G own t older o t'.
Proof.
  intros E3 (A & B & C & D).
  assert (R : forall z, v_retired (vset t s x') z = v_retired t z).
  { intros z. rewrite v_retired_vset. destruct (z =? s) eqn:E; [|reflexivity]. apply N.eqb_eq in E. subst z.
    rewrite E3, v_retired_vstate. reflexivity. }
  split; [exact A|]. split; [rewrite B; apply fu_vset|]. split.
  - intros z Hz. apply C. rewrite R. exact Hz.
  - rewrite Forall_forall in *. intros v Hv. destruct (D v Hv) as (S1 & S2 & S3). split; [exact S1|]. split; [exact S2|].
    intros Hr. apply S3. rewrite R. exact Hr.
Qed.

(* ---------- try_final ---------- *)
Lemma try_final_G own t s h older t' o :
  J own t older -> v_try_final own t s h = Some (t', o) -> G own t older o t'.
Proof.
  intros H E. unfold v_try_final in E.
  destruct (s <? v_first_unpruned t) eqn:Fu; [discriminate|]. apply N.ltb_ge in Fu.
  destruct (vget t s) as [x|] eqn:Gt.
  2:{ cbn [andb] in E. injection E as <- <-. apply G_nil. exact H. }
  destruct (opt_hash_eqb (vs_notarized x) h); cbn [andb] in E; [|injection E as <- <-; apply G_nil; exact H].
  destruct (opt_hash_eqb (vs_voted_notar x) h) eqn:E2; cbn [andb] in E; [|injection E as <- <-; apply G_nil; exact H].
  destruct (vs_bad x); cbn [negb] in E; [injection E as <- <-; apply G_nil; exact H|].
  injection E as <- <-.
  assert (N2 : vs_voted_notar x <> None).
  { unfold opt_hash_eqb in E2. destruct (vs_voted_notar x); [discriminate | discriminate]. }
  pose proof (H s) as Hs. rewrite (vget_vstate t s x Gt) in Hs. destruct Hs as [J1 J2].
  rewrite (vget_vstate t s x Gt).
  unfold G. cbn [vouts_votes flat_map app]. split; [|split; [|split]].
  - apply J_update; [apply J_mono; exact H|].
    split; cbn [vs_voted vs_voted_notar vs_retired]; [exact J1|]. intros _. split; [exact (J1 N2)|].
    right. apply in_or_app. right. left. reflexivity.
  - reflexivity.
  - intros z R. rewrite v_retired_vset. destruct (z =? s); [reflexivity | exact R].
  - constructor; [|constructor]. unfold cast_ok. cbn [v_signer v_slot v_kind]. split; [reflexivity|]. split; [exact Fu|].
    intros R. split; [reflexivity|]. rewrite v_retired_vstate, (vget_vstate t s x Gt) in R.
    destruct (J2 R) as [_ [Z|Z]]; [left; exact Z | right; exact Z].
Qed.

(* ---------- try_notar ---------- *)
Lemma try_notar_G own t s h parent older t' o b :
  J own t older -> v_try_notar own t s h parent = Some (t', o, b) -> G own t older o t'.
Proof.
  intros H E. unfold v_try_notar in E.
  destruct (s <? v_first_unpruned t) eqn:Fu; [discriminate|]. apply N.ltb_ge in Fu.
  destruct (v_voted t s) eqn:V; [injection E as <- <- <-; apply G_nil; exact H|].
  match type of E with context [if negb ?c then _ else _] => destruct c end; cbn [negb] in E;
    [|injection E as <- <- <-; apply G_nil; exact H].
  remember (vset t s (mkVS true (Some h) (vs_bad (vstate t s)) (vs_notarized (vstate t s)) (vs_parents (vstate t s))
                           (vs_shred (vstate t s)) None (vs_retired (vstate t s)))) as t1 eqn:Et1.
  destruct (v_try_final own t1 s h) as [[t2 o2]|] eqn:TF; [|discriminate].
  injection E as <- <- <-.
  rewrite v_voted_vstate in V. pose proof (H s) as [J1 J2].
  assert (R0 : vs_retired (vstate t s) = false).
  { destruct (vs_retired (vstate t s)) eqn:R; [|reflexivity]. destruct (J2 eq_refl) as [X _]. congruence. }
  assert (G1 : G own t older [VBVote (mkVote s (KNotar h) own)] t1).
  { unfold G. cbn [vouts_votes flat_map app]. subst t1. split; [|split; [|split]].
    - apply J_update; [apply J_mono; exact H|]. split; cbn [vs_voted vs_voted_notar vs_retired]; [reflexivity|].
      rewrite R0. discriminate.
    - reflexivity.
    - intros z R. rewrite v_retired_vset. destruct (z =? s) eqn:Ez; [|exact R].
      apply N.eqb_eq in Ez. subst z. cbn [vs_retired]. rewrite <- v_retired_vstate. exact R.
    - constructor; [|constructor]. unfold cast_ok. cbn [v_signer v_slot v_kind]. split; [reflexivity|]. split; [exact Fu|].
      intros R. rewrite v_retired_vstate, R0 in R. discriminate. }
  change (VBVote (mkVote s (KNotar h) own) :: o2) with ([VBVote (mkVote s (KNotar h) own)] ++ o2).
  eapply G_app; [exact G1|]. eapply try_final_G; [exact (proj1 G1) | exact TF].
Qed.

(* ---------- try_skip_window ---------- *)
Lemma skip_fold_G own : forall slots t o0 older t' o',
  (forall s', In s' slots -> v_first_unpruned t <= s') ->
  J own t older ->
  fold_left (fun (acc : votor * list vout) s' =>
               let '(t', o) := acc in
               if v_voted t' s' then acc
               else let x := vstate t' s' in
                    (vset t' s' (mkVS true (vs_voted_notar x) true (vs_notarized x) (vs_parents x) (vs_shred x) (vs_pending x) (vs_retired x)),
                     o ++ [VBVote (mkVote s' KSkip own)])) slots (t, o0) = (t', o') ->
  exists extra, o' = o0 ++ extra /\ G own t older extra t'.
Proof.
  induction slots as [|a l IH]; intros t o0 older t' o' Hfu H E; cbn [fold_left] in E.
  - injection E as <- <-. exists []. split; [symmetry; apply app_nil_r | apply G_nil; exact H].
  - destruct (v_voted t a) eqn:V.
    + apply (IH t o0 older t' o'); [intros s' Hs'; apply Hfu; right; exact Hs' | exact H | exact E].
    + rewrite v_voted_vstate in V.
      assert (Fu : v_first_unpruned t <= a) by (apply Hfu; left; reflexivity).
      pose proof (H a) as [J1 J2].
      assert (R0 : vs_retired (vstate t a) = false).
      { destruct (vs_retired (vstate t a)) eqn:R; [|reflexivity]. destruct (J2 eq_refl) as [X _]. congruence. }
      match type of E with fold_left _ _ (?tt, _) = _ => remember tt as t1 eqn:Et1 end.
      assert (G1 : G own t older [VBVote (mkVote a KSkip own)] t1).
      { unfold G. cbn [vouts_votes flat_map app]. subst t1. split; [|split; [|split]].
        - apply J_update; [apply J_mono; exact H|]. split; cbn [vs_voted vs_voted_notar vs_retired]; [reflexivity|].
          rewrite R0. discriminate.
        - reflexivity.
        - intros z R. rewrite v_retired_vset. destruct (z =? a) eqn:Ez; [|exact R].
          apply N.eqb_eq in Ez. subst z. cbn [vs_retired]. rewrite <- v_retired_vstate. exact R.
        - constructor; [|constructor]. unfold cast_ok. cbn [v_signer v_slot v_kind]. split; [reflexivity|]. split; [exact Fu|].
          intros R. rewrite v_retired_vstate, R0 in R. discriminate. }
      destruct (IH t1 (o0 ++ [VBVote (mkVote a KSkip own)]) (older ++ vouts_votes [VBVote (mkVote a KSkip own)]) t' o')
        as [extra [Eo G2]];
        [intros s' Hs'; subst t1; rewrite fu_vset; apply Hfu; right; exact Hs' | exact (proj1 G1) | exact E |].
      exists (VBVote (mkVote a KSkip own) :: extra). split; [rewrite Eo, <- app_assoc; reflexivity|].
      change (VBVote (mkVote a KSkip own) :: extra) with ([VBVote (mkVote a KSkip own)] ++ extra).
      eapply G_app; [exact G1 | exact G2].
Qed.

Lemma try_skip_window_G own t s older t' o :
  J own t older -> v_try_skip_window own t s = Some (t', o) -> G own t older o t'.
Proof.
  intros H E. unfold v_try_skip_window in E.
  remember (seqN (window_first s) (N.to_nat SLOTS_PER_WINDOW)) as slots eqn:Es.
  destruct (s <? v_first_unpruned t) eqn:Fu; [discriminate|]. apply N.ltb_ge in Fu.
  assert (E' : fold_left (fun (acc : votor * list vout) s' =>
               let '(t', o) := acc in
               if v_voted t' s' then acc
               else let x := vstate t' s' in
                    (vset t' s' (mkVS true (vs_voted_notar x) true (vs_notarized x) (vs_parents x) (vs_shred x) (vs_pending x) (vs_retired x)),
                     o ++ [VBVote (mkVote s' KSkip own)])) slots (t, []) = (t', o)) by (injection E as E; exact E).
  destruct (skip_fold_G own slots t [] older t' o) as [extra [Eo G2]]; [| exact H | exact E' |].
  - intros s' Hs'. subst slots. apply in_seqN in Hs'. pose proof (fu_le_window t s Fu). nlia.
  - cbn [app] in Eo. subst o. exact G2.
Qed.

(* ---------- check_pending_blocks ---------- *)
Lemma pending_fold_G own : forall slots t o0 older t' o',
  J own t older ->
  fold_left (pending_step own) slots (Some (t, o0)) = Some (t', o') ->
  exists extra, o' = o0 ++ extra /\ G own t older extra t'.
Proof.
  induction slots as [|a l IH]; intros t o0 older t' o' H E; cbn [fold_left] in E.
  - injection E as <- <-. exists []. split; [symmetry; apply app_nil_r | apply G_nil; exact H].
  - unfold pending_step at 2 in E.
    destruct (vget t a) as [x|] eqn:Gt; [|apply (IH t o0 older t' o' H E)].
    destruct (vs_pending x) as [[h p]|] eqn:Pd; [|apply (IH t o0 older t' o' H E)].
    destruct (v_try_notar own t a h p) as [[[t2 o2] b]|] eqn:TN; [|rewrite pending_fold_none in E; discriminate].
    pose proof (try_notar_G own t a h p older t2 o2 b H TN) as G2.
    destruct (IH t2 (o0 ++ o2) (older ++ vouts_votes o2) t' o' (proj1 G2) E) as [extra [Eo G3]].
    exists (o2 ++ extra). split; [rewrite Eo, app_assoc; reflexivity|].
    eapply G_app; [exact G2 | exact G3].
Qed.

Lemma check_pending_G own t older t' o :
  J own t older -> v_check_pending own t = Some (t', o) -> G own t older o t'.
Proof.
  intros H E. unfold v_check_pending in E.
  match type of E with fold_left _ ?sl _ = _ => remember sl as slots end.
  change (fold_left (pending_step own) slots (Some (t, [])) = Some (t', o)) in E.
  destruct (pending_fold_G own slots t [] older t' o H E) as [extra [Eo G2]].
  cbn [app] in Eo. subst o. exact G2.
Qed.

(* ---------- pruning ---------- *)
Lemma J_finalize own t older s :
  J own t older -> J own (v_prune (mkVotor (vt_slots t) (N.max (vt_highest t) s) (vt_panicked t))) older.
Proof.
  intros H z. set (t1 := mkVotor (vt_slots t) (N.max (vt_highest t) s) (vt_panicked t)).
  unfold vstate, aget, v_prune. cbn [vt_slots]. rewrite alookup_filter_ge.
  destruct (v_first_unpruned t1 <=? z).
  - change (jslot own z (vstate t z) older). apply H.
  - unfold jslot, vs_default. cbn [vs_voted vs_voted_notar vs_retired]. split; [intros X; congruence | discriminate].
Qed.

(* ---------- SafeToNotar / SafeToSkip ---------- *)
Lemma safeto_G own t s k older t1 o :
  J own t older -> v_first_unpruned t <= s -> v_retired t s = false ->
  v_try_skip_window own t s = Some (t1, o) ->
  G own t older (VBVote (mkVote s k own) :: o) (set_bad t1 s).
Proof.
  intros H Fu Rt E.
  assert (G0 : G own t older [VBVote (mkVote s k own)] t).
  { unfold G. cbn [vouts_votes flat_map app]. split; [apply J_mono; exact H|]. split; [reflexivity|]. split; [auto|].
    constructor; [|constructor]. unfold cast_ok. cbn [v_signer v_slot v_kind]. split; [reflexivity|]. split; [exact Fu|].
    intros R. rewrite Rt in R. discriminate. }
  pose proof (try_skip_window_G own t s _ t1 o (proj1 G0) E) as G1.
  change (VBVote (mkVote s k own) :: o) with ([VBVote (mkVote s k own)] ++ o).
  unfold set_bad. apply G_vset_same; [eapply G_app; [exact G0 | exact G1] | reflexivity | reflexivity | reflexivity].
Qed.

(* ---------- handle_cert_created ---------- *)
Lemma handle_cert_Gw own t c older t' o :
  J own t older -> v_handle_cert own t c = Some (t', o) -> Gw own t older o t'.
Proof.
  intros H E. unfold v_handle_cert in E.
  destruct (c_kind c) as [h|h| |h|] eqn:K.
  - match type of E with context [v_try_final own ?tt (c_slot c) h] => remember tt as t1 eqn:Et1 end.
    destruct (v_try_final own t1 (c_slot c) h) as [[t2 o2]|] eqn:TF; [|discriminate]. injection E as <- <-.
    assert (I1 : J own t1 older) by (subst t1; apply J_vset_same; [exact H | reflexivity | reflexivity | reflexivity]).
    pose proof (try_final_G own t1 (c_slot c) h older t2 o2 I1 TF) as G1.
    subst t1. apply G_pre_vset in G1; [|reflexivity].
    apply G_Gw. eapply G_app; [exact G1|]. apply G_novotes; [reflexivity | exact (proj1 G1)].
  - injection E as <- <-. apply G_Gw. apply G_novotes; [reflexivity | exact H].
  - injection E as <- <-. apply G_Gw. apply G_novotes; [reflexivity | exact H].
  - destruct (v_set_timeouts (window_first (c_slot c))) as [o1|] eqn:ST; [|discriminate]. injection E as <- <-.
    assert (Z : vouts_votes (o1 ++ [VBCert c]) = []).
    { unfold v_set_timeouts in ST. destruct (is_window_start _); [|discriminate]. injection ST as <-. reflexivity. }
    unfold Gw. rewrite Z, app_nil_r. split; [apply J_finalize; exact H | constructor].
  - destruct (v_set_timeouts (window_first (c_slot c))) as [o1|] eqn:ST; [|discriminate]. injection E as <- <-.
    assert (Z : vouts_votes (o1 ++ [VBCert c]) = []).
    { unfold v_set_timeouts in ST. destruct (is_window_start _); [|discriminate]. injection ST as <-. reflexivity. }
    unfold Gw. rewrite Z, app_nil_r. split; [apply J_finalize; exact H | constructor].
Qed.

(* ---------- one step ---------- *)
Theorem votor_step_cast : forall own t i older t' o pan,
  J own t older -> votor_step own t i = (t', o, pan) ->
  J own t' (older ++ decision_votes i o) /\ Forall (cast_ok own t older) (decision_votes i o).
Proof.
  intros own t i older t' o pan H E.
  assert (Triv : forall tt, J own tt older -> J own tt (older ++ []) /\ Forall (cast_ok own t older) []).
  { intros tt X. rewrite app_nil_r. split; [exact X | constructor]. }
  assert (Dnil : decision_votes i [] = []) by (destruct i as [e| | | | |]; try reflexivity; destruct e; reflexivity).
  unfold votor_step in E. destruct (vt_panicked t) eqn:Pn.
  { injection E as <- <- <-. rewrite Dnil. apply Triv. exact H. }
  assert (Red : forall r : vres,
            (forall t1 o1, r = Some (t1, o1) ->
               J own t1 (older ++ decision_votes i o1) /\ Forall (cast_ok own t older) (decision_votes i o1)) ->
            match r with
            | None => (mkVotor (vt_slots t) (vt_highest t) true, [], true)
            | Some (t1, o1) => (t1, o1, false)
            end = (t', o, pan) ->
            J own t' (older ++ decision_votes i o) /\ Forall (cast_ok own t older) (decision_votes i o)).
  { intros r Hr Er. destruct r as [[t1 o1]|].
    - injection Er as <- <- <-. apply Hr. reflexivity.
    - injection Er as <- <- <-. rewrite Dnil. apply Triv. intros z. exact (H z). }
  eapply Red; [|exact E]. clear Red E. intros t1 o1 Er.
  assert (Good : decision_votes i o1 = vouts_votes o1 -> Gw own t older o1 t1 ->
            J own t1 (older ++ decision_votes i o1) /\ Forall (cast_ok own t older) (decision_votes i o1)).
  { intros -> X. exact X. }
  destruct i as [e|s|s|s h parent|s|s].
  - unfold v_handle_pool in Er. destruct (v_should_ignore t e) eqn:Ig.
    { injection Er as <- <-. rewrite Dnil. apply Triv. exact H. }
    destruct e as [s p|[s h]|s|c|s cs vs|s p].
    + (* ParentReady *)
      apply Good; [reflexivity|].
      match type of Er with context [v_check_pending own ?tt] => remember tt as t2 eqn:Et2 end.
      assert (I2 : J own t2 older) by (subst t2; apply J_vset_same; [exact H | reflexivity | reflexivity | reflexivity]).
      destruct (v_check_pending own t2) as [[t3 o3]|] eqn:CP; [|discriminate].
      destruct (v_set_timeouts s) as [o4|] eqn:ST; [|discriminate]. injection Er as <- <-.
      pose proof (check_pending_G own t2 older t3 o3 I2 CP) as G1. subst t2. apply G_pre_vset in G1; [|reflexivity].
      apply G_Gw. eapply G_app; [exact G1|]. apply G_novotes; [|exact (proj1 G1)].
      unfold v_set_timeouts in ST. destruct (is_window_start s); [|discriminate]. injection ST as <-. reflexivity.
    + (* SafeToNotar *)
      apply Good; [reflexivity|].
      destruct (v_try_skip_window own t s) as [[t2 o2]|] eqn:SW; [|discriminate]. injection Er as <- <-.
      cbn [v_should_ignore pevent_slot fst] in Ig. apply orb_false_elim in Ig. destruct Ig as [Ig1 Ig2]. apply N.ltb_ge in Ig1.
      apply G_Gw. apply (safeto_G own t s (KNotarFb h) older t2 o2 H Ig1 Ig2 SW).
    + (* SafeToSkip *)
      apply Good; [reflexivity|].
      destruct (v_try_skip_window own t s) as [[t2 o2]|] eqn:SW; [|discriminate]. injection Er as <- <-.
      cbn [v_should_ignore pevent_slot] in Ig. apply orb_false_elim in Ig. destruct Ig as [Ig1 Ig2]. apply N.ltb_ge in Ig1.
      apply G_Gw. apply (safeto_G own t s KSkipFb older t2 o2 H Ig1 Ig2 SW).
    + (* CertCreated *)
      apply Good; [reflexivity|]. eapply handle_cert_Gw; [exact H | exact Er].
    + (* Standstill *)
      injection Er as <- <-. cbn [decision_votes]. apply Triv. exact H.
    + injection Er as <- <-. apply Good; [reflexivity|]. apply G_Gw. apply G_nil. exact H.
  - (* FirstShred *)
    apply Good; [reflexivity|]. apply G_Gw. destruct (v_old t s); injection Er as <- <-; [apply G_nil; exact H|].
    apply G_vset_same; [apply G_nil; exact H | reflexivity | reflexivity | reflexivity].
  - (* InvalidBlock *)
    apply Good; [reflexivity|]. apply G_Gw. destruct (v_old t s); [injection Er as <- <-; apply G_nil; exact H|].
    eapply try_skip_window_G; [exact H | exact Er].
  - (* Block *)
    apply Good; [reflexivity|]. apply G_Gw. destruct (v_old t s); [injection Er as <- <-; apply G_nil; exact H|].
    destruct (v_voted t s); [injection Er as <- <-; apply G_nil; exact H|].
    destruct (v_try_notar own t s h parent) as [[[t2 o2] b]|] eqn:TN; [|discriminate].
    pose proof (try_notar_G own t s h parent older t2 o2 b H TN) as G2.
    destruct b.
    + destruct (v_check_pending own t2) as [[t3 o3]|] eqn:CP; [|discriminate]. injection Er as <- <-.
      eapply G_app; [exact G2|]. eapply check_pending_G; [exact (proj1 G2) | exact CP].
    + injection Er as <- <-. apply G_vset_same; [exact G2 | reflexivity | reflexivity | reflexivity].
  - (* Timeout *)
    apply Good; [reflexivity|]. apply G_Gw. destruct (v_old t s); [injection Er as <- <-; apply G_nil; exact H|].
    destruct (v_voted t s); [injection Er as <- <-; apply G_nil; exact H|].
    eapply try_skip_window_G; [exact H | exact Er].
  - (* TimeoutCrashedLeader *)
    apply Good; [reflexivity|]. apply G_Gw. destruct (v_old t s); [injection Er as <- <-; apply G_nil; exact H|].
    destruct (negb (v_shred t s) && negb (v_voted t s)); [|injection Er as <- <-; apply G_nil; exact H].
    eapply try_skip_window_G; [exact H | exact Er].
Qed.

(* ---------- traces ---------- *)
Lemma J_init own : J own votor_init [].
Proof.
  intros s. unfold votor_init, vstate, aget. cbn [vt_slots alookup]. destruct (s =? 0) eqn:E.
  - apply N.eqb_eq in E. subst s. unfold jslot, vs_genesis. cbn [vs_voted vs_voted_notar vs_retired]. split; auto.
  - unfold jslot, vs_default. cbn [vs_voted vs_voted_notar vs_retired]. split; [intros X; congruence | discriminate].
Qed.

Lemma J_after own : forall pre t older,
  J own t older -> J own (votor_after own t pre) (older ++ own_votes (votor_trace own t pre)).
Proof.
  induction pre as [|i rest IH]; intros t older H; cbn [votor_after votor_trace].
  - unfold own_votes. cbn [flat_map]. rewrite app_nil_r. exact H.
  - destruct (votor_step own t i) as [[t' o] pan] eqn:E. cbn [fst]. rewrite own_votes_cons, app_assoc.
    apply IH. exact (proj1 (votor_step_cast own t i older t' o pan H E)).
Qed.

(* every own vote, at the moment it is cast: slot not pruned, and not retired unless it is the
   repetition of the finalization vote (in the genesis slot: the finalization vote itself) *)
Theorem own_votes_cast_ok : forall own pre i v,
  let t := votor_after own votor_init pre in
  In v (decision_votes i (snd (fst (votor_step own t i)))) ->
  cast_ok own t (own_votes (votor_trace own votor_init pre)) v.
Proof.
  intros own pre i v t Hv.
  pose proof (J_after own pre votor_init [] (J_init own)) as HJ. cbn [app] in HJ. fold t in HJ.
  destruct (votor_step own t i) as [[t' o] pan] eqn:E. cbn [fst snd] in Hv.
  destruct (votor_step_cast own t i _ t' o pan HJ E) as [_ F]. rewrite Forall_forall in F. apply F. exact Hv.
Qed.

(* ====================== summary lemmas and witnesses ====================== *)
(* any vote list that passes the executable node-level check is conflict-free: R1-R3 exclude every
   pair of the pool's conflict relation *)
Theorem rules_ok_conflict_free : forall ev vs, rules_ok vs ev = true -> conflict_free vs = true.
Proof. intros ev vs H. apply chain_conflict_free. eapply rules_chain. exact H. Qed.

(* a trace exercising every vote kind, a repeated certificate (repeated finalization vote) and a
   standstill bundle (not an own decision) *)
Definition ov_cert (s h : N) : cert := mkCert s (CNotar h) [0; 1; 2] [] 3.
Definition ov_ins : list vin :=
  [VBlock 1 11 (0, 0); VPool (ECertCreated (ov_cert 1 11)); VPool (ECertCreated (ov_cert 1 11)); VTimeout 2;
   VPool (ESafeToSkip 2); VPool (ESafeToNotar (3, 33)); VPool (EStandstill 1 [] [mkVote 9 KSkip 7])].
Lemma ov_example :
  own_votes (votor_trace 0 votor_init ov_ins) =
    [mkVote 1 (KNotar 11) 0; mkVote 1 KFinal 0; mkVote 1 KFinal 0; mkVote 2 KSkip 0; mkVote 3 KSkip 0;
     mkVote 2 KSkipFb 0; mkVote 3 (KNotarFb 33) 0] /\
  replay_verdicts (mkEpoch [1; 1; 1; 1] 0) [] (own_votes (votor_trace 0 votor_init ov_ins)) =
    [VOk; VOk; VDuplicate; VOk; VOk; VDuplicate; VOk] /\
  conflict_free (own_votes (votor_trace 0 votor_init ov_ins)) = true /\
  conflict_free [mkVote 1 (KNotar 11) 0; mkVote 1 KSkip 0] = false.
Proof. vm_compute. repeat split; reflexivity. Qed.

(* "the only refusals are EXACT repeats" is false of the Votor model on its own: handed SafeToSkip for a
   slot it has not voted in (the pool never does that, C06), Votor broadcasts the skip-fallback vote
   before the skip votes of the window, and the replay refuses the skip vote of that slot as a duplicate
   of the (equivalent, not identical) skip-fallback vote *)
Lemma exact_repeats_only_refuted :
  exists own ins j x,
    let vs := own_votes (votor_trace own votor_init ins) in
    nth_error (replay_verdicts (mkEpoch [1; 1; 1; 1] own) [] vs) j = Some VDuplicate /\
    nth_error vs j = Some x /\ ~ In x (firstn j vs).
Proof.
  exists 0, [VPool (ESafeToSkip 2)], 2%nat, (mkVote 2 KSkip 0). vm_compute. split; [reflexivity|]. split; [reflexivity|].
  intros [H|[H|[]]]; discriminate.
Qed.

(* the genesis slot is retired from the start; handed a notarization certificate for the genesis block,
   Votor casts the finalization vote of slot 0 (hence the [v_slot v = 0] alternative of cast_ok) *)
Lemma genesis_final_vote_witness :
  snd (fst (votor_step 0 votor_init (VPool (ECertCreated (mkCert 0 (CNotar 0) [] [] 0))))) =
    [VBVote (mkVote 0 KFinal 0); VBCert (mkCert 0 (CNotar 0) [] [] 0)] /\
  v_retired votor_init 0 = true.
Proof. vm_compute. split; reflexivity. Qed.
