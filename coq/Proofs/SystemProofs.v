(* C01, global composition (DESIGN layer 3): a SYSTEM of node models (Model/System.v).
   INVARIANT of every system run: the global vote history is rule-abiding ([hist_ok]) and, for every
   correct validator u, its node = Pool + Votor satisfies
     - Votor's own-vote invariant (Proofs/SafetyLink.v [Inv]) for some list [older] of own votes and some
       body of evidence [ev] handed so far,
     - [older] is exactly what u cast in the global history ([own_view]: ideal signatures),
     - the evidence is justified by the votes cast so far ([ev_justified] - the premise of
       C01_node_rule_sound, here DISCHARGED by Proofs/SysPool.v pool_step_just),
     - the pool invariant PJ.
   Hence T1-T3 of Proofs/SafetyProofs.v apply to the system, and - because a node's finality tracker and
   certificate store are justified by the history (PJ) - to what the nodes REPORT. *)
From Coq Require Import List NArith Bool Lia ZifyBool ZifyNat ZifyN.
From AG Require Import Gen.Params Model.Pool Model.PoolSpec Model.Votor Model.Node Model.Safety Model.NodeRules Model.System
  Proofs.SlotStateProofs Proofs.StakeSets Proofs.SafetyProofs Proofs.SafetyLink
  Proofs.SysSlot Proofs.SysFinality Proofs.SysReady Proofs.SysPool.
Import ListNotations.
Open Scope N_scope.

(* ---------- small facts ---------- *)
Lemma nin_cases e nd i :
  (exists op, nin_pool_op i = Some op /\ node_step e nd i = node_pool_op e nd op) \/
  (exists vi, nin_pool_op i = None /\ nin_votor_in i = Some vi /\ node_step e nd i = node_votor_in e nd vi).
Proof.
  destruct i; cbn [nin_pool_op nin_votor_in node_step];
    first [left; eexists; split; reflexivity | right; eexists; split; [reflexivity | split; reflexivity]].
Qed.

Lemma incl_app_hist {A} (n H : list A) : incl H (n ++ H).
Proof. intros a Ia. apply in_or_app. right. exact Ia. Qed.

Section Sys.
Variable W : world.
Hypothesis WO : world_ok W.

(* ---------- evidence ---------- *)
Lemma ev_justified_mono H H' u ev : incl H H' -> ev_justified W H u ev -> ev_justified W H' u ev.
Proof.
  intros I (A & B & C & D & E). split; [|split; [|split; [|split]]].
  - intros s p Isp. eapply parent_ready_mono; [exact I | apply A; exact Isp].
  - intros b Ib. eapply notar_cert_mono; [exact I | apply B; exact Ib].
  - intros b Ib. destruct (C b Ib) as (C1 & C2 & [p [Pp Pc]]). split; [eapply s2n_stake_mono; eassumption|]. split.
    + destruct C2 as [C2|C2]; [left; eapply cast_mono; eassumption | right; eapply cast_notar_other_mono; eassumption].
    + exists p. split; [exact Pp|]. destruct Pc as [Pc|Pc]; [left; eapply nf_cert_mono; eassumption | right; exact Pc].
  - intros s Is. destruct (D s Is) as [D1 D2]. split; [|eapply s2s_stake_mono; eassumption].
    apply cast_any_notar_iff in D1. destruct D1 as [h D1]. apply cast_any_notar_iff. exists h. eapply cast_mono; eassumption.
  - exact E.
Qed.

Definition in_just (H : list vote) (u : vidx) (i : vin) : Prop :=
  match i with
  | VPool x => ev_just W H u x
  | VBlock s h p => w_parent W (s, h) = Some p
  | _ => True
  end.

Lemma ev_justified_add H u ev i : ev_justified W H u ev -> in_just H u i -> ev_justified W H u (ev_add_input ev i).
Proof.
  intros (A & B & C & D & E) J. pose proof (conj A (conj B (conj C (conj D E)))) as All. unfold ev_justified.
  destruct i as [x|s|s|s h p|s|s]; cbn [ev_add_input in_just] in *; try exact All.
  - destruct x as [s p|b|s|c|s cs vs|s p]; cbn [ev_just] in J; try exact All.
    + cbn [ev_pr ev_nc ev_s2n ev_s2s ev_blocks]. split; [|exact (conj B (conj C (conj D E)))].
      intros s' p' [Eq|Isp]; [injection Eq as <- <-; exact J | apply A; exact Isp].
    + cbn [ev_pr ev_nc ev_s2n ev_s2s ev_blocks]. split; [exact A|]. split; [exact B|]. split; [|exact (conj D E)].
      intros b' [<-|Ib]; [|apply C; exact Ib]. destruct J as (J1 & J2 & J3). split; [exact J1|]. split; [exact J2 | exact J3].
    + cbn [ev_pr ev_nc ev_s2n ev_s2s ev_blocks]. split; [exact A|]. split; [exact B|]. split; [exact C|]. split; [|exact E].
      intros s' [<-|Is]; [exact J | apply D; exact Is].
    + apply backed_just in J. unfold cert_just in J. destruct (c_kind c) as [h| h| |h|]; try exact All.
      cbn [ev_pr ev_nc ev_s2n ev_s2s ev_blocks]. split; [exact A|]. split; [|exact (conj C (conj D E))].
      intros b' [<-|Ib]; [exact J | apply B; exact Ib].
  - cbn [ev_pr ev_nc ev_s2n ev_s2s ev_blocks]. split; [exact A|]. split; [exact B|]. split; [exact C|]. split; [exact D|].
    intros b' p' [Eq|Ib]; [injection Eq as <- <-; exact J | apply E; exact Ib].
Qed.

(* ---------- own votes ---------- *)
Lemma own_view_other H u older x : v_signer x <> u -> own_view H u older -> own_view (x :: H) u older.
Proof.
  intros Hne V s k. unfold cast. cbn [existsb]. apply N.eqb_neq in Hne. rewrite Hne, andb_false_r. cbn [orb]. apply V.
Qed.
Lemma own_view_others H u older n : (forall x, In x n -> v_signer x <> u) -> own_view H u older -> own_view (n ++ H) u older.
Proof.
  induction n as [|x n IH]; intros Hn V; [exact V|]. cbn [app]. apply own_view_other; [apply Hn; left; reflexivity|].
  apply IH; [intros y Iy; apply Hn; right; exact Iy | exact V].
Qed.
Lemma own_view_own H u older x : v_signer x = u -> own_view H u older -> own_view (x :: H) u (older ++ [x]).
Proof.
  intros Es V s k. unfold cast. cbn [existsb]. rewrite existsb_app. cbn [existsb]. rewrite orb_false_r.
  fold (cast H s k u). rewrite (V s k). rewrite Es, N.eqb_refl, andb_true_r. apply orb_comm.
Qed.

(* the votes decided in one Votor step enter the history one by one, each obeying the rules *)
Lemma decided_hist u ev : forall new older H,
  own_view H u older -> ev_justified W H u ev ->
  forallb (fun v => v_signer v =? u) new = true -> rules_ok_from older ev new = true ->
  own_view (rev new ++ H) u (older ++ new) /\ ev_justified W (rev new ++ H) u ev /\
  (hist_ok W H -> hist_ok W (rev new ++ H)).
Proof.
  induction new as [|x new IH]; intros older H V J Sg Ok.
  - cbn [rev app]. rewrite app_nil_r. auto.
  - cbn [forallb] in Sg. apply andb_prop in Sg. destruct Sg as [Sx Sg]. apply N.eqb_eq in Sx.
    cbn [rules_ok_from] in Ok. apply andb_prop in Ok. destruct Ok as [Ox Ok].
    pose proof (node_rule_sound W H u older ev x V J Sx Ox) as Rx.
    assert (I1 : incl H (x :: H)) by (intros a Ia; right; exact Ia).
    destruct (IH (older ++ [x]) (x :: H) (own_view_own H u older x Sx V) (ev_justified_mono H _ u ev I1 J) Sg Ok) as (V' & J' & K').
    rewrite <- app_assoc in V'. cbn [app] in V'.
    cbn [rev]. rewrite <- !app_assoc. cbn [app]. split; [exact V'|]. split; [exact J'|].
    intros K. apply K'. cbn [hist_ok]. split; [intros _; exact Rx | exact K].
Qed.

Lemma forallb_signer u new : forallb (fun v => v_signer v =? u) new = true -> Forall (fun v => v_signer v = u) new.
Proof. intros F. apply Forall_forall. intros v Iv. rewrite forallb_forall in F. apply N.eqb_eq. apply F. exact Iv. Qed.

(* ---------- one Votor step inside the system ---------- *)
Lemma votor_step_sys H u t i older ev t' o pan :
  Inv t older ev no_ex -> own_view H u older -> ev_justified W H u ev -> in_just H u i ->
  votor_step u t i = (t', o, pan) ->
  let new := decision_votes i o in
  Inv t' (older ++ new) (ev_add_input ev i) no_ex /\
  own_view (rev new ++ H) u (older ++ new) /\ ev_justified W (rev new ++ H) u (ev_add_input ev i) /\
  Forall (fun v => v_signer v = u) new /\ (hist_ok W H -> hist_ok W (rev new ++ H)).
Proof.
  intros I V J Ji E. cbv zeta.
  destruct (votor_step_good u t i older ev t' o pan I E) as (Sg & Ok & I').
  pose proof (ev_justified_add H u ev i J Ji) as J1.
  destruct (decided_hist u (ev_add_input ev i) (decision_votes i o) older H V J1 Sg Ok) as (V' & J' & K').
  split; [exact I'|]. split; [exact V'|]. split; [exact J'|]. split; [apply forallb_signer; exact Sg | exact K'].
Qed.

Lemma in_just_mono H H' u x : incl H H' -> ev_just W H u x -> ev_just W H' u x.
Proof.
  intros I. destruct x as [s p|b|s|c|s cs vs|s p]; cbn [ev_just]; try (intros; exact Logic.I).
  - apply (parent_ready_mono W); exact I.
  - intros (A & B & C). split; [eapply s2n_stake_mono; eassumption|]. split.
    + destruct B as [B|B]; [left; eapply cast_mono; eassumption | right; eapply cast_notar_other_mono; eassumption].
    + eapply par_cert_just_mono; eassumption.
  - intros (A & B). split; [|eapply s2s_stake_mono; eassumption].
    apply cast_any_notar_iff in A. destruct A as [h A]. apply cast_any_notar_iff. exists h. eapply cast_mono; eassumption.
  - apply cert_backed_mono; exact I.
Qed.

(* Votor fed with the (justified) events of one pool operation *)
Lemma feed_sys u : forall evs t older ev H,
  Inv t older ev no_ex -> own_view H u older -> ev_justified W H u ev -> Forall (ev_just W H u) evs ->
  let new := feed_decided u t evs in
  exists ev', Inv (fst (votor_feed u t evs)) (older ++ new) ev' no_ex /\
    own_view (rev new ++ H) u (older ++ new) /\ ev_justified W (rev new ++ H) u ev' /\
    Forall (fun v => v_signer v = u) new /\ (hist_ok W H -> hist_ok W (rev new ++ H)).
Proof.
  induction evs as [|x evs IH]; intros t older ev H I V J Fe; cbn [feed_decided votor_feed]; cbv zeta.
  - exists ev. cbn [rev app fst]. rewrite app_nil_r.
    split; [exact I|]. split; [exact V|]. split; [exact J|]. split; [constructor | intros K; exact K].
  - inversion Fe as [|? ? Fx Fe']; subst.
    destruct (votor_step u t (VPool x)) as [[t1 o1] pn] eqn:E.
    destruct (votor_step_sys H u t (VPool x) older ev t1 o1 pn I V J Fx E) as (I1 & V1 & J1 & S1 & K1).
    set (n1 := decision_votes (VPool x) o1) in *.
    assert (Inc : incl H (rev n1 ++ H)) by apply incl_app_hist.
    assert (Fe1 : Forall (ev_just W (rev n1 ++ H) u) evs).
    { eapply Forall_impl; [|exact Fe']. intros y. apply in_just_mono. exact Inc. }
    destruct (IH t1 (older ++ n1) (ev_add_input ev (VPool x)) (rev n1 ++ H) I1 V1 J1 Fe1) as (ev' & I2 & V2 & J2 & S2 & K2).
    destruct (votor_feed u t1 evs) as [t2 o2]. cbn [fst] in *.
    exists ev'. rewrite rev_app_distr, <- !app_assoc. rewrite !app_assoc in *. rewrite <- !app_assoc in *.
    split; [exact I2|]. split; [exact V2|]. split; [exact J2|]. split; [apply Forall_app; split; assumption|].
    intros K. apply K2. apply K1. exact K.
Qed.

(* ---------- one node ---------- *)
Definition node_inv (H : list vote) (u : vidx) (nd : node) : Prop :=
  exists older ev,
    Inv (nd_votor nd) older ev no_ex /\ own_view H u older /\ ev_justified W H u ev /\
    PJ W (node_epoch W u) H (nd_pool nd).

Lemma node_inv_init u : node_inv [] u node_init.
Proof.
  exists [], ev_empty. split; [apply Inv_init|]. split; [intros s k; reflexivity|]. split.
  - unfold ev_justified, ev_empty. cbn. repeat split; intros; contradiction.
  - apply PJ_init.
Qed.

Lemma node_inv_others H u nd n :
  (forall x, In x n -> v_signer x <> u) -> node_inv H u nd -> node_inv (n ++ H) u nd.
Proof.
  intros Hn (older & ev & I & V & J & P). exists older, ev. split; [exact I|]. split; [apply own_view_others; assumption|].
  split; [eapply ev_justified_mono; [apply incl_app_hist | exact J] | eapply PJ_mono; [apply incl_app_hist | exact P]].
Qed.

Lemma parent_is_true b p : parent_is W b p = true -> w_parent W b = Some p.
Proof.
  unfold parent_is. destruct (w_parent W b) as [p'|]; [|discriminate]. intros E. apply SysFinality.bid_eqb_eq in E. subst. reflexivity.
Qed.

Theorem node_step_inv : forall H u nd i,
  node_inv H u nd -> input_okb W H i = true ->
  let e := node_epoch W u in
  let new := node_decided e nd i in
  node_inv (rev new ++ H) u (fst (node_step e nd i)) /\
  Forall (fun v => v_signer v = u) new /\ (hist_ok W H -> hist_ok W (rev new ++ H)).
Proof.
  intros H u nd i (older & ev & I & V & J & P) Ok. cbv zeta.
  assert (Est : stakes (node_epoch W u) = w_stakes W) by reflexivity.
  unfold node_decided.
  destruct (nin_cases (node_epoch W u) nd i) as [[op [Eo Es]]|[vi [Eo [Ev Es]]]]; rewrite Es, Eo; [|rewrite Ev].
  - (* pool operation, then Votor on its events *)
    unfold node_pool_op.
    destruct (pool_step (node_epoch W u) (nd_pool nd) op) as [[p' r] o] eqn:Ep.
    assert (Oj : op_ok W H op).
    { destruct i; cbn [nin_pool_op] in Eo; try discriminate; injection Eo as <-; cbn [op_ok input_okb] in *; try exact Logic.I; try exact Ok.
      apply parent_is_true. exact Ok. }
    destruct (pool_step_just W WO (node_epoch W u) Est H (nd_pool nd) op p' r o P Oj Ep) as [P' Fe].
    set (evs := filter (fun x => negb (pe_is_woken x)) (po_events o)) in *.
    assert (Fe' : Forall (ev_just W H u) evs).
    { apply Forall_forall. intros x Ix. apply filter_In in Ix. destruct Ix as [Ix _]. rewrite Forall_forall in Fe. apply (Fe x Ix). }
    cbn [own node_epoch].
    destruct (feed_sys u evs (nd_votor nd) older ev H I V J Fe') as (ev' & I2 & V2 & J2 & S2 & K2).
    destruct (votor_feed u (nd_votor nd) evs) as [t' outs]. cbn [fst] in *.
    split; [|split; assumption].
    exists (older ++ feed_decided u (nd_votor nd) evs), ev'. cbn [nd_votor nd_pool].
    split; [exact I2|]. split; [exact V2|]. split; [exact J2|]. eapply PJ_mono; [apply incl_app_hist | exact P'].
  - (* Votor-only input *)
    unfold node_votor_in. cbn [own node_epoch].
    destruct (votor_step u (nd_votor nd) vi) as [[t' outs] pn] eqn:Ev2.
    assert (Ji : in_just H u vi).
    { destruct i; cbn [nin_votor_in] in Ev; try discriminate; injection Ev as <-; cbn [in_just input_okb] in *; try exact Logic.I.
      apply parent_is_true. exact Ok. }
    destruct (votor_step_sys H u (nd_votor nd) vi older ev t' outs pn I V J Ji Ev2) as (I2 & V2 & J2 & S2 & K2).
    cbn [fst]. split; [|split; assumption].
    exists (older ++ decision_votes vi outs), (ev_add_input ev vi). cbn [nd_votor nd_pool].
    split; [exact I2|]. split; [exact V2|]. split; [exact J2|]. eapply PJ_mono; [apply incl_app_hist | exact P].
Qed.

(* ---------- the system ---------- *)
Definition sys_inv (S : sys) : Prop :=
  hist_ok W (s_hist S) /\ forall u, correct W u = true -> node_inv (s_hist S) u (s_node S u).

Lemma sys_inv_init : sys_inv sys_init.
Proof. split; [exact I | intros u _; apply node_inv_init]. Qed.

Lemma sys_step_inv S l S' : sys_inv S -> sys_step W S l = Some S' -> sys_inv S'.
Proof.
  intros [K N] E. unfold sys_step in E. destruct (label_okb W S l) eqn:Ok; [|discriminate]. injection E as <-.
  destruct l as [v|u i]; cbn [label_okb sys_apply] in *.
  - (* a Byzantine vote *)
    split; cbn [s_hist s_node].
    + cbn [hist_ok]. split; [|exact K]. intros C. unfold correct in C. rewrite Ok in C. discriminate.
    + intros u C. change (v :: s_hist S) with ([v] ++ s_hist S). apply node_inv_others; [|apply N; exact C].
      intros x [<-|[]] Eq. unfold correct in C. rewrite <- Eq, Ok in C. discriminate.
  - (* a correct node handles an input *)
    apply andb_prop in Ok. destruct Ok as [Ok Oi]. apply andb_prop in Ok. destruct Ok as [Cu _].
    destruct (node_step_inv (s_hist S) u (s_node S u) i (N u Cu) Oi) as (Nu & Sg & Ku).
    split; cbn [s_hist s_node].
    + apply Ku. exact K.
    + intros u' C'. unfold upd_node. destruct (u' =? u) eqn:Eu.
      * apply N.eqb_eq in Eu. subst u'. exact Nu.
      * apply node_inv_others; [|apply N; exact C'].
        intros x Ix Eq. apply in_rev in Ix. rewrite Forall_forall in Sg. rewrite (Sg x Ix) in Eq. apply N.eqb_neq in Eu. congruence.
Qed.

Lemma sys_exec_from_inv : forall ls S S', sys_inv S -> sys_exec_from W S ls = Some S' -> sys_inv S'.
Proof.
  induction ls as [|l ls IH]; intros S S' I E; cbn [sys_exec_from] in E.
  - injection E as <-. exact I.
  - destruct (sys_step W S l) as [S1|] eqn:E1; [|discriminate]. apply (IH S1 S'); [eapply sys_step_inv; eassumption | exact E].
Qed.

Theorem sys_reach_inv : forall ls S, sys_exec W ls = Some S -> sys_inv S.
Proof. intros ls S E. apply (sys_exec_from_inv ls sys_init S sys_inv_init E). Qed.

(* THE COMPOSITION: in every system run the global history is rule-abiding *)
Theorem sys_hist_ok : forall ls S, sys_exec W ls = Some S -> hist_ok W (s_hist S).
Proof. intros ls S E. apply (sys_reach_inv ls S E). Qed.

(* the premise of C01_node_rule_sound holds in every system run *)
Theorem sys_evidence_justified : forall ls S u, sys_exec W ls = Some S -> correct W u = true ->
  exists older ev, Inv (nd_votor (s_node S u)) older ev no_ex /\ own_view (s_hist S) u older /\ ev_justified W (s_hist S) u ev.
Proof.
  intros ls S u E C. destruct (sys_reach_inv ls S E) as [_ N]. destruct (N u C) as (older & ev & I & V & J & _).
  exists older, ev. auto.
Qed.

(* ---------- what the nodes report ---------- *)
Lemma no_final_cert_genesis H : hist_ok W H -> final_cert W H 0 = false.
Proof.
  intros K. apply quorum_false_iff. unfold final_stake.
  assert (M : stk W (cast H 0 KFinal) <= stk W (byz W)).
  { apply stk_mono. intros z Ez. destruct (byz W z) eqn:B; [reflexivity|]. exfalso.
    rewrite (no_final_genesis W H z WO K) in Ez; [discriminate | unfold correct; rewrite B; reflexivity]. }
  destruct WO as [P [B _]]. apply weakest_false_iff in B. unfold wtotal in P. lia.
Qed.

Lemma ifin_finalized H b : hist_ok W H -> ifin W H b -> exists f, finalized W H f = true /\ anc_eq W b f.
Proof.
  intros K [f [[F|[_ F]] A]]; [exists f; split; assumption|]. rewrite (no_final_cert_genesis H K) in F. discriminate.
Qed.

Section Reports.
Variable ls : list label.
Variable S : sys.
Hypothesis Run : sys_exec W ls = Some S.

Let H := s_hist S.
Lemma run_hist_ok : hist_ok W H.
Proof. apply (sys_hist_ok ls S Run). Qed.
Lemma run_pj u : correct W u = true -> PJ W (node_epoch W u) H (nd_pool (s_node S u)).
Proof. intros C. destruct (sys_reach_inv ls S Run) as [_ N]. destruct (N u C) as (older & ev & _ & _ & _ & P). exact P. Qed.

(* a block a correct node's tracker holds as finalized IS finalized in the abstract view, directly or
   through a finalized descendant; the certificates it holds are certificates of the abstract view *)
Lemma node_finalized_sound u b : correct W u = true -> node_finalized (s_node S u) b = true ->
  exists f, finalized W H f = true /\ anc_eq W b f.
Proof.
  intros C E. pose proof (pj_ft _ _ _ _ (run_pj u C)) as [_ St]. unfold node_finalized in E.
  destruct (alookup (fst b) (ft_status (p_ft (nd_pool (s_node S u))))) as [st|] eqn:L; [|discriminate].
  pose proof (St _ _ L) as Js. apply (ifin_finalized H b run_hist_ok).
  destruct st as [h| |h|h|]; try discriminate; apply N.eqb_eq in E; subst h; cbn [st_just] in Js; destruct b as [bs bh]; cbn [fst snd] in *.
  - apply fin_ifin. exact Js.
  - exact Js.
Qed.

Lemma node_direct_finalized_sound u b : correct W u = true -> node_direct_finalized (s_node S u) b = true ->
  finalized W H b = true.
Proof.
  intros C E. pose proof (pj_ft _ _ _ _ (run_pj u C)) as [_ St]. unfold node_direct_finalized in E.
  destruct (alookup (fst b) (ft_status (p_ft (nd_pool (s_node S u))))) as [st|] eqn:L; [|discriminate].
  pose proof (St _ _ L) as Js. destruct st as [h| |h|h|]; try discriminate. apply N.eqb_eq in E. subst h.
  cbn [st_just] in Js. destruct b as [bs bh]. cbn [fst snd] in *. destruct Js as [F|[_ F]]; [exact F|].
  rewrite (no_final_cert_genesis H run_hist_ok) in F. discriminate.
Qed.

Lemma node_held_cert_sound u s c : correct W u = true -> In c (certs_of_slot (p_ss (nd_pool (s_node S u)) s)) ->
  c_slot c = s /\ cert_backed W H c = true /\ cert_just W H c = true.
Proof.
  intros C Ic. destruct (sj_certs _ _ _ _ _ (pj_slots _ _ _ _ (run_pj u C) s) c Ic) as [A B].
  split; [exact A|]. split; [exact B | apply backed_just; exact B].
Qed.

Lemma node_certified_sound u b : correct W u = true -> node_certified (s_node S u) b = true -> nf_cert W H b = true.
Proof.
  intros C E. unfold node_certified in E. destruct b as [bs bh]. cbn [fst snd] in E.
  apply (SJ_nf_cert W WO (node_epoch W u) H bs _ bh (pj_slots _ _ _ _ (run_pj u C) bs) E).
Qed.

Lemma node_skip_certified_sound u s : correct W u = true -> node_skip_certified (s_node S u) s = true -> skip_cert W H s = true.
Proof.
  intros C E. unfold node_skip_certified in E. apply existsb_exists in E. destruct E as [c [Ic Ek]].
  destruct (node_held_cert_sound u s c C Ic) as [Es [_ Jc]]. unfold cert_just in Jc.
  destruct (c_kind c); try discriminate. rewrite Es in Jc. exact Jc.
Qed.

Lemma node_impl_skipped_sound u s : correct W u = true -> node_impl_skipped (s_node S u) s = true ->
  exists f a a', finalized W H f = true /\ anc_eq W a f /\ w_parent W a = Some a' /\ fst a' < s /\ s < fst a.
Proof.
  intros C E. pose proof (pj_ft _ _ _ _ (run_pj u C)) as [_ St]. unfold node_impl_skipped in E.
  destruct (alookup s (ft_status (p_ft (nd_pool (s_node S u))))) as [st|] eqn:L; [|discriminate].
  pose proof (St _ _ L) as Js. destruct st; try discriminate. cbn [st_just] in Js.
  destruct Js as [f [a [a' [[F|[_ F]] R]]]]; [exists f, a, a'; split; assumption|].
  rewrite (no_final_cert_genesis H run_hist_ok) in F. discriminate.
Qed.

(* AGREEMENT: no two correct nodes finalize (directly or implicitly) different blocks for one slot *)
Theorem sys_agreement : forall u1 u2 s h1 h2,
  correct W u1 = true -> correct W u2 = true ->
  node_finalized (s_node S u1) (s, h1) = true -> node_finalized (s_node S u2) (s, h2) = true -> h1 = h2.
Proof.
  intros u1 u2 s h1 h2 C1 C2 E1 E2.
  destruct (node_finalized_sound u1 _ C1 E1) as [f1 [F1 A1]]. destruct (node_finalized_sound u2 _ C2 E2) as [f2 [F2 A2]].
  pose proof (safety_one_block_per_slot W H f1 f2 (s, h1) (s, h2) WO run_hist_ok F1 F2 A1 A2 eq_refl) as X.
  injection X as ->. reflexivity.
Qed.

(* ONE CHAIN: all blocks finalized by correct nodes are ancestor-related *)
Theorem sys_one_chain : forall u1 u2 x1 x2,
  correct W u1 = true -> correct W u2 = true ->
  node_finalized (s_node S u1) x1 = true -> node_finalized (s_node S u2) x2 = true ->
  anc_eq W x1 x2 \/ anc_eq W x2 x1.
Proof.
  intros u1 u2 x1 x2 C1 C2 E1 E2.
  destruct (node_finalized_sound u1 _ C1 E1) as [f1 [F1 A1]]. destruct (node_finalized_sound u2 _ C2 E2) as [f2 [F2 A2]].
  apply (safety_one_chain W H f1 f2 x1 x2 WO run_hist_ok F1 F2 A1 A2).
Qed.

(* no slot is directly finalized at one correct node and skip-certified at another (or the same) *)
Theorem sys_no_finalized_and_skip_certified : forall u1 u2 b,
  correct W u1 = true -> correct W u2 = true ->
  node_direct_finalized (s_node S u1) b = true -> node_skip_certified (s_node S u2) (fst b) = false.
Proof.
  intros u1 u2 b C1 C2 E1. destruct (node_skip_certified (s_node S u2) (fst b)) eqn:E2; [|reflexivity]. exfalso.
  pose proof (node_direct_finalized_sound u1 b C1 E1) as F. pose proof (node_skip_certified_sound u2 _ C2 E2) as Sk.
  rewrite (safety_T2 W H b WO run_hist_ok F) in Sk. discriminate.
Qed.

(* ... nor does any correct node hold a certificate for another block of a directly finalized slot *)
Theorem sys_no_other_block_certified : forall u1 u2 b h',
  correct W u1 = true -> correct W u2 = true ->
  node_direct_finalized (s_node S u1) b = true -> node_certified (s_node S u2) (fst b, h') = true -> h' = snd b.
Proof.
  intros u1 u2 b h' C1 C2 E1 E2. destruct (N.eq_dec h' (snd b)) as [Eq|Hne]; [exact Eq|]. exfalso.
  pose proof (node_direct_finalized_sound u1 b C1 E1) as F. pose proof (node_certified_sound u2 _ C2 E2) as Nc.
  rewrite (safety_T2_other W H b h' WO run_hist_ok F Hne) in Nc. discriminate.
Qed.

(* a block certified at a correct node in the slot of a finalized block or later descends from it *)
Theorem sys_certified_descends : forall u1 u2 b c,
  correct W u1 = true -> correct W u2 = true ->
  node_direct_finalized (s_node S u1) b = true -> node_certified (s_node S u2) c = true -> fst b <= fst c -> anc_eq W b c.
Proof.
  intros u1 u2 b c C1 C2 E1 E2 L.
  apply (safety_T3 W H b c WO run_hist_ok (node_direct_finalized_sound u1 b C1 E1) (node_certified_sound u2 c C2 E2) L).
Qed.

(* no slot is finalized (directly or implicitly) at one correct node and implicitly skipped at another *)
Theorem sys_no_finalized_and_implicitly_skipped : forall u1 u2 b,
  correct W u1 = true -> correct W u2 = true ->
  node_finalized (s_node S u1) b = true -> node_impl_skipped (s_node S u2) (fst b) = false.
Proof.
  intros u1 u2 b C1 C2 E1. destruct (node_impl_skipped (s_node S u2) (fst b)) eqn:E2; [|reflexivity]. exfalso.
  destruct (node_finalized_sound u1 b C1 E1) as [f1 [F1 A1]].
  destruct (node_impl_skipped_sound u2 _ C2 E2) as (f2 & a & a' & F2 & A2 & Pa & L1 & L2).
  destruct (safety_one_chain W H f1 f2 b a WO run_hist_ok F1 F2 A1 A2) as [X|X].
  - assert (Hne : b <> a) by (intros ->; unfold blockid, slot in *; lia).
    pose proof (anc_eq_below_parent W b a a' X Hne Pa) as Y. destruct (anc_eq_slot W WO _ _ Y) as [L _].
    unfold blockid, slot in *. lia.
  - destruct (anc_eq_slot W WO _ _ X) as [L _]. unfold blockid, slot in *. lia.
Qed.
End Reports.
End Sys.
