(* Pool completeness (C02, clause P1): in EVERY pool state reachable by any sequence of pool operations
   (votes of any signers, received certificates, block registrations, standstill recoveries, waiter
   registrations - any order, any stakes with positive total) each slot state that still holds its
   votes has the certificate of every class whose stored stake meets the threshold.  Stored votes stay
   stored until the slot is pruned (which only happens below the watermark).  Together: once votes of
   the right kind from validators with enough stake have been accepted, the certificate exists. *)
From Coq Require Import List NArith Bool Lia ZifyBool ZifyNat ZifyN.
From AG Require Import Gen.Params Model.Pool Model.PoolSpec Proofs.SlotStateProofs.
Import ListNotations.
Open Scope N_scope.

Ltac splits := repeat match goal with |- _ /\ _ => split end.

(* ---------- certificate classes held by a slot ---------- *)
Inductive cclass := KlNotar | KlFF | KlNf (h : hash) | KlSkip | KlFin.
Definition class_of (k : ckind) : cclass :=
  match k with CNotar _ => KlNotar | CFastFinal _ => KlFF | CNotarFb h => KlNf h | CSkip => KlSkip | CFinal => KlFin end.
Definition has_class (ss : slot_state) (k : cclass) : Prop :=
  match k with
  | KlNotar => ce_notar (ss_c ss) <> None
  | KlFF => ce_ff (ss_c ss) <> None
  | KlNf h => is_notar_fallback ss h = true
  | KlSkip => ce_skip (ss_c ss) <> None
  | KlFin => ce_fin (ss_c ss) <> None
  end.

Lemma has_class_ext ss ss' k : ss_c ss = ss_c ss' -> has_class ss k -> has_class ss' k.
Proof. intros E. destruct k; unfold has_class, is_notar_fallback; rewrite E; auto. Qed.

Lemma add_cert_has ss c : has_class (ss_add_cert ss c) (class_of (c_kind c)).
Proof.
  unfold ss_add_cert. destruct (c_kind c) as [h|h| |h|] eqn:K; cbn [class_of has_class]; try (cbn; discriminate).
  destruct (is_notar_fallback ss h) eqn:E; [exact E|].
  unfold is_notar_fallback. cbn [ss_c with_c ce_nf]. rewrite existsb_app. cbn [existsb].
  unfold cert_hash. rewrite K, N.eqb_refl. cbn. apply orb_true_r.
Qed.
Lemma add_cert_keeps ss c k : has_class ss k -> has_class (ss_add_cert ss c) k.
Proof.
  unfold ss_add_cert. destruct (c_kind c) as [h|h| |h|]; destruct k as [| |h'| |]; cbn; auto; try discriminate.
  - destruct (is_notar_fallback ss h); cbn; auto.
  - destruct (is_notar_fallback ss h); cbn; auto.
  - destruct (is_notar_fallback ss h) eqn:E; cbn; auto.
    unfold is_notar_fallback. cbn [ss_c with_c ce_nf]. rewrite existsb_app. intros H. rewrite H. reflexivity.
  - destruct (is_notar_fallback ss h); cbn; auto.
  - destruct (is_notar_fallback ss h); cbn; auto.
Qed.

(* ---------- thresholds met by the running totals imply the certificate is held ---------- *)
Definition due_ok (e : epoch) (ss : slot_state) : Prop :=
  (forall h, is_quorum e (aget 0 h (st_notar (ss_t ss))) = true -> has_class ss KlNotar) /\
  (forall h, is_strong_quorum e (aget 0 h (st_notar (ss_t ss))) = true -> has_class ss KlFF) /\
  (forall h, is_quorum e (aget 0 h (st_nf (ss_t ss)) + aget 0 h (st_notar (ss_t ss))) = true -> has_class ss (KlNf h)) /\
  (is_quorum e (st_skip (ss_t ss) + st_sf (ss_t ss)) = true -> has_class ss KlSkip) /\
  (is_quorum e (st_fin (ss_t ss)) = true -> has_class ss KlFin).

(* the same right after SlotState::add_vote: the missing certificates are in the list just created *)
Definition created (cs : list (option cert)) (s : slot) (k : cclass) : Prop :=
  exists oc, In oc cs /\ forall x, oc = Some x -> c_slot x = s /\ class_of (c_kind x) = k.
Definition due_pending (e : epoch) (ss : slot_state) (cs : list (option cert)) (s : slot) : Prop :=
  (forall h, is_quorum e (aget 0 h (st_notar (ss_t ss))) = true -> has_class ss KlNotar \/ created cs s KlNotar) /\
  (forall h, is_strong_quorum e (aget 0 h (st_notar (ss_t ss))) = true -> has_class ss KlFF \/ created cs s KlFF) /\
  (forall h, is_quorum e (aget 0 h (st_nf (ss_t ss)) + aget 0 h (st_notar (ss_t ss))) = true -> has_class ss (KlNf h) \/ created cs s (KlNf h)) /\
  (is_quorum e (st_skip (ss_t ss) + st_sf (ss_t ss)) = true -> has_class ss KlSkip \/ created cs s KlSkip) /\
  (is_quorum e (st_fin (ss_t ss)) = true -> has_class ss KlFin \/ created cs s KlFin).

Lemma mk_single_class e s k vs x : mk_single e s k vs = Some x -> c_slot x = s /\ class_of (c_kind x) = class_of k.
Proof. unfold mk_single. destruct vs; [discriminate|]. intros H. injection H as <-. auto. Qed.
Lemma mk_mixed_class e s k v1 v2 x : mk_mixed e s k v1 v2 = Some x -> c_slot x = s /\ class_of (c_kind x) = class_of k.
Proof. unfold mk_mixed. destruct v1; destruct v2; try discriminate; intros H; injection H as <-; auto. Qed.

Lemma add_vote_certs_frame b e ss vt : ss_c (fst (ss_add_vote_gen b e ss vt)) = ss_c ss.
Proof.
  unfold ss_add_vote_gen.
  assert (C : ss_c (fst (ss_count_vote b e ss vt)) = ss_c ss).
  { unfold ss_count_vote. destruct (v_kind vt) as [h|h| | |].
    - destruct b; unfold count_notar_stake.
      + match goal with |- context [s2n_try e ?s ?x h] => assert (F1 := s2n_try_frame e s x h); destruct (s2n_try e s x h) as [[a1 a2] a3] end.
        match goal with |- context [s2s_try e ?s a1 a2] => assert (F2 := s2s_try_frame e s a1 a2); destruct (s2s_try e s a1 a2) as [b1 b2] end.
        cbn in *. destruct F1 as (_ & _ & F1). destruct F2 as (_ & _ & F2). rewrite F2, F1. reflexivity.
      + match goal with |- context [s2n_try e ?s ?x h] => assert (F1 := s2n_try_frame e s x h); destruct (s2n_try e s x h) as [[a1 a2] a3] end.
        match goal with |- context [s2s_try e ?s a1 a2] => assert (F2 := s2s_try_frame e s a1 a2); destruct (s2s_try e s a1 a2) as [b1 b2] end.
        cbn in *. destruct F1 as (_ & _ & F1). destruct F2 as (_ & _ & F2). rewrite F2, F1. reflexivity.
    - destruct b; reflexivity.
    - unfold count_skip_stake.
      match goal with |- context [recheck_pending e ?s ?x ?hs [] []] => assert (F1 := recheck_frame e s hs x [] []); destruct (recheck_pending e s x hs [] []) as [[a1 a2] a3] end.
      match goal with |- context [s2s_try e ?s a1 a2] => assert (F2 := s2s_try_frame e s a1 a2); destruct (s2s_try e s a1 a2) as [b1 b2] end.
      cbn in *. destruct F1 as (_ & _ & F1). destruct F2 as (_ & _ & F2). rewrite F2, F1. reflexivity.
    - unfold count_skip_stake.
      match goal with |- context [recheck_pending e ?s ?x ?hs [] []] => assert (F1 := recheck_frame e s hs x [] []); destruct (recheck_pending e s x hs [] []) as [[a1 a2] a3] end.
      match goal with |- context [s2s_try e ?s a1 a2] => assert (F2 := s2s_try_frame e s a1 a2); destruct (s2s_try e s a1 a2) as [b1 b2] end.
      cbn in *. destruct F1 as (_ & _ & F1). destruct F2 as (_ & _ & F2). rewrite F2, F1. reflexivity.
    - reflexivity. }
  destruct (ss_count_vote b e ss vt) as [ss1 out] eqn:E. cbn [fst] in C.
  destruct (v_signer vt =? own e); [|exact C].
  match goal with |- context [recheck_pending e ?s ss1 ?hs ?a ?b'] => assert (F := recheck_frame e s hs ss1 a b'); destruct (recheck_pending e s ss1 hs a b') as [[a1 a2] a3] end.
  cbn in *. destruct F as (_ & _ & F). congruence.
Qed.

Lemma created_here (oc : option cert) cs s k :
  In oc cs -> (forall x, oc = Some x -> c_slot x = s /\ class_of (c_kind x) = k) -> created cs s k.
Proof. intros H1 H2. exists oc. auto. Qed.

(* SlotState::add_vote creates every certificate that has become due and is not held yet *)
Theorem add_vote_due : forall e ss vt,
  due_ok e ss ->
  due_pending e (fst (ss_add_vote e ss vt)) (o_certs (snd (ss_add_vote e ss vt))) (v_slot vt).
Proof.
  intros e ss vt (D1 & D2 & D3 & D4 & D5).
  assert (Et := add_vote_totals true e ss vt). assert (Ec := add_vote_certs_frame true e ss vt).
  unfold ss_add_vote in *. set (fin := fst (ss_add_vote_gen true e ss vt)) in *.
  assert (Hc : o_certs (snd (ss_add_vote_gen true e ss vt)) = o_certs (snd (ss_count_vote true e ss vt))).
  { unfold ss_add_vote_gen. destruct (ss_count_vote true e ss vt) as [ss1 out]. cbn [snd].
    destruct (v_signer vt =? own e); [|reflexivity].
    destruct (recheck_pending e (v_slot vt) ss1 (s2n_pending (ss_n ss1)) (o_events out) (o_repair out)) as [[a1 a2] a3].
    reflexivity. }
  rewrite Hc. clear Hc.
  assert (Hx : forall k, has_class ss k -> has_class fin k) by (intros k; apply has_class_ext; symmetry; exact Ec).
  destruct vt as [s k v]. unfold ss_count_vote. cbn [v_slot v_kind v_signer] in *. unfold totals_after in Et. cbn [v_kind v_signer] in Et.
  destruct k as [h|h| | |].
  - unfold count_notar_stake.
    match goal with |- context [s2n_try e ?s' ?x h] => assert (F1 := s2n_try_frame e s' x h); destruct (s2n_try e s' x h) as [[a1 a2] a3] end.
    match goal with |- context [s2s_try e ?s' a1 a2] => assert (F2 := s2s_try_frame e s' a1 a2); destruct (s2s_try e s' a1 a2) as [b1 b2] end.
    cbn [fst snd o_certs] in *. destruct F1 as (F1v & F1t & F1c). destruct F2 as (F2v & F2t & F2c).
    change (ss_t (store_vote ss v (KNotar h))) with (ss_t ss) in *.
    change (ss_c (store_vote ss v (KNotar h))) with (ss_c ss) in *.
    assert (Bt : ss_t b1 = ss_t fin) by (rewrite F2t, F1t, Et; reflexivity).
    assert (Bc : ss_c b1 = ss_c fin) by (rewrite F2c, F1c, Ec; reflexivity).
    set (ns := aget 0 h (st_notar (ss_t ss)) + stake_of e v) in *.
    assert (Nh : aget 0 h (st_notar (ss_t fin)) = ns) by (rewrite Et; cbn [st_notar]; apply aget_ainsert_same).
    assert (No : forall h', h' <> h -> aget 0 h' (st_notar (ss_t fin)) = aget 0 h' (st_notar (ss_t ss)))
      by (intros h' Hn; rewrite Et; cbn [st_notar]; apply aget_ainsert_other; exact Hn).
    assert (Nf : st_nf (ss_t fin) = st_nf (ss_t ss)) by (rewrite Et; reflexivity).
    unfold due_pending. splits.
    + intros h' Q. destruct (N.eq_dec h' h) as [->|Hn].
      * rewrite Nh in Q. rewrite Q. cbn [andb]. rewrite Bc.
        destruct (ce_notar (ss_c fin)) eqn:Cn; [left; cbn; rewrite Cn; discriminate|].
        right. eapply created_here; [apply in_or_app; right; apply in_or_app; left; left; reflexivity|].
        intros x Hx'. apply (mk_single_class _ _ _ _ _ Hx').
      * rewrite (No h' Hn) in Q. left. apply Hx. apply (D1 h' Q).
    + intros h' Q. destruct (N.eq_dec h' h) as [->|Hn].
      * rewrite Nh in Q. rewrite Q. cbn [andb]. rewrite Bc.
        destruct (ce_ff (ss_c fin)) eqn:Cn; [left; cbn; rewrite Cn; discriminate|].
        right. eapply created_here; [apply in_or_app; right; apply in_or_app; right; left; reflexivity|].
        intros x Hx'. apply (mk_single_class _ _ _ _ _ Hx').
      * rewrite (No h' Hn) in Q. left. apply Hx. apply (D2 h' Q).
    + intros h' Q. rewrite Nf in Q. destruct (N.eq_dec h' h) as [->|Hn].
      * rewrite Nh in Q. unfold nf_cert_due. rewrite Bt, Nf, Nh, Q. cbn [andb].
        destruct (is_notar_fallback fin h) eqn:Cn; [left; exact Cn|].
        assert (Cb : is_notar_fallback b1 h = false) by (unfold is_notar_fallback in *; rewrite Bc; exact Cn).
        rewrite Cb. cbn [negb]. right. eapply created_here; [apply in_or_app; left; left; reflexivity|].
        intros x Hx'. apply (mk_mixed_class _ _ _ _ _ _ Hx').
      * rewrite (No h' Hn) in Q. left. apply Hx. apply (D3 h' Q).
    + intros Q. rewrite Et in Q. cbn [st_skip st_sf] in Q. left. apply Hx. apply (D4 Q).
    + intros Q. rewrite Et in Q. cbn [st_fin] in Q. left. apply Hx. apply (D5 Q).
  - unfold count_nf_stake. cbn [fst snd o_certs]. unfold nf_cert_due.
    match goal with |- context [is_notar_fallback ?x h] => set (b1 := x) in * end.
    assert (Bt : ss_t b1 = ss_t fin) by (rewrite Et; reflexivity).
    assert (Bc : ss_c b1 = ss_c fin) by (rewrite Ec; reflexivity).
    assert (Nn : st_notar (ss_t fin) = st_notar (ss_t ss)) by (rewrite Et; reflexivity).
    unfold due_pending. splits.
    + intros h' Q. rewrite Nn in Q. left. apply Hx. apply (D1 h' Q).
    + intros h' Q. rewrite Nn in Q. left. apply Hx. apply (D2 h' Q).
    + intros h' Q. destruct (N.eq_dec h' h) as [->|Hn].
      * rewrite Bt, Q. cbn [andb].
        destruct (is_notar_fallback fin h) eqn:Cn; [left; exact Cn|].
        assert (Cb : is_notar_fallback b1 h = false) by (unfold is_notar_fallback in *; rewrite Bc; exact Cn).
        rewrite Cb. cbn [negb]. right. eapply created_here; [left; reflexivity|].
        intros x Hx'. apply (mk_mixed_class _ _ _ _ _ _ Hx').
      * rewrite Et in Q. cbn [st_nf st_notar] in Q. rewrite aget_ainsert_other in Q by exact Hn.
        left. apply Hx. apply (D3 h' Q).
    + intros Q. rewrite Et in Q. cbn [st_skip st_sf] in Q. left. apply Hx. apply (D4 Q).
    + intros Q. rewrite Et in Q. cbn [st_fin] in Q. left. apply Hx. apply (D5 Q).
  - unfold count_skip_stake.
    match goal with |- context [recheck_pending e ?s' ?x ?hs [] []] => assert (F1 := recheck_frame e s' hs x [] []); destruct (recheck_pending e s' x hs [] []) as [[a1 a2] a3] end.
    match goal with |- context [s2s_try e ?s' a1 a2] => assert (F2 := s2s_try_frame e s' a1 a2); destruct (s2s_try e s' a1 a2) as [b1 b2] end.
    cbn [fst snd o_certs] in *. destruct F1 as (F1v & F1t & F1c).
    assert (Bt : ss_t a1 = ss_t fin) by (rewrite F1t, Et; reflexivity).
    assert (Bc : ss_c a1 = ss_c fin) by (rewrite F1c, Ec; reflexivity).
    unfold due_pending. splits.
    + intros h' Q. rewrite Et in Q. cbn [st_notar] in Q. left. apply Hx. apply (D1 h' Q).
    + intros h' Q. rewrite Et in Q. cbn [st_notar] in Q. left. apply Hx. apply (D2 h' Q).
    + intros h' Q. rewrite Et in Q. cbn [st_notar st_nf] in Q. left. apply Hx. apply (D3 h' Q).
    + intros Q. rewrite Bt, Q, Bc. cbn [andb].
      destruct (ce_skip (ss_c fin)) eqn:Cn; [left; cbn; rewrite Cn; discriminate|].
      right. eapply created_here; [left; reflexivity|]. intros x Hx'. apply (mk_mixed_class _ _ _ _ _ _ Hx').
    + intros Q. rewrite Et in Q. cbn [st_fin] in Q. left. apply Hx. apply (D5 Q).
  - unfold count_skip_stake.
    match goal with |- context [recheck_pending e ?s' ?x ?hs [] []] => assert (F1 := recheck_frame e s' hs x [] []); destruct (recheck_pending e s' x hs [] []) as [[a1 a2] a3] end.
    match goal with |- context [s2s_try e ?s' a1 a2] => assert (F2 := s2s_try_frame e s' a1 a2); destruct (s2s_try e s' a1 a2) as [b1 b2] end.
    cbn [fst snd o_certs] in *. destruct F1 as (F1v & F1t & F1c).
    assert (Bt : ss_t a1 = ss_t fin) by (rewrite F1t, Et; reflexivity).
    assert (Bc : ss_c a1 = ss_c fin) by (rewrite F1c, Ec; reflexivity).
    unfold due_pending. splits.
    + intros h' Q. rewrite Et in Q. cbn [st_notar] in Q. left. apply Hx. apply (D1 h' Q).
    + intros h' Q. rewrite Et in Q. cbn [st_notar] in Q. left. apply Hx. apply (D2 h' Q).
    + intros h' Q. rewrite Et in Q. cbn [st_notar st_nf] in Q. left. apply Hx. apply (D3 h' Q).
    + intros Q. rewrite Bt, Q, Bc. cbn [andb].
      destruct (ce_skip (ss_c fin)) eqn:Cn; [left; cbn; rewrite Cn; discriminate|].
      right. eapply created_here; [left; reflexivity|]. intros x Hx'. apply (mk_mixed_class _ _ _ _ _ _ Hx').
    + intros Q. rewrite Et in Q. cbn [st_fin] in Q. left. apply Hx. apply (D5 Q).
  - unfold count_fin_stake. cbn [fst snd o_certs].
    match goal with |- context [fin_voters e ?x] => set (b1 := x) in * end.
    assert (Bt : ss_t b1 = ss_t fin) by (rewrite Et; reflexivity).
    assert (Bc : ss_c b1 = ss_c fin) by (rewrite Ec; reflexivity).
    unfold due_pending. splits.
    + intros h' Q. rewrite Et in Q. cbn [st_notar] in Q. left. apply Hx. apply (D1 h' Q).
    + intros h' Q. rewrite Et in Q. cbn [st_notar] in Q. left. apply Hx. apply (D2 h' Q).
    + intros h' Q. rewrite Et in Q. cbn [st_notar st_nf] in Q. left. apply Hx. apply (D3 h' Q).
    + intros Q. rewrite Et in Q. cbn [st_skip st_sf] in Q. left. apply Hx. apply (D4 Q).
    + intros Q. rewrite Bt, Q, Bc. cbn [andb].
      destruct (ce_fin (ss_c fin)) eqn:Cn; [left; cbn; rewrite Cn; discriminate|].
      right. eapply created_here; [left; reflexivity|]. intros x Hx'. apply (mk_single_class _ _ _ _ _ Hx').
Qed.

(* ================= finality tracker: watermark and highest finalized slot never move back ================= *)
Definition ft_mono (t t' : ftracker) : Prop := ft_first t <= ft_first t' /\ ft_highest t <= ft_highest t'.
Lemma ft_mono_refl t : ft_mono t t. Proof. split; lia. Qed.
Lemma ft_mono_trans a b c : ft_mono a b -> ft_mono b c -> ft_mono a c.
Proof. intros [A1 A2] [B1 B2]. split; lia. Qed.

Lemma ft_skip_between_frame : forall slots t ev t' ev' b,
  ft_skip_between t ev slots = Some (t', ev', b) -> ft_first t' = ft_first t /\ ft_highest t' = ft_highest t.
Proof.
  induction slots as [|s l IH]; intros t ev t' ev' b H; cbn [ft_skip_between] in H.
  - injection H as <- _ _. auto.
  - destruct (alookup s (ft_status t)) as [[h| |h|h|]|]; try discriminate;
      try (injection H as <- _ _; auto); apply IH in H; cbn in H; exact H.
Qed.

Lemma ft_handle_impl_frame : forall fuel t src b ev t' ev',
  ft_handle_impl fuel t src b ev = Some (t', ev') -> ft_first t' = ft_first t /\ ft_highest t' = ft_highest t.
Proof.
  induction fuel as [|f IH]; intros t src b ev t' ev' H; cbn [ft_handle_impl] in H; [discriminate|].
  destruct (negb (fst b <? src)); [discriminate|].
  destruct (fst b <? ft_first t); [injection H as <- _; auto|].
  destruct (ft_skip_between t ev _) as [[[t1 ev1] early]|] eqn:SB; [|discriminate].
  apply ft_skip_between_frame in SB. destruct SB as [S1 S2].
  destruct early; [injection H as <- _; auto|].
  assert (Cont : forall t3 evx r, ft_first t3 = ft_first t -> ft_highest t3 = ft_highest t ->
            match blookup b (ft_parents t3) with
            | Some p => ft_handle_impl f t3 (fst b) p evx
            | None => Some (t3, evx)
            end = Some r -> ft_first (fst r) = ft_first t /\ ft_highest (fst r) = ft_highest t).
  { intros t3 evx [r1 r2] E1 E2 Hr. destruct (blookup b (ft_parents t3)).
    - apply IH in Hr. cbn [fst]. destruct Hr. split; congruence.
    - injection Hr as <- _. cbn [fst]. auto. }
  destruct (alookup (fst b) (ft_status t1)) as [[h| |h|h|]|].
  - apply (Cont _ _ (t', ev')) in H; cbn; auto.
  - apply (Cont _ _ (t', ev')) in H; cbn; auto.
  - destruct (h =? snd b); [|discriminate]. injection H as <- _. cbn. auto.
  - destruct (h =? snd b); [|discriminate]. injection H as <- _. cbn. auto.
  - discriminate.
  - apply (Cont _ _ (t', ev')) in H; cbn; auto.
Qed.

Lemma ft_advance_ge_local fuel status first : first <= ft_advance fuel status first.
Proof.
  revert first. induction fuel as [|f IH]; intros first; cbn [ft_advance]; [lia|].
  destruct (is_decided (alookup (first + 1) status)); [|lia].
  specialize (IH (first + 1)). lia.
Qed.
Lemma ft_prune_mono t : ft_mono t (ft_prune t).
Proof. split; unfold ft_prune; cbn [ft_first ft_highest]; [apply ft_advance_ge_local | lia]. Qed.

Lemma ft_handle_finalized_block_mono t b ev t' ev' :
  ft_handle_finalized_block t b ev = Some (t', ev') -> ft_mono t t' /\ fst b <= ft_highest t'.
Proof.
  unfold ft_handle_finalized_block. cbn [ft_parents ft_status].
  set (t1 := mkFT (ft_status t) (ft_parents t) (N.max (fst b) (ft_highest t)) (ft_first t)).
  destruct (blookup b (ft_parents t)) as [p|].
  - destruct (ft_handle_impl (ft_fuel t1) t1 (fst b) p _) as [[t2 ev2]|] eqn:HI; [|discriminate].
    intros H. injection H as <- _. apply ft_handle_impl_frame in HI. destruct HI as [I1 I2].
    destruct (ft_prune_mono t2) as [P1 P2]. unfold ft_mono. cbn [ft_first ft_highest t1] in *. splits; lia.
  - intros H. injection H as <- _. destruct (ft_prune_mono t1) as [P1 P2]. unfold ft_mono. cbn [ft_first ft_highest t1] in *. splits; lia.
Qed.

Lemma ft_set_status_mono t s st : ft_mono t (ft_set_status t s st).
Proof. split; cbn; lia. Qed.

Lemma ft_mark_fast_finalized_mono t b t' ev : ft_mark_fast_finalized t b = Some (t', ev) -> ft_mono t t'.
Proof.
  unfold ft_mark_fast_finalized. destruct (fst b <? ft_first t); [intros H; injection H as <- _; apply ft_mono_refl|].
  destruct (alookup (fst b) (ft_status t)) as [[h| |h|h|]|]; intros H.
  - destruct (h =? snd b); [|discriminate]. apply ft_handle_finalized_block_mono in H. destruct H as [H _].
    eapply ft_mono_trans; [apply ft_set_status_mono | exact H].
  - apply ft_handle_finalized_block_mono in H. destruct H as [H _]. eapply ft_mono_trans; [apply ft_set_status_mono | exact H].
  - destruct (h =? snd b); [|discriminate]. injection H as <- _. apply ft_set_status_mono.
  - destruct (h =? snd b); [|discriminate]. injection H as <- _. apply ft_set_status_mono.
  - discriminate.
  - apply ft_handle_finalized_block_mono in H. destruct H as [H _]. eapply ft_mono_trans; [apply ft_set_status_mono | exact H].
Qed.

(* a fast-finalization certificate for a slot that is not decided yet moves the finalized slot to it *)
Lemma ft_mark_fast_finalized_advances t b t' ev :
  ft_mark_fast_finalized t b = Some (t', ev) -> ft_first t <= fst b ->
  (forall h, alookup (fst b) (ft_status t) <> Some (FFinalized h)) ->
  (forall h, alookup (fst b) (ft_status t) <> Some (FImplFinalized h)) ->
  fst b <= ft_highest t'.
Proof.
  unfold ft_mark_fast_finalized. intros H Hf N1 N2. apply N.ltb_ge in Hf. rewrite Hf in H.
  destruct (alookup (fst b) (ft_status t)) as [[h| |h|h|]|].
  - destruct (h =? snd b); [|discriminate]. apply ft_handle_finalized_block_mono in H. apply H.
  - apply ft_handle_finalized_block_mono in H. apply H.
  - exfalso. apply (N1 h). reflexivity.
  - exfalso. apply (N2 h). reflexivity.
  - discriminate.
  - apply ft_handle_finalized_block_mono in H. apply H.
Qed.

Lemma ft_mark_notarized_mono t b t' ev : ft_mark_notarized t b = Some (t', ev) -> ft_mono t t'.
Proof.
  unfold ft_mark_notarized. destruct (fst b <? ft_first t); [intros H; injection H as <- _; apply ft_mono_refl|].
  destruct (alookup (fst b) (ft_status t)) as [[h| |h|h|]|]; intros H.
  - destruct (h =? snd b); [|discriminate]. injection H as <- _. apply ft_set_status_mono.
  - apply ft_handle_finalized_block_mono in H. destruct H as [H _].
    eapply ft_mono_trans; [|exact H]. split; cbn; lia.
  - destruct (h =? snd b); [|discriminate]. injection H as <- _. split; cbn; lia.
  - injection H as <- _. split; cbn; lia.
  - injection H as <- _. split; cbn; lia.
  - injection H as <- _. apply ft_set_status_mono.
Qed.

Lemma ft_mark_finalized_mono t s t' ev : ft_mark_finalized t s = Some (t', ev) -> ft_mono t t'.
Proof.
  unfold ft_mark_finalized. destruct (s <? ft_first t); [intros H; injection H as <- _; apply ft_mono_refl|].
  destruct (alookup s (ft_status t)) as [[h| |h|h|]|]; intros H.
  - apply ft_handle_finalized_block_mono in H. destruct H as [H _]. eapply ft_mono_trans; [|exact H]. split; cbn; lia.
  - injection H as <- _. apply ft_set_status_mono.
  - injection H as <- _. split; cbn; lia.
  - injection H as <- _. split; cbn; lia.
  - discriminate.
  - injection H as <- _. apply ft_set_status_mono.
Qed.

Lemma ft_add_parent_mono t b p t' ev : ft_add_parent t b p = Some (t', ev) -> ft_mono t t'.
Proof.
  unfold ft_add_parent. destruct (negb (fst p <? fst b)); [discriminate|].
  destruct (fst b <? ft_first t); [intros H; injection H as <- _; apply ft_mono_refl|].
  destruct (blookup b (ft_parents t)) as [p'|].
  - destruct (bid_eqb p p'); [|discriminate]. intros H; injection H as <- _; apply ft_mono_refl.
  - cbn [ft_status]. set (t1 := mkFT (ft_status t) (binsert b p (ft_parents t)) (ft_highest t) (ft_first t)).
    assert (M1 : ft_mono t t1) by (split; cbn; lia).
    destruct (alookup (fst b) (ft_status t)) as [[h| |h|h|]|]; intros H; try (injection H as <- _; exact M1).
    + destruct (h =? snd b); [|injection H as <- _; exact M1].
      destruct (ft_handle_impl (ft_fuel t1) t1 (fst b) p fe_empty) as [[t2 ev2]|] eqn:HI; [|discriminate].
      injection H as <- _. apply ft_handle_impl_frame in HI. destruct HI as [I1 I2].
      destruct (ft_prune_mono t2) as [P1 P2]. destruct M1 as [M1 M2]. split; lia.
    + destruct (h =? snd b); [|injection H as <- _; exact M1].
      destruct (ft_handle_impl (ft_fuel t1) t1 (fst b) p fe_empty) as [[t2 ev2]|] eqn:HI; [|discriminate].
      injection H as <- _. apply ft_handle_impl_frame in HI. destruct HI as [I1 I2].
      destruct (ft_prune_mono t2) as [P1 P2]. destruct M1 as [M1 M2]. split; lia.
Qed.

(* ================= slot states across pool operations ================= *)
(* a slot state either keeps its votes and totals and only gains certificates, or it was dropped by
   pruning (below the watermark) and is, at most, re-created empty of votes *)
Definition fresh (ss : slot_state) : Prop := ss_v ss = ss_v ss_empty /\ ss_t ss = ss_t ss_empty.
Definition ss_keep (a b : slot_state) : Prop :=
  ss_v b = ss_v a /\ ss_t b = ss_t a /\ forall k, has_class a k -> has_class b k.
Definition pool_ext (p p' : pool) : Prop :=
  ft_mono (p_ft p) (p_ft p') /\
  forall s, ss_keep (p_ss p s) (p_ss p' s) \/ (fresh (p_ss p' s) /\ s < first_unpruned p').

Lemma ss_keep_refl a : ss_keep a a. Proof. unfold ss_keep. auto. Qed.
Lemma ss_keep_trans a b c : ss_keep a b -> ss_keep b c -> ss_keep a c.
Proof. intros (A1 & A2 & A3) (B1 & B2 & B3). unfold ss_keep. splits; try congruence. auto. Qed.
Lemma fresh_keep a b : fresh a -> ss_keep a b -> fresh b.
Proof. intros [F1 F2] (K1 & K2 & _). split; congruence. Qed.

Lemma pool_ext_refl p : pool_ext p p.
Proof. split; [apply ft_mono_refl | intros s; left; apply ss_keep_refl]. Qed.
Lemma pool_ext_trans a b c : pool_ext a b -> pool_ext b c -> pool_ext a c.
Proof.
  intros [M1 E1] [M2 E2]. split; [eapply ft_mono_trans; eassumption|].
  intros s. destruct (E2 s) as [K2|[F2 L2]]; [|right; auto].
  destruct (E1 s) as [K1|[F1 L1]]; [left; eapply ss_keep_trans; eassumption|].
  right. split; [eapply fresh_keep; eassumption|]. destruct M2 as [M2 _]. unfold first_unpruned in *. lia.
Qed.

Lemma p_ss_set p s ss s' : p_ss (p_set_ss p s ss) s' = if s' =? s then ss else p_ss p s'.
Proof.
  unfold p_ss, p_set_ss, aget. cbn [p_slots]. destruct (s' =? s) eqn:E.
  - apply N.eqb_eq in E. subst. rewrite alookup_ainsert_same. reflexivity.
  - rewrite alookup_ainsert_other by (apply N.eqb_neq; exact E). reflexivity.
Qed.
Lemma p_ss_touch p s s' : p_ss (p_touch p s) s' = p_ss p s'.
Proof.
  unfold p_touch. destruct (alookup s (p_slots p)) eqn:E; [reflexivity|].
  rewrite p_ss_set. destruct (s' =? s) eqn:E2; [|reflexivity].
  apply N.eqb_eq in E2. subst. unfold p_ss, aget. rewrite E. reflexivity.
Qed.
Lemma alookup_filter_key {V} (f : N -> bool) k (l : list (N * V)) :
  alookup k (filter (fun kv => f (fst kv)) l) = if f k then alookup k l else None.
Proof.
  induction l as [|[k' v] l IH]; cbn [filter alookup fst]; [destruct (f k); reflexivity|].
  destruct (f k') eqn:Fk'; cbn [alookup].
  - destruct (k =? k') eqn:E; [apply N.eqb_eq in E; subst; rewrite Fk'; reflexivity | exact IH].
  - destruct (k =? k') eqn:E; [apply N.eqb_eq in E; subst; rewrite Fk' in *; exact IH | exact IH].
Qed.
Lemma p_ss_prune p s : p_ss (pool_prune p) s = if first_unpruned p <=? s then p_ss p s else ss_empty.
Proof.
  unfold p_ss, pool_prune, aget. cbn [p_slots].
  rewrite (alookup_filter_key (fun k => first_unpruned p <=? k)). destruct (first_unpruned p <=? s); reflexivity.
Qed.

Lemma fresh_empty : fresh ss_empty. Proof. split; reflexivity. Qed.

Lemma pool_ext_set p s ss' : ss_keep (p_ss p s) ss' -> pool_ext p (p_set_ss p s ss').
Proof.
  intros K. split; [apply ft_mono_refl|]. intros s'. left. rewrite p_ss_set.
  destruct (s' =? s) eqn:E; [apply N.eqb_eq in E; subst; exact K | apply ss_keep_refl].
Qed.
Lemma pool_ext_touch p s : pool_ext p (p_touch p s).
Proof. split; [unfold p_touch; destruct (alookup s (p_slots p)); apply ft_mono_refl|]. intros s'. left. rewrite p_ss_touch. apply ss_keep_refl. Qed.
Lemma pool_ext_slots p p' : p_slots p' = p_slots p -> ft_mono (p_ft p) (p_ft p') -> pool_ext p p'.
Proof. intros E M. split; [exact M|]. intros s. left. unfold p_ss. rewrite E. apply ss_keep_refl. Qed.
Lemma pool_ext_prune p : pool_ext p (pool_prune p).
Proof.
  split; [apply ft_mono_refl|]. intros s. rewrite p_ss_prune.
  destruct (first_unpruned p <=? s) eqn:E; [left; apply ss_keep_refl|].
  right. split; [apply fresh_empty|]. apply N.leb_gt in E. exact E.
Qed.

Lemma handle_finalization_ext p ev p' o : pool_handle_finalization p ev = Some (p', o) -> pool_ext p p'.
Proof.
  unfold pool_handle_finalization. destruct (pt_handle_finalization (p_prt p) ev) as [[[t prs] wk]|]; [|discriminate].
  intros H. injection H as <- _.
  eapply pool_ext_trans; [|apply pool_ext_prune]. apply pool_ext_slots; [reflexivity | apply ft_mono_refl].
Qed.

Lemma certified_keep e s ss h r : notify_parent_certified e s ss h = Some r -> ss_keep ss (fst (fst r)).
Proof.
  unfold notify_parent_certified. destruct (alookup h (pa_status (ss_n ss))); [|discriminate].
  intros E. injection E as <-.
  match goal with |- context [s2n_try e s ?x h] => destruct (s2n_try_frame e s x h) as (A & B & C) end.
  cbn in *. unfold ss_keep. splits; auto. intros k. apply has_class_ext. symmetry. exact C.
Qed.
Lemma known_keep ss h : ss_keep ss (notify_parent_known ss h).
Proof. unfold notify_parent_known. destruct (alookup h (pa_status (ss_n ss))); unfold ss_keep; splits; auto. Qed.
Lemma add_cert_keep ss c : ss_keep ss (ss_add_cert ss c).
Proof. destruct (add_cert_frame ss c) as [A B]. unfold ss_keep. splits; auto. intros k. apply add_cert_keeps. Qed.

Lemma notify_children_ext e : forall children p acc p' o, notify_children e p children acc = Some (p', o) -> pool_ext p p'.
Proof.
  unfold notify_children.
  induction children as [|[cs ch] l IH]; intros p acc p' o H; cbn [notify_children_gen andb] in H.
  - injection H as <- _. apply pool_ext_refl.
  - destruct (cs <? first_unpruned p); [exact (IH _ _ _ _ H)|].
    destruct (notify_parent_certified e cs (p_ss (p_touch p cs) cs) ch) as [[[ss' evs] rps]|] eqn:NC; [|discriminate].
    apply IH in H. eapply pool_ext_trans; [|exact H].
    eapply pool_ext_trans; [apply pool_ext_touch|]. apply pool_ext_set.
    apply (certified_keep _ _ _ _ _ NC).
Qed.
Lemma notify_waiting_ext e p b p' o : notify_waiting_children e p b = Some (p', o) -> pool_ext p p'.
Proof.
  unfold notify_waiting_children, notify_waiting_children_gen. intros H. apply notify_children_ext in H.
  eapply pool_ext_trans; [|exact H]. apply pool_ext_slots; [reflexivity | apply ft_mono_refl].
Qed.

(* add_valid_cert: every slot keeps its votes (or is pruned), and the certificate's class is held afterwards *)
Lemma class_after_ext p p' s k : pool_ext p p' -> has_class (p_ss p s) k ->
  has_class (p_ss p' s) k \/ (fresh (p_ss p' s) /\ s < first_unpruned p').
Proof. intros [_ E] H. destruct (E s) as [(_ & _ & K)|F]; [left; apply K; exact H | right; exact F]. Qed.

Theorem add_valid_cert_ext : forall e p c p' o,
  add_valid_cert e p c = Some (p', o) ->
  pool_ext p p' /\
  (has_class (p_ss p' (c_slot c)) (class_of (c_kind c)) \/ (fresh (p_ss p' (c_slot c)) /\ c_slot c < first_unpruned p')) /\
  In (ECertCreated c) (po_events o).
Proof.
  intros e p c p' o H. unfold add_valid_cert in H.
  set (s := c_slot c) in *. set (p0 := p_set_ss p s (ss_add_cert (p_ss p s) c)) in *.
  assert (E0 : pool_ext p p0) by (apply pool_ext_set; apply add_cert_keep).
  assert (C0 : has_class (p_ss p0 s) (class_of (c_kind c))) by (unfold p0; rewrite p_ss_set, N.eqb_refl; apply add_cert_has).
  assert (Fin : forall p1, pool_ext p0 p1 -> pool_ext p p1 /\
            (has_class (p_ss p1 s) (class_of (c_kind c)) \/ (fresh (p_ss p1 s) /\ s < first_unpruned p1))).
  { intros p1 E1. split; [eapply pool_ext_trans; eassumption | apply (class_after_ext p0 p1 s _ E1 C0)]. }
  destruct (c_kind c) as [h|h| |h|] eqn:K.
  - destruct (ft_mark_notarized (p_ft p0) (s, h)) as [[t ev]|] eqn:MN; [|discriminate].
    destruct (pool_handle_finalization (pool_with_ft p0 t) ev) as [[p1 o1]|] eqn:HF; [|discriminate].
    destruct (notify_waiting_children e p1 (s, h)) as [[p2 o2]|] eqn:NW; [|discriminate].
    destruct (pt_mark_notar_fallback (p_prt p2) (s, h)) as [[[t2 prs] wk]|] eqn:MF; [|discriminate].
    injection H as <- <-.
    assert (E1 : pool_ext p0 (pool_with_prt p2 t2)).
    { eapply pool_ext_trans; [apply (pool_ext_slots p0 (pool_with_ft p0 t)); [reflexivity | apply (ft_mark_notarized_mono _ _ _ _ MN)]|].
      eapply pool_ext_trans; [apply (handle_finalization_ext _ _ _ _ HF)|].
      eapply pool_ext_trans; [apply (notify_waiting_ext _ _ _ _ _ NW)|].
      apply pool_ext_slots; [reflexivity | apply ft_mono_refl]. }
    destruct (Fin _ E1) as [A B]. splits; auto. cbn [po_app po_events]. apply in_or_app. right. left. reflexivity.
  - destruct (notify_waiting_children e p0 (s, h)) as [[p2 o2]|] eqn:NW; [|discriminate].
    destruct (pt_mark_notar_fallback (p_prt p2) (s, h)) as [[[t2 prs] wk]|] eqn:MF; [|discriminate].
    injection H as <- <-.
    assert (E1 : pool_ext p0 (pool_with_prt p2 t2)).
    { eapply pool_ext_trans; [apply (notify_waiting_ext _ _ _ _ _ NW)|]. apply pool_ext_slots; [reflexivity | apply ft_mono_refl]. }
    destruct (Fin _ E1) as [A B]. splits; auto. cbn [po_app po_events]. apply in_or_app. right. left. reflexivity.
  - destruct (pt_mark_skipped (p_prt p0) s) as [[[t2 prs] wk]|] eqn:MS; [|discriminate].
    injection H as <- <-.
    assert (E1 : pool_ext p0 (pool_with_prt p0 t2)) by (apply pool_ext_slots; [reflexivity | apply ft_mono_refl]).
    destruct (Fin _ E1) as [A B]. splits; auto. cbn [po_app po_events]. apply in_or_app. right. left. reflexivity.
  - destruct (ft_mark_fast_finalized (p_ft p0) (s, h)) as [[t ev]|] eqn:MN; [|discriminate].
    destruct (pool_handle_finalization (pool_with_ft p0 t) ev) as [[p1 o1]|] eqn:HF; [|discriminate].
    destruct (notify_waiting_children e p1 (s, h)) as [[p2 o2]|] eqn:NW; [|discriminate].
    injection H as <- <-.
    assert (E1 : pool_ext p0 p2).
    { eapply pool_ext_trans; [apply (pool_ext_slots p0 (pool_with_ft p0 t)); [reflexivity | apply (ft_mark_fast_finalized_mono _ _ _ _ MN)]|].
      eapply pool_ext_trans; [apply (handle_finalization_ext _ _ _ _ HF)|].
      apply (notify_waiting_ext _ _ _ _ _ NW). }
    destruct (Fin _ E1) as [A B]. splits; auto. cbn [po_app po_events]. apply in_or_app. right. left. reflexivity.
  - destruct (ft_mark_finalized (p_ft p0) s) as [[t ev]|] eqn:MN; [|discriminate].
    destruct (pool_handle_finalization (pool_with_ft p0 t) ev) as [[p1 o1]|] eqn:HF; [|discriminate].
    injection H as <- <-.
    assert (E1 : pool_ext p0 p1).
    { eapply pool_ext_trans; [apply (pool_ext_slots p0 (pool_with_ft p0 t)); [reflexivity | apply (ft_mark_finalized_mono _ _ _ _ MN)]|].
      apply (handle_finalization_ext _ _ _ _ HF). }
    destruct (Fin _ E1) as [A B]. splits; auto. cbn [po_app po_events]. apply in_or_app. right. left. reflexivity.
Qed.

(* ================= the pool invariant ================= *)
Definition ss_inv (e : epoch) (ss : slot_state) : Prop := totals_ok e ss /\ halves_disjoint ss /\ due_ok e ss.
Definition pool_inv (e : epoch) (p : pool) : Prop := forall s, ss_inv e (p_ss p s).

Lemma quorum_zero e : 0 < total_stake e -> is_quorum e 0 = false.
Proof. intros H. unfold is_quorum, is_met. assert (0 < QUORUM_NUM) by (vm_compute; reflexivity). apply N.leb_gt. nia. Qed.
Lemma strong_quorum_zero e : 0 < total_stake e -> is_strong_quorum e 0 = false.
Proof. intros H. unfold is_strong_quorum, is_met. assert (0 < STRONG_QUORUM_NUM) by (vm_compute; reflexivity). apply N.leb_gt. nia. Qed.

Lemma ss_inv_fresh e b : 0 < total_stake e -> fresh b -> ss_inv e b.
Proof.
  intros Ht [Fv Ft]. split; [|split].
  - apply (totals_ok_ext e ss_empty b); [symmetry; exact Fv | symmetry; exact Ft | apply totals_ok_empty].
  - apply (halves_ext ss_empty b); [symmetry; exact Fv | apply halves_empty].
  - unfold due_ok. rewrite Ft. cbn [ss_t ss_empty st_notar st_nf st_skip st_sf st_fin]. unfold aget. cbn [alookup].
    pose proof (quorum_zero e Ht) as Q. pose proof (strong_quorum_zero e Ht) as S.
    splits; intros; try congruence; cbn in *; congruence.
Qed.
Lemma ss_inv_keep e a b : ss_inv e a -> ss_keep a b -> ss_inv e b.
Proof.
  intros (T & H & D1 & D2 & D3 & D4 & D5) (Kv & Kt & Kc). split; [|split].
  - apply (totals_ok_ext e a b); auto.
  - apply (halves_ext a b); auto.
  - unfold due_ok. rewrite Kt. splits; intros; apply Kc; eauto.
Qed.
Lemma pool_inv_ext e p p' : 0 < total_stake e -> pool_inv e p -> pool_ext p p' -> pool_inv e p'.
Proof.
  intros Ht I [_ E] s. destruct (E s) as [K|[F _]]; [apply (ss_inv_keep e (p_ss p s)); auto | apply ss_inv_fresh; auto].
Qed.
Lemma pool_init_inv e : 0 < total_stake e -> pool_inv e pool_init.
Proof. intros Ht s. apply ss_inv_fresh; [exact Ht | apply fresh_empty]. Qed.

(* what a pool operation does to each slot: stored votes and held certificates stay, unless the slot has
   fallen below the watermark (decided and pruned) *)
Definition ss_grow (a b : slot_state) : Prop :=
  (forall v k, stored a v k -> stored b v k) /\ (forall k, has_class a k -> has_class b k).
Definition pool_grow (p p' : pool) : Prop :=
  ft_mono (p_ft p) (p_ft p') /\
  forall s, ss_grow (p_ss p s) (p_ss p' s) \/ s < first_unpruned p'.

Lemma keep_grow a b : ss_keep a b -> ss_grow a b.
Proof. intros (Kv & _ & Kc). split; [intros v k; apply stored_ext; symmetry; exact Kv | exact Kc]. Qed.
Lemma ext_grow p p' : pool_ext p p' -> pool_grow p p'.
Proof. intros [M E]. split; [exact M|]. intros s. destruct (E s) as [K|[_ F]]; [left; apply keep_grow; exact K | right; exact F]. Qed.
Lemma ss_grow_refl a : ss_grow a a. Proof. split; auto. Qed.
Lemma ss_grow_trans a b c : ss_grow a b -> ss_grow b c -> ss_grow a c.
Proof. intros [A1 A2] [B1 B2]. split; auto. Qed.
Lemma fresh_stored b v k : fresh b -> ~ stored b v k.
Proof. intros [Fv _]. unfold stored, has_nf_vote. rewrite Fv. destruct k; cbn; discriminate. Qed.
Lemma pool_grow_refl p : pool_grow p p. Proof. apply ext_grow. apply pool_ext_refl. Qed.
Lemma pool_grow_trans a b c : pool_grow a b -> pool_grow b c -> pool_grow a c.
Proof.
  intros [M1 E1] [M2 E2]. split; [eapply ft_mono_trans; eassumption|].
  intros s. destruct (E2 s) as [G2|F2]; [|right; exact F2].
  destruct (E1 s) as [G1|L1]; [left; eapply ss_grow_trans; eassumption|].
  right. destruct M2 as [M2 _]. unfold first_unpruned in *. lia.
Qed.

(* ---------- add_certs ---------- *)
Lemma add_certs_ext e : forall cs p acc p' o,
  add_certs e p cs acc = Some (p', o) ->
  pool_ext p p' /\ (forall x, In x (po_events acc) -> In x (po_events o)) /\
  forall oc, In oc cs -> exists c, oc = Some c /\ In (ECertCreated c) (po_events o) /\
    (has_class (p_ss p' (c_slot c)) (class_of (c_kind c)) \/ (fresh (p_ss p' (c_slot c)) /\ c_slot c < first_unpruned p')).
Proof.
  induction cs as [|oc l IH]; intros p acc p' o H; cbn [add_certs] in H.
  - injection H as <- <-. splits; [apply pool_ext_refl | auto | intros oc []].
  - destruct oc as [c|]; [|discriminate].
    destruct (add_valid_cert e p c) as [[p1 o1]|] eqn:AV; [|discriminate].
    destruct (add_valid_cert_ext e p c p1 o1 AV) as (E1 & C1 & Ev1).
    destruct (IH _ _ _ _ H) as (E2 & Acc2 & All2).
    splits.
    + eapply pool_ext_trans; eassumption.
    + intros x Hx. apply Acc2. cbn [po_app po_events]. apply in_or_app. left. exact Hx.
    + intros oc [<-|Hin]; [|apply All2; exact Hin].
      exists c. splits; [reflexivity | apply Acc2; cbn [po_app po_events]; apply in_or_app; right; exact Ev1 |].
      destruct C1 as [C1|[F1 L1]].
      * apply (class_after_ext p1 p' _ _ E2 C1).
      * right. destruct E2 as [[M2 _] E2]. destruct (E2 (c_slot c)) as [K|[F2 L2]]; [|auto].
        split; [eapply fresh_keep; eassumption | unfold first_unpruned in *; lia].
Qed.

(* ---------- one pool operation ---------- *)
Definition is_vote_op (op : pool_op) : bool := match op with OpVote _ => true | _ => false end.

(* everything except an admitted vote leaves every slot's votes and totals alone *)
Lemma pool_step_nonvote_ext : forall e p op,
  is_vote_op op = false -> p_panicked (fst (fst (pool_step e p op))) = false -> pool_ext p (fst (fst (pool_step e p op))).
Proof.
  intros e p op Hop. unfold pool_step. destruct (p_panicked p) eqn:Pp; [cbn; intros; congruence|].
  destruct op as [vt|c|b par| |s|]; [discriminate| | | | |].
  - unfold pool_add_cert.
    destruct (out_of_bounds p (c_slot c)); [cbn; intros _; apply pool_ext_refl|].
    destruct (cert_duplicate (p_ss (p_touch p (c_slot c)) (c_slot c)) c); [cbn; intros _; apply pool_ext_touch|].
    destruct (add_valid_cert e (p_touch p (c_slot c)) c) as [[p1 o]|] eqn:AV; [|cbn; intros; congruence].
    cbn. intros _. eapply pool_ext_trans; [apply pool_ext_touch|]. apply (add_valid_cert_ext e _ c p1 o AV).
  - unfold pool_add_block, pool_add_block_gen.
    destruct (negb (fst par <? fst b)); [cbn; intros; congruence|].
    destruct (fst b <? first_unpruned p); [cbn; intros _; apply pool_ext_refl|].
    destruct (ft_add_parent (p_ft p) b par) as [[t ev]|] eqn:AP; [|cbn; intros; congruence].
    destruct (pool_handle_finalization (pool_with_ft p t) ev) as [[p1 o1]|] eqn:HF; [|cbn; intros; congruence].
    assert (E1 : pool_ext p p1).
    { eapply pool_ext_trans; [apply (pool_ext_slots p (pool_with_ft p t)); [reflexivity | apply (ft_add_parent_mono _ _ _ _ _ AP)]|].
      apply (handle_finalization_ext _ _ _ _ HF). }
    destruct (fst b <? first_unpruned p1); [cbn; intros _; exact E1|].
    set (p2 := p_set_ss p1 (fst b) (notify_parent_known (p_ss p1 (fst b)) (snd b))).
    assert (E2 : pool_ext p p2) by (eapply pool_ext_trans; [exact E1 | apply pool_ext_set; apply known_keep]).
    match goal with |- context [if ?c then _ else _] => destruct c end.
    + destruct (notify_parent_certified e (fst b) (p_ss p2 (fst b)) (snd b)) as [[[ss' evs] rps]|] eqn:NC; [|cbn; intros; congruence].
      assert (E3 : pool_ext p (p_set_ss p2 (fst b) ss')).
      { eapply pool_ext_trans; [exact E2|]. apply pool_ext_set. apply (certified_keep _ _ _ _ _ NC). }
      assert (E4 : pool_ext p (mkPool (p_slots (p_set_ss p2 (fst b) ss')) (p_prt (p_set_ss p2 (fst b) ss')) (p_ft (p_set_ss p2 (fst b) ss'))
                                  (p_waiting (p_set_ss p2 (fst b) ss') ++ [(par, b)]) (p_panicked (p_set_ss p2 (fst b) ss')))).
      { eapply pool_ext_trans; [exact E3|]. apply pool_ext_slots; [reflexivity | apply ft_mono_refl]. }
      destruct evs; destruct rps; cbn [fst]; intros _; first [exact E3 | exact E4].
    + cbn. intros _. eapply pool_ext_trans; [exact E2|]. apply pool_ext_slots; [reflexivity | apply ft_mono_refl].
  - unfold pool_standstill, pool_standstill_gen.
    destruct (get_final_certs p (finalized_slot p)); [destruct (true && (finalized_slot p =? 0))|]; cbn; intros; try congruence;
      apply pool_ext_refl.
  - unfold pool_wait. destruct (pt_wait (p_prt p) s) as [[t r]|]; cbn; intros; try congruence.
    apply pool_ext_slots; [reflexivity | apply ft_mono_refl].
  - cbn. intros _. apply pool_ext_refl.
Qed.

(* the four outcomes of Pool::add_vote *)
Lemma pool_add_vote_spec : forall e p vt,
  let s := v_slot vt in
  let p' := fst (fst (pool_add_vote e p vt)) in
  let r := snd (fst (pool_add_vote e p vt)) in
  let o := snd (pool_add_vote e p vt) in
  (out_of_bounds p s = true /\ p' = p /\ r = RVerdict VOutOfBounds) \/
  (out_of_bounds p s = false /\ check_slashable (p_ss p s) vt <> None /\ p' = p_touch p s) \/
  (out_of_bounds p s = false /\ check_slashable (p_ss p s) vt = None /\ should_ignore (p_ss p s) vt = true /\
     p' = p_touch p s /\ r = RVerdict VDuplicate) \/
  (out_of_bounds p s = false /\ admitted (p_ss p s) vt /\
     (p_panicked p' = true \/
      (r = RVerdict VOk /\
       pool_ext (p_set_ss (p_touch p s) s (fst (ss_add_vote e (p_ss p s) vt))) p' /\
       forall oc, In oc (o_certs (snd (ss_add_vote e (p_ss p s) vt))) ->
         exists c, oc = Some c /\ In (ECertCreated c) (po_events o) /\
           (has_class (p_ss p' (c_slot c)) (class_of (c_kind c)) \/ (fresh (p_ss p' (c_slot c)) /\ c_slot c < first_unpruned p'))))).
Proof.
  intros e p vt. cbv zeta. unfold pool_add_vote, pool_add_vote_gen.
  destruct (out_of_bounds p (v_slot vt)) eqn:OB; [left; cbn; auto|]. right.
  rewrite p_ss_touch.
  destruct (check_slashable (p_ss p (v_slot vt)) vt) eqn:CS; [left; cbn; splits; auto; discriminate|]. right.
  destruct (should_ignore (p_ss p (v_slot vt)) vt) eqn:SI; [left; cbn; splits; auto|]. right.
  split; [reflexivity|]. split; [split; assumption|].
  unfold ss_add_vote.
  destruct (ss_add_vote_gen true e (p_ss p (v_slot vt)) vt) as [ss' out] eqn:AV. cbn [fst snd].
  destruct (add_certs e (p_set_ss (p_touch p (v_slot vt)) (v_slot vt) ss') (o_certs out) po_empty) as [[p2 o]|] eqn:AC; [|left; reflexivity].
  right. cbn [fst snd]. destruct (add_certs_ext e _ _ _ _ _ AC) as (E12 & _ & All).
  splits; [reflexivity | exact E12 |].
  intros oc Hin. destruct (All oc Hin) as (c & -> & Ev & Cl). exists c. splits; auto.
  cbn [po_app po_events]. apply in_or_app. left. exact Ev.
Qed.

Theorem pool_step_inv : forall e p op,
  0 < total_stake e -> pool_inv e p ->
  let p' := fst (fst (pool_step e p op)) in
  p_panicked p' = false -> pool_inv e p' /\ pool_grow p p'.
Proof.
  intros e p op Ht I. cbv zeta.
  destruct (is_vote_op op) eqn:Hop.
  2:{ intros Hp. pose proof (pool_step_nonvote_ext e p op Hop Hp) as E.
      split; [apply (pool_inv_ext e p); assumption | apply ext_grow; exact E]. }
  destruct op as [vt| | | | |]; try discriminate.
  unfold pool_step. destruct (p_panicked p) eqn:Pp; [cbn; intros; congruence|].
  intros Hp'.
  assert (From_ext : forall p', pool_ext p p' -> pool_inv e p' /\ pool_grow p p').
  { intros p' E. split; [apply (pool_inv_ext e p); assumption | apply ext_grow; exact E]. }
  set (s := v_slot vt) in *.
  destruct (pool_add_vote_spec e p vt) as [(OB & -> & _)|[(OB & CS & ->)|[(OB & CS & SI & -> & _)|(OB & Adm & [Pn|(_ & E12 & All)])]]].
  - split; [exact I | apply pool_grow_refl].
  - apply From_ext. apply pool_ext_touch.
  - apply From_ext. apply pool_ext_touch.
  - congruence.
  - fold s in E12, All, Adm.
    set (ss' := fst (ss_add_vote e (p_ss p s) vt)) in *.
    set (out := snd (ss_add_vote e (p_ss p s) vt)) in *.
    set (p0 := p_touch p s) in *. set (p1 := p_set_ss p0 s ss') in *.
    set (p2 := fst (fst (pool_add_vote e p vt))) in *.
    assert (I0 : pool_inv e p0) by (apply (pool_inv_ext e p); [exact Ht | exact I | apply pool_ext_touch]).
    assert (G0 : pool_grow p p0) by (apply ext_grow; apply pool_ext_touch).
    assert (P0 : p_ss p0 s = p_ss p s) by (unfold p0; apply p_ss_touch).
    destruct (I s) as (T0 & H0 & D0).
    assert (T1 : totals_ok e ss') by (apply totals_preserved; assumption).
    assert (H1 : halves_disjoint ss') by (apply halves_preserved; assumption).
    pose proof (add_vote_due e (p_ss p s) vt D0) as DP. fold ss' out s in DP.
    assert (Hother : forall s', s' <> s -> p_ss p1 s' = p_ss p0 s').
    { intros s' Hn. unfold p1. rewrite p_ss_set. apply N.eqb_neq in Hn. rewrite Hn. reflexivity. }
    assert (Hs : p_ss p1 s = ss') by (unfold p1; rewrite p_ss_set, N.eqb_refl; reflexivity).
    split.
    + intros s'. destruct E12 as [_ E12]. destruct (E12 s') as [K|[F _]]; [|apply ss_inv_fresh; assumption].
      destruct (N.eq_dec s' s) as [->|Hn].
      * rewrite Hs in K. destruct K as (Kv & Kt & Kc).
        split; [apply (totals_ok_ext e ss'); auto|]. split; [apply (halves_ext ss'); auto|].
        assert (Res : forall k, has_class ss' k \/ created (o_certs out) s k -> has_class (p_ss p2 s) k).
        { intros k [Hk|(oc & Hin & Hoc)]; [apply Kc; exact Hk|].
          destruct (All oc Hin) as (c' & -> & _ & [Hc|[F _]]).
          - destruct (Hoc c' eq_refl) as [<- <-]. exact Hc.
          - destruct (Hoc c' eq_refl) as [Es _]. rewrite Es in F.
            exfalso. apply (fresh_stored _ (v_signer vt) (v_kind vt) F).
            apply (stored_ext ss'); [symmetry; exact Kv|]. apply add_vote_stored. }
        destruct DP as (P1 & P2 & P3 & P4 & P5). unfold due_ok. rewrite Kt.
        splits; intros; apply Res; eauto.
      * rewrite (Hother s' Hn) in K. apply (ss_inv_keep e (p_ss p0 s')); auto.
    + eapply pool_grow_trans; [exact G0|].
      destruct E12 as [M12 E12]. split; [exact M12|]. intros s'.
      destruct (E12 s') as [K|[_ L]]; [|right; exact L]. left.
      destruct (N.eq_dec s' s) as [->|Hn].
      * rewrite Hs in K. eapply ss_grow_trans; [|apply keep_grow; exact K]. rewrite P0. split.
        -- intros v k Hst. apply add_vote_keeps; assumption.
        -- intros k. apply has_class_ext. symmetry. apply add_vote_certs_frame.
      * rewrite (Hother s' Hn) in K. apply keep_grow. exact K.
Qed.

(* ================= operation sequences ================= *)
Fixpoint pool_run (e : epoch) (p : pool) (ops : list pool_op) : pool :=
  match ops with [] => p | op :: rest => pool_run e (fst (fst (pool_step e p op))) rest end.

Lemma panicked_sticky e : forall ops p, p_panicked p = true -> p_panicked (pool_run e p ops) = true.
Proof.
  induction ops as [|op l IH]; intros p H; [exact H|]. cbn [pool_run]. apply IH.
  unfold pool_step. rewrite H. exact H.
Qed.

Theorem pool_run_inv : forall e ops p,
  0 < total_stake e -> pool_inv e p -> p_panicked (pool_run e p ops) = false ->
  pool_inv e (pool_run e p ops) /\ pool_grow p (pool_run e p ops).
Proof.
  intros e ops. induction ops as [|op l IH]; intros p Ht I Hp; cbn [pool_run] in *.
  - split; [exact I | apply pool_grow_refl].
  - assert (Hp1 : p_panicked (fst (fst (pool_step e p op))) = false).
    { destruct (p_panicked (fst (fst (pool_step e p op)))) eqn:E; [|reflexivity].
      rewrite (panicked_sticky e l _ E) in Hp. discriminate. }
    destruct (pool_step_inv e p op Ht I Hp1) as [I1 G1].
    destruct (IH _ Ht I1 Hp) as [I2 G2]. split; [exact I2 | eapply pool_grow_trans; eassumption].
Qed.

(* every pool state reachable from the empty pool *)
Definition pool_reachable (e : epoch) (p : pool) : Prop := exists ops, p = pool_run e pool_init ops.

(* P1, "threshold_then_cert": in every reachable, non-panicked pool, for every slot whose state is
   retained, stored stake at a threshold implies the certificate of that class is held *)
Theorem threshold_then_cert : forall e p s,
  0 < total_stake e -> pool_reachable e p -> p_panicked p = false ->
  let ss := p_ss p s in
  (forall h, is_quorum e (stake_sum e (notar_voters e ss h)) = true -> ce_notar (ss_c ss) <> None) /\
  (forall h, is_strong_quorum e (stake_sum e (notar_voters e ss h)) = true -> ce_ff (ss_c ss) <> None) /\
  (forall h, is_quorum e (stake_sum e (nf_voters e ss h) + stake_sum e (notar_voters e ss h)) = true -> is_notar_fallback ss h = true) /\
  (is_quorum e (stake_sum e (skip_voters e ss) + stake_sum e (sf_voters e ss)) = true -> ce_skip (ss_c ss) <> None) /\
  (is_quorum e (stake_sum e (fin_voters e ss)) = true -> ce_fin (ss_c ss) <> None).
Proof.
  intros e p s Ht [ops ->] Hp. cbv zeta.
  destruct (pool_run_inv e ops pool_init Ht (pool_init_inv e Ht) Hp) as [I _].
  destruct (I s) as ((T1 & T2 & T3 & T4 & T5) & _ & (D1 & D2 & D3 & D4 & D5)).
  splits.
  - intros h Q. rewrite <- T1 in Q. apply (D1 h Q).
  - intros h Q. rewrite <- T1 in Q. apply (D2 h Q).
  - intros h Q. rewrite <- T1, <- T2 in Q. apply (D3 h Q).
  - intros Q. rewrite <- T3, <- T4 in Q. apply (D4 Q).
  - intros Q. rewrite <- T5 in Q. apply (D5 Q).
Qed.

(* accepted votes stay stored, held certificates stay held, until the slot falls below the watermark;
   the watermark and the finalized slot never move back *)
Theorem stored_until_pruned : forall e ops p s,
  0 < total_stake e -> pool_inv e p -> p_panicked (pool_run e p ops) = false ->
  let p' := pool_run e p ops in
  first_unpruned p <= first_unpruned p' /\ finalized_slot p <= finalized_slot p' /\
  (s < first_unpruned p' \/
   ((forall v k, stored (p_ss p s) v k -> stored (p_ss p' s) v k) /\ (forall k, has_class (p_ss p s) k -> has_class (p_ss p' s) k))).
Proof.
  intros e ops p s Ht I Hp. cbv zeta. destruct (pool_run_inv e ops p Ht I Hp) as [_ [[M1 M2] G]].
  splits; [exact M1 | exact M2 |]. destruct (G s) as [[A B]|L]; [right; auto | left; exact L].
Qed.

(* ================= P4: one synchronous round, seen from the receiving pool ================= *)
(* nothing stored from validator v in this slot that would make its notarization vote for h be refused *)
Definition clean_for (ss : slot_state) (v : vidx) (h : hash) : Prop :=
  memN v (vo_skip (ss_v ss)) = false /\
  (forall h', alookup v (vo_notar (ss_v ss)) = Some h' -> h' = h) /\
  has_nf_vote ss v h = false.

(* an operation that is not a conflicting vote of one of the validators in V for slot s
   (a correct validator that notarizes h in s sends neither skip, nor another notarization, nor
   notar-fallback for h itself in s; everything else - anyone else's votes, any certificates, blocks - is allowed) *)
Definition harmless (V : list vidx) (s : slot) (h : hash) (op : pool_op) : Prop :=
  match op with
  | OpVote vt => v_slot vt = s -> In (v_signer vt) V ->
                 match v_kind vt with KSkip => False | KNotar h' => h' = h | KNotarFb h' => h' <> h | _ => True end
  | _ => True
  end.

Lemma pool_step_votes : forall e p op s,
  p_panicked (fst (fst (pool_step e p op))) = false ->
  let p' := fst (fst (pool_step e p op)) in
  ss_v (p_ss p' s) = ss_v (p_ss p s) \/ fresh (p_ss p' s) \/
  (exists vt, op = OpVote vt /\ v_slot vt = s /\ ss_v (p_ss p' s) = ss_v (store_vote (p_ss p s) (v_signer vt) (v_kind vt))).
Proof.
  intros e p op s Hp. cbv zeta.
  destruct (is_vote_op op) eqn:Hop.
  2:{ destruct (pool_step_nonvote_ext e p op Hop Hp) as [_ E]. destruct (E s) as [(Kv & _)|[F _]]; auto. }
  destruct op as [vt| | | | |]; try discriminate.
  unfold pool_step in *. destruct (p_panicked p) eqn:Pp; [left; reflexivity|].
  destruct (pool_add_vote_spec e p vt) as [(OB & -> & _)|[(OB & CS & ->)|[(OB & CS & SI & -> & _)|(OB & Adm & [Pn|(_ & [_ E12] & _)])]]].
  - left; reflexivity.
  - left. rewrite p_ss_touch. reflexivity.
  - left. rewrite p_ss_touch. reflexivity.
  - congruence.
  - destruct (E12 s) as [(Kv & _)|[F _]]; [|auto].
    rewrite p_ss_set, p_ss_touch in Kv. destruct (s =? v_slot vt) eqn:Es.
    + apply N.eqb_eq in Es. subst s. right. right. exists vt. splits; auto.
      rewrite Kv. unfold ss_add_vote. apply add_vote_stores.
    + left. exact Kv.
Qed.

Lemma clean_ext ss ss' v h : ss_v ss' = ss_v ss -> clean_for ss v h -> clean_for ss' v h.
Proof. intros E. unfold clean_for, has_nf_vote. rewrite E. auto. Qed.
Lemma clean_fresh ss v h : fresh ss -> clean_for ss v h.
Proof. intros [Fv _]. unfold clean_for, has_nf_vote. rewrite Fv. cbn. splits; auto. discriminate. Qed.

Lemma clean_step : forall e p op V s h v,
  p_panicked (fst (fst (pool_step e p op))) = false -> In v V -> harmless V s h op ->
  clean_for (p_ss p s) v h -> clean_for (p_ss (fst (fst (pool_step e p op))) s) v h.
Proof.
  intros e p op V s h v Hp Hv Hh Hc.
  destruct (pool_step_votes e p op s Hp) as [E|[F|(vt & -> & Es & E)]].
  - apply (clean_ext (p_ss p s)); assumption.
  - apply clean_fresh. exact F.
  - cbn [harmless] in Hh. specialize (Hh Es).
    destruct Hc as (C1 & C2 & C3). unfold clean_for, has_nf_vote in *. rewrite E. clear E.
    destruct vt as [s' k u]. cbn [v_slot v_kind v_signer] in *. unfold store_vote. cbn [ss_v with_v].
    destruct (N.eq_dec u v) as [->|Hne].
    + specialize (Hh Hv). destruct k as [h'|h'| | |]; cbn [vo_notar vo_nf vo_skip vo_sf vo_fin]; try contradiction.
      * subst h'. splits; auto. intros h2. rewrite alookup_ainsert_same. intros H; injection H as <-. reflexivity.
      * splits; auto. cbn [existsb fst snd]. rewrite C3, N.eqb_refl. cbn. apply N.eqb_neq in Hh. rewrite Hh. reflexivity.
      * splits; auto.
      * splits; auto.
    + assert (Hvu : (v =? u) = false) by (apply N.eqb_neq; congruence).
      assert (Huv : (u =? v) = false) by (apply N.eqb_neq; congruence).
      destruct k as [h'|h'| | |]; cbn [vo_notar vo_nf vo_skip vo_sf vo_fin]; splits; auto.
      * intros h2. rewrite alookup_ainsert_other by congruence. apply C2.
      * cbn [existsb fst snd]. rewrite Huv, C3. reflexivity.
      * unfold memN. cbn [existsb]. rewrite Hvu. exact C1.
Qed.

Lemma vote_lands : forall e p s h v,
  clean_for (p_ss p s) v h -> out_of_bounds p s = false ->
  let p' := fst (fst (pool_step e p (OpVote (mkVote s (KNotar h) v)))) in
  p_panicked p' = false -> stored (p_ss p' s) v (KNotar h) \/ s < first_unpruned p'.
Proof.
  intros e p s h v (C1 & C2 & C3) OB. cbv zeta. unfold pool_step. destruct (p_panicked p) eqn:Pp; [cbn; intros; congruence|].
  intros Hp'. set (vt := mkVote s (KNotar h) v) in *.
  assert (CSn : check_slashable (p_ss p s) vt = None).
  { unfold check_slashable, vt. cbn [v_signer v_kind]. rewrite C1.
    destruct (alookup v (vo_notar (ss_v (p_ss p s)))) as [h'|] eqn:A; [|reflexivity].
    rewrite (C2 h' eq_refl), N.eqb_refl. reflexivity. }
  destruct (pool_add_vote_spec e p vt) as [(OB' & _)|[(_ & CS & _)|[(_ & _ & SI & -> & _)|(_ & Adm & [Pn|(_ & [_ E12] & _)])]]];
    cbn [v_slot vt] in *.
  - congruence.
  - congruence.
  - left. rewrite p_ss_touch. unfold should_ignore, vt in SI. cbn [v_signer v_kind] in SI. cbn [stored].
    destruct (alookup v (vo_notar (ss_v (p_ss p s)))) as [h'|] eqn:A; [rewrite (C2 h' eq_refl); reflexivity | congruence].
  - congruence.
  - destruct (E12 s) as [(Kv & _)|[_ L]]; [left | right; exact L].
    rewrite p_ss_set, N.eqb_refl in Kv.
    apply (stored_ext (fst (ss_add_vote e (p_ss p s) vt))); [symmetry; exact Kv|].
    unfold ss_add_vote. apply (add_vote_stored true e (p_ss p s) vt).
Qed.

(* stake of a duplicate-free set of validators that all pass a filter is at most the stake of the filtered set *)
Lemma stake_sum_cons e a l : stake_sum e (a :: l) = stake_of e a + stake_sum e l.
Proof. reflexivity. Qed.
Lemma stake_sum_incl e : forall V L, NoDup V -> NoDup L -> (forall v, In v V -> In v L) -> stake_sum e V <= stake_sum e L.
Proof.
  induction V as [|a V IH]; intros L NV NL Hin; [cbn; lia|].
  inversion NV as [|? ? Ha NV']; subst.
  destruct (in_split a L (Hin a (or_introl eq_refl))) as (L1 & L2 & ->).
  assert (NL' : NoDup (L1 ++ L2)) by (apply NoDup_remove_1 in NL; exact NL).
  assert (Hin' : forall v, In v V -> In v (L1 ++ L2)).
  { intros v Hv. specialize (Hin v (or_intror Hv)). apply in_app_or in Hin. apply in_or_app.
    destruct Hin as [H|[H|H]]; auto. subst. contradiction. }
  specialize (IH _ NV' NL' Hin'). rewrite stake_sum_app in *. rewrite !stake_sum_cons. lia.
Qed.

Lemma is_quorum_mono e a b : a <= b -> is_quorum e a = true -> is_quorum e b = true.
Proof. unfold is_quorum, is_met. intros H Q. apply N.leb_le in Q. apply N.leb_le. nia. Qed.
Lemma is_strong_quorum_mono e a b : a <= b -> is_strong_quorum e a = true -> is_strong_quorum e b = true.
Proof. unfold is_strong_quorum, is_met. intros H Q. apply N.leb_le in Q. apply N.leb_le. nia. Qed.

Lemma delivered_votes_stored : forall e V s h ops p,
  0 < total_stake e -> pool_inv e p ->
  (forall v, In v V -> clean_for (p_ss p s) v h) -> Forall (harmless V s h) ops ->
  s < finalized_slot p + 2 * SLOTS_PER_EPOCH ->
  p_panicked (pool_run e p ops) = false -> first_unpruned (pool_run e p ops) <= s ->
  forall v, In v V -> stored (p_ss p s) v (KNotar h) \/ In (OpVote (mkVote s (KNotar h) v)) ops ->
  stored (p_ss (pool_run e p ops) s) v (KNotar h).
Proof.
  intros e V s h ops. induction ops as [|op l IH]; intros p Ht I Hc Hh Hub Hp Hlb v Hv Hs; cbn [pool_run] in *.
  - destruct Hs as [Hs|[]]. exact Hs.
  - set (p1 := fst (fst (pool_step e p op))) in *.
    assert (Hp1 : p_panicked p1 = false).
    { destruct (p_panicked p1) eqn:E; [|reflexivity]. rewrite (panicked_sticky e l _ E) in Hp. discriminate. }
    destruct (pool_step_inv e p op Ht I Hp1) as [I1 [[M1 M2] G1]]. fold p1 in I1, M1, M2, G1.
    destruct (pool_run_inv e l p1 Ht I1 Hp) as [_ [[Mr _] _]].
    assert (Hfu1 : first_unpruned p1 <= s) by (unfold first_unpruned in *; lia).
    inversion Hh as [|? ? Hop Hl]; subst.
    apply (IH p1); auto.
    + intros u Hu. apply (clean_step e p op V s h u); auto.
    + unfold finalized_slot in *. lia.
    + destruct Hs as [Hs|[->|Hs]].
      * left. destruct (G1 s) as [[A _]|L]; [apply A; exact Hs | lia].
      * left. assert (OB : out_of_bounds p s = false).
        { unfold out_of_bounds. apply orb_false_intro; [apply N.ltb_ge; unfold first_unpruned in *; lia | apply N.leb_gt; exact Hub]. }
        destruct (vote_lands e p s h v (Hc v Hv) OB Hp1) as [A|L]; [exact A | fold p1 in L; lia].
      * right. exact Hs.
Qed.

(* P4: if the notarization votes for block h of slot s of a set V of validators holding a quorum (resp. a strong
   quorum) of the stake are all delivered to a pool - in any order, interleaved with anything that is not a
   conflicting vote of theirs -, and the slot has not fallen below the watermark, then the pool holds a
   notarization certificate (resp. also a fast-finalization certificate) for the slot. *)
Theorem quorum_of_votes_delivered : forall e V s h ops p,
  0 < total_stake e -> pool_inv e p ->
  NoDup V -> (forall v, In v V -> v < nvals e) ->
  (forall v, In v V -> clean_for (p_ss p s) v h) -> Forall (harmless V s h) ops ->
  (forall v, In v V -> In (OpVote (mkVote s (KNotar h) v)) ops) ->
  s < finalized_slot p + 2 * SLOTS_PER_EPOCH ->
  let p' := pool_run e p ops in
  p_panicked p' = false -> first_unpruned p' <= s ->
  (is_quorum e (stake_sum e V) = true -> ce_notar (ss_c (p_ss p' s)) <> None) /\
  (is_strong_quorum e (stake_sum e V) = true -> ce_ff (ss_c (p_ss p' s)) <> None).
Proof.
  intros e V s h ops p Ht I NV Hval Hc Hh Hdel Hub. cbv zeta. intros Hp Hlb.
  assert (St : forall v, In v V -> stored (p_ss (pool_run e p ops) s) v (KNotar h)).
  { intros v Hv. apply (delivered_votes_stored e V s h ops p); auto. }
  destruct (pool_run_inv e ops p Ht I Hp) as [I' _].
  destruct (I' s) as ((T1 & _) & _ & (D1 & D2 & _)).
  assert (Le : stake_sum e V <= aget 0 h (st_notar (ss_t (p_ss (pool_run e p ops) s)))).
  { rewrite T1. apply stake_sum_incl; [exact NV | apply NoDup_filter; apply nodup_vals|].
    intros v Hv. apply filter_In. split; [apply in_vals; apply Hval; exact Hv|].
    specialize (St v Hv). cbn [stored] in St. rewrite St. apply N.eqb_refl. }
  split; intros Q.
  - apply (D1 h). apply (is_quorum_mono e _ _ Le Q).
  - apply (D2 h). apply (is_strong_quorum_mono e _ _ Le Q).
Qed.

(* a fast-finalization certificate entering the pool for a slot that is not decided yet makes that slot
   the pool's finalized slot (or a later one stays) *)
Theorem fast_final_cert_finalizes : forall e p c h p' o,
  add_valid_cert e p c = Some (p', o) -> c_kind c = CFastFinal h -> first_unpruned p <= c_slot c ->
  (forall h', alookup (c_slot c) (ft_status (p_ft p)) <> Some (FFinalized h')) ->
  (forall h', alookup (c_slot c) (ft_status (p_ft p)) <> Some (FImplFinalized h')) ->
  c_slot c <= finalized_slot p'.
Proof.
  intros e p c h p' o H K Hf N1 N2. unfold add_valid_cert in H. rewrite K in H.
  cbn [p_ft p_set_ss] in H.
  destruct (ft_mark_fast_finalized (p_ft p) (c_slot c, h)) as [[t ev]|] eqn:MF; [|discriminate].
  pose proof (ft_mark_fast_finalized_advances _ _ _ _ MF Hf N1 N2) as Adv. cbn [fst] in Adv.
  destruct (pool_handle_finalization _ ev) as [[p1 o1]|] eqn:HF; [|discriminate].
  destruct (notify_waiting_children e p1 (c_slot c, h)) as [[p2 o2]|] eqn:NW; [|discriminate].
  injection H as <- _.
  pose proof (handle_finalization_ext _ _ _ _ HF) as [[_ M1] _].
  pose proof (notify_waiting_ext _ _ _ _ _ NW) as [[_ M2] _].
  unfold finalized_slot. cbn [p_ft pool_with_ft] in M1. lia.
Qed.

(* ================= a completeness gap of the faithful model (defect of the current tree) =================
   Pool::add_block only treats a parent as certified when the parent's slot state holds a notarization,
   notar-fallback or fast-finalization certificate.  The genesis block has no certificate (it is notarized
   by definition; ParentReadyTracker special-cases it, this path does not), so a block whose parent is the
   genesis block waits in s2n_waiting_parent_cert forever and SafeToNotar is never raised for it, whatever the
   votes.  Witness: five equal validators, own = 4; block (1, 11) on genesis is registered, validators 0 and 1
   (40 %) notarize it, validators 3 and 4 (own) skip: every protocol condition of SafeToNotar(1, 11) holds at
   validator 4, no event is emitted, the slot can get neither a notarization (40 % + 20 % still to come at most
   60 % only with the missing validator) nor - without the fallback votes - a notar-fallback certificate. *)
Fixpoint pool_run_events (e : epoch) (p : pool) (ops : list pool_op) : pool * list pevent :=
  match ops with
  | [] => (p, [])
  | op :: rest => let '(p1, _, o) := pool_step e p op in
                  let '(p2, evs) := pool_run_events e p1 rest in (p2, po_events o ++ evs)
  end.

Lemma pinned_genesis_child_safe_to_notar_refuted :
  let e := mkEpoch [1; 1; 1; 1; 1] 4 in
  let p0 := fst (fst (pool_add_block_gen false e pool_init (1, 11) (0, 0))) in
  let ops := [OpVote (mkVote 1 (KNotar 11) 0); OpVote (mkVote 1 (KNotar 11) 1);
              OpVote (mkVote 1 KSkip 4); OpVote (mkVote 1 KSkip 3)] in
  let p := fst (pool_run_events e p0 ops) in
  let evs := snd (pool_run_events e p0 ops) in
  (* the protocol's conditions for SafeToNotar(1, 11) at validator 4 ... *)
  is_weak_quorum e (stake_sum e (notar_voters e (p_ss p 1) 11)) = true /\
  memN 4 (vo_skip (ss_v (p_ss p 1))) = true /\
  alookup 11 (pa_status (ss_n (p_ss p 1))) = Some false /\          (* block known, parent (genesis) "not certified" *)
  (* ... hold, yet no event was emitted and the block waits for a certificate of the genesis block *)
  existsb (fun ev => match ev with ESafeToNotar _ => true | _ => false end) evs = false /\
  p_waiting p = [((0, 0), (1, 11))] /\ p_panicked p = false.
Proof. vm_compute. repeat split; reflexivity. Qed.

(* the current tree ("fix: treat the genesis block as a certified parent for safe-to-notar") raises the event *)
Lemma genesis_child_safe_to_notar_now :
  let e := mkEpoch [1; 1; 1; 1; 1] 4 in
  let ops := [OpBlock (1, 11) (0, 0); OpVote (mkVote 1 (KNotar 11) 0); OpVote (mkVote 1 (KNotar 11) 1);
              OpVote (mkVote 1 KSkip 4); OpVote (mkVote 1 KSkip 3)] in
  let evs := snd (pool_run_events e pool_init ops) in
  existsb (fun ev => match ev with ESafeToNotar b => bid_eqb b (1, 11) | _ => false end) evs = true.
Proof. vm_compute. reflexivity. Qed.
