(* C10: what the pool model (Model/Pool.v) hands to Votor and what the other components hand to the pool.
   - every ParentReady event the pool ever emits is for the first slot of a window (so Votor's
     set_timeouts assertion is unreachable: Proofs/NoPanicVotor.v);
   - a message refused at the door (out of bounds / duplicate / slashable) changes nothing and never panics;
   - add_block's assert!(block_id.0 > parent_id.0) is the only panic a block registration can add to those
     of the trackers, and it is excluded for every block the blockstore or the repair announces. *)
From Coq Require Import List NArith ZArith Bool Lia ZifyBool ZifyN.
From AG Require Import Gen.Params Model.Pool Model.Blockstore Model.Repair Model.Votor
     Proofs.SlotStateProofs Proofs.NoPanicBlockstore Proofs.NoPanicRepair Proofs.NoPanicVotor.
Import ListNotations.
Open Scope N_scope.

Definition not_pr (ev : pevent) : Prop := match ev with EParentReady _ _ => False | _ => True end.
Definition ev_ok (ev : pevent) : Prop := match ev with EParentReady s _ => is_window_start s = true | _ => True end.
Definition pr_ok (sp : slot * blockid) : Prop := is_window_start (fst sp) = true.

Lemma not_pr_ok l : Forall not_pr l -> Forall ev_ok l.
Proof. apply Forall_impl. intros [] H; cbn in *; auto; contradiction. Qed.
Lemma pr_events_ok l : Forall pr_ok l -> Forall ev_ok (pr_events l).
Proof. intros H. unfold pr_events. apply Forall_map. eapply Forall_impl; [|exact H]. intros [s p] Hs. exact Hs. Qed.

(* ---------------- parent-ready tracker ---------------- *)
Lemma add_to_ready_wk t s id t' w : pr_add_to_ready t s id = Some (t', w) -> Forall not_pr w.
Proof.
  unfold pr_add_to_ready. destruct (pr_ready (pt_get t s)).
  - destruct (existsb _ _); [discriminate|]. intros H; injection H as _ <-. constructor.
  - intros H; injection H as _ <-. destruct (pr_waiting _); repeat constructor.
Qed.

Lemma parents_fold_ok s : is_window_start s = true -> forall parents t acc wk t' acc' wk',
  fold_left (fun (r : ptres) p =>
               match r with
               | None => None
               | Some (t', acc', wk') =>
                 match pr_add_to_ready t' s p with
                 | None => None
                 | Some (t'', w) => Some (t'', acc' ++ [(s, p)], wk' ++ w)
                 end
               end) parents (Some (t, acc, wk)) = Some (t', acc', wk') ->
  Forall pr_ok acc -> Forall not_pr wk -> Forall pr_ok acc' /\ Forall not_pr wk'.
Proof.
  intros Hs. induction parents as [|p ps IH]; intros t acc wk t' acc' wk' H Ha Hw; cbn [fold_left] in H.
  - injection H as _ <- <-. auto.
  - destruct (pr_add_to_ready t s p) as [[t1 w]|] eqn:E.
    + eapply IH; [exact H| |].
      * apply Forall_app. split; [exact Ha|]. constructor; [exact Hs|constructor].
      * apply Forall_app. split; [exact Hw|]. eapply add_to_ready_wk, E.
    + exfalso. clear -H. induction ps as [|q qs IHq]; cbn [fold_left] in H; [discriminate|auto].
Qed.

Lemma propagate_ok : forall fuel t s parents acc wk t' acc' wk',
  pt_propagate fuel t s parents acc wk = Some (t', acc', wk') ->
  Forall pr_ok acc -> Forall not_pr wk -> Forall pr_ok acc' /\ Forall not_pr wk'.
Proof.
  induction fuel as [|f IH]; intros t s parents acc wk t' acc' wk' H Ha Hw; cbn [pt_propagate] in H; [discriminate|].
  destruct (is_window_start s) eqn:Ws.
  - match type of H with context [fold_left ?fn parents ?init] => destruct (fold_left fn parents init) as [[[t1 acc1] wk1]|] eqn:Ef end; [|discriminate].
    destruct (parents_fold_ok s Ws parents t acc wk t1 acc1 wk1 Ef Ha Hw) as [A1 W1].
    destruct (pr_skip (pt_get t1 s)); [eapply IH; eassumption|]. injection H as _ <- <-. auto.
  - destruct (pr_skip (pt_get t s)); [eapply IH; eassumption|]. injection H as _ <- <-. auto.
Qed.

Lemma mark_nf_ok t id t' prs wk : pt_mark_notar_fallback t id = Some (t', prs, wk) -> Forall pr_ok prs /\ Forall not_pr wk.
Proof.
  unfold pt_mark_notar_fallback. destruct id as [s h]. destruct (s <? pt_root t); [intros H; injection H as _ <- <-; auto|].
  destruct (memN h _); [intros H; injection H as _ <- <-; auto|].
  intros H. eapply propagate_ok; [exact H|constructor|constructor].
Qed.
Lemma mark_skipped_ok t s t' prs wk : pt_mark_skipped t s = Some (t', prs, wk) -> Forall pr_ok prs /\ Forall not_pr wk.
Proof.
  unfold pt_mark_skipped. destruct (s <? pt_root t); [intros H; injection H as _ <- <-; auto|].
  destruct (pr_skip _); [intros H; injection H as _ <- <-; auto|].
  intros H. eapply propagate_ok; [exact H|constructor|constructor].
Qed.

Definition ptres_ok (r : ptres) : Prop :=
  match r with None => True | Some (_, acc, wk) => Forall pr_ok acc /\ Forall not_pr wk end.
Lemma step_ok' (r : ptres) (f : prtracker -> ptres) : ptres_ok r -> (forall t, ptres_ok (f t)) ->
  ptres_ok (match r with
            | None => None
            | Some (t', acc, wk) => match f t' with None => None | Some (t'', a, w) => Some (t'', acc ++ a, wk ++ w) end
            end).
Proof.
  intros Hr Hf. destruct r as [[[t' acc] wk]|]; [|exact I]. specialize (Hf t'). destruct (f t') as [[[t'' a] w]|]; [|exact I].
  cbn in *. destruct Hr, Hf. split; apply Forall_app; auto.
Qed.
Lemma mark_nf_res_ok t id : ptres_ok (pt_mark_notar_fallback t id).
Proof. destruct (pt_mark_notar_fallback t id) as [[[t' a] w]|] eqn:E; [eapply mark_nf_ok, E|exact I]. Qed.
Lemma mark_skipped_res_ok t s : ptres_ok (pt_mark_skipped t s).
Proof. destruct (pt_mark_skipped t s) as [[[t' a] w]|] eqn:E; [eapply mark_skipped_ok, E|exact I]. Qed.

Lemma best_in (acc : list (slot * blockid)) : forall b0,
  let best := fold_left (fun (b : option (slot * blockid)) x =>
                           match b with None => Some x | Some y => if fst y <=? fst x then Some x else Some y end) acc b0 in
  match best with Some x => In x acc \/ b0 = Some x | None => b0 = None /\ acc = [] end.
Proof.
  induction acc as [|a l IH]; intros b0; cbn [fold_left].
  - destruct b0; auto.
  - match goal with |- context [fold_left ?f l ?b1] => specialize (IH b1); cbv zeta in IH; destruct (fold_left f l b1) as [x|] end.
    + destruct IH as [H|H]; [left; right; exact H|]. destruct b0 as [y|].
      * match type of H with context [if ?c then _ else _] => destruct c end; injection H as <-; [left; left; reflexivity|right; reflexivity].
      * injection H as <-. left; left; reflexivity.
    + destruct IH as [H _]. destruct b0 as [y|]; [match type of H with context [if ?c then _ else _] => destruct c end; discriminate|discriminate].
Qed.

Definition hf_step_placeholder := tt.
Definition hf_step (r : ptres) (f : prtracker -> ptres) : ptres :=
  match r with
  | None => None
  | Some (t', acc, wk) => match f t' with None => None | Some (t'', a, w) => Some (t'', acc ++ a, wk ++ w) end
  end.
Lemma step_ok (r : ptres) (f : prtracker -> ptres) : ptres_ok r -> (forall t, ptres_ok (f t)) -> ptres_ok (hf_step r f).
Proof. apply step_ok'. Qed.
Definition hf_core (t : prtracker) (ev : fin_event) : ptres :=
  let r0 : ptres := Some (t, [], []) in
  let r1 := match fe_final ev with Some b => hf_step r0 (fun t' => pt_mark_notar_fallback t' b) | None => r0 end in
  let r2 := fold_left (fun r b => hf_step r (fun t' => pt_mark_notar_fallback t' b)) (fe_impl_final ev) r1 in
  fold_left (fun r s => hf_step r (fun t' => pt_mark_skipped t' s)) (fe_impl_skipped ev) r2.
Definition hf_best (acc : list (slot * blockid)) : list (slot * blockid) :=
  match fold_left (fun (b : option (slot * blockid)) x =>
                     match b with None => Some x | Some y => if fst y <=? fst x then Some x else Some y end) acc None with
  | Some x => [x] | None => [] end.
Lemma hf_unfold t ev : pt_handle_finalization t ev =
  match hf_core t ev with None => None | Some (t', acc, wk) => Some (t', hf_best acc, wk) end.
Proof. reflexivity. Qed.

Lemma hf_core_ok t ev : ptres_ok (hf_core t ev).
Proof.
  unfold hf_core. cbv zeta.
  assert (H0 : ptres_ok (Some (t, [], []))) by (cbn; auto).
  assert (H1 : ptres_ok (match fe_final ev with Some b => hf_step (Some (t, [], [])) (fun t' => pt_mark_notar_fallback t' b) | None => Some (t, [], []) end)).
  { destruct (fe_final ev); [|exact H0]. apply step_ok; [exact H0|intros; apply mark_nf_res_ok]. }
  assert (H2 : forall l r, ptres_ok r -> ptres_ok (fold_left (fun r b => hf_step r (fun t' => pt_mark_notar_fallback t' b)) l r)).
  { induction l as [|b l IH]; intros r Hr; cbn [fold_left]; [exact Hr|]. apply IH. apply step_ok; [exact Hr|intros; apply mark_nf_res_ok]. }
  assert (H3 : forall l r, ptres_ok r -> ptres_ok (fold_left (fun r s => hf_step r (fun t' => pt_mark_skipped t' s)) l r)).
  { induction l as [|b l IH]; intros r Hr; cbn [fold_left]; [exact Hr|]. apply IH. apply step_ok; [exact Hr|intros; apply mark_skipped_res_ok]. }
  apply H3, H2, H1.
Qed.

Lemma handle_finalization_ok t ev t' prs wk :
  pt_handle_finalization t ev = Some (t', prs, wk) -> Forall pr_ok prs /\ Forall not_pr wk.
Proof.
  rewrite hf_unfold. pose proof (hf_core_ok t ev) as H3.
  destruct (hf_core t ev) as [[[t3 acc] wk3]|]; [|discriminate].
  cbn in H3. destruct H3 as [Ha Hw]. intros H. injection H as _ <- <-. split; [|exact Hw].
  unfold hf_best. pose proof (best_in acc None) as Hb. cbv zeta in Hb.
  match goal with |- context [fold_left ?f acc None] => destruct (fold_left f acc None) as [x|] end; [|constructor].
  destruct Hb as [Hin|Hx]; [|discriminate]. constructor; [|constructor]. eapply Forall_forall in Ha; [exact Ha|exact Hin].
Qed.

(* ---------------- slot state: its events are never ParentReady ---------------- *)
Lemma s2n_try_ev e s ss h : Forall not_pr (snd (fst (s2n_try e s ss h))).
Proof.
  unfold s2n_try. destruct (memN h _); [constructor|]. destruct (check_safe_to_notar e ss h) as [ss' st].
  destruct st; cbn; repeat constructor.
Qed.
Lemma s2s_try_ev e s ss ev : Forall not_pr ev -> Forall not_pr (snd (s2s_try e s ss ev)).
Proof. intros H. unfold s2s_try. destruct (safe_to_skip_now e ss); cbn; [apply Forall_app; split; [exact H|repeat constructor]|exact H]. Qed.
Lemma recheck_ev e s : forall hs ss ev rp, Forall not_pr ev -> Forall not_pr (snd (fst (recheck_pending e s ss hs ev rp))).
Proof.
  induction hs as [|h t IH]; intros ss ev rp H; cbn [recheck_pending]; [exact H|].
  destruct (memN h _); [apply IH, H|]. destruct (check_safe_to_notar e ss h) as [ss' st].
  destruct st; apply IH; [apply Forall_app; split; [exact H|repeat constructor]|exact H|exact H].
Qed.

Lemma count_vote_ev b e ss vt : Forall not_pr (o_events (snd (ss_count_vote b e ss vt))).
Proof.
  unfold ss_count_vote. destruct (v_kind vt) as [h|h| | |].
  - assert (H : forall ss0, Forall not_pr (o_events (snd (count_notar_stake e (v_slot vt) ss0 h (stake_of e (v_signer vt)))))).
    { intros ss0. unfold count_notar_stake.
      match goal with |- context [s2n_try e ?s ?ss1 h] => pose proof (s2n_try_ev e s ss1 h) as H1; destruct (s2n_try e s ss1 h) as [[ss2 ev1] rp1] end.
      cbn [fst snd] in H1. pose proof (s2s_try_ev e (v_slot vt) ss2 ev1 H1) as H2. destruct (s2s_try e (v_slot vt) ss2 ev1) as [ss3 ev2]. exact H2. }
    destruct b; [apply H|]. specialize (H ss). destruct (count_notar_stake _ _ _ _ _) as [ss' o]. exact H.
  - destruct b; [cbn; constructor|]. unfold count_nf_stake. cbn. constructor.
  - unfold count_skip_stake.
    match goal with |- context [recheck_pending e ?s ?ss1 ?hs [] []] =>
      pose proof (recheck_ev e s hs ss1 [] [] (Forall_nil _)) as H1; destruct (recheck_pending e s ss1 hs [] []) as [[ss2 ev1] rp1] end.
    cbn [fst snd] in H1. pose proof (s2s_try_ev e (v_slot vt) ss2 ev1 H1) as H2. destruct (s2s_try e (v_slot vt) ss2 ev1) as [ss3 ev2]. exact H2.
  - unfold count_skip_stake.
    match goal with |- context [recheck_pending e ?s ?ss1 ?hs [] []] =>
      pose proof (recheck_ev e s hs ss1 [] [] (Forall_nil _)) as H1; destruct (recheck_pending e s ss1 hs [] []) as [[ss2 ev1] rp1] end.
    cbn [fst snd] in H1. pose proof (s2s_try_ev e (v_slot vt) ss2 ev1 H1) as H2. destruct (s2s_try e (v_slot vt) ss2 ev1) as [ss3 ev2]. exact H2.
  - cbn. constructor.
Qed.
Lemma add_vote_ev b e ss vt : Forall not_pr (o_events (snd (ss_add_vote_gen b e ss vt))).
Proof.
  unfold ss_add_vote_gen. pose proof (count_vote_ev b e ss vt) as H. destruct (ss_count_vote b e ss vt) as [ss1 out]. cbn [snd] in H.
  destruct (v_signer vt =? own e); [|exact H].
  pose proof (recheck_ev e (v_slot vt) (s2n_pending (ss_n ss1)) ss1 (o_events out) (o_repair out) H) as H2.
  destruct (recheck_pending _ _ _ _ _ _) as [[ss2 ev] rp]. exact H2.
Qed.
Lemma certified_ev e s ss h ss' evs rps : notify_parent_certified e s ss h = Some (ss', evs, rps) -> Forall not_pr evs.
Proof.
  unfold notify_parent_certified. destruct (alookup h _); [|discriminate]. intros H.
  match type of H with Some ?x = _ => pose proof (s2n_try_ev e s (set_parents ss (ainsert h true (pa_status (ss_n ss)))) h) as H1 end.
  injection H as H. rewrite H in H1. exact H1.
Qed.

(* ---------------- pool ---------------- *)
Definition pout_ok (o : pout) : Prop := Forall ev_ok (po_events o).
Lemma pout_app a b : pout_ok a -> pout_ok b -> pout_ok (po_app a b).
Proof. intros Ha Hb. unfold pout_ok, po_app. cbn. apply Forall_app. auto. Qed.
Lemma pout_empty : pout_ok po_empty. Proof. constructor. Qed.

Lemma pool_hf_ok p ev p' o : pool_handle_finalization p ev = Some (p', o) -> pout_ok o.
Proof.
  unfold pool_handle_finalization. destruct (pt_handle_finalization (p_prt p) ev) as [[[t prs] wk]|] eqn:E; [|discriminate].
  intros H. injection H as _ <-. apply handle_finalization_ok in E. destruct E as [A W].
  unfold pout_ok. cbn. apply Forall_app. split; [apply not_pr_ok, W|apply pr_events_ok, A].
Qed.

Lemma notify_children_ok sk e : forall children p acc p' o,
  notify_children_gen sk e p children acc = Some (p', o) -> pout_ok acc -> pout_ok o.
Proof.
  induction children as [|[cs ch] rest IH]; intros p acc p' o H Ha; cbn [notify_children_gen] in H.
  - injection H as _ <-. exact Ha.
  - destruct (sk && (cs <? first_unpruned p)); [exact (IH _ _ _ _ H Ha)|].
    destruct (notify_parent_certified e cs (p_ss (p_touch p cs) cs) ch) as [[[ss' evs] rps]|] eqn:E; [|discriminate].
    eapply IH; [exact H|]. apply pout_app; [exact Ha|]. unfold pout_ok. cbn. apply not_pr_ok. eapply certified_ev, E.
Qed.
Lemma notify_waiting_ok e p b p' o : notify_waiting_children e p b = Some (p', o) -> pout_ok o.
Proof. unfold notify_waiting_children, notify_waiting_children_gen. intros H. eapply notify_children_ok; [exact H|apply pout_empty]. Qed.

Lemma cert_created_ok c : pout_ok (mkPO [ECertCreated c] []).
Proof. repeat constructor. Qed.

Lemma add_valid_cert_ok e p c p' o : add_valid_cert e p c = Some (p', o) -> pout_ok o.
Proof.
  unfold add_valid_cert.
  set (p0 := p_set_ss p (c_slot c) (ss_add_cert (p_ss p (c_slot c)) c)).
  assert (Hfin : forall r, (forall q oq, r = Some (q, oq) -> pout_ok oq) ->
            match r with None => None | Some (p', o) => Some (p', po_app o (mkPO [ECertCreated c] [])) end = Some (p', o) -> pout_ok o).
  { intros r Hr H. destruct r as [[q oq]|]; [|discriminate]. injection H as _ <-. apply pout_app; [eapply Hr; reflexivity|apply cert_created_ok]. }
  assert (Hwp : forall (t : prtracker) prs wk, Forall pr_ok prs -> Forall not_pr wk -> forall rp, pout_ok (mkPO (wk ++ pr_events prs) rp)).
  { intros t prs wk A W rp. unfold pout_ok. cbn. apply Forall_app. split; [apply not_pr_ok, W|apply pr_events_ok, A]. }
  destruct (c_kind c) as [h|h| |h|] eqn:Ek.
  - (* Notar *)
    destruct (ft_mark_notarized (p_ft p0) (c_slot c, h)) as [[t ev]|]; [|discriminate].
    destruct (pool_handle_finalization (pool_with_ft p0 t) ev) as [[p1 o1]|] eqn:E1; [|discriminate].
    destruct (notify_waiting_children e p1 (c_slot c, h)) as [[p2 o2]|] eqn:E2; [|discriminate].
    destruct (pt_mark_notar_fallback (p_prt p2) (c_slot c, h)) as [[[t3 prs] wk]|] eqn:E3; [|discriminate].
    intros HH; injection HH as _ <-; apply pout_app; [|apply cert_created_ok]. apply mark_nf_ok in E3. destruct E3 as [A W].
    apply pout_app; [apply pout_app; [eapply pool_hf_ok, E1|eapply notify_waiting_ok, E2]|apply (Hwp t3); assumption].
  - (* NotarFallback *)
    destruct (notify_waiting_children e p0 (c_slot c, h)) as [[p2 o2]|] eqn:E2; [|discriminate].
    destruct (pt_mark_notar_fallback (p_prt p2) (c_slot c, h)) as [[[t3 prs] wk]|] eqn:E3; [|discriminate].
    intros HH; injection HH as _ <-; apply pout_app; [|apply cert_created_ok]. apply mark_nf_ok in E3. destruct E3 as [A W].
    apply pout_app; [apply pout_app; [apply pout_empty|eapply notify_waiting_ok, E2]|apply (Hwp t3); assumption].
  - destruct (pt_mark_skipped (p_prt p0) (c_slot c)) as [[[t3 prs] wk]|] eqn:E3; [|discriminate].
    intros HH; injection HH as _ <-; apply pout_app; [|apply cert_created_ok]. apply mark_skipped_ok in E3. destruct E3 as [A W]. apply (Hwp t3); assumption.
  - destruct (ft_mark_fast_finalized (p_ft p0) (c_slot c, h)) as [[t ev]|]; [|discriminate].
    destruct (pool_handle_finalization (pool_with_ft p0 t) ev) as [[p1 o1]|] eqn:E1; [|discriminate].
    destruct (notify_waiting_children e p1 (c_slot c, h)) as [[p2 o2]|] eqn:E2; [|discriminate].
    intros HH; injection HH as _ <-; apply pout_app; [|apply cert_created_ok]. apply pout_app; [eapply pool_hf_ok, E1|eapply notify_waiting_ok, E2].
  - destruct (ft_mark_finalized (p_ft p0) (c_slot c)) as [[t ev]|]; [|discriminate].
    destruct (pool_handle_finalization (pool_with_ft p0 t) ev) as [[p1 o1]|] eqn:E1; [|discriminate].
    intros HH; injection HH as _ <-; apply pout_app; [|apply cert_created_ok]. eapply pool_hf_ok, E1.
Qed.

Lemma add_certs_ok e : forall cs p acc p' o, add_certs e p cs acc = Some (p', o) -> pout_ok acc -> pout_ok o.
Proof.
  induction cs as [|[c|] t IH]; intros p acc p' o H Ha; cbn [add_certs] in H; [injection H as _ <-; exact Ha| |discriminate].
  destruct (add_valid_cert e p c) as [[p1 o1]|] eqn:E; [|discriminate].
  eapply IH; [exact H|]. apply pout_app; [exact Ha|eapply add_valid_cert_ok, E].
Qed.

(* every ParentReady event the pool emits names the first slot of a window *)
Theorem pool_step_parent_ready_on_window_start : forall e p op,
  Forall ev_ok (po_events (snd (pool_step e p op))).
Proof.
  intros e p op. unfold pool_step. destruct (p_panicked p); [constructor|].
  destruct op as [v|c|b par| |s|].
  - unfold pool_add_vote, pool_add_vote_gen. destruct (out_of_bounds p (v_slot v)); [constructor|].
    destruct (check_slashable _ v); [constructor|]. destruct (should_ignore _ v); [constructor|].
    pose proof (add_vote_ev true e (p_ss (p_touch p (v_slot v)) (v_slot v)) v) as Hev.
    destruct (ss_add_vote_gen true e _ v) as [ss' out]. cbn [snd] in Hev.
    destruct (add_certs e _ (o_certs out) po_empty) as [[p2 o]|] eqn:E; [|constructor].
    cbn [snd]. apply pout_app; [eapply add_certs_ok; [exact E|apply pout_empty]|]. unfold pout_ok. cbn. apply not_pr_ok, Hev.
  - unfold pool_add_cert. destruct (out_of_bounds p (c_slot c)); [constructor|].
    destruct (cert_duplicate _ c); [constructor|].
    destruct (add_valid_cert e _ c) as [[p1 o]|] eqn:E; [|constructor]. eapply add_valid_cert_ok, E.
  - unfold pool_add_block, pool_add_block_gen. destruct (negb (fst par <? fst b)); [constructor|].
    destruct (fst b <? first_unpruned p); [constructor|].
    destruct (ft_add_parent (p_ft p) b par) as [[t ev]|]; [|constructor].
    destruct (pool_handle_finalization (pool_with_ft p t) ev) as [[p1 o1]|] eqn:E1; [|constructor].
    pose proof (pool_hf_ok _ _ _ _ E1) as H1.
    destruct (fst b <? first_unpruned p1); [exact H1|].
    match goal with |- context [if ?c then _ else _] => destruct c end; [|exact H1].
    match goal with |- context [notify_parent_certified e ?s ?ss ?h] => destruct (notify_parent_certified e s ss h) as [[[ss' evs] rps]|] eqn:E2 end; [|constructor].
    destruct evs as [|ev0 evs]; [destruct rps; [exact H1|]|].
    + cbn [snd]. apply pout_app; [exact H1|constructor].
    + cbn [snd]. apply pout_app; [exact H1|]. unfold pout_ok. cbn [po_events]. apply not_pr_ok. eapply certified_ev, E2.
  - unfold pool_standstill, pool_standstill_gen. destruct (get_final_certs p (finalized_slot p)).
    + destruct (true && (finalized_slot p =? 0)); cbn; repeat constructor.
    + cbn. repeat constructor.
  - unfold pool_wait. destruct (pt_wait (p_prt p) s) as [[t r]|]; constructor.
  - constructor.
Qed.

(* ---------------- refusals leave the pool alone ---------------- *)
Theorem pool_out_of_bounds_vote_harmless : forall e p v, p_panicked p = false -> out_of_bounds p (v_slot v) = true ->
  pool_step e p (OpVote v) = (p, RVerdict VOutOfBounds, po_empty).
Proof. intros e p v Hp H. unfold pool_step, pool_add_vote, pool_add_vote_gen. rewrite Hp, H. reflexivity. Qed.
Theorem pool_out_of_bounds_cert_harmless : forall e p c, p_panicked p = false -> out_of_bounds p (c_slot c) = true ->
  pool_step e p (OpCert c) = (p, RVerdict VOutOfBounds, po_empty).
Proof. intros e p c Hp H. unfold pool_step, pool_add_cert. rewrite Hp, H. reflexivity. Qed.
(* duplicates, slashable votes: only the (empty) per-slot entry may have been created; no event, no panic *)
Theorem pool_refused_vote_harmless : forall e p v, p_panicked p = false -> out_of_bounds p (v_slot v) = false ->
  (check_slashable (p_ss (p_touch p (v_slot v)) (v_slot v)) v <> None \/ should_ignore (p_ss (p_touch p (v_slot v)) (v_slot v)) v = true) ->
  exists r, pool_step e p (OpVote v) = (p_touch p (v_slot v), RVerdict r, po_empty) /\ r <> VOk.
Proof.
  intros e p v Hp H Hr. unfold pool_step, pool_add_vote, pool_add_vote_gen. rewrite Hp, H.
  destruct (check_slashable _ v) as [o|]; [eexists; split; [reflexivity|discriminate]|].
  destruct Hr as [Hr|Hr]; [congruence|]. rewrite Hr. eexists; split; [reflexivity|discriminate].
Qed.
Theorem pool_duplicate_cert_harmless : forall e p c, p_panicked p = false -> out_of_bounds p (c_slot c) = false ->
  cert_duplicate (p_ss (p_touch p (c_slot c)) (c_slot c)) c = true ->
  pool_step e p (OpCert c) = (p_touch p (c_slot c), RVerdict VDuplicate, po_empty).
Proof. intros e p c Hp H Hd. unfold pool_step, pool_add_cert. rewrite Hp, H, Hd. reflexivity. Qed.

(* ---------------- the interfaces into add_block ---------------- *)
(* add_block's own assertion fires exactly when the parent is not in an earlier slot ... *)
Theorem pool_add_block_assert_iff : forall e p b par, p_panicked p = false ->
  (fst b <= fst par -> snd (fst (pool_step e p (OpBlock b par))) = RPanic).
Proof.
  intros e p b par Hp H. unfold pool_step, pool_add_block, pool_add_block_gen. rewrite Hp.
  match goal with |- context [negb ?c] => replace c with false by (symmetry; apply N.ltb_ge; exact H) end. reflexivity.
Qed.
(* ... which no block announced by the blockstore (dissemination or repair) can do *)
Theorem blockstore_blocks_pass_add_block_assert : forall ct slot sd op sd' h par evs,
  net_op op = true -> bs_step true ct slot sd op = (sd', BROk (Some (h, par)), evs) ->
  forall hid : hash, negb (fst par <? fst (slot, hid)) = false.
Proof.
  intros ct slot sd op sd' h par evs Hn H hid. cbn [fst].
  pose proof (bs_step_block_parent_earlier ct slot sd op sd' h par evs Hn H). lia.
Qed.

(* ---------------- Pool -> Votor: Votor never panics on what a pool emits ---------------- *)
Lemma ev_ok_votor (evs : list pevent) : Forall ev_ok evs -> forallb parent_ready_on_window_start (map VPool evs) = true.
Proof.
  induction 1 as [|ev l H _ IH]; [reflexivity|]. cbn [map forallb]. rewrite IH, andb_true_r.
  destruct ev; cbn in *; auto.
Qed.

(* any interleaving of (a) events emitted by any pool run, (b) arbitrary blockstore events and timeouts *)
Inductive node_input (e : epoch) : list vin -> Prop :=
| ni_nil : node_input e []
| ni_pool : forall p op l, node_input e l -> node_input e (l ++ map VPool (po_events (snd (pool_step e p op))))
| ni_other : forall i l, node_input e l -> (forall ev, i <> VPool ev) -> node_input e (l ++ [i]).

Theorem votor_never_panics_on_pool_output : forall e own ins, node_input e ins ->
  vt_panicked (votor_run own ins) = false.
Proof.
  intros e own ins H. apply votor_never_panics. induction H as [|p op l _ IH|i l _ IH Hi].
  - reflexivity.
  - rewrite forallb_app, IH. cbn [andb]. apply ev_ok_votor, pool_step_parent_ready_on_window_start.
  - rewrite forallb_app, IH. cbn. rewrite andb_true_r. destruct i as [ev| | | | |]; try reflexivity. exfalso. eapply Hi; reflexivity.
Qed.
