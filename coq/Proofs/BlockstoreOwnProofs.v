(* C13: the leader's own fast path (add_own_slice for every slice of an honest block, in order) stores the
   same block, with the same shreds, as a follower reconstructs from dissemination. *)
From Coq Require Import List NArith Bool Arith Lia ZifyBool ZifyNat ZifyN.
From AG Require Import Gen.Params Model.Pool Model.Blockstore Model.BlockstoreSpec Proofs.SlotStateProofs
  Proofs.BlockstoreOrderProofs.
Import ListNotations.
Open Scope N_scope.

Lemma seqN_snoc lo n : seqN lo (S n) = seqN lo n ++ [lo + N.of_nat n].
Proof. unfold seqN. rewrite seq_S, map_app. reflexivity. Qed.
Lemma ainsert_length_new {V} k (v : V) m : alookup k m = None -> length (ainsert k v m) = S (length m).
Proof.
  intros H. rewrite <- (map_length fst), ainsert_keys_new by exact H. rewrite app_length, map_length. cbn [length]. lia.
Qed.
Lemma ops_run_snoc ct slot ops op :
  bs_ops_run ct slot (ops ++ [op]) = bs_ops_step ct slot (bs_ops_run ct slot ops) op.
Proof. unfold bs_ops_run. rewrite fold_left_app. reflexivity. Qed.

Section Own.
Variables (slot : N) (ct : content) (hb : hblock).
Hypothesis Hok : hb_ok slot ct hb = true.
Let K := hb_len hb.

Definition own_op (i : N) : bs_op := BOwnSlice i (hb_is_last hb i) (hb_root hb i) (hb_size hb i).

(* the state after the first j own slices, j < K *)
Definition OwnInv (j : N) (sd : slotdata) : Prop :=
  let d := sd_dissem sd in
  sd_panicked sd = false /\ sd_misbehaved sd = false /\
  bd_last d = None /\ bd_completed d = None /\
  (forall k, In k (map fst (bd_shreds d)) -> k < j) /\
  (bd_shreds d = [] <-> j = 0) /\
  (forall i, i < j -> aget [] i (bd_shreds d) = full_slice hb i) /\
  NoDup (map fst (bd_slices d)) /\ N.of_nat (length (bd_slices d)) = j /\
  (forall i, alookup i (bd_slices d) = if i <? j then Some (hb_rslice ct hb i) else None).

Lemma own_inv_empty : OwnInv 0 sd_empty.
Proof.
  unfold OwnInv, sd_empty, bd_empty.
  cbn [sd_dissem sd_panicked sd_misbehaved bd_last bd_completed bd_shreds bd_slices map length N.of_nat].
  split; [reflexivity|]. split; [reflexivity|]. split; [reflexivity|]. split; [reflexivity|].
  split; [intros k []|]. split; [split; reflexivity|]. split; [intros i Hi; lia|]. split; [constructor|].
  split; [reflexivity|]. intros i. cbn [alookup]. replace (i <? 0) with false by lia. reflexivity.
Qed.

Lemma own_step j sd : OwnInv j sd -> j < K ->
  exists sd' r ev, bs_step true ct slot sd (own_op j) = (sd', r, ev) /\
    sd_panicked sd' = false /\ sd_misbehaved sd' = false /\
    (forall i, i < j + 1 -> aget [] i (bd_shreds (sd_dissem sd')) = full_slice hb i) /\
    (j <> K - 1 -> OwnInv (j + 1) sd' /\ r = BROk None /\ ev = (if j =? 0 then [BFirstShred] else [])) /\
    (j = K - 1 -> exists parent, hb_parent ct hb = Some parent /\
       r = BROk (Some (hb_hash hb, parent)) /\
       ev = (if j =? 0 then [BFirstShred] else []) ++ [BBlock (hb_hash hb) parent] /\
       bd_completed (sd_dissem sd') = Some (hb_hash hb, parent)).
Proof.
  subst K. intros [Hp [Hm [Hl [Hc [Hk [Hnil [Hsh [Hnd [Hlen Hlk]]]]]]]]] Hj.
  unfold bs_step, bs_step_gen, own_op. rewrite Hp. cbn [andb]. rewrite Hl.
  destruct (hb_rslice_ok slot ct hb Hok j Hj) as [p [Hr Hct]]. rewrite Hct.
  assert (Hfirst : match bd_shreds (sd_dissem sd) with [] => true | _ :: _ => false end = (j =? 0)).
  { destruct (bd_shreds (sd_dissem sd)) eqn:E.
    - symmetry. apply N.eqb_eq. apply Hnil. reflexivity.
    - symmetry. apply N.eqb_neq. intros C. apply Hnil in C. discriminate. }
  rewrite Hfirst.
  change (canonical_shreds (mkBS j (hb_is_last hb j) (hb_root hb j) 0 true (hb_size hb j))) with (full_slice hb j).
  rewrite <- Hr.
  (* the state after the commitment and the last-slice marker *)
  set (d1 := mkBD (bd_completed (sd_dissem sd)) (bd_shreds (sd_dissem sd)) (bd_slices (sd_dissem sd))
                  None (ainsert j (hb_is_last hb j, hb_root hb j) (bd_cache (sd_dissem sd)))).
  set (d2 := if hb_is_last hb j then mark_last_slice d1 j else d1).
  assert (Hd2 : bd_completed d2 = None /\ bd_shreds d2 = bd_shreds (sd_dissem sd) /\
                bd_slices d2 = bd_slices (sd_dissem sd) /\
                bd_last d2 = if hb_is_last hb j then Some j else None).
  { unfold d2. destruct (hb_is_last hb j).
    - unfold mark_last_slice, d1. cbn [bd_completed bd_shreds bd_slices bd_last].
      rewrite !filter_all; [auto | |].
      + intros x Hx. assert (In (fst x) (map fst (bd_slices (sd_dissem sd)))) as Hin by (apply in_map; exact Hx).
        apply alookup_in_keys in Hin. rewrite Hlk in Hin. destruct (fst x <? j) eqn:E; [lia | congruence].
      + intros x Hx. pose proof (Hk (fst x) (in_map fst _ _ Hx)). lia.
    - unfold d1. cbn [bd_completed bd_shreds bd_slices bd_last]. auto. }
  destruct Hd2 as [Hc2 [Hs2 [Hsl2 Hl2]]]. rewrite Hc2, Hs2, Hsl2, Hl2.
  assert (Hnone : alookup j (bd_slices (sd_dissem sd)) = None) by (rewrite Hlk; replace (j <? j) with false by lia; reflexivity).
  set (d3 := mkBD None (ainsert j (full_slice hb j) (bd_shreds (sd_dissem sd)))
                  (ainsert j (hb_rslice ct hb j) (bd_slices (sd_dissem sd)))
                  (if hb_is_last hb j then Some j else None) (bd_cache d2)).
  assert (Hsh3 : forall i, i < j + 1 -> aget [] i (bd_shreds d3) = full_slice hb i).
  { intros i Hi. cbn [d3 bd_shreds]. destruct (N.eq_dec i j) as [->|Hne]; [apply aget_ainsert_same'|].
    rewrite aget_ainsert_other' by exact Hne. apply Hsh. lia. }
  assert (Hnd3 : NoDup (map fst (bd_slices d3))).
  { cbn [d3 bd_slices]. rewrite ainsert_keys_new by exact Hnone. apply NoDup_snoc; [exact Hnd | apply alookup_none_keys; exact Hnone]. }
  assert (Hlen3 : N.of_nat (length (bd_slices d3)) = j + 1).
  { cbn [d3 bd_slices]. rewrite ainsert_length_new by exact Hnone. lia. }
  assert (Hlk3 : forall i, alookup i (bd_slices d3) = if i <? j + 1 then Some (hb_rslice ct hb i) else None).
  { intros i. cbn [d3 bd_slices]. destruct (N.eq_dec i j) as [->|Hne].
    - rewrite alookup_ainsert_same. replace (j <? j + 1) with true by lia. reflexivity.
    - rewrite alookup_ainsert_other by exact Hne. rewrite Hlk.
      destruct (i <? j) eqn:A, (i <? j + 1) eqn:B; try reflexivity; lia. }
  pose proof (K_pos slot ct hb Hok) as HK.
  unfold hb_is_last in *.
  destruct (j =? hb_len hb - 1) eqn:Elast.
  - (* the last slice: the block is complete *)
    apply N.eqb_eq in Elast.
    destruct (hb_parent_ok slot ct hb Hok) as [p0 [parent [Hp0 [Hwalk [Hpar Hslot]]]]].
    assert (Hsorted : slices_sorted (bd_slices d3) = hb_slices ct hb).
    { destruct (slices_sorted_spec _ Hnd3) as [S L]. apply ssorted_ext; [exact S | apply (hb_slices_sorted slot ct hb Hok)|].
      intros i. rewrite L, Hlk3, (hb_slices_lookup slot ct hb Hok). replace (j + 1) with (hb_len hb) by lia. reflexivity. }
    assert (H0 : alookup 0 (bd_slices d3) = Some (hb_rslice ct hb 0)).
    { rewrite Hlk3. replace (0 <? j + 1) with true by lia. reflexivity. }
    assert (Hrb : try_reconstruct_block true slot d3 =
              (mkBD (Some (hb_hash hb, parent)) (bd_shreds d3)
                    (filter (fun x => negb (fst x <=? j)) (bd_slices d3)) (bd_last d3) (bd_cache d3),
               RBComplete (hb_hash hb) parent)).
    { rewrite (rec_block_complete slot ct hb Hok slot d3 j (hb_rslice ct hb 0) p0 parent); try assumption; try reflexivity.
      - rewrite Hsorted, (hb_slices_roots slot ct hb Hok). reflexivity.
      - rewrite Hlen3. lia.
      - rewrite Hsorted. exact Hwalk. }
    fold d3. rewrite Hrb. do 3 eexists. split; [reflexivity|]. cbn [sd_panicked sd_misbehaved sd_dissem bd_shreds bd_completed].
    split; [reflexivity|]. split; [exact Hm|]. split; [exact Hsh3|]. split; [intros C; lia|].
    intros _. exists parent. auto.
  - (* not the last slice *)
    apply N.eqb_neq in Elast.
    assert (Hrb : try_reconstruct_block true slot d3 = (d3, RBNoAction)) by (apply rec_block_no_last; reflexivity).
    fold d3. rewrite Hrb. do 3 eexists. split; [reflexivity|]. cbn [sd_panicked sd_misbehaved sd_dissem].
    split; [reflexivity|]. split; [exact Hm|]. split; [exact Hsh3|]. split; [|intros C; lia].
    intros _. split; [|split; [reflexivity | first [reflexivity | rewrite app_nil_r; reflexivity]]].
    unfold OwnInv. cbn [sd_panicked sd_misbehaved sd_dissem].
    split; [reflexivity|]. split; [exact Hm|]. split; [reflexivity|]. split; [reflexivity|]. split; [|split; [|split; [exact Hsh3 | split; [exact Hnd3 | split; [exact Hlen3 | exact Hlk3]]]]].
    + intros k Hin. cbn [d3 bd_shreds] in Hin. apply ainsert_keys_incl in Hin. destruct Hin as [->|Hin]; [lia|].
      pose proof (Hk k Hin). lia.
    + cbn [d3 bd_shreds]. split; [intros C; exfalso; exact (ainsert_not_nil _ _ _ C) | intros C; lia].
Qed.

Lemma own_prefix n : (n < length hb)%nat ->
  exists sd out, bs_ops_run ct slot (map own_op (seqN 0 n)) = (sd, out) /\ OwnInv (N.of_nat n) sd /\
    out_events out = (if (N.of_nat n =? 0) then [] else [BFirstShred]) /\
    forall r ev, In (r, ev) out -> r = BROk None.
Proof.
  induction n as [|n IH]; intros Hn.
  - exists sd_empty, []. split; [reflexivity|]. split; [exact own_inv_empty|]. split; [reflexivity | intros r ev []].
  - destruct IH as [sd [out [E [HI [Hev Hret]]]]]; [lia|].
    rewrite seqN_snoc, map_app. cbn [map]. rewrite ops_run_snoc, E. unfold bs_ops_step. cbn [fst snd].
    replace (0 + N.of_nat n) with (N.of_nat n) by lia.
    assert (Hj : N.of_nat n < K) by (subst K; unfold hb_len; lia).
    destruct (own_step (N.of_nat n) sd HI Hj) as [sd' [r [ev [Es [_ [_ [_ [Hnl _]]]]]]]].
    destruct Hnl as [HI' [-> ->]]; [subst K; unfold hb_len; lia|].
    rewrite Es. exists sd', (out ++ [(BROk None, if N.of_nat n =? 0 then [BFirstShred] else [])]).
    split; [reflexivity|]. split; [replace (N.of_nat (S n)) with (N.of_nat n + 1) by lia; exact HI'|]. split.
    + rewrite out_events_app, Hev. unfold out_events at 1. cbn [flat_map snd]. rewrite app_nil_r.
      replace (N.of_nat (S n) =? 0) with false by lia. destruct (N.of_nat n =? 0); reflexivity.
    + intros r ev Hin. apply in_app_iff in Hin. destruct Hin as [Hin|[Hin|[]]]; [exact (Hret _ _ Hin)|].
      injection Hin as <- _. reflexivity.
Qed.

Lemma own_path : exists sd out parent,
  bs_ops_run ct slot (own_ops hb) = (sd, out) /\ hb_parent ct hb = Some parent /\
  sd_panicked sd = false /\ sd_misbehaved sd = false /\
  bd_completed (sd_dissem sd) = Some (hb_hash hb, parent) /\
  (forall i, i < K -> aget [] i (bd_shreds (sd_dissem sd)) = full_slice hb i) /\
  out_events out = [BFirstShred; BBlock (hb_hash hb) parent] /\
  forall r ev, In (r, ev) out -> exists x, r = BROk x.
Proof.
  pose proof (K_pos slot ct hb Hok) as HK.
  destruct (length hb) as [|n] eqn:El; [unfold hb_len in HK; rewrite El in HK; lia|].
  destruct (own_prefix n) as [sd [out [E [HI [Hev Hret]]]]]; [lia|].
  unfold own_ops. rewrite El.
  change (map (fun i => BOwnSlice i (hb_is_last hb i) (hb_root hb i) (hb_size hb i)) (seqN 0 (S n)))
    with (map own_op (seqN 0 (S n))).
  rewrite seqN_snoc, map_app. cbn [map]. rewrite ops_run_snoc, E. unfold bs_ops_step. cbn [fst snd].
  replace (0 + N.of_nat n) with (N.of_nat n) by lia.
  assert (Hj : N.of_nat n < K) by (subst K; unfold hb_len; lia).
  assert (Hlast : N.of_nat n = K - 1) by (subst K; unfold hb_len; lia).
  destruct (own_step (N.of_nat n) sd HI Hj) as [sd' [r [ev [Es [Hp [Hm [Hsh [_ Hl]]]]]]]].
  destruct (Hl Hlast) as [parent [Hpar [-> [-> Hc]]]]. rewrite Es.
  exists sd', (out ++ [(BROk (Some (hb_hash hb, parent)),
                       (if N.of_nat n =? 0 then [BFirstShred] else []) ++ [BBlock (hb_hash hb) parent])]), parent.
  split; [reflexivity|]. split; [exact Hpar|]. split; [exact Hp|]. split; [exact Hm|]. split; [exact Hc|]. split; [|split].
  - intros i Hi. apply Hsh. lia.
  - rewrite out_events_app, Hev. unfold out_events at 1. cbn [flat_map snd]. rewrite app_nil_r.
    destruct (N.of_nat n =? 0); reflexivity.
  - intros r ev Hin. apply in_app_iff in Hin. destruct Hin as [Hin|[Hin|[]]]; [rewrite (Hret _ _ Hin); eauto|].
    injection Hin as <- _. eauto.
Qed.
End Own.

(* the leader's fast path and a follower's reconstruction agree on the stored block and on every shred *)
Theorem own_path_spec : forall slot ct hb, hb_ok slot ct hb = true ->
  exists parent, hb_parent ct hb = Some parent /\
    sd_panicked (fst (bs_ops_run ct slot (own_ops hb))) = false /\
    sd_misbehaved (fst (bs_ops_run ct slot (own_ops hb))) = false /\
    bd_completed (sd_dissem (fst (bs_ops_run ct slot (own_ops hb)))) = Some (hb_hash hb, parent) /\
    out_events (snd (bs_ops_run ct slot (own_ops hb))) = [BFirstShred; BBlock (hb_hash hb) parent] /\
    (forall r ev, In (r, ev) (snd (bs_ops_run ct slot (own_ops hb))) -> exists x, r = BROk x) /\
    (forall i j, i < hb_len hb -> j < TOTAL_SHREDS ->
       alookup j (aget [] i (bd_shreds (sd_dissem (fst (bs_ops_run ct slot (own_ops hb)))))) = Some (hshred hb i j)).
Proof.
  intros slot ct hb Hok. destruct (own_path slot ct hb Hok) as [sd [out [parent [E [Hpar [Hp [Hm [Hc [Hsh [Hev Hret]]]]]]]]]].
  exists parent. rewrite E. cbn [fst snd]. repeat (split; [assumption|]).
  intros i j Hi Hj. rewrite (Hsh i Hi), (full_slice_lookup slot ct hb Hok). replace (j <? TOTAL_SHREDS) with true by lia. reflexivity.
Qed.

Theorem own_path_equals_follower : forall slot ct hb l,
  hb_ok slot ct hb = true -> forallb (honest_shred hb) l = true -> block_ready hb l = true ->
  bd_completed (sd_dissem (fst (bs_ops_run ct slot (own_ops hb)))) =
    bd_completed (sd_dissem (fst (bs_dissem_run ct slot l))) /\
  forall i j, i < hb_len hb -> j < TOTAL_SHREDS ->
    alookup j (aget [] i (bd_shreds (sd_dissem (fst (bs_ops_run ct slot (own_ops hb)))))) =
    alookup j (aget [] i (bd_shreds (sd_dissem (fst (bs_dissem_run ct slot l))))).
Proof.
  intros slot ct hb l Hok Hl Hr.
  destruct (own_path_spec slot ct hb Hok) as [parent [Hpar [_ [_ [Hc [_ [_ Hsh]]]]]]].
  destruct (dissem_block_once slot ct hb l Hok Hl) as [parent' [Hpar' [_ [_ Hc']]]].
  rewrite Hr in Hc'. split; [rewrite Hc, Hc'; congruence|].
  intros i j Hi Hj. rewrite (Hsh i j Hi Hj).
  symmetry. apply (dissem_shreds_available slot ct hb l i j Hok Hl Hi Hj). left. exact Hr.
Qed.
