(* Concrete histories for C01: the hypotheses of the safety theorems are satisfiable (a finalized block,
   skip certificates, a certified block in the next leader window), and individual clauses of the
   rules are needed (dropping one yields a history that breaks a safety statement). *)
From Coq Require Import List NArith Bool Lia.
From AG Require Import Gen.Params Model.Pool Model.Votor Model.Safety Model.NodeRules
                       Proofs.StakeSets Proofs.SafetyProofs.
Import ListNotations.
Open Scope N_scope.

Ltac reduce_if :=
  match goal with |- context [if ?c then _ else _] => let b := eval vm_compute in c in change c with b; cbv iota end.
Ltac vc := vm_compute; reflexivity.
Ltac byz_vote := let C := fresh in intros C; vm_compute in C; discriminate.

(* six validators of stake 1, validator 5 Byzantine (1/6 < 20 %);
   blocks (1,11) <- (2,21), (1,11) <- (4,41), (1,12) a second block of slot 1 *)
Definition ex_parent (b : blockid) : option blockid :=
  match b with
  | (1, 11) => Some (0, 0) | (1, 12) => Some (0, 0)
  | (2, 21) => Some (1, 11) | (4, 41) => Some (1, 11)
  | _ => None
  end.
Definition exW : world := mkWorld [1; 1; 1; 1; 1; 1] [5] ex_parent.

Lemma exW_ok : world_ok exW.
Proof.
  split; [vc|]. split; [vc|].
  intros [s h] p E. unfold exW, w_parent, ex_parent in E.
  destruct s as [|s]; [discriminate|].
  repeat (destruct s as [s|s|]; try discriminate);
  repeat (destruct h as [|h]; try discriminate; repeat (destruct h as [h|h|]; try discriminate));
  injection E as <-; cbn; lia.
Qed.

(* oldest first: everybody but 5 notarizes (1,11) (5 also votes for (1,12) and skip), 0-3 finalize
   slot 1, skip slots 2 and 3 (time-out), and notarize (4,41) on the ready parent (1,11) *)
Definition ex_votes_oldest_first : list vote :=
  [mkVote 1 (KNotar 11) 0; mkVote 1 (KNotar 11) 1; mkVote 1 (KNotar 11) 2; mkVote 1 (KNotar 11) 3; mkVote 1 (KNotar 11) 4;
   mkVote 1 (KNotar 12) 5; mkVote 1 KSkip 5; mkVote 1 (KNotar 11) 5;
   mkVote 1 KFinal 0; mkVote 1 KFinal 1; mkVote 1 KFinal 2; mkVote 1 KFinal 3;
   mkVote 2 KSkip 0; mkVote 2 KSkip 1; mkVote 2 KSkip 2; mkVote 2 KSkip 3;
   mkVote 3 KSkip 0; mkVote 3 KSkip 1; mkVote 3 KSkip 2; mkVote 3 KSkip 3;
   mkVote 4 (KNotar 41) 0; mkVote 4 (KNotar 41) 1; mkVote 4 (KNotar 41) 2; mkVote 4 (KNotar 41) 3].
Definition ex_hist : list vote := rev ex_votes_oldest_first.

Ltac ex_notar_later h' :=
  intros _; unfold rule_at; cbn [v_slot v_kind v_signer]; split; [reflexivity|]; split; [vc|];
  reduce_if; exists h'; split; [reflexivity|]; first [right; reflexivity | left; vc].
Ltac ex_skip := intros _; unfold rule_at; cbn [v_slot v_kind v_signer]; split; [reflexivity | vc].
Ltac ex_final h :=
  intros _; unfold rule_at; cbn [v_slot v_kind v_signer]; split; [exact I|];
  split; [exists h; split; [left; vc | vc] | split; [vc | split; vc]].

Lemma ex_hist_ok : hist_ok exW ex_hist.
Proof.
  unfold ex_hist, ex_votes_oldest_first. cbn [rev app]. cbn [hist_ok].
  (* notar (4,41) by 3, 2, 1, 0: first slot of its window, parent (1,11) ready *)
  do 4 (split; [
    intros _; unfold rule_at; cbn [v_slot v_kind v_signer]; split; [reflexivity|]; split; [vc|];
    reduce_if; exists (1, 11); split; [reflexivity|];
    split; [cbn; lia|]; split; [left; vc|];
    intros t L1 L2; cbn [fst] in L1; assert (t = 2 \/ t = 3) as [-> | ->] by lia; left; vc |]).
  do 8 (split; [ex_skip|]).
  do 4 (split; [ex_final 11|]).
  split; [byz_vote|]. split; [byz_vote|]. split; [byz_vote|].
  do 5 (split; [ex_notar_later 0|]).
  exact I.
Qed.

(* the hypotheses of T1 - T3 hold together with a (fast and slow) finalized block, skip certificates
   for later slots and a certified block in the next window *)
Theorem safety_nonvacuous :
  world_ok exW /\ hist_ok exW ex_hist /\
  ff_cert exW ex_hist (1, 11) = true /\
  (final_cert exW ex_hist 1 && notar_cert exW ex_hist (1, 11)) = true /\
  finalized exW ex_hist (1, 11) = true /\
  skip_cert exW ex_hist 2 = true /\ skip_cert exW ex_hist 3 = true /\
  nf_cert exW ex_hist (4, 41) = true /\ anc_eq exW (1, 11) (4, 41).
Proof.
  split; [exact exW_ok|]. split; [exact ex_hist_ok|].
  repeat (split; [vc|]).
  eapply ae_step; [reflexivity | apply ae_refl].
Qed.

(* ================= each clause is needed ================= *)
Lemma s2s_from_skip W H s : is_weak_quorum (wep W) (stk W (cast H s KSkip)) = true -> s2s_stake W H s.
Proof.
  intros Q h. eapply weak_mono; [|exact Q]. apply stk_mono. intros u E. rewrite E. reflexivity.
Qed.

Definition g_parent (b : blockid) : option blockid :=
  match b with
  | (1, 11) => Some (0, 0) | (4, 41) => Some (0, 0)
  | (2, 21) => Some (1, 11) | (2, 22) => Some (1, 11)
  | _ => None
  end.
Lemma g_parent_lt : forall b p, g_parent b = Some p -> fst p < fst b.
Proof.
  intros [s h] p E. unfold g_parent in E.
  destruct s as [|s]; [discriminate|].
  repeat (destruct s as [s|s|]; try discriminate);
  repeat (destruct h as [|h]; try discriminate; repeat (destruct h as [h|h|]; try discriminate));
  injection E as <-; cbn; lia.
Qed.
(* ten validators, validator 9 Byzantine (10 % < 20 %) *)
Definition W10 : world := mkWorld [1; 1; 1; 1; 1; 1; 1; 1; 1; 1] [9] g_parent.
(* five validators, nobody Byzantine *)
Definition W5 : world := mkWorld [1; 1; 1; 1; 1] [] g_parent.
Lemma W10_ok : world_ok W10.
Proof. split; [vc|]. split; [vc | exact g_parent_lt]. Qed.
Lemma W5_ok : world_ok W5.
Proof. split; [vc|]. split; [vc | exact g_parent_lt]. Qed.

Ltac nd_notar_later h' :=
  intros _; cbn [rule_at_no_bad rule_at_no_r1 rule_at_no_r5 rule_at_no_r4 rule_at_no_r6 v_kind]; unfold rule_at; cbn [v_slot v_kind v_signer];
  split; [reflexivity|]; split; [vc|]; reduce_if; exists h'; split; [reflexivity|]; first [right; reflexivity | left; vc].
Ltac nd_skip :=
  intros _; cbn [rule_at_no_bad rule_at_no_r5 rule_at_no_r4 rule_at_no_r6 v_kind]; unfold rule_at; cbn [v_slot v_kind v_signer]; split; [reflexivity | vc].

(* R2, bad-window clause: without it, validators that cast a skip-fallback vote still finalize, and a
   slot ends up both finalized and skip-certified (T2 fails) *)
Definition bad_votes_oldest_first : list vote :=
  [mkVote 1 (KNotar 11) 0; mkVote 1 (KNotar 11) 1; mkVote 1 (KNotar 11) 2; mkVote 1 (KNotar 11) 3; mkVote 1 (KNotar 11) 4; mkVote 1 (KNotar 11) 5;
   mkVote 1 KSkip 6; mkVote 1 KSkip 7; mkVote 1 KSkip 8; mkVote 1 KSkip 9;
   mkVote 1 KSkipFb 0; mkVote 1 KSkipFb 1;
   mkVote 1 KFinal 0; mkVote 1 KFinal 1; mkVote 1 KFinal 2; mkVote 1 KFinal 3; mkVote 1 KFinal 4; mkVote 1 KFinal 5].
Theorem R2_bad_window_needed :
  exists W hist b, world_ok W /\ hist_ok_with rule_at_no_bad W hist /\
                   finalized W hist b = true /\ skip_cert W hist (fst b) = true.
Proof.
  exists W10, (rev bad_votes_oldest_first), (1, 11). split; [exact W10_ok|]. split.
  - unfold bad_votes_oldest_first. cbn [rev app]. cbn [hist_ok_with].
    do 6 (split; [intros _; cbn [rule_at_no_bad v_kind v_slot v_signer]; split; [exact I|]; exists 11; split; [left; vc | vc] |]).
    do 2 (split; [intros _; cbn [rule_at_no_bad v_kind]; unfold rule_at; cbn [v_slot v_kind v_signer];
                  split; [reflexivity|]; split; [vc|]; split; [vc|]; apply s2s_from_skip; vc |]).
    split; [byz_vote|].
    do 3 (split; [nd_skip|]).
    do 6 (split; [nd_notar_later 0|]).
    exact I.
  - split; vc.
Qed.

(* R1: if a validator may cast a skip vote after its notar vote, a fast-finalized slot gets a skip certificate *)
Definition r1_votes_oldest_first : list vote :=
  [mkVote 1 (KNotar 11) 0; mkVote 1 (KNotar 11) 1; mkVote 1 (KNotar 11) 2; mkVote 1 (KNotar 11) 3; mkVote 1 (KNotar 11) 4;
   mkVote 1 KSkip 0; mkVote 1 KSkip 1; mkVote 1 KSkip 2].
Theorem R1_needed :
  exists W hist b, world_ok W /\ hist_ok_with rule_at_no_r1 W hist /\
                   finalized W hist b = true /\ skip_cert W hist (fst b) = true.
Proof.
  exists W5, (rev r1_votes_oldest_first), (1, 11). split; [exact W5_ok|]. split.
  - unfold r1_votes_oldest_first. cbn [rev app]. cbn [hist_ok_with].
    do 3 (split; [intros _; cbn [rule_at_no_r1 v_kind v_slot v_signer]; split; [reflexivity | vc] |]).
    do 5 (split; [nd_notar_later 0|]).
    exact I.
  - split; vc.
Qed.

(* R5: without the safe-to-skip stake condition, skip-fallback votes alone skip-certify a fast-finalized slot *)
Definition r5_votes_oldest_first : list vote :=
  [mkVote 1 (KNotar 11) 0; mkVote 1 (KNotar 11) 1; mkVote 1 (KNotar 11) 2; mkVote 1 (KNotar 11) 3; mkVote 1 (KNotar 11) 4;
   mkVote 1 KSkipFb 0; mkVote 1 KSkipFb 1; mkVote 1 KSkipFb 2].
Theorem R5_needed :
  exists W hist b, world_ok W /\ hist_ok_with rule_at_no_r5 W hist /\
                   finalized W hist b = true /\ skip_cert W hist (fst b) = true.
Proof.
  exists W5, (rev r5_votes_oldest_first), (1, 11). split; [exact W5_ok|]. split.
  - unfold r5_votes_oldest_first. cbn [rev app]. cbn [hist_ok_with].
    do 3 (split; [intros _; cbn [rule_at_no_r5 v_kind v_slot v_signer]; split; [reflexivity|]; split; vc |]).
    do 5 (split; [nd_notar_later 0|]).
    exact I.
  - split; vc.
Qed.

(* R4: without the safe-to-notar stake condition, a second block of a fast-finalized slot gets a
   notar-fallback certificate (T2_other / T3 fail) *)
Definition r4_votes_oldest_first : list vote :=
  [mkVote 1 (KNotar 11) 0; mkVote 1 (KNotar 11) 1; mkVote 1 (KNotar 11) 2; mkVote 1 (KNotar 11) 3; mkVote 1 (KNotar 11) 4;
   mkVote 2 (KNotar 21) 0; mkVote 2 (KNotar 21) 1; mkVote 2 (KNotar 21) 2; mkVote 2 (KNotar 21) 3; mkVote 2 (KNotar 21) 4;
   mkVote 2 (KNotarFb 22) 0; mkVote 2 (KNotarFb 22) 1; mkVote 2 (KNotarFb 22) 2].
Theorem R4_needed :
  exists W hist b h', world_ok W /\ hist_ok_with rule_at_no_r4 W hist /\
                      finalized W hist b = true /\ h' <> snd b /\ nf_cert W hist (fst b, h') = true.
Proof.
  exists W5, (rev r4_votes_oldest_first), (2, 21), 22. split; [exact W5_ok|]. split.
  - unfold r4_votes_oldest_first. cbn [rev app]. cbn [hist_ok_with].
    do 3 (split; [intros _; cbn [rule_at_no_r4 v_kind v_slot v_signer]; split; [reflexivity|]; split; [vc|];
                  split; [right; vc|]; exists (1, 11); split; [reflexivity | left; vc] |]).
    do 5 (split; [nd_notar_later 11|]).
    do 5 (split; [nd_notar_later 0|]).
    exact I.
  - split; [vc|]. split; [cbn; lia | vc].
Qed.

(* R6: without the parent rule, a block that does not extend a finalized block is finalized later:
   two finalized blocks that are not on one chain (T3 fails) *)
Definition r6_votes_oldest_first : list vote :=
  [mkVote 1 (KNotar 11) 0; mkVote 1 (KNotar 11) 1; mkVote 1 (KNotar 11) 2; mkVote 1 (KNotar 11) 3; mkVote 1 (KNotar 11) 4;
   mkVote 4 (KNotar 41) 0; mkVote 4 (KNotar 41) 1; mkVote 4 (KNotar 41) 2; mkVote 4 (KNotar 41) 3; mkVote 4 (KNotar 41) 4].
Theorem R6_needed :
  exists W hist b c, world_ok W /\ hist_ok_with rule_at_no_r6 W hist /\
                     finalized W hist b = true /\ finalized W hist c = true /\ fst b <= fst c /\ ~ anc_eq W b c.
Proof.
  exists W5, (rev r6_votes_oldest_first), (1, 11), (4, 41). split; [exact W5_ok|]. split.
  - unfold r6_votes_oldest_first. cbn [rev app]. cbn [hist_ok_with].
    do 10 (split; [intros _; cbn [rule_at_no_r6 v_kind v_slot v_signer]; split; [reflexivity | vc] |]).
    exact I.
  - split; [vc|]. split; [vc|]. split; [cbn; lia|].
    intros A. inversion A as [|a b p Pp A' E1 E2]; subst.
    cbn in Pp. injection Pp as <-. inversion A' as [|a b p Pp' A'' E1 E2]; subst. cbn in Pp'. discriminate.
Qed.

(* with the full rules each of these outcomes is impossible (safety_T2, safety_T2_other, safety_T3) *)

(* ================= scope of T2 ================= *)
(* T2 is about DIRECTLY finalized blocks.  The slot of an implicitly finalized ancestor may carry a
   skip certificate (in the protocol as specified, not only in this implementation): validators
   0-4 notarize (1,11), 5-8 and the Byzantine 9 skip slot 1, validator 0 then casts skip-fallback
   (safe-to-skip holds) - slot 1 is skip-certified - yet 0-4 (and 9) notarize and finalize the
   child (2,21), which finalizes (1,11) implicitly. *)
Definition impl_votes_oldest_first : list vote :=
  [mkVote 1 (KNotar 11) 0; mkVote 1 (KNotar 11) 1; mkVote 1 (KNotar 11) 2; mkVote 1 (KNotar 11) 3; mkVote 1 (KNotar 11) 4;
   mkVote 1 KSkip 5; mkVote 1 KSkip 6; mkVote 1 KSkip 7; mkVote 1 KSkip 8; mkVote 1 KSkip 9;
   mkVote 1 KSkipFb 0;
   mkVote 2 (KNotar 21) 0; mkVote 2 (KNotar 21) 1; mkVote 2 (KNotar 21) 2; mkVote 2 (KNotar 21) 3; mkVote 2 (KNotar 21) 4; mkVote 2 (KNotar 21) 9;
   mkVote 2 KFinal 0; mkVote 2 KFinal 1; mkVote 2 KFinal 2; mkVote 2 KFinal 3; mkVote 2 KFinal 4; mkVote 2 KFinal 9].
Theorem implicit_finalization_may_be_skip_certified :
  exists W hist f x, world_ok W /\ hist_ok W hist /\ finalized W hist f = true /\
                     anc_eq W x f /\ x <> f /\ skip_cert W hist (fst x) = true.
Proof.
  exists W10, (rev impl_votes_oldest_first), (2, 21), (1, 11). split; [exact W10_ok|]. split.
  - unfold impl_votes_oldest_first. cbn [rev app]. cbn [hist_ok].
    split; [byz_vote|].
    do 5 (split; [ex_final 21|]).
    split; [byz_vote|].
    do 5 (split; [ex_notar_later 11|]).
    split; [intros _; unfold rule_at; cbn [v_slot v_kind v_signer];
            split; [reflexivity|]; split; [vc|]; split; [vc|]; apply s2s_from_skip; vc |].
    split; [byz_vote|].
    do 4 (split; [ex_skip|]).
    do 5 (split; [ex_notar_later 0|]).
    exact I.
  - split; [vc|]. split; [eapply ae_step; [reflexivity | apply ae_refl]|]. split; [discriminate | vc].
Qed.

(* ================= the node-level checker (oracle) is not vacuous ================= *)
Definition ev1 : evidence :=
  mkEv [(4, (1, 11))] [(1, 11); (4, 41)] [(1, 12)] [1] [((1, 11), (0, 0)); ((4, 41), (1, 11)); ((2, 21), (1, 12))].
(* accepted: notar on genesis, final with the certificate; notar at a window start on the announced parent *)
Example rules_ok_accepts :
  rules_ok [mkVote 1 (KNotar 11) 0; mkVote 1 KFinal 0; mkVote 2 KSkip 0; mkVote 4 (KNotar 41) 0; mkVote 4 KFinal 0] ev1 = true.
Proof. vc. Qed.
(* rejected: a second initial vote (R1) *)
Example rules_ok_rejects_second_initial_vote : rules_ok [mkVote 1 (KNotar 11) 0; mkVote 1 KSkip 0] ev1 = false.
Proof. vc. Qed.
(* rejected: finalization after a skip-fallback vote in the slot (R2, bad window) *)
Example rules_ok_rejects_final_in_bad_slot : rules_ok [mkVote 1 (KNotar 11) 0; mkVote 1 KSkipFb 0; mkVote 1 KFinal 0] ev1 = false.
Proof. vc. Qed.
(* rejected: fallback vote after finalization (R3) *)
Example rules_ok_rejects_fallback_after_final : rules_ok [mkVote 1 (KNotar 11) 0; mkVote 1 KFinal 0; mkVote 1 (KNotarFb 12) 0] ev1 = false.
Proof. vc. Qed.
(* rejected: child of a block the node did not notarize (R6, later slot); parent never announced (R6, window start) *)
Example rules_ok_rejects_foreign_parent : rules_ok [mkVote 1 (KNotar 11) 0; mkVote 2 (KNotar 21) 0] ev1 = false.
Proof. vc. Qed.
Example rules_ok_rejects_unannounced_parent :
  rules_ok [mkVote 4 (KNotar 41) 0] (mkEv [(8, (1, 11))] [] [] [] [((4, 41), (1, 11))]) = false.
Proof. vc. Qed.
(* rejected: fallback vote without the pool event, any vote for the genesis slot *)
Example rules_ok_rejects_unsolicited_fallback : rules_ok [mkVote 1 (KNotar 11) 0; mkVote 1 (KNotarFb 13) 0] ev1 = false.
Proof. vc. Qed.
Example rules_ok_rejects_genesis_slot : rules_ok [mkVote 0 KSkip 0] ev1 = false.
Proof. vc. Qed.

(* ================= the 20 % bound is tight ================= *)
(* with Byzantine stake of EXACTLY 20 % the rules no longer protect a fast-finalized slot: validators
   0-2 and the Byzantine 4 notarize (1,11) (80 %), 3 and 4 skip (40 %), so safe-to-skip holds and
   validator 0 casts skip-fallback: skip certificate {3, 4, 0} for a finalized slot *)
Definition W5b : world := mkWorld [1; 1; 1; 1; 1] [4] g_parent.
Definition tight_votes_oldest_first : list vote :=
  [mkVote 1 (KNotar 11) 0; mkVote 1 (KNotar 11) 1; mkVote 1 (KNotar 11) 2; mkVote 1 (KNotar 11) 4;
   mkVote 1 KSkip 3; mkVote 1 KSkip 4; mkVote 1 KSkipFb 0].
Theorem byzantine_bound_tight :
  exists W hist b,
    0 < wtotal W /\ 5 * stk W (byz W) = wtotal W /\ (forall b p, w_parent W b = Some p -> fst p < fst b) /\
    hist_ok W hist /\ finalized W hist b = true /\ skip_cert W hist (fst b) = true.
Proof.
  exists W5b, (rev tight_votes_oldest_first), (1, 11).
  split; [vc|]. split; [vc|]. split; [exact g_parent_lt|]. split.
  - unfold tight_votes_oldest_first. cbn [rev app]. cbn [hist_ok].
    split; [intros _; unfold rule_at; cbn [v_slot v_kind v_signer];
            split; [reflexivity|]; split; [vc|]; split; [vc|]; apply s2s_from_skip; vc |].
    split; [byz_vote|].
    split; [ex_skip|].
    split; [byz_vote|].
    do 3 (split; [ex_notar_later 0|]).
    exact I.
  - split; vc.
Qed.
