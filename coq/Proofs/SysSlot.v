(* C01, global composition, part 1: ONE slot state of a pool whose stored votes were really cast.
   [SJ W e H s ss]: ss is a reachable slot state of slot s, every stored vote was cast (is in the global
   history H), every held certificate is a certificate of the abstract view (a stake statement over H),
   and a parent marked "certified" has a notar-fallback-or-stronger certificate in the abstract view or
   is the genesis block.  Under SJ every SafeToNotar / SafeToSkip event the slot state raises and every
   certificate it creates is justified by H (the clauses of [ev_justified], Proofs/SafetyLink.v). *)
From Coq Require Import List NArith Bool Lia ZifyBool ZifyNat ZifyN.
From AG Require Import Gen.Params Model.Pool Model.PoolSpec Model.SafeToSpec Model.Votor Model.Node Model.Safety
  Model.NodeRules Model.System
  Proofs.SlotStateProofs Proofs.SafeToProofs Proofs.SafeToComplete Proofs.StakeSets Proofs.SafetyProofs Proofs.SafetyLink.
Import ListNotations.
Open Scope N_scope.

(* ---------- stake of a duplicate-free list of validators ---------- *)
Lemma stake_sum_cons e a l : stake_sum e (a :: l) = stake_of e a + stake_sum e l.
Proof. reflexivity. Qed.

Lemma stake_sum_nodup_le W e : stakes e = w_stakes W ->
  forall L (P : vidx -> bool), NoDup L -> (forall v, In v L -> P v = true) -> stake_sum e L <= stk W P.
Proof.
  intros Est. induction L as [|a L IH]; intros P ND All.
  - unfold stake_sum. cbn. lia.
  - inversion ND as [|? ? Hn ND']; subst.
    set (P' := fun v => P v && negb (v =? a)).
    assert (IH' : stake_sum e L <= stk W P').
    { apply IH; [exact ND'|]. intros v Hv. unfold P'. rewrite (All v (or_intror Hv)). cbn [andb].
      apply negb_true_iff. apply N.eqb_neq. intros ->. contradiction. }
    rewrite stake_sum_cons.
    rewrite <- (stake_sum_stk W e P Est). rewrite <- (stake_sum_stk W e P' Est) in IH'.
    rewrite (sum_filter_add e P' P a).
    + lia.
    + intros u Hu. unfold P'. apply N.eqb_neq in Hu. rewrite Hu. cbn [negb]. rewrite andb_true_r. reflexivity.
    + unfold P'. rewrite N.eqb_refl. cbn [negb]. apply andb_false_r.
    + apply All. left. reflexivity.
Qed.

Lemma thr_s W e x : stakes e = w_stakes W -> is_strong_quorum e x = is_strong_quorum (wep W) x.
Proof. intros Est. unfold is_strong_quorum. rewrite (total_stake_w W e Est). reflexivity. Qed.

(* ---------- certificates ---------- *)
Lemma forallb_cast_mem (f : vidx -> bool) l v : forallb f l = true -> memN v l = true -> f v = true.
Proof. intros F M. apply memN_true in M. rewrite forallb_forall in F. apply F. exact M. Qed.

(* a backed certificate is a certificate of the abstract view *)
Theorem backed_just : forall W H c, cert_backed W H c = true -> cert_just W H c = true.
Proof.
  intros W H c B. unfold cert_backed in B. cbv zeta in B.
  apply andb_prop in B. destruct B as [B Q]. apply andb_prop in B. destruct B as [B1 B2].
  unfold cert_just, cert_signers in *. revert B1 B2 Q.
  destruct (c_kind c) as [h|h| |h|]; cbn [cert_vote_kinds fst snd]; intros B1 B2 Q.
  - unfold notar_cert, notar_stake. cbn [fst snd]. eapply quorum_mono; [|exact Q]. apply stk_mono.
    intros v E. apply orb_prop in E. destruct E as [E|E]; [exact (forallb_cast_mem _ _ _ B1 E) | exact (forallb_cast_mem _ _ _ B2 E)].
  - unfold nf_cert, nf_stake. cbn [fst snd]. eapply quorum_mono; [|exact Q]. apply stk_mono.
    intros v E. apply orb_true_iff. apply orb_prop in E.
    destruct E as [E|E]; [left; exact (forallb_cast_mem _ _ _ B1 E) | right; exact (forallb_cast_mem _ _ _ B2 E)].
  - unfold skip_cert, skip_stake. eapply quorum_mono; [|exact Q]. apply stk_mono.
    intros v E. apply orb_true_iff. apply orb_prop in E.
    destruct E as [E|E]; [left; exact (forallb_cast_mem _ _ _ B1 E) | right; exact (forallb_cast_mem _ _ _ B2 E)].
  - unfold ff_cert, notar_stake. cbn [fst snd]. eapply strong_mono; [|exact Q]. apply stk_mono.
    intros v E. apply orb_prop in E. destruct E as [E|E]; [exact (forallb_cast_mem _ _ _ B1 E) | exact (forallb_cast_mem _ _ _ B2 E)].
  - unfold final_cert, final_stake. eapply quorum_mono; [|exact Q]. apply stk_mono.
    intros v E. apply orb_prop in E. destruct E as [E|E]; [exact (forallb_cast_mem _ _ _ B1 E) | exact (forallb_cast_mem _ _ _ B2 E)].
Qed.

Lemma cert_just_mono W H H' c : incl H H' -> cert_just W H c = true -> cert_just W H' c = true.
Proof.
  intros I. unfold cert_just. destruct (c_kind c).
  - apply notar_cert_mono; exact I.
  - apply nf_cert_mono; exact I.
  - apply skip_cert_mono; exact I.
  - apply ff_cert_mono; exact I.
  - apply final_cert_mono; exact I.
Qed.

Lemma forallb_cast_mono H H' s k l : incl H H' -> forallb (cast H s k) l = true -> forallb (cast H' s k) l = true.
Proof. intros I F. apply forallb_forall. intros v Iv. rewrite forallb_forall in F. eapply cast_mono; [exact I | apply F; exact Iv]. Qed.
Lemma cert_backed_mono W H H' c : incl H H' -> cert_backed W H c = true -> cert_backed W H' c = true.
Proof.
  intros I B. unfold cert_backed in *. cbv zeta in *.
  apply andb_prop in B. destruct B as [B Q]. apply andb_prop in B. destruct B as [B1 B2].
  rewrite Q, (forallb_cast_mono H H' _ _ _ I B1), (forallb_cast_mono H H' _ _ _ I B2). reflexivity.
Qed.

Lemma voters_stored e ss k v : In v (voters e ss k) -> stored ss v k.
Proof.
  destruct k as [h|h| | |]; cbn [voters stored]; unfold notar_voters, nf_voters, skip_voters, sf_voters, fin_voters;
    intros I; apply filter_In in I; destruct I as [_ I]; try exact I.
  destruct (alookup v (vo_notar (ss_v ss))) as [h'|]; [|discriminate]. apply N.eqb_eq in I. subst. reflexivity.
Qed.
Lemma voters_nodup e ss k : NoDup (voters e ss k).
Proof.
  destruct k; cbn [voters]; unfold notar_voters, nf_voters, skip_voters, sf_voters, fin_voters; apply NoDup_filter; apply nodup_vals.
Qed.

Lemma NoDup_app_disj {A} (a b : list A) :
  NoDup a -> NoDup b -> (forall x, In x a -> ~ In x b) -> NoDup (a ++ b).
Proof.
  induction a as [|x a IH]; intros Na Nb Hd; [exact Nb|].
  inversion Na as [|? ? Hx Na']; subst. cbn [app]. constructor.
  - rewrite in_app_iff. intros [X|X]; [exact (Hx X) | exact (Hd x (or_introl eq_refl) X)].
  - apply IH; [exact Na' | exact Nb | intros y Hy; apply Hd; right; exact Hy].
Qed.

Lemma union_signers_nodup c : NoDup (c_s1 c) -> NoDup (c_s2 c) -> NoDup (union_signers c).
Proof.
  intros N1 N2. unfold union_signers. apply NoDup_app_disj; [exact N1 | apply NoDup_filter; exact N2|].
  intros x I1 I2. apply filter_In in I2. destruct I2 as [_ I2]. apply negb_true_iff in I2.
  apply memN_true in I1. congruence.
Qed.

(* ---------- what justifies a pool event (the clauses of [ev_justified]) ---------- *)
Definition par_cert_just (W : world) (H : list vote) (b : blockid) : Prop :=
  exists par, w_parent W b = Some par /\ (nf_cert W H par = true \/ par = genesis).
Definition ev_just (W : world) (H : list vote) (u : vidx) (x : pevent) : Prop :=
  match x with
  | EParentReady s p => parent_ready W H s p
  | ESafeToNotar b =>
    s2n_stake W H b = true /\
    (cast H (fst b) KSkip u = true \/ cast_notar_other H (fst b) (snd b) u = true) /\
    par_cert_just W H b
  | ESafeToSkip s => cast_any_notar H s u = true /\ s2s_stake W H s
  | ECertCreated c => cert_backed W H c = true
  | _ => True
  end.

Lemma par_cert_just_mono W H H' b : incl H H' -> par_cert_just W H b -> par_cert_just W H' b.
Proof.
  intros I [par [P [C|G]]]; exists par; (split; [exact P|]); [left; eapply nf_cert_mono; eassumption | right; exact G].
Qed.

Lemma ev_count_in f x l : In x l -> f x = true -> (1 <= ev_count f l)%nat.
Proof.
  induction l as [|y l IH]; intros I F; [destruct I|]. cbn [ev_count]. destruct I as [->|I].
  - rewrite F. lia.
  - specialize (IH I F). lia.
Qed.

Lemma certs_of_slot_ext a b : ss_c a = ss_c b -> certs_of_slot a = certs_of_slot b.
Proof. intros E. unfold certs_of_slot. rewrite E. reflexivity. Qed.

Lemma stored_store_inv ss v0 k0 v k : stored (store_vote ss v0 k0) v k -> (v = v0 /\ k = k0) \/ stored ss v k.
Proof.
  unfold stored, store_vote, has_nf_vote, memN.
  destruct k0 as [h0|h0| | |]; destruct k as [h|h| | |]; cbn [ss_v with_v vo_notar vo_nf vo_skip vo_sf vo_fin existsb fst snd];
    intros E; try (right; exact E).
  - destruct (N.eq_dec v v0) as [->|Hne].
    + rewrite alookup_ainsert_same in E. injection E as ->. left. split; reflexivity.
    + rewrite alookup_ainsert_other in E by exact Hne. right. exact E.
  - apply orb_prop in E. destruct E as [E|E]; [|right; exact E].
    apply andb_prop in E. destruct E as [E1 E2]. apply N.eqb_eq in E1. apply N.eqb_eq in E2. subst. left. split; reflexivity.
  - apply orb_prop in E. destruct E as [E|E]; [|right; exact E]. apply N.eqb_eq in E. subst. left. split; reflexivity.
  - apply orb_prop in E. destruct E as [E|E]; [|right; exact E]. apply N.eqb_eq in E. subst. left. split; reflexivity.
  - apply orb_prop in E. destruct E as [E|E]; [|right; exact E]. apply N.eqb_eq in E. subst. left. split; reflexivity.
Qed.

Lemma certs_after_add ss c x : In x (certs_of_slot (ss_add_cert ss c)) -> x = c \/ In x (certs_of_slot ss).
Proof.
  unfold ss_add_cert, certs_of_slot.
  destruct (c_kind c) as [h|h| |h|]; try destruct (is_notar_fallback ss h);
    cbn [ss_c with_c ce_notar ce_nf ce_skip ce_ff ce_fin]; rewrite ?in_app_iff; cbn [In];
    destruct (ce_fin (ss_c ss)); destruct (ce_ff (ss_c ss)); destruct (ce_notar (ss_c ss)); destruct (ce_skip (ss_c ss));
    cbn [In]; rewrite ?in_app_iff; cbn [In]; intuition.
Qed.

Lemma nf_or_stronger_cert ss h : is_nf_or_stronger ss h = true ->
  exists c, In c (certs_of_slot ss) /\ cert_hash c = Some h.
Proof.
  unfold is_nf_or_stronger, is_notar_fallback, certs_of_slot. intros E.
  apply orb_prop in E. destruct E as [E|E]; [apply orb_prop in E; destruct E as [E|E]|].
  - destruct (ce_notar (ss_c ss)) as [c|]; [|discriminate]. destruct (cert_hash c) as [h'|] eqn:Ch; [|discriminate].
    apply N.eqb_eq in E. subst. exists c. split; [|exact Ch]. rewrite !in_app_iff. right. right. left. left. reflexivity.
  - destruct (ce_ff (ss_c ss)) as [c|]; [|discriminate]. destruct (cert_hash c) as [h'|] eqn:Ch; [|discriminate].
    apply N.eqb_eq in E. subst. exists c. split; [|exact Ch]. rewrite !in_app_iff. right. left. left. reflexivity.
  - apply existsb_exists in E. destruct E as [c [I E]]. destruct (cert_hash c) as [h'|] eqn:Ch; [|discriminate].
    apply N.eqb_eq in E. subst. exists c. split; [|exact Ch]. rewrite !in_app_iff. right. right. right. left. exact I.
Qed.

Section Slot.
Variable W : world.
Hypothesis WO : world_ok W.
Variable e : epoch.
Hypothesis Est : stakes e = w_stakes W.

Lemma total_pos_e : 0 < total_stake e.
Proof. rewrite (total_stake_w W e Est). destruct WO as [P _]. exact P. Qed.

Lemma cert_hash_nf H c h : cert_hash c = Some h -> cert_just W H c = true -> nf_cert W H (c_slot c, h) = true.
Proof.
  unfold cert_hash, cert_just. destruct (c_kind c) as [h'|h'| |h'|]; intros E J; try discriminate; injection E as ->.
  - apply notar_cert_nf. exact J.
  - exact J.
  - apply notar_cert_nf. apply (ff_cert_notar W H WO). exact J.
Qed.

(* a certificate the slot state creates lists stored voters and meets its threshold: it is backed *)
Theorem good_backed : forall H s ss c,
  cert_good e ss s (Some c) -> (forall v k, stored ss v k -> cast H s k v = true) -> cert_backed W H c = true.
Proof.
  intros H s ss c [c' [E [(Es & E1 & E2 & _) T]]] Prov. injection E as <-.
  assert (N1 : NoDup (c_s1 c)) by (rewrite E1; apply voters_nodup).
  assert (N2 : NoDup (c_s2 c)).
  { rewrite E2. destruct (snd (cert_vote_kinds (c_kind c))); [apply voters_nodup | constructor]. }
  assert (Thr : stake_sum e (union_signers c) <= stk W (cert_signers c)).
  { apply (stake_sum_nodup_le W e Est); [apply union_signers_nodup; assumption|].
    intros v I. unfold union_signers in I. apply in_app_or in I. unfold cert_signers. destruct I as [I|I].
    - apply memN_true in I. rewrite I. reflexivity.
    - apply filter_In in I. destruct I as [I _]. apply memN_true in I. rewrite I. apply orb_true_r. }
  unfold cert_backed. cbv zeta. rewrite Es.
  apply andb_true_intro. split; [apply andb_true_intro; split|].
  - rewrite E1. apply forallb_forall. intros v I. apply Prov. apply (voters_stored e). exact I.
  - rewrite E2. destruct (snd (cert_vote_kinds (c_kind c))) as [k|]; [|reflexivity].
    apply forallb_forall. intros v I. apply Prov. apply (voters_stored e). exact I.
  - unfold cert_threshold_ok in T. cbv zeta in T.
    destruct (c_kind c); first [rewrite <- (thr_s W e _ Est); eapply strong_mono; eassumption
                               | rewrite <- (thr_q W e Est); eapply quorum_mono; eassumption].
Qed.

(* ---------- the invariant of one slot state ---------- *)
Record SJ (H : list vote) (s : slot) (ss : slot_state) : Prop := mkSJ {
  sj_reach : ss_reach e ss;
  sj_votes : forall v k, stored ss v k -> cast H s k v = true;
  sj_certs : forall c, In c (certs_of_slot ss) -> c_slot c = s /\ cert_backed W H c = true;
  sj_par : forall h, alookup h (pa_status (ss_n ss)) = Some true -> par_cert_just W H (s, h) }.

Lemma SJ_empty H s : SJ H s ss_empty.
Proof.
  constructor.
  - apply reach_empty.
  - intros v k St. destruct k; cbn in St; discriminate.
  - intros c [].
  - intros h E. discriminate.
Qed.

Lemma SJ_mono H H' s ss : incl H H' -> SJ H s ss -> SJ H' s ss.
Proof.
  intros I [R V C P]. constructor.
  - exact R.
  - intros v k St. eapply cast_mono; [exact I | apply V; exact St].
  - intros c Ic. destruct (C c Ic) as [A B]. split; [exact A | eapply cert_backed_mono; eassumption].
  - intros h E. eapply par_cert_just_mono; [exact I | apply P; exact E].
Qed.

Lemma SJ_nf_cert H s ss h : SJ H s ss -> is_nf_or_stronger ss h = true -> nf_cert W H (s, h) = true.
Proof.
  intros J E. destruct (nf_or_stronger_cert ss h E) as [c [I Ch]].
  destruct (sj_certs _ _ _ J c I) as [Es Jc]. rewrite <- Es. apply cert_hash_nf; [assumption | apply backed_just; exact Jc].
Qed.

(* the events raised under a true condition are justified *)
Lemma SJ_s2n H s ss h : SJ H s ss -> s2n_condb e ss h = true -> ev_just W H (own e) (ESafeToNotar (s, h)).
Proof.
  intros [R V C P] Cd. apply condb_iff_conditions in Cd. destruct Cd as (O & St & Pa).
  cbn [ev_just fst snd]. split; [|split].
  - apply (pool_s2n_justified W H e s ss Est R V h St).
  - apply (pool_own_vote_justified H e s ss V h O).
  - apply P. exact Pa.
Qed.

Lemma SJ_s2s H s ss : SJ H s ss -> s2s_condb e ss = true -> ev_just W H (own e) (ESafeToSkip s).
Proof.
  intros [R V C P] Cd. unfold s2s_condb, own_notarizedb in Cd. apply andb_prop in Cd. destruct Cd as [O Q].
  cbn [ev_just]. split.
  - destruct (alookup (own e) (vo_notar (ss_v ss))) as [h|] eqn:L; [|discriminate].
    apply cast_any_notar_iff. exists h. apply V. exact L.
  - apply (pool_s2s_justified W H e s ss Est R V Q).
Qed.

(* events counted as flips of a true condition of the NEW state are justified by it *)
Lemma slot_events_just H s ss ss' evs :
  SJ H s ss' ->
  (forall b, ev_count (is_s2n b) evs = b2n ((fst b =? s) && s2n_condb e ss' (snd b) && negb (s2n_condb e ss (snd b)))) ->
  (forall s', ev_count (is_s2s s') evs = b2n ((s' =? s) && s2s_condb e ss' && negb (s2s_condb e ss))) ->
  Forall ev_kind_ok evs -> Forall (ev_just W H (own e)) evs.
Proof.
  intros J Cn Cs K. apply Forall_forall. intros x Ix. rewrite Forall_forall in K. specialize (K x Ix).
  destruct x as [s0 p0|b|s0|c|s0 cs vs|s0 p0]; cbn [ev_kind_ok] in K; try contradiction.
  - assert (F : is_s2n b (ESafeToNotar b) = true).
    { cbn [is_s2n]. unfold bid_eqb. rewrite !N.eqb_refl. reflexivity. }
    pose proof (ev_count_in _ _ _ Ix F) as L. rewrite Cn in L.
    destruct (fst b =? s) eqn:E1; [|cbn in L; lia]. destruct (s2n_condb e ss' (snd b)) eqn:E2; [|cbn in L; lia].
    apply N.eqb_eq in E1. destruct b as [bs bh]. cbn [fst snd] in *. subst bs. apply (SJ_s2n H s ss' bh J E2).
  - assert (F : is_s2s s0 (ESafeToSkip s0) = true) by (cbn [is_s2s]; apply N.eqb_refl).
    pose proof (ev_count_in _ _ _ Ix F) as L. rewrite Cs in L.
    destruct (s0 =? s) eqn:E1; [|cbn in L; lia]. destruct (s2s_condb e ss') eqn:E2; [|cbn in L; lia].
    apply N.eqb_eq in E1. subst s0. apply (SJ_s2s H s ss' J E2).
Qed.

(* ---------- the four operations of the pool on a slot state ---------- *)
Theorem SJ_vote : forall H ss vt ss' out,
  SJ H (v_slot vt) ss -> admitted ss vt -> was_cast H vt = true -> ss_add_vote e ss vt = (ss', out) ->
  SJ H (v_slot vt) ss' /\ Forall (ev_just W H (own e)) (o_events out) /\
  Forall (fun oc => exists c, oc = Some c /\ c_slot c = v_slot vt /\ cert_backed W H c = true) (o_certs out).
Proof.
  intros H ss vt ss' out J Ha Hc E. destruct J as [R V C P].
  assert (Ev : ss_v ss' = ss_v (store_vote ss (v_signer vt) (v_kind vt))).
  { pose proof (add_vote_stores true e ss vt) as X. unfold ss_add_vote in E. rewrite E in X. exact X. }
  destruct (add_vote_chain e ss vt ss' out E) as (X & _).
  assert (Ec : ss_c ss' = ss_c ss) by (rewrite (ex_c _ _ _ _ _ X); reflexivity).
  assert (Ep : pa_status (ss_n ss') = pa_status (ss_n ss)) by (rewrite (ex_pa _ _ _ _ _ X); reflexivity).
  assert (V' : forall v k, stored ss' v k -> cast H (v_slot vt) k v = true).
  { intros v k St. apply (stored_ext ss' _ v k Ev) in St. apply stored_store_inv in St.
    destruct St as [[-> ->]|St]; [exact Hc | apply V; exact St]. }
  assert (J' : SJ H (v_slot vt) ss').
  { constructor.
    - pose proof (reach_vote e ss vt R Ha) as X0. rewrite E in X0. exact X0.
    - exact V'.
    - intros c Ic. rewrite (certs_of_slot_ext ss' ss Ec) in Ic. apply C. exact Ic.
    - intros h L. rewrite Ep in L. apply P. exact L. }
  split; [exact J'|]. split.
  - assert (Ok : ss_op_ok (v_slot vt) ss (SOVote vt) = true).
    { cbn [ss_op_ok]. rewrite N.eqb_refl. cbn [andb]. apply admittedb_true. exact Ha. }
    assert (Ap : ss_apply e (v_slot vt) ss (SOVote vt) = (ss', o_events out)) by (cbn [ss_apply]; rewrite E; reflexivity).
    destruct (step_exact e (v_slot vt) ss (SOVote vt) ss' (o_events out) R Ok Ap) as (Cn & Cs & K).
    eapply slot_events_just; eassumption.
  - destruct (reach_invariants e ss R) as [To Hd].
    pose proof (created_certs_good e ss vt total_pos_e Ha To Hd) as G. rewrite E in G. cbn [fst snd] in G.
    eapply Forall_impl; [|exact G]. intros oc Gc. destruct Gc as [c [Eo Gc]]. exists c. split; [exact Eo|]. split.
    + destruct Gc as [(Es & _) _]. exact Es.
    + apply (good_backed H (v_slot vt) ss' c); [exists c; split; [reflexivity | exact Gc] | exact V'].
Qed.

Theorem SJ_cert : forall H s ss c,
  SJ H s ss -> c_slot c = s -> cert_backed W H c = true -> SJ H s (ss_add_cert ss c).
Proof.
  intros H s ss c [R V C P] Es Jc. destruct (add_cert_frame ss c) as [Fv _]. constructor.
  - apply reach_cert. exact R.
  - intros v k St. apply V. eapply stored_ext; [exact Fv | exact St].
  - intros x Ix. apply certs_after_add in Ix. destruct Ix as [->|Ix]; [split; assumption | apply C; exact Ix].
  - intros h L. rewrite add_cert_n in L. apply P. exact L.
Qed.

Theorem SJ_known : forall H s ss h, SJ H s ss -> SJ H s (notify_parent_known ss h).
Proof.
  intros H s ss h J. pose proof (reach_known e ss h (sj_reach _ _ _ J)) as R'. destruct J as [R V C P].
  unfold notify_parent_known in *. destruct (alookup h (pa_status (ss_n ss))) eqn:L; [constructor; assumption|].
  constructor.
  - exact R'.
  - intros v k St. apply V. exact St.
  - intros c Ic. apply C. exact Ic.
  - intros h' L'. cbn [set_parents with_n ss_n pa_status] in L'. destruct (N.eq_dec h' h) as [->|Hne].
    + rewrite alookup_ainsert_same in L'. discriminate.
    + rewrite alookup_ainsert_other in L' by exact Hne. apply P. exact L'.
Qed.

Theorem SJ_certified : forall H s ss h ss' evs rps,
  SJ H s ss -> par_cert_just W H (s, h) -> notify_parent_certified e s ss h = Some (ss', evs, rps) ->
  SJ H s ss' /\ Forall (ev_just W H (own e)) evs.
Proof.
  intros H s ss h ss' evs rps J Pj E.
  pose proof (reach_certified e ss s h (ss', evs, rps) (sj_reach _ _ _ J) E) as R'. cbn [fst] in R'.
  destruct (certified_frame e s ss h (ss', evs, rps) E) as [Fv _]. cbn [fst] in Fv.
  destruct J as [R V C P].
  assert (Ok : ss_op_ok s ss (SOCertified h) = true).
  { cbn [ss_op_ok]. unfold notify_parent_certified in E. destruct (alookup h (pa_status (ss_n ss))); [reflexivity | discriminate]. }
  assert (Ap : ss_apply e s ss (SOCertified h) = (ss', evs)) by (cbn [ss_apply]; rewrite E; reflexivity).
  unfold notify_parent_certified in E. destruct (alookup h (pa_status (ss_n ss))) as [old|] eqn:L; [|discriminate].
  injection E as E.
  destruct (s2n_try_ext e s _ h ss' evs rps E) as (X & _).
  assert (J' : SJ H s ss').
  { constructor.
    - exact R'.
    - intros v k St. apply V. eapply stored_ext; [exact Fv | exact St].
    - intros c Ic. rewrite (certs_of_slot_ext ss' ss) in Ic; [apply C; exact Ic|]. rewrite (ex_c _ _ _ _ _ X). reflexivity.
    - intros h' L'. rewrite (ex_pa _ _ _ _ _ X) in L'. cbn [set_parents with_n ss_n pa_status] in L'.
      destruct (N.eq_dec h' h) as [->|Hne]; [exact Pj|].
      rewrite alookup_ainsert_other in L' by exact Hne. apply P. exact L'. }
  split; [exact J'|].
  destruct (step_exact e s ss (SOCertified h) ss' evs R Ok Ap) as (Cn & Cs & K).
  eapply slot_events_just; eassumption.
Qed.
End Slot.
