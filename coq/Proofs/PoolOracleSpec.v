(* C07 / C08: the executable specification the oracle evaluates on implementation traces (Oracle/PoolRun.v:
   direct_finals, finals_star, skipped_star, ready_spec, spec_decided, decided_prefix, max_slot_of) against the
   relational specification of Model/FinalitySpec.v / Model/PoolTrace.v over the same certificates [cs] and
   registered links [blocks]:
     - finals_star = FinalStar (for every block but genesis, which the oracle treats separately),
       skipped_star = SkippedStar, spec_decided = Decided (slots > 0), ready_spec = ReadySpec,
     - and for every reachable pool whose certificates are consistent, the three finality clauses of c08_step_ok
       (highest = max of the direct finals, watermark = decided_prefix) hold of the MODEL. *)
From Coq Require Import List NArith Bool Lia ZifyBool ZifyNat ZifyN.
From AG Require Import Gen.Params Model.Pool Model.PoolSpec Model.TrackerSpec Model.FinalitySpec Model.PoolTrace Oracle.PoolRun
     Proofs.SlotStateProofs Proofs.TrackerProofs Proofs.ParentReadyProofs Proofs.FinalityProofs Proofs.PoolMarks.
Import ListNotations.
Open Scope N_scope.

Lemma bmem_true b l : bmem b l = true <-> In b l.
Proof.
  unfold bmem. rewrite existsb_exists. split.
  - intros [x [Hin E]]. apply bid_eqb_iff in E. subst. exact Hin.
  - intros Hin. exists b. split; [exact Hin | apply bid_eqb_refl].
Qed.

(* ---------- has_cert against the per-kind predicates ---------- *)
Lemma has_cert_final cs s : has_cert cs s 4 None = has_final_cert cs s.
Proof.
  unfold has_cert, has_final_cert. induction cs as [|c cs IH]; [reflexivity|]. cbn [existsb]. rewrite IH. f_equal.
  destruct (c_kind c); cbn; rewrite ?andb_true_r, ?andb_false_r; reflexivity.
Qed.
Lemma has_cert_skip cs s : has_cert cs s 2 None = has_skip_cert cs s.
Proof.
  unfold has_cert, has_skip_cert. induction cs as [|c cs IH]; [reflexivity|]. cbn [existsb]. rewrite IH. f_equal.
  destruct (c_kind c); cbn; rewrite ?andb_true_r, ?andb_false_r; reflexivity.
Qed.
Lemma has_cert_notar cs b : has_cert cs (fst b) 0 (Some (snd b)) = has_notar_cert cs b.
Proof.
  unfold has_cert, has_notar_cert. induction cs as [|c cs IH]; [reflexivity|]. cbn [existsb]. rewrite IH. f_equal.
  unfold cert_hash. destruct (c_kind c) as [h|h| |h|]; cbn; rewrite ?andb_true_r, ?andb_false_r; try reflexivity.
  rewrite (N.eqb_sym (snd b) h). reflexivity.
Qed.
Lemma has_cert_ff cs b : has_cert cs (fst b) 3 (Some (snd b)) = has_ff_cert cs b.
Proof.
  unfold has_cert, has_ff_cert. induction cs as [|c cs IH]; [reflexivity|]. cbn [existsb]. rewrite IH. f_equal.
  unfold cert_hash. destruct (c_kind c) as [h|h| |h|]; cbn; rewrite ?andb_true_r, ?andb_false_r; try reflexivity.
  rewrite (N.eqb_sym (snd b) h). reflexivity.
Qed.
Lemma existsb_orb {A} (f g : A -> bool) l : existsb f l || existsb g l = existsb (fun x => f x || g x) l.
Proof.
  induction l as [|x l IH]; [reflexivity|]. cbn [existsb]. rewrite <- IH.
  destruct (f x), (g x), (existsb f l), (existsb g l); reflexivity.
Qed.
Lemma existsb_ext' {A} (f g : A -> bool) l : (forall x, f x = g x) -> existsb f l = existsb g l.
Proof. intros E. induction l as [|x l IH]; [reflexivity|]. cbn [existsb]. rewrite E, IH. reflexivity. Qed.
Lemma has_cert_nf cs b :
  has_cert cs (fst b) 0 (Some (snd b)) || has_cert cs (fst b) 1 (Some (snd b)) = has_nf_cert cs b.
Proof.
  unfold has_cert, has_nf_cert. rewrite existsb_orb. apply existsb_ext'. intros c.
  unfold cert_hash. destruct (c_kind c) as [h|h| |h|]; cbn [ctag]; rewrite ?(N.eqb_sym (snd b) h);
    destruct (c_slot c =? fst b); cbn; rewrite ?orb_false_r; reflexivity.
Qed.

(* ---------- direct_finals ---------- *)
Lemma direct_finals_iff cs b : In b (direct_finals cs) <->
  has_ff_cert cs b = true \/ (has_final_cert cs (fst b) = true /\ has_notar_cert cs b = true).
Proof.
  unfold direct_finals. rewrite in_flat_map. split.
  - intros [c [Hc Hb]]. destruct (c_kind c) as [h|h| |h|] eqn:K; [|destruct Hb|destruct Hb| |destruct Hb].
    + rewrite has_cert_final in Hb. destruct (has_final_cert cs (c_slot c)) eqn:F; [|destruct Hb].
      destruct Hb as [<-|[]]. right. cbn [fst snd]. split; [exact F|]. unfold has_notar_cert. apply existsb_exists.
      exists c. split; [exact Hc|]. cbn [fst snd]. rewrite K, !N.eqb_refl. reflexivity.
    + destruct Hb as [<-|[]]. left. unfold has_ff_cert. apply existsb_exists.
      exists c. split; [exact Hc|]. cbn [fst snd]. rewrite K, !N.eqb_refl. reflexivity.
  - intros [Hf|[Hf Hn]].
    + unfold has_ff_cert in Hf. apply existsb_exists in Hf. destruct Hf as [c [Hc Hk]]. exists c. split; [exact Hc|].
      apply andb_true_iff in Hk. destruct Hk as [K1 K2]. apply N.eqb_eq in K1.
      destruct (c_kind c) as [h|h| |h|]; try discriminate K2. apply N.eqb_eq in K2. left. destruct b; cbn [fst snd] in *; subst; reflexivity.
    + unfold has_notar_cert in Hn. apply existsb_exists in Hn. destruct Hn as [c [Hc Hk]]. exists c. split; [exact Hc|].
      apply andb_true_iff in Hk. destruct Hk as [K1 K2]. apply N.eqb_eq in K1.
      destruct (c_kind c) as [h|h| |h|]; try discriminate K2. apply N.eqb_eq in K2.
      rewrite has_cert_final, K1, Hf. left. destruct b; cbn [fst snd] in *; subst; reflexivity.
Qed.

Lemma direct_finals_Direct cs blocks b : In b (direct_finals cs) -> Direct (cert_hist cs blocks) b.
Proof. intros H. apply Direct_certs. apply direct_finals_iff in H. tauto. Qed.
Lemma Direct_direct_finals cs blocks b : Direct (cert_hist cs blocks) b -> b <> (0, 0) -> In b (direct_finals cs).
Proof. intros H Hb. apply Direct_certs in H. apply direct_finals_iff. tauto. Qed.

(* ---------- close_finals reaches the closure ---------- *)
Section Close.
Variable blocks : list (blockid * blockid).

Definition closedF (F : list blockid) : Prop :=
  forall bp, In bp blocks -> bmem (fst bp) F = true -> bmem (snd bp) F = true.
Definition open_links (F : list blockid) : nat := length (filter (fun bp => negb (bmem (snd bp) F)) blocks).
Definition more_of (F : list blockid) : list blockid :=
  flat_map (fun bp => if bmem (fst bp) F && negb (bmem (snd bp) F) then [snd bp] else []) blocks.

Lemma close_unfold fuel F : close_finals (S fuel) blocks F =
  match more_of F with [] => F | _ => close_finals fuel blocks (F ++ more_of F) end.
Proof. reflexivity. Qed.

Lemma bmem_app b l l' : bmem b (l ++ l') = bmem b l || bmem b l'.
Proof. unfold bmem. apply existsb_app. Qed.

Lemma close_incl : forall fuel F b, bmem b F = true -> bmem b (close_finals fuel blocks F) = true.
Proof.
  induction fuel as [|f IH]; intros F b Hb; [exact Hb|]. rewrite close_unfold.
  destruct (more_of F) eqn:E; [exact Hb|]. apply IH. rewrite bmem_app, Hb. reflexivity.
Qed.

Lemma close_sound (P : blockid -> Prop) : (forall bp, In bp blocks -> P (fst bp) -> P (snd bp)) ->
  forall fuel F, (forall b, bmem b F = true -> P b) -> forall b, bmem b (close_finals fuel blocks F) = true -> P b.
Proof.
  intros HP. induction fuel as [|f IH]; intros F HF b Hb; [exact (HF b Hb)|]. rewrite close_unfold in Hb.
  destruct (more_of F) eqn:E; [exact (HF b Hb)|]. rewrite <- E in Hb. apply (IH (F ++ more_of F)); [|exact Hb].
  intros x Hx. rewrite bmem_app in Hx. apply orb_true_iff in Hx. destruct Hx as [Hx|Hx]; [exact (HF x Hx)|].
  apply bmem_true in Hx. unfold more_of in Hx. apply in_flat_map in Hx. destruct Hx as [bp [Hin Hx]].
  destruct (bmem (fst bp) F) eqn:E1; [|destruct Hx]. destruct (negb (bmem (snd bp) F)); [|destruct Hx].
  destruct Hx as [<-|[]]. apply (HP bp Hin), HF, E1.
Qed.

Lemma close_closed : forall fuel F, (open_links F < fuel)%nat -> closedF (close_finals fuel blocks F).
Proof.
  induction fuel as [|f IH]; intros F Hm; [lia|]. rewrite close_unfold.
  destruct (more_of F) as [|x l] eqn:E.
  - intros bp Hin Hc. destruct (bmem (snd bp) F) eqn:Ep; [reflexivity|]. exfalso.
    assert (Hx : In (snd bp) (more_of F)).
    { unfold more_of. apply in_flat_map. exists bp. split; [exact Hin|]. rewrite Hc, Ep. left; reflexivity. }
    rewrite E in Hx. destruct Hx.
  - rewrite <- E. apply IH.
    assert (Hx : In x (more_of F)) by (rewrite E; left; reflexivity).
    unfold more_of in Hx. apply in_flat_map in Hx. destruct Hx as [bp [Hin Hx]].
    destruct (bmem (fst bp) F) eqn:E1; [|destruct Hx]. destruct (bmem (snd bp) F) eqn:E2; [destruct Hx|]. destruct Hx as [<-|[]].
    assert (Hlt : (open_links (F ++ more_of F) < open_links F)%nat).
    { unfold open_links. apply (filter_length_lt _ _ blocks bp).
      - intros y Hy. rewrite bmem_app in Hy. destruct (bmem (snd y) F); [discriminate | reflexivity].
      - exact Hin.
      - rewrite E2. reflexivity.
      - rewrite bmem_app. replace (bmem (snd bp) (more_of F)) with true; [rewrite orb_true_r; reflexivity|].
        symmetry. apply bmem_true. unfold more_of. apply in_flat_map. exists bp. split; [exact Hin|]. rewrite E1, E2. left; reflexivity. }
    lia.
Qed.

Lemma open_links_le F : (open_links F <= length blocks)%nat.
Proof. apply filter_length_le. Qed.
End Close.

(* ---------- finals_star / skipped_star / spec_decided / ready_spec ---------- *)
Section OracleSpec.
Variable cs : list cert.
Variable blocks : list (blockid * blockid).
Hypothesis LT : forall b par, In (b, par) blocks -> fst par < fst b.

Let Hs := cert_hist cs blocks.

Lemma finals_star_sound b : bmem b (finals_star cs blocks) = true -> FinalStar Hs b.
Proof.
  unfold finals_star. apply (close_sound blocks (FinalStar Hs)).
  - intros [c p] Hin F. cbn [fst snd] in *. eapply FS_anc; [exact F|]. apply (cert_hist_link cs blocks). exact Hin.
  - intros x Hx. apply FS_direct, direct_finals_Direct, bmem_true, Hx.
Qed.
Lemma finals_star_complete b : FinalStar Hs b -> b <> (0, 0) -> bmem b (finals_star cs blocks) = true.
Proof.
  intros F. induction F as [b D|c p F IH L]; intros Hb.
  - unfold finals_star. apply close_incl, bmem_true, (Direct_direct_finals cs blocks); assumption.
  - apply (cert_hist_link cs blocks) in L. pose proof (LT _ _ L) as Hlt.
    assert (Hc : c <> (0, 0)) by (intros ->; cbn [fst] in Hlt; lia).
    specialize (IH Hc). unfold finals_star in *.
    apply (close_closed blocks (S (length blocks)) (direct_finals cs)) with (bp := (c, p)); [|exact L|exact IH].
    pose proof (open_links_le blocks (direct_finals cs)). lia.
Qed.
Theorem finals_star_iff b : b <> (0, 0) -> (bmem b (finals_star cs blocks) = true <-> FinalStar Hs b).
Proof. intros Hb. split; [apply finals_star_sound | intros F; apply finals_star_complete; assumption]. Qed.

Theorem skipped_star_iff t : skipped_star (finals_star cs blocks) blocks t = true <-> SkippedStar Hs t.
Proof.
  unfold skipped_star. rewrite existsb_exists. split.
  - intros [[c p] [Hin Hx]]. cbn [fst snd] in Hx. apply andb_true_iff in Hx. destruct Hx as [Hx H3].
    apply andb_true_iff in Hx. destruct Hx as [H1 H2]. exists c, p. split; [apply finals_star_sound, H1|].
    split; [apply (cert_hist_link cs blocks), Hin | nlia].
  - intros [c [p [F [L Hb]]]]. apply (cert_hist_link cs blocks) in L. exists (c, p). split; [exact L|]. cbn [fst snd].
    rewrite finals_star_complete; [|exact F|intros ->; cbn [fst] in Hb; nlia].
    apply andb_true_iff. split; [apply andb_true_iff; split; [reflexivity | nlia] | nlia].
Qed.

Theorem spec_decided_iff t : 0 < t -> (spec_decided cs blocks t = true <-> Decided Hs t).
Proof.
  intros Ht. unfold spec_decided. cbv zeta. rewrite orb_true_iff, skipped_star_iff, existsb_exists. unfold Decided. split.
  - intros [[[s h] [Hin E]]|S]; [|right; exact S]. cbn [fst] in E. apply N.eqb_eq in E. subst s.
    left. exists h. apply finals_star_sound, bmem_true, Hin.
  - intros [[h F]|S]; [|right; exact S]. left. exists (t, h). split; [|cbn [fst]; apply N.eqb_refl].
    apply bmem_true, finals_star_complete; [exact F|]. intros X. injection X as -> _. nlia.
Qed.

Lemma spec_nf_iff b : spec_nf cs (finals_star cs blocks) b = true <-> NfJust cs blocks b.
Proof.
  unfold spec_nf, NfJust. rewrite <- !orb_assoc, (orb_assoc (has_cert cs (fst b) 0 _)), has_cert_nf, has_cert_ff.
  rewrite !orb_true_iff, bid_eqb_iff. fold Hs. split.
  - intros [X|[X|[X|X]]]; [left; exact X | right; left; exact X | right; right | right; right; apply finals_star_sound, X].
    apply FS_direct, Direct_certs. left. exact X.
  - intros [X|[X|X]]; [left; exact X | right; left; exact X|].
    destruct (bid_dec b (0, 0)) as [E|E]; [left; exact E | right; right; right; apply finals_star_complete; assumption].
Qed.
Lemma spec_sk_iff t : spec_sk cs (finals_star cs blocks) blocks t = true <-> SkipJust cs blocks t.
Proof. unfold spec_sk, SkipJust. rewrite orb_true_iff, has_cert_skip, skipped_star_iff. reflexivity. Qed.

(* the oracle's parent-ready specification IS the certificate-level specification *)
Theorem oracle_ready_spec_iff s b : ready_spec cs blocks s b = true <-> ReadySpec cs blocks s b.
Proof.
  unfold ready_spec, ReadySpec. cbv zeta. rewrite !andb_true_iff, forallb_forall, N.ltb_lt, spec_nf_iff. split.
  - intros [[[X1 X2] X3] X4]. repeat split; try assumption. intros x Hx. apply spec_sk_iff, X4, FinalityProofs.in_between, Hx.
  - intros [X1 [X2 [X3 X4]]]. repeat split; try assumption. intros x Hx. apply spec_sk_iff, X4, FinalityProofs.in_between, Hx.
Qed.
Corollary oracle_ready_spec_eq s b : ready_spec cs blocks s b = ready_specb cs blocks s b.
Proof. apply eq_true_iff_eq. rewrite oracle_ready_spec_iff, (ready_specb_iff cs blocks s b LT). reflexivity. Qed.

(* decided_prefix walks exactly to the end of the decided prefix *)
Lemma decided_prefix_spec w : (forall t, 0 < t <= w -> Decided Hs t) -> ~ Decided Hs (w + 1) ->
  forall fuel f, f <= w -> (N.to_nat (w - f) < fuel)%nat -> decided_prefix fuel cs blocks f = w.
Proof.
  intros Hd Hn. induction fuel as [|k IH]; intros f Hf Hk; [nlia|]. cbn [decided_prefix].
  destruct (spec_decided cs blocks (f + 1)) eqn:E.
  - apply spec_decided_iff in E; [|nlia]. destruct (N.eq_dec f w) as [->|Hne]; [contradiction|]. apply IH; nlia.
  - destruct (N.eq_dec f w) as [->|Hne]; [reflexivity|]. exfalso.
    assert (X : spec_decided cs blocks (f + 1) = true) by (apply spec_decided_iff; [nlia | apply Hd; nlia]). congruence.
Qed.
End OracleSpec.

Lemma max_slot_of_ge l b : In b l -> fst b <= max_slot_of l.
Proof.
  unfold max_slot_of. induction l as [|x l IH]; [intros []|]. cbn [map fold_right]. intros [->|Hin]; [nlia|]. specialize (IH Hin). nlia.
Qed.
Lemma max_slot_of_in l : max_slot_of l = 0 \/ exists b, In b l /\ fst b = max_slot_of l.
Proof.
  unfold max_slot_of. induction l as [|x l IH]; [left; reflexivity|]. cbn [map fold_right].
  destruct (N.max_spec (fst x) (fold_right N.max 0 (map fst l))) as [[A B]|[A B]]; rewrite B.
  - destruct IH as [IH|[b [Hin E]]]; [left; exact IH | right; exists b; split; [right; exact Hin | exact E]].
  - right. exists x. split; [left; reflexivity | reflexivity].
Qed.

(* ---------- the finality clauses of the C08 oracle hold of the model in every reachable consistent pool ---------- *)
Theorem oracle_c08_clauses_hold_of_model e ops (C : slot -> option hash) :
  let g := ghost_run e ops in let p := g_pool g in
  let H := held_certs (g_trace g) in let B := reg_links (g_trace g) in
  ft_consistent C (cert_hist H B) = true ->
  finalized_slot p = max_slot_of (direct_finals H) /\
  first_unpruned p = decided_prefix (S (length H + length B + N.to_nat (finalized_slot p))) H B 0 /\
  (forall s ss, In (s, ss) (ft_status (p_ft p)) -> first_unpruned p <= s).
Proof.
  intros g p H B Hc.
  destruct (pool_finality_certificate_level e ops C Hc) as [_ [_ [_ [W1 [W2 [D1 [D2 [K1 _]]]]]]]]. fold g p H B in W1, W2, D1, D2, K1.
  assert (LT : forall b par, In (b, par) B -> fst par < fst b) by (intros b par; apply reachable_links_lt).
  assert (HC : Cons C (cert_hist H B)) by (apply consistent_Cons, Hc).
  split; [|split; [|exact K1]].
  - destruct (max_slot_of_in (direct_finals H)) as [M|[b [Hin M]]].
    + rewrite M. destruct D2 as [D2|[b [Db Eb]]]; [exact D2|].
      destruct (bid_dec b (0, 0)) as [->|Hb]; [rewrite <- Eb; reflexivity|].
      pose proof (max_slot_of_ge _ _ (Direct_direct_finals H B b Db Hb)). nlia.
    + pose proof (D1 b (direct_finals_Direct H B b Hin)) as U. destruct D2 as [D2|[b' [Db Eb]]]; [nlia|].
      destruct (bid_dec b' (0, 0)) as [->|Hb]; [cbn [fst] in Eb; nlia|].
      pose proof (max_slot_of_ge _ _ (Direct_direct_finals H B b' Db Hb)). nlia.
  - symmetry. apply (decided_prefix_spec H B LT (first_unpruned p) W1 W2); [nlia|].
    assert (Hle : first_unpruned p <= finalized_slot p).
    { destruct (N.eq_dec (first_unpruned p) 0) as [E|E]; [nlia|].
      assert (Hw : 0 < first_unpruned p <= first_unpruned p) by nlia.
      destruct (Decided_direct C _ HC (first_unpruned p) (W1 _ Hw)) as [d [Dd Hd]]. specialize (D1 d Dd). nlia. }
    nlia.
Qed.
