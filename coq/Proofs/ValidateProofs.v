(* Proofs about vote / certificate validation with ideal signatures (Model/Validate.v) - C09. *)
From Coq Require Import List NArith Bool Lia.
From AG Require Import Gen.Params Model.Pool Model.Validate.
Import ListNotations.
Open Scope N_scope.

(* a vote is admitted exactly if its signer belongs to the epoch and the signature is that signer's
   signature over exactly this vote's kind, slot and hash *)
Theorem vote_admitted_iff : forall e v,
  validate_vote e v = V9Ok <->
  (sv_signer v < nvals e /\ sv_sig_key v = sv_signer v /\ payload_eqb (sv_sig_payload v) (sv_payload v) = true).
Proof.
  intros e v. unfold validate_vote.
  destruct (nvals e <=? sv_signer v) eqn:E1.
  - split; [discriminate|]. intros [H _]. apply N.leb_le in E1. lia.
  - apply N.leb_gt in E1.
    destruct (sv_sig_key v =? sv_signer v) eqn:E2; cbn [andb].
    + apply N.eqb_eq in E2. destruct (payload_eqb (sv_sig_payload v) (sv_payload v)); split; try discriminate; auto.
      intros [_ [_ H]]. discriminate.
    + split; [discriminate|]. intros [_ [H _]]. apply N.eqb_neq in E2. congruence.
Qed.

(* payload equality is equality of kind, slot and (for block votes) hash: domain separation *)
Theorem payload_eqb_spec : forall a b, payload_eqb a b = true ->
  pl_kind a = pl_kind b /\ pl_slot a = pl_slot b /\ ((pl_kind a = 0 \/ pl_kind a = 1) -> pl_hash a = pl_hash b).
Proof.
  intros [ka sa ha] [kb sb hb]. unfold payload_eqb, norm_payload. cbn [pl_kind pl_slot pl_hash].
  destruct ((ka =? 0) || (ka =? 1)) eqn:Ea; destruct ((kb =? 0) || (kb =? 1)) eqn:Eb; cbn [pl_kind pl_slot pl_hash];
    intros H; apply andb_prop in H; destruct H as [H H3]; apply andb_prop in H; destruct H as [H1 H2];
    apply N.eqb_eq in H1; apply N.eqb_eq in H2; apply N.eqb_eq in H3.
  - repeat split; auto.
  - subst kb. rewrite Ea in Eb. discriminate.
  - subst kb. rewrite Ea in Eb. discriminate.
  - repeat split; auto. intros [E|E]; rewrite E in Ea; vm_compute in Ea; discriminate.
Qed.

(* a certificate is admitted only if each half's aggregate verifies for exactly the marked validators over
   exactly its kind, slot and hash (bitmask as long as the validator set), and the distinct stake of the
   marked validators meets the type's threshold *)
Theorem cert_admitted_only_if : forall e c,
  validate_cert e c = V9Ok ->
  cert_check_threshold e c = true /\
  (let '(p1, p2) := cert_payloads c in
   opt_half_verify (nvals e) p1 (sc_h1 c) = true /\ (is_mixed c = true -> opt_half_verify (nvals e) p2 (sc_h2 c) = true)).
Proof.
  intros e c H. unfold validate_cert in H.
  destruct (cert_check_threshold e c) eqn:T; cbn [negb] in H; [|discriminate].
  destruct (cert_check_sig e c) eqn:S; cbn [negb] in H; [|discriminate].
  split; [reflexivity|]. unfold cert_check_sig in S. destruct (cert_payloads c) as [p1 p2].
  apply andb_prop in S. destruct S as [S1 S2]. split; [exact S1|]. intros M. rewrite M in S2. exact S2.
Qed.

(* the stake figure the certificate declares plays no role *)
Theorem declared_stake_irrelevant : forall e c d,
  validate_cert e (mkSCert (sc_kind c) (sc_slot c) (sc_hash c) (sc_h1 c) (sc_h2 c) d) = validate_cert e c.
Proof. intros e [k s h h1 h2 d0] d. reflexivity. Qed.

(* a verifying half names, with multiplicity, exactly the keys that produced its signatures, each for the
   expected payload *)
Lemma remove_atom_in k p l l' : remove_atom k p l = Some l' ->
  exists k' p', In (k', p') l /\ k' = k /\ payload_eqb p p' = true.
Proof.
  revert l'. induction l as [|[k2 p2] l IH]; intros l' H; cbn [remove_atom] in H; [discriminate|].
  destruct ((k =? k2) && payload_eqb p p2) eqn:E.
  - apply andb_prop in E. destruct E as [E1 E2]. apply N.eqb_eq in E1. subst.
    exists k2, p2. split; [left; reflexivity | auto].
  - destruct (remove_atom k p l) as [t|] eqn:R; [|discriminate].
    destruct (IH t eq_refl) as [k' [p' [Hin [Hk Hp]]]]. exists k', p'. split; [right; exact Hin | auto].
Qed.

Theorem half_verify_signers_signed : forall n p h,
  half_verify n p h = true ->
  h_bits h = n /\
  forall a, In a (h_atoms h) -> exists a', In a' (h_atoms h) /\ a_claimed a' = a_key a /\ payload_eqb (a_payload a) p = true.
Proof.
  intros n p h H. unfold half_verify in H. apply andb_prop in H. destruct H as [Hb Hm].
  apply N.eqb_eq in Hb. split; [exact Hb|].
  remember (map (fun a => (a_key a, a_payload a)) (h_atoms h)) as A eqn:EA.
  remember (map (fun a => (a_claimed a, p)) (h_atoms h)) as B eqn:EB.
  assert (G : forall A B, mset_atoms_eqb A B = true -> forall k q, In (k, q) A ->
                exists k' q', In (k', q') B /\ k' = k /\ payload_eqb q q' = true).
  { clear. induction A as [|[k0 q0] A IH]; intros B H k q Hin; [contradiction|].
    cbn [mset_atoms_eqb] in H. destruct (remove_atom k0 q0 B) as [B'|] eqn:R; [|discriminate].
    destruct Hin as [E|Hin].
    - injection E as <- <-. apply (remove_atom_in _ _ _ _ R).
    - destruct (IH B' H k q Hin) as [k' [q' [Hin' [Hk Hq]]]]. exists k', q'. split; [|auto].
      clear -R Hin'. revert B' R Hin'. induction B as [|[k2 p2] B IHB]; intros B' R Hin'; cbn [remove_atom] in R; [discriminate|].
      destruct ((k0 =? k2) && payload_eqb q0 p2); [injection R as <-; right; exact Hin'|].
      destruct (remove_atom k0 q0 B) as [t|] eqn:R2; [|discriminate]. injection R as <-.
      destruct Hin' as [E|Hin']; [left; exact E | right; apply (IHB t eq_refl Hin')]. }
  intros a Ha.
  assert (HinA : In (a_key a, a_payload a) A) by (subst A; apply in_map_iff; exists a; auto).
  destruct (G A B Hm _ _ HinA) as [k' [q' [HinB [Hk Hq]]]]. subst B.
  apply in_map_iff in HinB. destruct HinB as [a' [E Ha']]. injection E as E1 E2. subst.
  exists a'. auto.
Qed.
