(* C13: order / duplication / subset independence of block reconstruction from dissemination,
   for the blockstore model (Model/Blockstore.v) and the vocabulary of Model/BlockstoreSpec.v. *)
From Coq Require Import List NArith Bool Arith Lia ZifyBool ZifyNat ZifyN.
From AG Require Import Gen.Params Model.Pool Model.Blockstore Model.BlockstoreSpec Proofs.SlotStateProofs.
Import ListNotations.
Open Scope N_scope.

(* ---------- constants ---------- *)
Lemma data_gt_1 : 1 < DATA_SHREDS. Proof. reflexivity. Qed.
Lemma total_pos : 0 < TOTAL_SHREDS. Proof. reflexivity. Qed.

(* ---------- association lists ---------- *)
Lemma alookup_in_keys {V} k (m : list (N * V)) : alookup k m <> None <-> In k (map fst m).
Proof.
  induction m as [|[k' v] m IH]; cbn [alookup map fst In].
  - split; [congruence | contradiction].
  - destruct (k =? k') eqn:E.
    + apply N.eqb_eq in E. subst. split; [auto | congruence].
    + apply N.eqb_neq in E. rewrite IH. split; [auto | intros [H|H]; [congruence | exact H]].
Qed.
Lemma alookup_none_keys {V} k (m : list (N * V)) : alookup k m = None <-> ~ In k (map fst m).
Proof.
  rewrite <- alookup_in_keys. destruct (alookup k m) as [v|].
  - split; [congruence | intros H; exfalso; apply H; congruence].
  - split; [intros _ H; apply H; reflexivity | reflexivity].
Qed.
Lemma alookup_In {V} k (v : V) m : alookup k m = Some v -> In (k, v) m.
Proof.
  induction m as [|[k' v'] m IH]; cbn [alookup In]; [congruence|].
  destruct (k =? k') eqn:E; [apply N.eqb_eq in E; subst; intros H; injection H as ->; auto | auto].
Qed.
Lemma In_alookup_nodup {V} k (v : V) m : NoDup (map fst m) -> In (k, v) m -> alookup k m = Some v.
Proof.
  induction m as [|[k' v'] m IH]; cbn [alookup In map fst]; [contradiction|].
  intros Hnd [H|H]; inversion Hnd as [|? ? Hn Hnd']; subst.
  - injection H as -> ->. rewrite N.eqb_refl. reflexivity.
  - destruct (k =? k') eqn:E; [|auto]. apply N.eqb_eq in E. subst. exfalso. apply Hn.
    apply in_map_iff. exists (k', v). auto.
Qed.
Lemma ainsert_keys_new {V} k (v : V) m : alookup k m = None -> map fst (ainsert k v m) = map fst m ++ [k].
Proof.
  induction m as [|[k' v'] m IH]; cbn [alookup ainsert map fst app]; [reflexivity|].
  destruct (k =? k'); [congruence|]. intros H. cbn [map fst]. rewrite IH by exact H. reflexivity.
Qed.
Lemma ainsert_keys_old {V} k (v : V) m : alookup k m <> None -> map fst (ainsert k v m) = map fst m.
Proof.
  induction m as [|[k' v'] m IH]; cbn [alookup ainsert map fst]; [congruence|].
  destruct (k =? k') eqn:E; [apply N.eqb_eq in E; subst; reflexivity|].
  intros H. cbn [map fst]. rewrite IH by exact H. reflexivity.
Qed.
Lemma ainsert_keys_incl {V} k (v : V) m x : In x (map fst (ainsert k v m)) -> x = k \/ In x (map fst m).
Proof.
  destruct (alookup k m) eqn:E.
  - rewrite ainsert_keys_old by congruence. auto.
  - rewrite ainsert_keys_new by exact E. rewrite in_app_iff. cbn [In]. intros [H|[H|[]]]; auto.
Qed.
Lemma ainsert_not_nil {V} k (v : V) m : ainsert k v m <> [].
Proof. destruct m as [|[k' v'] m]; cbn [ainsert]; [congruence | destruct (k =? k'); congruence]. Qed.
Lemma aget_ainsert_same' {V} (d : V) k v m : aget d k (ainsert k v m) = v.
Proof. unfold aget. rewrite alookup_ainsert_same. reflexivity. Qed.
Lemma aget_ainsert_other' {V} (d : V) k k' v m : k <> k' -> aget d k (ainsert k' v m) = aget d k m.
Proof. intros H. unfold aget. rewrite alookup_ainsert_other by exact H. reflexivity. Qed.
Lemma filter_all {A} (f : A -> bool) l : (forall x, In x l -> f x = true) -> filter f l = l.
Proof.
  induction l as [|a l IH]; cbn [filter]; [reflexivity|]. intros H.
  rewrite (H a) by (left; reflexivity). rewrite IH; [reflexivity | intros x Hx; apply H; right; exact Hx].
Qed.
Lemma filter_none {A} (f : A -> bool) l : (forall x, In x l -> f x = false) -> filter f l = [].
Proof.
  induction l as [|a l IH]; cbn [filter]; [reflexivity|]. intros H.
  rewrite (H a) by (left; reflexivity). apply IH. intros x Hx; apply H; right; exact Hx.
Qed.
Lemma existsb_none {A} (f : A -> bool) l : (forall x, In x l -> f x = false) -> existsb f l = false.
Proof.
  induction l as [|a l IH]; cbn [existsb]; [reflexivity|]. intros H.
  rewrite (H a) by (left; reflexivity). apply IH. intros x Hx; apply H; right; exact Hx.
Qed.

(* ---------- seqN ---------- *)
Lemma seqN_in lo len x : In x (seqN lo len) <-> lo <= x < lo + N.of_nat len.
Proof.
  unfold seqN. rewrite in_map_iff. split.
  - intros [i [<- Hi]]. apply in_seq in Hi. lia.
  - intros H. exists (N.to_nat (x - lo)). split; [lia | apply in_seq; lia].
Qed.
Lemma seqN_len lo len : length (seqN lo len) = len.
Proof. unfold seqN. rewrite map_length, seq_length. reflexivity. Qed.
Lemma seqN_nodup lo len : NoDup (seqN lo len).
Proof.
  unfold seqN. apply FinFun.Injective_map_NoDup; [|apply seq_NoDup].
  intros a b H. lia.
Qed.
Lemma seqN_S lo len : seqN lo (S len) = lo :: seqN (lo + 1) len.
Proof.
  unfold seqN. cbn [seq map]. f_equal; [lia|]. rewrite <- seq_shift, map_map.
  apply map_ext. intros a. lia.
Qed.
Lemma alookup_map_seqN {V} (f : N -> V) len : forall lo i,
  alookup i (map (fun j => (j, f j)) (seqN lo len)) = if (lo <=? i) && (i <? lo + N.of_nat len) then Some (f i) else None.
Proof.
  induction len as [|len IH]; intros lo i.
  - cbn [seqN seq map alookup]. destruct (lo <=? i) eqn:A, (i <? lo + N.of_nat 0) eqn:B; cbn [andb]; try reflexivity. lia.
  - rewrite seqN_S. cbn [map alookup]. destruct (i =? lo) eqn:E.
    + apply N.eqb_eq in E. subst. replace (lo <=? lo) with true by lia.
      replace (lo <? lo + N.of_nat (S len)) with true by lia. reflexivity.
    + rewrite IH. apply N.eqb_neq in E.
      destruct (lo + 1 <=? i) eqn:A, (lo <=? i) eqn:A', (i <? lo + 1 + N.of_nat len) eqn:B,
        (i <? lo + N.of_nat (S len)) eqn:B'; cbn [andb]; try reflexivity; lia.
Qed.

(* ---------- counting distinct elements ---------- *)
Lemma nodup_same_length (a b : list N) : NoDup a -> NoDup b -> (forall x, In x a <-> In x b) -> length a = length b.
Proof.
  intros Ha Hb H. apply Nat.le_antisymm; apply NoDup_incl_length; auto; intros x Hx; apply H; exact Hx.
Qed.
Definition dcount (xs : list N) : N := N.of_nat (length (nodup N.eq_dec xs)).
Lemma dcount_same xs ys : (forall x, In x xs <-> In x ys) -> dcount xs = dcount ys.
Proof.
  intros H. unfold dcount. f_equal. apply nodup_same_length; try apply NoDup_nodup.
  intros x. rewrite !nodup_In. apply H.
Qed.
Lemma dcount_keys ks xs : NoDup ks -> (forall x, In x ks <-> In x xs) -> N.of_nat (length ks) = dcount xs.
Proof.
  intros Hk H. unfold dcount. f_equal. apply nodup_same_length; [exact Hk | apply NoDup_nodup|].
  intros x. rewrite nodup_In. apply H.
Qed.
Lemma dcount_incl xs ys : incl xs ys -> dcount xs <= dcount ys.
Proof.
  intros H. unfold dcount.
  assert ((length (nodup N.eq_dec xs) <= length (nodup N.eq_dec ys))%nat); [|lia].
  apply NoDup_incl_length; [apply NoDup_nodup|]. intros x Hx. apply nodup_In. apply H. apply nodup_In in Hx. exact Hx.
Qed.
Lemma dcount_nil : dcount [] = 0. Proof. reflexivity. Qed.

(* ---------- strictly sorted association lists are determined by their lookup function ---------- *)
Fixpoint ssorted {V} (l : list (N * V)) : Prop :=
  match l with [] => True | x :: t => (forall y, In y t -> fst x < fst y) /\ ssorted t end.
Lemma ssorted_lookup_le {V} (x : N * V) t i : ssorted (x :: t) -> i <= fst x -> alookup i t = None.
Proof.
  intros [H _] Hi. apply alookup_none_keys. intros C. apply in_map_iff in C.
  destruct C as [y [<- Hy]]. apply H in Hy. lia.
Qed.
Lemma ssorted_ext {V} (l1 : list (N * V)) : forall l2, ssorted l1 -> ssorted l2 ->
  (forall i, alookup i l1 = alookup i l2) -> l1 = l2.
Proof.
  induction l1 as [|[k1 v1] t1 IH]; intros [|[k2 v2] t2] S1 S2 H.
  - reflexivity.
  - specialize (H k2). cbn [alookup] in H. rewrite N.eqb_refl in H. discriminate.
  - specialize (H k1). cbn [alookup] in H. rewrite N.eqb_refl in H. discriminate.
  - assert (E : k1 = k2).
    { destruct (N.lt_trichotomy k1 k2) as [L|[E|L]]; [|exact E|].
      - pose proof (H k1) as Hk. cbn [alookup] in Hk. rewrite N.eqb_refl in Hk.
        replace (k1 =? k2) with false in Hk by lia.
        rewrite (ssorted_lookup_le (k2, v2) t2 k1 S2) in Hk by (cbn [fst]; lia). discriminate.
      - pose proof (H k2) as Hk. cbn [alookup] in Hk. rewrite N.eqb_refl in Hk.
        replace (k2 =? k1) with false in Hk by lia.
        rewrite (ssorted_lookup_le (k1, v1) t1 k2 S1) in Hk by (cbn [fst]; lia). discriminate. }
    subst k2. pose proof (H k1) as Hk. cbn [alookup] in Hk. rewrite N.eqb_refl in Hk. injection Hk as ->.
    f_equal. apply IH; [apply S1 | apply S2|].
    intros i. destruct (N.eq_dec i k1) as [->|Hne].
    + rewrite (ssorted_lookup_le _ _ _ S1), (ssorted_lookup_le _ _ _ S2) by (cbn [fst]; lia). reflexivity.
    + specialize (H i). cbn [alookup] in H. replace (i =? k1) with false in H by lia. exact H.
Qed.

Lemma slice_insert_in x t y : In y (slice_insert_sorted x t) -> y = x \/ In y t.
Proof.
  induction t as [|z t IH]; cbn [slice_insert_sorted In].
  - intros [H|[]]; auto.
  - destruct (fst z <? fst x); cbn [In]; [|intros [H|H]; auto].
    intros [H|H]; [auto|]. apply IH in H. destruct H; auto.
Qed.
Lemma slice_insert_spec x t : ssorted t -> alookup (fst x) t = None ->
  ssorted (slice_insert_sorted x t) /\
  (forall i, alookup i (slice_insert_sorted x t) = if i =? fst x then Some (snd x) else alookup i t).
Proof.
  destruct x as [kx vx]. cbn [fst snd].
  induction t as [|[ky vy] t IH]; intros St Hn; cbn [slice_insert_sorted fst].
  - split; [cbn [ssorted In]; split; [contradiction | exact I]|]. intros i. reflexivity.
  - cbn [alookup] in Hn. destruct (kx =? ky) eqn:E; [discriminate|]. apply N.eqb_neq in E.
    destruct (ky <? kx) eqn:L.
    + destruct (IH (proj2 St) Hn) as [IS IL]. split.
      * cbn [ssorted]. split; [|exact IS]. intros y Hy. apply slice_insert_in in Hy.
        destruct Hy as [->|Hy]; [cbn [fst]; lia | apply (proj1 St); exact Hy].
      * intros i. cbn [alookup]. rewrite IL. destruct (i =? ky) eqn:A, (i =? kx) eqn:B; try reflexivity. lia.
    + split.
      * cbn [ssorted]. split; [|exact St]. intros y [<-|Hy]; [cbn [fst]; lia|].
        apply (proj1 St) in Hy. cbn [fst] in *. lia.
      * intros i. reflexivity.
Qed.
Lemma slices_sorted_spec l : NoDup (map fst l) ->
  ssorted (slices_sorted l) /\ (forall i, alookup i (slices_sorted l) = alookup i l).
Proof.
  induction l as [|[k v] l IH]; intros Hnd.
  - split; [exact I | reflexivity].
  - inversion Hnd as [|? ? Hn Hnd']; subst. destruct (IH Hnd') as [IS IL].
    change (slices_sorted ((k, v) :: l)) with (slice_insert_sorted (k, v) (slices_sorted l)).
    assert (Hk : alookup (fst (k, v)) (slices_sorted l) = None).
    { rewrite IL. apply alookup_none_keys. exact Hn. }
    destruct (slice_insert_spec (k, v) _ IS Hk) as [S L]. split; [exact S|].
    intros i. rewrite L. cbn [fst snd alookup]. rewrite IL. reflexivity.
Qed.

(* ---------- by_index: a rearrangement ---------- *)
Lemma insert_by_index_in x l y : In y (insert_by_index x l) <-> y = x \/ In y l.
Proof.
  induction l as [|z l IH]; cbn [insert_by_index In].
  - split; intros [H|[]]; auto.
  - destruct (fst z <? fst x); cbn [In]; [rewrite IH|]; intuition auto.
Qed.
Lemma insert_by_index_len x l : length (insert_by_index x l) = S (length l).
Proof.
  induction l as [|z l IH]; cbn [insert_by_index length]; [reflexivity|].
  destruct (fst z <? fst x); cbn [length]; [rewrite IH|]; reflexivity.
Qed.
Lemma by_index_in l y : In y (by_index l) <-> In y l.
Proof.
  induction l as [|x l IH]; [reflexivity|].
  change (by_index (x :: l)) with (insert_by_index x (by_index l)).
  rewrite insert_by_index_in, IH. cbn [In]. intuition auto.
Qed.
Lemma by_index_len l : length (by_index l) = length l.
Proof.
  induction l as [|x l IH]; [reflexivity|].
  change (by_index (x :: l)) with (insert_by_index x (by_index l)).
  rewrite insert_by_index_len, IH. reflexivity.
Qed.

Lemma bshred_eqb_eq a b : bshred_eqb a b = true -> a = b.
Proof.
  destruct a, b. unfold bshred_eqb. cbn [Blockstore.b_slice Blockstore.b_last Blockstore.b_root Blockstore.b_index Blockstore.b_is_data Blockstore.b_size].
  rewrite !andb_true_iff. intros [[[[[A B] C] D] E] F].
  apply N.eqb_eq in A, C, D, F. apply eqb_prop in B, E. subst. reflexivity.
Qed.

(* ---------- delivered-set vocabulary ---------- *)
Lemma idxs_app l1 l2 i : idxs (l1 ++ l2) i = idxs l1 i ++ idxs l2 i.
Proof. unfold idxs. rewrite filter_app, map_app. reflexivity. Qed.
Lemma idxs_snoc_same l s : idxs (l ++ [s]) (b_slice s) = idxs l (b_slice s) ++ [b_index s].
Proof. rewrite idxs_app. unfold idxs at 2. cbn [filter]. rewrite N.eqb_refl. reflexivity. Qed.
Lemma idxs_snoc_other l s i : b_slice s <> i -> idxs (l ++ [s]) i = idxs l i.
Proof.
  intros H. rewrite idxs_app. unfold idxs at 2. cbn [filter].
  replace (b_slice s =? i) with false by lia. cbn [map]. apply app_nil_r.
Qed.
Lemma cnt_mono l s i : cnt l i <= cnt (l ++ [s]) i.
Proof. apply dcount_incl. rewrite idxs_app. apply incl_appl, incl_refl. Qed.
Lemma slice_ready_mono l s i : slice_ready l i = true -> slice_ready (l ++ [s]) i = true.
Proof. unfold slice_ready. pose proof (cnt_mono l s i). lia. Qed.
Lemma slice_ready_other l s i : b_slice s <> i -> slice_ready (l ++ [s]) i = slice_ready l i.
Proof. intros H. unfold slice_ready, cnt. rewrite idxs_snoc_other by exact H. reflexivity. Qed.
Lemma cnt_snoc_old l s : In (b_index s) (idxs l (b_slice s)) -> cnt (l ++ [s]) (b_slice s) = cnt l (b_slice s).
Proof.
  intros H. apply dcount_same. intros x. rewrite idxs_snoc_same, in_app_iff. cbn [In].
  split; [intros [A|[<-|[]]]; auto | auto].
Qed.
Lemma slice_ready_nil i : slice_ready [] i = false.
Proof. unfold slice_ready, cnt. cbn [idxs filter map nodup length N.of_nat]. pose proof data_gt_1. lia. Qed.
Lemma block_ready_mono hb l s : block_ready hb l = true -> block_ready hb (l ++ [s]) = true.
Proof.
  unfold block_ready. rewrite !forallb_forall. intros H x Hx. apply slice_ready_mono, H, Hx.
Qed.

Section Honest.
Variables (slot : N) (ct : content) (hb : hblock).
Hypothesis Hok : hb_ok slot ct hb = true.
Let K := hb_len hb.

Lemma hb_ok_parts : 0 < K /\ forallb (hb_slice_ok ct) hb = true /\
  exists p, hb_parent ct hb = Some p /\ fst p < slot.
Proof.
  unfold hb_ok in Hok. rewrite !andb_true_iff in Hok. destruct Hok as [[A B] C].
  split; [subst K; lia|]. split; [exact B|].
  destruct (hb_parent ct hb) as [p|]; [|discriminate]. exists p. split; [reflexivity | lia].
Qed.
Lemma K_pos : 0 < K. Proof. exact (proj1 hb_ok_parts). Qed.
Lemma hb_nth_ok i : i < K -> hb_slice_ok ct (nth (N.to_nat i) hb (0, 0)) = true.
Proof.
  intros Hi. destruct hb_ok_parts as [_ [B _]]. rewrite forallb_forall in B. apply B.
  apply nth_In. subst K. unfold hb_len in Hi. lia.
Qed.
Lemma hb_size_ok i : i < K -> (hb_size hb i =? 0) = false /\ (hb_size hb i mod 2 =? 0) = true.
Proof.
  intros Hi. pose proof (hb_nth_ok i Hi) as H. unfold hb_slice_ok in H. rewrite !andb_true_iff in H.
  destruct H as [[A B] _]. unfold hb_size. split; [destruct (snd (nth (N.to_nat i) hb (0, 0)) =? 0); [discriminate | reflexivity] | exact B].
Qed.
Lemma hb_content i : i < K -> exists p, content_of ct (hb_root hb i) = DecOk p true.
Proof.
  intros Hi. pose proof (hb_nth_ok i Hi) as H. unfold hb_slice_ok in H. rewrite !andb_true_iff in H.
  destruct H as [_ C]. unfold hb_root.
  destruct (content_of ct (fst (nth (N.to_nat i) hb (0, 0)))) as [p [|]|]; try discriminate. exists p. reflexivity.
Qed.
Lemma hb_rslice_ok i : i < K -> exists p, hb_rslice ct hb i = mkRS (hb_root hb i) p true /\
  content_of ct (hb_root hb i) = DecOk p true.
Proof.
  intros Hi. destruct (hb_content i Hi) as [p Hp]. exists p. unfold hb_rslice. rewrite Hp. auto.
Qed.
Lemma hb_parent_ok : exists p0 parent, rs_parent (hb_rslice ct hb 0) = Some p0 /\
  walk_slices (hb_slices ct hb) p0 false = Some parent /\ hb_parent ct hb = Some parent /\ fst parent < slot.
Proof.
  destruct hb_ok_parts as [_ [_ [p [Hp Hs]]]]. pose proof Hp as Hp'. unfold hb_parent in Hp.
  destruct (rs_parent (hb_rslice ct hb 0)) as [p0|]; [|discriminate].
  exists p0, p. auto.
Qed.

Definition full_slice (i : N) : list (N * bshred) :=
  map (fun j => (j, hshred hb i j)) (seqN 0 (N.to_nat TOTAL_SHREDS)).
Definition slice_shreds_ok (i : N) (shs : list (N * bshred)) : Prop :=
  forall j s, In (j, s) shs -> s = hshred hb i j.

Lemma by_index_head i shs : shs <> [] -> slice_shreds_ok i shs ->
  exists j0 rest, by_index shs = (j0, hshred hb i j0) :: rest.
Proof.
  intros Hne Hs. destruct (by_index shs) as [|[j0 s0] rest] eqn:E.
  - exfalso. apply Hne. apply length_zero_iff_nil. rewrite <- by_index_len, E. reflexivity.
  - exists j0, rest. f_equal. f_equal. apply Hs. apply by_index_in. rewrite E. left. reflexivity.
Qed.

Lemma deshred_honest i shs : i < K -> shs <> [] -> slice_shreds_ok i shs ->
  deshred ct shs = if N.of_nat (length shs) <? DATA_SHREDS then DNotEnough else DOk (hb_rslice ct hb i).
Proof.
  intros Hi Hne Hs. unfold deshred. destruct (by_index_head i shs Hne Hs) as [j0 [rest E]].
  assert (Hall : forall j s, In (j, s) (by_index shs) -> s = hshred hb i j)
    by (intros j s Hj; apply Hs, by_index_in; exact Hj).
  pose proof (by_index_len shs) as Hlen.
  remember (by_index shs) as bs eqn:Hbs. clear Hbs. subst bs.
  assert (Hlay : slice_layout_ok ((j0, hshred hb i j0) :: rest) = true).
  { unfold slice_layout_ok.
    destruct (hb_size_ok i Hi) as [A B].
    unfold hshred at 1 2. cbn [b_size]. rewrite A, B. cbn [negb andb].
    apply forallb_forall. intros [j s] Hj. apply Hall in Hj. subst s.
    cbn [fst snd]. unfold hshred. cbn [b_size b_is_data]. rewrite N.eqb_refl, eqb_reflx. reflexivity. }
  rewrite Hlay, Hlen. cbn [negb].
  destruct (N.of_nat (length shs) <? DATA_SHREDS); [reflexivity|].
  unfold hshred at 1. cbn [b_root]. destruct (hb_rslice_ok i Hi) as [p [Hr Hc]]. rewrite Hc, Hr.
  reflexivity.
Qed.

Lemma fill_missing_honest i shs : shs <> [] -> slice_shreds_ok i shs -> fill_missing shs = full_slice i.
Proof.
  intros Hne Hs. unfold fill_missing. destruct (by_index_head i shs Hne Hs) as [j0 [rest E]]. rewrite E.
  unfold canonical_shreds, full_slice. rewrite map_map. apply map_ext. intros j. cbn [fst].
  destruct (alookup j shs) as [s|] eqn:El.
  - apply alookup_In in El. apply Hs in El. subst. reflexivity.
  - unfold hshred. cbn [b_slice b_last b_root b_size]. reflexivity.
Qed.

Lemma full_slice_lookup i j : alookup j (full_slice i) = if j <? TOTAL_SHREDS then Some (hshred hb i j) else None.
Proof.
  unfold full_slice. rewrite (alookup_map_seqN (fun j => hshred hb i j)).
  replace (0 <=? j) with true by lia. cbn [andb].
  replace (0 + N.of_nat (N.to_nat TOTAL_SHREDS)) with TOTAL_SHREDS by lia. reflexivity.
Qed.
Lemma full_slice_not_nil i : full_slice i <> [].
Proof.
  intros C. pose proof (full_slice_lookup i 0) as H. rewrite C in H. cbn [alookup] in H.
  pose proof total_pos. replace (0 <? TOTAL_SHREDS) with true in H by lia. discriminate.
Qed.

(* the sorted reconstructed slices of a complete honest block are the block's slices *)
Lemma hb_slices_sorted : ssorted (hb_slices ct hb).
Proof.
  unfold hb_slices. generalize (hb_rslice ct hb) as f. generalize 0 as lo.
  induction (length hb) as [|n IH]; intros lo f; [exact I|].
  rewrite seqN_S. cbn [map ssorted]. split; [|apply IH].
  intros y Hy. apply in_map_iff in Hy. destruct Hy as [x [<- Hx]]. apply seqN_in in Hx. cbn [fst]. lia.
Qed.
Lemma hb_slices_lookup i : alookup i (hb_slices ct hb) = if i <? K then Some (hb_rslice ct hb i) else None.
Proof.
  unfold hb_slices. rewrite (alookup_map_seqN (hb_rslice ct hb)).
  replace (0 <=? i) with true by lia. cbn [andb]. subst K. unfold hb_len. reflexivity.
Qed.
Lemma hb_slices_roots : map (fun x => rs_root (snd x)) (hb_slices ct hb) = hb_hash hb.
Proof.
  unfold hb_slices, hb_hash. rewrite map_map. cbn [snd].
  apply nth_ext with (d := 0) (d' := 0); [rewrite !map_length, seqN_len; reflexivity|].
  intros n Hn. rewrite map_length, seqN_len in Hn.
  rewrite (nth_indep _ 0 (rs_root (hb_rslice ct hb 0))) by (rewrite map_length, seqN_len; exact Hn).
  rewrite (map_nth (fun x => rs_root (hb_rslice ct hb x))).
  unfold seqN. rewrite (nth_indep _ 0 (0 + N.of_nat 0)) by (rewrite map_length, seq_length; exact Hn).
  rewrite (map_nth (fun i => 0 + N.of_nat i)), seq_nth by exact Hn.
  rewrite (nth_indep _ 0 (fst (0, 0))) by (rewrite map_length; exact Hn). rewrite (map_nth fst).
  replace (rs_root (hb_rslice ct hb (0 + N.of_nat (0 + n)))) with (hb_root hb (0 + N.of_nat (0 + n))).
  - unfold hb_root. replace (N.to_nat (0 + N.of_nat (0 + n))) with n by lia. reflexivity.
  - unfold hb_rslice. destruct (content_of ct _); reflexivity.
Qed.

(* ---------- the state of the blockstore as a function of the delivered shreds ---------- *)
Lemma hs_slice i j : b_slice (hshred hb i j) = i. Proof. reflexivity. Qed.
Lemma hs_index i j : b_index (hshred hb i j) = j. Proof. reflexivity. Qed.
Lemma idxs_h_same l i j : idxs (l ++ [hshred hb i j]) i = idxs l i ++ [j].
Proof. exact (idxs_snoc_same l (hshred hb i j)). Qed.
Lemma idxs_h_other l i j i' : i <> i' -> idxs (l ++ [hshred hb i j]) i' = idxs l i'.
Proof. intros H. apply idxs_snoc_other. exact H. Qed.
Lemma ready_h_other l i j i' : i <> i' -> slice_ready (l ++ [hshred hb i j]) i' = slice_ready l i'.
Proof. intros H. apply slice_ready_other. exact H. Qed.
Lemma ready_h_old l i j : In j (idxs l i) -> slice_ready (l ++ [hshred hb i j]) i = slice_ready l i.
Proof. intros H. unfold slice_ready. pose proof (cnt_snoc_old l (hshred hb i j) H) as E. rewrite hs_slice in E. rewrite E. reflexivity. Qed.

Lemma NoDup_snoc {A} (l : list A) x : NoDup l -> ~ In x l -> NoDup (l ++ [x]).
Proof.
  induction l as [|a l IH]; intros Hnd Hn; cbn [app].
  - constructor; [intros []|constructor].
  - inversion Hnd as [|? ? Ha Hnd']; subst. constructor.
    + rewrite in_app_iff. cbn [In]. intros [H|[H|[]]]; [auto | subst; apply Hn; left; reflexivity].
    + apply IH; [exact Hnd' | intros H; apply Hn; right; exact H].
Qed.

Definition honestP (s : bshred) : Prop :=
  exists i j, i < K /\ j < TOTAL_SHREDS /\ s = hshred hb i j.
Lemma honest_shred_P s : honest_shred hb s = true -> honestP s.
Proof.
  unfold honest_shred. rewrite !andb_true_iff. intros [[A B] C]. apply bshred_eqb_eq in C.
  exists (b_slice s), (b_index s). repeat split; [subst K; lia | lia | exact C].
Qed.

Definition touched (l : list bshred) (i : N) : bool := existsb (fun s => b_slice s =? i) l.
Lemma untouched_idxs l i : touched l i = false -> idxs l i = [].
Proof.
  intros H. unfold idxs. rewrite filter_none; [reflexivity|]. intros x Hx.
  destruct (b_slice x =? i) eqn:E; [|reflexivity]. rewrite <- H. symmetry.
  apply existsb_exists. exists x. auto.
Qed.
Lemma untouched_not_ready l i : touched l i = false -> slice_ready l i = false.
Proof.
  intros H. unfold slice_ready, cnt. rewrite untouched_idxs by exact H.
  cbn [nodup length N.of_nat]. pose proof data_gt_1. lia.
Qed.
Lemma touched_snoc l s i : touched (l ++ [s]) i = touched l i || (b_slice s =? i).
Proof. unfold touched. rewrite existsb_app. cbn [existsb]. rewrite orb_false_r. reflexivity. Qed.

Lemma block_ready_iff l : block_ready hb l = true <-> forall i, i < K -> slice_ready l i = true.
Proof.
  unfold block_ready. rewrite forallb_forall. split.
  - intros H i Hi. apply H. apply seqN_in. subst K. unfold hb_len in Hi. lia.
  - intros H i Hi. apply H. apply seqN_in in Hi. subst K. unfold hb_len. lia.
Qed.
Lemma block_not_ready l i : i < K -> slice_ready l i = false -> block_ready hb l = false.
Proof.
  intros Hi H. destruct (block_ready hb l) eqn:E; [|reflexivity].
  rewrite (proj1 (block_ready_iff l) E i Hi) in H. discriminate.
Qed.
Lemma ready_ext l l' : (forall i, i < K -> slice_ready l' i = slice_ready l i) ->
  block_ready hb l' = block_ready hb l.
Proof.
  intros H. apply eq_true_iff_eq. rewrite !block_ready_iff. split; intros A i Hi.
  - rewrite <- H by exact Hi. apply A. exact Hi.
  - rewrite H by exact Hi. apply A. exact Hi.
Qed.
Lemma ready_same_dup l i j : slice_ready l i = true \/ In j (idxs l i) ->
  forall i', slice_ready (l ++ [hshred hb i j]) i' = slice_ready l i'.
Proof.
  intros Hd i'. destruct (N.eq_dec i i') as [<-|Hne]; [|apply ready_h_other; exact Hne].
  destruct Hd as [A|A]; [|apply ready_h_old; exact A].
  rewrite A. apply slice_ready_mono. exact A.
Qed.

Definition CacheOk (c : list (N * (bool * N))) : Prop :=
  forall i x, alookup i c = Some x -> x = (hb_is_last hb i, hb_root hb i).
Definition LastOk (l : list bshred) (o : option N) : Prop :=
  o = if touched l (K - 1) then Some (K - 1) else None.
Definition SliceState (l : list bshred) (i : N) (shs : list (N * bshred)) : Prop :=
  if slice_ready l i then shs = full_slice i
  else NoDup (map fst shs) /\ slice_shreds_ok i shs /\ (forall j, In j (map fst shs) <-> In j (idxs l i)).
Definition ShredsOk (l : list bshred) (m : list (N * list (N * bshred))) : Prop :=
  (forall k, In k (map fst m) -> k < K) /\ (l = [] <-> m = []) /\
  (forall i, i < K -> SliceState l i (aget [] i m)).
Definition hb_result : option (blockhash * blockid) :=
  option_map (fun p => (hb_hash hb, p)) (hb_parent ct hb).
Definition SlicesMatch (l : list bshred) (sl : list (N * rslice)) : Prop :=
  NoDup (map fst sl) /\
  forall i, alookup i sl = if (i <? K) && slice_ready l i then Some (hb_rslice ct hb i) else None.
Definition SlicesOk (l : list bshred) (c : option (blockhash * blockid)) (sl : list (N * rslice)) : Prop :=
  (forall k, In k (map fst sl) -> k < K) /\
  c = (if block_ready hb l then hb_result else None) /\
  (block_ready hb l = false -> SlicesMatch l sl).
Definition Inv (l : list bshred) (d : bdata) : Prop :=
  CacheOk (bd_cache d) /\ LastOk l (bd_last d) /\ ShredsOk l (bd_shreds d) /\
  SlicesOk l (bd_completed d) (bd_slices d).

Lemma inv_empty : Inv [] bd_empty.
Proof.
  split; [intros i x H; discriminate|]. split; [reflexivity|]. split.
  - split; [intros k []|]. split; [split; reflexivity|]. intros i Hi. unfold SliceState.
    rewrite slice_ready_nil. cbn. split; [constructor|]. split; [intros j s []|]. intros j. reflexivity.
  - assert (E : block_ready hb [] = false) by (apply (block_not_ready [] 0 K_pos), slice_ready_nil).
    split; [intros k []|]. rewrite E. split; [reflexivity|]. intros _. split; [constructor|].
    intros i. rewrite slice_ready_nil, andb_false_r. reflexivity.
Qed.

Lemma slice_state_other l i j i' x : i <> i' -> SliceState l i' x -> SliceState (l ++ [hshred hb i j]) i' x.
Proof.
  intros Hne H. unfold SliceState in *. rewrite ready_h_other, idxs_h_other by exact Hne. exact H.
Qed.

Lemma shreds_dup l m i j : ShredsOk l m -> i < K -> slice_ready l i = true \/ In j (idxs l i) ->
  ShredsOk (l ++ [hshred hb i j]) m.
Proof.
  intros [Hk [Hn Hs]] Hi Hd. split; [exact Hk|]. split.
  - split; intros H; [destruct l; discriminate|]. exfalso. apply Hn in H. subst l.
    destruct Hd as [A|A]; [rewrite slice_ready_nil in A; discriminate | exact A].
  - intros i' Hi'. destruct (N.eq_dec i i') as [<-|Hne]; [|apply slice_state_other; [exact Hne | apply Hs; exact Hi']].
    specialize (Hs i Hi). unfold SliceState in *. rewrite (ready_same_dup l i j Hd i).
    destruct (slice_ready l i) eqn:R; [exact Hs|].
    destruct Hd as [A|A]; [discriminate|]. destruct Hs as [H1 [H2 H3]]. split; [exact H1|]. split; [exact H2|].
    intros j'. rewrite H3, idxs_h_same, in_app_iff. cbn [In]. split; [auto | intros [B|[<-|[]]]; auto].
Qed.

Lemma keys_ainsert {V} k (v : V) m : k < K -> (forall x, In x (map fst m) -> x < K) ->
  forall x, In x (map fst (ainsert k v m)) -> x < K.
Proof. intros Hk H x Hx. apply ainsert_keys_incl in Hx. destruct Hx as [->|Hx]; auto. Qed.

Lemma shreds_new l m i j : ShredsOk l m -> i < K -> slice_ready l i = false ->
  ~ In j (idxs l i) -> slice_ready (l ++ [hshred hb i j]) i = false ->
  ShredsOk (l ++ [hshred hb i j]) (ainsert i (aget [] i m ++ [(j, hshred hb i j)]) m).
Proof.
  intros [Hk [Hn Hs]] Hi R Hnin R'. split; [apply keys_ainsert; assumption|]. split.
  - split; intros H; [destruct l; discriminate | exfalso; exact (ainsert_not_nil _ _ _ H)].
  - intros i' Hi'. destruct (N.eq_dec i i') as [<-|Hne].
    + rewrite aget_ainsert_same'. specialize (Hs i Hi). unfold SliceState in *. rewrite R in Hs. rewrite R'.
      destruct Hs as [H1 [H2 H3]]. rewrite map_app. cbn [map fst]. split; [|split].
      * apply NoDup_snoc; [exact H1 | rewrite H3; exact Hnin].
      * intros j' s'. rewrite in_app_iff. cbn [In]. intros [A|[A|[]]]; [apply H2; exact A | injection A as <- <-; reflexivity].
      * intros j'. rewrite idxs_h_same, !in_app_iff, H3. reflexivity.
    + rewrite aget_ainsert_other' by auto. apply slice_state_other; [exact Hne | apply Hs; exact Hi'].
Qed.

Lemma shreds_full l m i j X : ShredsOk l m -> i < K -> slice_ready (l ++ [hshred hb i j]) i = true ->
  ShredsOk (l ++ [hshred hb i j]) (ainsert i (full_slice i) (ainsert i X m)).
Proof.
  intros [Hk [Hn Hs]] Hi R'. split; [apply keys_ainsert; [exact Hi | apply keys_ainsert; assumption]|]. split.
  - split; intros H; [destruct l; discriminate | exfalso; exact (ainsert_not_nil _ _ _ H)].
  - intros i' Hi'. destruct (N.eq_dec i i') as [<-|Hne].
    + rewrite aget_ainsert_same'. unfold SliceState. rewrite R'. reflexivity.
    + rewrite !aget_ainsert_other' by auto. apply slice_state_other; [exact Hne | apply Hs; exact Hi'].
Qed.

Lemma new_length l i j (shs : list (N * bshred)) : NoDup (map fst shs) ->
  (forall j', In j' (map fst shs) <-> In j' (idxs l i)) -> ~ In j (idxs l i) ->
  N.of_nat (length (shs ++ [(j, hshred hb i j)])) = cnt (l ++ [hshred hb i j]) i.
Proof.
  intros Hnd Hiff Hnin. unfold cnt. rewrite idxs_h_same, <- (map_length fst), map_app. cbn [map fst].
  apply dcount_keys; [apply NoDup_snoc; [exact Hnd | rewrite Hiff; exact Hnin]|].
  intros x. rewrite !in_app_iff, Hiff. reflexivity.
Qed.

Lemma slices_same l l' c sl : (forall i, i < K -> slice_ready l' i = slice_ready l i) ->
  SlicesOk l c sl -> SlicesOk l' c sl.
Proof.
  intros H [Hk [Hc Hm]]. split; [exact Hk|]. rewrite (ready_ext l l' H). split; [exact Hc|].
  intros E. destruct (Hm E) as [Hnd Hl]. split; [exact Hnd|]. intros i. rewrite Hl.
  destruct (i <? K) eqn:Ei; [|reflexivity]. rewrite H by lia. reflexivity.
Qed.

Lemma slices_match_add l sl i j : SlicesMatch l sl -> i < K -> slice_ready l i = false ->
  slice_ready (l ++ [hshred hb i j]) i = true ->
  SlicesMatch (l ++ [hshred hb i j]) (ainsert i (hb_rslice ct hb i) sl).
Proof.
  intros [Hnd Hl] Hi R R'.
  assert (Hnone : alookup i sl = None) by (rewrite Hl, R, andb_false_r; reflexivity).
  split.
  - rewrite ainsert_keys_new by exact Hnone. apply NoDup_snoc; [exact Hnd | apply alookup_none_keys; exact Hnone].
  - intros i'. destruct (N.eq_dec i' i) as [->|Hne].
    + rewrite alookup_ainsert_same, R'. replace (i <? K) with true by lia. reflexivity.
    + rewrite alookup_ainsert_other by exact Hne. rewrite ready_h_other by auto. apply Hl.
Qed.

Lemma slices_match_keys l sl : SlicesMatch l sl -> forall k, In k (map fst sl) -> k < K.
Proof.
  intros [_ Hl] k Hk. apply alookup_in_keys in Hk. rewrite Hl in Hk.
  destruct (k <? K) eqn:E; [lia | exfalso; apply Hk; reflexivity].
Qed.

Lemma slices_match_length l sl : SlicesMatch l sl -> (N.of_nat (length sl) =? K) = block_ready hb l.
Proof.
  intros [Hnd Hl].
  assert (Hin : forall i, In i (map fst sl) <-> i < K /\ slice_ready l i = true).
  { intros i. rewrite <- alookup_in_keys, Hl. destruct (i <? K) eqn:A, (slice_ready l i) eqn:B; cbn [andb];
      split; try congruence; try (intros [? ?]; lia); try (intros [? ?]; discriminate); intros _; split; [lia | reflexivity]. }
  assert (Hincl : incl (map fst sl) (seqN 0 (length hb))).
  { intros i Hi. apply Hin in Hi. apply seqN_in. subst K. unfold hb_len in Hi. lia. }
  pose proof (NoDup_incl_length Hnd Hincl) as Hle. rewrite map_length, seqN_len in Hle.
  destruct (block_ready hb l) eqn:E.
  - assert (Hincl' : incl (seqN 0 (length hb)) (map fst sl)).
    { intros i Hi. apply Hin. apply seqN_in in Hi. assert (Hi' : i < K) by (subst K; unfold hb_len; lia).
      split; [exact Hi' | apply (proj1 (block_ready_iff l) E); exact Hi']. }
    pose proof (NoDup_incl_length (seqN_nodup 0 (length hb)) Hincl') as Hge. rewrite map_length, seqN_len in Hge.
    subst K. unfold hb_len. lia.
  - destruct (N.of_nat (length sl) =? K) eqn:El; [|reflexivity]. exfalso.
    assert (Hincl' : incl (seqN 0 (length hb)) (map fst sl)).
    { apply NoDup_length_incl; [exact Hnd | | exact Hincl]. rewrite map_length, seqN_len. subst K. unfold hb_len in El. lia. }
    assert (block_ready hb l = true); [|congruence].
    apply block_ready_iff. intros i Hi. apply Hin, Hincl', seqN_in. subst K. unfold hb_len in Hi. lia.
Qed.

Lemma slices_match_sorted l sl : SlicesMatch l sl -> block_ready hb l = true ->
  slices_sorted sl = hb_slices ct hb /\ alookup 0 sl = Some (hb_rslice ct hb 0).
Proof.
  intros [Hnd Hl] E. pose proof (proj1 (block_ready_iff l) E) as Hall. split.
  - destruct (slices_sorted_spec sl Hnd) as [S L]. apply ssorted_ext; [exact S | apply hb_slices_sorted|].
    intros i. rewrite L, Hl, hb_slices_lookup. destruct (i <? K) eqn:Ei; [|reflexivity].
    rewrite Hall by lia. reflexivity.
  - rewrite Hl, (Hall 0 K_pos). pose proof K_pos. replace (0 <? K) with true by lia. reflexivity.
Qed.

(* ---------- BlockData::add_shred in three phases ---------- *)
Definition cache_step (d : bdata) (s : bshred) : option bdata :=
  match alookup (b_slice s) (bd_cache d) with
  | Some c => if commit_eqb c (commitment_of s) then Some d else None
  | None => Some (mkBD (bd_completed d) (bd_shreds d) (bd_slices d) (bd_last d)
                       (ainsert (b_slice s) (commitment_of s) (bd_cache d)))
  end.
Definition last_step (d1 : bdata) (s : bshred) : option bdata :=
  match bd_last d1 with
  | None => if b_last s then
              if existsb (fun x => b_slice s <? fst x) (bd_shreds d1) then None
              else Some (mark_last_slice d1 (b_slice s))
            else Some d1
  | Some l => if ((b_slice s <? l) && negb (b_last s)) || ((b_slice s =? l) && b_last s) then Some d1 else None
  end.
Definition block_step (chk : bool) (slot : N) (d4 : bdata) : bdata * add_res :=
  let '(d5, rb) := try_reconstruct_block chk slot d4 in
  match rb with
  | RBNoAction => (d5, AOk None)
  | RBError => (d5, AErr EInvalidShred)
  | RBComplete h p => (d5, AOk (Some (BBlock h p)))
  | RBPanic => (d5, APanic)
  end.
Definition slice_step (chk : bool) (c : content) (slot : N) (d3 : bdata) (idx : N) : bdata * add_res :=
  let '(d4, r) := try_reconstruct_slice c d3 idx in
  match r with
  | RSNoAction => (d4, AOk None)
  | RSError => (d4, AErr EInvalidShred)
  | RSComplete => block_step chk slot d4
  end.
Definition store_step (chk : bool) (c : content) (slot : N) (d2 : bdata) (s : bshred) : bdata * add_res :=
  let idx := b_slice s in
  let shs := aget [] idx (bd_shreds d2) in
  match alookup (b_index s) shs with
  | Some _ =>
    (match alookup idx (bd_shreds d2) with Some _ => d2 | None => bd_set_shreds d2 (ainsert idx [] (bd_shreds d2)) end,
     AErr EDuplicate)
  | None =>
    let d3 := bd_set_shreds d2 (ainsert idx (shs ++ [(b_index s, s)]) (bd_shreds d2)) in
    if match bd_shreds d2 with [] => true | _ => false end then (d3, AOk (Some BFirstShred))
    else slice_step chk c slot d3 idx
  end.
Lemma bd_add_shred_phases chk c sl d s : bd_add_shred chk c sl d s =
  match cache_step d s with
  | None => (d, AErr EEquivocation)
  | Some d1 => match last_step d1 s with
               | None => (d1, AErr EEquivocation)
               | Some d2 => store_step chk c sl d2 s
               end
  end.
Proof.
  unfold bd_add_shred, cache_step, last_step, store_step, slice_step, block_step.
  destruct (alookup (b_slice s) (bd_cache d)) as [c0|]; [destruct (commit_eqb c0 (commitment_of s))|]; reflexivity.
Qed.

Lemma rec_block_no_last chk sl d : bd_last d = None -> try_reconstruct_block chk sl d = (d, RBNoAction).
Proof. intros H. unfold try_reconstruct_block. rewrite H. destruct (bd_completed d); reflexivity. Qed.
Lemma rec_block_short chk sl d last : bd_last d = Some last ->
  (N.of_nat (length (bd_slices d)) =? last + 1) = false -> try_reconstruct_block chk sl d = (d, RBNoAction).
Proof. intros H E. unfold try_reconstruct_block. rewrite H, E. destruct (bd_completed d); reflexivity. Qed.
Lemma rec_block_complete sl d last first p0 parent :
  bd_completed d = None -> bd_last d = Some last ->
  (N.of_nat (length (bd_slices d)) =? last + 1) = true ->
  alookup 0 (bd_slices d) = Some first -> rs_parent first = Some p0 ->
  walk_slices (slices_sorted (bd_slices d)) p0 false = Some parent -> fst parent < sl ->
  try_reconstruct_block true sl d =
    (mkBD (Some (map (fun x => rs_root (snd x)) (slices_sorted (bd_slices d)), parent)) (bd_shreds d)
          (filter (fun x => negb (fst x <=? last)) (bd_slices d)) (bd_last d) (bd_cache d),
     RBComplete (map (fun x => rs_root (snd x)) (slices_sorted (bd_slices d))) parent).
Proof.
  intros Hc Hl Hn Hf Hp Hw Hs. unfold try_reconstruct_block. rewrite Hc, Hl, Hn, Hf, Hp, Hw. cbn [negb].
  replace (fst parent <? sl) with true by lia. reflexivity.
Qed.

Lemma cache_honest l d i j : Inv l d -> i < K ->
  exists d1, cache_step d (hshred hb i j) = Some d1 /\ Inv l d1.
Proof.
  intros [HC [HL [HS HSl]]] Hi. unfold cache_step. rewrite hs_slice.
  assert (Ec : commitment_of (hshred hb i j) = (hb_is_last hb i, hb_root hb i)) by reflexivity.
  destruct (alookup i (bd_cache d)) as [c|] eqn:E.
  - rewrite (HC i c E), Ec. unfold commit_eqb. cbn [fst snd]. rewrite eqb_reflx, N.eqb_refl. cbn [andb].
    exists d. split; [reflexivity|]. exact (conj HC (conj HL (conj HS HSl))).
  - eexists. split; [reflexivity|]. split; [|split; [exact HL | split; [exact HS | exact HSl]]].
    cbn [bd_cache]. intros i' x. destruct (N.eq_dec i' i) as [->|Hne].
    + rewrite alookup_ainsert_same, Ec. intros H. injection H as <-. reflexivity.
    + rewrite alookup_ainsert_other by exact Hne. apply HC.
Qed.

Lemma last_honest l d1 i j : Inv l d1 -> i < K ->
  exists d2, last_step d1 (hshred hb i j) = Some d2 /\
    bd_cache d2 = bd_cache d1 /\ bd_shreds d2 = bd_shreds d1 /\ bd_slices d2 = bd_slices d1 /\
    bd_completed d2 = bd_completed d1 /\ LastOk (l ++ [hshred hb i j]) (bd_last d2).
Proof.
  intros [HC [HL [HS HSl]]] Hi. unfold last_step. rewrite hs_slice.
  assert (El : b_last (hshred hb i j) = (i =? K - 1)) by reflexivity. rewrite El.
  pose proof K_pos as HK.
  assert (Hcase : (touched l (K - 1) = true /\ bd_last d1 = Some (K - 1)) \/
                  (touched l (K - 1) = false /\ bd_last d1 = None)).
  { unfold LastOk in HL. destruct (touched l (K - 1)); auto. }
  destruct Hcase as [[T HL']|[T HL']]; rewrite HL'; unfold LastOk; rewrite touched_snoc, hs_slice, T; cbn [orb].
  - replace ((i <? K - 1) && negb (i =? K - 1) || (i =? K - 1) && (i =? K - 1)) with true by lia.
    exists d1. repeat split; try reflexivity. exact HL'.
  - destruct (i =? K - 1) eqn:Ei.
    + apply N.eqb_eq in Ei. destruct HS as [Hk _]. destruct HSl as [Hk' _].
      rewrite existsb_none.
      2:{ intros x Hx. assert (fst x < K) by (apply Hk, in_map, Hx). lia. }
      exists (mark_last_slice d1 i). unfold mark_last_slice. cbn [bd_cache bd_shreds bd_slices bd_completed bd_last].
      rewrite !filter_all.
      * repeat split; try reflexivity. rewrite Ei. reflexivity.
      * intros x Hx. assert (fst x < K) by (apply Hk', in_map, Hx). lia.
      * intros x Hx. assert (fst x < K) by (apply Hk, in_map, Hx). lia.
    + exists d1. repeat split; try reflexivity. exact HL'.
Qed.

Definition is_nilb {A} (l : list A) : bool := match l with [] => true | _ => false end.
Definition expected_res (l : list bshred) (s : bshred) : add_res :=
  if is_dup l s then AErr EDuplicate
  else if is_nilb l then AOk (Some BFirstShred)
  else if block_ready hb (l ++ [s]) then
         match hb_parent ct hb with Some p => AOk (Some (BBlock (hb_hash hb) p)) | None => APanic end
       else AOk None.

Lemma rec_slice_unfold c d i : bd_completed d = None -> alookup i (bd_slices d) = None ->
  try_reconstruct_slice c d i =
  match deshred c (aget [] i (bd_shreds d)) with
  | DNotEnough => (d, RSNoAction)
  | DInvalidLayout | DError => (d, RSError)
  | DOk r =>
    let d1 := bd_set_shreds d (ainsert i (fill_missing (aget [] i (bd_shreds d))) (bd_shreds d)) in
    match rs_parent r with
    | None => if i =? 0 then (d1, RSError)
              else (mkBD (bd_completed d1) (bd_shreds d1) (ainsert i r (bd_slices d1)) (bd_last d1) (bd_cache d1), RSComplete)
    | Some _ => (mkBD (bd_completed d1) (bd_shreds d1) (ainsert i r (bd_slices d1)) (bd_last d1) (bd_cache d1), RSComplete)
    end
  end.
Proof. intros H1 H2. unfold try_reconstruct_slice. rewrite H1, H2. reflexivity. Qed.

Lemma store_honest l d2 i j :
  i < K -> j < TOTAL_SHREDS ->
  CacheOk (bd_cache d2) -> LastOk (l ++ [hshred hb i j]) (bd_last d2) -> ShredsOk l (bd_shreds d2) ->
  SlicesOk l (bd_completed d2) (bd_slices d2) ->
  exists d', store_step true ct slot d2 (hshred hb i j) = (d', expected_res l (hshred hb i j)) /\
             Inv (l ++ [hshred hb i j]) d'.
Proof.
  intros Hi Hj HC HL HS HSl. set (s := hshred hb i j) in *.
  unfold store_step, expected_res, is_dup.
  change (b_slice s) with i. change (b_index s) with j. cbv zeta.
  pose proof HS as [Hkeys [Hnil Hst]]. pose proof (Hst i Hi) as Hsi. unfold SliceState in Hsi.
  assert (HIdup : slice_ready l i = true \/ In j (idxs l i) -> Inv (l ++ [s]) d2).
  { intros Hd. split; [exact HC|]. split; [exact HL|]. split; [apply shreds_dup; auto|].
    apply (slices_same l); [intros i' _; apply ready_same_dup; exact Hd | exact HSl]. }
  destruct (slice_ready l i) eqn:R.
  - rewrite Hsi, full_slice_lookup. replace (j <? TOTAL_SHREDS) with true by lia. cbn [orb].
    destruct (alookup i (bd_shreds d2)) eqn:Ea.
    + exists d2. split; [reflexivity | apply HIdup; left; reflexivity].
    + exfalso. unfold aget in Hsi. rewrite Ea in Hsi. symmetry in Hsi. exact (full_slice_not_nil i Hsi).
  - destruct Hsi as [Hnd [Hsok Hiff]]. cbn [orb].
    destruct (alookup j (aget [] i (bd_shreds d2))) eqn:Ej.
    + assert (Hin : In j (idxs l i)) by (apply Hiff, alookup_in_keys; congruence).
      replace (existsb (N.eqb j) (idxs l i)) with true
        by (symmetry; apply existsb_exists; exists j; split; [exact Hin | apply N.eqb_refl]).
      destruct (alookup i (bd_shreds d2)) eqn:Ea.
      * exists d2. split; [reflexivity | apply HIdup; right; exact Hin].
      * exfalso. unfold aget in Ej. rewrite Ea in Ej. discriminate.
    + assert (Hnin : ~ In j (idxs l i)).
      { intros C. apply Hiff, alookup_in_keys in C. apply C. exact Ej. }
      replace (existsb (N.eqb j) (idxs l i)) with false.
      2:{ symmetry. apply existsb_none. intros x Hx. destruct (j =? x) eqn:E; [|reflexivity].
          apply N.eqb_eq in E. subst x. contradiction. }
      set (shs' := aget [] i (bd_shreds d2) ++ [(j, s)]).
      set (d3 := bd_set_shreds d2 (ainsert i shs' (bd_shreds d2))).
      assert (Hlen : N.of_nat (length shs') = cnt (l ++ [s]) i) by (apply new_length; assumption).
      assert (Hnb : block_ready hb l = false) by (apply (block_not_ready l i Hi R)).
      destruct HSl as [Hsk [Hcomp Hmatch]]. rewrite Hnb in Hcomp. specialize (Hmatch Hnb).
      assert (Hshs'ok : slice_shreds_ok i shs').
      { intros j' s'. unfold shs'. rewrite in_app_iff. cbn [In].
        intros [A|[A|[]]]; [apply Hsok; exact A | injection A as <- <-; reflexivity]. }
      assert (Hshs'ne : shs' <> []) by (unfold shs'; intros C; apply app_eq_nil in C; destruct C; discriminate).
      assert (HI3 : slice_ready (l ++ [s]) i = false -> Inv (l ++ [s]) d3).
      { intros R'. split; [exact HC|]. split; [exact HL|]. split; [apply shreds_new; assumption|].
        apply (slices_same l); [|split; [exact Hsk | split; [rewrite Hnb; exact Hcomp | intros _; exact Hmatch]]].
        intros i' _. destruct (N.eq_dec i i') as [<-|Hne]; [rewrite R', R; reflexivity | apply ready_h_other; exact Hne]. }
      assert (Hfirst : match bd_shreds d2 with [] => true | _ :: _ => false end = is_nilb l).
      { destruct l; [rewrite (proj1 Hnil eq_refl); reflexivity|].
        destruct (bd_shreds d2) eqn:Em; [|reflexivity]. exfalso. pose proof (proj2 Hnil eq_refl). discriminate. }
      rewrite Hfirst. destruct (is_nilb l) eqn:N0.
      * (* the very first shred of the slot *)
        exists d3. split; [reflexivity|]. apply HI3.
        assert (l = []) by (destruct l; [reflexivity | discriminate]). subst l.
        unfold slice_ready. rewrite <- Hlen. unfold shs'. rewrite (proj1 Hnil eq_refl).
        cbn [aget alookup app length]. pose proof data_gt_1. lia.
      * unfold slice_step.
        assert (Hc3 : bd_completed d3 = None) by exact Hcomp.
        assert (Hs3 : alookup i (bd_slices d3) = None).
        { change (bd_slices d3) with (bd_slices d2). destruct Hmatch as [_ Hl]. rewrite Hl, R, andb_false_r. reflexivity. }
        assert (Ha3 : aget [] i (bd_shreds d3) = shs') by (apply aget_ainsert_same').
        rewrite (rec_slice_unfold ct d3 i Hc3 Hs3), Ha3.
        rewrite (deshred_honest i shs' Hi Hshs'ne Hshs'ok), Hlen.
        destruct (cnt (l ++ [s]) i <? DATA_SHREDS) eqn:Ecnt.
        -- assert (R' : slice_ready (l ++ [s]) i = false) by (unfold slice_ready; lia).
           rewrite (block_not_ready (l ++ [s]) i Hi R').
           exists d3. split; [reflexivity | apply HI3; exact R'].
        -- assert (R' : slice_ready (l ++ [s]) i = true) by (unfold slice_ready; lia).
           rewrite (fill_missing_honest i shs' Hshs'ne Hshs'ok). cbv zeta.
           set (d4 := mkBD (bd_completed (bd_set_shreds d3 (ainsert i (full_slice i) (bd_shreds d3))))
                           (bd_shreds (bd_set_shreds d3 (ainsert i (full_slice i) (bd_shreds d3))))
                           (ainsert i (hb_rslice ct hb i) (bd_slices (bd_set_shreds d3 (ainsert i (full_slice i) (bd_shreds d3)))))
                           (bd_last (bd_set_shreds d3 (ainsert i (full_slice i) (bd_shreds d3))))
                           (bd_cache (bd_set_shreds d3 (ainsert i (full_slice i) (bd_shreds d3))))).
           assert (Hblock : exists d', block_step true slot d4 =
                     (d', if block_ready hb (l ++ [s]) then
                            match hb_parent ct hb with Some p => AOk (Some (BBlock (hb_hash hb) p)) | None => APanic end
                          else AOk None) /\ Inv (l ++ [s]) d').
           { assert (Hm4 : SlicesMatch (l ++ [s]) (bd_slices d4)) by (apply slices_match_add; assumption).
             assert (Hsh4 : ShredsOk (l ++ [s]) (bd_shreds d4)) by (apply shreds_full; assumption).
             assert (Hk4 : forall k, In k (map fst (bd_slices d4)) -> k < K) by (apply (slices_match_keys _ _ Hm4)).
             assert (HI4 : block_ready hb (l ++ [s]) = false -> Inv (l ++ [s]) d4).
             { intros B. split; [exact HC|]. split; [exact HL|]. split; [exact Hsh4|].
               split; [exact Hk4|]. rewrite B. split; [exact Hcomp | intros _; exact Hm4]. }
             pose proof (slices_match_length _ _ Hm4) as Hlen4.
             assert (HL4 : bd_last d4 = if touched (l ++ [s]) (K - 1) then Some (K - 1) else None) by exact HL.
             unfold block_step. pose proof K_pos as HK.
             destruct (touched (l ++ [s]) (K - 1)) eqn:T.
             - replace K with (K - 1 + 1) in Hlen4 at 1 by lia.
               destruct (block_ready hb (l ++ [s])) eqn:B.
               + destruct (slices_match_sorted _ _ Hm4 B) as [Hsorted H0].
                 destruct hb_parent_ok as [p0 [parent [Hp0 [Hwalk [Hpar Hslot]]]]].
                 rewrite (rec_block_complete slot d4 (K - 1) (hb_rslice ct hb 0) p0 parent); try assumption.
                 2:{ rewrite Hsorted. exact Hwalk. }
                 rewrite Hsorted, hb_slices_roots, Hpar. eexists. split; [reflexivity|].
                 split; [exact HC|]. split; [exact HL|]. split; [exact Hsh4|].
                 cbn [bd_completed bd_slices]. split.
                 * intros k Hk. apply Hk4. apply in_map_iff in Hk. destruct Hk as [x [<- Hx]].
                   apply filter_In in Hx. apply in_map. apply Hx.
                 * rewrite B. unfold hb_result. rewrite Hpar. split; [reflexivity | discriminate].
               + rewrite (rec_block_short true slot d4 (K - 1) HL4 Hlen4).
                 exists d4. split; [reflexivity | apply HI4; reflexivity].
             - rewrite (rec_block_no_last true slot d4 HL4).
               assert (B : block_ready hb (l ++ [s]) = false).
               { apply (block_not_ready _ (K - 1)); [lia | apply untouched_not_ready; exact T]. }
               rewrite B. exists d4. split; [reflexivity | apply HI4; exact B]. }
           destruct (rs_parent (hb_rslice ct hb i)) eqn:Ep; [exact Hblock|].
           destruct (i =? 0) eqn:E0; [|exact Hblock].
           exfalso. apply N.eqb_eq in E0. subst i. destruct hb_parent_ok as [p0 [_ [Hp0 _]]]. congruence.
Qed.

Lemma add_honest l d s : Inv l d -> honestP s ->
  exists d', bd_add_shred true ct slot d s = (d', expected_res l s) /\ Inv (l ++ [s]) d'.
Proof.
  intros HI [i [j [Hi [Hj ->]]]]. rewrite bd_add_shred_phases.
  destruct (cache_honest l d i j HI Hi) as [d1 [E1 HI1]]. rewrite E1.
  destruct (last_honest l d1 i j HI1 Hi) as [d2 [E2 [Hc [Hs [Hsl [Hco HL]]]]]]. rewrite E2.
  destruct HI1 as [HC1 [_ [HS1 HSl1]]].
  apply store_honest; try assumption; [rewrite Hc | rewrite Hs | rewrite Hco, Hsl]; assumption.
Qed.

Definition SdInv (l : list bshred) (sd : slotdata) : Prop :=
  sd_misbehaved sd = false /\ sd_panicked sd = false /\ Inv l (sd_dissem sd).

Lemma step_honest l sd s : SdInv l sd -> honestP s ->
  exists sd', bs_step true ct slot sd (BDissem s) =
                (sd', fst (expected_out ct hb l s), snd (expected_out ct hb l s)) /\ SdInv (l ++ [s]) sd'.
Proof.
  intros [Hm [Hp HI]] Hs. destruct (add_honest l _ s HI Hs) as [d' [E HI']].
  assert (Ht : shred_tag_ok s = true).
  { destruct Hs as [i [j [_ [_ ->]]]]. unfold shred_tag_ok, hshred. cbn [b_index b_is_data]. apply eqb_reflx. }
  unfold bs_step, bs_step_gen. rewrite Hp, Ht. cbn [andb negb]. rewrite Hm, E. unfold expected_res, expected_out.
  destruct hb_parent_ok as [p0 [parent [_ [_ [Hpar _]]]]]. rewrite Hpar.
  assert (Hn : forall A B : bs_ret * list bevent,
             match l with [] => A | _ :: _ => B end = if is_nilb l then A else B) by (intros; destruct l; reflexivity).
  rewrite Hn.
  destruct (is_dup l s); [|destruct (is_nilb l); [|destruct (block_ready hb (l ++ [s]))]];
    (eexists; split; [reflexivity|]; split; [reflexivity | split; [reflexivity | exact HI']]).
Qed.

Lemma run_snoc l s : bs_dissem_run ct slot (l ++ [s]) = bs_dissem_step ct slot (bs_dissem_run ct slot l) s.
Proof. unfold bs_dissem_run. rewrite fold_left_app. reflexivity. Qed.

Lemma expected_outs_app l1 : forall pre l2,
  expected_outs ct hb pre (l1 ++ l2) = expected_outs ct hb pre l1 ++ expected_outs ct hb (pre ++ l1) l2.
Proof.
  induction l1 as [|s l1 IH]; intros pre l2; cbn [app expected_outs].
  - rewrite app_nil_r. reflexivity.
  - rewrite IH, <- app_assoc. reflexivity.
Qed.

(* the run is the specified function of the delivered list, and the state satisfies the invariant *)
Lemma run_honest l : Forall honestP l ->
  exists sd, bs_dissem_run ct slot l = (sd, expected_outs ct hb [] l) /\ SdInv l sd.
Proof.
  induction l as [|s l IH] using rev_ind; intros Hh.
  - exists sd_empty. split; [reflexivity|]. split; [reflexivity|]. split; [reflexivity | exact inv_empty].
  - apply Forall_app in Hh. destruct Hh as [Hl Hs]. inversion Hs as [|? ? Hs' _]; subst.
    destruct (IH Hl) as [sd [E HI]]. destruct (step_honest l sd s HI Hs') as [sd' [E' HI']].
    exists sd'. split; [|exact HI'].
    rewrite run_snoc, E. unfold bs_dissem_step. cbn [fst snd]. rewrite E'.
    rewrite expected_outs_app. cbn [expected_outs app]. rewrite <- surjective_pairing. reflexivity.
Qed.

(* ---------- consequences for the outputs ---------- *)
Lemma hb_parent_some : exists parent, hb_parent ct hb = Some parent /\ fst parent < slot.
Proof. destruct hb_parent_ok as [p0 [parent [_ [_ [H1 H2]]]]]. exists parent. auto. Qed.
Lemma out_events_cons o os : out_events (o :: os) = snd o ++ out_events os.
Proof. reflexivity. Qed.
Lemma out_events_app a b : out_events (a ++ b) = out_events a ++ out_events b.
Proof. unfold out_events. apply flat_map_app. Qed.

Lemma expected_out_shape pre s :
  (fst (expected_out ct hb pre s) = BRErr EDuplicate \/ exists x, fst (expected_out ct hb pre s) = BROk x) /\
  ~ In BInvalidBlock (snd (expected_out ct hb pre s)).
Proof.
  unfold expected_out. destruct hb_parent_some as [p [-> _]].
  destruct (is_dup pre s); [|destruct pre; [|destruct (block_ready hb _)]]; cbn [fst snd In];
    (split; [eauto | intuition discriminate]).
Qed.
Lemma expected_outs_shape t : forall pre r ev, In (r, ev) (expected_outs ct hb pre t) ->
  (r = BRErr EDuplicate \/ exists x, r = BROk x) /\ ~ In BInvalidBlock ev.
Proof.
  induction t as [|s t IH]; intros pre r ev; cbn [expected_outs In]; [contradiction|].
  intros [H|H]; [|exact (IH _ _ _ H)].
  pose proof (expected_out_shape pre s) as S. rewrite H in S. exact S.
Qed.

Lemma is_dup_nil s : is_dup [] s = false.
Proof. unfold is_dup. rewrite slice_ready_nil. reflexivity. Qed.
Lemma first_out s : expected_out ct hb [] s = (BROk None, [BFirstShred]).
Proof. unfold expected_out. rewrite is_dup_nil. reflexivity. Qed.
Lemma no_first_later t : forall pre, pre <> [] ->
  filter is_first_event (out_events (expected_outs ct hb pre t)) = [].
Proof.
  induction t as [|s t IH]; intros pre Hne; cbn [expected_outs]; [reflexivity|].
  rewrite out_events_cons, filter_app, IH by (destruct pre; discriminate). rewrite app_nil_r.
  unfold expected_out. destruct hb_parent_some as [p [-> _]].
  destruct (is_dup pre s); [reflexivity|]. destruct pre; [congruence|].
  destruct (block_ready hb _); reflexivity.
Qed.

Lemma dcount_le_length xs : dcount xs <= N.of_nat (length xs).
Proof.
  unfold dcount. assert ((length (nodup N.eq_dec xs) <= length xs)%nat); [|lia].
  apply NoDup_incl_length; [apply NoDup_nodup|]. intros x Hx. apply nodup_In in Hx. exact Hx.
Qed.
Lemma slice_ready_single s i : slice_ready [s] i = false.
Proof.
  unfold slice_ready, cnt. fold (dcount (idxs [s] i)). pose proof (dcount_le_length (idxs [s] i)) as H.
  assert ((length (idxs [s] i) <= 1)%nat).
  { unfold idxs. rewrite map_length. cbn [filter]. destruct (b_slice s =? i); cbn [length]; lia. }
  pose proof data_gt_1. lia.
Qed.
Lemma block_ready_app pre t : block_ready hb pre = true -> block_ready hb (pre ++ t) = true.
Proof.
  intros H. induction t as [|x t IH] using rev_ind; [rewrite app_nil_r; exact H|].
  rewrite app_assoc. apply block_ready_mono. exact IH.
Qed.

Lemma step_block_event pre s parent : hb_parent ct hb = Some parent -> honestP s ->
  filter is_block_event (snd (expected_out ct hb pre s)) =
  if block_ready hb (pre ++ [s]) && negb (block_ready hb pre) then [BBlock (hb_hash hb) parent] else [].
Proof.
  intros Hpar [i [j [Hi [Hj ->]]]]. unfold expected_out. rewrite Hpar.
  destruct (is_dup pre (hshred hb i j)) eqn:D; unfold is_dup in D; rewrite hs_slice, hs_index in D.
  - assert (Hd : slice_ready pre i = true \/ In j (idxs pre i)).
    { apply orb_true_iff in D. destruct D as [D|D]; [left; exact D | right].
      apply existsb_exists in D. destruct D as [x [Hx E]]. apply N.eqb_eq in E. subst. exact Hx. }
    rewrite (ready_ext pre (pre ++ [hshred hb i j])) by (intros i' _; apply ready_same_dup; exact Hd).
    rewrite andb_negb_r. reflexivity.
  - apply orb_false_iff in D. destruct D as [R _].
    rewrite (block_not_ready pre i Hi R). cbn [negb]. rewrite andb_true_r.
    destruct pre as [|s0 pre0].
    + cbn [app]. rewrite (block_not_ready [hshred hb i j] i Hi (slice_ready_single _ _)). reflexivity.
    + destruct (block_ready hb _); reflexivity.
Qed.

Lemma blocks_spec parent t : hb_parent ct hb = Some parent -> forall pre, Forall honestP t ->
  filter is_block_event (out_events (expected_outs ct hb pre t)) =
  if block_ready hb (pre ++ t) && negb (block_ready hb pre) then [BBlock (hb_hash hb) parent] else [].
Proof.
  intros Hpar. induction t as [|s t IH]; intros pre Hh.
  - cbn [expected_outs]. rewrite app_nil_r, andb_negb_r. reflexivity.
  - inversion Hh as [|? ? Hs Ht]; subst. cbn [expected_outs].
    rewrite out_events_cons, filter_app, (step_block_event pre s parent Hpar Hs), (IH (pre ++ [s]) Ht).
    rewrite <- app_assoc. cbn [app].
    pose proof (block_ready_mono hb pre s) as M1.
    pose proof (block_ready_app (pre ++ [s]) t) as M2. rewrite <- app_assoc in M2. cbn [app] in M2.
    destruct (block_ready hb pre), (block_ready hb (pre ++ [s])), (block_ready hb (pre ++ s :: t));
      cbn [andb negb app]; try reflexivity; try (specialize (M1 eq_refl); discriminate);
      try (specialize (M2 eq_refl); discriminate).
Qed.

(* every delivered shred, and every shred of a reconstructed slice, is stored as the leader's shred *)
Lemma available l d i j : Inv l d -> i < K -> j < TOTAL_SHREDS ->
  slice_ready l i = true \/ In j (idxs l i) ->
  alookup j (aget [] i (bd_shreds d)) = Some (hshred hb i j).
Proof.
  intros [_ [_ [[_ [_ Hs]] _]]] Hi Hj Hd. specialize (Hs i Hi). unfold SliceState in Hs.
  destruct (slice_ready l i) eqn:R.
  - rewrite Hs, full_slice_lookup. replace (j <? TOTAL_SHREDS) with true by lia. reflexivity.
  - destruct Hd as [A|A]; [discriminate|]. destruct Hs as [_ [Hok' Hiff]].
    apply Hiff, alookup_in_keys in A. destruct (alookup j (aget [] i (bd_shreds d))) as [s|] eqn:E; [|congruence].
    apply alookup_In, Hok' in E. subst. reflexivity.
Qed.

Lemma completed_spec l d : Inv l d ->
  bd_completed d = if block_ready hb l then hb_result else None.
Proof. intros [_ [_ [_ [_ [H _]]]]]. exact H. Qed.

End Honest.

(* ---------- statements with decidable hypotheses ---------- *)
Lemma honest_list slot ct hb l : hb_ok slot ct hb = true -> forallb (honest_shred hb) l = true -> Forall (honestP hb) l.
Proof.
  intros Hok. rewrite forallb_forall, Forall_forall. intros H x Hx. apply (honest_shred_P slot ct hb Hok). apply H. exact Hx.
Qed.
Lemma expected_outs_length ct hb l : forall pre, length (expected_outs ct hb pre l) = length l.
Proof. induction l as [|s l IH]; intros pre; cbn [expected_outs length]; [reflexivity | rewrite IH; reflexivity]. Qed.

(* the whole output stream is the specified function of the delivered list *)
Theorem dissem_run_is_spec : forall slot ct hb l,
  hb_ok slot ct hb = true -> forallb (honest_shred hb) l = true ->
  snd (bs_dissem_run ct slot l) = expected_outs ct hb [] l.
Proof.
  intros slot ct hb l Hok Hl. destruct (run_honest slot ct hb Hok l (honest_list slot ct hb l Hok Hl)) as [sd [E _]].
  rewrite E. reflexivity.
Qed.

(* (1) never a panic, never InvalidBlock, never flagged, only Ok / Duplicate *)
Theorem dissem_honest_safe : forall slot ct hb l,
  hb_ok slot ct hb = true -> forallb (honest_shred hb) l = true ->
  sd_misbehaved (fst (bs_dissem_run ct slot l)) = false /\
  sd_panicked (fst (bs_dissem_run ct slot l)) = false /\
  forall r ev, In (r, ev) (snd (bs_dissem_run ct slot l)) ->
    (r = BRErr EDuplicate \/ exists x, r = BROk x) /\ ~ In BInvalidBlock ev.
Proof.
  intros slot ct hb l Hok Hl. destruct (run_honest slot ct hb Hok l (honest_list slot ct hb l Hok Hl)) as [sd [E [Hm [Hp _]]]].
  rewrite E. cbn [fst snd]. split; [exact Hm|]. split; [exact Hp|].
  intros r ev H. exact (expected_outs_shape slot ct hb Hok l [] r ev H).
Qed.

(* (2) FirstShred exactly once, at the first delivered shred *)
Theorem dissem_first_shred_once : forall slot ct hb s t,
  hb_ok slot ct hb = true -> forallb (honest_shred hb) (s :: t) = true ->
  exists out', snd (bs_dissem_run ct slot (s :: t)) = (BROk None, [BFirstShred]) :: out' /\
               filter is_first_event (out_events out') = [].
Proof.
  intros slot ct hb s t Hok Hl. rewrite (dissem_run_is_spec slot ct hb _ Hok Hl). cbn [expected_outs].
  rewrite first_out. eexists. split; [reflexivity|]. apply (no_first_later slot ct hb Hok). discriminate.
Qed.

(* (3) + (4) the Block event is emitted exactly when every slice has DATA_SHREDS distinct indices, once,
   with the block's hash and parent; the stored block is that one *)
Theorem dissem_block_once : forall slot ct hb l,
  hb_ok slot ct hb = true -> forallb (honest_shred hb) l = true ->
  exists parent, hb_parent ct hb = Some parent /\ fst parent < slot /\
    filter is_block_event (out_events (snd (bs_dissem_run ct slot l))) =
      (if block_ready hb l then [BBlock (hb_hash hb) parent] else []) /\
    bd_completed (sd_dissem (fst (bs_dissem_run ct slot l))) =
      (if block_ready hb l then Some (hb_hash hb, parent) else None).
Proof.
  intros slot ct hb l Hok Hl. destruct (hb_parent_some slot ct hb Hok) as [parent [Hpar Hs]].
  exists parent. split; [exact Hpar|]. split; [exact Hs|].
  pose proof (honest_list slot ct hb l Hok Hl) as Hh.
  destruct (run_honest slot ct hb Hok l Hh) as [sd [E [_ [_ HI]]]]. rewrite E. cbn [fst snd]. split.
  - rewrite (blocks_spec slot ct hb Hok parent l Hpar [] Hh). cbn [app].
    replace (block_ready hb []) with false; [rewrite andb_true_r; reflexivity|].
    symmetry. apply (block_not_ready slot ct hb Hok [] 0 (K_pos slot ct hb Hok)), slice_ready_nil.
  - rewrite (completed_spec ct hb l _ HI). unfold hb_result. rewrite Hpar. reflexivity.
Qed.

(* (4, converse) the outputs of a prefix are a prefix of the outputs: no Block before every slice has
   DATA_SHREDS distinct delivered indices *)
Theorem dissem_no_block_before_ready : forall slot ct hb l1 l2,
  hb_ok slot ct hb = true -> forallb (honest_shred hb) (l1 ++ l2) = true -> block_ready hb l1 = false ->
  firstn (length l1) (snd (bs_dissem_run ct slot (l1 ++ l2))) = snd (bs_dissem_run ct slot l1) /\
  filter is_block_event (out_events (snd (bs_dissem_run ct slot l1))) = [].
Proof.
  intros slot ct hb l1 l2 Hok Hl Hnr.
  assert (Hl1 : forallb (honest_shred hb) l1 = true) by (rewrite forallb_app in Hl; apply andb_true_iff in Hl; apply Hl).
  rewrite (dissem_run_is_spec slot ct hb _ Hok Hl), (dissem_run_is_spec slot ct hb _ Hok Hl1). split.
  - rewrite expected_outs_app. rewrite <- (expected_outs_length ct hb l1 []) at 1.
    rewrite firstn_app, firstn_all, Nat.sub_diag. cbn [firstn]. apply app_nil_r.
  - destruct (dissem_block_once slot ct hb l1 Hok Hl1) as [parent [_ [_ [H _]]]].
    rewrite (dissem_run_is_spec slot ct hb _ Hok Hl1), Hnr in H. exact H.
Qed.

(* (5) every delivered shred and every shred of a reconstructed slice is stored as the leader's shred;
   after the block is complete that is every shred of the block *)
Theorem dissem_shreds_available : forall slot ct hb l i j,
  hb_ok slot ct hb = true -> forallb (honest_shred hb) l = true ->
  i < hb_len hb -> j < TOTAL_SHREDS ->
  block_ready hb l = true \/ slice_ready l i = true \/ In j (idxs l i) ->
  alookup j (aget [] i (bd_shreds (sd_dissem (fst (bs_dissem_run ct slot l))))) = Some (hshred hb i j).
Proof.
  intros slot ct hb l i j Hok Hl Hi Hj Hd.
  destruct (run_honest slot ct hb Hok l (honest_list slot ct hb l Hok Hl)) as [sd [E [_ [_ HI]]]]. rewrite E. cbn [fst].
  apply (available slot ct hb Hok l _ i j HI Hi Hj).
  destruct Hd as [B|Hd]; [left | exact Hd]. apply (proj1 (block_ready_iff slot ct hb Hok l) B). exact Hi.
Qed.
