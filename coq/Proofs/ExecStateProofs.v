(* The persistent trie refines a sorted association list, keeps its canonical form, never panics. *)
From Coq Require Import List NArith Bool Arith PeanoNat Sorting.Sorted Lia ZifyBool ZifyNat ZifyN.
From AG Require Import Model.ExecState Proofs.ExecWinProofs Proofs.ExecKeyProofs Proofs.ExecBitmapProofs.
Import ListNotations.
Open Scope N_scope.

Notation kv := (key * value)%type (only parsing).

(* ---------- in-order contents through the slot view ---------- *)
Definition ol (o : option node) : list kv := match o with Some n => to_list n | None => [] end.
Definition sl_list (sl : list (option node)) : list kv := flat_map ol sl.

Lemma to_list_branch : forall bm cs, to_list (Branch bm cs) = flat_map to_list cs.
Proof. intros bm cs. cbn [to_list]. induction cs as [|c t IH]; cbn [flat_map]; [reflexivity | rewrite IH; reflexivity]. Qed.
Lemma flat_map_opt_list : forall sl, flat_map to_list (flat_map opt_list sl) = sl_list sl.
Proof.
  induction sl as [|[n|] sl IH]; cbn [flat_map opt_list app ol sl_list]; auto.
  unfold sl_list in IH. rewrite <- IH. reflexivity.
Qed.
Lemma to_list_slots : forall bm cs, bwf bm cs -> to_list (Branch bm cs) = sl_list (slots bm cs).
Proof. intros bm cs W. rewrite to_list_branch. rewrite <- (slots_children bm cs W) at 1. apply flat_map_opt_list. Qed.

Lemma sl_list_app : forall a b, sl_list (a ++ b) = sl_list a ++ sl_list b.
Proof. intros. unfold sl_list. apply flat_map_app. Qed.

Lemma slot_split : forall sl c, length sl = 32%nat -> c < 32 ->
  sl = firstn (N.to_nat c) sl ++ slot sl c :: skipn (S (N.to_nat c)) sl.
Proof.
  intros sl c L Hc. unfold slot.
  assert (E : nth_error sl (N.to_nat c) = Some (nth (N.to_nat c) sl None)) by (apply nth_error_nth'; lia).
  rewrite <- (skipn_nth_error _ sl _ _ E). symmetry. apply firstn_skipn.
Qed.
Definition before (sl : list (option node)) (c : N) : list kv := sl_list (firstn (N.to_nat c) sl).
Definition after (sl : list (option node)) (c : N) : list kv := sl_list (skipn (S (N.to_nat c)) sl).

Lemma sl_list_mid : forall a x b, sl_list (a ++ x :: b) = sl_list a ++ ol x ++ sl_list b.
Proof. intros. unfold sl_list. rewrite flat_map_app. reflexivity. Qed.
Lemma sl_list_split : forall sl c, length sl = 32%nat -> c < 32 ->
  sl_list sl = before sl c ++ ol (slot sl c) ++ after sl c.
Proof.
  intros sl c L Hc. rewrite (slot_split sl c L Hc) at 1. apply sl_list_mid.
Qed.
Lemma sl_list_set : forall sl c x, length sl = 32%nat -> c < 32 ->
  sl_list (set_nth (N.to_nat c) x sl) = before sl c ++ ol x ++ after sl c.
Proof.
  intros sl c x L Hc. rewrite set_nth_split. apply sl_list_mid.
Qed.

Lemma nth_error_firstn' : forall (A : Type) (l : list A) n i, (i < n)%nat -> nth_error (firstn n l) i = nth_error l i.
Proof.
  induction l as [|a l IH]; intros [|n] [|i] H; cbn; auto; try lia. apply IH. lia.
Qed.
Lemma nth_error_skipn' : forall (A : Type) (l : list A) n i, nth_error (skipn n l) i = nth_error l (n + i).
Proof.
  induction l as [|a l IH]; intros [|n] i; cbn; auto. destruct i; reflexivity.
Qed.

Lemma in_sl_list : forall sl x, In x (sl_list sl) -> exists i n, nth_error sl i = Some (Some n) /\ In x (to_list n).
Proof.
  intros sl x H. unfold sl_list in H. apply in_flat_map in H. destruct H as [o [Ho Hx]].
  destruct o as [n|]; [|contradiction]. apply In_nth_error in Ho. destruct Ho as [i Hi]. exists i, n. auto.
Qed.
Lemma in_before : forall sl c x, length sl = 32%nat -> c < 32 -> In x (before sl c) ->
  exists c' n, c' < c /\ slot sl c' = Some n /\ In x (to_list n).
Proof.
  intros sl c x L Hc H. apply in_sl_list in H. destruct H as [i [n [Hi Hx]]].
  assert (Li : (i < N.to_nat c)%nat).
  { assert (X : nth_error (firstn (N.to_nat c) sl) i <> None) by congruence. apply nth_error_Some in X.
    rewrite firstn_length in X. lia. }
  exists (N.of_nat i), n. split; [lia|]. split; auto. unfold slot. rewrite Nat2N.id.
  rewrite nth_error_firstn' in Hi by exact Li.
  apply nth_error_nth with (d := None) in Hi. exact Hi.
Qed.
Lemma in_after : forall sl c x, length sl = 32%nat -> c < 32 -> In x (after sl c) ->
  exists c' n, c < c' /\ c' < 32 /\ slot sl c' = Some n /\ In x (to_list n).
Proof.
  intros sl c x L Hc H. apply in_sl_list in H. destruct H as [i [n [Hi Hx]]].
  rewrite nth_error_skipn' in Hi.
  assert (Li : (S (N.to_nat c) + i < 32)%nat).
  { assert (X : nth_error sl (S (N.to_nat c) + i) <> None) by congruence. apply nth_error_Some in X. lia. }
  exists (N.of_nat (S (N.to_nat c) + i)), n. split; [lia|]. split; [lia|]. split; auto. unfold slot. rewrite Nat2N.id.
  apply nth_error_nth with (d := None) in Hi. exact Hi.
Qed.
Lemma in_slot : forall sl c n x, length sl = 32%nat -> c < 32 -> slot sl c = Some n -> In x (to_list n) -> In x (sl_list sl).
Proof.
  intros sl c n x L Hc S Hx. rewrite (sl_list_split sl c L Hc), S. apply in_or_app. right. apply in_or_app. left. exact Hx.
Qed.

(* ---------- well-formedness ---------- *)
Definition has_prefix (k : key) (pfx : list N) : Prop :=
  forall j, (j < length pfx)%nat -> chunk k (N.of_nat j) = nth j pfx 0.
Definition depth (pfx : list N) : N := N.of_nat (length pfx).
Definition nonroot_ok (n : node) : Prop :=
  match n with Leaf _ _ => True | Branch _ _ => (2 <= length (to_list n))%nat end.

Inductive swf : list N -> node -> Prop :=
| swf_leaf : forall pfx k v, kwf k -> has_prefix k pfx -> swf pfx (Leaf k v)
| swf_branch : forall pfx bm cs, (length pfx < 52)%nat -> bwf bm cs ->
    (forall c child, c < 32 -> slot (slots bm cs) c = Some child -> swf (pfx ++ [c]) child) ->
    (forall c child, c < 32 -> slot (slots bm cs) c = Some child -> nonroot_ok child) ->
    swf pfx (Branch bm cs).

Lemma depth_app : forall pfx c, depth (pfx ++ [c]) = depth pfx + 1.
Proof. intros. unfold depth. rewrite app_length. cbn [length]. lia. Qed.
Lemma has_prefix_app : forall k pfx c, has_prefix k (pfx ++ [c]) <-> has_prefix k pfx /\ chunk k (depth pfx) = c.
Proof.
  intros k pfx c. unfold has_prefix, depth. split.
  - intros H. split.
    + intros j Hj. rewrite H by (rewrite app_length; cbn; lia). apply app_nth1. exact Hj.
    + rewrite H by (rewrite app_length; cbn; lia). rewrite app_nth2 by lia.
      replace (length pfx - length pfx)%nat with 0%nat by lia. reflexivity.
  - intros [H1 H2] j Hj. rewrite app_length in Hj. cbn [length] in Hj.
    destruct (Nat.eq_dec j (length pfx)) as [->|Ne].
    + rewrite H2, app_nth2 by lia. replace (length pfx - length pfx)%nat with 0%nat by lia. reflexivity.
    + rewrite app_nth1 by lia. apply H1. lia.
Qed.

(* every key stored below a node carries the node's prefix *)
Lemma swf_keys : forall pfx n, swf pfx n -> forall k v, In (k, v) (to_list n) -> kwf k /\ has_prefix k pfx.
Proof.
  induction 1 as [pfx k0 v0 K P | pfx bm cs Lp W Hc IH Hn]; intros k v Hin.
  - cbn in Hin. destruct Hin as [E|[]]. injection E as <- <-. auto.
  - rewrite to_list_slots in Hin by exact W. apply in_sl_list in Hin. destruct Hin as [i [n [Hi Hx]]].
    assert (Li : (i < 32)%nat).
    { assert (X : nth_error (slots bm cs) i <> None) by congruence. apply nth_error_Some in X.
      rewrite slots_length in X. exact X. }
    assert (S : slot (slots bm cs) (N.of_nat i) = Some n).
    { unfold slot. rewrite Nat2N.id. apply nth_error_nth with (d := None) in Hi. exact Hi. }
    destruct (IH (N.of_nat i) n ltac:(lia) S k v Hx) as [K P]. split; auto.
    apply has_prefix_app in P. tauto.
Qed.
Lemma swf_slot_keys : forall pfx bm cs c child k v, swf pfx (Branch bm cs) -> c < 32 ->
  slot (slots bm cs) c = Some child -> In (k, v) (to_list child) ->
  kwf k /\ has_prefix k pfx /\ chunk k (depth pfx) = c.
Proof.
  intros pfx bm cs c child k v W Hc S Hin. inversion W; subst.
  destruct (swf_keys _ _ (H4 c child Hc S) k v Hin) as [K P]. apply has_prefix_app in P. tauto.
Qed.

Lemma nonroot_nonempty : forall pfx n, swf pfx n -> nonroot_ok n -> (1 <= length (to_list n))%nat.
Proof. intros pfx n W N. destruct n; cbn in *; lia. Qed.

(* ---------- order facts ---------- *)
Definition klt (a b : kv) : Prop := bytes_ltb (fst a) (fst b) = true.
Definition sorted (l : list kv) : Prop := StronglySorted klt l.

Lemma sorted_app : forall a b, sorted a -> sorted b -> (forall x y, In x a -> In y b -> klt x y) -> sorted (a ++ b).
Proof.
  induction a as [|x a IH]; intros b Sa Sb H; cbn [app]; auto.
  inversion Sa; subst. constructor.
  - apply IH; auto. intros; apply H; auto. right; auto.
  - apply Forall_app. split; auto. apply Forall_forall. intros y Hy. apply H; auto. left; auto.
Qed.
Lemma sorted_app_inv : forall a b, sorted (a ++ b) -> sorted a /\ sorted b /\ (forall x y, In x a -> In y b -> klt x y).
Proof.
  induction a as [|x a IH]; intros b S; cbn [app] in S.
  - repeat split; auto. constructor. intros x y [].
  - inversion S; subst. destruct (IH b H1) as [Sa [Sb H]]. apply Forall_app in H2. destruct H2 as [F1 F2].
    repeat split; auto. constructor; auto.
    intros x0 y [<-|Hx] Hy; [eapply Forall_forall in F2; eauto | apply H; auto].
Qed.

Lemma cross_lt : forall pfx k1 k2, kwf k1 -> kwf k2 -> has_prefix k1 pfx -> has_prefix k2 pfx ->
  (length pfx < 52)%nat -> chunk k1 (depth pfx) < chunk k2 (depth pfx) -> bytes_ltb k1 k2 = true.
Proof.
  intros pfx k1 k2 K1 K2 P1 P2 L C. apply (chunks_lt k1 k2 (depth pfx)); auto.
  - unfold depth; lia.
  - intros j Hj. unfold depth in Hj. replace j with (N.of_nat (N.to_nat j)) by lia.
    rewrite P1, P2 by lia. reflexivity.
Qed.

Lemma swf_sorted : forall pfx n, swf pfx n -> sorted (to_list n).
Proof.
  induction 1 as [pfx k0 v0 K P | pfx bm cs Lp W Hc IH Hn].
  - cbn. constructor; constructor.
  - assert (WB : swf pfx (Branch bm cs)) by (constructor; auto).
    rewrite to_list_slots by exact W.
    pose proof (slots_length bm cs) as L. set (sl := slots bm cs) in *.
    (* prove sortedness of the suffix starting at every slot index, from the back *)
    assert (G : forall m, (m <= 32)%nat -> sorted (sl_list (skipn (32 - m) sl)) /\
               forall x, In x (sl_list (skipn (32 - m) sl)) ->
                 exists c n, N.of_nat (32 - m) <= c /\ c < 32 /\ slot sl c = Some n /\ In x (to_list n)).
    { induction m as [|m IHm]; intros Hm.
      - rewrite skipn_all2 by lia. split; [constructor | intros x []].
      - destruct IHm as [S1 M1]; [lia|].
        assert (E : skipn (32 - S m) sl = slot sl (N.of_nat (32 - S m)) :: skipn (32 - m) sl).
        { unfold slot. rewrite Nat2N.id. replace (32 - m)%nat with (S (32 - S m)) by lia.
          apply skipn_nth_error. apply nth_error_nth'. lia. }
        rewrite E. change (?a :: ?l) with ([a] ++ l). rewrite sl_list_app.
        assert (E1 : sl_list [slot sl (N.of_nat (32 - S m))] = ol (slot sl (N.of_nat (32 - S m)))).
        { unfold sl_list. cbn [flat_map]. apply app_nil_r. }
        rewrite E1. split.
        + apply sorted_app; auto.
          * destruct (slot sl (N.of_nat (32 - S m))) as [n|] eqn:Sn; cbn [ol]; [|constructor].
            apply (IH (N.of_nat (32 - S m)) n); auto. lia.
          * intros [k1 v1] [k2 v2] H1 H2. destruct (slot sl (N.of_nat (32 - S m))) as [n|] eqn:Sn; [|contradiction].
            cbn [ol] in H1. destruct (M1 _ H2) as [c [n2 [Hc1 [Hc2 [Sc Hin]]]]].
            assert (Hlt : N.of_nat (32 - S m) < 32) by lia.
            destruct (swf_slot_keys _ _ _ _ _ _ _ WB Hlt Sn H1) as [K1 [P1 C1]].
            destruct (swf_slot_keys _ _ _ _ _ _ _ WB Hc2 Sc Hin) as [K2 [P2 C2]].
            unfold klt. cbn [fst]. apply (cross_lt pfx); auto. lia.
        + intros x Hx. apply in_app_or in Hx. destruct Hx as [Hx|Hx].
          * destruct (slot sl (N.of_nat (32 - S m))) as [n|] eqn:Sn; [|contradiction].
            exists (N.of_nat (32 - S m)), n. repeat split; auto; lia.
          * destruct (M1 _ Hx) as [c [n [A [B [C D]]]]]. exists c, n. repeat split; auto. lia. }
    destruct (G 32%nat (le_n _)) as [S _]. exact S.
Qed.

(* the entries of the other slots compare with any key routed to slot c *)
Lemma before_lt : forall pfx bm cs k c x, swf pfx (Branch bm cs) -> kwf k -> has_prefix k pfx ->
  chunk k (depth pfx) = c -> In x (before (slots bm cs) c) -> bytes_ltb (fst x) k = true.
Proof.
  intros pfx bm cs k c [k' v'] W K P C Hin. pose proof (chunk_lt k (depth pfx)) as Hc. rewrite C in Hc.
  destruct (in_before _ _ _ (slots_length bm cs) Hc Hin) as [c' [n [Lt [S Hx]]]].
  assert (Hlt : c' < 32) by lia.
  destruct (swf_slot_keys _ _ _ _ _ _ _ W Hlt S Hx) as [K' [P' C']]. cbn [fst].
  inversion W; subst. apply (cross_lt pfx); auto; lia.
Qed.
Lemma after_gt : forall pfx bm cs k c x, swf pfx (Branch bm cs) -> kwf k -> has_prefix k pfx ->
  chunk k (depth pfx) = c -> In x (after (slots bm cs) c) -> bytes_ltb k (fst x) = true.
Proof.
  intros pfx bm cs k c [k' v'] W K P C Hin. pose proof (chunk_lt k (depth pfx)) as Hc. rewrite C in Hc.
  destruct (in_after _ _ _ (slots_length bm cs) Hc Hin) as [c' [n [Lt [Lt' [S Hx]]]]].
  destruct (swf_slot_keys _ _ _ _ _ _ _ W Lt' S Hx) as [K' [P' C']]. cbn [fst].
  inversion W; subst. apply (cross_lt pfx); auto; lia.
Qed.

(* ---------- the reference map on concatenations ---------- *)
Lemma m_find_none : forall (k : key) (l : list (key * value)), (forall x, In x l -> bytes_eqb (fst x) k = false) -> m_find k l = None.
Proof.
  induction l as [|[k' v'] l IH]; intros H; cbn [m_find]; auto.
  generalize (H (k', v') (or_introl eq_refl)); cbn [fst]; intros ->. apply IH. intros; apply H; right; auto.
Qed.
Lemma m_find_app : forall (k : key) (a b : list (key * value)), m_find k (a ++ b) = match m_find k a with Some v => Some v | None => m_find k b end.
Proof.
  induction a as [|[k' v'] a IH]; intros b; cbn [app m_find]; auto. destruct (bytes_eqb k' k); auto.
Qed.
Lemma m_find_mid : forall (k : key) (A B C : list (key * value)), (forall x, In x A -> bytes_eqb (fst x) k = false) ->
  (forall x, In x C -> bytes_eqb (fst x) k = false) -> m_find k (A ++ B ++ C) = m_find k B.
Proof.
  intros k A B C HA HC. rewrite m_find_app, (m_find_none k A HA), m_find_app, (m_find_none k C HC).
  destruct (m_find k B); reflexivity.
Qed.
Lemma m_ins_pre : forall (k : key) (v : value) (A R : list (key * value)), (forall x, In x A -> bytes_ltb (fst x) k = true) -> m_ins k v (A ++ R) = A ++ m_ins k v R.
Proof.
  induction A as [|[k' v'] A IH]; intros R H; cbn [app m_ins]; auto.
  pose proof (H (k', v') (or_introl eq_refl)) as L. cbn [fst] in L.
  rewrite (bytes_ltb_asym _ _ L), (bytes_ltb_neq _ _ L). f_equal. apply IH. intros; apply H; right; auto.
Qed.
Lemma m_ins_post : forall (k : key) (v : value) (B C : list (key * value)), (forall x, In x C -> bytes_ltb k (fst x) = true) -> m_ins k v (B ++ C) = m_ins k v B ++ C.
Proof.
  induction B as [|[k' v'] B IH]; intros C H; cbn [app m_ins].
  - destruct C as [|[k' v'] C]; cbn [m_ins]; auto. generalize (H (k', v') (or_introl eq_refl)); cbn [fst]; intros ->. reflexivity.
  - destruct (bytes_ltb k k'); auto. destruct (bytes_eqb k' k); auto. cbn [app]. f_equal. apply IH; auto.
Qed.
Lemma m_ins_mid : forall (k : key) (v : value) (A B C : list (key * value)), (forall x, In x A -> bytes_ltb (fst x) k = true) ->
  (forall x, In x C -> bytes_ltb k (fst x) = true) -> m_ins k v (A ++ B ++ C) = A ++ m_ins k v B ++ C.
Proof. intros. rewrite m_ins_pre by auto. rewrite m_ins_post by auto. reflexivity. Qed.
Lemma m_del_absent : forall (k : key) (l : list (key * value)), (forall x, In x l -> bytes_eqb (fst x) k = false) -> m_del k l = l.
Proof.
  induction l as [|[k' v'] l IH]; intros H; cbn [m_del]; auto.
  generalize (H (k', v') (or_introl eq_refl)); cbn [fst]; intros ->. f_equal. apply IH. intros; apply H; right; auto.
Qed.
Lemma m_del_pre : forall (k : key) (A R : list (key * value)), (forall x, In x A -> bytes_eqb (fst x) k = false) -> m_del k (A ++ R) = A ++ m_del k R.
Proof.
  induction A as [|[k' v'] A IH]; intros R H; cbn [app m_del]; auto.
  generalize (H (k', v') (or_introl eq_refl)); cbn [fst]; intros ->. f_equal. apply IH. intros; apply H; right; auto.
Qed.
Lemma m_del_post : forall (k : key) (B C : list (key * value)), (forall x, In x C -> bytes_eqb (fst x) k = false) -> m_del k (B ++ C) = m_del k B ++ C.
Proof.
  induction B as [|[k' v'] B IH]; intros C H; cbn [app m_del].
  - apply m_del_absent; auto.
  - destruct (bytes_eqb k' k); auto. cbn [app]. f_equal. apply IH; auto.
Qed.
Lemma m_del_mid : forall (k : key) (A B C : list (key * value)), (forall x, In x A -> bytes_eqb (fst x) k = false) ->
  (forall x, In x C -> bytes_eqb (fst x) k = false) -> m_del k (A ++ B ++ C) = A ++ m_del k B ++ C.
Proof. intros. rewrite m_del_pre by auto. rewrite m_del_post by auto. reflexivity. Qed.
Lemma m_find_none_in : forall (k : key) (l : list (key * value)), m_find k l = None -> forall x, In x l -> bytes_eqb (fst x) k = false.
Proof.
  induction l as [|[k' v'] l IH]; intros H x Hx; [contradiction|]. cbn [m_find] in H.
  destruct (bytes_eqb k' k) eqn:E; [discriminate|]. destruct Hx as [<-|Hx]; auto.
Qed.
Lemma m_ins_length_ge : forall (k : key) (v : value) (l : list (key * value)), (length l <= length (m_ins k v l))%nat.
Proof. intros. induction l as [|[k' v'] l IH]; cbn [m_ins length]; [lia|].
  destruct (bytes_ltb k k'); cbn [length]; [lia|]. destruct (bytes_eqb k' k); cbn [length]; lia. Qed.
Lemma m_del_length : forall (k : key) (l : list (key * value)) (v : value), m_find k l = Some v -> S (length (m_del k l)) = length l.
Proof.
  induction l as [|[k' v'] l IH]; intros v H; cbn [m_find m_del] in *; [discriminate|].
  destruct (bytes_eqb k' k); cbn [length]; auto. erewrite IH; eauto.
Qed.

(* ---------- updating one slot of a well-formed branch ---------- *)
Lemma cur_slot : forall pfx bm cs c, swf pfx (Branch bm cs) -> c < 32 ->
  to_list (Branch bm cs) = before (slots bm cs) c ++ ol (slot (slots bm cs) c) ++ after (slots bm cs) c.
Proof.
  intros pfx bm cs c W Hc. inversion W; subst. rewrite to_list_slots by auto.
  apply sl_list_split; auto. apply slots_length.
Qed.
Lemma upd_slot : forall pfx bm cs c bm' cs' x, swf pfx (Branch bm cs) -> c < 32 -> bwf bm' cs' ->
  slots bm' cs' = set_nth (N.to_nat c) x (slots bm cs) ->
  (forall child, x = Some child -> swf (pfx ++ [c]) child /\ nonroot_ok child) ->
  swf pfx (Branch bm' cs') /\
  to_list (Branch bm' cs') = before (slots bm cs) c ++ ol x ++ after (slots bm cs) c.
Proof.
  intros pfx bm cs c bm' cs' x W Hc W' E Hx. inversion W; subst. split.
  - constructor; auto.
    + intros c' child Hc' S. rewrite E, slot_set_nth in S by (auto using slots_length).
      destruct (N.eqb_spec c' c); [subst; apply Hx; auto | auto].
    + intros c' child Hc' S. rewrite E, slot_set_nth in S by (auto using slots_length).
      destruct (N.eqb_spec c' c); [subst; apply Hx; auto | eauto].
  - rewrite to_list_slots by auto. rewrite E. apply sl_list_set; auto. apply slots_length.
Qed.

Lemma neq_of_lt_l : forall (l : list kv) (k : key), (forall x, In x l -> bytes_ltb (fst x) k = true) ->
  forall x, In x l -> bytes_eqb (fst x) k = false.
Proof. intros l k H x Hx. apply bytes_ltb_neq. auto. Qed.
Lemma neq_of_lt_r : forall (l : list kv) (k : key), (forall x, In x l -> bytes_ltb k (fst x) = true) ->
  forall x, In x l -> bytes_eqb (fst x) k = false.
Proof. intros l k H x Hx. rewrite bytes_eqb_sym. apply bytes_ltb_neq. auto. Qed.

Lemma fuel_branch : forall pfx bm cs fuel, swf pfx (Branch bm cs) -> (53 <= fuel + length pfx)%nat ->
  exists f, fuel = S f /\ (53 <= f + length (pfx ++ [0%N]))%nat /\ depth pfx < 52.
Proof.
  intros pfx bm cs fuel W F. inversion W; subst. destruct fuel as [|f]; [lia|]. exists f.
  rewrite app_length. cbn [length]. unfold depth. repeat split; lia.
Qed.

(* ---------- get ---------- *)
Lemma get_rec_spec : forall pfx n, swf pfx n -> forall fuel k, kwf k -> has_prefix k pfx ->
  (53 <= fuel + length pfx)%nat -> get_rec fuel n k (depth pfx) = Ok (m_find k (to_list n)).
Proof.
  induction 1 as [pfx k0 v0 K0 P0 | pfx bm cs Lp W Hc IH Hn]; intros fuel k K P F.
  - destruct fuel; cbn [get_rec to_list m_find]; destruct (bytes_eqb k0 k); reflexivity.
  - assert (WB : swf pfx (Branch bm cs)) by (constructor; auto).
    destruct (fuel_branch _ _ _ _ WB F) as [f [-> [F' D]]]. cbn [get_rec].
    rewrite (chunk_at_ok k (depth pfx) K D). set (c := chunk k (depth pfx)).
    assert (Hcl : c < 32) by apply chunk_lt.
    rewrite (cur_slot _ _ _ c WB Hcl).
    assert (HB : forall x, In x (before (slots bm cs) c) -> bytes_ltb (fst x) k = true)
      by (intros x Hx; exact (before_lt pfx bm cs k c x WB K P eq_refl Hx)).
    assert (HA : forall x, In x (after (slots bm cs) c) -> bytes_ltb k (fst x) = true)
      by (intros x Hx; exact (after_gt pfx bm cs k c x WB K P eq_refl Hx)).
    rewrite (m_find_mid k _ _ _ (neq_of_lt_l _ _ HB) (neq_of_lt_r _ _ HA)).
    destruct (child_cases bm cs c Hcl W) as [[CI S] | [idx [ch [CI [NE S]]]]]; rewrite CI, S.
    + reflexivity.
    + rewrite NE. rewrite <- (depth_app pfx c). cbn [ol]. apply (IH c ch Hcl S f k K).
      * apply has_prefix_app. auto.
      * rewrite app_length in *. cbn [length] in *. lia.
Qed.

Lemma swf_branch_inv : forall pfx bm cs, swf pfx (Branch bm cs) ->
  (length pfx < 52)%nat /\ bwf bm cs /\
  (forall c child, c < 32 -> slot (slots bm cs) c = Some child -> swf (pfx ++ [c]) child) /\
  (forall c child, c < 32 -> slot (slots bm cs) c = Some child -> nonroot_ok child).
Proof. intros pfx bm cs W. inversion W; subst. auto. Qed.

Lemma swf_leaf_inv : forall pfx k v, swf pfx (Leaf k v) -> kwf k /\ has_prefix k pfx.
Proof. intros pfx k v W. inversion W; subst. auto. Qed.

(* ---------- insert ---------- *)
Lemma swf_empty_branch : forall pfx, (length pfx < 52)%nat -> swf pfx (Branch 0 []).
Proof.
  intros pfx L. constructor; auto using bwf_empty.
  - intros c child Hc S. rewrite slots_empty in S. unfold slot in S.
    rewrite nth_repeat in S. discriminate.
  - intros c child Hc S. rewrite slots_empty in S. unfold slot in S.
    rewrite nth_repeat in S. discriminate.
Qed.
Lemma to_list_empty_branch : to_list (Branch 0 []) = [].
Proof. reflexivity. Qed.

Lemma branch_ctx : forall pfx bm cs k, swf pfx (Branch bm cs) -> kwf k -> has_prefix k pfx ->
  let c := chunk k (depth pfx) in
  c < 32 /\
  (forall x, In x (before (slots bm cs) c) -> bytes_ltb (fst x) k = true) /\
  (forall x, In x (after (slots bm cs) c) -> bytes_ltb k (fst x) = true) /\
  to_list (Branch bm cs) = before (slots bm cs) c ++ ol (slot (slots bm cs) c) ++ after (slots bm cs) c.
Proof.
  intros pfx bm cs k W K P c. assert (Hc : c < 32) by apply chunk_lt. repeat split; auto.
  - intros x Hx. exact (before_lt pfx bm cs k c x W K P eq_refl Hx).
  - intros x Hx. exact (after_gt pfx bm cs k c x W K P eq_refl Hx).
  - apply (cur_slot pfx); auto.
Qed.

(* a new node placed into an empty slot *)
Lemma ins_leaf_empty : forall pfx bm cs k v, swf pfx (Branch bm cs) -> kwf k -> has_prefix k pfx ->
  child_index bm (chunk k (depth pfx)) = None ->
  swf pfx (Branch (fst (insert_child bm cs (chunk k (depth pfx)) (Leaf k v)))
                  (snd (insert_child bm cs (chunk k (depth pfx)) (Leaf k v)))) /\
  to_list (Branch (fst (insert_child bm cs (chunk k (depth pfx)) (Leaf k v)))
                  (snd (insert_child bm cs (chunk k (depth pfx)) (Leaf k v))))
    = m_ins k v (to_list (Branch bm cs)) /\
  m_find k (to_list (Branch bm cs)) = None.
Proof.
  intros pfx bm cs k v W K P CI. destruct (branch_ctx _ _ _ _ W K P) as [Hc [HB [HA E]]].
  set (c := chunk k (depth pfx)) in *. destruct (swf_branch_inv _ _ _ W) as [_ [BW _]].
  destruct (insert_child_spec bm cs c (Leaf k v) Hc BW CI) as [W' S'].
  destruct (child_cases bm cs c Hc BW) as [[_ S] | [idx [ch [CI' _]]]]; [|congruence].
  destruct (upd_slot pfx bm cs c _ _ (Some (Leaf k v)) W Hc W' S') as [W2 E2].
  { intros child [= <-]. split; [|exact I]. constructor; auto. apply has_prefix_app. auto. }
  rewrite S in E. cbn [ol app] in E. split; [exact W2|]. split.
  - rewrite E2, E. cbn [ol]. change (before (slots bm cs) c ++ after (slots bm cs) c)
      with (before (slots bm cs) c ++ [] ++ after (slots bm cs) c).
    rewrite m_ins_mid by auto. reflexivity.
  - rewrite E. change (before (slots bm cs) c ++ after (slots bm cs) c)
      with (before (slots bm cs) c ++ [] ++ after (slots bm cs) c).
    rewrite (m_find_mid k _ _ _ (neq_of_lt_l _ _ HB) (neq_of_lt_r _ _ HA)). reflexivity.
Qed.

Lemma prefix_full : forall pfx k1 k2, kwf k1 -> kwf k2 -> has_prefix k1 pfx -> has_prefix k2 pfx ->
  (52 <= length pfx)%nat -> k1 = k2.
Proof.
  intros pfx k1 k2 K1 K2 P1 P2 L. apply chunks_inj; auto. intros d Hd.
  replace d with (N.of_nat (N.to_nat d)) by lia. rewrite P1, P2 by lia. reflexivity.
Qed.

Lemma child_index_zero : forall c, child_index 0 c = None.
Proof. intros c. unfold child_index. rewrite N.land_0_l. reflexivity. Qed.

Lemma split_spec : forall fuel pfx k1 v1 k2 v2, kwf k1 -> kwf k2 -> k1 <> k2 ->
  has_prefix k1 pfx -> has_prefix k2 pfx -> (53 <= fuel + length pfx)%nat ->
  exists bm cs, split_leaves fuel (depth pfx) k1 v1 k2 v2 = Ok (Branch bm cs) /\
    swf pfx (Branch bm cs) /\ to_list (Branch bm cs) = m_ins k2 v2 [(k1, v1)].
Proof.
  induction fuel as [|f IH]; intros pfx k1 v1 k2 v2 K1 K2 NE P1 P2 F.
  - exfalso. apply NE. apply (prefix_full pfx); auto. lia.
  - assert (L : (length pfx < 52)%nat).
    { destruct (le_lt_dec 52 (length pfx)); auto. exfalso. apply NE. apply (prefix_full pfx); auto. }
    assert (D : depth pfx < 52) by (unfold depth; lia).
    cbn [split_leaves]. rewrite (chunk_at_ok k1 _ K1 D), (chunk_at_ok k2 _ K2 D).
    set (c1 := chunk k1 (depth pfx)). set (c2 := chunk k2 (depth pfx)).
    assert (H1 : c1 < 32) by apply chunk_lt. assert (H2 : c2 < 32) by apply chunk_lt.
    pose proof (swf_empty_branch pfx L) as W0.
    destruct (N.eqb_spec c1 c2) as [Ec|Nc].
    + (* same chunk: one level deeper *)
      destruct (IH (pfx ++ [c1]) k1 v1 k2 v2 K1 K2 NE) as [bm [cs [E [W T]]]].
      { apply has_prefix_app; auto. }
      { apply has_prefix_app; split; auto; symmetry; exact Ec. }
      { rewrite app_length; cbn [length]; lia. }
      rewrite depth_app in E. rewrite E.
      destruct (insert_child_spec 0 [] c1 (Branch bm cs) H1 bwf_empty (child_index_zero c1)) as [W' S'].
      destruct (insert_child 0 [] c1 (Branch bm cs)) as [bm' cs'] eqn:IC. cbn [fst snd] in *.
      exists bm', cs'. split; auto.
      destruct (upd_slot pfx 0 [] c1 bm' cs' (Some (Branch bm cs)) W0 H1 W' S') as [W2 E2].
      { intros child [= <-]. split; auto. cbn [nonroot_ok]. rewrite T.
        pose proof (m_ins_length_ge k2 v2 [(k1, v1)]) as G. cbn [length] in G.
        assert (X : length (m_ins k2 v2 [(k1, v1)]) = 2%nat).
        { cbn [m_ins]. destruct (bytes_ltb k2 k1); auto. destruct (bytes_eqb k1 k2) eqn:Q; auto.
          apply bytes_eqb_eq in Q. contradiction. }
        lia. }
      split; auto. rewrite E2. cbn [ol]. rewrite T.
      assert (B0 : before (slots 0 []) c1 = []).
      { pose proof (cur_slot pfx 0 [] c1 W0 H1) as Q. rewrite to_list_empty_branch in Q.
        symmetry in Q. apply app_eq_nil in Q. tauto. }
      assert (A0 : after (slots 0 []) c1 = []).
      { pose proof (cur_slot pfx 0 [] c1 W0 H1) as Q. rewrite to_list_empty_branch in Q.
        symmetry in Q. apply app_eq_nil in Q. destruct Q as [_ Q]. apply app_eq_nil in Q. tauto. }
      rewrite B0, A0, app_nil_r. reflexivity.
    + (* different chunks: two leaves *)
      destruct (ins_leaf_empty pfx 0 [] k1 v1 W0 K1 P1 (child_index_zero _)) as [W1 [T1 _]].
      fold c1 in W1, T1.
      destruct (insert_child 0 [] c1 (Leaf k1 v1)) as [bm1 cs1] eqn:IC1. cbn [fst snd] in *.
      assert (CI2 : child_index bm1 c2 = None).
      { destruct (swf_branch_inv _ _ _ W1) as [_ [BW1 [_ NR1]]].
        destruct (child_cases bm1 cs1 c2 H2 BW1) as [[CI _] | [idx [ch [_ [_ S]]]]]; auto.
        exfalso. (* slot c2 of the one-leaf branch holds a key with chunk c2: it is k1, whose chunk is c1 *)
        assert (In (k1, v1) (to_list (Branch bm1 cs1))) by (rewrite T1; cbn; auto).
        destruct ch as [lk lv | cb cc].
        - assert (Hin : In (lk, lv) (to_list (Branch bm1 cs1))).
          { rewrite (cur_slot pfx bm1 cs1 c2 W1 H2), S. apply in_or_app. right. apply in_or_app. left. cbn; auto. }
          rewrite T1 in Hin. cbn in Hin. destruct Hin as [Q|[]]. injection Q as <- <-.
          destruct (swf_slot_keys pfx bm1 cs1 c2 _ k1 v1 W1 H2 S) as [_ [_ C]]; [cbn; auto|].
          apply Nc. exact C.
        - pose proof (NR1 c2 _ H2 S) as NR. cbn [nonroot_ok] in NR.
          assert (Le : (length (to_list (Branch cb cc)) <= length (to_list (Branch bm1 cs1)))%nat).
          { rewrite (cur_slot pfx bm1 cs1 c2 W1 H2), S. unfold ol. rewrite !app_length.
            etransitivity; [apply Nat.le_add_r | apply Nat.le_add_l]. }
          rewrite T1, to_list_empty_branch in Le. cbn [m_ins length] in Le. lia. }
      destruct (ins_leaf_empty pfx bm1 cs1 k2 v2 W1 K2 P2 CI2) as [W2 [T2 _]]. fold c2 in W2, T2.
      destruct (insert_child bm1 cs1 c2 (Leaf k2 v2)) as [bm2 cs2] eqn:IC2. cbn [fst snd] in *.
      exists bm2, cs2. split; auto. split; auto. rewrite T2, T1. reflexivity.
Qed.

Lemma m_ins_single_len : forall (k : key) (v : value) (lk : key) (lv : value), bytes_eqb lk k = false ->
  length (m_ins k v [(lk, lv)]) = 2%nat.
Proof. intros k v lk lv E. cbn [m_ins]. destruct (bytes_ltb k lk); auto. rewrite E. reflexivity. Qed.

Lemma insert_rec_spec : forall pfx n, swf pfx n -> forall bm cs, n = Branch bm cs ->
  forall fuel k v, kwf k -> has_prefix k pfx -> (53 <= fuel + length pfx)%nat ->
  exists bm' cs', insert_rec fuel n (depth pfx) k v = Ok (Branch bm' cs', m_find k (to_list n)) /\
    swf pfx (Branch bm' cs') /\ to_list (Branch bm' cs') = m_ins k v (to_list n).
Proof.
  induction 1 as [pfx k0 v0 K0 P0 | pfx bm cs Lp W Hc IH Hn]; intros bm0 cs0 EQ fuel k v K P F; [discriminate|].
  clear bm0 cs0 EQ.
  assert (WB : swf pfx (Branch bm cs)) by (constructor; auto).
  destruct (fuel_branch _ _ _ _ WB F) as [f [-> [F' D]]]. cbn [insert_rec].
  rewrite (chunk_at_ok k (depth pfx) K D).
  destruct (branch_ctx _ _ _ _ WB K P) as [Hcl [HB [HA E]]]. set (c := chunk k (depth pfx)) in *.
  assert (P' : has_prefix k (pfx ++ [c])) by (apply has_prefix_app; auto).
  assert (F'' : (53 <= f + length (pfx ++ [c]))%nat) by (rewrite app_length in *; cbn [length] in *; lia).
  destruct (child_cases bm cs c Hcl W) as [[CI S] | [idx [ch [CI [NE S]]]]]; rewrite CI.
  - (* empty slot *)
    destruct (ins_leaf_empty pfx bm cs k v WB K P CI) as [W2 [T2 M2]]. fold c in W2, T2.
    destruct (insert_child bm cs c (Leaf k v)) as [bm' cs'] eqn:IC. cbn [fst snd] in *.
    exists bm', cs'. rewrite M2. auto.
  - rewrite NE. rewrite S in E. cbn [ol] in E.
    destruct ch as [lk lv | cb cc].
    + (* a leaf occupies the slot *)
      pose proof (Hc c _ Hcl S) as WL. destruct (swf_leaf_inv _ _ _ WL) as [KL PL].
      change (to_list (Leaf lk lv)) with [(lk, lv)] in E.
      rewrite E. rewrite (m_find_mid k _ _ _ (neq_of_lt_l _ _ HB) (neq_of_lt_r _ _ HA)).
      rewrite m_ins_mid by auto. cbn [m_find].
      destruct (bytes_eqb lk k) eqn:EQ.
      * (* same key: replace the value *)
        destruct (set_child_spec bm cs c idx (Leaf lk v) Hcl W CI) as [W' S'].
        destruct (upd_slot pfx bm cs c bm (set_nth idx (Leaf lk v) cs) (Some (Leaf lk v)) WB Hcl W' S') as [W2 E2].
        { intros child [= <-]. split; [|exact I]. constructor; auto. }
        exists bm, (set_nth idx (Leaf lk v) cs). split; auto. split; auto.
        rewrite E2. cbn [ol to_list m_ins]. apply bytes_eqb_eq in EQ. subst lk.
        rewrite bytes_ltb_irrefl, bytes_eqb_refl. reflexivity.
      * (* different key: split *)
        assert (NEk : lk <> k) by (apply bytes_eqb_neq; auto).
        destruct (split_spec f (pfx ++ [c]) lk lv k v KL K NEk PL P' F'') as [sb [sc [SE [SW ST]]]].
        rewrite depth_app in SE. rewrite SE.
        destruct (set_child_spec bm cs c idx (Branch sb sc) Hcl W CI) as [W' S'].
        destruct (upd_slot pfx bm cs c bm (set_nth idx (Branch sb sc) cs) (Some (Branch sb sc)) WB Hcl W' S') as [W2 E2].
        { intros child [= <-]. split; auto. cbn [nonroot_ok]. rewrite ST, (m_ins_single_len k v lk lv EQ). lia. }
        exists bm, (set_nth idx (Branch sb sc) cs). split; auto. split; auto.
        rewrite E2. cbn [ol]. rewrite ST. reflexivity.
    + (* a branch: descend *)
      destruct (IH c _ Hcl S cb cc eq_refl f k v K P' F'') as [bm' [cs' [IE [IW IT]]]].
      rewrite depth_app in IE. rewrite IE.
      destruct (set_child_spec bm cs c idx (Branch bm' cs') Hcl W CI) as [W' S'].
      destruct (upd_slot pfx bm cs c bm (set_nth idx (Branch bm' cs') cs) (Some (Branch bm' cs')) WB Hcl W' S') as [W2 E2].
      { intros child [= <-]. split; auto. cbn [nonroot_ok]. rewrite IT.
        pose proof (Hn c _ Hcl S) as NR. cbn [nonroot_ok] in NR.
        pose proof (m_ins_length_ge k v (to_list (Branch cb cc))). lia. }
      exists bm, (set_nth idx (Branch bm' cs') cs).
      rewrite E. rewrite (m_find_mid k _ _ _ (neq_of_lt_l _ _ HB) (neq_of_lt_r _ _ HA)).
      rewrite m_ins_mid by auto. split; auto. split; auto.
      rewrite E2. cbn [ol]. rewrite IT. reflexivity.
Qed.

(* ---------- remove ---------- *)
Lemma children_in_slots : forall bm cs x, bwf bm cs -> In x cs ->
  exists c, c < 32 /\ slot (slots bm cs) c = Some x.
Proof.
  intros bm cs x W H. rewrite <- (slots_children bm cs W) in H. apply in_flat_map in H.
  destruct H as [o [Ho Hx]]. destruct o as [y|]; [|contradiction]. destruct Hx as [<-|[]].
  apply In_nth_error in Ho. destruct Ho as [i Hi].
  assert (Li : (i < 32)%nat).
  { assert (X : nth_error (slots bm cs) i <> None) by congruence. apply nth_error_Some in X.
    rewrite slots_length in X. exact X. }
  exists (N.of_nat i). split; [lia|]. unfold slot. rewrite Nat2N.id.
  apply nth_error_nth with (d := None) in Hi. exact Hi.
Qed.

Lemma flat_map_len1 : forall (cs : list node), (forall x, In x cs -> (1 <= length (to_list x))%nat) ->
  length (flat_map to_list cs) = 1%nat -> exists x, cs = [x] /\ length (to_list x) = 1%nat.
Proof.
  intros cs H L. destruct cs as [|x r]; [discriminate|]. cbn [flat_map] in L. rewrite app_length in L.
  pose proof (H x (or_introl eq_refl)).
  destruct r as [|y r'].
  - exists x. cbn [flat_map] in L. cbn [length] in L. split; auto. lia.
  - exfalso. cbn [flat_map] in L. rewrite app_length in L. pose proof (H y (or_intror (or_introl eq_refl))). lia.
Qed.

Lemma single_leaf : forall pfx b cs, swf pfx (Branch b cs) -> length (to_list (Branch b cs)) = 1%nat ->
  exists ck cv, cs = [Leaf ck cv].
Proof.
  intros pfx b cs W L. destruct (swf_branch_inv _ _ _ W) as [_ [BW [SW NR]]]. rewrite to_list_branch in L.
  destruct (flat_map_len1 cs) as [x [-> Lx]]; auto.
  - intros x Hx. destruct (children_in_slots b cs x BW Hx) as [c [Hc S]].
    apply (nonroot_nonempty (pfx ++ [c])); eauto.
  - destruct (children_in_slots b [x] x BW (or_introl eq_refl)) as [c [Hc S]].
    pose proof (NR c x Hc S) as N. destruct x as [ck cv|xb xc]; [eauto|]. cbn [nonroot_ok] in N. lia.
Qed.

Lemma collapse_spec : forall pfx bm' cs', swf pfx (Branch bm' cs') -> (1 <= length (to_list (Branch bm' cs')))%nat ->
  let r := collapse_single (Branch bm' cs') in
  swf pfx r /\ nonroot_ok r /\ to_list r = to_list (Branch bm' cs').
Proof.
  intros pfx bm' cs' W L.
  assert (G : forall ck cv, cs' = [Leaf ck cv] ->
            swf pfx (Leaf ck cv) /\ nonroot_ok (Leaf ck cv) /\ to_list (Leaf ck cv) = to_list (Branch bm' cs')).
  { intros ck cv ->. split; [|split; [exact I | reflexivity]].
    destruct (swf_keys _ _ W ck cv) as [K P]; [cbn; auto|]. constructor; auto. }
  assert (G2 : (forall ck cv, cs' <> [Leaf ck cv]) ->
            swf pfx (Branch bm' cs') /\ nonroot_ok (Branch bm' cs') /\ to_list (Branch bm' cs') = to_list (Branch bm' cs')).
  { intros NE. split; auto. split; auto. cbn [nonroot_ok].
    destruct (Nat.eq_dec (length (to_list (Branch bm' cs'))) 1) as [E1|]; [|lia].
    destruct (single_leaf _ _ _ W E1) as [ck [cv E]]. exfalso. eapply NE; eauto. }
  destruct cs' as [|[ck cv|xb xc] [|y r]]; cbv zeta; unfold collapse_single; try (apply G2; intros; discriminate).
  apply G. reflexivity.
Qed.

Lemma remove_rec_spec : forall pfx n, swf pfx n -> forall bm cs, n = Branch bm cs ->
  forall fuel k, kwf k -> has_prefix k pfx -> (53 <= fuel + length pfx)%nat ->
  exists bm' cs', remove_rec fuel n (depth pfx) k = Ok (Branch bm' cs', m_find k (to_list n)) /\
    swf pfx (Branch bm' cs') /\ to_list (Branch bm' cs') = m_del k (to_list n).
Proof.
  induction 1 as [pfx k0 v0 K0 P0 | pfx bm cs Lp W Hc IH Hn]; intros bm0 cs0 EQ fuel k K P F; [discriminate|].
  clear bm0 cs0 EQ.
  assert (WB : swf pfx (Branch bm cs)) by (constructor; auto).
  destruct (fuel_branch _ _ _ _ WB F) as [f [-> [F' D]]]. cbn [remove_rec].
  rewrite (chunk_at_ok k (depth pfx) K D).
  destruct (branch_ctx _ _ _ _ WB K P) as [Hcl [HB [HA E]]]. set (c := chunk k (depth pfx)) in *.
  assert (P' : has_prefix k (pfx ++ [c])) by (apply has_prefix_app; auto).
  assert (F'' : (53 <= f + length (pfx ++ [c]))%nat) by (rewrite app_length in *; cbn [length] in *; lia).
  pose proof (neq_of_lt_l _ _ HB) as NB. pose proof (neq_of_lt_r _ _ HA) as NA.
  destruct (child_cases bm cs c Hcl W) as [[CI S] | [idx [ch [CI [NE S]]]]]; rewrite CI.
  - (* empty slot: absent *)
    rewrite S in E. cbn [ol app] in E. exists bm, cs. rewrite E.
    change (before (slots bm cs) c ++ after (slots bm cs) c)
      with (before (slots bm cs) c ++ [] ++ after (slots bm cs) c).
    rewrite (m_find_mid k _ [] _ NB NA), (m_del_mid k _ [] _ NB NA). cbn [m_find m_del app].
    rewrite <- E. auto.
  - rewrite NE. rewrite S in E. cbn [ol] in E.
    destruct ch as [lk lv | cb cc].
    + change (to_list (Leaf lk lv)) with [(lk, lv)] in E. rewrite E.
      rewrite (m_find_mid k _ _ _ NB NA), (m_del_mid k _ _ _ NB NA). cbn [m_find m_del].
      destruct (bytes_eqb lk k) eqn:EQ.
      * destruct (remove_child_spec bm cs c idx Hcl W CI) as [W' S'].
        destruct (remove_child bm cs idx c) as [bm' cs'] eqn:RC. cbn [fst snd] in *.
        destruct (upd_slot pfx bm cs c bm' cs' None WB Hcl W' S') as [W2 E2]; [intros; discriminate|].
        exists bm', cs'. split; auto.
      * exists bm, cs. rewrite <- E. auto.
    + destruct (IH c _ Hcl S cb cc eq_refl f k K P' F'') as [bm' [cs' [IE [IW IT]]]].
      rewrite depth_app in IE. rewrite IE. rewrite E.
      rewrite (m_find_mid k _ _ _ NB NA), (m_del_mid k _ _ _ NB NA).
      destruct (m_find k (to_list (Branch cb cc))) as [old|] eqn:MF.
      * pose proof (Hn c _ Hcl S) as NR. cbn [nonroot_ok] in NR.
        pose proof (m_del_length k _ _ MF) as DL. rewrite <- IT in DL.
        destruct (collapse_spec (pfx ++ [c]) bm' cs' IW ltac:(lia)) as [CW [CN CT]].
        set (child'' := collapse_single (Branch bm' cs')) in *.
        destruct (set_child_spec bm cs c idx child'' Hcl W CI) as [W' S'].
        destruct (upd_slot pfx bm cs c bm (set_nth idx child'' cs) (Some child'') WB Hcl W' S') as [W2 E2].
        { intros child [= <-]. auto. }
        exists bm, (set_nth idx child'' cs). split; [reflexivity|]. split; auto.
        rewrite E2. cbn [ol]. rewrite CT, IT. reflexivity.
      * exists bm, cs. split; auto. split; auto. rewrite E.
        rewrite (m_del_absent k (to_list (Branch cb cc))) by (apply m_find_none_in; auto). reflexivity.
Qed.

(* ---------- canonical form: the trie is a function of its contents ---------- *)
Lemma filter_none : forall (A : Type) (f : A -> bool) l, (forall x, In x l -> f x = false) -> filter f l = [].
Proof.
  induction l as [|a l IH]; intros H; cbn [filter]; auto. rewrite (H a (or_introl eq_refl)). apply IH.
  intros; apply H; right; auto.
Qed.
Lemma filter_all : forall (A : Type) (f : A -> bool) l, (forall x, In x l -> f x = true) -> filter f l = l.
Proof.
  induction l as [|a l IH]; intros H; cbn [filter]; auto. rewrite (H a (or_introl eq_refl)). f_equal. apply IH.
  intros; apply H; right; auto.
Qed.

Lemma slot_is_filter : forall pfx bm cs c, swf pfx (Branch bm cs) -> c < 32 ->
  ol (slot (slots bm cs) c) =
  filter (fun x : key * value => chunk (fst x) (depth pfx) =? c) (to_list (Branch bm cs)).
Proof.
  intros pfx bm cs c W Hc. rewrite (cur_slot pfx bm cs c W Hc). rewrite !filter_app.
  rewrite (filter_none _ _ (before (slots bm cs) c)), (filter_none _ _ (after (slots bm cs) c)), filter_all.
  - rewrite app_nil_r. reflexivity.
  - intros [k v] Hx. destruct (slot (slots bm cs) c) as [n|] eqn:S; [|contradiction]. cbn [ol] in Hx.
    destruct (swf_slot_keys _ _ _ _ _ _ _ W Hc S Hx) as [_ [_ C]]. cbn [fst]. apply N.eqb_eq. exact C.
  - intros [k v] Hx. destruct (in_after _ _ _ (slots_length bm cs) Hc Hx) as [c' [n [L1 [L2 [S Hin]]]]].
    destruct (swf_slot_keys _ _ _ _ _ _ _ W L2 S Hin) as [_ [_ C]]. cbn [fst]. apply N.eqb_neq. lia.
  - intros [k v] Hx. destruct (in_before _ _ _ (slots_length bm cs) Hc Hx) as [c' [n [L1 [S Hin]]]].
    assert (L2 : c' < 32) by lia.
    destruct (swf_slot_keys _ _ _ _ _ _ _ W L2 S Hin) as [_ [_ C]]. cbn [fst]. apply N.eqb_neq. lia.
Qed.

Definition is_branch (n : node) : Prop := exists bm cs, n = Branch bm cs.
Definition same_kind (a b : node) : Prop := (is_branch a /\ is_branch b) \/ (nonroot_ok a /\ nonroot_ok b).

Lemma canonical_node : forall pfx n1, swf pfx n1 -> forall n2, swf pfx n2 -> same_kind n1 n2 ->
  to_list n1 = to_list n2 -> n1 = n2.
Proof.
  induction 1 as [pfx k1 v1 K1 P1 | pfx bm cs Lp W Hc IH Hn]; intros n2 W2 SK E.
  - destruct n2 as [k2 v2 | bm2 cs2].
    + cbn in E. congruence.
    + exfalso. destruct SK as [[[? [? Q]] _] | [_ N2]]; [discriminate|].
      cbn [nonroot_ok] in N2. rewrite <- E in N2. cbn in N2. lia.
  - assert (WB : swf pfx (Branch bm cs)) by (constructor; auto).
    destruct n2 as [k2 v2 | bm2 cs2].
    + exfalso. destruct SK as [[_ [? [? Q]]] | [N1 _]]; [discriminate|].
      cbn [nonroot_ok] in N1. rewrite E in N1. cbn in N1. lia.
    + destruct (swf_branch_inv _ _ _ W2) as [_ [BW2 [SW2 NR2]]].
      assert (SL : slots bm cs = slots bm2 cs2).
      { apply nth_ext with (d := None) (d' := None); [rewrite !slots_length; reflexivity|].
        intros i Hi. rewrite slots_length in Hi.
        assert (Hcl : N.of_nat i < 32) by lia.
        pose proof (slot_is_filter pfx bm cs _ WB Hcl) as F1.
        pose proof (slot_is_filter pfx bm2 cs2 _ W2 Hcl) as F2.
        rewrite E, <- F2 in F1.
        replace (nth i (slots bm cs) None) with (slot (slots bm cs) (N.of_nat i))
          by (unfold slot; rewrite Nat2N.id; reflexivity).
        replace (nth i (slots bm2 cs2) None) with (slot (slots bm2 cs2) (N.of_nat i))
          by (unfold slot; rewrite Nat2N.id; reflexivity).
        destruct (slot (slots bm cs) (N.of_nat i)) as [a|] eqn:S1;
          destruct (slot (slots bm2 cs2) (N.of_nat i)) as [b|] eqn:S2; cbn [ol] in F1; auto.
        - f_equal. apply (IH (N.of_nat i) a Hcl S1 b).
          + apply SW2; auto.
          + right. split; [eapply Hn | eapply NR2]; eauto.
          + exact F1.
        - exfalso.
          assert (X : (1 <= length (to_list a))%nat) by (eapply nonroot_nonempty; [eapply Hc | eapply Hn]; eauto).
          rewrite F1 in X. cbn in X. lia.
        - exfalso.
          assert (X : (1 <= length (to_list b))%nat) by (eapply nonroot_nonempty; [eapply SW2 | eapply NR2]; eauto).
          rewrite <- F1 in X. cbn in X. lia. }
      destruct (slots_inj bm cs bm2 cs2 W BW2 SL) as [-> ->]. reflexivity.
Qed.

(* ---------- sorted reference lists ---------- *)
Lemma sorted_head_none : forall (k k' : key) (v' : value) (t : list (key * value)),
  sorted ((k', v') :: t) -> bytes_ltb k k' = true -> m_find k ((k', v') :: t) = None.
Proof.
  intros k k' v' t S L. apply m_find_none. intros x [<-|Hx]; cbn [fst].
  - rewrite bytes_eqb_sym. apply bytes_ltb_neq. exact L.
  - inversion S; subst. eapply Forall_forall in H2; eauto. unfold klt in H2. cbn [fst] in H2.
    rewrite bytes_eqb_sym. apply bytes_ltb_neq. eapply bytes_ltb_trans; eauto.
Qed.
Lemma m_ins_length_exact : forall (k : key) (v : value) (l : list (key * value)), sorted l ->
  length (m_ins k v l) = match m_find k l with Some _ => length l | None => S (length l) end.
Proof.
  induction l as [|[k' v'] t IH]; intros S; [reflexivity|].
  cbn [m_ins]. destruct (bytes_ltb k k') eqn:L.
  - rewrite (sorted_head_none k k' v' t S L). reflexivity.
  - cbn [m_find]. destruct (bytes_eqb k' k); [reflexivity|]. cbn [length]. inversion S; subst.
    rewrite IH by auto. destruct (m_find k t); reflexivity.
Qed.

(* ---------- states ---------- *)
Definition contents (s : state) : list (key * value) := to_list (st_root s).
Definition st_wf (s : state) : Prop :=
  swf [] (st_root s) /\ is_branch (st_root s) /\ st_len s = N.of_nat (length (contents s)).

Lemma st_wf_new : st_wf state_new /\ contents state_new = [].
Proof.
  split; [|reflexivity]. split; [|split].
  - apply swf_empty_branch. cbn; lia.
  - exists 0, []. reflexivity.
  - reflexivity.
Qed.
Lemma has_prefix_nil : forall k, has_prefix k [].
Proof. intros k j Hj. cbn in Hj. lia. Qed.
Lemma depth_nil : depth [] = 0.
Proof. reflexivity. Qed.

Lemma st_sorted : forall s, st_wf s -> sorted (contents s).
Proof. intros s [W _]. apply (swf_sorted [] _ W). Qed.
Lemma st_keys_wf : forall s k v, st_wf s -> In (k, v) (contents s) -> kwf k.
Proof. intros s k v [W _] H. apply (swf_keys [] _ W k v H). Qed.

Lemma st_get_spec : forall s k, st_wf s -> kwf k -> st_get s k = Ok (m_find k (contents s)).
Proof.
  intros s k [W _] K. unfold st_get. rewrite <- depth_nil.
  apply (get_rec_spec [] _ W); auto using has_prefix_nil. cbn. lia.
Qed.

Lemma st_insert_spec : forall s k v, st_wf s -> kwf k ->
  exists s', st_insert s k v = Ok (s', m_find k (contents s)) /\ st_wf s' /\ contents s' = m_ins k v (contents s).
Proof.
  intros s k v WF K. pose proof (st_sorted s WF) as SO. destruct WF as [W [[bm [cs B]] L]].
  destruct (insert_rec_spec [] _ W bm cs B FUEL k v K (has_prefix_nil k)) as [bm' [cs' [E [W' T]]]]; [cbn; lia|].
  unfold st_insert. rewrite depth_nil in E. rewrite E.
  eexists. split; [reflexivity|]. unfold st_wf, contents. cbn [st_root st_len]. split; [|exact T].
  split; auto. split; [exists bm', cs'; reflexivity|].
  rewrite T. fold (contents s). rewrite m_ins_length_exact by exact SO. unfold contents in L.
  fold (contents s) in L. destruct (m_find k (contents s)); lia.
Qed.

Lemma st_remove_spec : forall s k, st_wf s -> kwf k ->
  exists s', st_remove s k = Ok (s', m_find k (contents s)) /\ st_wf s' /\ contents s' = m_del k (contents s).
Proof.
  intros s k WF K. unfold st_remove. rewrite (st_get_spec s k WF K). destruct WF as [W [[bm [cs B]] L]].
  destruct (m_find k (contents s)) as [old|] eqn:MF.
  - destruct (remove_rec_spec [] _ W bm cs B FUEL k K (has_prefix_nil k)) as [bm' [cs' [E [W' T]]]]; [cbn; lia|].
    rewrite depth_nil in E. rewrite E. fold (contents s). rewrite MF.
    pose proof (m_del_length k _ _ MF) as DL.
    assert (NZ : (st_len s =? 0) = false) by (apply N.eqb_neq; lia). rewrite NZ.
    eexists. split; [reflexivity|]. unfold st_wf, contents. cbn [st_root st_len]. split; [|exact T].
    split; auto. split; [exists bm', cs'; reflexivity|]. rewrite T. fold (contents s). lia.
  - exists s. split; auto. split; [split; [auto | split; [exists bm, cs; auto | auto]]|].
    symmetry. apply m_del_absent. apply m_find_none_in. exact MF.
Qed.

Theorem st_canonical : forall s1 s2, st_wf s1 -> st_wf s2 -> contents s1 = contents s2 -> s1 = s2.
Proof.
  intros [r1 l1] [r2 l2] [W1 [B1 L1]] [W2 [B2 L2]] E. unfold contents in *. cbn [st_root st_len] in *.
  assert (r1 = r2) by (apply (canonical_node [] r1 W1 r2 W2); [left; auto | exact E]).
  subst. f_equal; lia.
Qed.

(* ---------- iteration: the stack machine yields the in-order contents ---------- *)
Fixpoint sizes (l : list node) : nat := match l with [] => 0%nat | c :: t => (node_size c + sizes t)%nat end.
Lemma node_size_branch : forall bm cs, node_size (Branch bm cs) = S (sizes cs).
Proof. intros. reflexivity. Qed.
Lemma sizes_app : forall a b, sizes (a ++ b) = (sizes a + sizes b)%nat.
Proof. induction a as [|x a IH]; intros b; cbn [app sizes]; [reflexivity | rewrite IH; lia]. Qed.
Lemma iter_run_spec : forall fuel stack, (sizes stack <= fuel)%nat -> iter_run fuel stack = Ok (flat_map to_list stack).
Proof.
  induction fuel as [|f IH]; intros stack H.
  - destruct stack as [|n rest]; [reflexivity|]. cbn [sizes] in H. destruct n; cbn [node_size] in H; lia.
  - destruct stack as [|n rest]; [reflexivity|]. cbn [iter_run]. destruct n as [k v | bm cs].
    + cbn [sizes node_size] in H. rewrite IH by lia. reflexivity.
    + cbn [sizes] in H. rewrite node_size_branch in H. rewrite IH by (rewrite sizes_app; lia).
      rewrite flat_map_app. cbn [flat_map]. rewrite to_list_branch. reflexivity.
Qed.
Lemma st_iter_spec : forall s, st_iter s = Ok (contents s).
Proof.
  intros s. unfold st_iter. rewrite iter_run_spec by (cbn [sizes]; lia). cbn [flat_map]. rewrite app_nil_r. reflexivity.
Qed.

(* ---------- derived equality is structural equality ---------- *)
Fixpoint node_ind2 (P : node -> Prop) (HL : forall k v, P (Leaf k v))
  (HB : forall bm cs, Forall P cs -> P (Branch bm cs)) (n : node) : P n :=
  match n with
  | Leaf k v => HL k v
  | Branch bm cs =>
    HB bm cs ((fix go (l : list node) : Forall P l :=
                 match l with [] => Forall_nil P | c :: t => Forall_cons c (node_ind2 P HL HB c) (go t) end) cs)
  end.
Fixpoint nodes_eqb (l1 l2 : list node) : bool :=
  match l1, l2 with [], [] => true | x :: t1, y :: t2 => node_eqb x y && nodes_eqb t1 t2 | _, _ => false end.
Lemma node_eqb_branch : forall b1 c1 b2 c2, node_eqb (Branch b1 c1) (Branch b2 c2) = (b1 =? b2) && nodes_eqb c1 c2.
Proof.
  intros. reflexivity.
Qed.
Lemma node_eqb_eq : forall a b, node_eqb a b = true <-> a = b.
Proof.
  induction a as [k v | bm cs IH] using node_ind2; intros b.
  - destruct b as [k2 v2 | b2 c2]; cbn [node_eqb]; [|split; discriminate].
    rewrite andb_true_iff, !bytes_eqb_eq. split; [intros [-> ->]; reflexivity | intros [= -> ->]; auto].
  - destruct b as [k2 v2 | b2 c2]; [cbn [node_eqb]; split; discriminate|].
    rewrite node_eqb_branch, andb_true_iff, N.eqb_eq.
    assert (G : forall c2, nodes_eqb cs c2 = true <-> cs = c2).
    { clear b2 c2. induction IH as [|x t Hx Ht IHt]; intros [|y t2]; cbn [nodes_eqb]; try (split; congruence).
      rewrite andb_true_iff, Hx, IHt. split; [intros [-> ->]; reflexivity | intros [= -> ->]; auto]. }
    rewrite G. split; [intros [-> ->]; reflexivity | intros [= -> ->]; auto].
Qed.
Lemma state_eqb_eq : forall a b, state_eqb a b = true <-> a = b.
Proof.
  intros [r1 l1] [r2 l2]. unfold state_eqb. cbn [st_root st_len]. rewrite andb_true_iff, node_eqb_eq, N.eqb_eq.
  split; [intros [-> ->]; reflexivity | intros [= -> ->]; auto].
Qed.
