(* The tie between the rules of Model/Safety.v and the executable node model (C01, part B).
   1. votor_obeys_rules: every trace of the Votor model (any input sequence from votor_init) decides
      only votes that satisfy the node-level rules of Model/NodeRules.v (R0-R3, the R6 guard, fallback
      votes only on the corresponding pool event, own signer) - the very predicate the oracle
      evaluates on the real Votor's broadcasts.
   2. node_rule_sound: when the events handed to the node are justified by the votes cast so far
      (what Pool guarantees: C06 SafeToProofs for the stake conditions, C07 for ParentReady), a vote
      passing the node-level check satisfies the abstract rule [rule_at]. *)
From Coq Require Import List NArith ZArith Bool Lia ZifyBool ZifyN ZifyNat.
From AG Require Import Gen.Params Model.Pool Model.PoolSpec Model.Votor Model.Safety Model.NodeRules
                       Proofs.SlotStateProofs Proofs.SafeToProofs Proofs.VotorProofs Proofs.StakeSets Proofs.SafetyProofs.
Import ListNotations.
Open Scope N_scope.

Ltac nlia := cbv beta delta [blockid slot hash vidx] in *; lia.

(* ---------- own votes ---------- *)
Lemma own_has_app a b s f : own_has (a ++ b) s f = own_has a s f || own_has b s f.
Proof. unfold own_has. apply existsb_app. Qed.
Lemma own_has_one v s f : own_has [v] s f = (v_slot v =? s) && f (v_kind v).
Proof. unfold own_has. cbn [existsb]. apply orb_false_r. Qed.
Lemma own_has_nil s f : own_has [] s f = false.
Proof. reflexivity. Qed.

(* ---------- per-slot state ---------- *)
Lemma vstate_vset t s0 x s : vstate (vset t s0 x) s = if s =? s0 then x else vstate t s.
Proof.
  unfold vstate, vset, aget. cbn [vt_slots]. destruct (s =? s0) eqn:E.
  - apply N.eqb_eq in E. subst. rewrite alookup_ainsert_same. reflexivity.
  - rewrite alookup_ainsert_other by (apply N.eqb_neq; exact E). reflexivity.
Qed.
Lemma fu_vset t s0 x : v_first_unpruned (vset t s0 x) = v_first_unpruned t.
Proof. reflexivity. Qed.
Lemma vget_vstate t s x : vget t s = Some x -> vstate t s = x.
Proof. unfold vget, vstate, aget. intros ->. reflexivity. Qed.
Lemma v_voted_vstate t s : v_voted t s = vs_voted (vstate t s).
Proof. unfold v_voted, vstate, vget, aget. destruct (alookup s (vt_slots t)); reflexivity. Qed.
Lemma v_retired_vstate t s : v_retired t s = vs_retired (vstate t s).
Proof. unfold v_retired, vstate, vget, aget. destruct (alookup s (vt_slots t)); reflexivity. Qed.

Definition no_ex : slot -> bool := fun _ => false.

(* what the flags of one slot's Votor state say about the own votes so far and the evidence so far;
   [fu] = first unpruned slot, [ex] = the slot is exempt from the bad-window clause (in the middle of
   handling SafeToNotar / SafeToSkip, between the fallback vote and the flag update) *)
Definition slot_ok (fu : slot) (x : vslot) (s : slot) (older : list vote) (ev : evidence) (ex : bool) : Prop :=
  (fu <= s -> vs_voted x = false -> own_has older s k_initial = false) /\
  (forall h, vs_voted_notar x = Some h -> (s, h) = genesis \/ own_has older s (k_notar h) = true) /\
  (fu <= s -> ex = false -> vs_bad x = false -> own_has older s k_bad = false) /\
  (forall h, vs_notarized x = Some h -> (s, h) = genesis \/ bid_in (s, h) (ev_nc ev) = true) /\
  (fu <= s -> vs_retired x = false -> own_has older s k_final = false) /\
  (forall p, In p (vs_parents x) -> s = 0 \/ In (s, p) (ev_pr ev)) /\
  (forall h p, vs_pending x = Some (h, p) -> In ((s, h), p) (ev_blocks ev)) /\
  (s = 0 -> fu = 0 -> vs_voted x = true /\ vs_retired x = true).

Definition Inv (t : votor) (older : list vote) (ev : evidence) (ex : slot -> bool) : Prop :=
  forall s, slot_ok (v_first_unpruned t) (vstate t s) s older ev (ex s).

(* votes of other slots do not disturb a slot *)
Lemma slot_ok_frame fu x s older new ev ex :
  slot_ok fu x s older ev ex -> (forall v, In v new -> v_slot v <> s) -> slot_ok fu x s (older ++ new) ev ex.
Proof.
  intros (A & B & C & D & E & F & G & I) Hn.
  assert (Z : forall f, own_has new s f = false).
  { intros f. unfold own_has. destruct (existsb _ new) eqn:X; [|reflexivity]. exfalso.
    apply existsb_exists in X. destruct X as [v [Hv Ev]]. apply andb_prop in Ev. destruct Ev as [Ev _].
    apply N.eqb_eq in Ev. exact (Hn v Hv Ev). }
  repeat split; try assumption.
  - intros L V. rewrite own_has_app, Z, orb_false_r. auto.
  - intros h V. destruct (B h V) as [X|X]; [left; exact X | right; rewrite own_has_app, X; reflexivity].
  - intros L X V. rewrite own_has_app, Z, orb_false_r. auto.
  - intros L V. rewrite own_has_app, Z, orb_false_r. auto.
  - apply I; assumption.
  - apply I; assumption.
Qed.

Definition ev_le (a b : evidence) : Prop :=
  incl (ev_pr a) (ev_pr b) /\ incl (ev_nc a) (ev_nc b) /\ incl (ev_s2n a) (ev_s2n b)
  /\ incl (ev_s2s a) (ev_s2s b) /\ incl (ev_blocks a) (ev_blocks b).
Lemma ev_le_add ev i : ev_le ev (ev_add_input ev i).
Proof.
  unfold ev_le. destruct i as [e| | | | |]; try (repeat split; apply incl_refl).
  - destruct e; try (repeat split; apply incl_refl); cbn [ev_add_input ev_pr ev_nc ev_s2n ev_s2s ev_blocks];
      try (repeat split; try apply incl_refl; apply incl_tl, incl_refl).
    destruct (c_kind c); cbn [ev_pr ev_nc ev_s2n ev_s2s ev_blocks]; repeat split; try apply incl_refl; apply incl_tl, incl_refl.
  - cbn [ev_add_input ev_pr ev_nc ev_s2n ev_s2s ev_blocks]. repeat split; try apply incl_refl; apply incl_tl, incl_refl.
Qed.

Lemma bid_in_true b l : bid_in b l = true <-> In b l.
Proof.
  unfold bid_in. rewrite existsb_exists. split.
  - intros [y [Hy E]]. unfold bid_eqb in E. apply andb_prop in E. destruct E as [E1 E2].
    apply N.eqb_eq in E1. apply N.eqb_eq in E2. destruct b, y. cbn in *. subst. exact Hy.
  - intros Hin. exists b. split; [exact Hin|]. unfold bid_eqb. rewrite !N.eqb_refl. reflexivity.
Qed.

Lemma slot_ok_ev fu x s older ev ev' ex : ev_le ev ev' -> slot_ok fu x s older ev ex -> slot_ok fu x s older ev' ex.
Proof.
  intros (L1 & L2 & L3 & L4 & L5) (A & B & C & D & E & F & G & I).
  repeat split; try assumption.
  - intros h V. destruct (D h V) as [X|X]; [left; exact X | right]. apply bid_in_true. apply L2. apply bid_in_true. exact X.
  - intros p Hp. destruct (F p Hp) as [X|X]; [left; exact X | right; apply L1; exact X].
  - intros h p Hp. apply L5. apply (G h p Hp).
  - apply I; assumption.
  - apply I; assumption.
Qed.

Lemma Inv_ev t older ev ev' ex : ev_le ev ev' -> Inv t older ev ex -> Inv t older ev' ex.
Proof. intros L H s. eapply slot_ok_ev; [exact L | apply H]. Qed.

(* ---------- shape of a handler's result ---------- *)
Definition step_good (own : vidx) (older : list vote) (ev : evidence) (o : list vout) (t' : votor) (ex : slot -> bool) : Prop :=
  forallb (fun v => v_signer v =? own) (vouts_votes o) = true /\
  rules_ok_from older ev (vouts_votes o) = true /\
  Inv t' (older ++ vouts_votes o) ev ex.

Lemma vouts_votes_app a b : vouts_votes (a ++ b) = vouts_votes a ++ vouts_votes b.
Proof. unfold vouts_votes. apply flat_map_app. Qed.
Lemma rules_ok_from_app older ev a b :
  rules_ok_from older ev (a ++ b) = rules_ok_from older ev a && rules_ok_from (older ++ a) ev b.
Proof.
  revert older. induction a as [|x a IH]; intros older; cbn [app rules_ok_from].
  - rewrite app_nil_r. reflexivity.
  - rewrite IH, <- app_assoc. cbn [app]. rewrite andb_assoc. reflexivity.
Qed.

Lemma step_good_nil own older ev t ex : Inv t older ev ex -> step_good own older ev [] t ex.
Proof. intros H. unfold step_good. cbn. rewrite app_nil_r. auto. Qed.

Lemma step_good_app own older ev o1 t1 o2 t2 ex ex2 :
  step_good own older ev o1 t1 ex -> step_good own (older ++ vouts_votes o1) ev o2 t2 ex2 ->
  step_good own older ev (o1 ++ o2) t2 ex2.
Proof.
  intros (A1 & B1 & C1) (A2 & B2 & C2). unfold step_good. rewrite vouts_votes_app. split; [|split].
  - rewrite forallb_app, A1, A2. reflexivity.
  - rewrite rules_ok_from_app, B1, B2. reflexivity.
  - rewrite app_assoc. exact C2.
Qed.

(* outputs that are not votes change nothing *)
Lemma step_good_novotes own older ev o t ex : vouts_votes o = [] -> Inv t older ev ex -> step_good own older ev o t ex.
Proof. intros E H. unfold step_good. rewrite E. cbn. rewrite app_nil_r. auto. Qed.

Lemma Inv_update t older ev ex s x' new :
  Inv t older ev ex -> (forall v, In v new -> v_slot v = s) ->
  slot_ok (v_first_unpruned t) x' s (older ++ new) ev (ex s) ->
  Inv (vset t s x') (older ++ new) ev ex.
Proof.
  intros H Hn Hs z. rewrite vstate_vset, fu_vset. destruct (z =? s) eqn:E.
  - apply N.eqb_eq in E. subst z. exact Hs.
  - apply slot_ok_frame; [apply H|]. intros v Hv X. rewrite (Hn v Hv) in X. apply N.eqb_neq in E. congruence.
Qed.

(* an update that emits no vote *)
Lemma Inv_update0 t older ev ex s x' :
  Inv t older ev ex -> slot_ok (v_first_unpruned t) x' s older ev (ex s) -> Inv (vset t s x') older ev ex.
Proof.
  intros H Hs. pose proof (Inv_update t older ev ex s x' [] H) as X. rewrite app_nil_r in X. apply X; [intros v []| exact Hs].
Qed.

(* ---------- try_final ---------- *)
Lemma try_final_good own t s h older ev t' o :
  Inv t older ev no_ex -> v_try_final own t s h = Some (t', o) ->
  ((s, h) = genesis -> bid_in (s, h) (ev_nc ev) = true) ->
  step_good own older ev o t' no_ex.
Proof.
  intros H E Hg. unfold v_try_final in E.
  destruct (s <? v_first_unpruned t) eqn:Fu; [discriminate|]. apply N.ltb_ge in Fu.
  destruct (vget t s) as [x|] eqn:G.
  2:{ cbn [andb] in E. injection E as <- <-. apply step_good_nil. exact H. }
  destruct (opt_hash_eqb (vs_notarized x) h) eqn:E1; cbn [andb] in E; [|injection E as <- <-; apply step_good_nil; exact H].
  destruct (opt_hash_eqb (vs_voted_notar x) h) eqn:E2; cbn [andb] in E; [|injection E as <- <-; apply step_good_nil; exact H].
  destruct (vs_bad x) eqn:E3; cbn [negb] in E; [injection E as <- <-; apply step_good_nil; exact H|].
  injection E as <- <-.
  assert (N1 : vs_notarized x = Some h).
  { unfold opt_hash_eqb in E1. destruct (vs_notarized x) as [a|]; [|discriminate]. apply N.eqb_eq in E1. subst. reflexivity. }
  assert (N2 : vs_voted_notar x = Some h).
  { unfold opt_hash_eqb in E2. destruct (vs_voted_notar x) as [a|]; [|discriminate]. apply N.eqb_eq in E2. subst. reflexivity. }
  pose proof (H s) as Hs. rewrite (vget_vstate t s x G) in Hs. destruct Hs as (A & B & C & D & F & P & Q & I).
  rewrite (vget_vstate t s x G).
  unfold step_good. cbn [vouts_votes flat_map app]. split; [|split].
  - cbn [forallb v_signer]. rewrite N.eqb_refl. reflexivity.
  - cbn [rules_ok_from]. rewrite andb_true_r. unfold vote_okb. cbn [v_slot v_kind v_signer andb].
    apply andb_true_intro. split.
    + apply existsb_exists. exists (s, h). split.
      * apply bid_in_true. destruct (D h N1) as [X|X]; [apply Hg; exact X | exact X].
      * cbn [fst snd]. rewrite N.eqb_refl. cbn [andb]. destruct (B h N2) as [X|X].
        -- rewrite X. reflexivity.
        -- rewrite X. apply orb_true_r.
    + rewrite (C Fu eq_refl E3). reflexivity.
  - apply Inv_update; [exact H | intros v [<-|[]]; reflexivity |].
    cbn [vs_voted vs_voted_notar vs_bad vs_notarized vs_parents vs_pending vs_retired].
    repeat split.
    + intros L V. rewrite own_has_app, own_has_one. cbn [v_kind k_initial]. rewrite andb_false_r, orb_false_r. auto.
    + intros h' V. destruct (B h' V) as [X|X]; [left; exact X | right; rewrite own_has_app, X; reflexivity].
    + intros L _ V. rewrite own_has_app, own_has_one. cbn [v_kind k_bad]. rewrite andb_false_r, orb_false_r. auto.
    + exact D.
    + intros _ X. discriminate.
    + exact P.
    + exact Q.
    + apply I; assumption.
Qed.

Lemma bid_eqb_true a b : bid_eqb a b = true <-> a = b.
Proof.
  unfold bid_eqb. destruct a as [a1 a2], b as [b1 b2]. cbn [fst snd]. split.
  - intros E. apply andb_prop in E. destruct E as [E1 E2]. apply N.eqb_eq in E1. apply N.eqb_eq in E2. subst. reflexivity.
  - intros E. injection E as -> ->. rewrite !N.eqb_refl. reflexivity.
Qed.

(* ---------- try_notar ---------- *)
Lemma try_notar_good own t s h parent older ev t' o b :
  Inv t older ev no_ex -> v_try_notar own t s h parent = Some (t', o, b) ->
  In ((s, h), parent) (ev_blocks ev) ->
  step_good own older ev o t' no_ex.
Proof.
  intros H E Hb. unfold v_try_notar in E.
  destruct (s <? v_first_unpruned t) eqn:Fu; [discriminate|]. apply N.ltb_ge in Fu.
  destruct (v_voted t s) eqn:V; [injection E as <- <- <-; apply step_good_nil; exact H|].
  match type of E with context [if negb ?c then _ else _] => destruct c eqn:OK end; cbn [negb] in E;
    [|injection E as <- <- <-; apply step_good_nil; exact H].
  remember (vset t s (mkVS true (Some h) (vs_bad (vstate t s)) (vs_notarized (vstate t s)) (vs_parents (vstate t s))
                           (vs_shred (vstate t s)) None (vs_retired (vstate t s)))) as t1 eqn:Et1.
  destruct (v_try_final own t1 s h) as [[t2 o2]|] eqn:TF; [|discriminate].
  injection E as <- <- <-.
  rewrite v_voted_vstate in V.
  pose proof (H s) as Hs. destruct Hs as (A & B & C & D & F & P & Q & I).
  assert (S0 : s <> 0).
  { intros ->. assert (v_first_unpruned t = 0) as Z by nlia. destruct (I eq_refl Z) as [X _]. congruence. }
  assert (I1 : Inv t1 (older ++ [mkVote s (KNotar h) own]) ev no_ex).
  { subst t1. apply Inv_update; [exact H | intros v [<-|[]]; reflexivity |].
    cbn [vs_voted vs_voted_notar vs_bad vs_notarized vs_parents vs_pending vs_retired].
    repeat split.
    + intros _ X. discriminate.
    + intros h' X. injection X as <-. right. rewrite own_has_app, own_has_one. cbn [v_slot v_kind k_notar].
      rewrite !N.eqb_refl. apply orb_true_r.
    + intros L _ X. rewrite own_has_app, own_has_one. cbn [v_kind k_bad]. rewrite andb_false_r, orb_false_r. auto.
    + exact D.
    + intros L X. rewrite own_has_app, own_has_one. cbn [v_kind k_final]. rewrite andb_false_r, orb_false_r. auto.
    + exact P.
    + intros h' p X. discriminate.
    + contradiction. }
  change (VBVote (mkVote s (KNotar h) own) :: o2) with ([VBVote (mkVote s (KNotar h) own)] ++ o2).
  apply (step_good_app own older ev [VBVote (mkVote s (KNotar h) own)] t1 o2 t2 no_ex no_ex).
  - unfold step_good. cbn [vouts_votes flat_map app]. split; [|split].
    + cbn [forallb v_signer]. rewrite N.eqb_refl. reflexivity.
    + cbn [rules_ok_from]. rewrite andb_true_r. unfold vote_okb. cbn [v_slot v_kind v_signer].
      apply andb_true_intro. split; [apply N.ltb_lt; nlia|].
      apply andb_true_intro. split; [rewrite (A Fu V); reflexivity|].
      apply existsb_exists. exists ((s, h), parent). split; [exact Hb|]. cbn [fst snd].
      assert (X : bid_eqb (s, h) (s, h) = true) by (apply bid_eqb_true; reflexivity). rewrite X. cbn [andb].
      destruct (s =? window_first s).
      * destruct (vget t s) as [x|] eqn:G; [|discriminate]. rewrite (vget_vstate t s x G) in P.
        apply existsb_exists in OK. destruct OK as [p' [Hp' Ep]]. apply bid_eqb_true in Ep. subst p'.
        destruct (P parent Hp') as [Z|Z]; [contradiction|].
        apply existsb_exists. exists (s, parent). split; [exact Z|]. cbn [fst snd]. rewrite N.eqb_refl.
        apply bid_eqb_true. reflexivity.
      * apply andb_prop in OK. destruct OK as [O1 O2]. rewrite O1. cbn [andb].
        destruct (vget t (fst parent)) as [x|] eqn:G; [|discriminate].
        unfold opt_hash_eqb in O2. destruct (vs_voted_notar x) as [a|] eqn:Vn; [|discriminate]. apply N.eqb_eq in O2. subst a.
        pose proof (H (fst parent)) as Hp. rewrite (vget_vstate t _ x G) in Hp. destruct Hp as (_ & B' & _).
        apply N.eqb_eq in O1. destruct (B' _ Vn) as [Z|Z].
        -- destruct parent as [ps ph]. cbn [fst snd] in *. rewrite Z.
           assert (Y : bid_eqb genesis genesis = true) by (apply bid_eqb_true; reflexivity). rewrite Y. reflexivity.
        -- rewrite <- O1, Z. apply orb_true_r.
    + exact I1.
  - cbn [vouts_votes flat_map app]. eapply try_final_good; [exact I1 | exact TF |].
    intros G. exfalso. unfold genesis in G. injection G as G _. contradiction.
Qed.

(* ---------- try_skip_window ---------- *)
Ltac Zify.zify_post_hook ::= Z.div_mod_to_equations.
Lemma wf_mono a b : a <= b -> window_first a <= window_first b.
Proof. unfold window_first, SLOTS_PER_WINDOW. lia. Qed.
Ltac Zify.zify_post_hook ::= idtac.

Lemma fu_le_window t s : v_first_unpruned t <= s -> v_first_unpruned t <= window_first s.
Proof.
  unfold v_first_unpruned. intros L. rewrite <- (wf_idem (vt_highest t)). apply wf_mono. exact L.
Qed.

Lemma in_seqN s lo len : In s (seqN lo len) -> lo <= s.
Proof. unfold seqN. intros I. apply in_map_iff in I. destruct I as [i [<- _]]. lia. Qed.

Lemma skip_fold_good own ev ex : forall slots t o0 older t' o',
  (forall s', In s' slots -> v_first_unpruned t <= s') ->
  Inv t older ev ex ->
  fold_left (fun (acc : votor * list vout) s' =>
               let '(t', o) := acc in
               if v_voted t' s' then acc
               else let x := vstate t' s' in
                    (vset t' s' (mkVS true (vs_voted_notar x) true (vs_notarized x) (vs_parents x) (vs_shred x) (vs_pending x) (vs_retired x)),
                     o ++ [VBVote (mkVote s' KSkip own)])) slots (t, o0) = (t', o') ->
  exists extra, o' = o0 ++ extra /\ step_good own older ev extra t' ex.
Proof.
  induction slots as [|a l IH]; intros t o0 older t' o' Hfu H E; cbn [fold_left] in E.
  - injection E as <- <-. exists []. split; [symmetry; apply app_nil_r | apply step_good_nil; exact H].
  - destruct (v_voted t a) eqn:V.
    + apply (IH t o0 older t' o'); [intros s' Hs'; apply Hfu; right; exact Hs' | exact H | exact E].
    + rewrite v_voted_vstate in V.
      assert (Fu : v_first_unpruned t <= a) by (apply Hfu; left; reflexivity).
      pose proof (H a) as Ha. destruct Ha as (A & B & C & D & F & P & Q & I).
      assert (S0 : a <> 0).
      { intros ->. assert (v_first_unpruned t = 0) as Z by nlia. destruct (I eq_refl Z) as [X _]. congruence. }
      match type of E with fold_left _ _ (?tt, _) = _ => remember tt as t1 eqn:Et1 end.
      assert (I1 : Inv t1 (older ++ [mkVote a KSkip own]) ev ex).
      { subst t1. apply Inv_update; [exact H | intros v [<-|[]]; reflexivity |].
        cbn [vs_voted vs_voted_notar vs_bad vs_notarized vs_parents vs_pending vs_retired].
        repeat split.
        - intros _ X. discriminate.
        - intros h' X. destruct (B h' X) as [Y|Y]; [left; exact Y | right; rewrite own_has_app, Y; reflexivity].
        - intros _ _ X. discriminate.
        - exact D.
        - intros L X. rewrite own_has_app, own_has_one. cbn [v_kind k_final]. rewrite andb_false_r, orb_false_r. auto.
        - exact P.
        - exact Q.
        - contradiction. }
      destruct (IH t1 (o0 ++ [VBVote (mkVote a KSkip own)]) (older ++ [mkVote a KSkip own]) t' o') as [extra [Eo G]];
        [intros s' Hs'; subst t1; rewrite fu_vset; apply Hfu; right; exact Hs' | exact I1 | exact E |].
      exists (VBVote (mkVote a KSkip own) :: extra). split; [rewrite Eo, <- app_assoc; reflexivity|].
      change (VBVote (mkVote a KSkip own) :: extra) with ([VBVote (mkVote a KSkip own)] ++ extra).
      apply (step_good_app own older ev [VBVote (mkVote a KSkip own)] t1 extra t' ex ex); [|exact G].
      unfold step_good. cbn [vouts_votes flat_map app]. split; [|split].
      * cbn [forallb v_signer]. rewrite N.eqb_refl. reflexivity.
      * cbn [rules_ok_from]. rewrite andb_true_r. unfold vote_okb. cbn [v_slot v_kind v_signer].
        apply andb_true_intro. split; [apply N.ltb_lt; nlia|]. rewrite (A Fu V). reflexivity.
      * exact I1.
Qed.

Lemma try_skip_window_good own t s older ev ex t' o :
  Inv t older ev ex -> v_try_skip_window own t s = Some (t', o) -> step_good own older ev o t' ex.
Proof.
  intros H E. unfold v_try_skip_window in E.
  remember (seqN (window_first s) (N.to_nat SLOTS_PER_WINDOW)) as slots eqn:Es.
  destruct (s <? v_first_unpruned t) eqn:Fu; [discriminate|]. apply N.ltb_ge in Fu.
  assert (E' : fold_left (fun (acc : votor * list vout) s' =>
               let '(t', o) := acc in
               if v_voted t' s' then acc
               else let x := vstate t' s' in
                    (vset t' s' (mkVS true (vs_voted_notar x) true (vs_notarized x) (vs_parents x) (vs_shred x) (vs_pending x) (vs_retired x)),
                     o ++ [VBVote (mkVote s' KSkip own)])) slots (t, []) = (t', o)) by (injection E as E; exact E).
  destruct (skip_fold_good own ev ex slots t [] older t' o) as [extra [Eo G]]; [| exact H | exact E' |].
  - intros s' Hs'. subst slots. apply in_seqN in Hs'. pose proof (fu_le_window t s Fu). nlia.
  - cbn [app] in Eo. subst o. exact G.
Qed.

(* ---------- check_pending_blocks ---------- *)
Definition pending_step (own : vidx) := fun (acc : vres) (s : slot) =>
               match acc with
               | None => None
               | Some (t', o) =>
                 match vget t' s with
                 | Some x => match vs_pending x with
                             | Some (h, p) => match v_try_notar own t' s h p with
                                              | None => None
                                              | Some (t'', o', _) => Some (t'', o ++ o')
                                              end
                             | None => Some (t', o)
                             end
                 | None => Some (t', o)
                 end
               end.

Lemma pending_fold_none own slots : fold_left (pending_step own) slots None = None.
Proof. induction slots as [|a l IH]; [reflexivity | exact IH]. Qed.

Lemma pending_fold_good own ev : forall slots t o0 older t' o',
  Inv t older ev no_ex ->
  fold_left (pending_step own) slots (Some (t, o0)) = Some (t', o') ->
  exists extra, o' = o0 ++ extra /\ step_good own older ev extra t' no_ex.
Proof.
  induction slots as [|a l IH]; intros t o0 older t' o' H E; cbn [fold_left] in E.
  - injection E as <- <-. exists []. split; [symmetry; apply app_nil_r | apply step_good_nil; exact H].
  - unfold pending_step at 2 in E.
    destruct (vget t a) as [x|] eqn:G; [|apply (IH t o0 older t' o' H E)].
    destruct (vs_pending x) as [[h p]|] eqn:Pd; [|apply (IH t o0 older t' o' H E)].
    destruct (v_try_notar own t a h p) as [[[t2 o2] b]|] eqn:TN; [|rewrite pending_fold_none in E; discriminate].
    assert (Hb : In ((a, h), p) (ev_blocks ev)).
    { pose proof (H a) as Ha. rewrite (vget_vstate t a x G) in Ha. destruct Ha as (_ & _ & _ & _ & _ & _ & Q & _). apply Q. exact Pd. }
    pose proof (try_notar_good own t a h p older ev t2 o2 b H TN Hb) as G2.
    destruct G2 as (A2 & B2 & C2).
    destruct (IH t2 (o0 ++ o2) (older ++ vouts_votes o2) t' o' C2 E) as [extra [Eo G3]].
    exists (o2 ++ extra). split; [rewrite Eo, app_assoc; reflexivity|].
    eapply step_good_app; [split; [exact A2 | split; [exact B2 | exact C2]] | exact G3].
Qed.

Lemma check_pending_good own t older ev t' o :
  Inv t older ev no_ex -> v_check_pending own t = Some (t', o) -> step_good own older ev o t' no_ex.
Proof.
  intros H E. unfold v_check_pending in E.
  match type of E with fold_left _ ?sl _ = _ => remember sl as slots end.
  change (fold_left (pending_step own) slots (Some (t, [])) = Some (t', o)) in E.
  destruct (pending_fold_good own ev slots t [] older t' o H E) as [extra [Eo G]].
  cbn [app] in Eo. subst o. exact G.
Qed.

(* ---------- pruning ---------- *)
Lemma alookup_filter_ge {V} (f s : N) (m : list (N * V)) :
  alookup s (filter (fun kv => f <=? fst kv) m) = if f <=? s then alookup s m else None.
Proof.
  induction m as [|[k v] m IH]; cbn [filter alookup fst].
  - destruct (f <=? s); reflexivity.
  - destruct (f <=? k) eqn:Ek; cbn [alookup].
    + destruct (s =? k) eqn:Es; [|exact IH]. apply N.eqb_eq in Es. subst. rewrite Ek. reflexivity.
    + destruct (s =? k) eqn:Es; [|exact IH]. apply N.eqb_eq in Es. subst. rewrite Ek in IH. rewrite Ek. exact IH.
Qed.

Lemma slot_ok_default fu s older ev ex : s < fu -> slot_ok fu vs_default s older ev ex.
Proof.
  intros L. unfold vs_default. cbn. repeat split; try (intros; nlia); try (intros; discriminate); try (intros ? []).
Qed.

Lemma slot_ok_fu_mono fu fu' x s older ev ex : fu <= fu' -> slot_ok fu x s older ev ex -> slot_ok fu' x s older ev ex.
Proof.
  intros L (A & B & C & D & E & F & G & I). repeat split; try assumption.
  - intros L'. apply A. nlia.
  - intros L'. apply C. nlia.
  - intros L'. apply E. nlia.
  - apply I; [assumption | nlia].
  - apply I; [assumption | nlia].
Qed.

Lemma Inv_finalize t older ev s :
  Inv t older ev no_ex ->
  Inv (v_prune (mkVotor (vt_slots t) (N.max (vt_highest t) s) (vt_panicked t))) older ev no_ex.
Proof.
  intros H z. set (t1 := mkVotor (vt_slots t) (N.max (vt_highest t) s) (vt_panicked t)).
  assert (Fu : v_first_unpruned t <= v_first_unpruned t1) by (unfold v_first_unpruned, t1; cbn [vt_highest]; apply wf_mono; lia).
  assert (Fp : v_first_unpruned (v_prune t1) = v_first_unpruned t1) by reflexivity.
  rewrite Fp. unfold vstate, aget, v_prune. cbn [vt_slots]. rewrite alookup_filter_ge.
  destruct (v_first_unpruned t1 <=? z) eqn:Ez.
  - change (slot_ok (v_first_unpruned t1) (vstate t z) z older ev (no_ex z)).
    eapply slot_ok_fu_mono; [exact Fu | apply H].
  - apply slot_ok_default. apply N.leb_gt. exact Ez.
Qed.

Lemma Inv_panicked t older ev ex : Inv t older ev ex -> Inv (mkVotor (vt_slots t) (vt_highest t) true) older ev ex.
Proof. intros H z. exact (H z). Qed.

(* ---------- SafeToNotar / SafeToSkip ---------- *)
Lemma Inv_set_bad t s older ev : Inv t older ev (fun z => z =? s) -> Inv (set_bad t s) older ev no_ex.
Proof.
  intros H z. unfold set_bad. rewrite vstate_vset, fu_vset. pose proof (H z) as Hz. destruct (z =? s) eqn:E.
  - apply N.eqb_eq in E. subst z. destruct Hz as (A & B & C & D & F & P & Q & I).
    cbn [vs_voted vs_voted_notar vs_bad vs_notarized vs_parents vs_pending vs_retired].
    repeat split; try assumption.
    + intros _ _ X. discriminate.
    + apply I; assumption.
    + apply I; assumption.
  - exact Hz.
Qed.

Lemma safeto_good own t s k older ev t1 o :
  Inv t older ev no_ex -> v_first_unpruned t <= s -> v_retired t s = false ->
  k_initial k = false -> k_final k = false ->
  (forall older', own_has older' s k_final = false ->
     vote_okb older' ev (mkVote s k own) = (0 <? s)) ->
  v_try_skip_window own t s = Some (t1, o) ->
  step_good own older ev (VBVote (mkVote s k own) :: o) (set_bad t1 s) no_ex.
Proof.
  intros H Fu Rt Ki Kf Hok E. rewrite v_retired_vstate in Rt.
  pose proof (H s) as Hs. destruct Hs as (A & B & C & D & F & P & Q & I).
  assert (S0 : s <> 0).
  { intros ->. assert (v_first_unpruned t = 0) as Z by nlia. destruct (I eq_refl Z) as [_ X]. congruence. }
  assert (I1 : Inv t (older ++ [mkVote s k own]) ev (fun z => z =? s)).
  { intros z. destruct (z =? s) eqn:Ez.
    - apply N.eqb_eq in Ez. subst z. repeat split; try assumption.
      + intros L V. rewrite own_has_app, own_has_one. cbn [v_kind]. rewrite Ki, andb_false_r, orb_false_r. auto.
      + intros h' X. destruct (B h' X) as [Y|Y]; [left; exact Y | right; rewrite own_has_app, Y; reflexivity].
      + intros _ X. discriminate.
      + intros L V. rewrite own_has_app, own_has_one. cbn [v_kind]. rewrite Kf, andb_false_r, orb_false_r. auto.
      + apply I; assumption.
      + apply I; assumption.
    - apply slot_ok_frame; [apply H|]. intros v [<-|[]]. cbn [v_slot]. apply N.eqb_neq in Ez. congruence. }
  change (VBVote (mkVote s k own) :: o) with ([VBVote (mkVote s k own)] ++ o).
  pose proof (try_skip_window_good own t s _ ev _ t1 o I1 E) as (A2 & B2 & C2).
  unfold step_good. rewrite vouts_votes_app. cbn [vouts_votes flat_map app]. split; [|split].
  - cbn [forallb v_signer]. rewrite N.eqb_refl. exact A2.
  - cbn [rules_ok_from]. rewrite (Hok older (F Fu Rt)).
    apply andb_true_intro. split; [apply N.ltb_lt; nlia | exact B2].
  - apply Inv_set_bad. change (mkVote s k own :: vouts_votes o) with ([mkVote s k own] ++ vouts_votes o).
    rewrite app_assoc. exact C2.
Qed.

(* ---------- handle_cert_created ---------- *)
Lemma handle_cert_good own t c older ev t' o :
  Inv t older ev no_ex ->
  (forall h, c_kind c = CNotar h -> In (c_slot c, h) (ev_nc ev)) ->
  v_handle_cert own t c = Some (t', o) -> step_good own older ev o t' no_ex.
Proof.
  intros H Hc E. unfold v_handle_cert in E.
  destruct (c_kind c) as [h|h| |h|] eqn:K.
  - (* notarization certificate *)
    match type of E with context [v_try_final own ?tt (c_slot c) h] => remember tt as t1 eqn:Et1 end.
    destruct (v_try_final own t1 (c_slot c) h) as [[t2 o2]|] eqn:TF; [|discriminate]. injection E as <- <-.
    assert (I1 : Inv t1 older ev no_ex).
    { subst t1. apply Inv_update0; [exact H|]. pose proof (H (c_slot c)) as (A & B & C & D & F & P & Q & I).
      cbn [vs_voted vs_voted_notar vs_bad vs_notarized vs_parents vs_pending vs_retired].
      repeat split; try assumption.
      - intros h' X. injection X as <-. right. apply bid_in_true. apply Hc. reflexivity.
      - apply I; assumption.
      - apply I; assumption. }
    eapply step_good_app; [eapply try_final_good; [exact I1 | exact TF |] | apply step_good_novotes; [reflexivity|]].
    + intros _. apply bid_in_true. apply Hc. reflexivity.
    + pose proof (try_final_good own t1 (c_slot c) h older ev t2 o2 I1 TF) as X.
      destruct X as (_ & _ & X); [intros _; apply bid_in_true; apply Hc; reflexivity | exact X].
  - injection E as <- <-. apply step_good_novotes; [reflexivity | exact H].
  - injection E as <- <-. apply step_good_novotes; [reflexivity | exact H].
  - destruct (v_set_timeouts (window_first (c_slot c))) as [o1|] eqn:ST; [|discriminate]. injection E as <- <-.
    apply step_good_novotes; [|apply Inv_finalize; exact H].
    unfold v_set_timeouts in ST. destruct (is_window_start _); [|discriminate]. injection ST as <-. reflexivity.
  - destruct (v_set_timeouts (window_first (c_slot c))) as [o1|] eqn:ST; [|discriminate]. injection E as <- <-.
    apply step_good_novotes; [|apply Inv_finalize; exact H].
    unfold v_set_timeouts in ST. destruct (is_window_start _); [|discriminate]. injection ST as <-. reflexivity.
Qed.

(* ---------- one step ---------- *)
Lemma standstill_or_not i o : (exists s cs vs, i = VPool (EStandstill s cs vs)) \/ decision_votes i o = vouts_votes o.
Proof.
  destruct i as [e| | | | |]; try (right; reflexivity). destruct e; try (right; reflexivity).
  left. eauto.
Qed.

Theorem votor_step_good : forall own t i older ev t' o pan,
  Inv t older ev no_ex -> votor_step own t i = (t', o, pan) ->
  forallb (fun v => v_signer v =? own) (decision_votes i o) = true /\
  rules_ok_from older (ev_add_input ev i) (decision_votes i o) = true /\
  Inv t' (older ++ decision_votes i o) (ev_add_input ev i) no_ex.
Proof.
  intros own t i older ev t' o pan H0 E.
  pose proof (Inv_ev t older ev (ev_add_input ev i) no_ex (ev_le_add ev i) H0) as H.
  set (ev' := ev_add_input ev i) in *.
  assert (Triv : forall tt, Inv tt older ev' no_ex ->
            forallb (fun v => v_signer v =? own) [] = true /\ rules_ok_from older ev' [] = true /\ Inv tt (older ++ []) ev' no_ex).
  { intros tt X. rewrite app_nil_r. auto. }
  unfold votor_step in E. destruct (vt_panicked t) eqn:Pn.
  { injection E as <- <- <-. assert (decision_votes i [] = []) as -> by (destruct i as [e| | | | |]; try reflexivity; destruct e; reflexivity).
    apply Triv. exact H. }
  (* it suffices to treat the handler's result *)
  assert (Red : forall r : vres,
            (forall t1 o1, r = Some (t1, o1) ->
               forallb (fun v => v_signer v =? own) (decision_votes i o1) = true /\
               rules_ok_from older ev' (decision_votes i o1) = true /\
               Inv t1 (older ++ decision_votes i o1) ev' no_ex) ->
            match r with
            | None => (mkVotor (vt_slots t) (vt_highest t) true, [], true)
            | Some (t1, o1) => (t1, o1, false)
            end = (t', o, pan) ->
            forallb (fun v => v_signer v =? own) (decision_votes i o) = true /\
            rules_ok_from older ev' (decision_votes i o) = true /\
            Inv t' (older ++ decision_votes i o) ev' no_ex).
  { intros r Hr Er. destruct r as [[t1 o1]|].
    - injection Er as <- <- <-. apply Hr. reflexivity.
    - injection Er as <- <- <-. assert (decision_votes i [] = []) as -> by (destruct i as [e| | | | |]; try reflexivity; destruct e; reflexivity).
      apply Triv. apply Inv_panicked. exact H. }
  eapply Red; [|exact E]. clear Red E. intros t1 o1 Er.
  (* a handler result that is step_good (for inputs other than standstill bundles) *)
  assert (Good : decision_votes i o1 = vouts_votes o1 -> step_good own older ev' o1 t1 no_ex ->
            forallb (fun v => v_signer v =? own) (decision_votes i o1) = true /\
            rules_ok_from older ev' (decision_votes i o1) = true /\
            Inv t1 (older ++ decision_votes i o1) ev' no_ex).
  { intros -> G. exact G. }
  destruct i as [e|s|s|s h parent|s|s].
  - (* pool event *)
    unfold v_handle_pool in Er. destruct (v_should_ignore t e) eqn:Ig.
    { injection Er as <- <-. assert (decision_votes (VPool e) [] = []) as -> by (destruct e; reflexivity). apply Triv. exact H. }
    destruct e as [s p|[s h]|s|c|s cs vs|s p].
    + (* ParentReady *)
      apply Good; [reflexivity|].
      match type of Er with context [v_check_pending own ?tt] => remember tt as t2 eqn:Et2 end.
      assert (I2 : Inv t2 older ev' no_ex).
      { subst t2. apply Inv_update0; [exact H|]. pose proof (H s) as (A & B & C & D & F & P & Q & I).
        cbn [vs_voted vs_voted_notar vs_bad vs_notarized vs_parents vs_pending vs_retired].
        repeat split; try assumption.
        - intros p' Hp'. destruct (existsb (bid_eqb p) (vs_parents (vstate t s))); [apply P; exact Hp'|].
          apply in_app_or in Hp'. destruct Hp' as [Hp'|[<-|[]]]; [apply P; exact Hp'|]. right. left. reflexivity.
        - apply I; assumption.
        - apply I; assumption. }
      destruct (v_check_pending own t2) as [[t3 o3]|] eqn:CP; [|discriminate].
      destruct (v_set_timeouts s) as [o4|] eqn:ST; [|discriminate]. injection Er as <- <-.
      eapply step_good_app; [eapply check_pending_good; [exact I2 | exact CP]|].
      apply step_good_novotes.
      * unfold v_set_timeouts in ST. destruct (is_window_start s); [|discriminate]. injection ST as <-. reflexivity.
      * exact (proj2 (proj2 (check_pending_good own t2 older ev' t3 o3 I2 CP))).
    + (* SafeToNotar *)
      apply Good; [reflexivity|].
      destruct (v_try_skip_window own t s) as [[t2 o2]|] eqn:SW; [|discriminate]. injection Er as <- <-.
      cbn [v_should_ignore pevent_slot fst] in Ig. apply orb_false_elim in Ig. destruct Ig as [Ig1 Ig2]. apply N.ltb_ge in Ig1.
      apply (safeto_good own t s (KNotarFb h) older ev' t2 o2 H Ig1 Ig2); [reflexivity | reflexivity | | exact SW].
      intros older' Hf. unfold vote_okb. cbn [v_slot v_kind v_signer]. rewrite Hf. cbn [negb andb].
      assert (X : bid_in (s, h) (ev_s2n ev') = true) by (apply bid_in_true; left; reflexivity). rewrite X. apply andb_true_r.
    + (* SafeToSkip *)
      apply Good; [reflexivity|].
      destruct (v_try_skip_window own t s) as [[t2 o2]|] eqn:SW; [|discriminate]. injection Er as <- <-.
      cbn [v_should_ignore pevent_slot] in Ig. apply orb_false_elim in Ig. destruct Ig as [Ig1 Ig2]. apply N.ltb_ge in Ig1.
      apply (safeto_good own t s KSkipFb older ev' t2 o2 H Ig1 Ig2); [reflexivity | reflexivity | | exact SW].
      intros older' Hf. unfold vote_okb. cbn [v_slot v_kind v_signer]. rewrite Hf. cbn [negb andb].
      assert (X : memN s (ev_s2s ev') = true) by (apply memN_true; left; reflexivity). rewrite X. apply andb_true_r.
    + (* CertCreated *)
      apply Good; [reflexivity|]. eapply handle_cert_good; [exact H | | exact Er].
      intros h K. unfold ev'. cbn [ev_add_input]. rewrite K. cbn [ev_nc]. left. reflexivity.
    + (* Standstill: decides nothing *)
      injection Er as <- <-. cbn [decision_votes]. apply Triv. exact H.
    + injection Er as <- <-. apply Good; [reflexivity|]. apply step_good_nil. exact H.
  - (* FirstShred *)
    apply Good; [reflexivity|]. destruct (v_old t s); injection Er as <- <-; [apply step_good_nil; exact H|].
    apply step_good_nil. apply Inv_update0; [exact H|]. pose proof (H s) as (A & B & C & D & F & P & Q & I).
    cbn [vs_voted vs_voted_notar vs_bad vs_notarized vs_parents vs_pending vs_retired].
    repeat split; try assumption; apply I; assumption.
  - (* InvalidBlock *)
    apply Good; [reflexivity|]. destruct (v_old t s); [injection Er as <- <-; apply step_good_nil; exact H|].
    eapply try_skip_window_good; [exact H | exact Er].
  - (* Block *)
    apply Good; [reflexivity|]. destruct (v_old t s); [injection Er as <- <-; apply step_good_nil; exact H|].
    destruct (v_voted t s); [injection Er as <- <-; apply step_good_nil; exact H|].
    assert (Hb : In ((s, h), parent) (ev_blocks ev')) by (left; reflexivity).
    destruct (v_try_notar own t s h parent) as [[[t2 o2] b]|] eqn:TN; [|discriminate].
    pose proof (try_notar_good own t s h parent older ev' t2 o2 b H TN Hb) as G2.
    destruct b.
    + destruct (v_check_pending own t2) as [[t3 o3]|] eqn:CP; [|discriminate]. injection Er as <- <-.
      eapply step_good_app; [exact G2|]. eapply check_pending_good; [exact (proj2 (proj2 G2)) | exact CP].
    + injection Er as <- <-. destruct G2 as (A2 & B2 & C2). split; [exact A2 | split; [exact B2|]].
      apply Inv_update0; [exact C2|]. pose proof (C2 s) as (A & B & C & D & F & P & Q & I).
      cbn [vs_voted vs_voted_notar vs_bad vs_notarized vs_parents vs_pending vs_retired].
      repeat split; try assumption.
      * intros h' p' X. injection X as <- <-. exact Hb.
      * apply I; assumption.
      * apply I; assumption.
  - (* Timeout *)
    apply Good; [reflexivity|]. destruct (v_old t s); [injection Er as <- <-; apply step_good_nil; exact H|].
    destruct (v_voted t s); [injection Er as <- <-; apply step_good_nil; exact H|].
    eapply try_skip_window_good; [exact H | exact Er].
  - (* TimeoutCrashedLeader *)
    apply Good; [reflexivity|]. destruct (v_old t s); [injection Er as <- <-; apply step_good_nil; exact H|].
    destruct (negb (v_shred t s) && negb (v_voted t s)); [|injection Er as <- <-; apply step_good_nil; exact H].
    eapply try_skip_window_good; [exact H | exact Er].
Qed.

(* ---------- traces ---------- *)
Lemma Inv_init : Inv votor_init [] ev_empty no_ex.
Proof.
  intros s. unfold votor_init, vstate, aget. cbn [vt_slots alookup].
  change (v_first_unpruned (mkVotor [(0, vs_genesis)] 0 false)) with (window_first 0).
  destruct (s =? 0) eqn:E.
  - apply N.eqb_eq in E. subst s. unfold vs_genesis. cbn.
    repeat split; try (intros; discriminate); try reflexivity.
    + intros h X. injection X as <-. left. reflexivity.
    + intros h X. injection X as <-. left. reflexivity.
    + intros p [<-|[]]. left. reflexivity.
  - apply N.eqb_neq in E. unfold vs_default. cbn.
    repeat split; try (intros; discriminate); try reflexivity; try (intros ? []); intros; contradiction.
Qed.

Lemma trace_good own : forall ins t older ev,
  Inv t older ev no_ex -> trace_ok own older ev (votor_trace own t ins) = true.
Proof.
  induction ins as [|i rest IH]; intros t older ev H; cbn [votor_trace trace_ok]; [reflexivity|].
  destruct (votor_step own t i) as [[t' o] pan] eqn:E. cbn [trace_ok].
  destruct (votor_step_good own t i older ev t' o pan H E) as (A & B & C).
  rewrite A, B. cbn [andb]. apply IH. exact C.
Qed.

(* every trace of the Votor model decides only votes that obey the node-level rules *)
Theorem votor_obeys_rules : forall own ins,
  trace_ok own [] ev_empty (votor_trace own votor_init ins) = true.
Proof. intros own ins. apply trace_good. apply Inv_init. Qed.

(* ---------- from the node-level check to the abstract rule ---------- *)
(* the events handed to validator u are justified by the votes cast so far: what Pool guarantees
   (C06: csn_safe_sound / s2s_try_sound give the stake conditions and the own-vote conditions on the
   pool's stored votes, which are votes really cast; C07: ParentReady only for marked parents over
   marked-skipped slots; C03: a created certificate has the threshold stake of stored votes; C13:
   the blockstore announces a block with its true parent) *)
Definition ev_justified (W : world) (o : list vote) (u : vidx) (ev : evidence) : Prop :=
  (forall s p, In (s, p) (ev_pr ev) -> parent_ready W o s p) /\
  (forall b, In b (ev_nc ev) -> notar_cert W o b = true) /\
  (forall b, In b (ev_s2n ev) ->
     s2n_stake W o b = true /\
     (cast o (fst b) KSkip u = true \/ cast_notar_other o (fst b) (snd b) u = true) /\
     exists p, w_parent W b = Some p /\ (nf_cert W o p = true \/ p = genesis)) /\
  (forall s, In s (ev_s2s ev) -> cast_any_notar o s u = true /\ s2s_stake W o s) /\
  (forall b p, In (b, p) (ev_blocks ev) -> w_parent W b = Some p).

(* [older] = the votes of u among the votes cast so far *)
Definition own_view (o : list vote) (u : vidx) (older : list vote) : Prop :=
  forall s k, cast o s k u = existsb (fun v => (v_slot v =? s) && vk_eqb (v_kind v) k) older.

Lemma own_has_iff o u older s f : own_view o u older ->
  (own_has older s f = true <-> exists k, f k = true /\ cast o s k u = true).
Proof.
  intros V. unfold own_has. rewrite existsb_exists. split.
  - intros [v [Hv E]]. apply andb_prop in E. destruct E as [E1 E2]. exists (v_kind v). split; [exact E2|].
    rewrite V. apply existsb_exists. exists v. split; [exact Hv|]. rewrite E1. cbn [andb]. apply vk_eqb_eq. reflexivity.
  - intros [k [Fk C]]. rewrite V in C. apply existsb_exists in C. destruct C as [v [Hv E]].
    apply andb_prop in E. destruct E as [E1 E2]. apply vk_eqb_eq in E2. exists v. split; [exact Hv|]. rewrite E1, E2, Fk. reflexivity.
Qed.

Lemma own_has_false o u older s f k : own_view o u older -> own_has older s f = false -> f k = true -> cast o s k u = false.
Proof.
  intros V Hf Fk. destruct (cast o s k u) eqn:C; [|reflexivity]. exfalso.
  assert (X : own_has older s f = true) by (apply (own_has_iff o u older s f V); exists k; auto). congruence.
Qed.

Theorem node_rule_sound : forall W o u older ev x,
  own_view o u older -> ev_justified W o u ev -> v_signer x = u ->
  vote_okb older ev x = true -> rule_at W o x.
Proof.
  intros W o u older ev [s k u'] V (Jpr & Jnc & Js2n & Js2s & Jbl) Eu Ok. cbn [v_signer] in Eu. subst u'.
  unfold vote_okb in Ok. cbn [v_slot v_kind v_signer] in Ok. unfold rule_at. cbn [v_slot v_kind v_signer].
  apply andb_prop in Ok. destruct Ok as [Pos Ok].
  destruct k as [h|h| | |].
  - (* notar *)
    split; [apply N.ltb_lt; exact Pos|]. apply andb_prop in Ok. destruct Ok as [Ini Blk].
    apply negb_true_iff in Ini. split.
    + unfold cast_initial. rewrite (own_has_false o u older s k_initial KSkip V Ini eq_refl). cbn [orb].
      destruct (cast_any_notar o s u) eqn:C; [|reflexivity]. exfalso. apply cast_any_notar_iff in C. destruct C as [h' C].
      rewrite (own_has_false o u older s k_initial (KNotar h') V Ini eq_refl) in C. discriminate.
    + apply existsb_exists in Blk. destruct Blk as [[b p] [Hb E]]. cbn [fst snd] in E.
      apply andb_prop in E. destruct E as [Eb E]. apply bid_eqb_true in Eb. subst b. pose proof (Jbl _ _ Hb) as Pp.
      destruct (s =? window_first s).
      * apply existsb_exists in E. destruct E as [[s' p'] [Hsp E]]. cbn [fst snd] in E. apply andb_prop in E. destruct E as [E1 E2].
        apply N.eqb_eq in E1. apply bid_eqb_true in E2. subst s' p'. exists p. split; [exact Pp | apply Jpr; exact Hsp].
      * apply andb_prop in E. destruct E as [E1 E2]. apply N.eqb_eq in E1. destruct p as [ps ph]. cbn [fst snd] in *. subst ps.
        exists ph. split; [exact Pp|]. apply orb_prop in E2. destruct E2 as [E2|E2].
        -- right. apply bid_eqb_true in E2. exact E2.
        -- left. apply (own_has_iff o u older (s - 1) (k_notar ph) V) in E2. destruct E2 as [k' [Fk C]].
           destruct k'; try discriminate. cbn [k_notar] in Fk. apply N.eqb_eq in Fk. subst. exact C.
  - (* notar-fallback *)
    split; [apply N.ltb_lt; exact Pos|]. apply andb_prop in Ok. destruct Ok as [Fin S2]. apply negb_true_iff in Fin.
    split; [apply (own_has_false o u older s k_final KFinal V Fin eq_refl)|].
    apply bid_in_true in S2. destruct (Js2n _ S2) as (X1 & X2 & X3). cbn [fst snd] in *. auto.
  - (* skip *)
    split; [apply N.ltb_lt; exact Pos|]. apply negb_true_iff in Ok.
    unfold cast_initial. rewrite (own_has_false o u older s k_initial KSkip V Ok eq_refl). cbn [orb].
    destruct (cast_any_notar o s u) eqn:C; [|reflexivity]. exfalso. apply cast_any_notar_iff in C. destruct C as [h' C].
    rewrite (own_has_false o u older s k_initial (KNotar h') V Ok eq_refl) in C. discriminate.
  - (* skip-fallback *)
    split; [apply N.ltb_lt; exact Pos|]. apply andb_prop in Ok. destruct Ok as [Fin S2]. apply negb_true_iff in Fin.
    split; [apply (own_has_false o u older s k_final KFinal V Fin eq_refl)|].
    apply memN_true in S2. apply (Js2s _ S2).
  - (* final *)
    split; [exact I|]. apply andb_prop in Ok. destruct Ok as [Nc Bad]. apply negb_true_iff in Bad.
    split; [|split; [|split]].
    + apply existsb_exists in Nc. destruct Nc as [[bs bh] [Hb E]]. cbn [fst snd] in E. apply andb_prop in E. destruct E as [E1 E2].
      apply N.eqb_eq in E1. subst bs. exists bh. split; [|apply Jnc; exact Hb].
      apply orb_prop in E2. destruct E2 as [E2|E2].
      * right. apply bid_eqb_true in E2. exact E2.
      * left. apply (own_has_iff o u older s (k_notar bh) V) in E2. destruct E2 as [k' [Fk C]].
        destruct k'; try discriminate. cbn [k_notar] in Fk. apply N.eqb_eq in Fk. subst. exact C.
    + apply (own_has_false o u older s k_bad KSkip V Bad eq_refl).
    + apply (own_has_false o u older s k_bad KSkipFb V Bad eq_refl).
    + destruct (cast_any_nf o s u) eqn:C; [|reflexivity]. exfalso. apply cast_any_nf_iff in C. destruct C as [h' C].
      rewrite (own_has_false o u older s k_bad (KNotarFb h') V Bad eq_refl) in C. discriminate.
Qed.

(* ================= Pool's stake conditions imply the abstract evidence ================= *)
(* C06 proves (SafeToProofs.csn_safe_sound, s2s_try_sound) that the pool model raises SafeToNotar /
   SafeToSkip only under the stake conditions on its running totals and (SlotStateProofs
   reach_invariants: totals_ok) that those totals are the stake of the distinct validators with a
   stored vote.  Here these statements are composed with "a stored vote was really cast" (ideal
   signatures) to obtain the evidence clauses s2n_stake / s2s_stake of [rule_at]. *)
Definition has_notar_stored (ss : slot_state) (v : vidx) : bool :=
  match alookup v (vo_notar (ss_v ss)) with Some _ => true | None => false end.
Definition has_initial_stored (ss : slot_state) (v : vidx) : bool :=
  memN v (vo_skip (ss_v ss)) || has_notar_stored ss v.

Definition pool_extra (e : epoch) (ss : slot_state) : Prop :=
  (forall v h, alookup v (vo_notar (ss_v ss)) = Some h -> memN v (vo_skip (ss_v ss)) = false) /\
  st_nos (ss_t ss) = stake_sum e (filter (has_initial_stored ss) (vals e)) /\
  (forall h, aget 0 h (st_notar (ss_t ss)) <= st_top (ss_t ss)).

Lemma pool_extra_ext e ss ss' : ss_v ss = ss_v ss' -> ss_t ss = ss_t ss' -> pool_extra e ss -> pool_extra e ss'.
Proof.
  intros Ev Et (A & B & C). unfold pool_extra, has_initial_stored, has_notar_stored in *. rewrite <- Ev, <- Et. auto.
Qed.

Lemma pool_extra_vote b e ss vt : admitted ss vt -> pool_extra e ss -> pool_extra e (fst (ss_add_vote_gen b e ss vt)).
Proof.
  intros [Hs Hi] (X1 & X2 & X3).
  set (ss' := fst (ss_add_vote_gen b e ss vt)).
  assert (Ev : ss_v ss' = ss_v (store_vote ss (v_signer vt) (v_kind vt))) by apply add_vote_stores.
  assert (Et : ss_t ss' = totals_after e (ss_t ss) vt) by apply add_vote_totals.
  apply (pool_extra_ext e (mkSS (ss_v (store_vote ss (v_signer vt) (v_kind vt))) (totals_after e (ss_t ss) vt) (ss_c ss) (ss_n ss)) ss');
    [symmetry; exact Ev | symmetry; exact Et |].
  clear ss' Ev Et.
  destruct vt as [s k v]. unfold should_ignore in Hi. unfold check_slashable in Hs. cbn [v_signer v_kind] in *.
  unfold pool_extra, has_initial_stored, has_notar_stored, totals_after, store_vote in *.
  cbn [v_signer v_kind ss_v ss_t with_v] in *.
  destruct k as [h0|h0| | |]; cbn [vo_notar vo_nf vo_skip vo_sf vo_fin st_notar st_nos st_top].
  - (* notar *)
    destruct (memN v (vo_skip (ss_v ss))) eqn:Sk; [discriminate|].
    destruct (alookup v (vo_notar (ss_v ss))) eqn:El; [discriminate|].
    split; [|split].
    + intros u h E. destruct (N.eq_dec u v) as [->|Hne]; [exact Sk|].
      rewrite alookup_ainsert_other in E by exact Hne. eapply X1; exact E.
    + rewrite X2. symmetry. apply sum_filter_add.
      * intros u Hu. rewrite alookup_ainsert_other by exact Hu. reflexivity.
      * rewrite Sk, El. reflexivity.
      * rewrite alookup_ainsert_same. apply orb_true_r.
    + intros h. destruct (N.eq_dec h h0) as [->|Hne].
      * rewrite aget_ainsert_same. lia.
      * rewrite aget_ainsert_other by exact Hne. specialize (X3 h). lia.
  - (* notar-fallback *) auto.
  - (* skip *)
    destruct (memN v (vo_fin (ss_v ss))); [discriminate|].
    destruct (alookup v (vo_notar (ss_v ss))) eqn:El; [discriminate|].
    apply orb_false_elim in Hi. destruct Hi as [Sk _].
    split; [|split].
    + intros u h E. unfold memN. cbn [existsb]. destruct (N.eq_dec u v) as [->|Hne]; [congruence|].
      apply N.eqb_neq in Hne. rewrite Hne. cbn [orb]. eapply X1; exact E.
    + rewrite X2. symmetry. apply sum_filter_add.
      * intros u Hu. unfold memN. cbn [existsb]. apply N.eqb_neq in Hu. rewrite Hu. reflexivity.
      * rewrite Sk, El. reflexivity.
      * unfold memN. cbn [existsb]. rewrite N.eqb_refl. reflexivity.
    + exact X3.
  - (* skip-fallback *) auto.
  - (* final *) auto.
Qed.

Lemma pool_extra_empty e : pool_extra e ss_empty.
Proof.
  unfold pool_extra, ss_empty, has_initial_stored, has_notar_stored. cbn. split; [intros; discriminate|]. split; [|intros; lia].
  assert (F : forall l : list vidx, filter (fun _ => false) l = []) by (induction l; auto). rewrite F. reflexivity.
Qed.

Theorem reach_pool_extra : forall e ss, ss_reach e ss -> pool_extra e ss.
Proof.
  intros e ss H. induction H as [|ss vt H IH Ha|ss c H IH|ss h H IH|ss s h r H IH E].
  - apply pool_extra_empty.
  - apply pool_extra_vote; assumption.
  - destruct (add_cert_frame ss c) as [A B]. apply (pool_extra_ext e ss); auto.
  - destruct (known_frame ss h) as [A B]. apply (pool_extra_ext e ss); auto.
  - destruct (certified_frame e s ss h r E) as [A B]. apply (pool_extra_ext e ss); auto.
Qed.

Section PoolEvidence.
Variable W : world.
Variable H : list vote.          (* the votes cast so far *)
Variable e : epoch.              (* the node's epoch: same stake vector *)
Variable s : slot.
Variable ss : slot_state.        (* the node's pool state for slot s *)
Hypothesis Est : stakes e = w_stakes W.
Hypothesis Reach : ss_reach e ss.
(* ideal signatures: a vote stored in the pool was cast by its signer *)
Hypothesis Prov : forall v k, stored ss v k -> cast H s k v = true.

Lemma thr_q x : is_quorum e x = is_quorum (wep W) x.
Proof. unfold is_quorum. rewrite (total_stake_w W e Est). reflexivity. Qed.
Lemma thr_w x : is_weak_quorum e x = is_weak_quorum (wep W) x.
Proof. unfold is_weak_quorum. rewrite (total_stake_w W e Est). reflexivity. Qed.
Lemma thr_wk x : is_weakest_quorum e x = is_weakest_quorum (wep W) x.
Proof. unfold is_weakest_quorum. rewrite (total_stake_w W e Est). reflexivity. Qed.

Definition notar_stored (h : hash) (v : vidx) : bool :=
  match alookup v (vo_notar (ss_v ss)) with Some h' => h' =? h | None => false end.

Lemma notar_total h : aget 0 h (st_notar (ss_t ss)) = stk W (notar_stored h).
Proof.
  destruct (reach_invariants e ss Reach) as [(T1 & _) _]. rewrite T1. unfold notar_voters. apply stake_sum_stk. exact Est.
Qed.
Lemma skip_total : st_skip (ss_t ss) = stk W (fun v => memN v (vo_skip (ss_v ss))).
Proof.
  destruct (reach_invariants e ss Reach) as [(_ & _ & T3 & _) _]. rewrite T3. unfold skip_voters. apply stake_sum_stk. exact Est.
Qed.
Lemma notar_stored_cast h v : notar_stored h v = true -> cast H s (KNotar h) v = true.
Proof.
  unfold notar_stored. intros E. apply Prov. cbn [stored]. destruct (alookup v (vo_notar (ss_v ss))) as [h'|]; [|discriminate].
  apply N.eqb_eq in E. subst. reflexivity.
Qed.

(* SafeToNotar's stake condition on the pool's totals gives the abstract one *)
Theorem pool_s2n_justified : forall h, s2n_stake_cond e ss h -> s2n_stake W H (s, h) = true.
Proof.
  intros h [C1 C2]. cbv zeta in *. unfold s2n_stake, notar_stake. cbn [fst snd].
  rewrite thr_wk in C1. rewrite notar_total in C1.
  assert (M : stk W (notar_stored h) <= stk W (cast H s (KNotar h))) by (apply stk_mono; apply notar_stored_cast).
  apply andb_true_intro. split; [eapply weakest_mono; eassumption|].
  apply orb_true_iff. destruct C2 as [C2|C2].
  - left. rewrite thr_w, notar_total in C2. eapply weak_mono; eassumption.
  - right. rewrite thr_q, notar_total, skip_total in C2. eapply quorum_mono; [|exact C2].
    destruct (reach_pool_extra e ss Reach) as (X1 & _ & _).
    unfold stk. rewrite <- (wsum_disjoint (stake_of (wep W)) (notar_stored h) (fun v => memN v (vo_skip (ss_v ss)))).
    + apply wsum_mono. intros v _ Ev. apply orb_prop in Ev. apply orb_true_iff. destruct Ev as [Ev|Ev].
      * left. apply notar_stored_cast. exact Ev.
      * right. apply Prov. exact Ev.
    + intros v _ Ev. unfold notar_stored in Ev. destruct (alookup v (vo_notar (ss_v ss))) as [h'|] eqn:El; [|discriminate].
      eapply X1. exact El.
Qed.

(* SafeToSkip's stake condition on the pool's totals gives the abstract one *)
Theorem pool_s2s_justified :
  is_weak_quorum e (st_nos (ss_t ss) - st_top (ss_t ss)) = true -> s2s_stake W H s.
Proof.
  intros C h. rewrite thr_w in C. eapply weak_mono; [|exact C].
  destruct (reach_pool_extra e ss Reach) as (X1 & X2 & X3).
  rewrite X2, (stake_sum_stk W e _ Est). specialize (X3 h). rewrite notar_total in X3.
  pose proof (wsum_split_eq (stake_of (wep W)) (has_initial_stored ss) (notar_stored h) (vals (wep W))) as Sp.
  assert (Sub : wsum (stake_of (wep W)) (fun a => has_initial_stored ss a && notar_stored h a) (vals (wep W)) = stk W (notar_stored h)).
  { apply wsum_ext. intros v _. unfold has_initial_stored, has_notar_stored, notar_stored.
    destruct (alookup v (vo_notar (ss_v ss))); [rewrite orb_true_r; reflexivity | rewrite andb_false_r; reflexivity]. }
  assert (M : wsum (stake_of (wep W)) (fun a => has_initial_stored ss a && negb (notar_stored h a)) (vals (wep W))
              <= stk W (fun z => cast H s KSkip z || cast_notar_other H s h z)).
  { apply wsum_mono. intros v _ Ev. apply andb_prop in Ev. destruct Ev as [E1 E2]. apply orb_true_iff.
    unfold has_initial_stored, has_notar_stored in E1. apply orb_prop in E1. destruct E1 as [E1|E1].
    - left. apply Prov. exact E1.
    - right. unfold notar_stored in E2. destruct (alookup v (vo_notar (ss_v ss))) as [h'|] eqn:El; [|discriminate].
      apply cast_notar_other_iff. exists h'. split.
      + apply negb_true_iff in E2. apply N.eqb_neq. exact E2.
      + apply Prov. exact El. }
  unfold stk in *. lia.
Qed.

(* the own-vote clause of SafeToNotar *)
Theorem pool_own_vote_justified : forall h,
  own_voted_other e ss h -> cast H s KSkip (own e) = true \/ cast_notar_other H s h (own e) = true.
Proof.
  intros h [O|[h' [O Hne]]].
  - left. apply Prov. exact O.
  - right. apply cast_notar_other_iff. exists h'. split; [exact Hne | apply Prov; exact O].
Qed.
End PoolEvidence.

(* a notarization certificate created by the pool (quorum on its notar total) is a certificate of the abstract view *)
Theorem pool_notar_cert_justified : forall W H e s ss,
  stakes e = w_stakes W -> ss_reach e ss -> (forall v k, stored ss v k -> cast H s k v = true) ->
  forall h, is_quorum e (aget 0 h (st_notar (ss_t ss))) = true -> notar_cert W H (s, h) = true.
Proof.
  intros W H e s ss Est Reach Prov h Q. unfold notar_cert, notar_stake. cbn [fst snd].
  rewrite (thr_q W e Est), (notar_total W e ss Est Reach) in Q. eapply quorum_mono; [|exact Q].
  apply stk_mono. apply (notar_stored_cast H s ss Prov).
Qed.
