(* Fraction::is_met (src/types/fraction.rs) is written with 128-bit products of 64-bit operands; the models compare
   unbounded naturals (Model/Pool.v is_met).  For every 64-bit input the two agree: no product wraps.  A variant that
   multiplies in saturating 64-bit arithmetic does not agree (totals above 2^64 / 3). *)
From Coq Require Import NArith Bool Lia.
From AG Require Import Model.Pool.
Open Scope N_scope.

Definition wrap128 (x : N) : N := x mod 2 ^ 128.
(* the Rust expression, every cast and product reduced to 128 bits *)
Definition is_met_u128 (num den value total : N) : bool :=
  wrap128 (wrap128 total * wrap128 num) <=? wrap128 (wrap128 value * wrap128 den).

Lemma mul_u64_lt_2_128 : forall a b, a < 2 ^ 64 -> b < 2 ^ 64 -> a * b < 2 ^ 128.
Proof.
  intros a b Ha Hb. replace (2 ^ 128) with (2 ^ 64 * 2 ^ 64) by reflexivity.
  destruct (N.eq_dec b 0) as [->|Hb0]; [rewrite N.mul_0_r; reflexivity|].
  apply N.lt_le_trans with (2 ^ 64 * b).
  - apply N.mul_lt_mono_pos_r; [lia|exact Ha].
  - apply N.mul_le_mono_l. lia.
Qed.

Lemma wrap128_u64 : forall a, a < 2 ^ 64 -> wrap128 a = a.
Proof.
  intros a Ha. unfold wrap128. apply N.mod_small.
  apply N.lt_trans with (2 ^ 64); [exact Ha|reflexivity].
Qed.

Theorem is_met_u128_exact : forall num den value total,
  num < 2 ^ 64 -> den < 2 ^ 64 -> value < 2 ^ 64 -> total < 2 ^ 64 ->
  is_met_u128 num den value total = is_met num den value total.
Proof.
  intros num den value total Hn Hd Hv Ht. unfold is_met_u128, is_met.
  rewrite (wrap128_u64 total Ht), (wrap128_u64 num Hn), (wrap128_u64 value Hv), (wrap128_u64 den Hd).
  unfold wrap128. rewrite !N.mod_small by (apply mul_u64_lt_2_128; assumption). reflexivity.
Qed.

(* the same cross-multiplication in saturating 64-bit arithmetic *)
Definition sat64 (x : N) : N := N.min x (2 ^ 64 - 1).
Definition is_met_sat64 (num den value total : N) : bool := sat64 (total * num) <=? sat64 (value * den).

Theorem is_met_sat64_refuted :
  let total := 16000000000000000000 in let value := 4000000000000000000 in
  total < 2 ^ 64 /\ value < 2 ^ 64 /\
  is_met_sat64 3 5 value total = true /\ is_met 3 5 value total = false.
Proof. vm_compute. repeat split; reflexivity. Qed.
