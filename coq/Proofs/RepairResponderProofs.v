(* C14, responder half: soundness of the answers for every reachable slot state. *)
From Coq Require Import List NArith Bool Arith Lia ZifyBool ZifyNat ZifyN.
From AG Require Import Gen.Params Model.Pool Model.Blockstore Model.BlockstoreSpec Model.Repair Model.RepairSpec
  Proofs.SlotStateProofs Proofs.BlockstoreProofs Proofs.BlockstoreOrderProofs Proofs.BlockstoreFlagProofs Proofs.RepairProofs.
Import ListNotations.
Open Scope N_scope.

(* ---------- association-list helpers ---------- *)
Lemma alookup_filter_le {V} idx k (m : list (N * V)) :
  alookup k (filter (fun x => fst x <=? idx) m) = if k <=? idx then alookup k m else None.
Proof.
  induction m as [|[a v] m IH]; cbn [filter alookup fst]; [destruct (k <=? idx); reflexivity|].
  destruct (a <=? idx) eqn:E; cbn [alookup].
  - rewrite IH. destruct (k =? a) eqn:E2; [|reflexivity]. apply N.eqb_eq in E2. subst a. rewrite E. reflexivity.
  - rewrite IH. destruct (k =? a) eqn:E2; [|reflexivity]. apply N.eqb_eq in E2. subst a. rewrite E. reflexivity.
Qed.
Lemma alookup_filter_le_sub {V} idx k (m : list (N * V)) x :
  alookup k (filter (fun x => fst x <=? idx) m) = Some x -> alookup k m = Some x /\ k <= idx.
Proof. rewrite alookup_filter_le. destruct (k <=? idx) eqn:E; [|discriminate]. intros H. split; [exact H | lia]. Qed.
Lemma nodup_keys_ainsert {V} k (v : V) m : NoDup (map fst m) -> NoDup (map fst (ainsert k v m)).
Proof.
  intros H. destruct (alookup k m) eqn:E.
  - rewrite ainsert_keys_old by congruence. exact H.
  - rewrite ainsert_keys_new by exact E. apply NoDup_snoc; [exact H | apply alookup_none_keys; exact E].
Qed.
Lemma nth_map_seqN (f : N -> N) n : forall lo k, (k < n)%nat -> nth k (map f (seqN lo n)) 0 = f (lo + N.of_nat k).
Proof.
  induction n as [|n IH]; intros lo k Hk; [lia|].
  rewrite seqN_S. cbn [map]. destruct k as [|k]; cbn [nth].
  - f_equal. lia.
  - rewrite IH by lia. f_equal. lia.
Qed.

(* ---------- the responder invariant on one block data ---------- *)
Definition RI (d : bdata) : Prop :=
  NoDup (map fst (bd_slices d)) /\
  (forall l k, bd_last d = Some l -> In k (map fst (bd_slices d)) -> k <= l) /\
  (forall l k, bd_last d = Some l -> alookup k (bd_shreds d) <> None -> k <= l) /\
  (forall i shs j s, alookup i (bd_shreds d) = Some shs -> In (j, s) shs ->
     b_slice s = i /\ b_index s = j /\ alookup i (bd_cache d) = Some (commitment_of s)) /\
  (forall i r, alookup i (bd_slices d) = Some r -> exists fl, alookup i (bd_cache d) = Some (fl, rs_root r)) /\
  (forall h p, bd_completed d = Some (h, p) -> exists l, bd_last d = Some l /\ N.of_nat (length h) = l + 1 /\
     forall i, i <= l -> exists fl, alookup i (bd_cache d) = Some (fl, nth (N.to_nat i) h 0)).

Lemma ri_empty : RI bd_empty.
Proof.
  split; [constructor|]. split; [intros l k H; discriminate|]. split; [intros l k H; discriminate|].
  split; [intros i shs j s H; discriminate|]. split; [intros i r H; discriminate|]. intros h p H. discriminate.
Qed.

Lemma ri_cache_step d s d1 : RI d -> cache_step d s = Some d1 ->
  RI d1 /\ alookup (b_slice s) (bd_cache d1) = Some (commitment_of s).
Proof.
  intros R. pose proof R as [K [L [Ls [S [Rr C]]]]]. unfold cache_step.
  destruct (alookup (b_slice s) (bd_cache d)) as [c0|] eqn:Ec.
  - destruct (commit_eqb c0 (commitment_of s)) eqn:Eq; [|discriminate]. intros H. injection H as <-.
    apply commit_eqb_eq in Eq. subst c0. split; [exact R | exact Ec].
  - intros H. injection H as <-. cbn [bd_cache]. split; [|apply alookup_ainsert_same].
    assert (Hm : forall k x, alookup k (bd_cache d) = Some x ->
                   alookup k (ainsert (b_slice s) (commitment_of s) (bd_cache d)) = Some x).
    { intros k x Hk. destruct (N.eq_dec k (b_slice s)) as [->|Hne]; [congruence|].
      rewrite alookup_ainsert_other by exact Hne. exact Hk. }
    split; [exact K|]. split; [exact L|]. split; [exact Ls|]. cbn [bd_shreds bd_slices bd_cache bd_completed bd_last].
    split; [|split].
    + intros i shs j s0 Ha Hin. destruct (S i shs j s0 Ha Hin) as [A [B Cc]]. auto.
    + intros i r Ha. destruct (Rr i r Ha) as [fl Hf]. exists fl. auto.
    + intros h p Hc. destruct (C h p Hc) as [l [Hl [Hn Hall]]]. exists l. split; [exact Hl|]. split; [exact Hn|].
      intros i Hi. destruct (Hall i Hi) as [fl Hf]. exists fl. auto.
Qed.

Lemma ri_last_step d1 s d2 : RI d1 -> last_step d1 s = Some d2 ->
  RI d2 /\ (forall last, bd_last d2 = Some last -> b_slice s <= last) /\ bd_cache d2 = bd_cache d1.
Proof.
  intros R. pose proof R as [K [L [Ls [S [Rr C]]]]]. unfold last_step. destruct (bd_last d1) as [l|] eqn:El.
  - destruct ((b_slice s <? l) && negb (b_last s) || (b_slice s =? l) && b_last s) eqn:Cc; [|discriminate].
    intros H. injection H as <-. split; [exact R|]. split; [|reflexivity].
    intros last Hl. rewrite El in Hl. injection Hl as <-. lia.
  - destruct (b_last s).
    + destruct (existsb _ (bd_shreds d1)); [discriminate|]. intros H. injection H as <-.
      unfold mark_last_slice. split; [|split; [|reflexivity]].
      * unfold RI. cbn [bd_shreds bd_slices bd_cache bd_completed bd_last].
        split; [apply keys_filter_nodup; exact K|]. split; [|split; [|split; [|split]]].
        -- intros l k Hl Hk. injection Hl as <-. apply in_map_iff in Hk. destruct Hk as [x [<- Hx]].
           apply filter_In in Hx. lia.
        -- intros l k Hl Hk. injection Hl as <-. rewrite alookup_filter_le in Hk.
           destruct (k <=? b_slice s) eqn:E; [lia | congruence].
        -- intros i shs j s0 Ha Hin. apply alookup_filter_le_sub in Ha. exact (S _ _ _ _ (proj1 Ha) Hin).
        -- intros i r Ha. apply alookup_filter_le_sub in Ha. exact (Rr _ _ (proj1 Ha)).
        -- intros h p Hc. destruct (C h p Hc) as [l [Hl _]]. congruence.
      * cbn [bd_last]. intros last Hl. injection Hl as <-. lia.
    + intros H. injection H as <-. split; [exact R|]. split; [|reflexivity].
      intros last Hl. rewrite El in Hl. discriminate.
Qed.

(* replacing the shreds of one slice by shreds that carry the slice's commitment *)
Lemma ri_set_shreds d idx v : RI d -> (forall last, bd_last d = Some last -> idx <= last) ->
  (forall j s, In (j, s) v -> b_slice s = idx /\ b_index s = j /\ alookup idx (bd_cache d) = Some (commitment_of s)) ->
  RI (bd_set_shreds d (ainsert idx v (bd_shreds d))).
Proof.
  intros [K [L [Ls [S [Rr C]]]]] Hidx Hv. unfold RI, bd_set_shreds. cbn [bd_shreds bd_slices bd_cache bd_completed bd_last].
  split; [exact K|]. split; [exact L|]. split; [|split; [|split; [exact Rr | exact C]]].
  - intros l k Hl Hk. destruct (N.eq_dec k idx) as [->|Hne]; [exact (Hidx _ Hl)|].
    rewrite alookup_ainsert_other in Hk by exact Hne. exact (Ls _ _ Hl Hk).
  - intros i shs j s Ha Hin. destruct (N.eq_dec i idx) as [->|Hne].
    + rewrite alookup_ainsert_same in Ha. injection Ha as <-. exact (Hv _ _ Hin).
    + rewrite alookup_ainsert_other in Ha by exact Hne. exact (S _ _ _ _ Ha Hin).
Qed.

Lemma ri_set_slice d idx r : RI d -> (forall last, bd_last d = Some last -> idx <= last) ->
  (exists fl, alookup idx (bd_cache d) = Some (fl, rs_root r)) ->
  RI (mkBD (bd_completed d) (bd_shreds d) (ainsert idx r (bd_slices d)) (bd_last d) (bd_cache d)).
Proof.
  intros [K [L [Ls [S [Rr C]]]]] Hidx Hr. unfold RI. cbn [bd_shreds bd_slices bd_cache bd_completed bd_last].
  split; [apply nodup_keys_ainsert; exact K|]. split; [|split; [exact Ls|split; [exact S|split; [|exact C]]]].
  - intros l k Hl Hk. apply ainsert_keys_incl in Hk. destruct Hk as [->|Hk]; [exact (Hidx _ Hl) | exact (L _ _ Hl Hk)].
  - intros i r0 Ha. destruct (N.eq_dec i idx) as [->|Hne].
    + rewrite alookup_ainsert_same in Ha. injection Ha as <-. exact Hr.
    + rewrite alookup_ainsert_other in Ha by exact Hne. exact (Rr _ _ Ha).
Qed.

Lemma deshred_ok_head ct shs r : deshred ct shs = DOk r ->
  exists j0 s0 rest, by_index shs = (j0, s0) :: rest /\ rs_root r = b_root s0.
Proof.
  unfold deshred. destruct (by_index shs) as [|[j0 s0] rest]; [discriminate|].
  destruct (negb (slice_layout_ok ((j0, s0) :: rest))); [discriminate|].
  destruct (N.of_nat (length ((j0, s0) :: rest)) <? DATA_SHREDS); [discriminate|].
  destruct (content_of ct (b_root s0)) as [p ok|]; [|discriminate].
  intros H. injection H as <-. exists j0, s0, rest. split; reflexivity.
Qed.
Lemma fill_missing_in shs j0 s0 rest j s : by_index shs = (j0, s0) :: rest -> In (j, s) (fill_missing shs) ->
  In (j, s) shs \/ (b_slice s = b_slice s0 /\ b_index s = j /\ commitment_of s = commitment_of s0).
Proof.
  intros E. unfold fill_missing. rewrite E. intros H. apply in_map_iff in H. destruct H as [ic [Hf Hic]].
  unfold canonical_shreds in Hic. apply in_map_iff in Hic. destruct Hic as [i' [<- _]]. cbn [fst] in Hf.
  destruct (alookup i' shs) as [s'|] eqn:El.
  - injection Hf as <- <-. left. apply alookup_In. exact El.
  - injection Hf as <- <-. right. cbn [b_slice b_index]. unfold commitment_of. cbn [b_last b_root]. auto.
Qed.

Lemma ri_rec_slice c d idx : RI d -> (forall last, bd_last d = Some last -> idx <= last) ->
  RI (fst (try_reconstruct_slice c d idx)).
Proof.
  intros R Hidx. pose proof R as [K [L [Ls [S [Rr C]]]]]. unfold try_reconstruct_slice.
  destruct (bd_completed d) eqn:Ec; [exact R|].
  destruct (alookup idx (bd_slices d)) eqn:Ea; [exact R|].
  destruct (deshred c (aget [] idx (bd_shreds d))) as [| | |r] eqn:Ed; try exact R.
  destruct (deshred_ok_head _ _ _ Ed) as [j0 [s0 [rest [Eb Er]]]].
  set (shs := aget [] idx (bd_shreds d)) in *.
  assert (Hin0 : In (j0, s0) shs) by (apply by_index_in; rewrite Eb; left; reflexivity).
  assert (Hshs : alookup idx (bd_shreds d) = Some shs).
  { unfold shs, aget in *. destruct (alookup idx (bd_shreds d)); [reflexivity | destruct Hin0]. }
  destruct (S _ _ _ _ Hshs Hin0) as [A0 [B0 C0]].
  assert (R1 : RI (bd_set_shreds d (ainsert idx (fill_missing shs) (bd_shreds d)))).
  { apply ri_set_shreds; [exact R | exact Hidx|]. intros j s Hin.
    destruct (fill_missing_in _ _ _ _ _ _ Eb Hin) as [Ho|[A [B Cc]]]; [exact (S _ _ _ _ Hshs Ho)|].
    split; [congruence|]. split; [exact B|]. rewrite Cc. exact C0. }
  assert (R2 : RI (mkBD (bd_completed (bd_set_shreds d (ainsert idx (fill_missing shs) (bd_shreds d))))
              (bd_shreds (bd_set_shreds d (ainsert idx (fill_missing shs) (bd_shreds d))))
              (ainsert idx r (bd_slices (bd_set_shreds d (ainsert idx (fill_missing shs) (bd_shreds d)))))
              (bd_last (bd_set_shreds d (ainsert idx (fill_missing shs) (bd_shreds d))))
              (bd_cache (bd_set_shreds d (ainsert idx (fill_missing shs) (bd_shreds d)))))).
  { apply ri_set_slice; [exact R1 | exact Hidx|]. exists (b_last s0). rewrite Er. exact C0. }
  destruct (rs_parent r); [exact R2|]. destruct (idx =? 0); [exact R1 | exact R2].
Qed.

Lemma ri_rec_block chk slot d : RI d -> RI (fst (try_reconstruct_block chk slot d)).
Proof.
  intros R. pose proof R as [K [L [Ls [S [Rr C]]]]]. unfold try_reconstruct_block.
  destruct (bd_completed d) eqn:Ec; [exact R|].
  destruct (bd_last d) as [last|] eqn:El; [|exact R].
  destruct (N.of_nat (length (bd_slices d)) =? last + 1) eqn:En; cbn [negb]; [|exact R].
  destruct (alookup 0 (bd_slices d)) as [first|]; [|exact R].
  destruct (rs_parent first) as [p0|]; [|exact R].
  destruct (walk_slices (slices_sorted (bd_slices d)) p0 false) as [parent|]; [|exact R].
  destruct (chk && negb (fst parent <? slot)); [exact R|]. cbn [fst].
  set (sl := bd_slices d) in *.
  set (g := fun i => match alookup i sl with Some r => r | None => mkRS 0 None false end).
  assert (Hall : forall i, i < last + 1 -> In i (map fst sl)).
  { assert (Hincl : incl (map fst sl) (seqN 0 (N.to_nat (last + 1)))).
    { intros k Hk. apply seqN_in. pose proof (L _ _ eq_refl Hk). lia. }
    assert (Hincl' : incl (seqN 0 (N.to_nat (last + 1))) (map fst sl)).
    { apply NoDup_length_incl; [exact K | | exact Hincl]. rewrite map_length, seqN_len. lia. }
    intros i Hi. apply Hincl', seqN_in. lia. }
  destruct (slices_sorted_spec sl K) as [Ss Lk].
  assert (Hsorted : slices_sorted sl = map (fun i => (i, g i)) (seqN 0 (N.to_nat (last + 1)))).
  { apply ssorted_ext; [exact Ss | apply ssorted_map_seqN|].
    intros i. rewrite Lk, (alookup_map_seqN g). replace (0 <=? i) with true by lia. cbn [andb].
    destruct (i <? 0 + N.of_nat (N.to_nat (last + 1))) eqn:Ei.
    - assert (Hin : In i (map fst sl)) by (apply Hall; lia). apply alookup_in_keys in Hin.
      unfold g. destruct (alookup i sl); [reflexivity | congruence].
    - apply alookup_none_keys. intros Cc. pose proof (L _ _ eq_refl Cc). lia. }
  assert (Hh : map (fun x => rs_root (snd x)) (slices_sorted sl) =
               map (fun i => rs_root (g i)) (seqN 0 (N.to_nat (last + 1)))).
  { rewrite Hsorted, map_map. reflexivity. }
  unfold RI. cbn [bd_shreds bd_slices bd_cache bd_completed bd_last].
  split; [apply keys_filter_nodup; exact K|]. split; [|split; [exact Ls|split; [exact S|split]]].
  - intros l k Hl Hk. apply (L l k Hl). exact (keys_filter_in _ _ _ Hk).
  - intros i r Ha. apply Rr. exact (alookup_filter_sub _ _ _ _ K Ha).
  - intros h p Hc. injection Hc as <- <-. exists last. split; [reflexivity|]. rewrite Hh. split.
    + rewrite map_length, seqN_len. lia.
    + intros i Hi. rewrite (nth_map_seqN (fun i => rs_root (g i))) by lia.
      replace (0 + N.of_nat (N.to_nat i)) with i by lia. apply Rr.
      assert (Hin : In i (map fst sl)) by (apply Hall; lia). apply alookup_in_keys in Hin.
      unfold g. fold sl. destruct (alookup i sl); [reflexivity | congruence].
Qed.

Lemma ri_store_step chk c slot d2 s : RI d2 -> (forall last, bd_last d2 = Some last -> b_slice s <= last) ->
  alookup (b_slice s) (bd_cache d2) = Some (commitment_of s) ->
  RI (fst (store_step chk c slot d2 s)).
Proof.
  intros R Hidx Hc. pose proof R as [K [L [Ls [S [Rr C]]]]]. unfold store_step.
  destruct (alookup (b_index s) (aget [] (b_slice s) (bd_shreds d2))) eqn:Ej.
  - cbn [fst]. destruct (alookup (b_slice s) (bd_shreds d2)); [exact R|].
    apply ri_set_shreds; [exact R | exact Hidx | intros j s0 []].
  - set (d3 := bd_set_shreds d2 _).
    assert (R3 : RI d3).
    { apply ri_set_shreds; [exact R | exact Hidx|]. intros j s0 Hin. apply in_app_iff in Hin.
      destruct Hin as [Hin|[Hin|[]]].
      - unfold aget in Hin. destruct (alookup (b_slice s) (bd_shreds d2)) eqn:Ea; [|destruct Hin].
        exact (S _ _ _ _ Ea Hin).
      - injection Hin as <- <-. auto. }
    destruct (match bd_shreds d2 with [] => true | _ :: _ => false end); [exact R3|].
    unfold slice_step. pose proof (ri_rec_slice c d3 (b_slice s) R3 Hidx) as R4.
    destruct (try_reconstruct_slice c d3 (b_slice s)) as [d4 rs]. cbn [fst] in R4.
    destruct rs; try exact R4. unfold block_step. pose proof (ri_rec_block chk slot d4 R4) as R5.
    destruct (try_reconstruct_block chk slot d4) as [d5 rb]. cbn [fst] in R5. destruct rb; exact R5.
Qed.

(* BlockData::add_shred keeps the invariant, for any shred *)
Lemma ri_add_shred chk c slot d s : RI d -> RI (fst (bd_add_shred chk c slot d s)).
Proof.
  intros R. rewrite bd_add_shred_phases.
  destruct (cache_step d s) as [d1|] eqn:E1; [|exact R].
  destruct (ri_cache_step d s d1 R E1) as [R1 Hc1].
  destruct (last_step d1 s) as [d2|] eqn:E2; [|exact R1].
  destruct (ri_last_step d1 s d2 R1 E2) as [R2 [Hidx Hc2]].
  apply ri_store_step; [exact R2 | exact Hidx | rewrite Hc2; exact Hc1].
Qed.

(* BlockData::add_own_slice: cache entry, shreds and decoded slice of idx are replaced together *)
Lemma ri_own d idx fl root v r sh sl lst : RI d -> bd_completed d = None ->
  (forall i x, alookup i sh = Some x -> alookup i (bd_shreds d) = Some x) ->
  NoDup (map fst sl) -> (forall i x, alookup i sl = Some x -> alookup i (bd_slices d) = Some x) ->
  (forall l, lst = Some l -> idx <= l /\ (forall k, In k (map fst sl) -> k <= l) /\ (forall k, alookup k sh <> None -> k <= l)) ->
  (forall j s, In (j, s) v -> b_slice s = idx /\ b_index s = j /\ commitment_of s = (fl, root)) ->
  rs_root r = root ->
  RI (mkBD (bd_completed d) (ainsert idx v sh) (ainsert idx r sl) lst (ainsert idx (fl, root) (bd_cache d))).
Proof.
  intros [K [L [Ls [S [Rr C]]]]] Ec Hsh Ksl Hsl Hl Hv Hr. unfold RI.
  cbn [bd_shreds bd_slices bd_cache bd_completed bd_last].
  split; [apply nodup_keys_ainsert; exact Ksl|]. split; [|split; [|split; [|split]]].
  - intros l k El Hk. destruct (Hl l El) as [A [B _]]. apply ainsert_keys_incl in Hk.
    destruct Hk as [->|Hk]; [exact A | exact (B _ Hk)].
  - intros l k El Hk. destruct (Hl l El) as [A [_ B]]. destruct (N.eq_dec k idx) as [->|Hne]; [exact A|].
    rewrite alookup_ainsert_other in Hk by exact Hne. exact (B _ Hk).
  - intros i shs j s Ha Hin. destruct (N.eq_dec i idx) as [->|Hne].
    + rewrite alookup_ainsert_same in Ha. injection Ha as <-. destruct (Hv _ _ Hin) as [A [B Cc]].
      rewrite alookup_ainsert_same, Cc. auto.
    + rewrite alookup_ainsert_other in Ha by exact Hne. rewrite alookup_ainsert_other by exact Hne.
      exact (S _ _ _ _ (Hsh _ _ Ha) Hin).
  - intros i r0 Ha. destruct (N.eq_dec i idx) as [->|Hne].
    + rewrite alookup_ainsert_same in Ha. injection Ha as <-. rewrite alookup_ainsert_same, Hr. exists fl. reflexivity.
    + rewrite alookup_ainsert_other in Ha by exact Hne. rewrite alookup_ainsert_other by exact Hne.
      exact (Rr _ _ (Hsl _ _ Ha)).
  - intros h p Hc. congruence.
Qed.

Lemma canonical_in s0 j s : In (j, s) (canonical_shreds s0) ->
  b_slice s = b_slice s0 /\ b_index s = j /\ commitment_of s = commitment_of s0.
Proof.
  unfold canonical_shreds. intros H. apply in_map_iff in H. destruct H as [i [H _]]. injection H as <- <-.
  cbn [b_slice b_index]. unfold commitment_of. cbn [b_last b_root]. auto.
Qed.

Lemma ri_own_d3 d idx (last : bool) root size p ok : RI d -> bd_last d = None ->
  RI (mkBD (bd_completed (if last then mark_last_slice (mkBD (bd_completed d) (bd_shreds d) (bd_slices d) (bd_last d) (ainsert idx (last, root) (bd_cache d))) idx
                          else mkBD (bd_completed d) (bd_shreds d) (bd_slices d) (bd_last d) (ainsert idx (last, root) (bd_cache d))))
           (ainsert idx (canonical_shreds (mkBS idx last root 0 true size))
              (bd_shreds (if last then mark_last_slice (mkBD (bd_completed d) (bd_shreds d) (bd_slices d) (bd_last d) (ainsert idx (last, root) (bd_cache d))) idx
                          else mkBD (bd_completed d) (bd_shreds d) (bd_slices d) (bd_last d) (ainsert idx (last, root) (bd_cache d)))))
           (ainsert idx (mkRS root p ok)
              (bd_slices (if last then mark_last_slice (mkBD (bd_completed d) (bd_shreds d) (bd_slices d) (bd_last d) (ainsert idx (last, root) (bd_cache d))) idx
                          else mkBD (bd_completed d) (bd_shreds d) (bd_slices d) (bd_last d) (ainsert idx (last, root) (bd_cache d)))))
           (bd_last (if last then mark_last_slice (mkBD (bd_completed d) (bd_shreds d) (bd_slices d) (bd_last d) (ainsert idx (last, root) (bd_cache d))) idx
                          else mkBD (bd_completed d) (bd_shreds d) (bd_slices d) (bd_last d) (ainsert idx (last, root) (bd_cache d))))
           (bd_cache (if last then mark_last_slice (mkBD (bd_completed d) (bd_shreds d) (bd_slices d) (bd_last d) (ainsert idx (last, root) (bd_cache d))) idx
                          else mkBD (bd_completed d) (bd_shreds d) (bd_slices d) (bd_last d) (ainsert idx (last, root) (bd_cache d))))).
Proof.
  intros R El. pose proof R as [K [L [Ls [S [Rr C]]]]].
  assert (Ec : bd_completed d = None).
  { destruct (bd_completed d) as [[h p']|] eqn:E; [|reflexivity]. destruct (C h p' eq_refl) as [l [Hl _]]. congruence. }
  assert (Hv : forall j s, In (j, s) (canonical_shreds (mkBS idx last root 0 true size)) ->
                 b_slice s = idx /\ b_index s = j /\ commitment_of s = (last, root)).
  { intros j s Hin. apply canonical_in in Hin. exact Hin. }
  destruct last; unfold mark_last_slice; cbn [bd_shreds bd_slices bd_cache bd_completed bd_last].
  - apply ri_own; try assumption; try reflexivity.
    + intros i x Ha. apply alookup_filter_le_sub in Ha. apply Ha.
    + apply keys_filter_nodup. exact K.
    + intros i x Ha. apply alookup_filter_le_sub in Ha. apply Ha.
    + intros l Hl. injection Hl as <-. split; [lia|]. split.
      * intros k Hk. apply in_map_iff in Hk. destruct Hk as [x [<- Hx]]. apply filter_In in Hx. lia.
      * intros k Hk. rewrite alookup_filter_le in Hk. destruct (k <=? idx) eqn:E; [lia | congruence].
  - rewrite El. apply ri_own; try assumption; try reflexivity; auto. intros l Hl. discriminate.
Qed.

(* ---------- the slot state ---------- *)
Definition SI (sd : slotdata) : Prop :=
  RI (sd_dissem sd) /\ forall key d, alookup key (sd_repaired sd) = Some d -> RI d.
Lemma si_empty : SI sd_empty.
Proof. split; [exact ri_empty | intros key d H; discriminate]. Qed.
Lemma si_ext sd sd' : sd_dissem sd' = sd_dissem sd -> sd_repaired sd' = sd_repaired sd -> SI sd -> SI sd'.
Proof. intros A B H. unfold SI. rewrite A, B. exact H. Qed.
Lemma flag_frame sd : sd_dissem (fst (flag_misbehaviour sd)) = sd_dissem sd /\
  sd_repaired (fst (flag_misbehaviour sd)) = sd_repaired sd.
Proof. unfold flag_misbehaviour. destruct (sd_misbehaved sd); split; reflexivity. Qed.
Lemma si_flag sd : SI sd -> SI (fst (flag_misbehaviour sd)).
Proof. destruct (flag_frame sd) as [A B]. exact (si_ext sd _ A B). Qed.
Lemma si_ins sd key d mis pan : SI sd -> RI d -> SI (mkSD (sd_dissem sd) (ainsert key d (sd_repaired sd)) mis pan).
Proof.
  intros [A B] R. split; [exact A|]. cbn [sd_repaired]. intros k d0 H.
  destruct (N.eq_dec k key) as [->|Hne].
  - rewrite alookup_ainsert_same in H. injection H as <-. exact R.
  - rewrite alookup_ainsert_other in H by exact Hne. exact (B _ _ H).
Qed.

Lemma si_step chk ct slot sd op : SI sd -> SI (fst (fst (bs_step chk ct slot sd op))).
Proof.
  intros HS. pose proof HS as [RD RR].
  (* a shred refused by the tag guard leaves the state as it is *)
  destruct (bs_step_cases chk ct slot sd op) as [->|[_ [_ ->]]]; [|exact HS].
  unfold bs_step_gen. destruct (sd_panicked sd) eqn:Hp; [exact HS|]. cbn [andb].
  destruct op as [s|key expected s|idx last root size].
  - destruct (sd_misbehaved sd) eqn:M; [exact HS|].
    pose proof (ri_add_shred chk ct slot (sd_dissem sd) s RD) as R'.
    destruct (bd_add_shred chk ct slot (sd_dissem sd) s) as [d r]. cbn [fst] in R'.
    assert (H1 : forall mis pan, SI (mkSD d (sd_repaired sd) mis pan)) by (intros mis pan; split; [exact R' | exact RR]).
    destruct r as [e|e|]; [apply H1| |apply H1].
    destruct e; [apply H1| |].
    + pose proof (si_flag _ (H1 false false)) as H2. destruct (flag_misbehaviour _) as [sd2 evs]. exact H2.
    + pose proof (si_flag _ (H1 false false)) as H2. destruct (flag_misbehaviour _) as [sd2 evs]. exact H2.
  - assert (R0 : RI (aget bd_empty key (sd_repaired sd))).
    { unfold aget. destruct (alookup key (sd_repaired sd)) eqn:E; [exact (RR _ _ E) | exact ri_empty]. }
    pose proof (ri_add_shred chk ct slot _ s R0) as R'.
    destruct (bd_add_shred chk ct slot (aget bd_empty key (sd_repaired sd)) s) as [d r]. cbn [fst] in R'.
    assert (H1 : forall mis pan, SI (mkSD (sd_dissem sd) (ainsert key d (sd_repaired sd)) mis pan))
      by (intros mis pan; apply si_ins; assumption).
    assert (H0 : SI (mkSD (sd_dissem sd) (filter (fun kv => negb (fst kv =? key)) (sd_repaired sd)) (sd_misbehaved sd) false)).
    { split; [exact RD|]. cbn [sd_repaired]. intros k d0 H. rewrite alookup_filter_key in H.
      destruct (k =? key); [discriminate | exact (RR _ _ H)]. }
    destruct r as [e|e|].
    + destruct e as [[|h p|]|]; try apply H1. destruct (negb (listN_eqb h expected)); [exact H0 | apply H1].
    + destruct e; [apply H1| |].
      * pose proof (si_flag _ (H1 (sd_misbehaved sd) false)) as H2. destruct (flag_misbehaviour _) as [sd2 evs]. exact H2.
      * pose proof (si_flag _ (H1 (sd_misbehaved sd) false)) as H2. destruct (flag_misbehaviour _) as [sd2 evs]. exact H2.
    + apply H1.
  - cbv zeta. destruct (bd_last (sd_dissem sd)) as [l|] eqn:El; [split; [exact RD | exact RR]|].
    destruct (content_of ct root) as [p ok|]; [|split; [exact RD | exact RR]].
    pose proof (ri_own_d3 (sd_dissem sd) idx last root size p ok RD El) as R3. rewrite El in R3.
    match goal with |- context [try_reconstruct_block chk slot ?dd] =>
      pose proof (ri_rec_block chk slot dd R3) as R4;
      destruct (try_reconstruct_block chk slot dd) as [d4 rb] end.
    cbn [fst] in R4. destruct rb; split; try exact R4; exact RR.
Qed.

Lemma si_run chk ct slot ops : SI (bs_run_ops chk ct slot ops).
Proof.
  unfold bs_run_ops. generalize si_empty. generalize sd_empty.
  induction ops as [|op ops IH]; intros sd H; cbn [fold_left]; [exact H|].
  apply IH. apply si_step. exact H.
Qed.

(* ---------- what the invariant says about the responder's data ---------- *)
Lemma responder_data_ri sd b kh d : SI sd -> responder_data sd b kh = Some d -> RI d.
Proof.
  intros [RD RR]. unfold responder_data. destruct (bd_completed (sd_dissem sd)) as [[h p]|].
  - destruct (listN_eqb h kh); [intros H; injection H as <-; exact RD | apply RR].
  - apply RR.
Qed.
Lemma held_of_completed d h p l : RI d -> bd_completed d = Some (h, p) -> bd_last d = Some l -> held_block d h l.
Proof.
  intros [_ [_ [_ [_ [_ C]]]]] Hc Hl. destruct (C h p Hc) as [l' [Hl' [Hn _]]].
  assert (l' = l) by congruence. subst l'. exists p. auto.
Qed.
Lemma stored_root d h l s shs j sh : RI d -> held_block d h l ->
  alookup s (bd_shreds d) = Some shs -> In (j, sh) shs -> s <= l /\ root_at h s = Some (b_root sh).
Proof.
  intros [_ [_ [Ls [S [_ C]]]]] [p [Hc [Hl Hn]]] Ha Hin.
  assert (Hs : s <= l) by (apply (Ls l s Hl); congruence). split; [exact Hs|].
  destruct (S _ _ _ _ Ha Hin) as [_ [_ Hcache]].
  destruct (C h p Hc) as [l' [Hl' [_ Hall]]]. assert (l' = l) by congruence. subst l'.
  destruct (Hall s Hs) as [fl Hf]. rewrite Hcache in Hf. unfold commitment_of in Hf. injection Hf as _ Hroot.
  unfold root_at. rewrite Hroot. apply nth_error_nth'. lia.
Qed.
Lemma slice_root_of_some d s root : slice_root_of d s = Some root ->
  exists shs j sh, alookup s (bd_shreds d) = Some shs /\ In (j, sh) shs /\ root = b_root sh.
Proof.
  unfold slice_root_of. destruct (alookup s (bd_shreds d)) as [[|[j sh] t]|]; try discriminate.
  intros H. injection H as <-. exists ((j, sh) :: t), j, sh. split; [reflexivity|]. split; [left; reflexivity | reflexivity].
Qed.

Lemma answer_ok_si sd key_hash r : SI sd -> answer_ok sd key_hash r (answer sd key_hash r).
Proof.
  intros HS. destruct r as [b|b s|b s i]; unfold answer.
  - destruct (responder_data sd b (key_hash b)) as [d|] eqn:Er; [|exact I].
    pose proof (responder_data_ri sd b _ d HS Er) as R.
    destruct (bd_last d) as [l|] eqn:El; [|exact I].
    destruct (slice_root_of d l) as [root|] eqn:Es; [|exact I].
    destruct (bd_completed d) as [[h p]|] eqn:Ec; [|exact I].
    destruct (slice_root_of_some d l root Es) as [shs [j [sh [Ha [Hin ->]]]]].
    pose proof (held_of_completed d h p l R Ec El) as Hh.
    unfold answer_ok. exists d, h. split; [exact Er|]. split; [exact Hh|].
    exact (proj2 (stored_root d h l l shs j sh R Hh Ha Hin)).
  - destruct (responder_data sd b (key_hash b)) as [d|] eqn:Er; [|exact I].
    pose proof (responder_data_ri sd b _ d HS Er) as R.
    destruct (slice_root_of d s) as [root|] eqn:Es; [|exact I].
    destruct (bd_completed d) as [[h p]|] eqn:Ec; [|exact I].
    destruct (slice_root_of_some d s root Es) as [shs [j [sh [Ha [Hin ->]]]]].
    pose proof R as [_ [_ [_ [_ [_ C]]]]]. destruct (C h p Ec) as [l [Hl _]].
    pose proof (held_of_completed d h p l R Ec Hl) as Hh.
    destruct (stored_root d h l s shs j sh R Hh Ha Hin) as [A B].
    unfold answer_ok. exists d, h, l. auto.
  - destruct (responder_data sd b (key_hash b)) as [d|] eqn:Er; [|exact I].
    pose proof (responder_data_ri sd b _ d HS Er) as R.
    destruct (alookup s (bd_shreds d)) as [shs|] eqn:Ea; [|exact I].
    destruct (alookup i shs) as [sh|] eqn:Ei; [|exact I].
    pose proof (alookup_In _ _ _ Ei) as Hin.
    pose proof R as [_ [_ [_ [S _]]]]. destruct (S _ _ _ _ Ea Hin) as [A [B Cc]].
    unfold answer_ok. exists d, shs. split; [exact Er|]. split; [exact Ea|]. split; [exact Ei|].
    split; [exact A|]. split; [exact B|]. split; [exact Cc|].
    intros h l Hh. exact (stored_root d h l s shs i sh R Hh Ea Hin).
Qed.

(* R1: every positive answer of the responder is consistent with the block it holds *)
Theorem responder_sound : forall chk ct slot ops key_hash r,
  answer_ok (bs_run_ops chk ct slot ops) key_hash r (answer (bs_run_ops chk ct slot ops) key_hash r).
Proof. intros chk ct slot ops key_hash r. apply answer_ok_si, si_run. Qed.

(* ---------- the block held for a key hashes to the key ---------- *)
Lemma step_repaired_frame chk ct slot sd op : (match op with BRepair _ _ _ => false | _ => true end) = true ->
  sd_repaired (fst (fst (bs_step chk ct slot sd op))) = sd_repaired sd.
Proof.
  intros Hop. destruct (bs_step_cases chk ct slot sd op) as [->|[_ [_ ->]]]; [|reflexivity].
  unfold bs_step_gen. destruct (sd_panicked sd); [reflexivity|]. cbn [andb].
  destruct op as [s|key expected s|idx last root size]; [| discriminate |].
  - destruct (sd_misbehaved sd) eqn:M; [reflexivity|].
    destruct (bd_add_shred chk ct slot (sd_dissem sd) s) as [d r].
    destruct r as [e|e|]; [reflexivity| |reflexivity]. destruct e; [reflexivity| |].
    + pose proof (flag_frame (mkSD d (sd_repaired sd) false false)) as [_ H2].
      destruct (flag_misbehaviour _) as [sd2 evs]. exact H2.
    + pose proof (flag_frame (mkSD d (sd_repaired sd) false false)) as [_ H2].
      destruct (flag_misbehaviour _) as [sd2 evs]. exact H2.
  - cbv zeta. destruct (bd_last (sd_dissem sd)); [reflexivity|].
    destruct (content_of ct root); [|reflexivity].
    match goal with |- context [try_reconstruct_block chk slot ?dd] =>
      destruct (try_reconstruct_block chk slot dd) as [d4 rb] end.
    destruct rb; reflexivity.
Qed.
Lemma store_ok_step_keyed chk ct slot key_hash sd op : store_ok key_hash sd ->
  (match op with BRepair key e _ => listN_eqb e (key_hash key) | _ => true end) = true ->
  store_ok key_hash (fst (fst (bs_step chk ct slot sd op))).
Proof.
  intros H Hop. destruct op as [s|key e s|idx last root size].
  - unfold store_ok. rewrite step_repaired_frame by reflexivity. exact H.
  - apply listN_eqb_eq in Hop. subst e.
    destruct (bs_step chk ct slot sd (BRepair key (key_hash key) s)) as [[sd' ret] evs] eqn:E. cbn [fst].
    exact (proj1 (repair_step_store_ok chk ct slot key_hash sd key s sd' ret evs H E)).
  - unfold store_ok. rewrite step_repaired_frame by reflexivity. exact H.
Qed.
Lemma store_ok_run chk ct slot key_hash ops : ops_keyed key_hash ops = true ->
  store_ok key_hash (bs_run_ops chk ct slot ops).
Proof.
  unfold bs_run_ops, ops_keyed.
  assert (H0 : store_ok key_hash sd_empty) by (intros k d h p E; discriminate E).
  revert H0. generalize sd_empty. induction ops as [|op ops IH]; intros sd H Hk; cbn [fold_left]; [exact H|].
  cbn [forallb] in Hk. apply andb_true_iff in Hk. destruct Hk as [Hop Hk].
  apply IH; [|exact Hk]. apply store_ok_step_keyed; assumption.
Qed.

Theorem responder_hash_is_key : forall chk ct slot ops key_hash b d h p,
  ops_keyed key_hash ops = true ->
  responder_data (bs_run_ops chk ct slot ops) b (key_hash b) = Some d -> bd_completed d = Some (h, p) -> h = key_hash b.
Proof.
  intros chk ct slot ops key_hash b d h p Hk Hr Hc. pose proof (store_ok_run chk ct slot key_hash ops Hk) as Hs.
  unfold responder_data in Hr.
  destruct (bd_completed (sd_dissem (bs_run_ops chk ct slot ops))) as [[h0 p0]|] eqn:Ed.
  - destruct (listN_eqb h0 (key_hash b)) eqn:Eq.
    + injection Hr as <-. apply listN_eqb_eq in Eq. congruence.
    + exact (Hs _ _ _ _ Hr Hc).
  - exact (Hs _ _ _ _ Hr Hc).
Qed.

(* ---------- when the responder refuses ---------- *)
Lemma slice_root_of_none d s : alookup s (bd_shreds d) = None -> slice_root_of d s = None.
Proof. intros H. unfold slice_root_of. rewrite H. reflexivity. Qed.

Theorem responder_nacks : forall chk ct slot ops key_hash b,
  let sd := bs_run_ops chk ct slot ops in
  (responder_data sd b (key_hash b) = None ->
     answer sd key_hash (RLast b) = ANack /\ (forall s, answer sd key_hash (RRoot b s) = ANack) /\
     (forall s i, answer sd key_hash (RShred b s i) = ANack)) /\
  (forall d h l, responder_data sd b (key_hash b) = Some d -> held_block d h l ->
     forall s, l < s -> answer sd key_hash (RRoot b s) = ANack /\ forall i, answer sd key_hash (RShred b s i) = ANack) /\
  (forall d, responder_data sd b (key_hash b) = Some d -> bd_completed d = None ->
     answer sd key_hash (RLast b) = ANack /\ forall s, answer sd key_hash (RRoot b s) = ANack) /\
  (forall d s i, responder_data sd b (key_hash b) = Some d ->
     (forall shs, alookup s (bd_shreds d) = Some shs -> alookup i shs = None) -> answer sd key_hash (RShred b s i) = ANack).
Proof.
  intros chk ct slot ops key_hash b sd. pose proof (si_run chk ct slot ops) as HS. fold sd in HS.
  split; [|split; [|split]].
  - intros Hr. unfold answer. rewrite Hr. auto.
  - intros d h l Hr [p [Hc [Hl Hn]]] s Hs.
    pose proof (responder_data_ri sd b _ d HS Hr) as [_ [_ [Ls _]]].
    assert (Ha : alookup s (bd_shreds d) = None).
    { destruct (alookup s (bd_shreds d)) eqn:E; [|reflexivity].
      assert (s <= l) by (apply (Ls l s Hl); congruence). lia. }
    unfold answer. rewrite Hr, (slice_root_of_none d s Ha), Ha. auto.
  - intros d Hr Hc. unfold answer. rewrite Hr, Hc. split.
    + destruct (bd_last d) as [l|]; [|reflexivity]. destruct (slice_root_of d l); reflexivity.
    + intros s. destruct (slice_root_of d s); reflexivity.
  - intros d s i Hr Hn. unfold answer. rewrite Hr.
    destruct (alookup s (bd_shreds d)) as [shs|]; [|reflexivity]. rewrite (Hn shs eq_refl). reflexivity.
Qed.

(* ---------- positive answers verify against the hash the key stands for ---------- *)
Theorem responder_answers_verify : forall chk ct slot ops key_hash r,
  ops_keyed key_hash ops = true ->
  answer_verifies (bs_run_ops chk ct slot ops) key_hash r (answer (bs_run_ops chk ct slot ops) key_hash r).
Proof.
  intros chk ct slot ops key_hash r Hk.
  pose proof (responder_sound chk ct slot ops key_hash r) as H.
  pose proof (fun b d h p => responder_hash_is_key chk ct slot ops key_hash b d h p Hk) as Hh.
  destruct (answer (bs_run_ops chk ct slot ops) key_hash r) as [|l root|root|sh]; destruct r as [b|b s|b s i];
    cbn [answer_ok answer_verifies] in *; try exact H; try exact I.
  - destruct H as [d [h [Hr [[p [Hc [_ Hlen]]] Hroot]]]]. rewrite <- (Hh b d h p Hr Hc). auto.
  - destruct H as [d [h [l [Hr [[p [Hc [_ Hlen]]] [Hs Hroot]]]]]]. rewrite <- (Hh b d h p Hr Hc). split; [lia | exact Hroot].
  - destruct H as [d [shs [Hr [_ [_ [Hsl [Hix [_ Hheld]]]]]]]]. split; [exact Hsl|]. split; [exact Hix|].
    intros d' Hr' Hc'. rewrite Hr in Hr'. injection Hr' as <-.
    destruct (bd_completed d) as [[h p]|] eqn:Hc; [|congruence].
    assert (Hheld' : exists l, held_block d h l).
    { pose proof (si_run chk ct slot ops) as HSI. pose proof (responder_data_ri _ _ _ _ HSI Hr) as HRI.
      destruct HRI as [_ [_ [_ [_ [_ C]]]]]. destruct (C h p Hc) as [l [Hl [Hn _]]]. exists l, p. auto. }
    destruct Hheld' as [l Hl]. destruct (Hheld h l Hl) as [A B]. destruct Hl as [p' [Hc2 [_ Hlen]]].
    rewrite <- (Hh b d h p Hr Hc). split; [lia | exact B].
Qed.
