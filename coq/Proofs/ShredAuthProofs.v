(* Proofs about shred authentication (Model/ShredAuth.v) - C12. *)
From Coq Require Import String Uint63 List NArith ZArith Bool Lia ZifyBool ZifyNat ZifyN.
From AG Require Import Lib.Sha256 Lib.Hex Model.Merkle Model.MerkleSha Model.ShredAuth Proofs.MerkleProofs Gen.Params.
Import ListNotations.
Ltac Zify.zify_post_hook ::= Z.div_mod_to_equations.

Lemma of_le_le_bytes : forall k n, of_le (le_bytes k n) = (n mod 256 ^ N.of_nat k)%N.
Proof.
  induction k as [|k IH]; intros n.
  - cbn. rewrite N.mod_1_r. reflexivity.
  - cbn [le_bytes of_le]. rewrite IH.
    replace (N.of_nat (S k)) with (N.succ (N.of_nat k)) by lia. rewrite N.pow_succ_r'.
    assert (P : (0 < 256 ^ N.of_nat k)%N) by (apply N.neq_0_lt_0, N.pow_nonzero; lia).
    rewrite N.mod_mul_r by lia. reflexivity.
Qed.

Lemma le_bytes_inj : forall k n m, (n < 256 ^ N.of_nat k)%N -> (m < 256 ^ N.of_nat k)%N ->
  le_bytes k n = le_bytes k m -> n = m.
Proof.
  intros k n m Hn Hm E. assert (A := of_le_le_bytes k n). assert (B := of_le_le_bytes k m).
  rewrite E in A. rewrite A in B. rewrite !N.mod_small in B by assumption. exact B.
Qed.

Lemma le_bytes_lt256 : forall k n, Forall (fun b => (b < 256)%N) (le_bytes k n).
Proof. induction k; intros n; cbn [le_bytes]; constructor; [apply N.mod_lt; lia | apply IHk]. Qed.
Lemma le_bytes_length : forall k n, length (le_bytes k n) = k.
Proof. induction k; intros n; cbn [le_bytes length]; [reflexivity | rewrite IHk; reflexivity]. Qed.

Lemma int_of_N_inj : forall a b, (a < 256)%N -> (b < 256)%N -> int_of_N a = int_of_N b -> a = b.
Proof.
  intros a b Ha Hb E. unfold int_of_N in E.
  assert (Wa : (0 <= Z.of_N a < wB)%Z) by (unfold wB; cbn; lia).
  assert (Wb : (0 <= Z.of_N b < wB)%Z) by (unfold wB; cbn; lia).
  apply (f_equal to_Z) in E. rewrite !of_Z_spec in E. rewrite !Z.mod_small in E by assumption. lia.
Qed.

Lemma map_int_inj : forall l1 l2, Forall (fun b => (b < 256)%N) l1 -> Forall (fun b => (b < 256)%N) l2 ->
  map int_of_N l1 = map int_of_N l2 -> l1 = l2.
Proof.
  induction l1 as [|a l1 IH]; intros [|b l2] F1 F2 E; try discriminate; [reflexivity|].
  inversion F1; inversion F2; subst. cbn in E. injection E as E1 E2.
  f_equal; [apply int_of_N_inj; assumption | apply IH; assumption].
Qed.

Lemma le8_inj : forall n m, (n < 2 ^ 64)%N -> (m < 2 ^ 64)%N -> le8 n = le8 m -> n = m.
Proof.
  intros n m Hn Hm E. unfold le8 in E.
  apply map_int_inj in E; try apply le_bytes_lt256.
  apply (le_bytes_inj 8%nat); [| | exact E]; change (256 ^ N.of_nat 8)%N with (2 ^ 64)%N; assumption.
Qed.
Lemma le8_length : forall n, length (le8 n) = 8%nat.
Proof. intros n. unfold le8. rewrite map_length, le_bytes_length. reflexivity. Qed.

Lemma app_inj_len {A} : forall (a b c d : list A), length a = length c -> a ++ b = c ++ d -> a = c /\ b = d.
Proof.
  induction a as [|x a IH]; intros b [|y c] d L E; cbn in *; try discriminate; [auto|].
  injection E as -> E. destruct (IH b c d ltac:(lia) E) as [-> ->]. auto.
Qed.

(* the signed commitment determines slot, slice index, last flag and slice root *)
Theorem commitment_injective : forall s1 i1 l1 r1 s2 i2 l2 r2,
  (s1 < 2 ^ 64)%N -> (s2 < 2 ^ 64)%N -> (i1 < 2 ^ 64)%N -> (i2 < 2 ^ 64)%N ->
  commitment_bytes s1 i1 l1 r1 = commitment_bytes s2 i2 l2 r2 ->
  s1 = s2 /\ i1 = i2 /\ l1 = l2 /\ r1 = r2.
Proof.
  intros s1 i1 l1 r1 s2 i2 l2 r2 H1 H2 H3 H4 E. unfold commitment_bytes in E.
  apply app_inj_len in E; [|rewrite !le8_length; reflexivity]. destruct E as [Es E].
  apply app_inj_len in E; [|rewrite !le8_length; reflexivity]. destruct E as [Ei E].
  cbn [app] in E. injection E as El Er.
  repeat split.
  - apply le8_inj; assumption.
  - apply le8_inj; assumption.
  - destruct l1, l2; try reflexivity; apply (f_equal to_Z) in El; vm_compute in El; discriminate.
  - exact Er.
Qed.

Lemma bytes_eqb_spec : forall a b, bytes_eqb a b = true <-> a = b.
Proof.
  induction a as [|x a IH]; intros [|y b]; cbn [bytes_eqb]; split; intros H; try discriminate; try reflexivity.
  - apply andb_prop in H. destruct H as [H1 H2]. apply Uint63.eqb_spec in H1. apply IH in H2. subst. reflexivity.
  - injection H as -> ->. rewrite Uint63.eqb_refl. cbn. apply IH. reflexivity.
Qed.

(* a shred is accepted without a cached commitment only if the leader signed exactly its slot, slice index,
   last flag and the root derived from its payload at its index along its path *)
Theorem accepted_only_if_signed : forall w,
  validate_shred None w = SOk ->
  index_in_width w = true /\
  w_sig_by_leader w = true /\ w_sig_msg w = commitment_bytes (w_slot w) (w_slice w) (w_last w) (shred_root w).
Proof.
  intros w H. unfold validate_shred, validate_shred_gen, sig_verifies in H. cbn [andb] in H.
  destruct (index_in_width w); cbn [negb] in H; [|discriminate]. split; [reflexivity|].
  destruct (w_sig_by_leader w); cbn [andb] in H; [|discriminate].
  destruct (bytes_eqb (w_sig_msg w) (shred_commitment w)) eqn:E; [|discriminate].
  apply bytes_eqb_spec in E. auto.
Qed.

(* a shred whose index lies beyond the width spanned by its path is never accepted, cached commitment or not;
   the pinned tree accepted it (the root derivation ignores the surplus index bits) *)
Theorem alias_index_rejected : forall c w, index_in_width w = false -> validate_shred c w = SInvalidSignature.
Proof. intros c w H. unfold validate_shred, validate_shred_gen. rewrite H. reflexivity. Qed.

(* a cached commitment only ever shortcuts verification of an identical commitment; a different validly
   signed one is reported as equivocation, anything else as an invalid signature *)
Theorem cache_shortcuts_only_identical : forall c w,
  (validate_shred (Some c) w = SOk <-> index_in_width w = true /\ c = shred_commitment w) /\
  (validate_shred (Some c) w = SEquivocation <->
     index_in_width w = true /\ c <> shred_commitment w /\ w_sig_by_leader w = true /\ w_sig_msg w = shred_commitment w).
Proof.
  intros c w. unfold validate_shred, validate_shred_gen, sig_verifies. cbn [andb].
  destruct (index_in_width w); cbn [negb].
  2:{ split; split; try discriminate; intros [X _]; discriminate. }
  destruct (bytes_eqb c (shred_commitment w)) eqn:E.
  - apply bytes_eqb_spec in E. split; split; try discriminate; auto. intros [_ [H _]]. congruence.
  - assert (Hne : c <> shred_commitment w) by (intro X; apply bytes_eqb_spec in X; congruence).
    destruct (w_sig_by_leader w); cbn [andb].
    + destruct (bytes_eqb (w_sig_msg w) (shred_commitment w)) eqn:E2.
      * apply bytes_eqb_spec in E2. split; split; try discriminate; auto; try (intros [_ X]; congruence).
      * split; split; try discriminate; try (intros [_ X]; congruence). intros [_ [_ [_ X]]]. apply bytes_eqb_spec in X. congruence.
    + split; split; try discriminate; try (intros [_ X]; congruence). intros [_ [_ [X _]]]. discriminate.
Qed.

(* two shreds the leader validly signed under DIFFERENT headers (slot, slice index or last flag) - whatever their
   payloads and slice roots, in particular for the SAME slice root signed twice: each is reported as equivocation
   against the other's cached commitment, never shortcut and never waved through as an invalid signature *)
Theorem differently_headed_signed_shreds_equivocate : forall w1 w2,
  validate_shred None w1 = SOk -> validate_shred None w2 = SOk ->
  (w_slot w1 < 2 ^ 64)%N -> (w_slot w2 < 2 ^ 64)%N -> (w_slice w1 < 2 ^ 64)%N -> (w_slice w2 < 2 ^ 64)%N ->
  (w_slot w1, w_slice w1, w_last w1) <> (w_slot w2, w_slice w2, w_last w2) ->
  validate_shred (Some (shred_commitment w1)) w2 = SEquivocation.
Proof.
  intros w1 w2 H1 H2 B1 B2 B3 B4 Hne.
  apply accepted_only_if_signed in H2. destruct H2 as [Hw [Hs Hm]].
  apply (proj2 (cache_shortcuts_only_identical (shred_commitment w1) w2)).
  split; [exact Hw|]. split; [|split; [exact Hs|exact Hm]].
  intro E. unfold shred_commitment in E.
  apply commitment_injective in E; try assumption.
  destruct E as [E1 [E2 [E3 _]]]. apply Hne. rewrite E1, E2, E3. reflexivity.
Qed.
