(* C01, global composition: concrete system runs (closed by vm_compute).
   1. Non-vacuity: a run with an equivocating Byzantine validator in which two correct nodes
      fast-finalize block (1, 11) - the hypotheses of the system theorems are satisfiable and the
      reported statuses they speak about do occur.
   2. FINDING: with rule R4 as it was stated before this composition ("the parent of a notar-fallback
      vote has a notar-fallback-or-stronger certificate", [strict_r4]) the composition theorem is FALSE:
      the repaired Pool::add_block treats the genesis block as a certified parent, so a correct node
      casts notar-fallback for a slot-1 block although no certificate for genesis exists (nor can).
      R4 of Model/Safety.v now reads "certified or genesis", and T1-T3 are proved for that rule.
   3. FINDING: "the tracker's 'consensus safety violation' panics are unreachable" is FALSE for the tracker
      with the assertion of FinalityTracker::handle_implicitly_finalized on a Notarized status
      (finality_tracker.rs l.345-347, assert_eq!(hash, &block_hash, "consensus safety violation")).
      In a safe, rule-abiding run with 19 % Byzantine stake slot 1 holds a notarization certificate for
      (1, 12) AND a notar-fallback certificate for (1, 11) (legitimate: nothing is finalized in slot 1),
      the chain continues (1, 11) <- (2, 21) <- (4, 41), and (4, 41) gathers 81 % notar votes: in the
      abstract view (4, 41) is finalized and (1, 11) is finalized through it, while the live tracker of
      correct node 0 holds Notarized(12) for slot 1.  The asserting walk (Model/System.v
      ft_mark_fast_finalized_asserting) applied to that tracker for the justified fast-finalization
      certificate panics.  The same pool operation sequence panics the REAL PoolImpl with that message
      (replayed on the tree this was proved against). *)
From Coq Require Import List NArith Bool Lia.
From AG Require Import Gen.Params Model.Pool Model.PoolSpec Model.Votor Model.Node Model.Safety Model.NodeRules Model.System
  Proofs.StakeSets Proofs.SafetyProofs Proofs.SysFinality Proofs.SystemProofs Proofs.SysNoPanic.
Import ListNotations.
Open Scope N_scope.

Definition sx_parent (b : blockid) : option blockid :=
  match b with
  | (1, 11) => Some (0, 0) | (1, 12) => Some (0, 0)
  | _ => None
  end.
(* six equal validators, validator 5 Byzantine (16.7 % < 20 %) *)
Definition sxW : world := mkWorld [1; 1; 1; 1; 1; 1] [5] sx_parent.

Lemma sxW_ok : world_ok sxW.
Proof.
  split; [vm_compute; reflexivity|]. split; [vm_compute; reflexivity|].
  intros [s h] p E. unfold sxW, w_parent, sx_parent in E.
  destruct s as [|s]; [discriminate|].
  repeat (destruct s as [s|s|]; try discriminate);
  repeat (destruct h as [|h]; try discriminate; repeat (destruct h as [h|h|]; try discriminate));
  injection E as <-; cbn; lia.
Qed.

Definition nv (s h u : N) : vote := mkVote s (KNotar h) u.
Definition hist_of (W : world) (ls : list label) : list vote :=
  match sys_exec W ls with Some st => s_hist st | None => [] end.

Lemma opt_case_ex {A} (o : option A) (P : A -> bool) :
  match o with Some a => P a | None => false end = true -> exists a, o = Some a /\ P a = true.
Proof. destruct o as [a|]; [intros E; exists a; split; [reflexivity | exact E] | discriminate]. Qed.

(* nodes 0-4 receive block (1, 11) and notarize it; validator 5 equivocates (notar 11, notar 12, skip);
   nodes 0 and 1 receive the votes in different orders, with duplicates and with the conflicting votes *)
Definition sx_run : list label :=
  [LNode 0 (NBlock 1 11 (0, 0)); LNode 1 (NBlock 1 11 (0, 0)); LNode 2 (NBlock 1 11 (0, 0));
   LNode 3 (NBlock 1 11 (0, 0)); LNode 4 (NBlock 1 11 (0, 0));
   LByz (nv 1 11 5); LByz (nv 1 12 5); LByz (mkVote 1 KSkip 5);
   LNode 0 (NVote (nv 1 11 0)); LNode 0 (NVote (nv 1 11 1)); LNode 0 (NVote (nv 1 12 5)); LNode 0 (NVote (nv 1 11 2));
   LNode 0 (NVote (nv 1 11 3)); LNode 0 (NVote (nv 1 11 4));
   LNode 1 (NVote (nv 1 11 4)); LNode 1 (NVote (nv 1 11 3)); LNode 1 (NVote (mkVote 1 KSkip 5)); LNode 1 (NVote (nv 1 11 2));
   LNode 1 (NVote (nv 1 11 1)); LNode 1 (NVote (nv 1 11 1)); LNode 1 (NVote (nv 1 11 0))].

Theorem sys_nonvacuous :
  world_ok sxW /\
  exists S, sys_exec sxW sx_run = Some S /\
    node_direct_finalized (s_node S 0) (1, 11) = true /\ node_finalized (s_node S 1) (1, 11) = true /\
    node_certified (s_node S 0) (1, 11) = true /\
    (* both conflicting votes of the Byzantine validator are in the history, and both correct nodes cast final votes *)
    cast (s_hist S) 1 (KNotar 11) 5 = true /\ cast (s_hist S) 1 (KNotar 12) 5 = true /\ cast (s_hist S) 1 KSkip 5 = true /\
    cast (s_hist S) 1 KFinal 0 = true /\ cast (s_hist S) 1 KFinal 1 = true.
Proof.
  split; [exact sxW_ok|].
  assert (X : match sys_exec sxW sx_run with
              | Some st => node_direct_finalized (s_node st 0) (1, 11) && node_finalized (s_node st 1) (1, 11)
                           && node_certified (s_node st 0) (1, 11)
                           && cast (s_hist st) 1 (KNotar 11) 5 && cast (s_hist st) 1 (KNotar 12) 5 && cast (s_hist st) 1 KSkip 5
                           && cast (s_hist st) 1 KFinal 0 && cast (s_hist st) 1 KFinal 1
              | None => false
              end = true) by (vm_compute; reflexivity).
  destruct (sys_exec sxW sx_run) as [st|]; [|discriminate]. exists st. split; [reflexivity|].
  repeat (apply andb_prop in X; destruct X as [X ?]). repeat split; assumption.
Qed.

(* the run satisfies the hypothesis of the no-panic theorem (Proofs/SysNoPanic.v) *)
Theorem sx_run_waits_ok : waits_ok sxW sx_run = true.
Proof. vm_compute. reflexivity. Qed.

(* ... which is needed: a second wait_for_parent_ready for a window without a ready parent panics *)
Theorem second_waiter_panics :
  exists W ls S u, world_ok W /\ sys_exec W ls = Some S /\ correct W u = true /\ waits_ok W ls = false /\
                   p_panicked (nd_pool (s_node S u)) = true.
Proof.
  assert (X : match sys_exec sxW [LNode 0 (NWait 4); LNode 0 (NWait 4)] with
              | Some st => p_panicked (nd_pool (s_node st 0)) | None => false end = true) by (vm_compute; reflexivity).
  pose proof (opt_case_ex (sys_exec sxW [LNode 0 (NWait 4); LNode 0 (NWait 4)]) (fun st => p_panicked (nd_pool (s_node st 0))) X) as [st [E Xs]].
  exists sxW, [LNode 0 (NWait 4); LNode 0 (NWait 4)], st, 0.
  split; [exact sxW_ok|]. split; [exact E|]. split; [vm_compute; reflexivity|]. split; [vm_compute; reflexivity | exact Xs].
Qed.

(* node 3 times out in slot 1 (skip votes for its window), registers block (1, 11) whose parent is genesis,
   and receives three notar votes (50 %): its pool raises SafeToNotar(1, 11), its Votor casts notar-fallback *)
Definition r4_run : list label :=
  [LNode 3 (NTimeout 1); LNode 3 (NVote (mkVote 1 KSkip 3)); LNode 3 (NPoolBlock (1, 11) (0, 0));
   LNode 0 (NBlock 1 11 (0, 0)); LNode 1 (NBlock 1 11 (0, 0)); LNode 2 (NBlock 1 11 (0, 0));
   LNode 3 (NVote (nv 1 11 0)); LNode 3 (NVote (nv 1 11 1)); LNode 3 (NVote (nv 1 11 2))].

Theorem strict_r4_refuted :
  exists W ls S newer x older,
    world_ok W /\ sys_exec W ls = Some S /\ s_hist S = newer ++ x :: older /\
    correct W (v_signer x) = true /\ ~ strict_r4 W older x.
Proof.
  assert (X : hist_of sxW r4_run =
              [mkVote 1 (KNotarFb 11) 3; nv 1 11 2; nv 1 11 1; nv 1 11 0; mkVote 3 KSkip 3; mkVote 2 KSkip 3; mkVote 1 KSkip 3])
    by (vm_compute; reflexivity).
  unfold hist_of in X. destruct (sys_exec sxW r4_run) as [st|] eqn:E; [|discriminate].
  exists sxW, r4_run, st, [], (mkVote 1 (KNotarFb 11) 3), [nv 1 11 2; nv 1 11 1; nv 1 11 0; mkVote 3 KSkip 3; mkVote 2 KSkip 3; mkVote 1 KSkip 3].
  split; [exact sxW_ok|]. split; [exact E|]. split; [exact X|]. split; [vm_compute; reflexivity|].
  unfold strict_r4. cbn [v_kind v_slot]. intros [p [Pp Nc]]. injection Pp as <-. vm_compute in Nc. discriminate.
Qed.

(* ---------- 3. a "consensus safety violation" panic in a safe run ---------- *)
Definition px_parent (b : blockid) : option blockid :=
  match b with
  | (1, 11) => Some (0, 0) | (1, 12) => Some (0, 0)
  | (2, 21) => Some (1, 11)
  | (4, 41) => Some (2, 21)
  | _ => None
  end.
(* validator 0: 41 %, validator 1: 40 %, validator 2 (Byzantine, leader of the first window): 19 % *)
Definition pxW : world := mkWorld [41; 40; 19] [2] px_parent.

Lemma pxW_ok : world_ok pxW.
Proof.
  split; [vm_compute; reflexivity|]. split; [vm_compute; reflexivity|].
  intros [s h] p E. unfold pxW, w_parent, px_parent in E.
  destruct s as [|s]; [discriminate|].
  repeat (destruct s as [s|s|]; try discriminate);
  repeat (destruct h as [|h]; try discriminate; repeat (destruct h as [h|h|]; try discriminate));
  injection E as <-; cbn; lia.
Qed.

Definition nf (s h u : N) : vote := mkVote s (KNotarFb h) u.
Definition sk (s u : N) : vote := mkVote s KSkip u.
(* the run up to (and without) the delivery that makes node 0 see 81 % for (4,41) *)
Definition px_run : list label :=
  [ (* slot 1: the Byzantine leader shows (1,12) to node 0 and (1,11) to node 1, and votes for both *)
    LNode 0 (NBlock 1 12 (0, 0)); LNode 1 (NBlock 1 11 (0, 0)); LByz (nv 1 11 2); LByz (nv 1 12 2);
    LNode 0 (NPoolBlock (1, 11) (0, 0)); LNode 0 (NPoolBlock (1, 12) (0, 0));
    LNode 0 (NVote (nv 1 12 0)); LNode 0 (NVote (nv 1 11 1));   (* 40 % for (1,11): SafeToNotar(1,11), node 0 casts notar-fallback *)
    LNode 0 (NVote (nv 1 12 2));                                 (* 60 %: notarization certificate for (1,12) *)
    LNode 0 (NVote (nf 1 11 0));                                 (* 81 %: notar-fallback certificate for (1,11) *)
    (* slot 2: (2,21) extends (1,11); node 0 timed out, then casts notar-fallback for it *)
    LNode 1 (NBlock 2 21 (1, 11)); LByz (nv 2 21 2); LNode 0 (NTimeout 2);
    LNode 0 (NPoolBlock (2, 21) (1, 11)); LNode 0 (NVote (sk 2 0)); LNode 0 (NVote (nv 2 21 1)); LNode 0 (NVote (nv 2 21 2));
    LNode 0 (NVote (nf 2 21 0));
    (* slot 3 is skipped by everybody *)
    LNode 1 (NTimeout 3); LByz (sk 3 2);
    LNode 0 (NVote (sk 3 0)); LNode 0 (NVote (sk 3 1)); LNode 0 (NVote (sk 3 2));
    (* slot 4 (next window): (4,41) extends (2,21); node 0 notarizes it on ParentReady(4, (2,21)) *)
    LNode 0 (NBlock 4 41 (2, 21)); LNode 0 (NPoolBlock (4, 41) (2, 21));
    (* node 1 learns the certificates of (2,21) and of slot 3 from the votes and notarizes (4,41) *)
    LNode 1 (NVote (nv 2 21 1)); LNode 1 (NVote (nv 2 21 2)); LNode 1 (NVote (nf 2 21 0));
    LNode 1 (NVote (sk 3 0)); LNode 1 (NVote (sk 3 1)); LNode 1 (NVote (sk 3 2));
    LNode 1 (NBlock 4 41 (2, 21));
    LNode 0 (NVote (nv 4 41 0)) ].

(* only votes really cast, blocks with their true parent and time-outs are delivered: no waiter, no standstill,
   no received certificate *)
Definition plain_label (l : label) : bool :=
  match l with
  | LByz _ => true
  | LNode _ (NVote _) | LNode _ (NBlock _ _ _) | LNode _ (NPoolBlock _ _) | LNode _ (NTimeout _) => true
  | _ => false
  end.

Lemma opt_case {A} (o : option A) (P : A -> bool) :
  match o with Some a => P a | None => false end = true -> exists a, o = Some a /\ P a = true.
Proof. destruct o as [a|]; [intros E; exists a; split; [reflexivity | exact E] | discriminate]. Qed.

Lemma px_anc : anc_eq pxW (1, 11) (4, 41).
Proof. eapply ae_step; [reflexivity|]. eapply ae_step; [reflexivity|]. apply ae_refl. Qed.

(* a notarized block off the finalized chain, at a live correct node, in a safe run; the asserting walk panics on it *)
Theorem notarized_block_off_the_finalized_chain :
  exists W ls S u,
    world_ok W /\ forallb plain_label ls = true /\ sys_exec W ls = Some S /\ correct W u = true /\
    p_panicked (nd_pool (s_node S u)) = false /\
    (* the node's tracker holds Notarized(12) for slot 1, its pool a certificate for (1,11) as well *)
    alookup 1 (ft_status (p_ft (nd_pool (s_node S u)))) = Some (FNotarized 12) /\
    node_certified (s_node S u) (1, 11) = true /\
    (* in the abstract view (4,41) is fast-finalized and (1,11) is one of its ancestors *)
    ff_cert W (s_hist S) (4, 41) = true /\ finalized W (s_hist S) (4, 41) = true /\ anc_eq W (1, 11) (4, 41) /\
    (* the walk with the assertion panics when it is told so *)
    ft_mark_fast_finalized_asserting (p_ft (nd_pool (s_node S u))) (4, 41) = None.
Proof.
  assert (Y : match sys_exec pxW px_run with
              | Some st => negb (p_panicked (nd_pool (s_node st 0)))
                           && match alookup 1 (ft_status (p_ft (nd_pool (s_node st 0)))) with Some (FNotarized 12) => true | _ => false end
                           && node_certified (s_node st 0) (1, 11)
                           && ff_cert pxW (s_hist st) (4, 41) && finalized pxW (s_hist st) (4, 41)
                           && match ft_mark_fast_finalized_asserting (p_ft (nd_pool (s_node st 0))) (4, 41) with None => true | Some _ => false end
              | None => false end = true) by (vm_compute; reflexivity).
  pose proof (opt_case (sys_exec pxW px_run)
                (fun st => negb (p_panicked (nd_pool (s_node st 0)))
                           && match alookup 1 (ft_status (p_ft (nd_pool (s_node st 0)))) with Some (FNotarized 12) => true | _ => false end
                           && node_certified (s_node st 0) (1, 11)
                           && ff_cert pxW (s_hist st) (4, 41) && finalized pxW (s_hist st) (4, 41)
                           && match ft_mark_fast_finalized_asserting (p_ft (nd_pool (s_node st 0))) (4, 41) with None => true | Some _ => false end)
                Y) as [st [E Ys]].
  exists pxW, px_run, st, 0. split; [exact pxW_ok|]. split; [vm_compute; reflexivity|]. split; [exact E|].
  split; [vm_compute; reflexivity|]. clear E Y.
  repeat (apply andb_prop in Ys; destruct Ys as [Ys ?]). apply negb_true_iff in Ys.
  split; [exact Ys|]. split; [|split; [assumption|]; split; [assumption|]; split; [assumption|]; split; [exact px_anc|]].
  - destruct (alookup 1 (ft_status (p_ft (nd_pool (s_node st 0))))) as [[h| |h|h|]|]; try discriminate.
    repeat (destruct h as [|h]; try discriminate; repeat (destruct h as [h|h|]; try discriminate)). reflexivity.
  - destruct (ft_mark_fast_finalized_asserting (p_ft (nd_pool (s_node st 0))) (4, 41)); [discriminate | reflexivity].
Qed.

(* with the repaired tracker the same node survives the delivery that finalizes (4, 41) *)
Theorem repaired_tracker_survives :
  exists S, sys_exec pxW (px_run ++ [LNode 0 (NVote (nv 4 41 1))]) = Some S /\
    waits_ok pxW (px_run ++ [LNode 0 (NVote (nv 4 41 1))]) = true /\
    p_panicked (nd_pool (s_node S 0)) = false /\ node_direct_finalized (s_node S 0) (4, 41) = true.
Proof.
  assert (Y : match sys_exec pxW (px_run ++ [LNode 0 (NVote (nv 4 41 1))]) with
              | Some st => negb (p_panicked (nd_pool (s_node st 0))) && node_direct_finalized (s_node st 0) (4, 41)
              | None => false end = true) by (vm_compute; reflexivity).
  pose proof (opt_case_ex (sys_exec pxW (px_run ++ [LNode 0 (NVote (nv 4 41 1))]))
                (fun st => negb (p_panicked (nd_pool (s_node st 0))) && node_direct_finalized (s_node st 0) (4, 41)) Y) as [st [E Ys]].
  exists st. split; [exact E|]. split; [vm_compute; reflexivity|]. clear E Y.
  apply andb_prop in Ys. destruct Ys as [Y1 Y2]. apply negb_true_iff in Y1. split; assumption.
Qed.
