(* Stake of validator sets (Model/Safety.v: wsum / stk): monotonicity, disjoint union,
   inclusion-exclusion, complement, positive stake has a member. *)
From Coq Require Import List NArith Bool Lia ZifyBool ZifyN.
From AG Require Import Gen.Params Model.Pool Model.Safety Proofs.SlotStateProofs.
Import ListNotations.
Open Scope N_scope.

Section WSum.
Context {A : Type} (w : A -> N).

Lemma wsum_ext (P Q : A -> bool) l : (forall a, In a l -> P a = Q a) -> wsum w P l = wsum w Q l.
Proof.
  induction l as [|a t IH]; intros E; cbn [wsum]; [reflexivity|].
  rewrite (E a (or_introl eq_refl)), IH; [reflexivity|]. intros b Hb. apply E. right. exact Hb.
Qed.

Lemma wsum_mono (P Q : A -> bool) l : (forall a, In a l -> P a = true -> Q a = true) -> wsum w P l <= wsum w Q l.
Proof.
  induction l as [|a t IH]; intros E; cbn [wsum]; [lia|].
  assert (I : wsum w P t <= wsum w Q t) by (apply IH; intros b Hb; apply E; right; exact Hb).
  specialize (E a (or_introl eq_refl)). destruct (P a); destruct (Q a); try lia;
  specialize (E eq_refl); discriminate.
Qed.

(* inclusion-exclusion *)
Lemma wsum_or_and (P Q : A -> bool) l :
  wsum w (fun a => P a || Q a) l + wsum w (fun a => P a && Q a) l = wsum w P l + wsum w Q l.
Proof.
  induction l as [|a t IH]; cbn [wsum]; [reflexivity|].
  destruct (P a); destruct (Q a); cbn [orb andb]; lia.
Qed.

Lemma wsum_false (P : A -> bool) l : (forall a, In a l -> P a = false) -> wsum w P l = 0.
Proof.
  induction l as [|a t IH]; intros E; cbn [wsum]; [reflexivity|].
  rewrite (E a (or_introl eq_refl)), IH; [reflexivity|]. intros b Hb. apply E. right. exact Hb.
Qed.

Lemma wsum_disjoint (P Q : A -> bool) l : (forall a, In a l -> P a = true -> Q a = false) ->
  wsum w (fun a => P a || Q a) l = wsum w P l + wsum w Q l.
Proof.
  intros D. pose proof (wsum_or_and P Q l) as E.
  rewrite (wsum_false (fun a => P a && Q a) l) in E; [lia|].
  intros a Ha. specialize (D a Ha). destruct (P a); [rewrite D by reflexivity|]; reflexivity.
Qed.

Lemma wsum_compl (P : A -> bool) l : wsum w P l + wsum w (fun a => negb (P a)) l = wsum w (fun _ => true) l.
Proof. induction l as [|a t IH]; cbn [wsum]; [reflexivity|]. destruct (P a); cbn [negb]; lia. Qed.

Lemma wsum_le_all (P : A -> bool) l : wsum w P l <= wsum w (fun _ => true) l.
Proof. apply wsum_mono. reflexivity. Qed.

(* two disjoint sets together weigh at most everything *)
Lemma wsum_disjoint_le (P Q : A -> bool) l : (forall a, In a l -> P a = true -> Q a = false) ->
  wsum w P l + wsum w Q l <= wsum w (fun _ => true) l.
Proof. intros D. rewrite <- (wsum_disjoint P Q l D). apply wsum_le_all. Qed.

(* a set weighs at most its part outside Q plus Q *)
Lemma wsum_split (P Q : A -> bool) l : wsum w P l <= wsum w (fun a => P a && negb (Q a)) l + wsum w Q l.
Proof.
  induction l as [|a t IH]; cbn [wsum]; [lia|]. destruct (P a); destruct (Q a); cbn [andb negb]; lia.
Qed.

Lemma wsum_pos_ex (P : A -> bool) l : 0 < wsum w P l -> exists a, In a l /\ P a = true.
Proof.
  induction l as [|a t IH]; cbn [wsum]; [lia|]. intros Hp.
  destruct (P a) eqn:E.
  - exists a. split; [left; reflexivity | exact E].
  - destruct IH as [b [Hb Pb]]; [lia|]. exists b. split; [right; exact Hb | exact Pb].
Qed.

Lemma wsum_filter (P : A -> bool) l : wsum w P l = sumN (map w (filter P l)).
Proof.
  induction l as [|a t IH]; cbn [wsum filter]; [reflexivity|].
  destruct (P a); cbn [map sumN fold_right]; fold (sumN (map w (filter P t))); rewrite IH; lia.
Qed.
End WSum.

(* ---------- stake of validator sets of a world ---------- *)
Lemma map_nth_seq (l pre : list N) :
  map (fun i => nth i (pre ++ l) 0) (seq (length pre) (length l)) = l.
Proof.
  revert pre. induction l as [|a t IH]; intros pre; cbn [length seq map]; [reflexivity|].
  f_equal.
  - rewrite app_nth2 by lia. rewrite PeanoNat.Nat.sub_diag. reflexivity.
  - specialize (IH (pre ++ [a])). rewrite <- app_assoc in IH. cbn [app] in IH.
    rewrite app_length in IH. cbn [length] in IH. rewrite PeanoNat.Nat.add_1_r in IH. exact IH.
Qed.

Lemma stk_all (W : world) : stk W (fun _ => true) = wtotal W.
Proof.
  unfold stk, wtotal, total_stake, vals, seqN, stake_of. cbn [stakes wep].
  rewrite wsum_filter.
  assert (F : forall (l : list N), filter (fun _ : N => true) l = l).
  { induction l as [|a t IH]; cbn [filter]; [reflexivity | rewrite IH; reflexivity]. }
  rewrite F, map_map. f_equal.
  transitivity (map (fun i => nth i ([] ++ w_stakes W) 0) (seq (length (@nil N)) (length (w_stakes W)))).
  - cbn [length app]. apply map_ext. intros i. cbn [N.add]. rewrite Nnat.Nat2N.id. reflexivity.
  - apply map_nth_seq.
Qed.

Lemma stk_le_total W P : stk W P <= wtotal W.
Proof. rewrite <- stk_all. apply wsum_le_all. Qed.

Lemma stk_mono W (P Q : vidx -> bool) : (forall u, P u = true -> Q u = true) -> stk W P <= stk W Q.
Proof. intros E. apply wsum_mono. intros a _. apply E. Qed.

Lemma stk_ext W (P Q : vidx -> bool) : (forall u, P u = Q u) -> stk W P = stk W Q.
Proof. intros E. apply wsum_ext. intros a _. apply E. Qed.

Lemma stk_disjoint_le W (P Q : vidx -> bool) : (forall u, P u = true -> Q u = false) -> stk W P + stk W Q <= wtotal W.
Proof. intros D. rewrite <- stk_all. apply wsum_disjoint_le. intros a _. apply D. Qed.

Lemma stk_incl_excl W (P Q : vidx -> bool) : stk W P + stk W Q <= wtotal W + stk W (fun u => P u && Q u).
Proof.
  pose proof (wsum_or_and (stake_of (wep W)) P Q (vals (wep W))) as E.
  pose proof (stk_le_total W (fun u => P u || Q u)) as L. unfold stk in *. lia.
Qed.

(* a set is its correct part plus at most the Byzantine stake *)
Lemma stk_correct_part W (P : vidx -> bool) : stk W P <= stk W (fun u => P u && correct W u) + stk W (byz W).
Proof. apply (wsum_split (stake_of (wep W)) P (byz W)). Qed.

Lemma stk_pos_ex W (P : vidx -> bool) : 0 < stk W P -> exists u, P u = true.
Proof. intros H. destruct (wsum_pos_ex _ _ _ H) as [u [_ Pu]]. exists u. exact Pu. Qed.

(* the link to the pool model's stake_sum over voter lists *)
Lemma stk_filter W P : stk W P = stake_sum (wep W) (filter P (vals (wep W))).
Proof. unfold stk, stake_sum. apply wsum_filter. Qed.

(* ---------- thresholds as integer inequalities ---------- *)
Lemma weakest_iff e x : is_weakest_quorum e x = true <-> total_stake e <= 5 * x.
Proof. unfold is_weakest_quorum, is_met, WEAKEST_QUORUM_NUM, WEAKEST_QUORUM_DEN. lia. Qed.
Lemma weak_iff e x : is_weak_quorum e x = true <-> 2 * total_stake e <= 5 * x.
Proof. unfold is_weak_quorum, is_met, WEAK_QUORUM_NUM, WEAK_QUORUM_DEN. lia. Qed.
Lemma quorum_iff e x : is_quorum e x = true <-> 3 * total_stake e <= 5 * x.
Proof. unfold is_quorum, is_met, QUORUM_NUM, QUORUM_DEN. lia. Qed.
Lemma strong_iff e x : is_strong_quorum e x = true <-> 4 * total_stake e <= 5 * x.
Proof. unfold is_strong_quorum, is_met, STRONG_QUORUM_NUM, STRONG_QUORUM_DEN. lia. Qed.
Lemma weakest_false_iff e x : is_weakest_quorum e x = false <-> 5 * x < total_stake e.
Proof. unfold is_weakest_quorum, is_met, WEAKEST_QUORUM_NUM, WEAKEST_QUORUM_DEN. lia. Qed.
Lemma quorum_false_iff e x : is_quorum e x = false <-> 5 * x < 3 * total_stake e.
Proof. unfold is_quorum, is_met, QUORUM_NUM, QUORUM_DEN. lia. Qed.

Lemma wsum_split_eq {A} (w : A -> N) (P Q : A -> bool) l :
  wsum w P l = wsum w (fun a => P a && Q a) l + wsum w (fun a => P a && negb (Q a)) l.
Proof. induction l as [|a t IH]; cbn [wsum]; [reflexivity|]. destruct (P a); destruct (Q a); cbn [andb negb]; lia. Qed.

(* the pool model's stake sums over an epoch with the same stake vector *)
Lemma stake_sum_stk W e P : stakes e = w_stakes W -> stake_sum e (filter P (vals e)) = stk W P.
Proof.
  intros E. rewrite stk_filter. unfold stake_sum, vals, stake_of, wep. cbn [stakes]. rewrite E. reflexivity.
Qed.
Lemma total_stake_w W e : stakes e = w_stakes W -> total_stake e = wtotal W.
Proof. intros E. unfold wtotal, total_stake, wep. cbn [stakes]. rewrite E. reflexivity. Qed.
