(* C10: the blockstore model (Model/Blockstore.v) never reaches its two [expect]s
     "all slices are present, including the first" / "first slice contains a parent"
   from the network, i.e. for ANY sequence of shreds offered through dissemination or repair. *)
From Coq Require Import List NArith Bool Lia ZifyBool ZifyN ZifyNat.
From AG Require Import Gen.Params Model.Pool Model.Blockstore Proofs.SlotStateProofs Proofs.BlockstoreProofs.
Import ListNotations.
Open Scope N_scope.

(* ---------- association-list facts ---------- *)
Lemma alookup_in {V} k (v : V) m : alookup k m = Some v -> In (k, v) m.
Proof.
  induction m as [|[k' v'] m IH]; cbn [alookup]; [discriminate|].
  destruct (k =? k') eqn:E; [intros H; injection H as <-; apply N.eqb_eq in E; subst; left; reflexivity|].
  intros H. right. apply IH, H.
Qed.
Lemma alookup_none_notin {V} k (m : list (N * V)) : alookup k m = None -> ~ In k (map fst m).
Proof.
  induction m as [|[k' v'] m IH]; cbn [alookup map fst]; [intros _ []|].
  destruct (k =? k') eqn:E; [discriminate|]. intros H [Hk|Hk]; [apply N.eqb_neq in E; congruence|exact (IH H Hk)].
Qed.
Lemma in_keys_alookup {V} k (m : list (N * V)) : In k (map fst m) -> exists v, alookup k m = Some v.
Proof.
  induction m as [|[k' v'] m IH]; cbn [alookup map fst]; [intros []|].
  destruct (k =? k') eqn:E; [eauto|]. intros [Hk|Hk]; [apply N.eqb_neq in E; congruence|exact (IH Hk)].
Qed.
Lemma ainsert_in {V} k (v : V) m kv : In kv (ainsert k v m) -> kv = (k, v) \/ In kv m.
Proof.
  induction m as [|[k' v'] m IH]; cbn [ainsert]; [intros [H|[]]; left; symmetry; exact H|].
  destruct (k =? k'); intros [H|H].
  - left; symmetry; exact H.
  - right; right; exact H.
  - right; left; exact H.
  - destruct (IH H) as [H'|H']; [left; exact H'|right; right; exact H'].
Qed.
Lemma ainsert_keys_new {V} k (v : V) m : alookup k m = None -> map fst (ainsert k v m) = map fst m ++ [k].
Proof.
  induction m as [|[k' v'] m IH]; cbn [ainsert alookup map fst app]; [reflexivity|].
  destruct (k =? k'); [discriminate|]. intros H. cbn [map fst]. rewrite IH by exact H. reflexivity.
Qed.
Lemma nodup_filter_keys {V} (f : N * V -> bool) m : NoDup (map fst m) -> NoDup (map fst (filter f m)).
Proof.
  induction m as [|[k v] m IH]; cbn [filter map fst]; [intros _; constructor|].
  intros H. inversion H as [|? ? Hn Hr]; subst. destruct (f (k, v)); cbn [map fst].
  - constructor; [|apply IH, Hr]. intros Hin. apply Hn. apply in_map_iff in Hin. destruct Hin as [[k2 v2] [E Hin]].
    cbn in E. subst k2. apply filter_In in Hin. apply in_map_iff. exists (k, v2). split; [reflexivity|apply Hin].
  - apply IH, Hr.
Qed.
Lemma filter_keys_incl {V} (f : N * V -> bool) m k : In k (map fst (filter f m)) -> In k (map fst m).
Proof.
  intros H. apply in_map_iff in H. destruct H as [kv [E Hin]]. apply filter_In in Hin. apply in_map_iff. exists kv. tauto.
Qed.

Lemma nodup_snoc (l : list N) k : NoDup l -> ~ In k l -> NoDup (l ++ [k]).
Proof.
  induction l as [|x l IH]; cbn [app]; intros Hnd Hn; [constructor; [intros []|constructor]|].
  inversion Hnd as [|? ? Hx Hl]; subst. constructor.
  - intros Hin. apply in_app_or in Hin. destruct Hin as [Hin|[E|[]]]; [exact (Hx Hin)|apply Hn; left; symmetry; exact E].
  - apply IH; [exact Hl|]. intros Hin. apply Hn. right. exact Hin.
Qed.

(* pigeonhole: distinct keys, all at most [last], [last + 1] of them => every index up to [last] is a key *)
Lemma seqN_length lo n : length (seqN lo n) = n.
Proof. unfold seqN. rewrite map_length, seq_length. reflexivity. Qed.
Lemma seqN_in lo n x : In x (seqN lo n) <-> lo <= x < lo + N.of_nat n.
Proof.
  unfold seqN. rewrite in_map_iff. split.
  - intros [i [E Hi]]. apply in_seq in Hi. lia.
  - intros H. exists (N.to_nat (x - lo)). split; [lia|]. apply in_seq. lia.
Qed.
Lemma keys_cover : forall (keys : list N) last,
  NoDup keys -> (forall k, In k keys -> k <= last) -> N.of_nat (length keys) = last + 1 ->
  forall k, k <= last -> In k keys.
Proof.
  intros keys last Hnd Hle Hlen k Hk.
  assert (Hincl : incl keys (seqN 0 (N.to_nat (last + 1)))).
  { intros x Hx. apply seqN_in. specialize (Hle x Hx). lia. }
  assert (Hl : (length (seqN 0 (N.to_nat (last + 1))) <= length keys)%nat) by (rewrite seqN_length; lia).
  pose proof (NoDup_length_incl Hnd Hl Hincl) as Hrev.
  apply Hrev. apply seqN_in. lia.
Qed.

(* ---------- the invariant of one block's data ---------- *)
Definition inv_bd (d : bdata) : Prop :=
  NoDup (map fst (bd_slices d)) /\
  (forall r, In (0, r) (bd_slices d) -> rs_parent r <> None) /\
  (forall l, bd_last d = Some l -> forall k, In k (map fst (bd_slices d)) -> k <= l).

Lemma inv_bd_empty : inv_bd bd_empty.
Proof. repeat split; cbn; [constructor|intros r []|intros l H; discriminate]. Qed.

(* only the slices and the last marker matter *)
Lemma inv_bd_ext d d' : bd_slices d' = bd_slices d -> bd_last d' = bd_last d -> inv_bd d -> inv_bd d'.
Proof. intros E1 E2 [A [B C]]. unfold inv_bd. rewrite E1, E2. auto. Qed.

Lemma inv_mark_last d idx : inv_bd d -> inv_bd (mark_last_slice d idx).
Proof.
  intros [A [B C]]. unfold inv_bd, mark_last_slice. cbn [bd_slices bd_last]. repeat split.
  - apply nodup_filter_keys, A.
  - intros r Hin. apply filter_In in Hin. apply B, Hin.
  - intros l E k Hin. injection E as <-. apply in_map_iff in Hin. destruct Hin as [[k2 v2] [E2 Hin]].
    cbn in E2. subst k2. apply filter_In in Hin. destruct Hin as [_ Hf]. cbn [fst] in Hf. lia.
Qed.

(* try_reconstruct_block: no panic under the invariant, and the invariant is kept *)
Lemma rec_block_no_panic chk slot d : inv_bd d ->
  snd (try_reconstruct_block chk slot d) <> RBPanic /\ inv_bd (fst (try_reconstruct_block chk slot d)).
Proof.
  intros Inv. destruct Inv as [A [B C]]. unfold try_reconstruct_block.
  destruct (bd_completed d); [cbn; split; [discriminate|repeat split; assumption]|].
  destruct (bd_last d) as [last|] eqn:El; [|cbn; split; [discriminate|unfold inv_bd; rewrite El; repeat split; assumption]].
  destruct (N.of_nat (length (bd_slices d)) =? last + 1) eqn:En; cbn [negb];
    [|cbn; split; [discriminate|unfold inv_bd; rewrite El; repeat split; assumption]].
  apply N.eqb_eq in En.
  assert (H0 : In 0 (map fst (bd_slices d))).
  { apply (keys_cover (map fst (bd_slices d)) last A (C last eq_refl)); [rewrite map_length; exact En|lia]. }
  destruct (in_keys_alookup _ _ H0) as [first Hf]. rewrite Hf.
  pose proof (B first (alookup_in _ _ _ Hf)) as Hp.
  destruct (rs_parent first) as [p0|]; [|congruence].
  destruct (walk_slices (slices_sorted (bd_slices d)) p0 false) as [parent|];
    [|cbn; split; [discriminate|unfold inv_bd; rewrite El; repeat split; assumption]].
  destruct (chk && negb (fst parent <? slot));
    [cbn; split; [discriminate|unfold inv_bd; rewrite El; repeat split; assumption]|].
  cbn [fst snd]. split; [discriminate|]. unfold inv_bd. cbn [bd_slices bd_last]. repeat split.
  - apply nodup_filter_keys, A.
  - intros r Hin. apply filter_In in Hin. apply B, Hin.
  - intros l E k Hin. injection E as <-. apply (C last eq_refl). eapply filter_keys_incl, Hin.
Qed.

(* try_reconstruct_slice keeps the invariant provided the slice index respects a known last marker *)
Lemma rec_slice_inv ct d idx : inv_bd d -> (forall l, bd_last d = Some l -> idx <= l) ->
  inv_bd (fst (try_reconstruct_slice ct d idx)) /\ bd_last (fst (try_reconstruct_slice ct d idx)) = bd_last d.
Proof.
  intros Inv Hidx. unfold try_reconstruct_slice.
  destruct (bd_completed d); [cbn; auto|].
  destruct (alookup idx (bd_slices d)) eqn:El; [cbn; auto|].
  destruct (deshred ct (aget [] idx (bd_shreds d))) as [| | |r]; try (cbn; auto; fail).
  assert (Hd1 : inv_bd (bd_set_shreds d (ainsert idx (fill_missing (aget [] idx (bd_shreds d))) (bd_shreds d))))
    by (eapply inv_bd_ext; [| |exact Inv]; reflexivity).
  set (d1 := bd_set_shreds d (ainsert idx (fill_missing (aget [] idx (bd_shreds d))) (bd_shreds d))) in *.
  assert (Hins : (idx = 0 -> rs_parent r <> None) ->
                 inv_bd (mkBD (bd_completed d1) (bd_shreds d1) (ainsert idx r (bd_slices d1)) (bd_last d1) (bd_cache d1))).
  { intros Hpar. destruct Inv as [A [B C]]. unfold inv_bd. cbn [bd_slices bd_last]. unfold d1. cbn [bd_set_shreds bd_slices bd_last].
    repeat split.
    - rewrite ainsert_keys_new by exact El. apply nodup_snoc; [exact A|exact (alookup_none_notin _ _ El)].
    - intros r' Hin. apply ainsert_in in Hin. destruct Hin as [E|Hin]; [injection E as E1 E2; subst; apply Hpar; reflexivity|apply B, Hin].
    - intros l E k Hin. rewrite ainsert_keys_new in Hin by exact El. apply in_app_or in Hin.
      destruct Hin as [Hin|[<-|[]]]; [apply (C l E k Hin)|apply Hidx, E]. }
  destruct (rs_parent r) eqn:Ep.
  - cbn [fst]. split; [apply Hins; intros _; discriminate|reflexivity].
  - destruct (idx =? 0) eqn:E0; cbn [fst].
    + split; [exact Hd1|reflexivity].
    + split; [apply Hins; intros ->; discriminate|reflexivity].
Qed.

(* ---------- BlockData::add_shred: never APanic, invariant kept ---------- *)
Theorem add_shred_no_panic : forall chk ct slot d s, inv_bd d ->
  snd (bd_add_shred chk ct slot d s) <> APanic /\ inv_bd (fst (bd_add_shred chk ct slot d s)).
Proof.
  intros chk ct slot d s Inv. unfold bd_add_shred. cbv zeta.
  set (idx := b_slice s).
  (* commitment cache step *)
  assert (Hc : forall d1, match alookup idx (bd_cache d) with
                          | Some c => if commit_eqb c (commitment_of s) then Some d else None
                          | None => Some (mkBD (bd_completed d) (bd_shreds d) (bd_slices d) (bd_last d) (ainsert idx (commitment_of s) (bd_cache d)))
                          end = Some d1 -> inv_bd d1).
  { intros d1 E. destruct (alookup idx (bd_cache d)).
    - destruct (commit_eqb _ _); inversion E; subst; exact Inv.
    - inversion E; subst. eapply inv_bd_ext; [| |exact Inv]; reflexivity. }
  destruct (match alookup idx (bd_cache d) with
            | Some c => if commit_eqb c (commitment_of s) then Some d else None
            | None => Some (mkBD (bd_completed d) (bd_shreds d) (bd_slices d) (bd_last d) (ainsert idx (commitment_of s) (bd_cache d)))
            end) as [d1|]; [|cbn; split; [discriminate|exact Inv]].
  specialize (Hc d1 eq_refl). clear Inv.
  (* last-slice step *)
  assert (Hl : forall d2, match bd_last d1 with
                          | None => if b_last s then if existsb (fun x => idx <? fst x) (bd_shreds d1) then None else Some (mark_last_slice d1 idx) else Some d1
                          | Some l => if ((idx <? l) && negb (b_last s)) || ((idx =? l) && b_last s) then Some d1 else None
                          end = Some d2 -> inv_bd d2 /\ (forall l, bd_last d2 = Some l -> idx <= l)).
  { intros d2 E. destruct (bd_last d1) as [l|] eqn:El.
    - destruct (((idx <? l) && negb (b_last s)) || ((idx =? l) && b_last s)) eqn:Ec; inversion E; subst.
      split; [exact Hc|]. intros l' El'. rewrite El in El'. injection El' as <-. lia.
    - destruct (b_last s).
      + destruct (existsb _ _); inversion E; subst. split; [apply inv_mark_last, Hc|].
        intros l' El'. cbn in El'. injection El' as <-. lia.
      + inversion E; subst. split; [exact Hc|]. intros l' El'. congruence. }
  destruct (match bd_last d1 with
            | None => if b_last s then if existsb (fun x => idx <? fst x) (bd_shreds d1) then None else Some (mark_last_slice d1 idx) else Some d1
            | Some l => if ((idx <? l) && negb (b_last s)) || ((idx =? l) && b_last s) then Some d1 else None
            end) as [d2|]; [|cbn; split; [discriminate|exact Hc]].
  destruct (Hl d2 eq_refl) as [Inv2 Hidx]. clear Hl Hc.
  destruct (alookup (b_index s) (aget [] idx (bd_shreds d2))).
  { cbn [fst snd]. split; [discriminate|]. destruct (alookup idx (bd_shreds d2)); [exact Inv2|].
    eapply inv_bd_ext; [| |exact Inv2]; reflexivity. }
  set (d3 := bd_set_shreds d2 (ainsert idx (aget [] idx (bd_shreds d2) ++ [(b_index s, s)]) (bd_shreds d2))).
  assert (Inv3 : inv_bd d3) by (eapply inv_bd_ext; [| |exact Inv2]; reflexivity).
  assert (Hidx3 : forall l, bd_last d3 = Some l -> idx <= l) by exact Hidx.
  fold d3.
  destruct (match bd_shreds d2 with [] => true | _ :: _ => false end); [cbn [fst snd]; split; [discriminate|exact Inv3]|].
  destruct (rec_slice_inv ct d3 idx Inv3 Hidx3) as [Inv4 _].
  destruct (try_reconstruct_slice ct d3 idx) as [d4 r] eqn:Er. cbn [fst] in Inv4.
  destruct r; try (cbn [fst snd]; split; [discriminate|exact Inv4]).
  destruct (rec_block_no_panic chk slot d4 Inv4) as [Hnp Inv5].
  destruct (try_reconstruct_block chk slot d4) as [d5 rb]. cbn [fst snd] in *.
  destruct rb; cbn [fst snd]; (split; [try discriminate; congruence|exact Inv5]).
Qed.

(* ---------- one slot of the blockstore ---------- *)
Definition inv_sd (sd : slotdata) : Prop :=
  inv_bd (sd_dissem sd) /\ (forall key d, In (key, d) (sd_repaired sd) -> inv_bd d).
Lemma inv_sd_empty : inv_sd sd_empty.
Proof. split; [apply inv_bd_empty|intros key d []]. Qed.

(* shreds from the network: dissemination and repair (the leader's own fast path is a local call) *)
Definition net_op (op : bs_op) : bool := match op with BOwnSlice _ _ _ _ => false | _ => true end.

Lemma flag_inv sd : inv_sd sd -> inv_sd (fst (flag_misbehaviour sd)) /\ sd_panicked (fst (flag_misbehaviour sd)) = sd_panicked sd.
Proof. intros H. unfold flag_misbehaviour. destruct (sd_misbehaved sd); cbn; auto. Qed.

Ltac flag_tac Hsd Hp :=
  match goal with |- context [flag_misbehaviour ?x] =>
    let If := fresh "If" in let Pf := fresh "Pf" in
    destruct (flag_inv x (Hsd _ _)) as [If Pf]; destruct (flag_misbehaviour x) as [?sd2 ?evs]; cbn [fst snd] in *;
    split; [exact If|split; [rewrite Pf; first [reflexivity|exact Hp]|discriminate]]
  end.

Theorem bs_step_network_no_panic : forall chk ct slot sd op,
  inv_sd sd -> sd_panicked sd = false -> net_op op = true ->
  inv_sd (fst (fst (bs_step chk ct slot sd op))) /\
  sd_panicked (fst (fst (bs_step chk ct slot sd op))) = false /\
  snd (fst (bs_step chk ct slot sd op)) <> BRPanic.
Proof.
  intros chk ct slot sd op [Id Ir] Hp Hn.
  (* a shred refused by the tag guard changes nothing *)
  destruct (bs_step_cases chk ct slot sd op) as [->|[_ [_ ->]]];
    [|cbn [fst snd]; split; [split; [exact Id|exact Ir]|split; [exact Hp|discriminate]]].
  unfold bs_step_gen. rewrite Hp. cbn [andb].
  destruct op as [s|key expected s|idx last root size]; [| |discriminate].
  - destruct (sd_misbehaved sd) eqn:Em; [cbn; split; [split; [exact Id|exact Ir]|split; [exact Hp|discriminate]]|].
    destruct (add_shred_no_panic chk ct slot (sd_dissem sd) s Id) as [Hnp Inv'].
    destruct (bd_add_shred chk ct slot (sd_dissem sd) s) as [d r]. cbn [fst snd] in *.
    assert (Isd1 : forall mis pan, inv_sd (mkSD d (sd_repaired sd) mis pan)) by (intros; split; [exact Inv'|exact Ir]).
    destruct r as [e|e|]; [| |congruence].
    + cbn [fst snd]. split; [apply Isd1|split; [reflexivity|destruct e as [[| |]|]; discriminate]].
    + destruct e.
      * cbn [fst snd]. split; [apply Isd1|split; [reflexivity|discriminate]].
      * flag_tac Isd1 Hp.
      * flag_tac Isd1 Hp.
  - assert (I0 : inv_bd (aget bd_empty key (sd_repaired sd))).
    { unfold aget. destruct (alookup key (sd_repaired sd)) eqn:E; [apply (Ir key), alookup_in, E|apply inv_bd_empty]. }
    destruct (add_shred_no_panic chk ct slot _ s I0) as [Hnp Inv'].
    destruct (bd_add_shred chk ct slot (aget bd_empty key (sd_repaired sd)) s) as [d r]. cbn [fst snd] in *.
    assert (Ifil : forall mis pan, inv_sd (mkSD (sd_dissem sd) (filter (fun kv => negb (fst kv =? key)) (sd_repaired sd)) mis pan)).
    { intros mis pan. split; [exact Id|]. intros k d0 Hin. apply filter_In in Hin. apply (Ir k d0), Hin. }
    assert (Iins : forall mis pan, inv_sd (mkSD (sd_dissem sd) (ainsert key d (sd_repaired sd)) mis pan)).
    { intros mis pan. split; [exact Id|]. intros k d0 Hin. apply ainsert_in in Hin.
      destruct Hin as [E|Hin]; [injection E as -> ->; exact Inv'|apply (Ir k d0), Hin]. }
    destruct (match r with AOk (Some (BBlock h _)) => negb (listN_eqb h expected) | _ => false end).
    + (* a repaired block that misses the requested hash is dropped, nobody is blamed *)
      cbn [fst snd]. split; [apply Ifil|]. split; [reflexivity|discriminate].
    + destruct r as [e|e|]; [| |congruence].
      * cbn [fst snd]. split; [apply Iins|]. split; [reflexivity|destruct e as [[| |]|]; discriminate].
      * destruct e.
        -- cbn [fst snd]. split; [apply Iins|]. split; [reflexivity|discriminate].
        -- flag_tac Iins Hp.
        -- flag_tac Iins Hp.
Qed.

(* ---------- all sequences of network shreds from the empty slot ---------- *)
Fixpoint bs_run (chk : bool) (ct : content) (slot : N) (sd : slotdata) (ops : list bs_op) : slotdata * list bs_ret :=
  match ops with
  | [] => (sd, [])
  | op :: rest =>
    let '(sd1, ret, _) := bs_step chk ct slot sd op in
    let '(sd2, rets) := bs_run chk ct slot sd1 rest in (sd2, ret :: rets)
  end.

Theorem bs_run_network_no_panic_gen : forall chk ct slot ops sd,
  inv_sd sd -> sd_panicked sd = false -> forallb net_op ops = true ->
  inv_sd (fst (bs_run chk ct slot sd ops)) /\ sd_panicked (fst (bs_run chk ct slot sd ops)) = false /\
  Forall (fun r => r <> BRPanic) (snd (bs_run chk ct slot sd ops)).
Proof.
  intros chk ct slot ops. induction ops as [|op rest IH]; intros sd Inv Hp Hn; cbn [bs_run].
  - cbn. auto.
  - cbn [forallb] in Hn. apply andb_true_iff in Hn. destruct Hn as [Hn1 Hn2].
    destruct (bs_step_network_no_panic chk ct slot sd op Inv Hp Hn1) as [I1 [P1 R1]].
    destruct (bs_step chk ct slot sd op) as [[sd1 ret] evs]. cbn [fst snd] in *.
    destruct (IH sd1 I1 P1 Hn2) as [I2 [P2 R2]].
    destruct (bs_run chk ct slot sd1 rest) as [sd2 rets]. cbn [fst snd] in *.
    split; [exact I2|split; [exact P2|constructor; assumption]].
Qed.

Theorem bs_run_network_no_panic : forall chk ct slot ops,
  forallb net_op ops = true ->
  sd_panicked (fst (bs_run chk ct slot sd_empty ops)) = false /\
  Forall (fun r => r <> BRPanic) (snd (bs_run chk ct slot sd_empty ops)).
Proof.
  intros chk ct slot ops H.
  destruct (bs_run_network_no_panic_gen chk ct slot ops sd_empty inv_sd_empty eq_refl H) as [_ [A B]]. auto.
Qed.

(* ---------- what reaches Pool::add_block: the parent always lies in an earlier slot ---------- *)
Lemma rec_block_parent_earlier slot d d' h p : try_reconstruct_block true slot d = (d', RBComplete h p) -> fst p < slot.
Proof. intros H. apply reconstructed_block_spec in H. destruct H as [_ [l [f [p0 H]]]]. tauto. Qed.

Lemma add_shred_block_parent_earlier ct slot d s d' h p :
  bd_add_shred true ct slot d s = (d', AOk (Some (BBlock h p))) -> fst p < slot.
Proof.
  unfold bd_add_shred. intros H.
  destruct (match alookup (b_slice s) (bd_cache d) with Some c => _ | None => _ end) as [d1|]; [|discriminate].
  destruct (match bd_last d1 with Some l => _ | None => _ end) as [d2|]; [|discriminate].
  destruct (alookup (b_index s) (aget [] (b_slice s) (bd_shreds d2))); [discriminate|].
  destruct (bd_shreds d2); [discriminate|].
  destruct (try_reconstruct_slice ct _ (b_slice s)) as [d4 r]. destruct r; try discriminate.
  destruct (try_reconstruct_block true slot d4) as [d5 rb] eqn:Eb. destruct rb; try discriminate.
  injection H as _ <- <-. eapply rec_block_parent_earlier, Eb.
Qed.

Theorem bs_step_block_parent_earlier : forall ct slot sd op sd' h p evs,
  net_op op = true -> bs_step true ct slot sd op = (sd', BROk (Some (h, p)), evs) -> fst p < slot.
Proof.
  intros ct slot sd op sd' h p evs Hn H.
  destruct (bs_step_cases true ct slot sd op) as [E|[_ [_ E]]]; rewrite E in H; [|discriminate].
  unfold bs_step_gen in H. destruct (sd_panicked sd); [discriminate|]. cbn [andb] in H.
  destruct op as [s|key expected s|]; [| |discriminate].
  - destruct (sd_misbehaved sd); [discriminate|].
    destruct (bd_add_shred true ct slot (sd_dissem sd) s) as [d r] eqn:Ea. destruct r as [e|e|]; [| |discriminate].
    + destruct e as [[| |]|]; cbn in H; try discriminate. injection H as _ <- <- _. eapply add_shred_block_parent_earlier, Ea.
    + destruct e; try discriminate; destruct (flag_misbehaviour _); discriminate.
  - destruct (bd_add_shred true ct slot (aget bd_empty key (sd_repaired sd)) s) as [d r] eqn:Ea.
    destruct (match r with AOk (Some (BBlock h0 _)) => negb (listN_eqb h0 expected) | _ => false end);
      [discriminate|].
    destruct r as [e|e|]; [| |discriminate].
    + destruct e as [[| |]|]; cbn in H; try discriminate. injection H as _ <- <- _. eapply add_shred_block_parent_earlier, Ea.
    + destruct e; try discriminate; destruct (flag_misbehaviour _); discriminate.
Qed.

(* ---------- the pinned tree (no parent-slot check) handed such blocks to the pool ---------- *)
Theorem pinned_block_with_future_parent_refuted :
  exists ct slot ops h p, forallb net_op ops = true /\
    In (BROk (Some (h, p))) (snd (bs_run false ct slot sd_empty ops)) /\ slot <= fst p.
Proof.
  exists [(1, DecOk (Some (9, 3)) true)], 5,
         (map (fun i => BDissem (mkBS 0 true 1 i (i <? DATA_SHREDS) 64)) (seqN 0 32)), [1], (9, 3).
  vm_compute. split; [reflexivity|]. split; [|discriminate].
  repeat (first [left; reflexivity | right]).
Qed.
