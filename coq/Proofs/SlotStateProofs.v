(* Proofs about the per-slot vote state (Model/Pool.v, SlotState part): vote admission (C04),
   frame properties, and the link between running stake totals and stored votes (C03/C04). *)
From Coq Require Import List NArith Bool Lia ZifyBool ZifyNat ZifyN FinFun.
From AG Require Import Gen.Params Model.Pool Model.PoolSpec.
Import ListNotations.
Open Scope N_scope.

(* ---------- association lists ---------- *)
Lemma alookup_ainsert_same {V} k (v : V) m : alookup k (ainsert k v m) = Some v.
Proof.
  induction m as [|[k' v'] m IH]; cbn [ainsert alookup].
  - rewrite N.eqb_refl. reflexivity.
  - destruct (k =? k') eqn:E; cbn [alookup]; [rewrite N.eqb_refl; reflexivity|].
    rewrite E. exact IH.
Qed.
Lemma alookup_ainsert_other {V} k k' (v : V) m : k <> k' -> alookup k (ainsert k' v m) = alookup k m.
Proof.
  intros Hne. induction m as [|[k2 v2] m IH]; cbn [ainsert alookup].
  - destruct (k =? k') eqn:E; [apply N.eqb_eq in E; congruence | reflexivity].
  - destruct (k' =? k2) eqn:E2; cbn [alookup].
    + apply N.eqb_eq in E2. subst k2. destruct (k =? k') eqn:E; [apply N.eqb_eq in E; congruence | reflexivity].
    + destruct (k =? k2); [reflexivity | exact IH].
Qed.
Lemma memN_true x l : memN x l = true <-> In x l.
Proof.
  unfold memN. rewrite existsb_exists. split.
  - intros [y [Hy E]]. apply N.eqb_eq in E. subst. exact Hy.
  - intros H. exists x. split; [exact H | apply N.eqb_refl].
Qed.

(* ---------- C04: conflicts are flagged, whichever vote is stored first ---------- *)
Lemma any_nf_of_has ss v h : has_nf_vote ss v h = true -> any_nf_vote ss v = true.
Proof.
  unfold has_nf_vote, any_nf_vote. rewrite !existsb_exists. intros [x [Hx E]].
  exists x. split; [exact Hx|]. apply andb_prop in E. tauto.
Qed.
Lemma has_of_any_nf ss v : any_nf_vote ss v = true -> exists h, has_nf_vote ss v h = true.
Proof.
  unfold has_nf_vote, any_nf_vote. rewrite existsb_exists. intros [[v' h] [Hx E]]. cbn in E.
  exists h. rewrite existsb_exists. exists (v', h). split; [exact Hx|]. cbn. rewrite E, N.eqb_refl. reflexivity.
Qed.

Theorem conflict_flagged : forall ss s v k k' o,
  stored ss v k -> conflicts k k' = Some o ->
  exists o', check_slashable ss (mkVote s k' v) = Some o'.
Proof.
  intros ss s v k k' o Hs Hc. unfold check_slashable. cbn [v_signer v_kind].
  destruct k as [h|h| | |]; destruct k' as [h'|h'| | |]; cbn in Hc; try discriminate; cbn in Hs.
  - destruct (h =? h') eqn:E; [discriminate|].
    destruct (memN v (vo_skip (ss_v ss))); [eauto|]. rewrite Hs.
    rewrite N.eqb_sym, E. eauto.
  - destruct (memN v (vo_fin (ss_v ss))); [eauto|]. rewrite Hs. eauto.
  - destruct (memN v (vo_skip (ss_v ss)) || memN v (vo_sf (ss_v ss))); [eauto|].
    rewrite (any_nf_of_has _ _ _ Hs). eauto.
  - rewrite Hs. eauto.
  - rewrite Hs. eauto.
  - rewrite Hs. rewrite orb_true_r. eauto.
  - rewrite Hs. eauto.
  - rewrite Hs. eauto.
  - rewrite Hs. eauto.
Qed.

(* ... and only conflicts are flagged: a flag names a stored vote that conflicts with the new one *)
Theorem flagged_only_conflicts : forall ss s v k' o,
  check_slashable ss (mkVote s k' v) = Some o ->
  exists k, stored ss v k /\ conflicts k k' = Some o.
Proof.
  intros ss s v k' o H. unfold check_slashable in H. cbn [v_signer v_kind] in H.
  destruct k' as [h'|h'| | |].
  - destruct (memN v (vo_skip (ss_v ss))) eqn:E1.
    + injection H as <-. exists KSkip. split; [exact E1 | reflexivity].
    + destruct (alookup v (vo_notar (ss_v ss))) as [h|] eqn:E2; [|discriminate].
      destruct (h' =? h) eqn:E3; [discriminate|]. injection H as <-.
      exists (KNotar h). split; [exact E2|]. cbn. rewrite N.eqb_sym, E3. reflexivity.
  - destruct (memN v (vo_fin (ss_v ss))) eqn:E1; [|discriminate]. injection H as <-.
    exists KFinal. split; [exact E1 | reflexivity].
  - destruct (memN v (vo_fin (ss_v ss))) eqn:E1.
    + injection H as <-. exists KFinal. split; [exact E1 | reflexivity].
    + destruct (alookup v (vo_notar (ss_v ss))) as [h|] eqn:E2; [|discriminate]. injection H as <-.
      exists (KNotar h). split; [exact E2 | reflexivity].
  - destruct (memN v (vo_fin (ss_v ss))) eqn:E1; [|discriminate]. injection H as <-.
    exists KFinal. split; [exact E1 | reflexivity].
  - destruct (memN v (vo_skip (ss_v ss))) eqn:E1.
    + cbn in H. injection H as <-. exists KSkip. split; [exact E1 | reflexivity].
    + destruct (memN v (vo_sf (ss_v ss))) eqn:E2.
      * cbn in H. injection H as <-. exists KSkipFb. split; [exact E2 | reflexivity].
      * cbn in H. destruct (any_nf_vote ss v) eqn:E3; [|discriminate]. injection H as <-.
        destruct (has_of_any_nf _ _ E3) as [h Hh]. exists (KNotarFb h). split; [exact Hh | reflexivity].
Qed.

(* exact and equivalent repeats are refused as duplicates, and nothing else is *)
Theorem repeat_ignored : forall ss s v k k',
  stored ss v k -> equivalent k k' = true -> should_ignore ss (mkVote s k' v) = true.
Proof.
  intros ss s v k k' Hs He. unfold should_ignore. cbn [v_signer v_kind].
  destruct k as [h|h| | |]; destruct k' as [h'|h'| | |]; cbn in He; try discriminate; cbn in Hs;
    try (apply N.eqb_eq in He; subst h').
  - rewrite Hs. reflexivity.
  - rewrite Hs, N.eqb_refl. apply orb_true_r.
  - rewrite Hs. destruct (alookup v (vo_notar (ss_v ss))); reflexivity.
  - rewrite Hs. reflexivity.
  - rewrite Hs. reflexivity.
  - rewrite Hs. apply orb_true_r.
  - rewrite Hs. apply orb_true_r.
  - rewrite Hs. reflexivity.
  - exact Hs.
Qed.

Theorem ignored_only_repeats : forall ss s v k',
  should_ignore ss (mkVote s k' v) = true -> exists k, stored ss v k /\ (equivalent k k' = true \/ exists o, conflicts k k' = Some o).
Proof.
  intros ss s v k' H. unfold should_ignore in H. cbn [v_signer v_kind] in H.
  destruct k' as [h'|h'| | |].
  - destruct (alookup v (vo_notar (ss_v ss))) as [h|] eqn:E.
    + exists (KNotar h). split; [exact E|]. cbn. destruct (h =? h'); [left; reflexivity | right; eauto].
    + exists (KNotarFb h'). split; [exact H|]. left. cbn. apply N.eqb_refl.
  - apply orb_prop in H. destruct H as [H|H].
    + exists (KNotarFb h'). split; [exact H|]. left. cbn. apply N.eqb_refl.
    + destruct (alookup v (vo_notar (ss_v ss))) as [h|] eqn:E; [|discriminate].
      exists (KNotar h). split; [exact E|]. left. cbn. exact H.
  - apply orb_prop in H. destruct H as [H|H]; [exists KSkip | exists KSkipFb]; (split; [exact H | left; reflexivity]).
  - apply orb_prop in H. destruct H as [H|H]; [exists KSkipFb | exists KSkip]; (split; [exact H | left; reflexivity]).
  - exists KFinal. split; [exact H | left; reflexivity].
Qed.

(* honest combinations: a vote that neither conflicts with nor repeats a stored vote of its signer is admitted *)
Theorem legitimate_admitted : forall ss s v k',
  (forall k, stored ss v k -> conflicts k k' = None /\ equivalent k k' = false) ->
  admitted ss (mkVote s k' v).
Proof.
  intros ss s v k' H. split.
  - destruct (check_slashable ss (mkVote s k' v)) as [o|] eqn:E; [|reflexivity].
    destruct (flagged_only_conflicts _ _ _ _ _ E) as [k [Hs Hc]]. destruct (H k Hs) as [Hn _]. congruence.
  - destruct (should_ignore ss (mkVote s k' v)) eqn:E; [|reflexivity].
    destruct (ignored_only_repeats _ _ _ _ E) as [k [Hs [He | [o Hc]]]]; destruct (H k Hs) as [Hn Hq]; congruence.
Qed.

(* ---------- frame properties ---------- *)
Lemma csn_frame e ss h : let ss' := fst (check_safe_to_notar e ss h) in
  ss_v ss' = ss_v ss /\ ss_t ss' = ss_t ss /\ ss_c ss' = ss_c ss.
Proof.
  unfold check_safe_to_notar.
  repeat match goal with
         | |- context [if ?b then _ else _] => destruct b
         | |- context [match ?x with _ => _ end] => destruct x
         end; cbn; auto.
Qed.
Lemma recheck_frame e s : forall hs ss ev rp, let ss' := fst (fst (recheck_pending e s ss hs ev rp)) in
  ss_v ss' = ss_v ss /\ ss_t ss' = ss_t ss /\ ss_c ss' = ss_c ss.
Proof.
  induction hs as [|h hs IH]; intros ss ev rp; cbn [recheck_pending]; [cbn; auto|].
  destruct (memN h (s2n_sent (ss_n ss))); [apply IH|].
  destruct (check_safe_to_notar e ss h) as [ss1 st] eqn:E.
  assert (F := csn_frame e ss h). rewrite E in F. cbn in F. destruct F as [F1 [F2 F3]].
  destruct st; cbn zeta; match goal with |- context [recheck_pending e s ss1 hs ?a ?b] =>
    specialize (IH ss1 a b); cbn zeta in IH; destruct IH as [I1 [I2 I3]] end;
    repeat split; congruence.
Qed.
Lemma s2n_try_frame e s ss h : let ss' := fst (fst (s2n_try e s ss h)) in
  ss_v ss' = ss_v ss /\ ss_t ss' = ss_t ss /\ ss_c ss' = ss_c ss.
Proof.
  unfold s2n_try. destruct (memN h (s2n_sent (ss_n ss))); [cbn; auto|].
  destruct (check_safe_to_notar e ss h) as [ss1 st] eqn:E.
  assert (F := csn_frame e ss h). rewrite E in F. cbn in F. destruct st; cbn; exact F.
Qed.
Lemma s2s_try_frame e s ss ev : let ss' := fst (s2s_try e s ss ev) in
  ss_v ss' = ss_v ss /\ ss_t ss' = ss_t ss /\ ss_c ss' = ss_c ss.
Proof. unfold s2s_try. destruct (safe_to_skip_now e ss); cbn; auto. Qed.

(* the votes stored after SlotState::add_vote are exactly the old ones plus the new vote *)
Theorem add_vote_stores : forall b e ss vt,
  ss_v (fst (ss_add_vote_gen b e ss vt)) = ss_v (store_vote ss (v_signer vt) (v_kind vt)).
Proof.
  intros b e ss vt. unfold ss_add_vote_gen.
  assert (C : ss_v (fst (ss_count_vote b e ss vt)) = ss_v (store_vote ss (v_signer vt) (v_kind vt))).
  { unfold ss_count_vote. destruct (v_kind vt) as [h|h| | |].
    - destruct b.
      + unfold count_notar_stake.
        match goal with |- context [s2n_try e ?s ?x h] => assert (F1 := s2n_try_frame e s x h); destruct (s2n_try e s x h) as [[a1 a2] a3] end.
        match goal with |- context [s2s_try e ?s a1 a2] => assert (F2 := s2s_try_frame e s a1 a2); destruct (s2s_try e s a1 a2) as [b1 b2] end.
        cbn in *. destruct F1 as [F1 _]. destruct F2 as [F2 _]. congruence.
      + unfold count_notar_stake.
        match goal with |- context [s2n_try e ?s ?x h] => assert (F1 := s2n_try_frame e s x h); destruct (s2n_try e s x h) as [[a1 a2] a3] end.
        match goal with |- context [s2s_try e ?s a1 a2] => assert (F2 := s2s_try_frame e s a1 a2); destruct (s2s_try e s a1 a2) as [b1 b2] end.
        cbn in *. destruct F1 as [F1 _]. destruct F2 as [F2 _]. unfold store_vote. cbn. rewrite F2, F1. reflexivity.
    - destruct b; reflexivity.
    - unfold count_skip_stake.
      match goal with |- context [recheck_pending e ?s ?x ?hs [] []] => assert (F1 := recheck_frame e s hs x [] []); destruct (recheck_pending e s x hs [] []) as [[a1 a2] a3] end.
      match goal with |- context [s2s_try e ?s a1 a2] => assert (F2 := s2s_try_frame e s a1 a2); destruct (s2s_try e s a1 a2) as [b1 b2] end.
      cbn in *. destruct F1 as [F1 _]. destruct F2 as [F2 _]. congruence.
    - unfold count_skip_stake.
      match goal with |- context [recheck_pending e ?s ?x ?hs [] []] => assert (F1 := recheck_frame e s hs x [] []); destruct (recheck_pending e s x hs [] []) as [[a1 a2] a3] end.
      match goal with |- context [s2s_try e ?s a1 a2] => assert (F2 := s2s_try_frame e s a1 a2); destruct (s2s_try e s a1 a2) as [b1 b2] end.
      cbn in *. destruct F1 as [F1 _]. destruct F2 as [F2 _]. congruence.
    - reflexivity. }
  destruct (ss_count_vote b e ss vt) as [ss1 out] eqn:E. cbn [fst] in C.
  destruct (v_signer vt =? own e); [|exact C].
  match goal with |- context [recheck_pending e ?s ss1 ?hs ?a ?b'] => assert (F := recheck_frame e s hs ss1 a b'); destruct (recheck_pending e s ss1 hs a b') as [[a1 a2] a3] end.
  cbn in *. destruct F as [F _]. congruence.
Qed.

Lemma stored_after_store : forall ss v k, stored (store_vote ss v k) v k.
Proof.
  intros ss v k. destruct k; cbn.
  - apply alookup_ainsert_same.
  - unfold has_nf_vote. cbn. rewrite !N.eqb_refl. reflexivity.
  - unfold memN. cbn. rewrite N.eqb_refl. reflexivity.
  - unfold memN. cbn. rewrite N.eqb_refl. reflexivity.
  - unfold memN. cbn. rewrite N.eqb_refl. reflexivity.
Qed.

Lemma stored_ext : forall ss ss' v k, ss_v ss = ss_v ss' -> stored ss v k -> stored ss' v k.
Proof. intros ss ss' v k E. unfold stored, has_nf_vote. rewrite E. auto. Qed.

(* an admitted vote is stored, and admitted votes never displace stored ones *)
Theorem add_vote_stored : forall b e ss vt,
  stored (fst (ss_add_vote_gen b e ss vt)) (v_signer vt) (v_kind vt).
Proof.
  intros. eapply stored_ext; [symmetry; apply add_vote_stores | apply stored_after_store].
Qed.

Theorem add_vote_keeps : forall b e ss vt v k,
  admitted ss vt -> stored ss v k -> stored (fst (ss_add_vote_gen b e ss vt)) v k.
Proof.
  intros b e ss vt v k [_ Hi] Hs. eapply stored_ext; [symmetry; apply add_vote_stores|].
  destruct vt as [s k' v']. cbn [v_signer v_kind] in *. unfold should_ignore in Hi. cbn [v_signer v_kind] in Hi.
  destruct k' as [h'|h'| | |]; destruct k as [h|h| | |]; cbn in *; try exact Hs;
    unfold has_nf_vote, memN in *; cbn [existsb fst snd vo_nf vo_skip vo_sf vo_fin ss_v with_v]; try (rewrite Hs; apply orb_true_r).
  destruct (N.eq_dec v v') as [->|Hne].
  - rewrite Hs in Hi. discriminate.
  - rewrite alookup_ainsert_other by exact Hne. exact Hs.
Qed.

(* ====================== running totals = stake of stored voters (C03 / C04) ====================== *)
Lemma aget_ainsert_same k (v : N) m : aget 0 k (ainsert k v m) = v.
Proof. unfold aget. rewrite alookup_ainsert_same. reflexivity. Qed.
Lemma aget_ainsert_other k k' (v : N) m : k <> k' -> aget 0 k (ainsert k' v m) = aget 0 k m.
Proof. intros H. unfold aget. rewrite alookup_ainsert_other by exact H. reflexivity. Qed.

Lemma in_vals e v : In v (vals e) <-> v < nvals e.
Proof.
  unfold vals, seqN, nvals. rewrite in_map_iff. split.
  - intros [i [<- Hi]]. apply in_seq in Hi. lia.
  - intros H. exists (N.to_nat v). split; [lia|]. apply in_seq. lia.
Qed.
Lemma nodup_vals e : NoDup (vals e).
Proof.
  unfold vals, seqN. apply Injective_map_NoDup; [|apply seq_NoDup].
  intros a b H. lia.
Qed.
Lemma stake_of_outside e v : ~ In v (vals e) -> stake_of e v = 0.
Proof.
  intros H. unfold stake_of. apply nth_overflow. rewrite in_vals in H. unfold nvals in H. lia.
Qed.

Lemma sum_filter_ext e (P Q : vidx -> bool) l :
  (forall u, In u l -> Q u = P u) -> stake_sum e (filter Q l) = stake_sum e (filter P l).
Proof.
  intros H. f_equal. apply filter_ext_in. exact H.
Qed.

Lemma sum_filter_flip e (P Q : vidx -> bool) v l : NoDup l ->
  (forall u, u <> v -> Q u = P u) -> P v = false -> Q v = true ->
  stake_sum e (filter Q l) = stake_sum e (filter P l) + (if memN v l then stake_of e v else 0).
Proof.
  intros Hnd Hext HP HQ. induction l as [|a l IH].
  - reflexivity.
  - inversion Hnd as [|? ? Hnotin Hnd']; subst.
    cbn [filter]. unfold memN in *. cbn [existsb].
    destruct (N.eq_dec a v) as [->|Hne].
    + rewrite HP, HQ. rewrite N.eqb_refl. cbn [orb].
      unfold stake_sum in *. cbn [map sumN fold_right].
      assert (E : filter Q l = filter P l).
      { apply filter_ext_in. intros u Hu. apply Hext. intro; subst; contradiction. }
      rewrite E. fold (sumN (map (stake_of e) (filter P l))). lia.
    + specialize (IH Hnd'). rewrite (Hext a Hne).
      assert (Ev : (v =? a) = false) by (apply N.eqb_neq; congruence). rewrite Ev. cbn [orb].
      destruct (P a); unfold stake_sum in *; cbn [map sumN fold_right]; fold (sumN (map (stake_of e) (filter Q l)));
        fold (sumN (map (stake_of e) (filter P l))); lia.
Qed.

Lemma sum_filter_add e (P Q : vidx -> bool) v :
  (forall u, u <> v -> Q u = P u) -> P v = false -> Q v = true ->
  stake_sum e (filter Q (vals e)) = stake_sum e (filter P (vals e)) + stake_of e v.
Proof.
  intros H1 H2 H3. rewrite (sum_filter_flip e P Q v (vals e) (nodup_vals e) H1 H2 H3).
  destruct (memN v (vals e)) eqn:E; [reflexivity|].
  rewrite stake_of_outside; [reflexivity|]. intro Hin. apply memN_true in Hin. congruence.
Qed.

(* voters depend on the stored votes only *)
Lemma voters_ext e ss ss' k : ss_v ss = ss_v ss' -> voters e ss k = voters e ss' k.
Proof.
  intros E. destruct k; cbn; unfold notar_voters, nf_voters, skip_voters, sf_voters, fin_voters, has_nf_vote;
    rewrite E; reflexivity.
Qed.

(* the stake totals after SlotState::add_vote *)
Definition totals_after (e : epoch) (t : vstakes) (vt : vote) : vstakes :=
  let stake := stake_of e (v_signer vt) in
  match v_kind vt with
  | KNotar h => let ns := aget 0 h (st_notar t) + stake in
                mkStakes (ainsert h ns (st_notar t)) (st_nf t) (st_skip t) (st_sf t) (st_fin t) (st_nos t + stake) (N.max ns (st_top t))
  | KNotarFb h => mkStakes (st_notar t) (ainsert h (aget 0 h (st_nf t) + stake) (st_nf t)) (st_skip t) (st_sf t) (st_fin t) (st_nos t) (st_top t)
  | KSkip => mkStakes (st_notar t) (st_nf t) (st_skip t + stake) (st_sf t) (st_fin t) (st_nos t + stake) (st_top t)
  | KSkipFb => mkStakes (st_notar t) (st_nf t) (st_skip t) (st_sf t + stake) (st_fin t) (st_nos t) (st_top t)
  | KFinal => mkStakes (st_notar t) (st_nf t) (st_skip t) (st_sf t) (st_fin t + stake) (st_nos t) (st_top t)
  end.

Theorem add_vote_totals : forall b e ss vt,
  ss_t (fst (ss_add_vote_gen b e ss vt)) = totals_after e (ss_t ss) vt.
Proof.
  intros b e ss vt. unfold ss_add_vote_gen.
  assert (C : ss_t (fst (ss_count_vote b e ss vt)) = totals_after e (ss_t ss) vt).
  { unfold ss_count_vote, totals_after. destruct (v_kind vt) as [h|h| | |].
    - destruct b; unfold count_notar_stake.
      + match goal with |- context [s2n_try e ?s ?x h] => assert (F1 := s2n_try_frame e s x h); destruct (s2n_try e s x h) as [[a1 a2] a3] end.
        match goal with |- context [s2s_try e ?s a1 a2] => assert (F2 := s2s_try_frame e s a1 a2); destruct (s2s_try e s a1 a2) as [b1 b2] end.
        cbn in *. destruct F1 as [_ [F1 _]]. destruct F2 as [_ [F2 _]]. rewrite F2, F1. reflexivity.
      + match goal with |- context [s2n_try e ?s ?x h] => assert (F1 := s2n_try_frame e s x h); destruct (s2n_try e s x h) as [[a1 a2] a3] end.
        match goal with |- context [s2s_try e ?s a1 a2] => assert (F2 := s2s_try_frame e s a1 a2); destruct (s2s_try e s a1 a2) as [b1 b2] end.
        cbn in *. destruct F1 as [_ [F1 _]]. destruct F2 as [_ [F2 _]]. rewrite F2, F1. reflexivity.
    - destruct b; reflexivity.
    - unfold count_skip_stake.
      match goal with |- context [recheck_pending e ?s ?x ?hs [] []] => assert (F1 := recheck_frame e s hs x [] []); destruct (recheck_pending e s x hs [] []) as [[a1 a2] a3] end.
      match goal with |- context [s2s_try e ?s a1 a2] => assert (F2 := s2s_try_frame e s a1 a2); destruct (s2s_try e s a1 a2) as [b1 b2] end.
      cbn in *. destruct F1 as [_ [F1 _]]. destruct F2 as [_ [F2 _]]. rewrite F2, F1. reflexivity.
    - unfold count_skip_stake.
      match goal with |- context [recheck_pending e ?s ?x ?hs [] []] => assert (F1 := recheck_frame e s hs x [] []); destruct (recheck_pending e s x hs [] []) as [[a1 a2] a3] end.
      match goal with |- context [s2s_try e ?s a1 a2] => assert (F2 := s2s_try_frame e s a1 a2); destruct (s2s_try e s a1 a2) as [b1 b2] end.
      cbn in *. destruct F1 as [_ [F1 _]]. destruct F2 as [_ [F2 _]]. rewrite F2, F1. reflexivity.
    - reflexivity. }
  destruct (ss_count_vote b e ss vt) as [ss1 out] eqn:E. cbn [fst] in C.
  destruct (v_signer vt =? own e); [|exact C].
  match goal with |- context [recheck_pending e ?s ss1 ?hs ?a ?b'] => assert (F := recheck_frame e s hs ss1 a b'); destruct (recheck_pending e s ss1 hs a b') as [[a1 a2] a3] end.
  cbn in *. destruct F as [_ [F _]]. congruence.
Qed.

Lemma totals_ok_ext e ss ss' : ss_v ss = ss_v ss' -> ss_t ss = ss_t ss' -> totals_ok e ss -> totals_ok e ss'.
Proof.
  intros Ev Et (H1 & H2 & H3 & H4 & H5). unfold totals_ok.
  rewrite <- Et.
  pose proof (fun h => voters_ext e ss ss' (KNotar h) Ev) as V1.
  pose proof (fun h => voters_ext e ss ss' (KNotarFb h) Ev) as V2.
  pose proof (voters_ext e ss ss' KSkip Ev) as V3.
  pose proof (voters_ext e ss ss' KSkipFb Ev) as V4.
  pose proof (voters_ext e ss ss' KFinal Ev) as V5. cbn in *.
  repeat split; intros; try rewrite <- V1; try rewrite <- V2; try rewrite <- V3; try rewrite <- V4; try rewrite <- V5; auto.
Qed.

(* preservation of the totals invariant by every admitted vote *)
Theorem totals_preserved : forall b e ss vt,
  admitted ss vt -> totals_ok e ss -> totals_ok e (fst (ss_add_vote_gen b e ss vt)).
Proof.
  intros b e ss vt [_ Hi] (H1 & H2 & H3 & H4 & H5).
  set (ss' := fst (ss_add_vote_gen b e ss vt)).
  assert (Ev : ss_v ss' = ss_v (store_vote ss (v_signer vt) (v_kind vt))) by apply add_vote_stores.
  assert (Et : ss_t ss' = totals_after e (ss_t ss) vt) by apply add_vote_totals.
  apply (totals_ok_ext e (mkSS (ss_v (store_vote ss (v_signer vt) (v_kind vt))) (totals_after e (ss_t ss) vt) (ss_c ss) (ss_n ss)) ss');
    [symmetry; exact Ev | symmetry; exact Et |].
  clear ss' Ev Et.
  destruct vt as [s k v]. unfold should_ignore in Hi. cbn [v_signer v_kind] in *.
  unfold totals_ok, totals_after, store_vote, notar_voters, nf_voters, skip_voters, sf_voters, fin_voters, has_nf_vote in *.
  cbn [v_signer v_kind ss_v ss_t with_v] in *.
  destruct k as [h0|h0| | |]; cbn [vo_notar vo_nf vo_skip vo_sf vo_fin st_notar st_nf st_skip st_sf st_fin].
  - (* notar *)
    destruct (alookup v (vo_notar (ss_v ss))) eqn:El; [discriminate|].
    repeat split; auto. intros h. destruct (N.eq_dec h h0) as [->|Hne].
    + rewrite aget_ainsert_same. rewrite H1.
      symmetry. apply sum_filter_add.
      * intros u Hu. rewrite alookup_ainsert_other by exact Hu. reflexivity.
      * rewrite El. reflexivity.
      * rewrite alookup_ainsert_same. apply N.eqb_refl.
    + rewrite aget_ainsert_other by exact Hne. rewrite H1. symmetry. apply sum_filter_ext.
      intros u _. destruct (N.eq_dec u v) as [->|Hu].
      * rewrite alookup_ainsert_same, El. apply N.eqb_neq. congruence.
      * rewrite alookup_ainsert_other by exact Hu. reflexivity.
  - (* notar-fallback *)
    apply orb_false_elim in Hi. destruct Hi as [Hi _].
    repeat split; auto. intros h. destruct (N.eq_dec h h0) as [->|Hne].
    + rewrite aget_ainsert_same. rewrite H2. symmetry. apply sum_filter_add.
      * intros u Hu. cbn [existsb fst snd]. assert ((v =? u) = false) by (apply N.eqb_neq; congruence).
        rewrite H. reflexivity.
      * exact Hi.
      * cbn [existsb fst snd]. rewrite !N.eqb_refl. reflexivity.
    + rewrite aget_ainsert_other by exact Hne. rewrite H2. symmetry. apply sum_filter_ext.
      intros u _. cbn [existsb fst snd]. assert ((h0 =? h) = false) by (apply N.eqb_neq; congruence).
      rewrite H, andb_false_r. reflexivity.
  - (* skip *)
    apply orb_false_elim in Hi. destruct Hi as [Hi _].
    repeat split; auto. rewrite H3. symmetry. apply sum_filter_add.
    + intros u Hu. unfold memN. cbn [existsb]. assert ((u =? v) = false) by (apply N.eqb_neq; congruence).
      rewrite H. reflexivity.
    + exact Hi.
    + unfold memN. cbn [existsb]. rewrite N.eqb_refl. reflexivity.
  - (* skip-fallback *)
    apply orb_false_elim in Hi. destruct Hi as [Hi _].
    repeat split; auto. rewrite H4. symmetry. apply sum_filter_add.
    + intros u Hu. unfold memN. cbn [existsb]. assert ((u =? v) = false) by (apply N.eqb_neq; congruence).
      rewrite H. reflexivity.
    + exact Hi.
    + unfold memN. cbn [existsb]. rewrite N.eqb_refl. reflexivity.
  - (* final *)
    repeat split; auto. rewrite H5. symmetry. apply sum_filter_add.
    + intros u Hu. unfold memN. cbn [existsb]. assert ((u =? v) = false) by (apply N.eqb_neq; congruence).
      rewrite H. reflexivity.
    + exact Hi.
    + unfold memN. cbn [existsb]. rewrite N.eqb_refl. reflexivity.
Qed.

Lemma totals_ok_empty e : totals_ok e ss_empty.
Proof.
  unfold totals_ok, ss_empty, notar_voters, nf_voters, skip_voters, sf_voters, fin_voters, has_nf_vote, memN. cbn.
  assert (Z : forall l : list vidx, stake_sum e (filter (fun _ => false) l) = 0).
  { induction l; [reflexivity | exact IHl]. }
  repeat split; intros; symmetry; apply Z.
Qed.

(* ====================== created certificates are valid and exact (C03) ====================== *)
Lemma stake_sum_app e a b : stake_sum e (a ++ b) = stake_sum e a + stake_sum e b.
Proof.
  unfold stake_sum. rewrite map_app. induction (map (stake_of e) a) as [|x l IH]; cbn; [reflexivity|].
  fold (sumN l). fold (sumN (l ++ map (stake_of e) b)) in *. unfold sumN in *. lia.
Qed.
Lemma union_disjoint_sum e s1 s2 : (forall v, In v s1 -> ~ In v s2) ->
  stake_sum e (s1 ++ filter (fun v => negb (memN v s1)) s2) = stake_sum e s1 + stake_sum e s2.
Proof.
  intros H. rewrite stake_sum_app. f_equal. f_equal.
  apply forallb_filter_id || idtac.
  induction s2 as [|x l IH]; [reflexivity|]. cbn [filter].
  destruct (memN x s1) eqn:E.
  - exfalso. apply memN_true in E. apply (H x E). left. reflexivity.
  - cbn [negb]. f_equal. apply IH. intros v Hv Hin. apply (H v Hv). right. exact Hin.
Qed.

Lemma quorum_pos e x : 0 < total_stake e -> is_quorum e x = true -> 0 < x.
Proof. unfold is_quorum, is_met. intros. assert (0 < QUORUM_NUM) by (vm_compute; reflexivity). nia. Qed.
Lemma strong_quorum_pos e x : 0 < total_stake e -> is_strong_quorum e x = true -> 0 < x.
Proof. unfold is_strong_quorum, is_met. intros. assert (0 < STRONG_QUORUM_NUM) by (vm_compute; reflexivity). nia. Qed.
Lemma stake_sum_nil_pos e l : 0 < stake_sum e l -> l <> [].
Proof. intros H E. subst. cbn in H. lia. Qed.

Lemma halves_preserved : forall b e ss vt,
  admitted ss vt -> halves_disjoint ss -> halves_disjoint (fst (ss_add_vote_gen b e ss vt)).
Proof.
  intros b e ss vt [_ Hi] [D1 D2].
  assert (Ev := add_vote_stores b e ss vt).
  unfold halves_disjoint, has_nf_vote. rewrite Ev. clear Ev.
  destruct vt as [s k v]. unfold should_ignore in Hi. cbn [v_signer v_kind] in *.
  unfold store_vote, has_nf_vote in *. cbn [ss_v with_v].
  destruct k as [h0|h0| | |]; cbn [vo_notar vo_nf vo_skip vo_sf vo_fin].
  - destruct (alookup v (vo_notar (ss_v ss))) eqn:El; [discriminate|]. split; [|exact D2].
    intros u h Hu. destruct (N.eq_dec u v) as [->|Hne].
    + rewrite alookup_ainsert_same in Hu. injection Hu as <-. exact Hi.
    + rewrite alookup_ainsert_other in Hu by exact Hne. apply D1. exact Hu.
  - apply orb_false_elim in Hi. destruct Hi as [_ Hi]. split; [|exact D2].
    intros u h Hu. cbn [existsb fst snd]. rewrite (D1 u h Hu), orb_false_r.
    destruct (N.eq_dec u v) as [->|Hne].
    + rewrite Hu in Hi. rewrite N.eqb_refl. cbn. rewrite N.eqb_sym. exact Hi.
    + assert ((v =? u) = false) by (apply N.eqb_neq; congruence). rewrite H. reflexivity.
  - apply orb_false_elim in Hi. destruct Hi as [_ Hi]. split; [exact D1|].
    intros u Hu. unfold memN in Hu. cbn [existsb] in Hu. apply orb_prop in Hu. destruct Hu as [Hu|Hu].
    + apply N.eqb_eq in Hu. subst. exact Hi.
    + apply D2. exact Hu.
  - apply orb_false_elim in Hi. destruct Hi as [_ Hi]. split; [exact D1|].
    intros u Hu. unfold memN. cbn [existsb]. fold (memN u (vo_sf (ss_v ss))). rewrite (D2 u Hu), orb_false_r.
    apply N.eqb_neq. intro; subst. congruence.
  - split; assumption.
Qed.

Lemma halves_empty : halves_disjoint ss_empty.
Proof. split; intros; cbn in *; [discriminate | reflexivity]. Qed.

Lemma voters_disjoint_notar ss e h : halves_disjoint ss ->
  forall v, In v (notar_voters e ss h) -> ~ In v (nf_voters e ss h).
Proof.
  intros [D1 _] v H1 H2. unfold notar_voters, nf_voters in *.
  apply filter_In in H1. apply filter_In in H2. destruct H1 as [_ H1]. destruct H2 as [_ H2].
  destruct (alookup v (vo_notar (ss_v ss))) as [h'|] eqn:E; [|discriminate].
  apply N.eqb_eq in H1. subst h'. rewrite (D1 v h E) in H2. discriminate.
Qed.
Lemma voters_disjoint_skip ss e : halves_disjoint ss ->
  forall v, In v (skip_voters e ss) -> ~ In v (sf_voters e ss).
Proof.
  intros [_ D2] v H1 H2. unfold skip_voters, sf_voters in *.
  apply filter_In in H1. apply filter_In in H2. destruct H1 as [_ H1]. destruct H2 as [_ H2].
  rewrite (D2 v H1) in H2. discriminate.
Qed.

(* good certificate: exact signers + threshold as a receiver recomputes it *)
Definition cert_good (e : epoch) (ss : slot_state) (s : slot) (oc : option cert) : Prop :=
  exists c, oc = Some c /\ cert_signers_exact e ss s c /\ cert_threshold_ok e c = true.

Lemma single_good e ss s k vs (strong : bool) :
  0 < total_stake e ->
  vs = voters e ss (fst (cert_vote_kinds k)) -> snd (cert_vote_kinds k) = None ->
  (match k with CFastFinal _ => is_strong_quorum e (stake_sum e vs) | _ => is_quorum e (stake_sum e vs) end) = true ->
  cert_good e ss s (mk_single e s k vs).
Proof.
  intros Ht Hv Hk Hq.
  assert (Hne : vs <> []).
  { apply (stake_sum_nil_pos e). destruct k; first [apply (quorum_pos e _ Ht Hq) | apply (strong_quorum_pos e _ Ht Hq)]. }
  unfold mk_single. destruct vs as [|a l]; [congruence|].
  eexists. split; [reflexivity|]. split.
  - unfold cert_signers_exact. cbn [c_slot c_kind c_s1 c_s2 c_stake]. rewrite Hk. repeat split; try assumption.
    cbn. lia.
  - cbv beta iota zeta delta [cert_threshold_ok union_signers c_kind c_s1 c_s2 filter]. rewrite app_nil_r. exact Hq.
Qed.

Lemma mixed_good e ss s k v1 v2 k2 :
  0 < total_stake e ->
  v1 = voters e ss (fst (cert_vote_kinds k)) -> snd (cert_vote_kinds k) = Some k2 -> v2 = voters e ss k2 ->
  (forall v, In v v1 -> ~ In v v2) ->
  (match k with CFastFinal _ => false | _ => is_quorum e (stake_sum e v1 + stake_sum e v2) end) = true ->
  cert_good e ss s (mk_mixed e s k v1 v2).
Proof.
  intros Ht H1 Hk H2 Hd Hq.
  assert (Hq' : is_quorum e (stake_sum e v1 + stake_sum e v2) = true) by (destruct k; try exact Hq; discriminate).
  assert (Hpos := quorum_pos e _ Ht Hq').
  unfold mk_mixed.
  assert (Hex : exists c, (match v1, v2 with [], [] => None | _, _ => Some (mkCert s k v1 v2 (stake_sum e v1 + stake_sum e v2)) end) = Some c
                          /\ c = mkCert s k v1 v2 (stake_sum e v1 + stake_sum e v2)).
  { destruct v1; destruct v2; try (eexists; split; reflexivity). cbn in Hpos. lia. }
  destruct Hex as [c [Ec ->]]. eexists. split; [exact Ec|]. split.
  - unfold cert_signers_exact. cbn [c_slot c_kind c_s1 c_s2 c_stake]. rewrite Hk. repeat split; assumption.
  - assert (U := union_disjoint_sum e v1 v2 Hd).
    cbv beta iota zeta delta [cert_threshold_ok union_signers c_kind c_s1 c_s2].
    unfold vidx in *. destruct k; try discriminate; rewrite U; exact Hq'.
Qed.

(* Every certificate SlotState::add_vote (current tree: store before count) creates for an admitted vote
   lists exactly the stored voters, declares their stake, and meets its threshold on recount. *)
Theorem created_certs_good : forall e ss vt,
  0 < total_stake e -> admitted ss vt -> totals_ok e ss -> halves_disjoint ss ->
  Forall (cert_good e (fst (ss_add_vote e ss vt)) (v_slot vt)) (o_certs (snd (ss_add_vote e ss vt))).
Proof.
  intros e ss vt Ht Ha Ho Hd.
  assert (To := totals_preserved true e ss vt Ha Ho).
  assert (Hd' := halves_preserved true e ss vt Ha Hd).
  assert (Ev := add_vote_stores true e ss vt). assert (Et := add_vote_totals true e ss vt).
  unfold ss_add_vote in *. set (fin := fst (ss_add_vote_gen true e ss vt)) in *.
  (* certificates come from ss_count_vote; the own-vote re-check leaves them unchanged *)
  assert (Hc : o_certs (snd (ss_add_vote_gen true e ss vt)) = o_certs (snd (ss_count_vote true e ss vt))).
  { unfold ss_add_vote_gen. destruct (ss_count_vote true e ss vt) as [ss1 out]. cbn [snd].
    destruct (v_signer vt =? own e); [|reflexivity].
    destruct (recheck_pending e (v_slot vt) ss1 (s2n_pending (ss_n ss1)) (o_events out) (o_repair out)) as [[a1 a2] a3].
    reflexivity. }
  rewrite Hc. clear Hc.
  destruct To as (T1 & T2 & T3 & T4 & T5).
  assert (Vx : forall x k, ss_v x = ss_v fin -> voters e x k = voters e fin k) by (intros; apply voters_ext; assumption).
  destruct vt as [s k v]. unfold ss_count_vote. cbn [v_slot v_kind v_signer] in *.
  destruct k as [h|h| | |].
  - (* notar *)
    unfold count_notar_stake.
    match goal with |- context [s2n_try e ?s' ?x h] => assert (F1 := s2n_try_frame e s' x h); destruct (s2n_try e s' x h) as [[a1 a2] a3] end.
    match goal with |- context [s2s_try e ?s' a1 a2] => assert (F2 := s2s_try_frame e s' a1 a2); destruct (s2s_try e s' a1 a2) as [b1 b2] end.
    cbn [fst snd o_certs] in *. destruct F1 as (F1v & F1t & F1c). destruct F2 as (F2v & F2t & F2c).
    assert (Bv : ss_v b1 = ss_v fin) by (rewrite F2v, F1v, Ev; reflexivity).
    assert (Bt : ss_t b1 = ss_t fin) by (rewrite F2t, F1t, Et; reflexivity).
    assert (Ns : aget 0 h (st_notar (ss_t ss)) + stake_of e v = stake_sum e (notar_voters e fin h)).
    { rewrite <- T1, Et. unfold totals_after. cbn [v_kind st_notar v_signer]. rewrite aget_ainsert_same. reflexivity. }
    change (ss_t (store_vote ss v (KNotar h))) with (ss_t ss). rewrite Ns. unfold nf_cert_due. rewrite Bt, T1, T2.
    pose proof (Vx b1 (KNotar h) Bv) as V1. pose proof (Vx b1 (KNotarFb h) Bv) as V2. cbn [voters] in V1, V2. rewrite V1, V2.
    apply Forall_app. split; [|apply Forall_app; split].
    + destruct (is_quorum e (stake_sum e (nf_voters e fin h) + stake_sum e (notar_voters e fin h)) && negb (is_notar_fallback b1 h)) eqn:Q; [|constructor].
      apply andb_prop in Q. destruct Q as [Q _]. constructor; [|constructor].
      apply (mixed_good e fin s (CNotarFb h) _ _ (KNotarFb h)); auto.
      * apply voters_disjoint_notar. exact Hd'.
      * rewrite N.add_comm. exact Q.
    + destruct (is_quorum e (stake_sum e (notar_voters e fin h)) && match ce_notar (ss_c b1) with None => true | _ => false end) eqn:Q; [|constructor].
      apply andb_prop in Q. destruct Q as [Q _]. constructor; [|constructor].
      apply (single_good e fin s (CNotar h) _ false); auto.
    + destruct (is_strong_quorum e (stake_sum e (notar_voters e fin h)) && match ce_ff (ss_c b1) with None => true | _ => false end) eqn:Q; [|constructor].
      apply andb_prop in Q. destruct Q as [Q _]. constructor; [|constructor].
      apply (single_good e fin s (CFastFinal h) _ true); auto.
  - (* notar-fallback *)
    unfold count_nf_stake. cbn [fst snd o_certs]. unfold nf_cert_due.
    match goal with |- context [is_notar_fallback ?x h] => set (b1 := x) in * end.
    assert (Bv : ss_v b1 = ss_v fin) by (rewrite Ev; reflexivity).
    assert (Bt : ss_t b1 = ss_t fin) by (rewrite Et; reflexivity).
    rewrite Bt, T1, T2.
    pose proof (Vx b1 (KNotar h) Bv) as V1. pose proof (Vx b1 (KNotarFb h) Bv) as V2. cbn [voters] in V1, V2. rewrite V1, V2.
    destruct (is_quorum e (stake_sum e (nf_voters e fin h) + stake_sum e (notar_voters e fin h)) && negb (is_notar_fallback b1 h)) eqn:Q; [|constructor].
    apply andb_prop in Q. destruct Q as [Q _]. constructor; [|constructor].
    apply (mixed_good e fin s (CNotarFb h) _ _ (KNotarFb h)); auto.
    + apply voters_disjoint_notar. exact Hd'.
    + rewrite N.add_comm. exact Q.
  - (* skip *)
    unfold count_skip_stake.
    match goal with |- context [recheck_pending e ?s' ?x ?hs [] []] => assert (F1 := recheck_frame e s' hs x [] []); destruct (recheck_pending e s' x hs [] []) as [[a1 a2] a3] end.
    match goal with |- context [s2s_try e ?s' a1 a2] => assert (F2 := s2s_try_frame e s' a1 a2); destruct (s2s_try e s' a1 a2) as [b1 b2] end.
    cbn [fst snd o_certs] in *. destruct F1 as (F1v & F1t & F1c).
    assert (Bv : ss_v a1 = ss_v fin) by (rewrite F1v, Ev; reflexivity).
    assert (Bt : ss_t a1 = ss_t fin) by (rewrite F1t, Et; reflexivity).
    rewrite Bt, T3, T4.
    pose proof (Vx a1 KSkip Bv) as V1. pose proof (Vx a1 KSkipFb Bv) as V2. cbn [voters] in V1, V2. rewrite V1, V2.
    destruct (is_quorum e (stake_sum e (skip_voters e fin) + stake_sum e (sf_voters e fin)) && match ce_skip (ss_c a1) with None => true | _ => false end) eqn:Q; [|constructor].
    apply andb_prop in Q. destruct Q as [Q _]. constructor; [|constructor].
    apply (mixed_good e fin s CSkip _ _ KSkipFb); auto. apply voters_disjoint_skip. exact Hd'.
  - (* skip-fallback *)
    unfold count_skip_stake.
    match goal with |- context [recheck_pending e ?s' ?x ?hs [] []] => assert (F1 := recheck_frame e s' hs x [] []); destruct (recheck_pending e s' x hs [] []) as [[a1 a2] a3] end.
    match goal with |- context [s2s_try e ?s' a1 a2] => assert (F2 := s2s_try_frame e s' a1 a2); destruct (s2s_try e s' a1 a2) as [b1 b2] end.
    cbn [fst snd o_certs] in *. destruct F1 as (F1v & F1t & F1c).
    assert (Bv : ss_v a1 = ss_v fin) by (rewrite F1v, Ev; reflexivity).
    assert (Bt : ss_t a1 = ss_t fin) by (rewrite F1t, Et; reflexivity).
    rewrite Bt, T3, T4.
    pose proof (Vx a1 KSkip Bv) as V1. pose proof (Vx a1 KSkipFb Bv) as V2. cbn [voters] in V1, V2. rewrite V1, V2.
    destruct (is_quorum e (stake_sum e (skip_voters e fin) + stake_sum e (sf_voters e fin)) && match ce_skip (ss_c a1) with None => true | _ => false end) eqn:Q; [|constructor].
    apply andb_prop in Q. destruct Q as [Q _]. constructor; [|constructor].
    apply (mixed_good e fin s CSkip _ _ KSkipFb); auto. apply voters_disjoint_skip. exact Hd'.
  - (* final *)
    unfold count_fin_stake. cbn [fst snd o_certs].
    match goal with |- context [fin_voters e ?x] => set (b1 := x) in * end.
    assert (Bv : ss_v b1 = ss_v fin) by (rewrite Ev; reflexivity).
    assert (Bt : ss_t b1 = ss_t fin) by (rewrite Et; reflexivity).
    rewrite Bt, T5. pose proof (Vx b1 KFinal Bv) as V1. cbn [voters] in V1. rewrite V1.
    destruct (is_quorum e (stake_sum e (fin_voters e fin)) && match ce_fin (ss_c b1) with None => true | _ => false end) eqn:Q; [|constructor].
    apply andb_prop in Q. destruct Q as [Q _]. constructor; [|constructor].
    apply (single_good e fin s CFinal _ false); auto.
Qed.

(* ====================== reachable slot states ====================== *)
(* everything the pool does to one slot's state *)
Inductive ss_reach (e : epoch) : slot_state -> Prop :=
| reach_empty : ss_reach e ss_empty
| reach_vote : forall ss vt, ss_reach e ss -> admitted ss vt -> ss_reach e (fst (ss_add_vote e ss vt))
| reach_cert : forall ss c, ss_reach e ss -> ss_reach e (ss_add_cert ss c)
| reach_known : forall ss h, ss_reach e ss -> ss_reach e (notify_parent_known ss h)
| reach_certified : forall ss s h r, ss_reach e ss -> notify_parent_certified e s ss h = Some r ->
                    ss_reach e (fst (fst r)).

Lemma add_cert_frame ss c : ss_v (ss_add_cert ss c) = ss_v ss /\ ss_t (ss_add_cert ss c) = ss_t ss.
Proof. unfold ss_add_cert. destruct (c_kind c) as [h|h| |h|]; try (split; reflexivity). destruct (is_notar_fallback ss h); split; reflexivity. Qed.
Lemma known_frame ss h : ss_v (notify_parent_known ss h) = ss_v ss /\ ss_t (notify_parent_known ss h) = ss_t ss.
Proof. unfold notify_parent_known. destruct (alookup h (pa_status (ss_n ss))); split; reflexivity. Qed.
Lemma certified_frame e s ss h r : notify_parent_certified e s ss h = Some r ->
  ss_v (fst (fst r)) = ss_v ss /\ ss_t (fst (fst r)) = ss_t ss.
Proof.
  unfold notify_parent_certified. destruct (alookup h (pa_status (ss_n ss))); [|discriminate].
  intros E. injection E as <-.
  match goal with |- context [s2n_try e s ?x h] => destruct (s2n_try_frame e s x h) as (A & B & _) end.
  cbn in *. split; assumption.
Qed.
Lemma halves_ext ss ss' : ss_v ss = ss_v ss' -> halves_disjoint ss -> halves_disjoint ss'.
Proof. intros E. unfold halves_disjoint, has_nf_vote. rewrite E. auto. Qed.

Theorem reach_invariants : forall e ss, ss_reach e ss -> totals_ok e ss /\ halves_disjoint ss.
Proof.
  intros e ss H. induction H as [|ss vt H [IT IH] Ha|ss c H [IT IH]|ss h H [IT IH]|ss s h r H [IT IH] E].
  - split; [apply totals_ok_empty | apply halves_empty].
  - split; [apply totals_preserved; assumption | apply halves_preserved; assumption].
  - destruct (add_cert_frame ss c) as [A B]. split; [apply (totals_ok_ext e ss); auto | apply (halves_ext ss); auto].
  - destruct (known_frame ss h) as [A B]. split; [apply (totals_ok_ext e ss); auto | apply (halves_ext ss); auto].
  - destruct (certified_frame e s ss h r E) as [A B]. split; [apply (totals_ok_ext e ss); auto | apply (halves_ext ss); auto].
Qed.

(* C03, validity: in every reachable slot state, every certificate created for an admitted vote is good *)
Theorem reach_created_certs_good : forall e ss vt,
  0 < total_stake e -> ss_reach e ss -> admitted ss vt ->
  Forall (cert_good e (fst (ss_add_vote e ss vt)) (v_slot vt)) (o_certs (snd (ss_add_vote e ss vt))).
Proof.
  intros e ss vt Ht Hr Ha. destruct (reach_invariants e ss Hr) as [IT IH].
  apply created_certs_good; assumption.
Qed.

(* the pinned tree (count before store) violated it: 5 equal validators, the third notar vote crosses 60 % *)
Definition pinned_witness_epoch := mkEpoch [1; 1; 1; 1; 1] 4.
Definition pinned_witness_state :=
  fst (ss_add_vote_gen false pinned_witness_epoch
        (fst (ss_add_vote_gen false pinned_witness_epoch ss_empty (mkVote 1 (KNotar 7) 0))) (mkVote 1 (KNotar 7) 1)).
Lemma pinned_count_before_store_refuted :
  exists c, In (Some c) (o_certs (snd (ss_add_vote_gen false pinned_witness_epoch pinned_witness_state (mkVote 1 (KNotar 7) 2))))
            /\ cert_threshold_ok pinned_witness_epoch c = false.
Proof. eexists. split; [left; reflexivity | vm_compute; reflexivity]. Qed.
