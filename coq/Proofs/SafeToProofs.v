(* Proofs about safe-to-notar / safe-to-skip signalling (Model/Pool.v, SlotState part) - C06. *)
From Coq Require Import List NArith Bool Lia.
From AG Require Import Gen.Params Model.Pool Model.PoolSpec Proofs.SlotStateProofs.
Import ListNotations.
Open Scope N_scope.

(* the conditions of the property, on the slot state *)
Definition own_voted_other (e : epoch) (ss : slot_state) (h : hash) : Prop :=
  memN (own e) (vo_skip (ss_v ss)) = true \/
  exists h', alookup (own e) (vo_notar (ss_v ss)) = Some h' /\ h' <> h.
Definition s2n_stake_cond (e : epoch) (ss : slot_state) (h : hash) : Prop :=
  let ns := aget 0 h (st_notar (ss_t ss)) in
  is_weakest_quorum e ns = true /\ (is_weak_quorum e ns = true \/ is_quorum e (ns + st_skip (ss_t ss)) = true).
Definition s2n_conditions (e : epoch) (ss : slot_state) (h : hash) : Prop :=
  own_voted_other e ss h /\ s2n_stake_cond e ss h /\ alookup h (pa_status (ss_n ss)) = Some true.

Lemma memN_sset_insert x y l : memN x (sset_insert y l) = (x =? y) || memN x l.
Proof.
  unfold memN. induction l as [|a l IH]; cbn [sset_insert existsb].
  - reflexivity.
  - destruct (y <? a) eqn:E1; cbn [existsb].
    + reflexivity.
    + destruct (y =? a) eqn:E2; cbn [existsb].
      * apply N.eqb_eq in E2. subst. destruct (x =? a); reflexivity.
      * rewrite IH. destruct (x =? a); destruct (x =? y); reflexivity.
Qed.

Lemma mark_sent_props ss h : let ss' := with_n ss (n_mark_sent (ss_n ss) h) in
  memN h (s2n_sent (ss_n ss')) = true
  /\ ss_v ss' = ss_v ss /\ ss_t ss' = ss_t ss /\ ss_c ss' = ss_c ss /\ pa_status (ss_n ss') = pa_status (ss_n ss).
Proof.
  cbv zeta. unfold with_n, n_mark_sent. cbn [ss_n ss_v ss_t ss_c s2n_sent pa_status].
  rewrite memN_sset_insert, N.eqb_refl. repeat split; reflexivity.
Qed.

(* soundness: the check answers "safe" only if every clause holds, and then records h as sent *)
Theorem csn_safe_sound : forall e ss h ss',
  check_safe_to_notar e ss h = (ss', S2NSafe) ->
  s2n_conditions e ss h /\ memN h (s2n_sent (ss_n ss')) = true
  /\ ss_v ss' = ss_v ss /\ ss_t ss' = ss_t ss /\ ss_c ss' = ss_c ss /\ pa_status (ss_n ss') = pa_status (ss_n ss).
Proof.
  intros e ss h ss' H. unfold check_safe_to_notar in H.
  destruct (is_weakest_quorum e (aget 0 h (st_notar (ss_t ss)))) eqn:A; cbn [negb] in H; [|discriminate].
  assert (B : is_weak_quorum e (aget 0 h (st_notar (ss_t ss))) = true \/
              is_quorum e (aget 0 h (st_notar (ss_t ss)) + st_skip (ss_t ss)) = true).
  { destruct (is_weak_quorum e (aget 0 h (st_notar (ss_t ss)))); [left; reflexivity|].
    destruct (is_quorum e (aget 0 h (st_notar (ss_t ss)) + st_skip (ss_t ss))); [right; reflexivity|].
    cbn in H. discriminate. }
  assert (H' : match alookup h (pa_status (ss_n ss)) with
               | None => (ss, S2NMissingBlock)
               | Some false => (ss, S2NAwaiting)
               | Some true =>
                 if memN (own e) (vo_skip (ss_v ss)) then (with_n ss (n_mark_sent (ss_n ss) h), S2NSafe)
                 else match alookup (own e) (vo_notar (ss_v ss)) with
                      | Some h' => if h' =? h then (ss, S2NAwaiting) else (with_n ss (n_mark_sent (ss_n ss) h), S2NSafe)
                      | None => (with_n ss (n_add_pending (ss_n ss) h), S2NAwaiting)
                      end
               end = (ss', S2NSafe)).
  { destruct B as [B|B]; rewrite B in H; [|rewrite andb_false_r in H]; cbn [negb andb] in H; exact H. }
  clear H.
  destruct (alookup h (pa_status (ss_n ss))) as [[|]|] eqn:P; try discriminate.
  assert (Hstake : s2n_stake_cond e ss h) by (unfold s2n_stake_cond; cbv zeta; auto).
  destruct (memN (own e) (vo_skip (ss_v ss))) eqn:O1.
  - injection H' as <-. destruct (mark_sent_props ss h) as (M1 & M2 & M3 & M4 & M5).
    repeat split; auto. left. exact O1.
  - destruct (alookup (own e) (vo_notar (ss_v ss))) as [h'|] eqn:O2; try discriminate.
    destruct (h' =? h) eqn:O3; try discriminate.
    injection H' as <-. destruct (mark_sent_props ss h) as (M1 & M2 & M3 & M4 & M5).
    repeat split; auto. right. exists h'. split; [exact O2 | apply N.eqb_neq; exact O3].
Qed.

(* the signal is raised only for a block not yet signalled, and marks it signalled: at most once *)
Theorem s2n_try_once : forall e s ss h ss' ev rp,
  s2n_try e s ss h = (ss', ev, rp) -> ev <> [] ->
  ev = [ESafeToNotar (s, h)] /\ memN h (s2n_sent (ss_n ss)) = false /\ memN h (s2n_sent (ss_n ss')) = true
  /\ s2n_conditions e ss h.
Proof.
  intros e s ss h ss' ev rp H Hne. unfold s2n_try in H.
  destruct (memN h (s2n_sent (ss_n ss))) eqn:S; [injection H as <- <- <-; congruence|].
  destruct (check_safe_to_notar e ss h) as [ss1 st] eqn:C.
  destruct st; injection H as <- <- <-; try congruence.
  destruct (csn_safe_sound e ss h ss1 C) as (H1 & H2 & _). auto.
Qed.

(* signalled blocks stay signalled *)
Lemma csn_sent_mono e ss h x : memN x (s2n_sent (ss_n ss)) = true ->
  memN x (s2n_sent (ss_n (fst (check_safe_to_notar e ss h)))) = true.
Proof.
  intros H. unfold check_safe_to_notar.
  repeat match goal with
         | |- context [if ?b then _ else _] => destruct b
         | |- context [match ?y with _ => _ end] => destruct y
         end; cbn [fst ss_n with_n n_add_pending n_mark_sent s2n_sent]; try exact H; rewrite memN_sset_insert, H; apply orb_true_r.
Qed.

(* safe-to-skip: raised only if the node notarized a block in the slot and the weak-quorum condition
   holds on the running totals, only when not yet raised, and then recorded *)
Theorem s2s_try_sound : forall e s ss ev ss' ev',
  s2s_try e s ss ev = (ss', ev') -> ev' <> ev ->
  ev' = ev ++ [ESafeToSkip s] /\ s2s_sent (ss_n ss) = false /\ s2s_sent (ss_n ss') = true
  /\ is_weak_quorum e (st_nos (ss_t ss) - st_top (ss_t ss)) = true
  /\ exists h, alookup (own e) (vo_notar (ss_v ss)) = Some h.
Proof.
  intros e s ss ev ss' ev' H Hne. unfold s2s_try, safe_to_skip_now in H.
  destruct (s2s_sent (ss_n ss)) eqn:S; cbn [negb andb] in H; [injection H as <- <-; congruence|].
  destruct (is_weak_quorum e (st_nos (ss_t ss) - st_top (ss_t ss))) eqn:W; cbn [andb] in H; [|injection H as <- <-; congruence].
  destruct (alookup (own e) (vo_notar (ss_v ss))) as [h|] eqn:O; [|injection H as <- <-; congruence].
  injection H as <- <-. repeat split; auto. exists h. reflexivity.
Qed.
