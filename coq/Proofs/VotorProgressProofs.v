(* Progress ("enabling") lemmas about the Votor model (Model/Votor.v) - C02, clause P2:
   in EVERY well-formed Votor state (an invariant of all event sequences, proved here) each handler casts
   the vote the protocol needs for progress, and Votor never panics on events the pool can emit. *)
From Coq Require Import List NArith Bool Lia ZifyBool ZifyNat ZifyN FinFun.
From AG Require Import Gen.Params Model.Pool Model.Votor Proofs.SlotStateProofs.
Import ListNotations.
Open Scope N_scope.

Ltac splits := repeat match goal with |- _ /\ _ => split end.

(* ---------- windows ---------- *)
Lemma spw_nonzero : SLOTS_PER_WINDOW <> 0.
Proof. discriminate. Qed.

Lemma window_first_le s : window_first s <= s.
Proof. unfold window_first. rewrite N.mul_comm. apply N.mul_div_le. exact spw_nonzero. Qed.

Lemma window_first_mono a b : a <= b -> window_first a <= window_first b.
Proof.
  intros H. unfold window_first. apply N.mul_le_mono_r. apply N.div_le_mono; [exact spw_nonzero | exact H].
Qed.

Lemma window_first_idem s : window_first (window_first s) = window_first s.
Proof. unfold window_first. rewrite N.div_mul by exact spw_nonzero. reflexivity. Qed.

Lemma window_first_is_start s : is_window_start (window_first s) = true.
Proof. unfold is_window_start, window_first. rewrite N.mod_mul by exact spw_nonzero. reflexivity. Qed.

(* a slot at or above a window start lies in a window at or above it *)
Lemma window_first_lower h s : window_first h <= s -> window_first h <= window_first s.
Proof. intros H. rewrite <- (window_first_idem h). apply window_first_mono. exact H. Qed.

Lemma in_seqN lo len x : In x (seqN lo len) <-> lo <= x < lo + N.of_nat len.
Proof.
  unfold seqN. rewrite in_map_iff. split.
  - intros [i [<- Hi]]. apply in_seq in Hi. lia.
  - intros H. exists (N.to_nat (x - lo)). split; [lia|]. apply in_seq. lia.
Qed.
Lemma nodup_seqN lo len : NoDup (seqN lo len).
Proof.
  unfold seqN. apply Injective_map_NoDup; [|apply seq_NoDup]. intros a b H. lia.
Qed.
Definition window_slots (s : slot) : list slot := seqN (window_first s) (N.to_nat SLOTS_PER_WINDOW).
Lemma window_slots_ge s s' : In s' (window_slots s) -> window_first s <= s'.
Proof. unfold window_slots. rewrite in_seqN. lia. Qed.
Lemma self_in_window s : In s (window_slots s).
Proof.
  unfold window_slots. rewrite in_seqN. split; [apply window_first_le|].
  unfold window_first. pose proof (N.mod_upper_bound s SLOTS_PER_WINDOW spw_nonzero) as Hm.
  pose proof (N.div_mod s SLOTS_PER_WINDOW spw_nonzero) as Hd. lia.
Qed.

(* ---------- association-list keys ---------- *)
Lemma in_ainsert {V} k (v : V) m k' v' : In (k', v') (ainsert k v m) -> (k' = k /\ v' = v) \/ In (k', v') m.
Proof.
  induction m as [|[k2 v2] m IH]; cbn [ainsert]; intros H.
  - destruct H as [H|[]]. injection H as <- <-. left. auto.
  - destruct (k =? k2) eqn:E.
    + destruct H as [H|H]; [injection H as <- <-; left; auto | right; right; exact H].
    + destruct H as [H|H]; [right; left; exact H|]. destruct (IH H) as [?|?]; [left; assumption | right; right; assumption].
Qed.
Lemma keys_ainsert {V} k (v : V) m : forall x, In x (map fst (ainsert k v m)) -> x = k \/ In x (map fst m).
Proof.
  intros x H. apply in_map_iff in H. destruct H as [[k' v'] [<- Hin]]. cbn [fst].
  destruct (in_ainsert _ _ _ _ _ Hin) as [[-> _]|H]; [left; reflexivity | right].
  apply in_map_iff. exists (k', v'). auto.
Qed.
Lemma nodup_ainsert {V} k (v : V) m : NoDup (map fst m) -> NoDup (map fst (ainsert k v m)).
Proof.
  induction m as [|[k2 v2] m IH]; cbn [ainsert map fst]; intros H.
  - constructor; [intros [] | constructor].
  - destruct (k =? k2) eqn:E; cbn [map fst].
    + apply N.eqb_eq in E. subst. exact H.
    + inversion H as [|? ? Hn Hd]; subst. constructor; [|apply IH; exact Hd].
      intros Hin. destruct (keys_ainsert _ _ _ _ Hin) as [->|Hin']; [rewrite N.eqb_refl in E; discriminate | contradiction].
Qed.
Lemma alookup_in {V} k (v : V) m : alookup k m = Some v -> In (k, v) m.
Proof.
  induction m as [|[k2 v2] m IH]; cbn [alookup]; [discriminate|].
  destruct (k =? k2) eqn:E; intros H.
  - apply N.eqb_eq in E. subst. injection H as ->. left. reflexivity.
  - right. apply IH. exact H.
Qed.

(* ---------- the invariant ---------- *)
(* every retained slot state belongs to the window of the highest final certificate or a later one;
   keys are unique (BTreeMap) *)
Definition votor_wf (t : votor) : Prop :=
  NoDup (map fst (vt_slots t)) /\ forall s st, In (s, st) (vt_slots t) -> v_first_unpruned t <= s.

Lemma votor_init_wf : votor_wf votor_init.
Proof.
  split.
  - cbn [votor_init vt_slots map fst]. constructor; [intros [] | constructor].
  - intros s st H. cbn [votor_init vt_slots] in H. destruct H as [H|[]]. injection H as <- <-.
    exact (window_first_le 0).
Qed.

Lemma vset_wf t s st : votor_wf t -> v_first_unpruned t <= s -> votor_wf (vset t s st).
Proof.
  intros [Hn Hk] Hs. split.
  - unfold vset. cbn [vt_slots]. apply nodup_ainsert. exact Hn.
  - intros s' st' Hin. unfold vset in Hin. cbn [vt_slots] in Hin.
    unfold v_first_unpruned, vset. cbn [vt_highest].
    destruct (in_ainsert _ _ _ _ _ Hin) as [[-> _]|H]; [exact Hs | apply (Hk _ _ H)].
Qed.
Lemma vset_first t s st : v_first_unpruned (vset t s st) = v_first_unpruned t.
Proof. reflexivity. Qed.
Lemma vset_panicked t s st : vt_panicked (vset t s st) = vt_panicked t.
Proof. reflexivity. Qed.

Lemma vget_vset_same t s st : vget (vset t s st) s = Some st.
Proof. unfold vget, vset. cbn [vt_slots]. apply alookup_ainsert_same. Qed.
Lemma vget_vset_other t s st s' : s' <> s -> vget (vset t s st) s' = vget t s'.
Proof. intros H. unfold vget, vset. cbn [vt_slots]. apply alookup_ainsert_other. exact H. Qed.
Lemma vstate_vset_same t s st : vstate (vset t s st) s = st.
Proof. unfold vstate, aget. fold (vget (vset t s st) s). rewrite vget_vset_same. reflexivity. Qed.
Lemma v_voted_vset t s st s' : v_voted (vset t s st) s' = if s' =? s then vs_voted st else v_voted t s'.
Proof.
  unfold v_voted. destruct (s' =? s) eqn:E.
  - apply N.eqb_eq in E. subst. rewrite vget_vset_same. reflexivity.
  - rewrite vget_vset_other by (apply N.eqb_neq; exact E). reflexivity.
Qed.

(* ---------- try_final ---------- *)
Lemma try_final_some own t s h : v_first_unpruned t <= s -> exists t' o, v_try_final own t s h = Some (t', o).
Proof.
  intros H. unfold v_try_final. apply N.ltb_ge in H. rewrite H.
  match goal with |- context [if ?c then _ else _] => destruct c end; eauto.
Qed.
Lemma try_final_wf own t s h t' o : votor_wf t -> v_try_final own t s h = Some (t', o) ->
  votor_wf t' /\ v_first_unpruned t' = v_first_unpruned t /\ vt_panicked t' = vt_panicked t /\
  (forall s', s' <> s -> vget t' s' = vget t s') /\ v_voted t' s = v_voted t s /\
  (forall s', (match vget t' s' with Some x => vs_pending x | None => None end) = (match vget t s' with Some x => vs_pending x | None => None end)).
Proof.
  intros Hw H. unfold v_try_final in H. destruct (s <? v_first_unpruned t) eqn:F; [discriminate|].
  apply N.ltb_ge in F.
  match type of H with context [if ?c then _ else _] => destruct c eqn:C end; injection H as <- <-.
  - split; [apply vset_wf; assumption|]. split; [reflexivity|]. split; [reflexivity|].
    split; [intros s' Hne; apply vget_vset_other; exact Hne|]. split.
    + rewrite v_voted_vset, N.eqb_refl. cbn [vs_voted]. unfold vstate, aget, v_voted, vget. destruct (alookup s (vt_slots t)); reflexivity.
    + intros s'. destruct (N.eq_dec s' s) as [->|Hne].
      * rewrite vget_vset_same. cbn [vs_pending]. unfold vstate, aget, vget. destruct (alookup s (vt_slots t)); reflexivity.
      * rewrite vget_vset_other by exact Hne. reflexivity.
  - splits; auto.
Qed.

(* a notarization certificate for the block the node voted for, window not marked bad: finalize *)
Lemma try_final_votes own t s h x :
  v_first_unpruned t <= s -> vget t s = Some x -> vs_notarized x = Some h -> vs_voted_notar x = Some h -> vs_bad x = false ->
  exists t', v_try_final own t s h = Some (t', [VBVote (mkVote s KFinal own)]) /\ v_retired t' s = true.
Proof.
  intros F G Hn Hv Hb. unfold v_try_final. apply N.ltb_ge in F. rewrite F, G, Hn, Hv, Hb.
  unfold opt_hash_eqb. rewrite N.eqb_refl. cbn [andb negb].
  eexists. split; [reflexivity|]. unfold v_retired. rewrite vget_vset_same. reflexivity.
Qed.

(* ---------- try_skip_window ---------- *)
Definition skip_fold (own : vidx) :=
  (fun (acc : votor * list vout) s' =>
     let '(t', o) := acc in
     if v_voted t' s' then acc
     else let x := vstate t' s' in
          (vset t' s' (mkVS true (vs_voted_notar x) true (vs_notarized x) (vs_parents x) (vs_shred x) (vs_pending x) (vs_retired x)),
           o ++ [VBVote (mkVote s' KSkip own)])).

Lemma skip_fold_spec own : forall slots t o t' o',
  NoDup slots -> votor_wf t -> (forall s', In s' slots -> v_first_unpruned t <= s') ->
  fold_left (skip_fold own) slots (t, o) = (t', o') ->
  votor_wf t' /\ v_first_unpruned t' = v_first_unpruned t /\ vt_panicked t' = vt_panicked t /\
  (forall s', In s' slots -> v_voted t' s' = true) /\
  (forall s', ~ In s' slots -> vget t' s' = vget t s') /\
  (forall x, In x o -> In x o') /\
  (forall s', In s' slots -> v_voted t s' = false -> In (VBVote (mkVote s' KSkip own)) o').
Proof.
  induction slots as [|a l IH]; intros t o t' o' Hnd Hw Hge H; cbn [fold_left] in H.
  - injection H as <- <-. splits; auto; intros s' [].
  - inversion Hnd as [|? ? Hna Hnl]; subst.
    unfold skip_fold at 2 in H. destruct (v_voted t a) eqn:Va.
    + destruct (IH _ _ _ _ Hnl Hw (fun s' Hs => Hge s' (or_intror Hs)) H) as (W & F & P & V & G & O & S).
      splits; auto.
      * intros s' [<-|Hs]; [|apply V; exact Hs].
        unfold v_voted. rewrite (G a Hna). exact Va.
      * intros s' Hn. apply G. intros Hin. apply Hn. right. exact Hin.
      * intros s' [<-|Hs] Hv; [congruence | apply S; assumption].
    + set (t1 := vset t a _) in H.
      assert (W1 : votor_wf t1) by (apply vset_wf; [exact Hw | apply Hge; left; reflexivity]).
      destruct (IH _ _ _ _ Hnl W1 (fun s' Hs => Hge s' (or_intror Hs)) H) as (W & F & P & V & G & O & S).
      splits; auto.
      * intros s' [<-|Hs]; [|apply V; exact Hs].
        unfold v_voted. rewrite (G a Hna). unfold t1. rewrite vget_vset_same. reflexivity.
      * intros s' Hn. rewrite G by (intros Hin; apply Hn; right; exact Hin).
        unfold t1. apply vget_vset_other. intros ->. apply Hn. left. reflexivity.
      * intros x Hx. apply O. apply in_or_app. left. exact Hx.
      * intros s' [<-|Hs] Hv.
        -- apply O. apply in_or_app. right. left. reflexivity.
        -- apply S; [exact Hs|]. unfold t1. rewrite v_voted_vset.
           destruct (s' =? a) eqn:E; [apply N.eqb_eq in E; subst; contradiction | exact Hv].
Qed.

Theorem skip_window_complete : forall own t s,
  votor_wf t -> v_first_unpruned t <= s ->
  exists t' o, v_try_skip_window own t s = Some (t', o) /\
    votor_wf t' /\ v_first_unpruned t' = v_first_unpruned t /\ vt_panicked t' = vt_panicked t /\
    (forall s', In s' (window_slots s) -> v_voted t' s' = true) /\
    (forall s', ~ In s' (window_slots s) -> vget t' s' = vget t s') /\
    (forall s', In s' (window_slots s) -> v_voted t s' = false -> In (VBVote (mkVote s' KSkip own)) o).
Proof.
  intros own t s Hw Hs. unfold v_try_skip_window. apply N.ltb_ge in Hs. rewrite Hs. apply N.ltb_ge in Hs.
  fold (skip_fold own). fold (window_slots s).
  destruct (fold_left (skip_fold own) (window_slots s) (t, [])) as [t' o] eqn:E.
  exists t', o. split; [reflexivity|].
  assert (Hge : forall s', In s' (window_slots s) -> v_first_unpruned t <= s').
  { intros s' Hin. apply window_slots_ge in Hin. unfold v_first_unpruned in *. pose proof (window_first_lower _ _ Hs). lia. }
  destruct (skip_fold_spec own _ _ _ _ _ (nodup_seqN _ _) Hw Hge E) as (W & F & P & V & G & O & S).
  splits; auto.
Qed.

(* ---------- try_notar ---------- *)
Definition parent_ok (t : votor) (s : slot) (parent : blockid) : Prop :=
  if s =? window_first s
  then exists x, vget t s = Some x /\ existsb (bid_eqb parent) (vs_parents x) = true
  else fst parent = s - 1 /\ exists x, vget t (s - 1) = Some x /\ vs_voted_notar x = Some (snd parent).

Lemma try_notar_total own t s h parent : votor_wf t -> v_first_unpruned t <= s ->
  exists t' o b, v_try_notar own t s h parent = Some (t', o, b) /\ votor_wf t' /\
    v_first_unpruned t' = v_first_unpruned t /\ vt_panicked t' = vt_panicked t /\
    (forall s', s' <> s -> vget t' s' = vget t s') /\
    (b = false -> t' = t /\ o = []) /\
    (b = true -> In (VBVote (mkVote s (KNotar h) own)) o /\ v_voted t' s = true /\
                 (exists x, vget t' s = Some x /\ vs_voted_notar x = Some h /\ vs_pending x = None)).
Proof.
  intros Hw Hs. unfold v_try_notar. apply N.ltb_ge in Hs. rewrite Hs. apply N.ltb_ge in Hs.
  destruct (v_voted t s) eqn:V.
  { exists t, [], false. splits; auto; discriminate. }
  match goal with |- context [if negb ?c then _ else _] => destruct c eqn:OK end; cbn [negb].
  2:{ exists t, [], false. splits; auto; discriminate. }
  set (t1 := vset t s _).
  assert (W1 : votor_wf t1) by (apply vset_wf; assumption).
  destruct (try_final_some own t1 s h Hs) as [t2 [o2 TF]]. rewrite TF.
  destruct (try_final_wf own t1 s h t2 o2 W1 TF) as (W2 & F2 & P2 & G2 & V2 & Pd2).
  exists t2, (VBVote (mkVote s (KNotar h) own) :: o2), true.
  split; [reflexivity|]. split; [exact W2|]. split; [rewrite F2; reflexivity|]. split; [rewrite P2; reflexivity|].
  split. { intros s' Hne. rewrite G2 by exact Hne. unfold t1. apply vget_vset_other. exact Hne. }
  split. { discriminate. }
  intros _. split; [left; reflexivity|]. split.
  { rewrite V2. unfold t1. rewrite v_voted_vset, N.eqb_refl. reflexivity. }
  unfold v_try_final in TF. subst t1. rewrite vset_first in TF. apply N.ltb_ge in Hs. rewrite Hs in TF.
  rewrite vget_vset_same in TF. cbn [vs_notarized vs_voted_notar vs_bad] in TF.
  match type of TF with context [if ?c then _ else _] => destruct c end; injection TF as <- <-.
  - eexists. rewrite vget_vset_same. split; [reflexivity|]. cbn [vs_voted_notar vs_pending].
    rewrite !vstate_vset_same. cbn [vs_voted_notar vs_pending]. auto.
  - eexists. rewrite vget_vset_same. cbn [vs_voted_notar vs_pending]. auto.
Qed.

Lemma try_notar_votes own t s h parent : votor_wf t -> v_first_unpruned t <= s ->
  v_voted t s = false -> parent_ok t s parent ->
  exists t' o, v_try_notar own t s h parent = Some (t', o, true).
Proof.
  intros Hw Hs V Hp. unfold v_try_notar. apply N.ltb_ge in Hs. rewrite Hs, V. apply N.ltb_ge in Hs.
  assert (OK : (if s =? window_first s
        then match vget t s with Some x => existsb (bid_eqb parent) (vs_parents x) | None => false end
        else (fst parent =? s - 1) && match vget t (fst parent) with Some x => opt_hash_eqb (vs_voted_notar x) (snd parent) | None => false end) = true).
  { unfold parent_ok in Hp. destruct (s =? window_first s).
    - destruct Hp as [x [G E]]. rewrite G. exact E.
    - destruct Hp as [E [x [G Hv]]]. rewrite E, N.eqb_refl, G, Hv. unfold opt_hash_eqb. rewrite N.eqb_refl. reflexivity. }
  rewrite OK. cbn [negb].
  set (t1 := vset t s _).
  destruct (try_final_some own t1 s h Hs) as [t2 [o2 TF]]. rewrite TF. eauto.
Qed.

(* ---------- check_pending_blocks ---------- *)
Definition pending_step (own : vidx) :=
  (fun (acc : vres) s =>
     match acc with
     | None => None
     | Some (t', o) =>
       match vget t' s with
       | Some x => match vs_pending x with
                   | Some (h, p) => match v_try_notar own t' s h p with
                                    | None => None
                                    | Some (t'', o', _) => Some (t'', o ++ o')
                                    end
                   | None => Some (t', o)
                   end
       | None => Some (t', o)
       end
     end).

Lemma in_insert_sorted x y l : In x (slot_insert_sorted' y l) <-> x = y \/ In x l.
Proof.
  induction l as [|z l IH]; cbn [slot_insert_sorted'].
  - cbn. intuition congruence.
  - destruct (z <? y); cbn [In]; [rewrite IH|]; intuition congruence.
Qed.
Lemma in_sorted_keys x l : In x (fold_right slot_insert_sorted' [] l) <-> In x l.
Proof.
  induction l as [|z l IH]; cbn [fold_right]; [tauto|]. rewrite in_insert_sorted, IH. cbn. intuition congruence.
Qed.

(* all slots visited are retained slots, so nothing panics and the invariant is kept *)
Lemma pending_fold_wf own : forall slots t o,
  votor_wf t -> (forall s, In s slots -> v_first_unpruned t <= s) ->
  exists t' o', fold_left (pending_step own) slots (Some (t, o)) = Some (t', o') /\ votor_wf t' /\
    v_first_unpruned t' = v_first_unpruned t /\ vt_panicked t' = vt_panicked t /\
    (forall x, In x o -> In x o') /\
    (forall s, ~ In s slots -> vget t' s = vget t s).
Proof.
  induction slots as [|a l IH]; intros t o Hw Hge; cbn [fold_left].
  - exists t, o. splits; auto.
  - unfold pending_step at 2.
    assert (Ha : v_first_unpruned t <= a) by (apply Hge; left; reflexivity).
    assert (Hl : forall t1, v_first_unpruned t1 = v_first_unpruned t -> forall s, In s l -> v_first_unpruned t1 <= s).
    { intros t1 E s Hs. rewrite E. apply Hge. right. exact Hs. }
    destruct (vget t a) as [x|] eqn:G.
    2:{ destruct (IH t o Hw (Hl t eq_refl)) as (t' & o' & E & W & F & P & O & Gs).
        exists t', o'. splits; auto. intros s Hn. apply Gs. intros Hin. apply Hn. right. exact Hin. }
    destruct (vs_pending x) as [[h p]|] eqn:Pe.
    2:{ destruct (IH t o Hw (Hl t eq_refl)) as (t' & o' & E & W & F & P & O & Gs).
        exists t', o'. splits; auto. intros s Hn. apply Gs. intros Hin. apply Hn. right. exact Hin. }
    destruct (try_notar_total own t a h p Hw Ha) as (t1 & o1 & b & TN & W1 & F1 & P1 & G1 & _).
    rewrite TN.
    destruct (IH t1 (o ++ o1) W1 (Hl t1 F1)) as (t' & o' & E & W & F & P & O & Gs).
    exists t', o'. splits; auto; try congruence.
    + intros y Hy. apply O. apply in_or_app. left. exact Hy.
    + intros s Hn. rewrite Gs by (intros Hin; apply Hn; right; exact Hin).
      apply G1. intros ->. apply Hn. left. reflexivity.
Qed.

Lemma check_pending_wf own t : votor_wf t ->
  exists t' o, v_check_pending own t = Some (t', o) /\ votor_wf t' /\
    v_first_unpruned t' = v_first_unpruned t /\ vt_panicked t' = vt_panicked t.
Proof.
  intros Hw. unfold v_check_pending. fold (pending_step own).
  set (slots := fold_right slot_insert_sorted' [] _).
  assert (Hge : forall s, In s slots -> v_first_unpruned t <= s).
  { intros s Hin. unfold slots in Hin. apply (proj1 (in_sorted_keys _ _)) in Hin. apply in_map_iff in Hin.
    destruct Hin as [[k v] [<- Hin]]. apply filter_In in Hin. destruct Hin as [Hin _]. cbn [fst].
    destruct Hw as [_ Hk]. apply (Hk _ _ Hin). }
  destruct (pending_fold_wf own slots t [] Hw Hge) as (t' & o' & E & W & F & P & _).
  exists t', o'. auto.
Qed.

(* the pending block of a window's first slot gets its notarization vote as soon as its parent is ready:
   slots visited before it never touch its state *)
Lemma pending_fold_votes own s h p : (s =? window_first s) = true -> forall slots t o x,
  votor_wf t -> (forall s', In s' slots -> v_first_unpruned t <= s') -> In s slots ->
  vget t s = Some x -> vs_pending x = Some (h, p) -> vs_voted x = false ->
  existsb (bid_eqb p) (vs_parents x) = true ->
  exists t' o', fold_left (pending_step own) slots (Some (t, o)) = Some (t', o') /\
    In (VBVote (mkVote s (KNotar h) own)) o' /\ votor_wf t' /\
    v_first_unpruned t' = v_first_unpruned t /\ vt_panicked t' = vt_panicked t /\ v_voted t' s = true.
Proof.
  intros Hws. induction slots as [|a l IH]; intros t o x Hw Hge Hin G Pe Hv Hpar; [destruct Hin|].
  cbn [fold_left]. unfold pending_step at 2.
  assert (Ha : v_first_unpruned t <= a) by (apply Hge; left; reflexivity).
  assert (Hl : forall t1, v_first_unpruned t1 = v_first_unpruned t -> forall s', In s' l -> v_first_unpruned t1 <= s').
  { intros t1 E s' Hs'. rewrite E. apply Hge. right. exact Hs'. }
  destruct (N.eq_dec a s) as [->|Hne].
  - rewrite G, Pe.
    assert (Hpo : parent_ok t s p) by (unfold parent_ok; rewrite Hws; exists x; auto).
    assert (Hvv : v_voted t s = false) by (unfold v_voted; rewrite G; exact Hv).
    destruct (try_notar_votes own t s h p Hw Ha Hvv Hpo) as (t1 & o1 & TN). rewrite TN.
    destruct (try_notar_total own t s h p Hw Ha) as (t1' & o1' & b & TN' & W1 & F1 & P1 & G1 & _ & Bt).
    rewrite TN in TN'. injection TN' as <- <- <-.
    destruct (Bt eq_refl) as (Hin1 & Hvoted & _).
    destruct (pending_fold_wf own l t1 (o ++ o1) W1 (Hl t1 F1)) as (t' & o' & E & W & F & P & O & Gs).
    exists t', o'. splits; auto; try congruence.
    + apply O. apply in_or_app. right. exact Hin1.
    + (* later visits of other slots leave slot s alone; a second visit of s finds it voted *)
      clear - E W1 Hvoted F1 Hl. revert t1 o o1 t' o' E W1 Hvoted F1 Hl.
      induction l as [|a2 l2 IH2]; intros t1 o o1 t' o' E W1 Hvoted F1 Hl; cbn [fold_left] in E.
      * injection E as <- _. exact Hvoted.
      * unfold pending_step at 2 in E.
        assert (Ha2 : v_first_unpruned t1 <= a2) by (apply (Hl t1 F1); left; reflexivity).
        assert (Hl2 : forall t2, v_first_unpruned t2 = v_first_unpruned t1 ->
                  forall t3, v_first_unpruned t3 = v_first_unpruned t -> forall s', In s' l2 -> v_first_unpruned t3 <= s').
        { intros t2 _ t3 E3 s' Hs'. apply (Hl t3 E3). right. exact Hs'. }
        destruct (vget t1 a2) as [x2|] eqn:G2.
        2:{ apply (IH2 t1 o o1 t' o' E W1 Hvoted F1). intros t3 E3 s' Hs'. apply (Hl t3 E3). right. exact Hs'. }
        destruct (vs_pending x2) as [[h2 p2]|] eqn:Pe2.
        2:{ apply (IH2 t1 o o1 t' o' E W1 Hvoted F1). intros t3 E3 s' Hs'. apply (Hl t3 E3). right. exact Hs'. }
        destruct (try_notar_total own t1 a2 h2 p2 W1 Ha2) as (t2 & o2 & b2 & TN2 & W2 & F2 & P2 & Gt2 & Bf2 & Bt2).
        rewrite TN2 in E.
        assert (Hvoted2 : v_voted t2 s = true).
        { destruct (N.eq_dec s a2) as [->|Hn].
          - destruct b2; [destruct (Bt2 eq_refl) as (_ & Hv2 & _); exact Hv2 | destruct (Bf2 eq_refl) as [-> _]; exact Hvoted].
          - unfold v_voted. rewrite Gt2 by exact Hn. exact Hvoted. }
        replace (o ++ o1 ++ o2) with (o ++ (o1 ++ o2)) in E by reflexivity.
        rewrite <- app_assoc in E.
        apply (IH2 t2 o (o1 ++ o2) t' o' E W2 Hvoted2 (eq_trans F2 F1)).
        intros t3 E3 s' Hs'. apply (Hl t3 E3). right. exact Hs'.
  - destruct Hin as [->|Hin]; [congruence|].
    destruct (vget t a) as [xa|] eqn:Ga.
    2:{ apply (IH t o x Hw (Hl t eq_refl) Hin G Pe Hv Hpar). }
    destruct (vs_pending xa) as [[ha pa]|] eqn:Pa.
    2:{ apply (IH t o x Hw (Hl t eq_refl) Hin G Pe Hv Hpar). }
    destruct (try_notar_total own t a ha pa Hw Ha) as (t1 & o1 & b & TN & W1 & F1 & P1 & G1 & _).
    rewrite TN.
    assert (Gs : vget t1 s = Some x) by (rewrite G1 by (intros E; apply Hne; symmetry; exact E); exact G).
    destruct (IH t1 (o ++ o1) x W1 (Hl t1 F1) Hin Gs Pe Hv Hpar) as (t' & o' & E & I & W & F & P & V).
    exists t', o'. splits; auto; congruence.
Qed.

(* ---------- the handlers keep the invariant and never panic ---------- *)
Lemma not_old_ge t s : v_old t s = false -> v_first_unpruned t <= s.
Proof.
  unfold v_old. intros H. apply orb_false_elim in H. destruct H as [H _]. apply N.leb_gt in H.
  pose proof (window_first_le (vt_highest t)). unfold v_first_unpruned. lia.
Qed.

Lemma prune_wf t : NoDup (map fst (vt_slots t)) -> votor_wf (v_prune t).
Proof.
  intros Hn. split.
  - unfold v_prune. cbn [vt_slots]. induction (vt_slots t) as [|[k v] l IH]; cbn [filter map fst]; [constructor|].
    cbn [map fst] in Hn. inversion Hn as [|? ? Hni Hnd]; subst.
    destruct (v_first_unpruned t <=? k); cbn [map fst]; [|apply IH; exact Hnd].
    constructor; [|apply IH; exact Hnd]. intros Hin. apply Hni.
    apply in_map_iff in Hin. destruct Hin as [[k' v'] [E Hin]]. apply filter_In in Hin. destruct Hin as [Hin _].
    apply in_map_iff. exists (k', v'). auto.
  - intros s st Hin. unfold v_prune in Hin. cbn [vt_slots] in Hin. apply filter_In in Hin. destruct Hin as [_ H].
    cbn [fst] in H. apply N.leb_le in H. exact H.
Qed.

(* events the pool can emit: ParentReady only for the first slot of a window (Votor asserts it) *)
Definition vin_ok (i : vin) : Prop :=
  match i with VPool (EParentReady s _) => is_window_start s = true | _ => True end.

Lemma set_bad_wf t s : votor_wf t -> v_first_unpruned t <= s -> votor_wf (set_bad t s).
Proof. intros Hw Hs. unfold set_bad. apply vset_wf; assumption. Qed.

Theorem votor_step_wf : forall own t i,
  votor_wf t -> vin_ok i -> vt_panicked t = false ->
  votor_wf (fst (fst (votor_step own t i))) /\ snd (votor_step own t i) = false /\
  vt_panicked (fst (fst (votor_step own t i))) = false.
Proof.
  intros own t i Hw Hok Hp. unfold votor_step. rewrite Hp.
  assert (Done : forall (r : vres), (exists t' o, r = Some (t', o) /\ votor_wf t' /\ vt_panicked t' = false) ->
     votor_wf (fst (fst (match r with None => (mkVotor (vt_slots t) (vt_highest t) true, [], true) | Some (t', o) => (t', o, false) end))) /\
     snd (match r with None => (mkVotor (vt_slots t) (vt_highest t) true, @nil vout, true) | Some (t', o) => (t', o, false) end) = false /\
     vt_panicked (fst (fst (match r with None => (mkVotor (vt_slots t) (vt_highest t) true, @nil vout, true) | Some (t', o) => (t', o, false) end))) = false).
  { intros r (t' & o & -> & W & P). cbn. auto. }
  apply Done. clear Done.
  destruct i as [e|s|s|s h parent|s|s].
  - (* pool event *)
    unfold v_handle_pool. destruct (v_should_ignore t e) eqn:Ig; [exists t, []; auto|].
    destruct e as [s p|[s h]|s|c|s cs vs|s p]; cbn [v_should_ignore pevent_slot fst] in Ig.
    + apply orb_false_elim in Ig. destruct Ig as [Ig _]. apply N.ltb_ge in Ig.
      set (t1 := vset t s _).
      assert (W1 : votor_wf t1) by (apply vset_wf; assumption).
      destruct (check_pending_wf own t1 W1) as (t2 & o2 & E & W2 & F2 & P2). rewrite E.
      cbn [vin_ok] in Hok. unfold v_set_timeouts. rewrite Hok.
      exists t2, (o2 ++ [VSetTimeouts s]). splits; auto. rewrite P2. exact Hp.
    + apply orb_false_elim in Ig. destruct Ig as [Ig _]. apply N.ltb_ge in Ig.
      destruct (skip_window_complete own t s Hw Ig) as (t1 & o1 & E & W1 & F1 & P1 & _). rewrite E.
      eexists _, _. split; [reflexivity|]. split; [apply set_bad_wf; [exact W1 | rewrite F1; exact Ig]|].
      unfold set_bad. rewrite vset_panicked, P1. exact Hp.
    + apply orb_false_elim in Ig. destruct Ig as [Ig _]. apply N.ltb_ge in Ig.
      destruct (skip_window_complete own t s Hw Ig) as (t1 & o1 & E & W1 & F1 & P1 & _). rewrite E.
      eexists _, _. split; [reflexivity|]. split; [apply set_bad_wf; [exact W1 | rewrite F1; exact Ig]|].
      unfold set_bad. rewrite vset_panicked, P1. exact Hp.
    + apply N.ltb_ge in Ig. unfold v_handle_cert.
      destruct (c_kind c) as [h|h| |h|].
      * set (t1 := vset t (c_slot c) _).
        assert (W1 : votor_wf t1) by (apply vset_wf; assumption).
        destruct (try_final_some own t1 (c_slot c) h Ig) as (t2 & o2 & TF). rewrite TF.
        destruct (try_final_wf own t1 _ h t2 o2 W1 TF) as (W2 & _ & P2 & _).
        eexists _, _. split; [reflexivity|]. split; [exact W2|]. rewrite P2. exact Hp.
      * eexists _, _. split; [reflexivity|]. auto.
      * eexists _, _. split; [reflexivity|]. auto.
      * unfold v_set_timeouts. rewrite window_first_is_start.
        eexists _, _. split; [reflexivity|]. split; [apply prune_wf; cbn [vt_slots]; apply Hw | exact Hp].
      * unfold v_set_timeouts. rewrite window_first_is_start.
        eexists _, _. split; [reflexivity|]. split; [apply prune_wf; cbn [vt_slots]; apply Hw | exact Hp].
    + eexists _, _. split; [reflexivity|]. auto.
    + eexists _, _. split; [reflexivity|]. auto.
  - destruct (v_old t s) eqn:O; [exists t, []; auto|].
    eexists _, _. split; [reflexivity|]. split; [apply vset_wf; [exact Hw | apply not_old_ge; exact O] | exact Hp].
  - destruct (v_old t s) eqn:O; [exists t, []; auto|].
    destruct (skip_window_complete own t s Hw (not_old_ge _ _ O)) as (t1 & o1 & E & W1 & F1 & P1 & _).
    exists t1, o1. splits; auto. congruence.
  - destruct (v_old t s) eqn:O; [exists t, []; auto|].
    destruct (v_voted t s) eqn:V; [exists t, []; auto|].
    destruct (try_notar_total own t s h parent Hw (not_old_ge _ _ O)) as (t1 & o1 & b & TN & W1 & F1 & P1 & G1 & Bf & Bt).
    rewrite TN. destruct b.
    + destruct (check_pending_wf own t1 W1) as (t2 & o2 & E & W2 & F2 & P2). rewrite E.
      eexists _, _. split; [reflexivity|]. split; [exact W2|]. congruence.
    + eexists _, _. split; [reflexivity|]. split; [|rewrite vset_panicked; congruence].
      apply vset_wf; [exact W1|]. rewrite F1. apply not_old_ge. exact O.
  - destruct (v_old t s) eqn:O; [exists t, []; auto|].
    destruct (v_voted t s) eqn:V; [exists t, []; auto|].
    destruct (skip_window_complete own t s Hw (not_old_ge _ _ O)) as (t1 & o1 & E & W1 & F1 & P1 & _).
    exists t1, o1. splits; auto. congruence.
  - destruct (v_old t s) eqn:O; [exists t, []; auto|].
    destruct (negb (v_shred t s) && negb (v_voted t s)); [|exists t, []; auto].
    destruct (skip_window_complete own t s Hw (not_old_ge _ _ O)) as (t1 & o1 & E & W1 & F1 & P1 & _).
    exists t1, o1. splits; auto. congruence.
Qed.

(* every state reachable from the initial one by events the pool / blockstore / timers can produce *)
Inductive votor_reach (own : vidx) : votor -> Prop :=
| vr_init : votor_reach own votor_init
| vr_step t i : votor_reach own t -> vin_ok i -> votor_reach own (fst (fst (votor_step own t i))).

Theorem votor_reach_wf own t : votor_reach own t -> votor_wf t /\ vt_panicked t = false.
Proof.
  induction 1 as [|t i Hr [Hw Hp] Hok]; [split; [apply votor_init_wf | reflexivity]|].
  destruct (votor_step_wf own t i Hw Hok Hp) as (W & _ & P). auto.
Qed.

(* ================= progress lemmas (C02 / P2) ================= *)
Lemma start_is_window_first s : is_window_start s = true -> (s =? window_first s) = true.
Proof.
  unfold is_window_start, window_first. intros H. apply N.eqb_eq in H. apply N.eqb_eq.
  pose proof (N.div_mod s SLOTS_PER_WINDOW spw_nonzero) as Hd. lia.
Qed.

(* (a) a block whose parent condition holds, in a slot that is neither old nor voted: notarization vote *)
Theorem block_then_notar : forall own t s h parent,
  votor_wf t -> vt_panicked t = false -> v_old t s = false -> v_voted t s = false -> parent_ok t s parent ->
  exists t' o, votor_step own t (VBlock s h parent) = (t', o, false) /\
    In (VBVote (mkVote s (KNotar h) own)) o /\ v_voted t' s = true /\ votor_wf t'.
Proof.
  intros own t s h parent Hw Hp O V Hpar. unfold votor_step. rewrite Hp, O, V.
  pose proof (not_old_ge _ _ O) as Hs.
  destruct (try_notar_votes own t s h parent Hw Hs V Hpar) as (t1 & o1 & TN). rewrite TN.
  destruct (try_notar_total own t s h parent Hw Hs) as (t1' & o1' & b & TN' & W1 & F1 & P1 & G1 & _ & Bt).
  rewrite TN in TN'. injection TN' as <- <- <-. destruct (Bt eq_refl) as (I1 & V1 & _).
  unfold v_check_pending. fold (pending_step own).
  set (slots := fold_right slot_insert_sorted' [] _).
  assert (Hge : forall s', In s' slots -> v_first_unpruned t1 <= s').
  { intros s' Hin. unfold slots in Hin. apply (proj1 (in_sorted_keys _ _)) in Hin. apply in_map_iff in Hin.
    destruct Hin as [[k v] [<- Hin]]. apply filter_In in Hin. destruct Hin as [Hin _]. cbn [fst].
    destruct W1 as [_ Hk]. apply (Hk _ _ Hin). }
  change (fold_left _ slots (Some (t1, []))) with (fold_left (pending_step own) slots (Some (t1, []))).
  destruct (pending_fold_wf own slots t1 [] W1 Hge) as (t2 & o2 & E & W2 & F2 & P2 & _ & G2). rewrite E.
  exists t2, (o1 ++ o2). split; [reflexivity|]. split; [apply in_or_app; left; exact I1|]. split; [|exact W2].
  (* the re-check of pending blocks does not un-vote slot s *)
  clearbody slots. clear - E V1 W1 Hge. revert t1 t2 o2 E V1 W1 Hge. generalize (@nil vout).
  induction slots as [|a l IH]; intros o t1 t2 o2 E V1 W1 Hge; cbn [fold_left] in E.
  - injection E as <- _. exact V1.
  - unfold pending_step at 2 in E.
    assert (Ha : v_first_unpruned t1 <= a) by (apply Hge; left; reflexivity).
    destruct (vget t1 a) as [x|] eqn:G; [|apply (IH _ _ _ _ E V1 W1); intros; apply Hge; right; assumption].
    destruct (vs_pending x) as [[h' p']|]; [|apply (IH _ _ _ _ E V1 W1); intros; apply Hge; right; assumption].
    destruct (try_notar_total own t1 a h' p' W1 Ha) as (t3 & o3 & b & TN & W3 & F3 & P3 & G3 & Bf & Bt).
    rewrite TN in E. apply (IH _ _ _ _ E); [|exact W3|intros s' Hs'; rewrite F3; apply Hge; right; exact Hs'].
    destruct (N.eq_dec s a) as [->|Hn].
    + destruct b; [destruct (Bt eq_refl) as (_ & Hv & _); exact Hv | destruct (Bf eq_refl) as [-> _]; exact V1].
    + unfold v_voted. rewrite G3 by exact Hn. exact V1.
Qed.

(* (a') the block came first (it is pending), then its parent becomes ready: notarization vote,
   and the timers of the window are armed *)
Theorem parent_ready_then_notar : forall own t s p h x,
  votor_wf t -> vt_panicked t = false -> is_window_start s = true ->
  v_first_unpruned t <= s -> v_retired t s = false ->
  vget t s = Some x -> vs_pending x = Some (h, p) -> vs_voted x = false ->
  exists t' o, votor_step own t (VPool (EParentReady s p)) = (t', o, false) /\
    In (VBVote (mkVote s (KNotar h) own)) o /\ In (VSetTimeouts s) o /\ v_voted t' s = true /\ votor_wf t'.
Proof.
  intros own t s p h x Hw Hp Hws Hs Hr G Pe Hv. unfold votor_step. rewrite Hp.
  unfold v_handle_pool. cbn [v_should_ignore pevent_slot]. apply N.ltb_ge in Hs. rewrite Hs, Hr. cbn [orb]. apply N.ltb_ge in Hs.
  assert (Ev : vstate t s = x) by (unfold vstate, aget; fold (vget t s); rewrite G; reflexivity). rewrite Ev.
  set (ps := if existsb (bid_eqb p) (vs_parents x) then vs_parents x else vs_parents x ++ [p]).
  assert (Hps : existsb (bid_eqb p) ps = true).
  { unfold ps. destruct (existsb (bid_eqb p) (vs_parents x)) eqn:E; [exact E|].
    rewrite existsb_app. cbn [existsb]. unfold bid_eqb at 2. rewrite !N.eqb_refl. cbn. apply orb_true_r. }
  set (x1 := mkVS (vs_voted x) (vs_voted_notar x) (vs_bad x) (vs_notarized x) ps (vs_shred x) (vs_pending x) (vs_retired x)).
  set (t1 := vset t s x1).
  assert (W1 : votor_wf t1) by (apply vset_wf; assumption).
  unfold v_check_pending. fold (pending_step own).
  set (slots := fold_right slot_insert_sorted' [] _).
  assert (Hge : forall s', In s' slots -> v_first_unpruned t1 <= s').
  { intros s' Hin. unfold slots in Hin. apply (proj1 (in_sorted_keys _ _)) in Hin. apply in_map_iff in Hin.
    destruct Hin as [[k v] [<- Hin]]. apply filter_In in Hin. destruct Hin as [Hin _]. cbn [fst].
    destruct W1 as [_ Hk]. apply (Hk _ _ Hin). }
  assert (G1 : vget t1 s = Some x1) by (unfold t1; apply vget_vset_same).
  assert (Hin : In s slots).
  { unfold slots. apply in_sorted_keys. apply in_map_iff. exists (s, x1). split; [reflexivity|].
    apply filter_In. split; [apply alookup_in; exact G1|]. cbn [snd]. unfold x1. cbn [vs_pending]. rewrite Pe. reflexivity. }
  destruct (pending_fold_votes own s h p (start_is_window_first s Hws) slots t1 [] x1 W1 Hge Hin G1) as (t2 & o2 & E & I2 & W2 & F2 & P2 & V2).
  { unfold x1. cbn [vs_pending]. exact Pe. } { exact Hv. } { exact Hps. }
  change (fold_left _ slots (Some (t1, []))) with (fold_left (pending_step own) slots (Some (t1, []))).
  rewrite E. unfold v_set_timeouts. rewrite Hws.
  exists t2, (o2 ++ [VSetTimeouts s]). split; [reflexivity|].
  split; [apply in_or_app; left; exact I2|]. split; [apply in_or_app; right; left; reflexivity|]. auto.
Qed.

(* (b) the notarization certificate for the block the node voted for, window not bad: finalization vote,
   and the certificate is handed on for broadcast *)
Theorem notar_cert_then_final : forall own t c h x,
  votor_wf t -> vt_panicked t = false -> c_kind c = CNotar h -> v_first_unpruned t <= c_slot c ->
  vget t (c_slot c) = Some x -> vs_voted_notar x = Some h -> vs_bad x = false ->
  exists t', votor_step own t (VPool (ECertCreated c)) =
             (t', [VBVote (mkVote (c_slot c) KFinal own); VBCert c], false) /\ v_retired t' (c_slot c) = true.
Proof.
  intros own t c h x Hw Hp Hk Hs G Hv Hb. unfold votor_step. rewrite Hp.
  unfold v_handle_pool. cbn [v_should_ignore pevent_slot]. apply N.ltb_ge in Hs. rewrite Hs. apply N.ltb_ge in Hs.
  unfold v_handle_cert. rewrite Hk.
  assert (Ev : vstate t (c_slot c) = x) by (unfold vstate, aget; fold (vget t (c_slot c)); rewrite G; reflexivity). rewrite Ev.
  set (t1 := vset t (c_slot c) _).
  destruct (try_final_votes own t1 (c_slot c) h _ Hs (vget_vset_same _ _ _)) as (t2 & TF & R); try reflexivity; try assumption.
  rewrite TF. exists t2. split; [reflexivity | exact R].
Qed.

(* (c) every certificate the pool reports for a slot Votor still tracks is handed to broadcast *)
Theorem cert_rebroadcast : forall own t c,
  votor_wf t -> vt_panicked t = false -> v_first_unpruned t <= c_slot c ->
  exists t' o, votor_step own t (VPool (ECertCreated c)) = (t', o ++ [VBCert c], false).
Proof.
  intros own t c Hw Hp Hs. unfold votor_step. rewrite Hp.
  unfold v_handle_pool. cbn [v_should_ignore pevent_slot]. apply N.ltb_ge in Hs. rewrite Hs. apply N.ltb_ge in Hs.
  unfold v_handle_cert. destruct (c_kind c) as [h|h| |h|].
  - set (t1 := vset t (c_slot c) _).
    destruct (try_final_some own t1 (c_slot c) h Hs) as (t2 & o2 & TF). rewrite TF. eauto.
  - exists t, []. reflexivity.
  - exists t, []. reflexivity.
  - unfold v_set_timeouts. rewrite window_first_is_start. eexists _, _. reflexivity.
  - unfold v_set_timeouts. rewrite window_first_is_start. eexists _, _. reflexivity.
Qed.

(* (d) a timer expiring for a slot that is neither old nor voted: skip votes for every unvoted slot of
   the window, after which every slot of the window has its initial vote *)
Theorem timeout_then_skip : forall own t s,
  votor_wf t -> vt_panicked t = false -> v_old t s = false -> v_voted t s = false ->
  exists t' o, votor_step own t (VTimeout s) = (t', o, false) /\
    (forall s', In s' (window_slots s) -> v_voted t s' = false -> In (VBVote (mkVote s' KSkip own)) o) /\
    (forall s', In s' (window_slots s) -> v_voted t' s' = true) /\ votor_wf t'.
Proof.
  intros own t s Hw Hp O V. unfold votor_step. rewrite Hp, O, V.
  destruct (skip_window_complete own t s Hw (not_old_ge _ _ O)) as (t1 & o1 & E & W1 & F1 & P1 & Vd & G & S).
  rewrite E. exists t1, o1. auto.
Qed.

(* (d') the early timer for a leader from whom nothing at all arrived *)
Theorem crashed_leader_timeout_then_skip : forall own t s,
  votor_wf t -> vt_panicked t = false -> v_old t s = false -> v_voted t s = false -> v_shred t s = false ->
  exists t' o, votor_step own t (VTimeoutCrashed s) = (t', o, false) /\
    (forall s', In s' (window_slots s) -> v_voted t s' = false -> In (VBVote (mkVote s' KSkip own)) o) /\
    (forall s', In s' (window_slots s) -> v_voted t' s' = true) /\ votor_wf t'.
Proof.
  intros own t s Hw Hp O V Sh. unfold votor_step. rewrite Hp, O, V, Sh. cbn [negb andb].
  destruct (skip_window_complete own t s Hw (not_old_ge _ _ O)) as (t1 & o1 & E & W1 & F1 & P1 & Vd & G & S).
  rewrite E. exists t1, o1. auto.
Qed.

(* (e) SafeToNotar / SafeToSkip: the fallback vote, skip votes for the rest of the window *)
Theorem safe_to_notar_then_fallback : forall own t s h,
  votor_wf t -> vt_panicked t = false -> v_first_unpruned t <= s -> v_retired t s = false ->
  exists t' o, votor_step own t (VPool (ESafeToNotar (s, h))) = (t', VBVote (mkVote s (KNotarFb h) own) :: o, false) /\
    (forall s', In s' (window_slots s) -> v_voted t s' = false -> In (VBVote (mkVote s' KSkip own)) o) /\ votor_wf t'.
Proof.
  intros own t s h Hw Hp Hs Hr. unfold votor_step. rewrite Hp.
  unfold v_handle_pool. cbn [v_should_ignore pevent_slot fst]. apply N.ltb_ge in Hs. rewrite Hs, Hr. cbn [orb]. apply N.ltb_ge in Hs.
  destruct (skip_window_complete own t s Hw Hs) as (t1 & o1 & E & W1 & F1 & P1 & Vd & G & S).
  rewrite E. eexists _, _. split; [reflexivity|]. split; [exact S|]. apply set_bad_wf; [exact W1 | rewrite F1; exact Hs].
Qed.

Theorem safe_to_skip_then_fallback : forall own t s,
  votor_wf t -> vt_panicked t = false -> v_first_unpruned t <= s -> v_retired t s = false ->
  exists t' o, votor_step own t (VPool (ESafeToSkip s)) = (t', VBVote (mkVote s KSkipFb own) :: o, false) /\
    (forall s', In s' (window_slots s) -> v_voted t s' = false -> In (VBVote (mkVote s' KSkip own)) o) /\ votor_wf t'.
Proof.
  intros own t s Hw Hp Hs Hr. unfold votor_step. rewrite Hp.
  unfold v_handle_pool. cbn [v_should_ignore pevent_slot]. apply N.ltb_ge in Hs. rewrite Hs, Hr. cbn [orb]. apply N.ltb_ge in Hs.
  destruct (skip_window_complete own t s Hw Hs) as (t1 & o1 & E & W1 & F1 & P1 & Vd & G & S).
  rewrite E. eexists _, _. split; [reflexivity|]. split; [exact S|]. apply set_bad_wf; [exact W1 | rewrite F1; exact Hs].
Qed.

(* (f) ParentReady for a window Votor still tracks arms the window's timers *)
Theorem timeouts_scheduled : forall own t s p,
  votor_wf t -> vt_panicked t = false -> is_window_start s = true -> v_first_unpruned t <= s -> v_retired t s = false ->
  exists t' o, votor_step own t (VPool (EParentReady s p)) = (t', o ++ [VSetTimeouts s], false).
Proof.
  intros own t s p Hw Hp Hws Hs Hr. unfold votor_step. rewrite Hp.
  unfold v_handle_pool. cbn [v_should_ignore pevent_slot]. apply N.ltb_ge in Hs. rewrite Hs, Hr. cbn [orb]. apply N.ltb_ge in Hs.
  set (t1 := vset t s _).
  assert (W1 : votor_wf t1) by (apply vset_wf; assumption).
  destruct (check_pending_wf own t1 W1) as (t2 & o2 & E & _). rewrite E.
  unfold v_set_timeouts. rewrite Hws. eauto.
Qed.
