(* Proofs about the composed node (Model/Node.v): the pool component of a node evolves exactly as the pool
   model under the pool operations among the node's inputs, whatever Votor does; hence the pool-level
   progress theorems hold for every node, and the certificates they produce reach Votor, which hands
   them to broadcast and reacts with the finalization vote (C02, clause P4). *)
From Coq Require Import List NArith Bool Lia.
From AG Require Import Gen.Params Model.Pool Model.PoolSpec Model.Votor Model.Node
  Proofs.SlotStateProofs Proofs.VotorProgressProofs Proofs.PoolProgressProofs Proofs.ReadyChainProofs.
Import ListNotations.
Open Scope N_scope.

Definition nin_op (i : nin) : pool_op := match nin_pool_op i with Some op => op | None => OpNoop end.

Lemma pool_step_noop e p : fst (fst (pool_step e p OpNoop)) = p.
Proof. unfold pool_step. destruct (p_panicked p); reflexivity. Qed.

Lemma node_step_pool e nd i : nd_pool (fst (node_step e nd i)) = fst (fst (pool_step e (nd_pool nd) (nin_op i))).
Proof.
  destruct i; cbn [node_step nin_op nin_pool_op];
    try (unfold node_pool_op;
         match goal with |- context [pool_step e ?p ?op] => destruct (pool_step e p op) as [[p' r] o] end;
         match goal with |- context [votor_feed ?a ?b ?c] => destruct (votor_feed a b c) as [t' outs] end; reflexivity);
    try (unfold node_votor_in;
         match goal with |- context [votor_step ?a ?b ?c] => destruct (votor_step a b c) as [[t' outs] pn] end;
         rewrite pool_step_noop; reflexivity).
Qed.

Theorem node_run_pool : forall e ins nd,
  nd_pool (fst (node_run e nd ins)) = pool_run e (nd_pool nd) (map nin_op ins).
Proof.
  intros e ins. induction ins as [|i l IH]; intros nd; cbn [node_run map pool_run]; [reflexivity|].
  destruct (node_step e nd i) as [nd1 o] eqn:E. destruct (node_run e nd1 l) as [nd2 os] eqn:E2. cbn [fst].
  pose proof (IH nd1) as H. rewrite E2 in H. cbn [fst] in H. rewrite H.
  pose proof (node_step_pool e nd i) as H1. rewrite E in H1. cbn [fst] in H1. rewrite H1. reflexivity.
Qed.

(* P4 for the composed node: every validator of V (a quorum, resp. a strong quorum, of the stake - e.g. the
   correct validators, who all had ParentReady and the block in time and therefore cast notar(s, h), lemma
   block_then_notar) has its notarization vote delivered to node q, in any order and interleaved with any
   other inputs that are not conflicting votes of V.  Then q's pool holds the notarization certificate
   (resp. also the fast-finalization certificate) for slot s - unless the slot was decided and pruned. *)
Theorem one_round_certificates : forall e V s h ins nd,
  0 < total_stake e -> pool_inv e (nd_pool nd) ->
  NoDup V -> (forall v, In v V -> v < nvals e) ->
  (forall v, In v V -> clean_for (p_ss (nd_pool nd) s) v h) ->
  Forall (fun i => harmless V s h (nin_op i)) ins ->
  (forall v, In v V -> In (NVote (mkVote s (KNotar h) v)) ins) ->
  s < finalized_slot (nd_pool nd) + 2 * SLOTS_PER_EPOCH ->
  let p' := nd_pool (fst (node_run e nd ins)) in
  p_panicked p' = false -> first_unpruned p' <= s ->
  (is_quorum e (stake_sum e V) = true -> ce_notar (ss_c (p_ss p' s)) <> None) /\
  (is_strong_quorum e (stake_sum e V) = true -> ce_ff (ss_c (p_ss p' s)) <> None).
Proof.
  intros e V s h ins nd Ht I NV Hval Hc Hh Hdel Hub. cbv zeta. rewrite node_run_pool.
  apply (quorum_of_votes_delivered e V s h); auto.
  - apply Forall_forall. intros op Hin. apply in_map_iff in Hin. destruct Hin as [i [<- Hi]].
    rewrite Forall_forall in Hh. apply Hh. exact Hi.
  - intros v Hv. apply in_map_iff. exists (NVote (mkVote s (KNotar h) v)). split; [reflexivity | apply Hdel; exact Hv].
Qed.

(* the invariant holds for the pool of every node started from the initial state *)
Theorem node_pool_inv : forall e ins,
  0 < total_stake e ->
  let p' := nd_pool (fst (node_run e node_init ins)) in
  p_panicked p' = false -> pool_inv e p'.
Proof.
  intros e ins Ht. cbv zeta. rewrite node_run_pool. intros Hp.
  apply (pool_run_inv e (map nin_op ins) pool_init Ht (pool_init_inv e Ht) Hp).
Qed.

(* what a pool operation reports reaches Votor in the same step: a created or received certificate is
   handed to broadcast (for slots Votor still tracks) *)
Lemma votor_feed_app own : forall a b t,
  votor_feed own t (a ++ b) =
  let '(t1, o1) := votor_feed own t a in let '(t2, o2) := votor_feed own t1 b in (t2, o1 ++ o2).
Proof.
  induction a as [|x a IH]; intros b t; cbn [votor_feed app].
  - destruct (votor_feed own t b). reflexivity.
  - destruct (votor_step own t (VPool x)) as [[t1 o1] pn]. rewrite IH.
    destruct (votor_feed own t1 a) as [t2 o2]. destruct (votor_feed own t2 b) as [t3 o3]. rewrite app_assoc. reflexivity.
Qed.

(* ================= Votor never panics inside a node =================
   The only Votor panic reachable from a pool event is the assertion in set_timeouts (ParentReady for a slot
   that does not start a window).  The pool only announces ParentReady for window starts, so in the composed
   node Votor keeps its invariant and never panics, for every input sequence. *)
Definition ev_ok (ev : pevent) : Prop :=
  match ev with EParentReady s _ => is_window_start s = true | _ => True end.
Definition evs_ok (l : list pevent) : Prop := forall ev, In ev l -> ev_ok ev.
Lemma evs_ok_app a b : evs_ok a -> evs_ok b -> evs_ok (a ++ b).
Proof. intros A B ev H. apply in_app_or in H. destruct H; auto. Qed.
Lemma evs_ok_nil : evs_ok []. Proof. intros ev []. Qed.

Definition pairs_ok (l : list (slot * blockid)) : Prop := forall x, In x l -> is_window_start (fst x) = true.
Lemma pr_events_ok l : pairs_ok l -> evs_ok (pr_events l).
Proof.
  intros H ev Hin. unfold pr_events in Hin. apply in_map_iff in Hin. destruct Hin as [x [<- Hx]]. cbn. apply H. exact Hx.
Qed.
Definition woken_only (l : list pevent) : Prop := forall ev, In ev l -> exists s p, ev = EWaiterWoken s p.
Lemma woken_ok l : woken_only l -> evs_ok l.
Proof. intros H ev Hin. destruct (H ev Hin) as (s & p & ->). exact I. Qed.

Lemma add_ready_woken t s id t' w : pr_add_to_ready t s id = Some (t', w) -> woken_only w.
Proof.
  unfold pr_add_to_ready. destruct (pr_ready (pt_get t s)) as [ids|].
  - destruct (existsb (bid_eqb id) ids); [discriminate|]. intros H; injection H as _ <-. intros ev [].
  - intros H; injection H as _ <-. destruct (pr_waiting (pt_get t s)); intros ev Hin; [|destruct Hin].
    destruct Hin as [<-|[]]. eauto.
Qed.


Lemma add_fold_acc s : forall parents t acc wk t' acc' wk',
  fold_left (add_fold s) parents (Some (t, acc, wk)) = Some (t', acc', wk') ->
  is_window_start s = true -> pairs_ok acc -> woken_only wk -> pairs_ok acc' /\ woken_only wk'.
Proof.
  induction parents as [|p l IH]; intros t acc wk t' acc' wk' H Hs Pa Wk; cbn [fold_left] in H.
  - injection H as _ <- <-. auto.
  - unfold add_fold at 2 in H. destruct (pr_add_to_ready t s p) as [[t1 w]|] eqn:A; [|rewrite add_fold_none in H; discriminate].
    apply (IH _ _ _ _ _ _ H Hs).
    + intros x Hx. apply in_app_or in Hx. destruct Hx as [Hx|[<-|[]]]; [apply Pa; exact Hx | exact Hs].
    + intros ev Hev. apply in_app_or in Hev. destruct Hev as [Hev|Hev]; [apply Wk; exact Hev | apply (add_ready_woken _ _ _ _ _ A); exact Hev].
Qed.

Lemma propagate_acc : forall fuel t s parents acc wk t' acc' wk',
  pt_propagate fuel t s parents acc wk = Some (t', acc', wk') ->
  pairs_ok acc -> woken_only wk -> pairs_ok acc' /\ woken_only wk'.
Proof.
  induction fuel as [|f IH]; intros t s parents acc wk t' acc' wk' H Pa Wk; [discriminate|].
  rewrite propagate_unfold in H.
  destruct (is_window_start s) eqn:Ws.
  - destruct (fold_left (add_fold s) parents (Some (t, acc, wk))) as [[[t1 acc1] wk1]|] eqn:F; [|discriminate].
    destruct (add_fold_acc _ _ _ _ _ _ _ _ F Ws Pa Wk) as [Pa1 Wk1].
    destruct (pr_skip (pt_get t1 s)); [apply (IH _ _ _ _ _ _ _ _ H Pa1 Wk1) | injection H as _ <- <-; auto].
  - destruct (pr_skip (pt_get t s)); [apply (IH _ _ _ _ _ _ _ _ H Pa Wk) | injection H as _ <- <-; auto].
Qed.

Lemma mark_nf_acc t b t' prs wk : pt_mark_notar_fallback t b = Some (t', prs, wk) -> pairs_ok prs /\ woken_only wk.
Proof.
  destruct b as [s h]. unfold pt_mark_notar_fallback.
  destruct (s <? pt_root t); [intros H; injection H as _ <- <-; split; intros x []|].
  destruct (memN h (pr_nfs (pt_get t s))); [intros H; injection H as _ <- <-; split; intros x []|].
  intros H. apply (propagate_acc _ _ _ _ _ _ _ _ _ H); intros x [].
Qed.
Lemma mark_skipped_acc t s t' prs wk : pt_mark_skipped t s = Some (t', prs, wk) -> pairs_ok prs /\ woken_only wk.
Proof.
  unfold pt_mark_skipped.
  destruct (s <? pt_root t); [intros H; injection H as _ <- <-; split; intros x []|].
  destruct (pr_skip (pt_get t s)); [intros H; injection H as _ <- <-; split; intros x []|].
  intros H. apply (propagate_acc _ _ _ _ _ _ _ _ _ H); intros x [].
Qed.

Lemma fin_step_acc (r : ptres) f :
  (forall t0 t1 a w, f t0 = Some (t1, a, w) -> pairs_ok a /\ woken_only w) ->
  (forall tt a w, r = Some (tt, a, w) -> pairs_ok a /\ woken_only w) ->
  forall tt a w, fin_step r f = Some (tt, a, w) -> pairs_ok a /\ woken_only w.
Proof.
  intros Hf Hr tt a w E. unfold fin_step in E. destruct r as [[[t0 a0] w0]|]; [|discriminate].
  destruct (f t0) as [[[t1 a1] w1]|] eqn:F; [|discriminate]. injection E as _ <- <-.
  destruct (Hf _ _ _ _ F) as [P1 W1]. destruct (Hr _ _ _ eq_refl) as [P0 W0]. split.
  - intros x Hx. apply in_app_or in Hx. destruct Hx; auto.
  - intros x Hx. apply in_app_or in Hx. destruct Hx; auto.
Qed.

Lemma handle_finalization_acc t ev t' prs wk :
  pt_handle_finalization t ev = Some (t', prs, wk) -> pairs_ok prs /\ woken_only wk.
Proof.
  intros H. rewrite hf_unfold in H.
  assert (H3 : forall tt a w, hf_r3 t ev = Some (tt, a, w) -> pairs_ok a /\ woken_only w).
  { unfold hf_r3.
    assert (H0 : forall tt a w, (Some (t, [], []) : ptres) = Some (tt, a, w) -> pairs_ok a /\ woken_only w).
    { intros tt a w E. injection E as _ <- <-. split; intros x []. }
    assert (H1 : forall tt a w, (match fe_final ev with
        | Some b => fin_step (Some (t, [], [])) (fun t' => pt_mark_notar_fallback t' b)
        | None => Some (t, [], []) end) = Some (tt, a, w) -> pairs_ok a /\ woken_only w).
    { destruct (fe_final ev) as [b|]; [|exact H0]. apply fin_step_acc; [|exact H0]. intros t0 t1 a w E. apply (mark_nf_acc _ _ _ _ _ E). }
    revert H1. generalize (match fe_final ev with
        | Some b => fin_step (Some (t, [], [])) (fun t' => pt_mark_notar_fallback t' b)
        | None => Some (t, [], []) end). intros r1 H1.
    assert (H2 : forall tt a w, fold_left (fun r b => fin_step r (fun t' => pt_mark_notar_fallback t' b)) (fe_impl_final ev) r1 = Some (tt, a, w) -> pairs_ok a /\ woken_only w).
    { revert r1 H1. induction (fe_impl_final ev) as [|b l IH]; intros r1 H1; cbn [fold_left]; [exact H1|].
      apply IH. apply fin_step_acc; [|exact H1]. intros t0 t1 a w E. apply (mark_nf_acc _ _ _ _ _ E). }
    revert H2. generalize (fold_left (fun r b => fin_step r (fun t' => pt_mark_notar_fallback t' b)) (fe_impl_final ev) r1). intros r2 H2.
    revert r2 H2. induction (fe_impl_skipped ev) as [|b l IH]; intros r2 H2; cbn [fold_left]; [exact H2|].
    apply IH. apply fin_step_acc; [|exact H2]. intros t0 t1 a w E. apply (mark_skipped_acc _ _ _ _ _ E). }
  destruct (hf_r3 t ev) as [[[t3 a3] w3]|] eqn:E3; [|discriminate]. injection H as _ <- <-.
  destruct (H3 _ _ _ eq_refl) as [P W]. split; [|exact W].
  (* the announced pair is one of the accumulated ones *)
  assert (Best : forall l (b0 : option (slot * blockid)),
            (forall x, b0 = Some x -> is_window_start (fst x) = true) -> pairs_ok l ->
            forall x, fold_left (fun (b : option (slot * blockid)) x =>
                                   match b with None => Some x | Some y => if fst y <=? fst x then Some x else Some y end) l b0 = Some x ->
                      is_window_start (fst x) = true).
  { induction l as [|y l IH]; intros b0 Hb Pl x E; cbn [fold_left] in E; [apply Hb; exact E|].
    apply (IH (match b0 with None => Some y | Some y0 => if fst y0 <=? fst y then Some y else Some y0 end));
      [ | intros z Hz; apply Pl; right; exact Hz | exact E].
    intros z Hz. destruct b0 as [y0|].
    - destruct (fst y0 <=? fst y); injection Hz as <-; [apply Pl; left; reflexivity | apply Hb; reflexivity].
    - injection Hz as <-. apply Pl. left. reflexivity. }
  intros x Hx.
  match type of Hx with In _ (match ?f with Some _ => _ | None => _ end) => destruct f as [bx|] eqn:Eb end; [|destruct Hx].
  destruct Hx as [<-|[]]. apply (Best a3 None); [discriminate | exact P | exact Eb].
Qed.

Lemma pool_handle_finalization_ok p ev p' o : pool_handle_finalization p ev = Some (p', o) -> evs_ok (po_events o).
Proof.
  unfold pool_handle_finalization. destruct (pt_handle_finalization (p_prt p) ev) as [[[t prs] wk]|] eqn:HF; [|discriminate].
  intros H. injection H as _ <-. cbn [po_events]. destruct (handle_finalization_acc _ _ _ _ _ HF) as [P W].
  apply evs_ok_app; [apply woken_ok; exact W | apply pr_events_ok; exact P].
Qed.

(* the per-slot state only ever reports SafeToNotar / SafeToSkip *)
Definition safe_only (l : list pevent) : Prop :=
  forall ev, In ev l -> (exists b, ev = ESafeToNotar b) \/ (exists s, ev = ESafeToSkip s).
Lemma safe_only_nil : safe_only []. Proof. intros ev []. Qed.
Lemma safe_ok l : safe_only l -> evs_ok l.
Proof. intros H ev Hin. destruct (H ev Hin) as [[b ->]|[s ->]]; exact I. Qed.
Lemma s2n_try_safe e s ss h : safe_only (snd (fst (s2n_try e s ss h))).
Proof.
  unfold s2n_try. destruct (memN h (s2n_sent (ss_n ss))); [intros ev []|].
  destruct (check_safe_to_notar e ss h) as [ss' st]. destruct st; cbn; intros ev Hin; try destruct Hin as [<-|[]]; try destruct Hin. eauto.
Qed.
Lemma s2s_try_safe e s ss ev0 : safe_only ev0 -> safe_only (snd (s2s_try e s ss ev0)).
Proof.
  intros H. unfold s2s_try. destruct (safe_to_skip_now e ss); cbn; [|exact H].
  intros ev Hin. apply in_app_or in Hin. destruct Hin as [Hin|[<-|[]]]; [apply H; exact Hin | right; eauto].
Qed.
Lemma recheck_safe e s : forall hs ss ev0 rp, safe_only ev0 -> safe_only (snd (fst (recheck_pending e s ss hs ev0 rp))).
Proof.
  induction hs as [|h hs IH]; intros ss ev0 rp H; cbn [recheck_pending]; [exact H|].
  destruct (memN h (s2n_sent (ss_n ss))); [apply IH; exact H|].
  destruct (check_safe_to_notar e ss h) as [ss1 st]. destruct st; apply IH; try exact H.
  intros ev Hin. apply in_app_or in Hin. destruct Hin as [Hin|[<-|[]]]; [apply H; exact Hin | left; eauto].
Qed.

Lemma add_vote_events_safe e ss vt : safe_only (o_events (snd (ss_add_vote e ss vt))).
Proof.
  unfold ss_add_vote, ss_add_vote_gen.
  assert (C : safe_only (o_events (snd (ss_count_vote true e ss vt)))).
  { unfold ss_count_vote. destruct (v_kind vt) as [h|h| | |].
    - unfold count_notar_stake.
      match goal with |- context [s2n_try e ?s ?x h] => pose proof (s2n_try_safe e s x h) as F1; destruct (s2n_try e s x h) as [[a1 a2] a3] end.
      cbn [fst snd] in F1.
      match goal with |- context [s2s_try e ?s a1 a2] => pose proof (s2s_try_safe e s a1 a2 F1) as F2; destruct (s2s_try e s a1 a2) as [b1 b2] end.
      cbn [fst snd o_events] in *. exact F2.
    - cbn. intros ev [].
    - unfold count_skip_stake.
      match goal with |- context [recheck_pending e ?s ?x ?hs [] []] => pose proof (recheck_safe e s hs x [] [] safe_only_nil) as F1; destruct (recheck_pending e s x hs [] []) as [[a1 a2] a3] end.
      cbn [fst snd] in F1.
      match goal with |- context [s2s_try e ?s a1 a2] => pose proof (s2s_try_safe e s a1 a2 F1) as F2; destruct (s2s_try e s a1 a2) as [b1 b2] end.
      cbn [fst snd o_events] in *. exact F2.
    - unfold count_skip_stake.
      match goal with |- context [recheck_pending e ?s ?x ?hs [] []] => pose proof (recheck_safe e s hs x [] [] safe_only_nil) as F1; destruct (recheck_pending e s x hs [] []) as [[a1 a2] a3] end.
      cbn [fst snd] in F1.
      match goal with |- context [s2s_try e ?s a1 a2] => pose proof (s2s_try_safe e s a1 a2 F1) as F2; destruct (s2s_try e s a1 a2) as [b1 b2] end.
      cbn [fst snd o_events] in *. exact F2.
    - cbn. intros ev []. }
  destruct (ss_count_vote true e ss vt) as [ss1 out]. cbn [snd] in C.
  destruct (v_signer vt =? own e); [|exact C].
  pose proof (recheck_safe e (v_slot vt) (s2n_pending (ss_n ss1)) ss1 (o_events out) (o_repair out) C) as F.
  destruct (recheck_pending e (v_slot vt) ss1 (s2n_pending (ss_n ss1)) (o_events out) (o_repair out)) as [[a1 a2] a3].
  cbn [fst snd o_events] in *. exact F.
Qed.

Lemma certified_events_safe e s ss h ss' evs rps : notify_parent_certified e s ss h = Some (ss', evs, rps) -> safe_only evs.
Proof.
  unfold notify_parent_certified. destruct (alookup h (pa_status (ss_n ss))); [|discriminate].
  intros H. match type of H with Some (s2n_try e s ?x h) = _ => pose proof (s2n_try_safe e s x h) as F; destruct (s2n_try e s x h) as [[a1 a2] a3] end.
  injection H as _ <- _. exact F.
Qed.

Lemma notify_children_ok e : forall children p acc p' o,
  notify_children e p children acc = Some (p', o) -> evs_ok (po_events acc) -> evs_ok (po_events o).
Proof.
  unfold notify_children.
  induction children as [|[cs ch] l IH]; intros p acc p' o H Ha; cbn [notify_children_gen andb] in H.
  - injection H as _ <-. exact Ha.
  - destruct (cs <? first_unpruned p); [exact (IH _ _ _ _ H Ha)|].
    destruct (notify_parent_certified e cs (p_ss (p_touch p cs) cs) ch) as [[[ss' evs] rps]|] eqn:NC; [|discriminate].
    apply (IH _ _ _ _ H). cbn [po_app po_events]. apply evs_ok_app; [exact Ha | apply safe_ok; apply (certified_events_safe _ _ _ _ _ _ _ NC)].
Qed.

Lemma add_valid_cert_ok e p c p' o : add_valid_cert e p c = Some (p', o) -> evs_ok (po_events o).
Proof.
  intros H. unfold add_valid_cert in H.
  set (s := c_slot c) in *. set (p0 := p_set_ss p s (ss_add_cert (p_ss p s) c)) in *.
  assert (Cc : evs_ok [ECertCreated c]) by (intros ev [<-|[]]; exact I).
  destruct (c_kind c) as [h|h| |h|].
  - destruct (ft_mark_notarized (p_ft p0) (s, h)) as [[t ev]|]; [|discriminate].
    destruct (pool_handle_finalization (pool_with_ft p0 t) ev) as [[p1 o1]|] eqn:HF; [|discriminate].
    destruct (notify_waiting_children e p1 (s, h)) as [[p2 o2]|] eqn:NW; [|discriminate].
    destruct (pt_mark_notar_fallback (p_prt p2) (s, h)) as [[[t2 prs] wk]|] eqn:MF; [|discriminate].
    injection H as _ <-. destruct (mark_nf_acc _ _ _ _ _ MF) as [P W].
    cbn [po_app po_events]. repeat apply evs_ok_app; auto.
    + apply (pool_handle_finalization_ok _ _ _ _ HF).
    + unfold notify_waiting_children, notify_waiting_children_gen in NW. apply (notify_children_ok _ _ _ _ _ _ NW). apply evs_ok_nil.
    + apply woken_ok; exact W.
    + apply pr_events_ok; exact P.
  - destruct (notify_waiting_children e p0 (s, h)) as [[p2 o2]|] eqn:NW; [|discriminate].
    destruct (pt_mark_notar_fallback (p_prt p2) (s, h)) as [[[t2 prs] wk]|] eqn:MF; [|discriminate].
    injection H as _ <-. destruct (mark_nf_acc _ _ _ _ _ MF) as [P W].
    cbn [po_app po_events po_empty]. repeat apply evs_ok_app; auto.
    + apply evs_ok_nil.
    + unfold notify_waiting_children, notify_waiting_children_gen in NW. apply (notify_children_ok _ _ _ _ _ _ NW). apply evs_ok_nil.
    + apply woken_ok; exact W.
    + apply pr_events_ok; exact P.
  - destruct (pt_mark_skipped (p_prt p0) s) as [[[t2 prs] wk]|] eqn:MS; [|discriminate].
    injection H as _ <-. destruct (mark_skipped_acc _ _ _ _ _ MS) as [P W].
    cbn [po_app po_events]. repeat apply evs_ok_app; auto; [apply woken_ok; exact W | apply pr_events_ok; exact P].
  - destruct (ft_mark_fast_finalized (p_ft p0) (s, h)) as [[t ev]|]; [|discriminate].
    destruct (pool_handle_finalization (pool_with_ft p0 t) ev) as [[p1 o1]|] eqn:HF; [|discriminate].
    destruct (notify_waiting_children e p1 (s, h)) as [[p2 o2]|] eqn:NW; [|discriminate].
    injection H as _ <-. cbn [po_app po_events]. repeat apply evs_ok_app; auto.
    + apply (pool_handle_finalization_ok _ _ _ _ HF).
    + unfold notify_waiting_children, notify_waiting_children_gen in NW. apply (notify_children_ok _ _ _ _ _ _ NW). apply evs_ok_nil.
  - destruct (ft_mark_finalized (p_ft p0) s) as [[t ev]|]; [|discriminate].
    destruct (pool_handle_finalization (pool_with_ft p0 t) ev) as [[p1 o1]|] eqn:HF; [|discriminate].
    injection H as _ <-. cbn [po_app po_events]. apply evs_ok_app; auto. apply (pool_handle_finalization_ok _ _ _ _ HF).
Qed.

Lemma add_certs_ok e : forall cs p acc p' o, add_certs e p cs acc = Some (p', o) -> evs_ok (po_events acc) -> evs_ok (po_events o).
Proof.
  induction cs as [|oc l IH]; intros p acc p' o H Ha; cbn [add_certs] in H.
  - injection H as _ <-. exact Ha.
  - destruct oc as [c|]; [|discriminate]. destruct (add_valid_cert e p c) as [[p1 o1]|] eqn:AV; [|discriminate].
    apply (IH _ _ _ _ H). cbn [po_app po_events]. apply evs_ok_app; [exact Ha | apply (add_valid_cert_ok _ _ _ _ _ AV)].
Qed.

(* every event any pool operation hands to Votor is one Votor's assertions accept *)
Theorem pool_step_events_ok : forall e p op, evs_ok (po_events (snd (pool_step e p op))).
Proof.
  intros e p op. unfold pool_step. destruct (p_panicked p); [apply evs_ok_nil|].
  destruct op as [vt|c|b par| |s|].
  - unfold pool_add_vote, pool_add_vote_gen.
    destruct (out_of_bounds p (v_slot vt)); [apply evs_ok_nil|].
    destruct (check_slashable _ vt); [apply evs_ok_nil|]. destruct (should_ignore _ vt); [apply evs_ok_nil|].
    pose proof (add_vote_events_safe e (p_ss (p_touch p (v_slot vt)) (v_slot vt)) vt) as Sf. unfold ss_add_vote in Sf.
    destruct (ss_add_vote_gen true e _ vt) as [ss' out]. cbn [snd] in Sf.
    destruct (add_certs e _ (o_certs out) po_empty) as [[p2 o]|] eqn:AC; [|apply evs_ok_nil].
    cbn [snd po_app po_events]. apply evs_ok_app; [apply (add_certs_ok _ _ _ _ _ _ AC); apply evs_ok_nil | apply safe_ok; exact Sf].
  - unfold pool_add_cert.
    destruct (out_of_bounds p (c_slot c)); [apply evs_ok_nil|].
    destruct (cert_duplicate _ c); [apply evs_ok_nil|].
    destruct (add_valid_cert e _ c) as [[p1 o]|] eqn:AV; [|apply evs_ok_nil]. apply (add_valid_cert_ok _ _ _ _ _ AV).
  - unfold pool_add_block, pool_add_block_gen.
    destruct (negb (fst par <? fst b)); [apply evs_ok_nil|].
    destruct (fst b <? first_unpruned p); [apply evs_ok_nil|].
    destruct (ft_add_parent (p_ft p) b par) as [[t ev]|]; [|apply evs_ok_nil].
    destruct (pool_handle_finalization (pool_with_ft p t) ev) as [[p1 o1]|] eqn:HF; [|apply evs_ok_nil].
    pose proof (pool_handle_finalization_ok _ _ _ _ HF) as O1.
    destruct (fst b <? first_unpruned p1); [exact O1|].
    match goal with |- context [if ?c then _ else _] => destruct c end; [|exact O1].
    match goal with |- context [notify_parent_certified e ?a ?x ?y] => destruct (notify_parent_certified e a x y) as [[[ss' evs] rps]|] eqn:NC end; [|apply evs_ok_nil].
    pose proof (certified_events_safe _ _ _ _ _ _ _ NC) as Sf.
    destruct evs; destruct rps; cbn [snd po_app po_events]; try exact O1; apply evs_ok_app; auto; apply safe_ok; exact Sf.
  - unfold pool_standstill, pool_standstill_gen.
    destruct (get_final_certs p (finalized_slot p)); [destruct (true && (finalized_slot p =? 0))|]; cbn; intros ev Hin;
      try destruct Hin as [<-|[]]; try destruct Hin; exact I.
  - unfold pool_wait. destruct (pt_wait (p_prt p) s) as [[t r]|]; apply evs_ok_nil.
  - apply evs_ok_nil.
Qed.

Lemma votor_feed_wf own : forall evs t,
  votor_wf t -> vt_panicked t = false -> evs_ok evs ->
  votor_wf (fst (votor_feed own t evs)) /\ vt_panicked (fst (votor_feed own t evs)) = false.
Proof.
  induction evs as [|ev l IH]; intros t W P Ok; cbn [votor_feed]; [auto|].
  destruct (votor_step_wf own t (VPool ev) W (Ok ev (or_introl eq_refl)) P) as (W1 & _ & P1).
  destruct (votor_step own t (VPool ev)) as [[t1 o1] pn]. cbn [fst] in W1, P1.
  destruct (IH t1 W1 P1 (fun x Hx => Ok x (or_intror Hx))) as [W2 P2].
  destruct (votor_feed own t1 l) as [t2 o2]. cbn [fst] in *. auto.
Qed.

Theorem node_step_votor_wf : forall e nd i,
  votor_wf (nd_votor nd) -> vt_panicked (nd_votor nd) = false ->
  votor_wf (nd_votor (fst (node_step e nd i))) /\ vt_panicked (nd_votor (fst (node_step e nd i))) = false.
Proof.
  intros e nd i W P.
  assert (Pool : forall op, votor_wf (nd_votor (fst (node_pool_op e nd op))) /\ vt_panicked (nd_votor (fst (node_pool_op e nd op))) = false).
  { intros op. unfold node_pool_op. pose proof (pool_step_events_ok e (nd_pool nd) op) as Ok.
    destruct (pool_step e (nd_pool nd) op) as [[p' r] o]. cbn [snd] in Ok.
    assert (Ok' : evs_ok (filter (fun x => negb (pe_is_woken x)) (po_events o))).
    { intros ev Hin. apply filter_In in Hin. apply Ok. apply Hin. }
    destruct (votor_feed_wf (own e) _ (nd_votor nd) W P Ok') as [W1 P1].
    destruct (votor_feed (own e) (nd_votor nd) _) as [t' outs]. cbn [fst nd_votor] in *. auto. }
  assert (Vot : forall vi, vin_ok vi -> votor_wf (nd_votor (fst (node_votor_in e nd vi))) /\ vt_panicked (nd_votor (fst (node_votor_in e nd vi))) = false).
  { intros vi Hok. unfold node_votor_in. destruct (votor_step_wf (own e) (nd_votor nd) vi W Hok P) as (W1 & _ & P1).
    destruct (votor_step (own e) (nd_votor nd) vi) as [[t' outs] pn]. cbn [fst nd_votor] in *. auto. }
  destruct i; cbn [node_step]; first [apply Pool | apply Vot; exact I].
Qed.

(* for every input sequence, from the initial state: Votor inside the node never panics *)
Theorem node_votor_never_panics : forall e ins,
  votor_wf (nd_votor (fst (node_run e node_init ins))) /\ vt_panicked (nd_votor (fst (node_run e node_init ins))) = false.
Proof.
  intros e ins.
  assert (G : forall nd, votor_wf (nd_votor nd) -> vt_panicked (nd_votor nd) = false ->
            votor_wf (nd_votor (fst (node_run e nd ins))) /\ vt_panicked (nd_votor (fst (node_run e nd ins))) = false).
  { induction ins as [|i l IH]; intros nd W P; cbn [node_run]; [auto|].
    destruct (node_step_votor_wf e nd i W P) as [W1 P1].
    destruct (node_step e nd i) as [nd1 o]. cbn [fst] in W1, P1.
    specialize (IH nd1 W1 P1). destruct (node_run e nd1 l) as [nd2 os]. cbn [fst] in *. exact IH. }
  apply G; [apply votor_init_wf | reflexivity].
Qed.
