(* Lattice-hash commitment = sum over the contents (order independent), worlds of forks refine plain
   ordered maps and are isolated, the placeholder engine reports the fold of a block's transactions. *)
From Coq Require Import List NArith Bool Arith PeanoNat Sorting.Sorted Sorting.Permutation Lia ZifyBool ZifyNat ZifyN.
From AG Require Import Model.ExecState Proofs.ExecWinProofs Proofs.ExecKeyProofs Proofs.ExecBitmapProofs
  Proofs.ExecStateProofs.
Import ListNotations.
Open Scope N_scope.

(* ---------- lane vectors form a commutative group under lanes_add ---------- *)
Definition vok (n : nat) (l : lanes) : Prop := length l = n /\ Forall (fun x => x < LANE_MOD) l.

Lemma lane_sub_add : forall x y, x < LANE_MOD -> y < LANE_MOD -> ((x + y) mod LANE_MOD + LANE_MOD - y) mod LANE_MOD = x.
Proof.
  unfold LANE_MOD. intros x y Hx Hy. destruct (N.lt_ge_cases (x + y) 65536).
  - rewrite (N.mod_small (x + y)) by lia. replace (x + y + 65536 - y) with (x + 1 * 65536) by lia.
    rewrite N.mod_add by lia. apply N.mod_small. lia.
  - assert (E : (x + y) mod 65536 = x + y - 65536).
    { symmetry. apply (N.mod_unique _ _ 1); lia. }
    rewrite E. replace (x + y - 65536 + 65536 - y) with x by lia. apply N.mod_small. lia.
Qed.

Lemma vok_identity : vok NUM_LANES lt_identity.
Proof.
  split; [apply repeat_length|]. apply Forall_forall. intros x Hx. apply repeat_spec in Hx. subst. reflexivity.
Qed.
Lemma lanes_add_length : forall a b, length (lanes_add a b) = length a.
Proof. induction a as [|x a IH]; intros [|y b]; cbn [lanes_add length]; auto. Qed.
Lemma lanes_sub_length : forall a b, length (lanes_sub a b) = length a.
Proof. induction a as [|x a IH]; intros [|y b]; cbn [lanes_sub length]; auto. Qed.
Lemma lanes_add_range : forall a b, Forall (fun x => x < LANE_MOD) a -> Forall (fun x => x < LANE_MOD) (lanes_add a b).
Proof.
  induction a as [|x a IH]; intros [|y b] F; cbn [lanes_add]; auto. inversion F; subst.
  constructor; auto. apply N.mod_lt. discriminate.
Qed.
Lemma lanes_sub_range : forall a b, Forall (fun x => x < LANE_MOD) a -> Forall (fun x => x < LANE_MOD) (lanes_sub a b).
Proof.
  induction a as [|x a IH]; intros [|y b] F; cbn [lanes_sub]; auto. inversion F; subst.
  constructor; auto. apply N.mod_lt. discriminate.
Qed.
Lemma vok_add : forall n a b, vok n a -> vok n b -> vok n (lanes_add a b).
Proof. intros n a b [La Fa] _. split; [rewrite lanes_add_length; auto | apply lanes_add_range; auto]. Qed.
Lemma vok_sub : forall n a b, vok n a -> vok n b -> vok n (lanes_sub a b).
Proof. intros n a b [La Fa] _. split; [rewrite lanes_sub_length; auto | apply lanes_sub_range; auto]. Qed.

Lemma add_comm_len : forall a b, length a = length b -> lanes_add a b = lanes_add b a.
Proof.
  induction a as [|x a IH]; intros [|y b] L; cbn [length] in L; try discriminate; auto.
  cbn [lanes_add]. rewrite (N.add_comm x y). f_equal. apply IH. lia.
Qed.
Lemma add_comm : forall n a b, vok n a -> vok n b -> lanes_add a b = lanes_add b a.
Proof. intros n a b [La _] [Lb _]. apply add_comm_len. congruence. Qed.
Lemma add_assoc_len : forall a b c, length a = length b -> length b = length c ->
  lanes_add (lanes_add a b) c = lanes_add a (lanes_add b c).
Proof.
  induction a as [|x a IH]; intros [|y b] [|z c] L1 L2; cbn [length] in *; try discriminate; auto.
  cbn [lanes_add]. f_equal.
  - rewrite N.add_mod_idemp_l, N.add_mod_idemp_r by discriminate. f_equal. lia.
  - apply IH; lia.
Qed.
Lemma add_assoc : forall n a b c, vok n a -> vok n b -> vok n c ->
  lanes_add (lanes_add a b) c = lanes_add a (lanes_add b c).
Proof. intros n a b c [La _] [Lb _] [Lc _]. apply add_assoc_len; congruence. Qed.
Lemma add_identity_l : forall a, vok NUM_LANES a -> lanes_add lt_identity a = a.
Proof.
  intros a [L F]. unfold lt_identity. rewrite <- L. clear L. induction F as [|x a Hx F IH]; [reflexivity|].
  cbn [length repeat lanes_add]. rewrite IH. f_equal. apply N.mod_small. exact Hx.
Qed.
Lemma sub_add_cancel_len : forall a b, length a = length b -> Forall (fun x => x < LANE_MOD) a ->
  Forall (fun x => x < LANE_MOD) b -> lanes_sub (lanes_add a b) b = a.
Proof.
  induction a as [|x a IH]; intros [|y b] L Fa Fb; cbn [length] in L; try discriminate; auto.
  cbn [lanes_add lanes_sub]. inversion Fa; inversion Fb; subst.
  f_equal; [apply lane_sub_add; auto | apply IH; auto; lia].
Qed.
Lemma sub_add_cancel : forall n a b, vok n a -> vok n b -> lanes_sub (lanes_add a b) b = a.
Proof. intros n a b [La Fa] [Lb Fb]. apply sub_add_cancel_len; auto. congruence. Qed.

Section LtHashProofs.
  Variable he : key -> value -> lanes.
  Hypothesis he_ok : forall k v, vok NUM_LANES (he k v).

  Definition hkv (x : key * value) : lanes := he (fst x) (snd x).
  Fixpoint sumh (l : list (key * value)) : lanes :=
    match l with [] => lt_identity | x :: t => lanes_add (hkv x) (sumh t) end.

  Lemma sumh_ok : forall l, vok NUM_LANES (sumh l).
  Proof. induction l; cbn [sumh]; [apply vok_identity | apply vok_add; auto; apply he_ok]. Qed.

  Lemma fold_is_sum : forall l a, vok NUM_LANES a ->
    fold_left (fun acc kv => lt_add_entry he acc (fst kv) (snd kv)) l a = lanes_add a (sumh l).
  Proof.
    induction l as [|x l IH]; intros a A; cbn [fold_left sumh].
    - rewrite (add_comm NUM_LANES a lt_identity A vok_identity). symmetry. apply add_identity_l. exact A.
    - unfold lt_add_entry at 2. rewrite IH by (apply vok_add; auto; apply he_ok).
      apply (add_assoc NUM_LANES); auto using sumh_ok. apply he_ok.
  Qed.
  Lemma lt_of_contents_sum : forall c, lt_of_contents he c = sumh c.
  Proof.
    intros c. unfold lt_of_contents. rewrite fold_is_sum by apply vok_identity.
    apply add_identity_l. apply sumh_ok.
  Qed.

  Lemma sumh_perm : forall a b, Permutation a b -> sumh a = sumh b.
  Proof.
    induction 1; cbn [sumh]; auto; try congruence.
    rewrite <- !(add_assoc NUM_LANES) by (auto using sumh_ok; apply he_ok).
    f_equal. apply (add_comm NUM_LANES); apply he_ok.
  Qed.

  (* the commitment is a function of the multiset of entries: order independent *)
  Theorem lt_order_independent : forall c1 c2, Permutation c1 c2 -> lt_of_contents he c1 = lt_of_contents he c2.
  Proof. intros. rewrite !lt_of_contents_sum. apply sumh_perm. assumption. Qed.

  (* ---- the reference-map operations as permutations ---- *)
  Lemma ins_perm_absent : forall (k : key) (v : value) (c : list (key * value)), m_find k c = None ->
    Permutation (m_ins k v c) ((k, v) :: c).
  Proof.
    induction c as [|[k' v'] t IH]; intros MF; cbn [m_ins]; [apply Permutation_refl|].
    cbn [m_find] in MF. destruct (bytes_eqb k' k) eqn:E; [discriminate|].
    destruct (bytes_ltb k k'); [apply Permutation_refl|].
    eapply perm_trans; [apply perm_skip; apply IH; exact MF | apply perm_swap].
  Qed.
  Lemma del_perm : forall (k : key) (o : value) (c : list (key * value)), m_find k c = Some o ->
    exists k0, bytes_eqb k0 k = true /\ Permutation c ((k0, o) :: m_del k c).
  Proof.
    induction c as [|[k' v'] t IH]; intros MF; cbn [m_find] in MF; [discriminate|]. cbn [m_del].
    destruct (bytes_eqb k' k) eqn:E.
    - injection MF as <-. exists k'. split; auto.
    - destruct (IH MF) as [k0 [E0 P]]. exists k0. split; auto.
      eapply perm_trans; [apply perm_skip; exact P | apply perm_swap].
  Qed.
  Lemma ins_perm_present : forall (k : key) (v o : value) (c : list (key * value)), sorted c -> m_find k c = Some o ->
    exists k0, bytes_eqb k0 k = true /\ Permutation (m_ins k v c) ((k0, v) :: m_del k c).
  Proof.
    induction c as [|[k' v'] t IH]; intros S MF; [discriminate|]. cbn [m_ins m_del].
    destruct (bytes_ltb k k') eqn:L.
    - rewrite (sorted_head_none k k' v' t S L) in MF. discriminate.
    - cbn [m_find] in MF. destruct (bytes_eqb k' k) eqn:E.
      + exists k'. split; auto.
      + inversion S; subst. destruct (IH H1 MF) as [k0 [E0 P]]. exists k0. split; auto.
        eapply perm_trans; [apply perm_skip; exact P | apply perm_swap].
  Qed.

  Lemma he_eqb : forall k0 k v, bytes_eqb k0 k = true -> he k0 v = he k v.
  Proof. intros k0 k v E. apply bytes_eqb_eq in E. subst. reflexivity. Qed.

  (* observe keeps "commitment = sum over contents" *)
  Lemma observe_insert : forall (c : list (key * value)) k v, sorted c ->
    lt_observe he (sumh c) k (m_find k c) (Some v) = sumh (m_ins k v c).
  Proof.
    intros c k v S. unfold lt_observe, lt_add_entry, lt_remove_entry. destruct (m_find k c) as [o|] eqn:MF.
    - destruct (del_perm k o c MF) as [k0 [E0 P0]]. destruct (ins_perm_present k v o c S MF) as [k1 [E1 P1]].
      rewrite (sumh_perm _ _ P0), (sumh_perm _ _ P1). cbn [sumh]. unfold hkv. cbn [fst snd].
      rewrite (he_eqb k0 k o E0), (he_eqb k1 k v E1).
      rewrite (add_comm NUM_LANES (he k o) (sumh (m_del k c))) by (auto using sumh_ok).
      rewrite (sub_add_cancel NUM_LANES) by (auto using sumh_ok).
      apply (add_comm NUM_LANES); auto using sumh_ok.
    - rewrite (sumh_perm _ _ (ins_perm_absent k v c MF)). cbn [sumh]. unfold hkv. cbn [fst snd].
      apply (add_comm NUM_LANES); auto using sumh_ok.
  Qed.
  Lemma observe_remove : forall (c : list (key * value)) k,
    lt_observe he (sumh c) k (m_find k c) None = sumh (m_del k c).
  Proof.
    intros c k. unfold lt_observe, lt_remove_entry. destruct (m_find k c) as [o|] eqn:MF.
    - destruct (del_perm k o c MF) as [k0 [E0 P0]]. rewrite (sumh_perm _ _ P0). cbn [sumh]. unfold hkv. cbn [fst snd].
      rewrite (he_eqb k0 k o E0).
      rewrite (add_comm NUM_LANES (he k o) (sumh (m_del k c))) by (auto using sumh_ok).
      apply (sub_add_cancel NUM_LANES); auto using sumh_ok.
    - rewrite (m_del_absent k c) by (apply m_find_none_in; exact MF). reflexivity.
  Qed.

  (* ---------- forks ---------- *)
  Definition fcontents (x : fork) : list (key * value) := contents (fk_state x).
  Definition fork_ok (x : fork) : Prop :=
    st_wf (fk_state x) /\ fk_lt x = lt_of_contents he (fcontents x).

  Lemma fork_new_ok : fork_ok fork_new /\ fcontents fork_new = [].
  Proof. split; [split; [apply st_wf_new | reflexivity] | reflexivity]. Qed.

  Lemma fork_insert_spec : forall x k v, fork_ok x -> kwf k ->
    exists x', fork_insert he x k v = Ok (x', m_find k (fcontents x)) /\ fork_ok x' /\
               fcontents x' = m_ins k v (fcontents x).
  Proof.
    intros x k v [W L] K. destruct (st_insert_spec _ k v W K) as [s' [E [W' T]]].
    unfold fork_insert. rewrite E. eexists. split; [reflexivity|]. unfold fork_ok, fcontents. cbn [fk_state fk_lt].
    split; [|exact T]. split; auto. rewrite L, T, !lt_of_contents_sum. unfold fcontents.
    apply observe_insert. apply st_sorted; auto.
  Qed.
  Lemma fork_remove_spec : forall x k, fork_ok x -> kwf k ->
    exists x', fork_remove he x k = Ok (x', m_find k (fcontents x)) /\ fork_ok x' /\
               fcontents x' = m_del k (fcontents x).
  Proof.
    intros x k [W L] K. destruct (st_remove_spec _ k W K) as [s' [E [W' T]]].
    unfold fork_remove. rewrite E. eexists. split; [reflexivity|]. unfold fork_ok, fcontents. cbn [fk_state fk_lt].
    split; [|exact T]. split; auto. rewrite L, T, !lt_of_contents_sum. unfold fcontents.
    apply observe_remove.
  Qed.

  (* ---------- worlds ---------- *)
  Definition op_ok (o : sop) : Prop :=
    match o with SInsert _ k _ => kwf k | SRemove _ k => kwf k | SFork _ => True end.
  Definition world_ok (w : list fork) : Prop := Forall fork_ok w.
  Definition wcontents (w : list fork) : list (list (key * value)) := map fcontents w.
  (* what the operation must return: the previous value of the key in the addressed fork *)
  Definition ref_result (w : list (list (key * value))) (o : sop) : option value :=
    match o with
    | SInsert f k _ => match nth_error w f with Some m => m_find k m | None => None end
    | SRemove f k => match nth_error w f with Some m => m_find k m | None => None end
    | SFork _ => None
    end.

  Lemma map_set_nth : forall (A B : Type) (g : A -> B) (l : list A) i x, map g (set_nth i x l) = set_nth i (g x) (map g l).
  Proof. intros. unfold set_nth. rewrite map_app, firstn_map. cbn [map]. rewrite skipn_map. reflexivity. Qed.
  Lemma Forall_set_nth : forall (A : Type) (P : A -> Prop) (l : list A) i x, Forall P l -> P x -> Forall P (set_nth i x l).
  Proof.
    intros A P l i x F Hx. unfold set_nth. apply Forall_app. split.
    - apply Forall_forall. intros y Hy. eapply Forall_forall in F; eauto. eapply (In_nth_error) in Hy.
      destruct Hy as [j Hj]. apply nth_error_In with (n := j).
      assert (X : nth_error (firstn i l) j <> None) by congruence. apply nth_error_Some in X. rewrite firstn_length in X.
      rewrite nth_error_firstn' in Hj by lia. exact Hj.
    - constructor; auto. apply Forall_forall. intros y Hy. eapply Forall_forall in F; eauto.
      apply In_nth_error in Hy. destruct Hy as [j Hj]. rewrite nth_error_skipn' in Hj. eapply nth_error_In; eauto.
  Qed.

  Lemma world_step_spec : forall w o, world_ok w -> op_ok o ->
    exists w', world_step he w o = Ok (w', ref_result (wcontents w) o) /\ world_ok w' /\
               wcontents w' = ref_step (wcontents w) o.
  Proof.
    intros w o WO OK. unfold wcontents. destruct o as [f k v | f k | f]; cbn [world_step ref_step ref_result op_ok] in *.
    - rewrite nth_error_map. destruct (nth_error w f) as [x|] eqn:NE; cbn [option_map].
      + assert (FX : fork_ok x) by (eapply Forall_forall in WO; eauto; eapply nth_error_In; eauto).
        destruct (fork_insert_spec x k v FX OK) as [x' [E [FX' T]]]. rewrite E.
        eexists. split; [reflexivity|]. split; [apply Forall_set_nth; auto|]. rewrite map_set_nth, T. reflexivity.
      + exists w. auto.
    - rewrite nth_error_map. destruct (nth_error w f) as [x|] eqn:NE; cbn [option_map].
      + assert (FX : fork_ok x) by (eapply Forall_forall in WO; eauto; eapply nth_error_In; eauto).
        destruct (fork_remove_spec x k FX OK) as [x' [E [FX' T]]]. rewrite E.
        eexists. split; [reflexivity|]. split; [apply Forall_set_nth; auto|]. rewrite map_set_nth, T. reflexivity.
      + exists w. auto.
    - rewrite nth_error_map. destruct (nth_error w f) as [x|] eqn:NE; cbn [option_map].
      + assert (FX : fork_ok x) by (eapply Forall_forall in WO; eauto; eapply nth_error_In; eauto).
        eexists. split; [reflexivity|]. split; [apply Forall_app; split; auto|]. rewrite map_app. reflexivity.
      + exists w. auto.
  Qed.

  Theorem world_run_spec : forall ops w, world_ok w -> Forall op_ok ops ->
    exists w', world_run he w ops = Ok w' /\ world_ok w' /\ wcontents w' = ref_run (wcontents w) ops.
  Proof.
    induction ops as [|o ops IH]; intros w WO OK.
    - exists w. auto.
    - inversion OK; subst. destruct (world_step_spec w o WO H1) as [w1 [E [WO1 T]]].
      destruct (IH w1 WO1 H2) as [w' [E' [WO' T']]]. exists w'. cbn [world_run]. rewrite E. split; auto. split; auto.
      rewrite T', T. reflexivity.
  Qed.

  (* ---------- fork isolation ---------- *)
  Definition writes_to (o : sop) : option nat :=
    match o with SInsert f _ _ => Some f | SRemove f _ => Some f | SFork _ => None end.

  Lemma world_step_frame : forall w o w' r j, world_step he w o = Ok (w', r) -> writes_to o <> Some j ->
    (j < length w)%nat -> nth_error w' j = nth_error w j.
  Proof using Type.
    clear he_ok.
    intros w o w' r j E NW Lj. destruct o as [f k v | f k | f]; cbn [world_step writes_to] in *.
    - destruct (nth_error w f) as [x|] eqn:NE; [|injection E as <- _; reflexivity].
      destruct (fork_insert he x k v) as [[x' old]|]; [|discriminate]. injection E as <- _.
      assert (f < length w)%nat by (apply nth_error_Some; congruence).
      rewrite set_nth_nth_error by lia. destruct (Nat.eqb_spec j f); [congruence | reflexivity].
    - destruct (nth_error w f) as [x|] eqn:NE; [|injection E as <- _; reflexivity].
      destruct (fork_remove he x k) as [[x' old]|]; [|discriminate]. injection E as <- _.
      assert (f < length w)%nat by (apply nth_error_Some; congruence).
      rewrite set_nth_nth_error by lia. destruct (Nat.eqb_spec j f); [congruence | reflexivity].
    - destruct (nth_error w f) as [x|] eqn:NE; injection E as <- _; [|reflexivity].
      apply nth_error_app1. exact Lj.
  Qed.
  Lemma world_step_length : forall w o w' r, world_step he w o = Ok (w', r) -> (length w <= length w')%nat.
  Proof using Type.
    clear he_ok.
    intros w o w' r E. destruct o as [f k v | f k | f]; cbn [world_step] in *.
    - destruct (nth_error w f) as [x|] eqn:NE; [|injection E as <- _; lia].
      destruct (fork_insert he x k v) as [[x' old]|]; [|discriminate]. injection E as <- _.
      rewrite set_nth_length; [lia|]. apply nth_error_Some; congruence.
    - destruct (nth_error w f) as [x|] eqn:NE; [|injection E as <- _; lia].
      destruct (fork_remove he x k) as [[x' old]|]; [|discriminate]. injection E as <- _.
      rewrite set_nth_length; [lia|]. apply nth_error_Some; congruence.
    - destruct (nth_error w f) as [x|] eqn:NE; injection E as <- _; [rewrite app_length|]; lia.
  Qed.
  (* a fork is exactly what it was at the split as long as nobody writes to IT, whatever is written elsewhere *)
  Theorem world_run_frame : forall ops w w' j, world_run he w ops = Ok w' ->
    (forall o, In o ops -> writes_to o <> Some j) -> (j < length w)%nat -> nth_error w' j = nth_error w j.
  Proof using Type.
    clear he_ok.
    induction ops as [|o ops IH]; intros w w' j E NW Lj; cbn [world_run] in E.
    - injection E as <-. reflexivity.
    - destruct (world_step he w o) as [[w1 r]|] eqn:S; [|discriminate].
      rewrite (IH w1 w' j E).
      + eapply world_step_frame; eauto. apply NW. left; auto.
      + intros o' Ho'. apply NW. right; auto.
      + pose proof (world_step_length _ _ _ _ S). lia.
  Qed.
  (* the fork created by SFork f is an exact copy of fork f *)
  Lemma world_fork_copy : forall w f x, nth_error w f = Some x ->
    world_step he w (SFork f) = Ok (w ++ [x], None) /\ nth_error (w ++ [x]) (length w) = Some x.
  Proof using Type.
    clear he_ok.
    intros w f x NE. cbn [world_step]. rewrite NE. split; auto. rewrite nth_error_app2 by lia.
    replace (length w - length w)%nat with 0%nat by lia. reflexivity.
  Qed.
End LtHashProofs.

(* ---------- reference map laws: the sorted association list is an ordinary ordered map ---------- *)
Lemma m_find_ins : forall (k k' : key) (v : value) (l : list (key * value)),
  m_find k' (m_ins k v l) = if bytes_eqb k k' then Some v else m_find k' l.
Proof.
  induction l as [|[k0 v0] t IH]; cbn [m_ins m_find].
  - destruct (bytes_eqb k k'); reflexivity.
  - destruct (bytes_ltb k k0) eqn:L; cbn [m_find].
    + destruct (bytes_eqb k k'); reflexivity.
    + destruct (bytes_eqb k0 k) eqn:E; cbn [m_find].
      * apply bytes_eqb_eq in E. subst k0. destruct (bytes_eqb k k'); reflexivity.
      * rewrite IH. destruct (bytes_eqb k0 k') eqn:E2; auto.
        apply bytes_eqb_eq in E2. subst k0. rewrite bytes_eqb_sym, E. reflexivity.
Qed.
Lemma sorted_tail_none : forall (k : key) (v : value) (t : list (key * value)), sorted ((k, v) :: t) -> m_find k t = None.
Proof.
  intros k v t S. inversion S; subst. apply m_find_none. intros x Hx. eapply Forall_forall in H2; eauto.
  unfold klt in H2. cbn [fst] in H2. rewrite bytes_eqb_sym. apply bytes_ltb_neq. exact H2.
Qed.
Lemma m_find_del : forall (k k' : key) (l : list (key * value)), sorted l ->
  m_find k' (m_del k l) = if bytes_eqb k k' then None else m_find k' l.
Proof.
  induction l as [|[k0 v0] t IH]; intros S; cbn [m_del m_find].
  - destruct (bytes_eqb k k'); reflexivity.
  - destruct (bytes_eqb k0 k) eqn:E.
    + apply bytes_eqb_eq in E. subst k0. destruct (bytes_eqb k k') eqn:E2.
      * apply bytes_eqb_eq in E2. subst k'. eapply sorted_tail_none; eauto.
      * reflexivity.
    + cbn [m_find]. inversion S; subst. rewrite IH by auto. destruct (bytes_eqb k0 k') eqn:E2; auto.
      apply bytes_eqb_eq in E2. subst k0. rewrite bytes_eqb_sym, E. reflexivity.
Qed.
Lemma m_ins_sorted : forall (k : key) (v : value) (l : list (key * value)), length k = KEY_LEN ->
  (forall x, In x l -> length (fst x) = KEY_LEN) -> sorted l -> sorted (m_ins k v l).
Proof.
  induction l as [|[k0 v0] t IH]; intros Lk Ll S; cbn [m_ins].
  - constructor; constructor.
  - inversion S; subst. destruct (bytes_ltb k k0) eqn:L.
    + constructor; auto. constructor; [exact L|]. apply Forall_forall. intros x Hx.
      eapply Forall_forall in H2; eauto. unfold klt in *. cbn [fst] in *. eapply bytes_ltb_trans; eauto.
    + destruct (bytes_eqb k0 k) eqn:E.
      * apply bytes_eqb_eq in E. subst k0. constructor; auto.
      * assert (G : bytes_ltb k0 k = true).
        { apply bytes_trichotomy; auto. rewrite bytes_eqb_sym; auto.
          rewrite Lk. symmetry. apply (Ll (k0, v0)). left; auto. }
        constructor.
        -- apply IH; auto. intros; apply Ll; right; auto.
        -- apply Forall_forall. intros x Hx.
           assert (Hin : In x ((k, v) :: t)).
           { clear -Hx. induction t as [|[k1 v1] t IHt]; cbn [m_ins] in Hx.
             - destruct Hx as [<-|[]]. left; auto.
             - destruct (bytes_ltb k k1).
               + destruct Hx as [<-|Hx]; [left; auto | right; exact Hx].
               + destruct (bytes_eqb k1 k) eqn:E1.
                 * destruct Hx as [<-|Hx]; [|right; right; auto]. apply bytes_eqb_eq in E1. subst. left; auto.
                 * destruct Hx as [<-|Hx]; [right; left; auto|]. destruct (IHt Hx) as [<-|H]; [left; auto | right; right; auto]. }
           destruct Hin as [<-|Hin]; [exact G | eapply Forall_forall in H2; eauto].
Qed.
Lemma m_del_sorted : forall (k : key) (l : list (key * value)), sorted l -> sorted (m_del k l).
Proof.
  induction l as [|[k0 v0] t IH]; intros S; cbn [m_del]; auto. inversion S; subst.
  destruct (bytes_eqb k0 k); auto. constructor; [apply IH; exact H1|]. apply Forall_forall. intros x Hx.
  eapply Forall_forall in H2; eauto. clear -Hx. induction t as [|[k1 v1] t IHt]; cbn [m_del] in Hx; auto.
  destruct (bytes_eqb k1 k); [right; auto|]. destruct Hx as [<-|Hx]; [left; auto | right; auto].
Qed.

(* ---------- the placeholder engine ---------- *)
Section EngineProofs.
  Variable H : list N -> list N.
  Variable genesis : hash.
  Variable rekey : bool.          (* true = current code (end_block files the block under Known), false = pinned *)

  Lemma fold_txs_app : forall h a b, fold_txs H h (a ++ b) = fold_txs H (fold_txs H h a) b.
  Proof. intros. unfold fold_txs. apply fold_left_app. Qed.

  Lemma ipb_eqb_refl : forall i, ipb_eqb i i = true.
  Proof. intros [s|s h]; cbn [ipb_eqb]; rewrite ?N.eqb_refl, ?bytes_eqb_refl; reflexivity. Qed.
  Lemma ipb_eqb_eq : forall i j, ipb_eqb i j = true <-> i = j.
  Proof.
    intros [s|s h] [t|t g]; cbn [ipb_eqb]; try (split; discriminate).
    - rewrite N.eqb_eq. split; congruence.
    - rewrite andb_true_iff, N.eqb_eq, bytes_eqb_eq. split; [intros [-> ->]; auto | intros [= -> ->]; auto].
  Qed.
  Lemma eng_get_put : forall e i j x, eng_get (eng_put e i x) j = if ipb_eqb i j then Some x else eng_get e j.
  Proof.
    induction e as [|[i0 x0] e IH]; intros i j x; cbn [eng_put eng_get].
    - destruct (ipb_eqb i j); reflexivity.
    - destruct (ipb_eqb i0 i) eqn:E; cbn [eng_get].
      + apply ipb_eqb_eq in E. subst i0. destruct (ipb_eqb i j); reflexivity.
      + rewrite IH. destruct (ipb_eqb i0 j) eqn:E2; auto.
        apply ipb_eqb_eq in E2. subst i0. destruct (ipb_eqb i j) eqn:E3; [|reflexivity].
        apply ipb_eqb_eq in E3. subst. rewrite ipb_eqb_refl in E. discriminate.
  Qed.
  Lemma eng_get_del : forall e i j, eng_get (eng_del e i) j = if ipb_eqb i j then None else eng_get e j.
  Proof.
    unfold eng_del. induction e as [|[i0 x0] e IH]; intros i j; cbn [filter eng_get fst].
    - destruct (ipb_eqb i j); reflexivity.
    - destruct (ipb_eqb i0 i) eqn:E; cbn [negb].
      + rewrite IH. apply ipb_eqb_eq in E. subst i0. destruct (ipb_eqb i j); reflexivity.
      + cbn [eng_get]. rewrite IH. destruct (ipb_eqb i0 j) eqn:E2; auto.
        apply ipb_eqb_eq in E2. subst i0. destruct (ipb_eqb i j) eqn:E3; [|reflexivity].
        apply ipb_eqb_eq in E3. subst. rewrite ipb_eqb_refl in E. discriminate.
  Qed.
  Lemma eng_get_filter_none : forall (f : ipb * block_exec -> bool) e i, eng_get e i = None -> eng_get (filter f e) i = None.
  Proof.
    induction e as [|[i0 x0] e IH]; intros i G; cbn [filter eng_get] in *; auto.
    destruct (ipb_eqb i0 i) eqn:E; [discriminate|]. destruct (f (i0, x0)); cbn [eng_get]; rewrite ?E; auto.
  Qed.
  Lemma eng_put_put : forall e i x y, eng_put (eng_put e i x) i y = eng_put e i y.
  Proof.
    induction e as [|[i0 x0] e IH]; intros i x y; cbn [eng_put].
    - rewrite ipb_eqb_refl. reflexivity.
    - destruct (ipb_eqb i0 i) eqn:E; cbn [eng_put]; rewrite E; [reflexivity | f_equal; apply IH].
  Qed.

  Notation step := (eng_step H genesis rekey).
  Notation run := (eng_run H genesis rekey).
  Notation state := (eng_state H genesis rekey).

  (* streaming: executing a block's transactions slice by slice equals executing them at once *)
  Theorem exec_slices : forall e id a b,
    fst (step (fst (step e (EExec id a))) (EExec id b)) = fst (step e (EExec id (a ++ b))).
  Proof.
    intros e id a b. unfold eng_step at 2 3. destruct (eng_get e id) as [x|] eqn:G; cbn [fst].
    - unfold eng_step. rewrite eng_get_put, ipb_eqb_refl. cbn [fst be_count be_hash].
      rewrite eng_put_put, fold_txs_app, app_length, Nat2N.inj_add, N.add_assoc. reflexivity.
    - unfold eng_step. rewrite G. reflexivity.
  Qed.

  Lemma run_app : forall a e b, run e (a ++ b) = run e a ++ run (state e a) b.
  Proof.
    induction a as [|o a IH]; intros e b; cbn [app eng_run]; [reflexivity|].
    unfold eng_state. cbn [fold_left]. fold (state (fst (step e o)) a).
    destruct (step e o) as [e' ev]. cbn [fst]. rewrite IH, app_assoc. reflexivity.
  Qed.
  Lemma state_app : forall a e b, state e (a ++ b) = state (state e a) b.
  Proof. intros. unfold eng_state. apply fold_left_app. Qed.

  (* ghost engine: every live block remembers the seed chosen at begin_block and the transactions
     executed since; the real engine is its evaluation *)
  Definition gentry := (ipb * (hash * list (list N)))%type.
  Definition gerase1 (g : gentry) : ipb * block_exec :=
    (fst g, mkExec (N.of_nat (length (snd (snd g)))) (fold_txs H (fst (snd g)) (snd (snd g)))).
  Definition gerase (g : list gentry) : engine := map gerase1 g.
  Fixpoint g_get (g : list gentry) (i : ipb) : option (hash * list (list N)) :=
    match g with [] => None | (j, x) :: t => if ipb_eqb j i then Some x else g_get t i end.
  Fixpoint g_put (g : list gentry) (i : ipb) (x : hash * list (list N)) : list gentry :=
    match g with
    | [] => [(i, x)]
    | (j, y) :: t => if ipb_eqb j i then (j, x) :: t else (j, y) :: g_put t i x
    end.
  Definition g_del (g : list gentry) (i : ipb) : list gentry := filter (fun jx => negb (ipb_eqb (fst jx) i)) g.
  Definition g_lookup_block (g : list gentry) (b : block_id) : option (hash * list (list N)) :=
    match g_get g (Known (fst b) (snd b)) with Some x => Some x | None => g_get g (Pending (fst b)) end.
  Definition g_end (g : list gentry) (b : block_id) : list gentry * list (block_id * hash * list (list N)) :=
    if rekey then
      match g_get g (Known (fst b) (snd b)) with
      | Some (s, txs) => (g, [(b, s, txs)])
      | None =>
        match g_get g (Pending (fst b)) with
        | Some (s, txs) => (g_put (g_del g (Pending (fst b))) (Known (fst b) (snd b)) (s, txs), [(b, s, txs)])
        | None => (g, [])
        end
      end
    else match g_lookup_block g b with None => (g, []) | Some (s, txs) => (g, [(b, s, txs)]) end.
  (* ghost events carry (block, seed, transactions) *)
  Definition g_step (g : list gentry) (o : eop) : list gentry * list (block_id * hash * list (list N)) :=
    match o with
    | EBegin id parent => (g_put g id (eng_seed genesis (gerase g) parent, []), [])
    | EExec id txs => match g_get g id with None => (g, []) | Some (s, old) => (g_put g id (s, old ++ txs), []) end
    | EEnd b => g_end g b
    | EFinalize b => (filter (fun ix => fst b <=? ipb_slot (fst ix)) g, [])
    end.
  Fixpoint g_run (g : list gentry) (ops : list eop) : list (block_id * hash * list (list N)) :=
    match ops with [] => [] | o :: t => let '(g', ev) := g_step g o in ev ++ g_run g' t end.
  Definition g_eval (ev : block_id * hash * list (list N)) : eevent :=
    (fst (fst ev), N.of_nat (length (snd ev)), fold_txs H (snd (fst ev)) (snd ev)).

  Lemma gerase_get : forall g i, eng_get (gerase g) i =
    option_map (fun x => mkExec (N.of_nat (length (snd x))) (fold_txs H (fst x) (snd x))) (g_get g i).
  Proof.
    induction g as [|[j x] g IH]; intros i; cbn [gerase map gerase1 eng_get g_get fst snd]; auto.
    destruct (ipb_eqb j i); auto; apply IH.
  Qed.
  Lemma gerase_put : forall g i s txs,
    gerase (g_put g i (s, txs)) = eng_put (gerase g) i (mkExec (N.of_nat (length txs)) (fold_txs H s txs)).
  Proof.
    induction g as [|[j x] g IH]; intros i s txs; cbn [gerase map gerase1 eng_put g_put fst snd]; auto.
    destruct (ipb_eqb j i); cbn [map gerase1 fst snd]; auto; f_equal; apply IH.
  Qed.
  Lemma gerase_filter : forall g (p : ipb -> bool),
    gerase (filter (fun ix => p (fst ix)) g) = filter (fun ix => p (fst ix)) (gerase g).
  Proof.
    induction g as [|[j x] g IH]; intros p; cbn [gerase map filter gerase1 fst]; auto.
    destruct (p j); cbn [map gerase1 fst]; [f_equal|]; apply IH.
  Qed.
  Lemma gerase_del : forall g i, gerase (g_del g i) = eng_del (gerase g) i.
  Proof. intros g i. unfold g_del, eng_del. apply (gerase_filter g (fun j => negb (ipb_eqb j i))). Qed.

  Lemma g_step_erase : forall g o,
    step (gerase g) o = (gerase (fst (g_step g o)), map g_eval (snd (g_step g o))).
  Proof.
    intros g o. destruct o as [id parent | id txs | b | b]; cbn [eng_step g_step].
    - cbn [fst snd map]. rewrite gerase_put. reflexivity.
    - rewrite gerase_get. destruct (g_get g id) as [[s old]|]; cbn [option_map fst snd map]; auto.
      rewrite gerase_put. cbn [be_count be_hash]. rewrite fold_txs_app, app_length, Nat2N.inj_add. reflexivity.
    - unfold eng_end, g_end, eng_lookup_block, g_lookup_block. destruct rekey.
      + rewrite !gerase_get.
        destruct (g_get g (Known (fst b) (snd b))) as [[s txs]|]; cbn [option_map fst snd map]; [reflexivity|].
        destruct (g_get g (Pending (fst b))) as [[s txs]|]; cbn [option_map fst snd map]; [|reflexivity].
        rewrite gerase_put, gerase_del. reflexivity.
      + rewrite !gerase_get.
        destruct (g_get g (Known (fst b) (snd b))) as [[s txs]|]; cbn [option_map fst snd map]; [reflexivity|].
        destruct (g_get g (Pending (fst b))) as [[s txs]|]; cbn [option_map fst snd map]; reflexivity.
    - cbn [fst snd map]. rewrite (gerase_filter g (fun i => fst b <=? ipb_slot i)). reflexivity.
  Qed.

  (* every reported commitment is the fold of exactly the block's transaction sequence from the seed
     fixed at begin_block, and the reported count is the length of that sequence *)
  Theorem engine_reports_fold : forall ops g, run (gerase g) ops = map g_eval (g_run g ops).
  Proof.
    induction ops as [|o ops IH]; intros g; cbn [eng_run g_run]; auto.
    rewrite g_step_erase. destruct (g_step g o) as [g' ev]. cbn [fst snd]. rewrite map_app, IH. reflexivity.
  Qed.

  (* the seed: genesis without parent; the parent's computed hash if an entry is found for it;
     the parent BLOCK hash if neither Known(parent) nor Pending(parent.slot) is live *)
  Theorem seed_no_parent : forall e, eng_seed genesis e None = genesis.
  Proof. reflexivity. Qed.
  Theorem seed_known_parent : forall e (p : block_id) x, eng_get e (Known (fst p) (snd p)) = Some x ->
    eng_seed genesis e (Some p) = be_hash x.
  Proof. intros e p x E. unfold eng_seed, eng_lookup_block. rewrite E. reflexivity. Qed.
  Theorem seed_unknown_parent : forall e (p : block_id), eng_get e (Known (fst p) (snd p)) = None ->
    eng_get e (Pending (fst p)) = None -> eng_seed genesis e (Some p) = snd p.
  Proof. intros e p E1 E2. unfold eng_seed, eng_lookup_block. rewrite E1, E2. reflexivity. Qed.
  (* a block still pending in the parent's slot (its hash is not known yet) is taken for the parent *)
  Theorem seed_pending_slot : forall e (p : block_id) x, eng_get e (Known (fst p) (snd p)) = None ->
    eng_get e (Pending (fst p)) = Some x -> eng_seed genesis e (Some p) = be_hash x.
  Proof. intros e p x E1 E2. unfold eng_seed, eng_lookup_block. rewrite E1, E2. reflexivity. Qed.
End EngineProofs.

(* "block p was never executed": no begin_block(Known p) and no end_block(p) occurs *)
Definition mentions_block (p : block_id) (o : eop) : bool :=
  match o with
  | EBegin (Known s h) _ => (s =? fst p) && bytes_eqb h (snd p)
  | EEnd b => (fst b =? fst p) && bytes_eqb (snd b) (snd p)
  | _ => false
  end.

(* the statement "a block whose parent was never executed reports the fold from the parent block hash",
   in the naive form that ignores blocks of the parent's slot *)
Definition unknown_parent_uses_block_hash (rekey : bool) : Prop :=
  forall (H : list N -> list N) (genesis : hash) (ops : list eop) (slot : N) (p : block_id) (txs : list (list N)) (b : block_id),
    fst b = slot -> existsb (mentions_block p) ops = false ->
    eng_run H genesis rekey [] (ops ++ [EBegin (Pending slot) (Some p); EExec (Pending slot) txs; EEnd b])
    = eng_run H genesis rekey [] ops ++ [(b, N.of_nat (length txs), fold_txs H (snd p) txs)].

(* PINNED tree: false, because a pending block that ENDED under another hash is taken for the parent *)
Theorem pinned_unknown_parent_uses_block_hash_refuted : ~ unknown_parent_uses_block_hash false.
Proof.
  intros P.
  specialize (P (fun x => x) [0] [EBegin (Pending 1) None; EExec (Pending 1) [[7]]; EEnd (1, [10])]
                2 (1, [11]) [[9]] (2, [12]) eq_refl eq_refl).
  vm_compute in P. discriminate.
Qed.
(* the same call sequence on the current code reports the fold from the parent block hash [11] *)
Example current_engine_on_the_pinned_witness :
  eng_run (fun x => x) [0] true []
    ([EBegin (Pending 1) None; EExec (Pending 1) [[7]]; EEnd (1, [10])] ++
     [EBegin (Pending 2) (Some (1, [11])); EExec (Pending 2) [[9]]; EEnd (2, [12])])
  = [((1, [10]), 1, [0; 7]); ((2, [12]), 1, [11; 9])].
Proof. vm_compute. reflexivity. Qed.

(* holds for both variants: it is enough that nothing is live for the parent and for the block itself *)
Theorem unknown_parent_residual : forall (H : list N -> list N) (genesis : hash) (rekey : bool) (e : engine) (slot : N)
  (p : block_id) (txs : list (list N)) (b : block_id),
  fst b = slot -> eng_get e (Known (fst p) (snd p)) = None -> eng_get e (Pending (fst p)) = None ->
  eng_get e (Known (fst b) (snd b)) = None ->
  eng_run H genesis rekey e [EBegin (Pending slot) (Some p); EExec (Pending slot) txs; EEnd b]
  = [(b, N.of_nat (length txs), fold_txs H (snd p) txs)].
Proof.
  intros H genesis rekey e slot p txs b Eb E1 E2 E3. subst slot. cbn [eng_run eng_step app].
  rewrite (seed_unknown_parent genesis e p E1 E2).
  rewrite eng_get_put, ipb_eqb_refl. cbn [be_count be_hash app].
  unfold eng_end, eng_lookup_block. rewrite !eng_get_put. cbn [ipb_eqb].
  rewrite E3. rewrite N.eqb_refl. destruct rekey; cbn [app be_count be_hash]; rewrite N.add_0_l; reflexivity.
Qed.

(* ---------- the current engine: Known(p) is live only if p was begun as Known or ended ---------- *)
Lemma step_keeps_known_absent : forall H genesis rekey e o (p : block_id), mentions_block p o = false ->
  eng_get e (Known (fst p) (snd p)) = None ->
  eng_get (fst (eng_step H genesis rekey e o)) (Known (fst p) (snd p)) = None.
Proof.
  intros H genesis rekey e o p M G. destruct o as [id parent | id txs | b | b]; cbn [eng_step fst].
  - rewrite eng_get_put. destruct id as [s|s h]; cbn [ipb_eqb mentions_block] in *; [exact G | rewrite M; exact G].
  - destruct (eng_get e id) as [x|] eqn:Gi; cbn [fst]; [|exact G].
    rewrite eng_get_put. destruct (ipb_eqb id (Known (fst p) (snd p))) eqn:E; [|exact G].
    apply ipb_eqb_eq in E. subst id. congruence.
  - cbn [mentions_block] in M. unfold eng_end, eng_lookup_block. destruct rekey.
    + destruct (eng_get e (Known (fst b) (snd b))); cbn [fst]; [exact G|].
      destruct (eng_get e (Pending (fst b))); cbn [fst]; [|exact G].
      rewrite eng_get_put. cbn [ipb_eqb]. rewrite M. rewrite eng_get_del. cbn [ipb_eqb]. exact G.
    + destruct (eng_get e (Known (fst b) (snd b))); cbn [fst]; [exact G|].
      destruct (eng_get e (Pending (fst b))); cbn [fst]; exact G.
  - apply eng_get_filter_none. exact G.
Qed.
Lemma known_absent_unless_mentioned : forall H genesis rekey ops e (p : block_id),
  existsb (mentions_block p) ops = false -> eng_get e (Known (fst p) (snd p)) = None ->
  eng_get (eng_state H genesis rekey e ops) (Known (fst p) (snd p)) = None.
Proof.
  induction ops as [|o ops IH]; intros e p M G; [exact G|].
  cbn [existsb] in M. apply orb_false_iff in M. destruct M as [M1 M2].
  unfold eng_state. cbn [fold_left]. apply IH; auto. apply step_keeps_known_absent; auto.
Qed.

(* CURRENT code, full strength: for every call history, a block whose parent p was never begun as Known nor
   ended under that identifier, while no block is still pending in p's slot, reports the fold of its
   transactions from the parent BLOCK hash (b itself must not have been filed before) *)
Theorem current_unknown_parent_uses_block_hash : forall (H : list N -> list N) (genesis : hash) (ops : list eop)
  (slot : N) (p : block_id) (txs : list (list N)) (b : block_id),
  fst b = slot -> existsb (mentions_block p) ops = false -> existsb (mentions_block b) ops = false ->
  eng_get (eng_state H genesis true [] ops) (Pending (fst p)) = None ->
  eng_run H genesis true [] (ops ++ [EBegin (Pending slot) (Some p); EExec (Pending slot) txs; EEnd b])
  = eng_run H genesis true [] ops ++ [(b, N.of_nat (length txs), fold_txs H (snd p) txs)].
Proof.
  intros H genesis ops slot p txs b Eb Mp Mb NP. rewrite run_app. f_equal.
  apply unknown_parent_residual; auto; apply known_absent_unless_mentioned; auto.
Qed.

(* ending a pending block files it under its identifier: nothing stays pending in its slot *)
Lemma end_clears_pending : forall H genesis e (b : block_id), eng_get e (Known (fst b) (snd b)) = None ->
  eng_get (fst (eng_step H genesis true e (EEnd b))) (Pending (fst b)) = None.
Proof.
  intros H genesis e b G. cbn [eng_step]. unfold eng_end. rewrite G.
  destruct (eng_get e (Pending (fst b))) eqn:GP; cbn [fst]; [|exact GP].
  rewrite eng_get_put. cbn [ipb_eqb]. rewrite eng_get_del, ipb_eqb_refl. reflexivity.
Qed.
(* ... hence a block of slot s that ENDED as (s, A) is never the seed of a child of (s, B), B <> A: for every
   history in which neither (s, A) nor (s, B) was filed before, the child of (s, B) begun right after
   end_block((s, A)) folds from block hash B *)
Theorem current_ended_block_never_seed : forall (H : list N -> list N) (genesis : hash) (ops : list eop)
  (s : N) (A B : hash) (slot : N) (txs : list (list N)) (c : block_id),
  bytes_eqb A B = false -> fst c = slot ->
  existsb (mentions_block (s, A)) ops = false -> existsb (mentions_block (s, B)) ops = false ->
  existsb (mentions_block c) (ops ++ [EEnd (s, A)]) = false ->
  eng_run H genesis true [] ((ops ++ [EEnd (s, A)]) ++ [EBegin (Pending slot) (Some (s, B)); EExec (Pending slot) txs; EEnd c])
  = eng_run H genesis true [] (ops ++ [EEnd (s, A)]) ++ [(c, N.of_nat (length txs), fold_txs H B txs)].
Proof.
  intros H genesis ops s A B slot txs c AB Ec MA MB Mc.
  apply (current_unknown_parent_uses_block_hash H genesis (ops ++ [EEnd (s, A)]) slot (s, B) txs c); auto.
  - rewrite existsb_app, MB. cbn [existsb mentions_block fst snd]. rewrite N.eqb_refl, AB. reflexivity.
  - rewrite state_app. unfold eng_state at 1. cbn [fold_left fst].
    apply (end_clears_pending H genesis _ (s, A)).
    apply (known_absent_unless_mentioned H genesis true ops [] (s, A)); auto.
Qed.

(* ---------- statements as used by Props/C20.v ---------- *)
Lemma world_ok_new : forall he, world_ok he [fork_new].
Proof. intros he. constructor; [apply (fork_new_ok he) | constructor]. Qed.

Lemma refines_map : forall he, (forall k v, vok NUM_LANES (he k v)) ->
  forall ops, Forall (op_ok) ops ->
  exists w, world_run he [fork_new] ops = Ok w /\ world_ok he w /\ wcontents w = ref_run [[]] ops.
Proof.
  intros he HE ops OK.
  destruct (world_run_spec he HE ops [fork_new] (world_ok_new he) OK) as [w [E [W T]]]. exists w. auto.
Qed.

Lemma fork_observations : forall he x, fork_ok he x ->
  (forall k, kwf k -> st_get (fk_state x) k = Ok (m_find k (fcontents x))) /\
  st_len (fk_state x) = N.of_nat (length (fcontents x)) /\
  st_iter (fk_state x) = Ok (fcontents x) /\
  sorted (fcontents x) /\
  fk_lt x = lt_of_contents he (fcontents x).
Proof.
  intros he x [W L]. split; [|split; [|split; [|split]]]; auto.
  - intros k K. apply st_get_spec; auto.
  - destruct W as [_ [_ Len]]. exact Len.
  - apply st_iter_spec.
  - apply st_sorted; auto.
Qed.

Lemma reference_is_a_map :
  (forall (k k' : key) (v : value) l, m_find k' (m_ins k v l) = if bytes_eqb k k' then Some v else m_find k' l) /\
  (forall (k k' : key) l, sorted l -> m_find k' (m_del k l) = if bytes_eqb k k' then None else m_find k' l) /\
  (forall (k : key) (v : value) l, length k = KEY_LEN -> (forall x, In x l -> length (fst x) = KEY_LEN) ->
                                   sorted l -> sorted (m_ins k v l)) /\
  (forall (k : key) l, sorted l -> sorted (m_del k l)).
Proof. repeat split; [apply m_find_ins | apply m_find_del | apply m_ins_sorted | apply m_del_sorted]. Qed.

Lemma chunk_at_is_digit : forall k d, kwf k -> d < 52 -> chunk_at k d = Ok (chunk k d) /\ chunk k d < 32.
Proof. intros k d K D. split; [apply chunk_at_ok; auto | apply chunk_lt]. Qed.

Lemma eq_is_content_equality : forall s1 s2, st_wf s1 -> st_wf s2 ->
  (state_eqb s1 s2 = true <-> contents s1 = contents s2).
Proof.
  intros s1 s2 W1 W2. rewrite state_eqb_eq. split; [intros E; rewrite E; reflexivity | apply st_canonical; auto].
Qed.

Lemma canonical_in_worlds : forall he, (forall k v, vok NUM_LANES (he k v)) ->
  forall ops1 ops2 w1 w2 x1 x2, Forall op_ok ops1 -> Forall op_ok ops2 ->
  world_run he [fork_new] ops1 = Ok w1 -> world_run he [fork_new] ops2 = Ok w2 ->
  In x1 w1 -> In x2 w2 -> fcontents x1 = fcontents x2 -> x1 = x2.
Proof.
  intros he HE ops1 ops2 w1 w2 x1 x2 O1 O2 R1 R2 I1 I2 E.
  destruct (world_run_spec he HE ops1 [fork_new] (world_ok_new he) O1) as [w1' [E1 [W1 _]]].
  destruct (world_run_spec he HE ops2 [fork_new] (world_ok_new he) O2) as [w2' [E2 [W2 _]]].
  rewrite R1 in E1. rewrite R2 in E2. injection E1 as <-. injection E2 as <-.
  eapply Forall_forall in W1; eauto. eapply Forall_forall in W2; eauto.
  destruct W1 as [S1 L1], W2 as [S2 L2].
  assert (Q : fk_state x1 = fk_state x2) by (apply st_canonical; auto).
  destruct x1 as [s1 l1], x2 as [s2 l2]. cbn [fk_state fk_lt] in *. subst s2. f_equal.
  rewrite L1, L2. unfold fcontents. reflexivity.
Qed.
