(* C01, global composition, part 3: the parent-ready tracker of a pool fed with justified marks.
   C07 (Proofs/ParentReadyProofs.v) proves the tracker equivalent to the accumulated marks: a parent
   is in a ready list only if [ready_spec_m] holds of the marks delivered so far.  Here: when every
   delivered mark is justified by the abstract view over the votes cast ([mark_nf] / [mark_skip] of
   Model/Safety.v), every announced ParentReady(s, p) satisfies [parent_ready W H s p]. *)
From Coq Require Import List NArith Bool Lia ZifyBool ZifyNat ZifyN.
From AG Require Import Gen.Params Model.Pool Model.TrackerSpec Model.Safety
  Proofs.SlotStateProofs Proofs.StakeSets Proofs.SafetyProofs Proofs.ParentReadyProofs.
Import ListNotations.
Open Scope N_scope.

Section Ready.
Variable W : world.

Lemma mark_nf_mono H H' b : incl H H' -> mark_nf W H b -> mark_nf W H' b.
Proof.
  intros I [C|[G|[f [F A]]]].
  - left. eapply nf_cert_mono; eassumption.
  - right. left. exact G.
  - right. right. exists f. split; [eapply finalized_mono; eassumption | exact A].
Qed.
Lemma mark_skip_mono H H' s : incl H H' -> mark_skip W H s -> mark_skip W H' s.
Proof.
  intros I [C|[f [a [a' [F R]]]]].
  - left. eapply skip_cert_mono; eassumption.
  - right. exists f, a, a'. split; [eapply finalized_mono; eassumption | exact R].
Qed.
Lemma parent_ready_mono H H' s p : incl H H' -> parent_ready W H s p -> parent_ready W H' s p.
Proof.
  intros I (L & M & S). split; [exact L|]. split; [eapply mark_nf_mono; eassumption|].
  intros t L1 L2. eapply mark_skip_mono; [exact I | apply S; assumption].
Qed.

Definition marks_just (H : list vote) (m : marks) : Prop :=
  (forall b, In b (mk_nf m) -> mark_nf W H b) /\ (forall s, In s (mk_skip m) -> mark_skip W H s).
Definition PRJ (H : list vote) (t : prtracker) : Prop := exists m, Inv t m /\ marks_just H m.
Definition op_just (H : list vote) (op : ptop) : Prop :=
  match op with
  | TNotarFb b => mark_nf W H b
  | TSkip s => mark_skip W H s
  | TFinalize ev => (forall b, In b (fin_blocks ev) -> mark_nf W H b) /\ (forall s, In s (fe_impl_skipped ev) -> mark_skip W H s)
  | _ => True
  end.

Lemma marks_just_mono H H' m : incl H H' -> marks_just H m -> marks_just H' m.
Proof.
  intros I [A B]. split; [intros b Ib; eapply mark_nf_mono; [exact I | apply A; exact Ib]
                         | intros s Is; eapply mark_skip_mono; [exact I | apply B; exact Is]].
Qed.
Lemma PRJ_mono H H' t : incl H H' -> PRJ H t -> PRJ H' t.
Proof. intros I [m [A B]]. exists m. split; [exact A | eapply marks_just_mono; eassumption]. Qed.

Lemma PRJ_init H : PRJ H pt_init.
Proof.
  exists marks_init. split; [apply Inv_init|]. split.
  - intros b [<-|[]]. right. left. reflexivity.
  - intros s [].
Qed.

Lemma spec_parent_ready H m s p : marks_just H m -> ready_spec_m m s p = true -> parent_ready W H s p.
Proof.
  intros [A B] R. apply ready_spec_iff in R. destruct R as (_ & L & Inf & Sk).
  split; [exact L|]. split; [apply A; exact Inf|]. intros t L1 L2. apply B. apply Sk. split; assumption.
Qed.

Lemma marks_step_just H m op : marks_just H m -> op_just H op -> marks_just H (marks_step m op).
Proof.
  intros [A B] J. destruct op as [b|s|ev|r|s]; cbn [marks_step op_just] in *.
  - split; [|exact B]. cbn [mk_nf]. intros x Ix. apply in_app_or in Ix. destruct Ix as [Ix|[<-|[]]]; [apply A; exact Ix | exact J].
  - split; [exact A|]. cbn [mk_skip]. intros x Ix. apply in_app_or in Ix. destruct Ix as [Ix|[<-|[]]]; [apply B; exact Ix | exact J].
  - destruct J as [J1 J2]. split.
    + cbn [mk_nf]. intros x Ix. apply in_app_or in Ix. destruct Ix as [Ix|Ix]; [apply A | apply J1]; exact Ix.
    + cbn [mk_skip]. intros x Ix. apply in_app_or in Ix. destruct Ix as [Ix|Ix]; [apply B | apply J2]; exact Ix.
  - split; assumption.
  - split; assumption.
Qed.

(* one tracker operation of the pool *)
Theorem prj_step : forall H t op t' a w,
  PRJ H t -> op_just H op -> (forall r, op = TPrune r -> pt_root t <= r) -> pt_step t op = Some (t', a, w) ->
  PRJ H t' /\ pt_root t' = match op with TPrune r => r | _ => pt_root t end /\
  forall s p, In (s, p) a -> parent_ready W H s p.
Proof.
  intros H t op t' a w [m [I M]] J Hr E.
  pose proof (step_ok t m op I Hr) as S. rewrite E in S. destruct S as (I' & R' & B1 & _).
  pose proof (marks_step_just H m op M J) as M'.
  split; [exists (marks_step m op); split; assumption|]. split; [exact R'|].
  intros s p Ia. destruct (B1 s p Ia) as [_ Ir].
  apply (spec_parent_ready H (marks_step m op)); [exact M'|]. apply (inv_sound _ _ I'). exact Ir.
Qed.

(* the only tracker operation that can panic on such a tracker is a second waiter *)
Theorem prj_step_total : forall H t op,
  PRJ H t -> (forall r, op = TPrune r -> pt_root t <= r) -> (forall s, op <> TWait s) -> pt_step t op <> None.
Proof.
  intros H t op [m [I _]] Hr Hw E. pose proof (step_ok t m op I Hr) as S. rewrite E in S.
  destruct S as [s [Es _]]. exact (Hw s Es).
Qed.

(* the ready lists themselves *)
Theorem prj_ready : forall H t s p, PRJ H t -> In p (pt_parents_ready t s) -> parent_ready W H s p.
Proof.
  intros H t s p [m [I M]] Ip. rewrite <- rdy_parents_ready in Ip.
  apply (spec_parent_ready H m); [exact M | apply (inv_sound _ _ I); exact Ip].
Qed.
End Ready.
