(* C12 / C13: the tag guard of the current tree ("fix: do not blame the leader for a shred whose type
   contradicts its index").  A shred whose unsigned data / coding tag contradicts its index is refused up front
   (InvalidShred, no event, state untouched, leader not flagged); a dissemination run over l has exactly the
   state and the events of the run over the tag-consistent shreds of l, and its outputs are those with the
   refusals woven in; consequently an honest block is reconstructed from honest shreds whatever tag-flipped
   shreds are slipped in, and the leader is never flagged.  The pinned tree flagged the correct leader. *)
From Coq Require Import List NArith Bool Arith Lia ZifyBool ZifyNat ZifyN.
From AG Require Import Gen.Params Model.Pool Model.Blockstore Model.BlockstoreSpec Proofs.SlotStateProofs
  Proofs.BlockstoreProofs Proofs.BlockstoreOrderProofs Proofs.BlockstoreFlagProofs.
Import ListNotations.
Open Scope N_scope.

Lemma flip_tag_bad s : shred_tag_ok (flip_tag s) = negb (shred_tag_ok s).
Proof.
  unfold shred_tag_ok, flip_tag. cbn [b_index b_is_data].
  destruct (b_index s <? DATA_SHREDS), (b_is_data s); reflexivity.
Qed.
Lemma hshred_tag_ok hb i j : shred_tag_ok (hshred hb i j) = true.
Proof. unfold shred_tag_ok, hshred. cbn [b_index b_is_data]. apply eqb_reflx. Qed.
Lemma bshred_eqb_tag a b : bshred_eqb a b = true -> shred_tag_ok a = shred_tag_ok b.
Proof. intros H. apply bshred_eqb_eq in H. subst. reflexivity. Qed.
Lemma honest_shred_tag_ok hb s : honest_shred hb s = true -> shred_tag_ok s = true.
Proof.
  unfold honest_shred. intros H. apply andb_true_iff in H. destruct H as [_ H].
  rewrite (bshred_eqb_tag _ _ H). apply hshred_tag_ok.
Qed.

(* the run with the guard is the run *)
Lemma dissem_run_gen_true ct slot l : bs_dissem_run_gen true ct slot l = bs_dissem_run ct slot l.
Proof. reflexivity. Qed.

(* ---------- a run sees only the tag-consistent shreds ---------- *)
Definition step_from (ct : content) (slot : N) (l : list bshred) (sd : slotdata) :=
  fold_left (bs_dissem_step ct slot) l (sd, []).

Lemma fold_acc ct slot l : forall sd out,
  fold_left (bs_dissem_step ct slot) l (sd, out) =
  (fst (step_from ct slot l sd), out ++ snd (step_from ct slot l sd)).
Proof.
  unfold step_from. induction l as [|s l IH]; intros sd out; cbn [fold_left].
  - cbn [fst snd]. rewrite app_nil_r. reflexivity.
  - unfold bs_dissem_step at 2 4 6. cbn [fst snd].
    destruct (bs_step true ct slot sd (BDissem s)) as [[sd' r] ev].
    rewrite (IH sd' (out ++ [(r, ev)])), (IH sd' ([] ++ [(r, ev)])). cbn [fst snd app].
    rewrite <- app_assoc. reflexivity.
Qed.

Lemma step_from_filter ct slot l : forall sd, SdOk sd ->
  fst (step_from ct slot l sd) = fst (step_from ct slot (filter shred_tag_ok l) sd) /\
  snd (step_from ct slot l sd) = weave_refusals l (snd (step_from ct slot (filter shred_tag_ok l) sd)).
Proof.
  induction l as [|s l IH]; intros sd Hok; [split; reflexivity|].
  cbn [filter weave_refusals]. destruct (shred_tag_ok s) eqn:T.
  - unfold step_from. cbn [fold_left]. unfold bs_dissem_step at 2 4 6 8. cbn [fst snd app].
    destruct (bs_step true ct slot sd (BDissem s)) as [[sd' r] ev] eqn:E.
    destruct (dissem_step_any ct slot sd s sd' r ev Hok E) as [Hok' _].
    rewrite !(fold_acc ct slot _ sd' [(r, ev)]). cbn [fst snd app].
    destruct (IH sd' Hok') as [A B]. split; [exact A|]. rewrite B. reflexivity.
  - unfold step_from at 1 3. cbn [fold_left]. unfold bs_dissem_step at 2 4. cbn [fst snd app].
    destruct Hok as [Hp W].
    rewrite (bs_step_tag_bad true ct slot sd (BDissem s) Hp T).
    rewrite (fold_acc ct slot l sd [(BRErr EInvalidShred, [])]). cbn [fst snd app].
    destruct (IH sd (conj Hp W)) as [A B]. split; [exact A|]. rewrite B. reflexivity.
Qed.

Lemma sdok_empty : SdOk sd_empty.
Proof. split; [reflexivity | exact wf_empty]. Qed.

(* state: tag-inconsistent shreds leave no trace; outputs: each of them is answered InvalidShred without an
   event, every other delivery exactly as if they had not been there *)
Theorem run_filter_tag : forall ct slot l,
  fst (bs_dissem_run ct slot l) = fst (bs_dissem_run ct slot (filter shred_tag_ok l)) /\
  snd (bs_dissem_run ct slot l) = weave_refusals l (snd (bs_dissem_run ct slot (filter shred_tag_ok l))).
Proof. intros ct slot l. exact (step_from_filter ct slot l sd_empty sdok_empty). Qed.

Lemma weave_events l : forall outs, length outs = length (filter shred_tag_ok l) ->
  out_events (weave_refusals l outs) = out_events outs.
Proof.
  induction l as [|s l IH]; intros outs Hlen; cbn [weave_refusals filter] in *.
  - destruct outs; [reflexivity | discriminate].
  - destruct (shred_tag_ok s).
    + destruct outs as [|o os]; [discriminate|]. cbn [length] in Hlen. rewrite !out_events_cons, IH by lia. reflexivity.
    + rewrite out_events_cons. cbn [snd app]. apply IH. exact Hlen.
Qed.
Lemma weave_in l : forall outs r ev, In (r, ev) (weave_refusals l outs) ->
  In (r, ev) outs \/ (r = BRErr EInvalidShred /\ ev = []).
Proof.
  induction l as [|s l IH]; intros outs r ev H; cbn [weave_refusals] in H; [destruct H|].
  destruct (shred_tag_ok s).
  - destruct outs as [|o os]; [destruct H|]. destruct H as [H|H]; [left; left; exact H|].
    destruct (IH os r ev H) as [A|A]; [left; right; exact A | right; exact A].
  - destruct H as [H|H]; [right; injection H as <- <-; auto | exact (IH outs r ev H)].
Qed.
Lemma run_length ct slot l : length (snd (bs_dissem_run ct slot l)) = length l.
Proof.
  induction l as [|s l IH] using rev_ind; [reflexivity|].
  rewrite run_snoc'. unfold bs_dissem_step.
  destruct (bs_step true ct slot (fst (bs_dissem_run ct slot l)) (BDissem s)) as [[sd' r] ev]. cbn [snd].
  rewrite !app_length, IH. reflexivity.
Qed.

Theorem run_filter_tag_events : forall ct slot l,
  out_events (snd (bs_dissem_run ct slot l)) = out_events (snd (bs_dissem_run ct slot (filter shred_tag_ok l))).
Proof.
  intros ct slot l. rewrite (proj2 (run_filter_tag ct slot l)). apply weave_events. apply run_length.
Qed.

(* ---------- an honest block with tag-flipped shreds slipped in ---------- *)
Lemma honest_or_flipped_filter hb l : forallb (honest_or_flipped hb) l = true ->
  forallb (honest_shred hb) (filter shred_tag_ok l) = true.
Proof.
  induction l as [|s l IH]; cbn [forallb filter]; [reflexivity|]. intros H. apply andb_true_iff in H. destruct H as [A B].
  destruct (shred_tag_ok s) eqn:T; [|exact (IH B)]. cbn [forallb]. rewrite (IH B), andb_true_r.
  unfold honest_or_flipped in A. rewrite T in A. cbn [negb] in A. rewrite orb_false_r in A. exact A.
Qed.

(* the complete output stream: the specified stream of the honest shreds, refusals woven in *)
Theorem dissem_flipped_run_is_spec : forall slot ct hb l,
  hb_ok slot ct hb = true -> forallb (honest_or_flipped hb) l = true ->
  snd (bs_dissem_run ct slot l) = weave_refusals l (expected_outs ct hb [] (filter shred_tag_ok l)).
Proof.
  intros slot ct hb l Hok Hl. rewrite (proj2 (run_filter_tag ct slot l)).
  rewrite (dissem_run_is_spec slot ct hb _ Hok (honest_or_flipped_filter hb l Hl)). reflexivity.
Qed.

(* the correct leader is never flagged, tag flips or not: no panic, no InvalidBlock, every return is Ok,
   Duplicate or - for the tag-inconsistent shreds only - InvalidShred; and the block is reconstructed from the
   remaining shreds: the Block event exactly once, exactly when the tag-consistent shreds make every slice
   ready, with the block's hash and parent, and that block is stored *)
Theorem dissem_flipped_safe : forall slot ct hb l,
  hb_ok slot ct hb = true -> forallb (honest_or_flipped hb) l = true ->
  sd_misbehaved (fst (bs_dissem_run ct slot l)) = false /\
  sd_panicked (fst (bs_dissem_run ct slot l)) = false /\
  (forall r ev, In (r, ev) (snd (bs_dissem_run ct slot l)) ->
     (r = BRErr EDuplicate \/ (exists x, r = BROk x) \/ (r = BRErr EInvalidShred /\ ev = [])) /\ ~ In BInvalidBlock ev) /\
  exists parent, hb_parent ct hb = Some parent /\ fst parent < slot /\
    filter is_block_event (out_events (snd (bs_dissem_run ct slot l))) =
      (if block_ready hb (filter shred_tag_ok l) then [BBlock (hb_hash hb) parent] else []) /\
    bd_completed (sd_dissem (fst (bs_dissem_run ct slot l))) =
      (if block_ready hb (filter shred_tag_ok l) then Some (hb_hash hb, parent) else None).
Proof.
  intros slot ct hb l Hok Hl. pose proof (honest_or_flipped_filter hb l Hl) as Hf.
  destruct (run_filter_tag ct slot l) as [Est Eout].
  destruct (dissem_honest_safe slot ct hb _ Hok Hf) as [Hm [Hp Hret]].
  destruct (dissem_block_once slot ct hb _ Hok Hf) as [parent [Hpar [Hs [Hb Hc]]]].
  rewrite Est. split; [exact Hm|]. split; [exact Hp|]. split.
  - intros r ev Hin. rewrite Eout in Hin. destruct (weave_in _ _ _ _ Hin) as [A|[-> ->]].
    + destruct (Hret r ev A) as [[B|B] C]; auto.
    + split; [right; right; auto | intros []].
  - exists parent. split; [exact Hpar|]. split; [exact Hs|]. split; [|exact Hc].
    rewrite run_filter_tag_events. exact Hb.
Qed.

(* ---------- the pinned tree: one honest shred with its tag flipped got the correct leader flagged ---------- *)
Definition tf_ct : content := [(1, DecOk (Some (1, 3)) true)].
Definition tf_hb : hblock := [(1, 64)].
Definition tf_shreds : list bshred :=
  [hshred tf_hb 0 7; flip_tag (hshred tf_hb 0 5)] ++ map (hshred tf_hb 0) (seqN 8 31).

Theorem pinned_tag_flip_flags_correct_leader :
  hb_ok 2 tf_ct tf_hb = true /\ forallb (honest_or_flipped tf_hb) tf_shreds = true /\
  block_ready tf_hb (filter shred_tag_ok tf_shreds) = true /\
  sd_misbehaved (fst (bs_dissem_run_gen false tf_ct 2 tf_shreds)) = true /\
  out_events (snd (bs_dissem_run_gen false tf_ct 2 tf_shreds)) = [BFirstShred; BInvalidBlock] /\
  sd_misbehaved (fst (bs_dissem_run_gen true tf_ct 2 tf_shreds)) = false /\
  out_events (snd (bs_dissem_run_gen true tf_ct 2 tf_shreds)) = [BFirstShred; BBlock [1] (1, 3)].
Proof. vm_compute. repeat split; reflexivity. Qed.
