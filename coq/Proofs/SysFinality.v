(* C01, global composition, part 2: the finality tracker of a pool fed with justified marks.
   [FJ W H t]: every parent link the tracker knows is a link of the block tree, and every status it
   holds is justified by the abstract view over the votes cast H - Notarized by a notarization
   certificate, FinalPendingNotar by a finalization certificate, Finalized by [finalized], implicitly
   finalized by a finalized descendant, implicitly skipped by lying strictly between two consecutive
   blocks of the chain of a finalized block.  The four tracker operations preserve FJ when their
   argument is justified, and the finalization events they emit are justified
   (no assumption on the history: soundness only, a panic - None - proves nothing and needs nothing). *)
From Coq Require Import List NArith Bool Lia ZifyBool ZifyNat ZifyN.
From AG Require Import Gen.Params Model.Pool Model.Safety Proofs.SlotStateProofs Proofs.StakeSets Proofs.SafetyProofs.
Import ListNotations.
Open Scope N_scope.

Lemma alookup_filter_key {V} (f : N -> bool) k (m : list (N * V)) :
  alookup k (filter (fun kv => f (fst kv)) m) = if f k then alookup k m else None.
Proof.
  induction m as [|[k' v'] m IH]; cbn [filter alookup fst].
  - destruct (f k); reflexivity.
  - destruct (f k') eqn:Ek; cbn [alookup].
    + destruct (k =? k') eqn:E; [|exact IH]. apply N.eqb_eq in E. subst. rewrite Ek. reflexivity.
    + destruct (k =? k') eqn:E; [|exact IH]. apply N.eqb_eq in E. subst. rewrite Ek in *. exact IH.
Qed.
Lemma bid_eqb_eq a b : bid_eqb a b = true <-> a = b.
Proof.
  unfold bid_eqb. destruct a as [a1 a2], b as [b1 b2]. cbn [fst snd]. split.
  - intros H. apply andb_prop in H. destruct H as [H1 H2]. apply N.eqb_eq in H1, H2. congruence.
  - intros H. injection H as -> ->. rewrite !N.eqb_refl. reflexivity.
Qed.
Lemma blookup_filter_key {V} (f : blockid -> bool) k (m : list (blockid * V)) :
  blookup k (filter (fun kv => f (fst kv)) m) = if f k then blookup k m else None.
Proof.
  induction m as [|[k' v'] m IH]; cbn [filter blookup fst].
  - destruct (f k); reflexivity.
  - destruct (f k') eqn:Ek; cbn [blookup].
    + destruct (bid_eqb k k') eqn:E; [|exact IH]. apply bid_eqb_eq in E. subst. rewrite Ek. reflexivity.
    + destruct (bid_eqb k k') eqn:E; [|exact IH]. apply bid_eqb_eq in E. subst. rewrite Ek in *. exact IH.
Qed.
Lemma blookup_binsert_same {V} k (v : V) m : blookup k (binsert k v m) = Some v.
Proof.
  assert (R : bid_eqb k k = true) by (apply bid_eqb_eq; reflexivity).
  induction m as [|[k' v'] m IH]; cbn [binsert blookup].
  - rewrite R. reflexivity.
  - destruct (bid_eqb k k') eqn:E; cbn [blookup]; [rewrite R; reflexivity|]. rewrite E. exact IH.
Qed.
Lemma blookup_binsert_other {V} k k' (v : V) m : k <> k' -> blookup k (binsert k' v m) = blookup k m.
Proof.
  intros Hne. assert (F : bid_eqb k k' = false).
  { destruct (bid_eqb k k') eqn:E; [|reflexivity]. apply bid_eqb_eq in E. contradiction. }
  induction m as [|[k2 v2] m IH]; cbn [binsert blookup].
  - rewrite F. reflexivity.
  - destruct (bid_eqb k' k2) eqn:E2; cbn [blookup].
    + apply bid_eqb_eq in E2. subst k2. rewrite F. reflexivity.
    + destruct (bid_eqb k k2); [reflexivity | exact IH].
Qed.

Section Fin.
Variable W : world.
Hypothesis WO : world_ok W.

(* directly finalized in the abstract view; the genesis block only together with a finalization
   certificate for the genesis slot (which cannot exist in a rule-abiding history) *)
Definition fin_just (H : list vote) (b : blockid) : Prop :=
  finalized W H b = true \/ (b = genesis /\ final_cert W H 0 = true).
Definition ifin (H : list vote) (b : blockid) : Prop := exists f, fin_just H f /\ anc_eq W b f.
Definition iskip (H : list vote) (s : slot) : Prop :=
  exists f a a', fin_just H f /\ anc_eq W a f /\ w_parent W a = Some a' /\ fst a' < s /\ s < fst a.

Definition st_just (H : list vote) (s : slot) (st : fstatus) : Prop :=
  match st with
  | FNotarized h => notar_cert W H (s, h) = true \/ (s, h) = genesis
  | FFinalPendingNotar => final_cert W H s = true
  | FFinalized h => fin_just H (s, h)
  | FImplFinalized h => ifin H (s, h)
  | FImplSkipped => iskip H s
  end.

Definition evj (H : list vote) (ev : fin_event) : Prop :=
  (forall b, fe_final ev = Some b -> fin_just H b) /\
  (forall b, In b (fe_impl_final ev) -> ifin H b) /\
  (forall s, In s (fe_impl_skipped ev) -> iskip H s).

Record FJ (H : list vote) (t : ftracker) : Prop := mkFJ {
  fj_par : forall b p, blookup b (ft_parents t) = Some p -> w_parent W b = Some p;
  fj_st : forall s st, alookup s (ft_status t) = Some st -> st_just H s st }.

Lemma fin_just_mono H H' b : incl H H' -> fin_just H b -> fin_just H' b.
Proof.
  intros I [F|[G F]]; [left; eapply finalized_mono; eassumption | right; split; [exact G | eapply final_cert_mono; eassumption]].
Qed.
Lemma ifin_mono H H' b : incl H H' -> ifin H b -> ifin H' b.
Proof. intros I [f [F A]]. exists f. split; [eapply fin_just_mono; eassumption | exact A]. Qed.
Lemma iskip_mono H H' s : incl H H' -> iskip H s -> iskip H' s.
Proof. intros I [f [a [a' [F R]]]]. exists f, a, a'. split; [eapply fin_just_mono; eassumption | exact R]. Qed.
Lemma st_just_mono H H' s st : incl H H' -> st_just H s st -> st_just H' s st.
Proof.
  intros I. destruct st; cbn [st_just].
  - intros [N|G]; [left; eapply notar_cert_mono; eassumption | right; exact G].
  - apply final_cert_mono; exact I.
  - apply fin_just_mono; exact I.
  - apply ifin_mono; exact I.
  - apply iskip_mono; exact I.
Qed.
Lemma FJ_mono H H' t : incl H H' -> FJ H t -> FJ H' t.
Proof. intros I [P S]. constructor; [exact P|]. intros s st L. eapply st_just_mono; [exact I | apply S; exact L]. Qed.

Lemma FJ_init H : FJ H ft_init.
Proof.
  constructor.
  - intros b p L. discriminate.
  - intros s st L. unfold ft_init in L. cbn [ft_status alookup] in L.
    destruct (s =? 0) eqn:E; [|discriminate]. apply N.eqb_eq in E. subst. injection L as <-. right. reflexivity.
Qed.

Lemma evj_empty H : evj H fe_empty.
Proof. split; [intros b E; discriminate|]. split; intros x []. Qed.

Lemma fin_ifin H b : fin_just H b -> ifin H b.
Proof. intros F. exists b. split; [exact F | apply ae_refl]. Qed.

Lemma ifin_parent H c b : ifin H c -> w_parent W c = Some b -> ifin H b.
Proof.
  intros [f [F A]] P. exists f. split; [exact F|]. eapply anc_eq_trans; [|exact A]. eapply ae_step; [exact P | apply ae_refl].
Qed.

(* ---------- status updates ---------- *)
Lemma FJ_set H t s st : FJ H t -> st_just H s st -> FJ H (ft_set_status t s st).
Proof.
  intros [P S] J. constructor; [exact P|]. intros s' st' L. cbn [ft_set_status ft_status] in L.
  destruct (N.eq_dec s' s) as [->|Hne].
  - rewrite alookup_ainsert_same in L. injection L as <-. exact J.
  - rewrite alookup_ainsert_other in L by exact Hne. apply S. exact L.
Qed.

Lemma FJ_prune H t : FJ H t -> FJ H (ft_prune t).
Proof.
  intros [P S]. unfold ft_prune. constructor; cbn [ft_parents ft_status].
  - intros b p L.
    rewrite (blookup_filter_key (fun k => ft_advance (length (ft_status t)) (ft_status t) (ft_first t) <=? fst k)) in L.
    destruct (_ <=? fst b); [apply P; exact L | discriminate].
  - intros s st L. rewrite (alookup_filter_key (fun k => ft_advance (length (ft_status t)) (ft_status t) (ft_first t) <=? k)) in L.
    destruct (_ <=? s); [apply S; exact L | discriminate].
Qed.

Lemma FJ_highest H t x : FJ H t -> FJ H (mkFT (ft_status t) (ft_parents t) x (ft_first t)).
Proof. intros [P S]. constructor; assumption. Qed.

(* ---------- the walk over implicitly finalized ancestors ---------- *)
Lemma skip_between_just H : forall slots t ev t' ev' fl,
  FJ H t -> evj H ev -> (forall s, In s slots -> iskip H s) ->
  ft_skip_between t ev slots = Some (t', ev', fl) -> FJ H t' /\ evj H ev'.
Proof.
  induction slots as [|s rest IH]; intros t ev t' ev' fl J E Sk R; cbn [ft_skip_between] in R.
  - injection R as <- <- <-. split; assumption.
  - assert (J1 : FJ H (ft_set_status t s FImplSkipped)) by (apply FJ_set; [exact J | apply Sk; left; reflexivity]).
    assert (E1 : evj H (mkFE (fe_final ev) (fe_impl_final ev) (fe_impl_skipped ev ++ [s]))).
    { destruct E as (A & B & C). split; [exact A|]. split; [exact B|]. cbn [fe_impl_skipped].
      intros x Ix. apply in_app_or in Ix. destruct Ix as [Ix|[<-|[]]]; [apply C; exact Ix | apply Sk; left; reflexivity]. }
    assert (Sk' : forall x, In x rest -> iskip H x) by (intros x Ix; apply Sk; right; exact Ix).
    destruct (alookup s (ft_status t)) as [[h| |h|h|]|]; try discriminate R.
    + apply (IH _ _ _ _ _ J1 E1 Sk' R).
    + injection R as <- <- <-. split; assumption.
    + apply (IH _ _ _ _ _ J1 E1 Sk' R).
Qed.

Lemma handle_impl_just H : forall fuel t source b ev t' ev',
  FJ H t -> evj H ev ->
  (exists c, ifin H c /\ w_parent W c = Some b /\ fst c = source) ->
  ft_handle_impl fuel t source b ev = Some (t', ev') -> FJ H t' /\ evj H ev'.
Proof.
  induction fuel as [|f IH]; intros t source b ev t' ev' J E [c [Fc [Pc Sc]]] R; [discriminate|].
  cbn [ft_handle_impl] in R.
  destruct (negb (fst b <? source)); [discriminate|].
  destruct (fst b <? ft_first t); [injection R as <- <-; split; assumption|].
  assert (Fb : ifin H b) by (eapply ifin_parent; eassumption).
  assert (Sk : forall s, In s (seqN (fst b + 1) (N.to_nat (source - fst b - 1))) -> iskip H s).
  { intros s Is. unfold seqN in Is. apply in_map_iff in Is. destruct Is as [i [<- Ii]]. apply in_seq in Ii.
    destruct Fc as [f0 [F0 A0]]. exists f0, c, b. split; [exact F0|]. split; [exact A0|]. split; [exact Pc|].
    unfold blockid, slot, hash in *. lia. }
  destruct (ft_skip_between t ev _) as [[[t1 ev1] early]|] eqn:Esk; [|discriminate].
  destruct (skip_between_just H _ _ _ _ _ _ J E Sk Esk) as [J1 E1].
  destruct early; [injection R as <- <-; split; assumption|].
  cbv zeta in R.
  assert (Jb : st_just H (fst b) (FImplFinalized (snd b))) by (cbn [st_just]; destruct b; exact Fb).
  set (t2 := ft_set_status t1 (fst b) (FImplFinalized (snd b))) in *.
  assert (J2 : FJ H t2) by (apply FJ_set; assumption).
  assert (Restore : forall w, alookup (fst b) (ft_status t1) = Some w ->
            Some (ft_set_status t2 (fst b) w, ev1) = Some (t', ev') -> FJ H t' /\ evj H ev').
  { intros w Lw R'. injection R' as <- <-. split; [|exact E1]. apply FJ_set; [exact J2|]. apply (fj_st _ _ J1). exact Lw. }
  assert (Cont : match blookup b (ft_parents t2) with
                 | Some p => ft_handle_impl f t2 (fst b) p (mkFE (fe_final ev1) (fe_impl_final ev1 ++ [b]) (fe_impl_skipped ev1))
                 | None => Some (t2, mkFE (fe_final ev1) (fe_impl_final ev1 ++ [b]) (fe_impl_skipped ev1))
                 end = Some (t', ev') -> FJ H t' /\ evj H ev').
  { intros R'.
    assert (E2 : evj H (mkFE (fe_final ev1) (fe_impl_final ev1 ++ [b]) (fe_impl_skipped ev1))).
    { destruct E1 as (A & B & C). split; [exact A|]. split; [|exact C]. cbn [fe_impl_final].
      intros x Ix. apply in_app_or in Ix. destruct Ix as [Ix|[<-|[]]]; [apply B; exact Ix | exact Fb]. }
    destruct (blookup b (ft_parents t2)) as [p|] eqn:Lp.
    - eapply IH; [exact J2 | exact E2 | | exact R']. exists b. split; [exact Fb|]. split; [|reflexivity].
      apply (fj_par _ _ J2). exact Lp.
    - injection R' as <- <-. split; assumption. }
  destruct (alookup (fst b) (ft_status t1)) as [[h| |h|h|]|] eqn:Lo.
  - (* old status Notarized(h): with or without the assertion h = snd b *)
    first [ apply Cont; exact R | destruct (h =? snd b); [apply Cont; exact R | discriminate R] ].
  - apply Cont; exact R.
  - destruct (h =? snd b); [apply (Restore _ eq_refl R) | discriminate].
  - destruct (h =? snd b); [apply (Restore _ eq_refl R) | discriminate].
  - discriminate.
  - apply Cont; exact R.
Qed.

Lemma hfb_just H t b ev t' ev' :
  FJ H t -> evj H ev -> fin_just H b ->
  ft_handle_finalized_block t b ev = Some (t', ev') -> FJ H t' /\ evj H ev'.
Proof.
  intros J E Fb R. unfold ft_handle_finalized_block in R. cbv zeta in R.
  set (t1 := mkFT (ft_status t) (ft_parents t) (N.max (fst b) (ft_highest t)) (ft_first t)) in *.
  assert (J1 : FJ H t1) by (apply FJ_highest; exact J).
  assert (E1 : evj H (mkFE (Some b) (fe_impl_final ev) (fe_impl_skipped ev))).
  { destruct E as (A & B & C). split; [|split; assumption]. cbn [fe_final]. intros x Ex. injection Ex as <-. exact Fb. }
  destruct (blookup b (ft_parents t1)) as [p|] eqn:Lp.
  - destruct (ft_handle_impl (ft_fuel t1) t1 (fst b) p _) as [[t2 ev2]|] eqn:Eh; [|discriminate].
    injection R as <- <-.
    assert (X : FJ H t2 /\ evj H ev2).
    { eapply handle_impl_just; [exact J1 | exact E1 | | exact Eh].
      exists b. split; [apply fin_ifin; exact Fb|]. split; [apply (fj_par _ _ J1); exact Lp | reflexivity]. }
    destruct X as [J2 E2]. split; [apply FJ_prune; exact J2 | exact E2].
  - injection R as <- <-. split; [apply FJ_prune; exact J1 | exact E1].
Qed.

(* ---------- the four operations ---------- *)
Theorem add_parent_just : forall H t b p t' ev,
  FJ H t -> w_parent W b = Some p -> ft_add_parent t b p = Some (t', ev) -> FJ H t' /\ evj H ev.
Proof.
  intros H t b p t' ev J Pb R. unfold ft_add_parent in R.
  destruct (negb (fst p <? fst b)); [discriminate|].
  destruct (fst b <? ft_first t); [injection R as <- <-; split; [exact J | apply evj_empty]|].
  destruct (blookup b (ft_parents t)) as [p'|] eqn:Lp.
  { destruct (bid_eqb p p'); [injection R as <- <-; split; [exact J | apply evj_empty] | discriminate]. }
  cbv zeta in R.
  set (t1 := mkFT (ft_status t) (binsert b p (ft_parents t)) (ft_highest t) (ft_first t)) in *.
  assert (J1 : FJ H t1).
  { destruct J as [P S]. constructor; [|exact S]. intros x q L. unfold t1 in L. cbn [ft_parents] in L.
    destruct (bid_eqb x b) eqn:Ex.
    - apply bid_eqb_eq in Ex. subst x. rewrite blookup_binsert_same in L. injection L as <-. exact Pb.
    - rewrite blookup_binsert_other in L; [apply P; exact L|]. intros ->.
      assert (bid_eqb b b = true) by (apply bid_eqb_eq; reflexivity). congruence. }
  assert (Same : Some (t1, fe_empty) = Some (t', ev) -> FJ H t' /\ evj H ev).
  { intros R'. injection R' as <- <-. split; [exact J1 | apply evj_empty]. }
  assert (Walk : forall h, ifin H (fst b, h) ->
            (if h =? snd b
             then match ft_handle_impl (ft_fuel t1) t1 (fst b) p fe_empty with
                  | Some (t2, ev0) => Some (ft_prune t2, ev0)
                  | None => None
                  end
             else Some (t1, fe_empty)) = Some (t', ev) -> FJ H t' /\ evj H ev).
  { intros h Fh R'. destruct (h =? snd b) eqn:Eh; [|apply Same; exact R'].
    apply N.eqb_eq in Eh. subst h.
    destruct (ft_handle_impl (ft_fuel t1) t1 (fst b) p fe_empty) as [[t2 ev0]|] eqn:Ei; [|discriminate].
    injection R' as <- <-.
    assert (X : FJ H t2 /\ evj H ev0).
    { eapply handle_impl_just; [exact J1 | apply evj_empty | | exact Ei].
      exists b. split; [destruct b; exact Fh|]. split; [exact Pb | reflexivity]. }
    destruct X as [J2 E2]. split; [apply FJ_prune; exact J2 | exact E2]. }
  change (ft_status t1) with (ft_status t) in R.
  destruct (alookup (fst b) (ft_status t)) as [[h| |h|h|]|] eqn:Lo; try (apply Same; exact R).
  - apply (Walk h); [|exact R]. apply fin_ifin. apply (fj_st _ _ J _ _ Lo).
  - apply (Walk h); [|exact R]. apply (fj_st _ _ J _ _ Lo).
Qed.

Theorem mark_fast_finalized_just : forall H t b t' ev,
  FJ H t -> ff_cert W H b = true -> ft_mark_fast_finalized t b = Some (t', ev) -> FJ H t' /\ evj H ev.
Proof.
  intros H t b t' ev J Fc R. unfold ft_mark_fast_finalized in R.
  destruct (fst b <? ft_first t); [injection R as <- <-; split; [exact J | apply evj_empty]|].
  cbv zeta in R.
  assert (Fb : fin_just H b) by (left; unfold finalized; rewrite Fc; reflexivity).
  assert (J1 : FJ H (ft_set_status t (fst b) (FFinalized (snd b)))).
  { apply FJ_set; [exact J|]. cbn [st_just]. destruct b; exact Fb. }
  destruct (alookup (fst b) (ft_status t)) as [[h| |h|h|]|]; try discriminate R;
    try (destruct (h =? snd b); [|discriminate R]);
    try (injection R as <- <-; split; [exact J1 | apply evj_empty]);
    (eapply hfb_just; [exact J1 | apply evj_empty | exact Fb | exact R]).
Qed.

Theorem mark_notarized_just : forall H t b t' ev,
  FJ H t -> notar_cert W H b = true -> ft_mark_notarized t b = Some (t', ev) -> FJ H t' /\ evj H ev.
Proof.
  intros H t b t' ev J Nc R. unfold ft_mark_notarized in R.
  destruct (fst b <? ft_first t); [injection R as <- <-; split; [exact J | apply evj_empty]|].
  cbv zeta in R.
  assert (J1 : FJ H (ft_set_status t (fst b) (FNotarized (snd b)))).
  { apply FJ_set; [exact J|]. cbn [st_just]. left. destruct b; exact Nc. }
  destruct (alookup (fst b) (ft_status t)) as [[h| |h|h|]|] eqn:Lo.
  - destruct (h =? snd b); [injection R as <- <-; split; [exact J1 | apply evj_empty] | discriminate].
  - assert (Fb : fin_just H b).
    { left. unfold finalized. pose proof (fj_st _ _ J _ _ Lo) as Fc. cbn [st_just] in Fc. rewrite Fc, Nc. apply orb_true_r. }
    eapply hfb_just; [|apply evj_empty | exact Fb | exact R].
    apply FJ_set; [exact J1|]. cbn [st_just]. destruct b; exact Fb.
  - destruct (h =? snd b); [|discriminate]. injection R as <- <-. split; [|apply evj_empty].
    apply FJ_set; [exact J1 | apply (fj_st _ _ J _ _ Lo)].
  - (* old status ImplicitlyFinalized(h): restored, with or without the assertion h = snd b *)
    first [ injection R as <- <- | destruct (h =? snd b); [injection R as <- <- | discriminate R] ];
      (split; [|apply evj_empty]); (apply FJ_set; [exact J1 | apply (fj_st _ _ J _ _ Lo)]).
  - injection R as <- <-. split; [|apply evj_empty]. apply FJ_set; [exact J1 | apply (fj_st _ _ J _ _ Lo)].
  - injection R as <- <-. split; [exact J1 | apply evj_empty].
Qed.

Theorem mark_finalized_just : forall H t s t' ev,
  FJ H t -> final_cert W H s = true -> ft_mark_finalized t s = Some (t', ev) -> FJ H t' /\ evj H ev.
Proof.
  intros H t s t' ev J Fc R. unfold ft_mark_finalized in R.
  destruct (s <? ft_first t); [injection R as <- <-; split; [exact J | apply evj_empty]|].
  cbv zeta in R.
  assert (J1 : FJ H (ft_set_status t s FFinalPendingNotar)) by (apply FJ_set; [exact J | exact Fc]).
  destruct (alookup s (ft_status t)) as [[h| |h|h|]|] eqn:Lo.
  - assert (Fb : fin_just H (s, h)).
    { pose proof (fj_st _ _ J _ _ Lo) as N. cbn [st_just] in N. destruct N as [N|G].
      - left. unfold finalized. cbn [fst]. rewrite Fc, N. apply orb_true_r.
      - right. split; [exact G|]. injection G as -> _. exact Fc. }
    eapply hfb_just; [|apply evj_empty | exact Fb | exact R].
    apply FJ_set; [exact J1 | exact Fb].
  - injection R as <- <-. split; [exact J1 | apply evj_empty].
  - injection R as <- <-. split; [|apply evj_empty]. apply FJ_set; [exact J1 | apply (fj_st _ _ J _ _ Lo)].
  - injection R as <- <-. split; [|apply evj_empty]. apply FJ_set; [exact J1 | apply (fj_st _ _ J _ _ Lo)].
  - discriminate.
  - injection R as <- <-. split; [exact J1 | apply evj_empty].
Qed.

(* ---------- what the justified statuses mean for the parent-ready marks ---------- *)
Lemma anc_genesis b : anc_eq W b genesis -> b = genesis.
Proof.
  intros A. destruct (anc_eq_slot W WO _ _ A) as [L E]. apply E. unfold genesis in *. cbn [fst] in *.
  unfold blockid, slot in *. lia.
Qed.

Lemma ifin_mark_nf H b : ifin H b -> mark_nf W H b.
Proof.
  intros [f [[F|[G _]] A]].
  - right. right. exists f. split; assumption.
  - right. left. subst f. apply anc_genesis. exact A.
Qed.
Lemma fin_mark_nf H b : fin_just H b -> mark_nf W H b.
Proof. intros F. apply ifin_mark_nf. apply fin_ifin. exact F. Qed.
Lemma iskip_mark_skip H s : iskip H s -> mark_skip W H s.
Proof.
  intros [f [a [a' [[F|[G _]] [A [P [L1 L2]]]]]]].
  - right. exists f, a, a'. auto.
  - exfalso. subst f. apply anc_genesis in A. subst a. unfold genesis in L2. cbn [fst] in L2. lia.
Qed.
End Fin.
