(* C05, last clause, the composed node (Model/Node.v = Pool composed with Votor):
   1. the votes a node decides are exactly the own votes of a trace of the Votor model (so everything
      proved in Proofs/OwnVotesProofs.v applies to them);
   2. the votes forwarded verbatim from a standstill bundle (Pool::recover_from_standstill) are votes
      the node decided and broadcast earlier - provided own-signed votes reach the node's pool only
      through the loopback of its own broadcasts (signatures are unforgeable, C09): the pool's stored
      own votes are then always among the decided ones (invariant NInv through every pool operation);
   3. hence no two votes the node ever broadcasts are a slashable combination. *)
From Coq Require Import List NArith Bool Lia.
From AG Require Import Gen.Params Model.Pool Model.PoolSpec Model.Votor Model.NodeRules Model.Node Model.OwnVotesSpec
                       Proofs.SlotStateProofs Proofs.VotorProofs Proofs.SafetyLink Proofs.NodeProofs Proofs.OwnVotesProofs.
Import ListNotations.
Open Scope N_scope.

(* ====================== pool events: Standstill only from recover_from_standstill ====================== *)
Definition not_ss (ev : pevent) : Prop := match ev with EStandstill _ _ _ => False | _ => True end.
Definition no_ss (l : list pevent) : Prop := forall ev, In ev l -> not_ss ev.
Lemma no_ss_nil : no_ss []. Proof. intros ev []. Qed.
Lemma no_ss_app a b : no_ss a -> no_ss b -> no_ss (a ++ b).
Proof. intros A B ev H. apply in_app_or in H. destruct H; auto. Qed.
Lemma woken_no_ss l : woken_only l -> no_ss l.
Proof. intros H ev Hin. destruct (H ev Hin) as (s & p & ->). exact I. Qed.
Lemma safe_no_ss l : safe_only l -> no_ss l.
Proof. intros H ev Hin. destruct (H ev Hin) as [[b ->]|[s ->]]; exact I. Qed.
Lemma pr_events_no_ss l : no_ss (pr_events l).
Proof. intros ev Hin. unfold pr_events in Hin. apply in_map_iff in Hin. destruct Hin as [x [<- _]]. exact I. Qed.
Lemma cert_no_ss c : no_ss [ECertCreated c].
Proof. intros ev [<-|[]]. exact I. Qed.

(* ====================== stored votes of a pool ====================== *)
Definition stored_in (p : pool) (s : slot) (v : vidx) (k : vkind) : Prop :=
  exists ss, In (s, ss) (p_slots p) /\ stored ss v k.
(* nothing stored in p' that was not stored in p *)
Definition vsub (p p' : pool) : Prop := forall s v k, stored_in p' s v k -> stored_in p s v k.
Lemma vsub_refl p : vsub p p. Proof. intros s v k H. exact H. Qed.
Lemma vsub_trans a b c : vsub a b -> vsub b c -> vsub a c.
Proof. intros A B s v k H. apply A. apply B. exact H. Qed.
Lemma vsub_slots p p' : p_slots p' = p_slots p -> vsub p p'.
Proof. intros E s v k [ss [Hin Hs]]. exists ss. rewrite <- E. auto. Qed.

Lemma in_ainsert {V} k (x : V) m k' x' : In (k', x') (ainsert k x m) -> (k' = k /\ x' = x) \/ In (k', x') m.
Proof.
  induction m as [|[k2 v2] m IH]; cbn [ainsert].
  - intros [E|[]]. injection E as <- <-. left. auto.
  - destruct (k =? k2) eqn:E.
    + intros [H|H]; [injection H as <- <-; left; auto | right; right; exact H].
    + intros [H|H]; [right; left; exact H|]. destruct (IH H) as [A|A]; [left; exact A | right; right; exact A].
Qed.
Lemma alookup_in {V} k (m : list (N * V)) x : alookup k m = Some x -> In (k, x) m.
Proof.
  induction m as [|[k2 v2] m IH]; cbn [alookup]; [discriminate|]. destruct (k =? k2) eqn:E.
  - intros H. injection H as <-. apply N.eqb_eq in E. subst. left. reflexivity.
  - intros H. right. apply IH. exact H.
Qed.
Lemma stored_p_ss p s v k : stored (p_ss p s) v k -> stored_in p s v k.
Proof.
  unfold p_ss, aget. destruct (alookup s (p_slots p)) as [ss|] eqn:E.
  - intros H. exists ss. split; [apply alookup_in; exact E | exact H].
  - intros H. exfalso. exact (stored_empty v k H).
Qed.
Lemma stored_in_set_ss p s x s' v k :
  stored_in (p_set_ss p s x) s' v k -> (s' = s /\ stored x v k) \/ stored_in p s' v k.
Proof.
  intros [ss [Hin Hs]]. unfold p_set_ss in Hin. cbn [p_slots] in Hin. apply in_ainsert in Hin.
  destruct Hin as [[-> ->]|Hin]; [left; auto | right; exists ss; auto].
Qed.
Lemma vsub_set_ss_same p s x : ss_v x = ss_v (p_ss p s) -> vsub p (p_set_ss p s x).
Proof.
  intros E s' v k H. apply stored_in_set_ss in H. destruct H as [[-> H]|H]; [|exact H].
  apply stored_p_ss. eapply stored_ext; [exact E | exact H].
Qed.
Lemma vsub_touch p s : vsub p (p_touch p s).
Proof.
  unfold p_touch. destruct (alookup s (p_slots p)); [apply vsub_refl|].
  intros s' v k H. apply stored_in_set_ss in H. destruct H as [[_ H]|H]; [exfalso; exact (stored_empty v k H) | exact H].
Qed.
Lemma vsub_prune p : vsub p (pool_prune p).
Proof.
  intros s v k [ss [Hin Hs]]. exists ss. split; [|exact Hs]. unfold pool_prune in Hin. cbn [p_slots] in Hin.
  apply filter_In in Hin. apply Hin.
Qed.

(* ---------- the internal pool functions: no new stored vote, no Standstill event ---------- *)
Lemma phf_votes p ev p' o : pool_handle_finalization p ev = Some (p', o) -> vsub p p' /\ no_ss (po_events o).
Proof.
  unfold pool_handle_finalization. destruct (pt_handle_finalization (p_prt p) ev) as [[[t prs] wk]|] eqn:HF; [|discriminate].
  intros H. injection H as <- <-. split.
  - eapply vsub_trans; [|apply vsub_prune]. apply vsub_slots. reflexivity.
  - cbn [po_events]. destruct (handle_finalization_acc _ _ _ _ _ HF) as [_ W].
    apply no_ss_app; [apply woken_no_ss; exact W | apply pr_events_no_ss].
Qed.

Lemma nc_votes e : forall children p acc p' o,
  notify_children e p children acc = Some (p', o) -> no_ss (po_events acc) -> vsub p p' /\ no_ss (po_events o).
Proof.
  unfold notify_children.
  induction children as [|[cs ch] l IH]; intros p acc p' o H Ha; cbn [notify_children_gen andb] in H.
  - injection H as <- <-. split; [apply vsub_refl | exact Ha].
  - destruct (cs <? first_unpruned p); [exact (IH _ _ _ _ H Ha)|].
    destruct (notify_parent_certified e cs (p_ss (p_touch p cs) cs) ch) as [[[ss' evs] rps]|] eqn:NC; [|discriminate].
    destruct (IH _ _ _ _ H) as [V Ns].
    + cbn [po_app po_events]. apply no_ss_app; [exact Ha | apply safe_no_ss; apply (certified_events_safe _ _ _ _ _ _ _ NC)].
    + split; [|exact Ns]. eapply vsub_trans; [apply (vsub_touch p cs)|]. eapply vsub_trans; [|exact V].
      apply vsub_set_ss_same. destruct (certified_frame _ _ _ _ _ NC) as [F _]. exact F.
Qed.

Lemma nwc_votes e p b p' o : notify_waiting_children e p b = Some (p', o) -> vsub p p' /\ no_ss (po_events o).
Proof.
  unfold notify_waiting_children, notify_waiting_children_gen. intros H.
  destruct (nc_votes e _ _ _ _ _ H no_ss_nil) as [V Ns]. split; [|exact Ns].
  eapply vsub_trans; [|exact V]. apply vsub_slots. reflexivity.
Qed.

Lemma avc_votes e p c p' o : add_valid_cert e p c = Some (p', o) -> vsub p p' /\ no_ss (po_events o).
Proof.
  intros H. unfold add_valid_cert in H.
  set (s := c_slot c) in *. set (p0 := p_set_ss p s (ss_add_cert (p_ss p s) c)) in *.
  assert (V0 : vsub p p0) by (apply vsub_set_ss_same; apply add_cert_frame).
  pose proof (cert_no_ss c) as Cc.
  destruct (c_kind c) as [h|h| |h|].
  - destruct (ft_mark_notarized (p_ft p0) (s, h)) as [[t ev]|]; [|discriminate].
    destruct (pool_handle_finalization (pool_with_ft p0 t) ev) as [[p1 o1]|] eqn:HF; [|discriminate].
    destruct (notify_waiting_children e p1 (s, h)) as [[p2 o2]|] eqn:NW; [|discriminate].
    destruct (pt_mark_notar_fallback (p_prt p2) (s, h)) as [[[t2 prs] wk]|] eqn:MF; [|discriminate].
    injection H as <- <-. destruct (mark_nf_acc _ _ _ _ _ MF) as [_ W].
    destruct (phf_votes _ _ _ _ HF) as [V1 N1]. destruct (nwc_votes _ _ _ _ _ NW) as [V2 N2]. split.
    + eapply vsub_trans; [exact V0|]. eapply vsub_trans; [|eapply vsub_trans; [exact V1|eapply vsub_trans; [exact V2|]]];
        apply vsub_slots; reflexivity.
    + cbn [po_app po_events]. repeat apply no_ss_app; auto; [apply woken_no_ss; exact W | apply pr_events_no_ss].
  - destruct (notify_waiting_children e p0 (s, h)) as [[p2 o2]|] eqn:NW; [|discriminate].
    destruct (pt_mark_notar_fallback (p_prt p2) (s, h)) as [[[t2 prs] wk]|] eqn:MF; [|discriminate].
    injection H as <- <-. destruct (mark_nf_acc _ _ _ _ _ MF) as [_ W].
    destruct (nwc_votes _ _ _ _ _ NW) as [V2 N2]. split.
    + eapply vsub_trans; [exact V0|]. eapply vsub_trans; [exact V2|]. apply vsub_slots. reflexivity.
    + cbn [po_app po_events po_empty]. repeat apply no_ss_app; auto; [apply no_ss_nil | apply woken_no_ss; exact W | apply pr_events_no_ss].
  - destruct (pt_mark_skipped (p_prt p0) s) as [[[t2 prs] wk]|] eqn:MS; [|discriminate].
    injection H as <- <-. destruct (mark_skipped_acc _ _ _ _ _ MS) as [_ W]. split.
    + eapply vsub_trans; [exact V0|]. apply vsub_slots. reflexivity.
    + cbn [po_app po_events]. repeat apply no_ss_app; auto; [apply woken_no_ss; exact W | apply pr_events_no_ss].
  - destruct (ft_mark_fast_finalized (p_ft p0) (s, h)) as [[t ev]|]; [|discriminate].
    destruct (pool_handle_finalization (pool_with_ft p0 t) ev) as [[p1 o1]|] eqn:HF; [|discriminate].
    destruct (notify_waiting_children e p1 (s, h)) as [[p2 o2]|] eqn:NW; [|discriminate].
    injection H as <- <-. destruct (phf_votes _ _ _ _ HF) as [V1 N1]. destruct (nwc_votes _ _ _ _ _ NW) as [V2 N2]. split.
    + eapply vsub_trans; [exact V0|]. eapply vsub_trans; [|eapply vsub_trans; [exact V1|exact V2]]. apply vsub_slots. reflexivity.
    + cbn [po_app po_events]. repeat apply no_ss_app; auto.
  - destruct (ft_mark_finalized (p_ft p0) s) as [[t ev]|]; [|discriminate].
    destruct (pool_handle_finalization (pool_with_ft p0 t) ev) as [[p1 o1]|] eqn:HF; [|discriminate].
    injection H as <- <-. destruct (phf_votes _ _ _ _ HF) as [V1 N1]. split.
    + eapply vsub_trans; [exact V0|]. eapply vsub_trans; [|exact V1]. apply vsub_slots. reflexivity.
    + cbn [po_app po_events]. apply no_ss_app; auto.
Qed.

Lemma add_certs_votes e : forall cs p acc p' o,
  add_certs e p cs acc = Some (p', o) -> no_ss (po_events acc) -> vsub p p' /\ no_ss (po_events o).
Proof.
  induction cs as [|oc l IH]; intros p acc p' o H Ha; cbn [add_certs] in H.
  - injection H as <- <-. split; [apply vsub_refl | exact Ha].
  - destruct oc as [c|]; [|discriminate]. destruct (add_valid_cert e p c) as [[p1 o1]|] eqn:AV; [|discriminate].
    destruct (avc_votes _ _ _ _ _ AV) as [V1 N1]. destruct (IH _ _ _ _ H) as [V2 N2].
    + cbn [po_app po_events]. apply no_ss_app; assumption.
    + split; [eapply vsub_trans; eassumption | exact N2].
Qed.

(* ---------- the standstill bundle: the pool's stored own votes ---------- *)
Lemma in_slot_insert_sorted {V} (x y : slot * V) l : In y (slot_insert_sorted x l) -> y = x \/ In y l.
Proof.
  induction l as [|z l IH]; cbn [slot_insert_sorted].
  - intros [E|[]]. left. symmetry. exact E.
  - destruct (fst z <? fst x).
    + intros [E|H]; [right; left; exact E|]. destruct (IH H) as [A|A]; [left; exact A | right; right; exact A].
    + intros [E|H]; [left; symmetry; exact E | right; exact H].
Qed.
Lemma in_slots_sorted {V} (y : slot * V) l : In y (slots_sorted l) -> In y l.
Proof.
  unfold slots_sorted. induction l as [|x l IH]; cbn [fold_right]; [intros []|].
  intros H. apply in_slot_insert_sorted in H. destruct H as [->|H]; [left; reflexivity | right; apply IH; exact H].
Qed.
Lemma in_sset_insert x y l : In y (sset_insert x l) -> y = x \/ In y l.
Proof.
  induction l as [|z l IH]; cbn [sset_insert].
  - intros [E|[]]. left. symmetry. exact E.
  - destruct (x <? z); [intros [E|H]; [left; symmetry; exact E | right; exact H]|].
    destruct (x =? z); [intros H; right; exact H|].
    intros [E|H]; [right; left; exact E|]. destruct (IH H) as [A|A]; [left; exact A | right; right; exact A].
Qed.
Lemma in_sset_fold y l : In y (fold_right sset_insert [] l) -> In y l.
Proof.
  induction l as [|x l IH]; cbn [fold_right]; [intros []|].
  intros H. apply in_sset_insert in H. destruct H as [->|H]; [left; reflexivity | right; apply IH; exact H].
Qed.

Lemma own_votes_of_slot_stored e s ss v :
  In v (own_votes_of_slot e s ss) -> v_slot v = s /\ v_signer v = own e /\ stored ss (own e) (v_kind v).
Proof.
  unfold own_votes_of_slot. intros H.
  apply in_app_or in H. destruct H as [H|H].
  { destruct (memN (own e) (vo_fin (ss_v ss))) eqn:M; [|destruct H]. destruct H as [<-|[]]. cbn. auto. }
  apply in_app_or in H. destruct H as [H|H].
  { destruct (alookup (own e) (vo_notar (ss_v ss))) as [h|] eqn:M; [|destruct H]. destruct H as [<-|[]]. cbn. auto. }
  apply in_app_or in H. destruct H as [H|H].
  { apply in_map_iff in H. destruct H as [h [<- Hh]]. cbn [v_slot v_signer v_kind stored]. split; [reflexivity|]. split; [reflexivity|].
    apply in_sset_fold in Hh. apply in_map_iff in Hh. destruct Hh as [[v' h'] [E Hin]]. cbn [snd] in E. subst h'.
    apply filter_In in Hin. destruct Hin as [Hin Ev]. cbn [fst] in Ev.
    unfold has_nf_vote. apply existsb_exists. exists (v', h). split; [exact Hin|]. cbn [fst snd]. rewrite Ev, N.eqb_refl. reflexivity. }
  apply in_app_or in H. destruct H as [H|H].
  { destruct (memN (own e) (vo_skip (ss_v ss))) eqn:M; [|destruct H]. destruct H as [<-|[]]. cbn. auto. }
  destruct (memN (own e) (vo_sf (ss_v ss))) eqn:M; [|destruct H]. destruct H as [<-|[]]. cbn. auto.
Qed.

Definition bundle_ok (e : epoch) (p : pool) (evs : list pevent) : Prop :=
  evs = [] \/ exists s cs vs, evs = [EStandstill s cs vs] /\
                forall v, In v vs -> v_signer v = own e /\ stored_in p (v_slot v) (own e) (v_kind v).

Lemma standstill_votes e p p' r o :
  pool_standstill e p = (p', r, o) -> p_slots p' = p_slots p /\ bundle_ok e p (po_events o).
Proof.
  unfold pool_standstill, pool_standstill_gen. intros H.
  assert (B : forall s cs, bundle_ok e p
            [EStandstill s cs (flat_map (fun kv => own_votes_of_slot e (fst kv) (snd kv))
                                        (filter (fun kv => finalized_slot p <? fst kv) (slots_sorted (p_slots p))))]).
  { intros s cs. right. eexists _, _, _. split; [reflexivity|]. intros v Hv.
    apply in_flat_map in Hv. destruct Hv as [[s' ss] [Hin Hv]]. cbn [fst snd] in Hv.
    apply filter_In in Hin. destruct Hin as [Hin _]. apply in_slots_sorted in Hin.
    destruct (own_votes_of_slot_stored e s' ss v Hv) as (E1 & E2 & E3). split; [exact E2|].
    exists ss. rewrite E1. split; [exact Hin | exact E3]. }
  destruct (get_final_certs p (finalized_slot p)) as [|c0 cs0].
  - destruct (true && (finalized_slot p =? 0)); injection H as <- <- <-; cbn [po_events p_slots panicked po_empty].
    + split; [reflexivity | apply B].
    + split; [reflexivity | left; reflexivity].
  - injection H as <- <- <-. cbn [po_events]. split; [reflexivity | apply B].
Qed.

(* ---------- every pool operation ---------- *)
Theorem pool_step_votes : forall e p op p' r o,
  pool_step e p op = (p', r, o) ->
  (forall s v k, stored_in p' s v k ->
     stored_in p s v k \/ exists vt, op = OpVote vt /\ s = v_slot vt /\ v = v_signer vt /\ k = v_kind vt) /\
  match op with OpStandstill => bundle_ok e p (po_events o) | _ => no_ss (po_events o) end.
Proof.
  intros e p op p' r o H. unfold pool_step in H.
  destruct (p_panicked p).
  { injection H as <- <- <-. split; [intros s v k X; left; exact X|]. destruct op; try apply no_ss_nil. left. reflexivity. }
  assert (Sub : forall q, vsub p q -> forall s v k, stored_in q s v k ->
            stored_in p s v k \/ exists vt, op = OpVote vt /\ s = v_slot vt /\ v = v_signer vt /\ k = v_kind vt).
  { intros q V s v k X. left. apply V. exact X. }
  destruct op as [vt|c|b par| |s|].
  - unfold pool_add_vote, pool_add_vote_gen in H.
    destruct (out_of_bounds p (v_slot vt)); [injection H as <- <- <-; split; [apply Sub; apply vsub_refl | apply no_ss_nil]|].
    pose proof (vsub_touch p (v_slot vt)) as V0.
    destruct (check_slashable _ vt); [injection H as <- <- <-; split; [apply Sub; exact V0 | apply no_ss_nil]|].
    destruct (should_ignore _ vt); [injection H as <- <- <-; split; [apply Sub; exact V0 | apply no_ss_nil]|].
    pose proof (add_vote_events_safe e (p_ss (p_touch p (v_slot vt)) (v_slot vt)) vt) as Sf.
    pose proof (add_vote_stores true e (p_ss (p_touch p (v_slot vt)) (v_slot vt)) vt) as St.
    unfold ss_add_vote in Sf.
    destruct (ss_add_vote_gen true e _ vt) as [ss' out]. cbn [fst snd] in Sf, St.
    set (p1 := p_set_ss (p_touch p (v_slot vt)) (v_slot vt) ss') in *.
    assert (V1 : forall s v k, stored_in p1 s v k ->
              stored_in p s v k \/ exists vt', OpVote vt = OpVote vt' /\ s = v_slot vt' /\ v = v_signer vt' /\ k = v_kind vt').
    { intros s v k X. apply stored_in_set_ss in X. destruct X as [[-> X]|X]; [|left; apply V0; exact X].
      apply (stored_ext _ _ v k St) in X. apply stored_store_inv in X. destruct X as [[-> ->]|X].
      - right. exists vt. auto.
      - left. apply V0. apply stored_p_ss. exact X. }
    destruct (add_certs e p1 (o_certs out) po_empty) as [[p2 o2]|] eqn:AC.
    + injection H as <- <- <-. destruct (add_certs_votes _ _ _ _ _ _ AC no_ss_nil) as [V2 N2]. split.
      * intros s v k X. apply V1. apply V2. exact X.
      * cbn [po_app po_events]. apply no_ss_app; [exact N2 | apply safe_no_ss; exact Sf].
    + injection H as <- <- <-. split; [|apply no_ss_nil]. intros s v k X. apply V1.
      destruct X as [ss [Hin Hs]]. exists ss. split; [exact Hin | exact Hs].
  - unfold pool_add_cert in H.
    destruct (out_of_bounds p (c_slot c)); [injection H as <- <- <-; split; [apply Sub; apply vsub_refl | apply no_ss_nil]|].
    pose proof (vsub_touch p (c_slot c)) as V0.
    destruct (cert_duplicate _ c); [injection H as <- <- <-; split; [apply Sub; exact V0 | apply no_ss_nil]|].
    destruct (add_valid_cert e _ c) as [[p1 o1]|] eqn:AV; injection H as <- <- <-.
    + destruct (avc_votes _ _ _ _ _ AV) as [V1 N1]. split; [apply Sub; eapply vsub_trans; eassumption | exact N1].
    + split; [|apply no_ss_nil]. apply Sub. eapply vsub_trans; [exact V0|]. apply vsub_slots. reflexivity.
  - unfold pool_add_block, pool_add_block_gen in H.
    destruct (negb (fst par <? fst b)); [injection H as <- <- <-; split; [apply Sub; apply vsub_slots; reflexivity | apply no_ss_nil]|].
    destruct (fst b <? first_unpruned p); [injection H as <- <- <-; split; [apply Sub; apply vsub_refl | apply no_ss_nil]|].
    destruct (ft_add_parent (p_ft p) b par) as [[t ev]|];
      [|injection H as <- <- <-; split; [apply Sub; apply vsub_slots; reflexivity | apply no_ss_nil]].
    destruct (pool_handle_finalization (pool_with_ft p t) ev) as [[p1 o1]|] eqn:HF;
      [|injection H as <- <- <-; split; [apply Sub; apply vsub_slots; reflexivity | apply no_ss_nil]].
    destruct (phf_votes _ _ _ _ HF) as [V1' N1].
    assert (V1 : vsub p p1) by (eapply vsub_trans; [|exact V1']; apply vsub_slots; reflexivity).
    destruct (fst b <? first_unpruned p1); [injection H as <- <- <-; split; [apply Sub; exact V1 | exact N1]|].
    set (p2 := p_set_ss p1 (fst b) (notify_parent_known (p_ss p1 (fst b)) (snd b))) in *.
    assert (V2 : vsub p p2).
    { eapply vsub_trans; [exact V1|]. apply vsub_set_ss_same. apply known_frame. }
    match type of H with context [if ?c then _ else _] => destruct c end.
    + destruct (notify_parent_certified e (fst b) (p_ss p2 (fst b)) (snd b)) as [[[ss' evs] rps]|] eqn:NC;
        [|injection H as <- <- <-; split; [apply Sub; eapply vsub_trans; [exact V2|]; apply vsub_slots; reflexivity | apply no_ss_nil]].
      assert (V3 : vsub p (p_set_ss p2 (fst b) ss')).
      { eapply vsub_trans; [exact V2|]. apply vsub_set_ss_same. destruct (certified_frame _ _ _ _ _ NC) as [F _]. exact F. }
      pose proof (certified_events_safe _ _ _ _ _ _ _ NC) as Sf.
      destruct evs; destruct rps; injection H as <- <- <-; cbn [po_app po_events];
        (split; [apply Sub; first [exact V3 | eapply vsub_trans; [exact V3|]; apply vsub_slots; reflexivity]
                | first [exact N1 | apply no_ss_app; [exact N1 | apply safe_no_ss; exact Sf]]]).
    + injection H as <- <- <-. split; [apply Sub; eapply vsub_trans; [exact V2|]; apply vsub_slots; reflexivity | exact N1].
  - destruct (standstill_votes e p p' r o H) as [E B]. split; [apply Sub; apply vsub_slots; exact E | exact B].
  - unfold pool_wait in H. destruct (pt_wait (p_prt p) s) as [[t r0]|]; injection H as <- <- <-;
      (split; [apply Sub; apply vsub_slots; reflexivity | apply no_ss_nil]).
  - injection H as <- <- <-. split; [apply Sub; apply vsub_refl | apply no_ss_nil].
Qed.

(* ====================== Votor inside the node ====================== *)
Lemma votor_trace_app own : forall a b t,
  votor_trace own t (a ++ b) = votor_trace own t a ++ votor_trace own (votor_after own t a) b.
Proof.
  induction a as [|i a IH]; intros b t; cbn [app votor_trace votor_after]; [reflexivity|].
  destruct (votor_step own t i) as [[t' o] pn]. cbn [fst]. rewrite IH. reflexivity.
Qed.
Lemma own_votes_app a b : own_votes (a ++ b) = own_votes a ++ own_votes b.
Proof. unfold own_votes. apply flat_map_app. Qed.

Lemma votor_feed_trace own : forall evs t,
  votor_feed own t evs = (votor_after own t (map VPool evs), flat_map snd (votor_trace own t (map VPool evs))).
Proof.
  induction evs as [|ev l IH]; intros t; cbn [votor_feed map votor_after votor_trace]; [reflexivity|].
  destruct (votor_step own t (VPool ev)) as [[t1 o1] pn]. rewrite IH. reflexivity.
Qed.

Lemma decided_no_ss own : forall evs t, no_ss evs ->
  own_votes (votor_trace own t (map VPool evs)) = vouts_votes (flat_map snd (votor_trace own t (map VPool evs))).
Proof.
  induction evs as [|ev l IH]; intros t H; cbn [map votor_trace]; [reflexivity|].
  destruct (votor_step own t (VPool ev)) as [[t1 o1] pn]. rewrite own_votes_cons. cbn [flat_map snd].
  rewrite vouts_votes_app, IH by (intros x Hx; apply H; right; exact Hx). f_equal.
  assert (Hn : not_ss ev) by (apply H; left; reflexivity). destruct ev; try reflexivity. destruct Hn.
Qed.

Lemma vouts_votes_certs cs : vouts_votes (map VBCert cs) = [].
Proof. unfold vouts_votes. induction cs as [|c l IH]; cbn [map flat_map app]; [reflexivity | exact IH]. Qed.
Lemma vouts_votes_votes vs : vouts_votes (map VBVote vs) = vs.
Proof. unfold vouts_votes. induction vs as [|v l IH]; cbn [map flat_map app]; [reflexivity | rewrite IH; reflexivity]. Qed.

Lemma filter_no_ss f l : no_ss l -> no_ss (filter f l).
Proof. intros H ev Hin. apply filter_In in Hin. apply H. apply Hin. Qed.

Lemma node_pool_op_votor e nd op :
  nd_votor (fst (node_pool_op e nd op)) =
    votor_after (own e) (nd_votor nd)
      (map VPool (filter (fun x => negb (pe_is_woken x)) (po_events (snd (pool_step e (nd_pool nd) op))))) /\
  no_out (snd (node_pool_op e nd op)) =
    flat_map snd (votor_trace (own e) (nd_votor nd)
      (map VPool (filter (fun x => negb (pe_is_woken x)) (po_events (snd (pool_step e (nd_pool nd) op)))))).
Proof.
  unfold node_pool_op. destruct (pool_step e (nd_pool nd) op) as [[p' r] o]. cbn [snd].
  rewrite votor_feed_trace. cbn [fst snd nd_votor no_out]. split; reflexivity.
Qed.

(* the bundle of a standstill step, as Votor forwards it *)
Lemma standstill_feed e p own t evs :
  bundle_ok e p evs ->
  own_votes (votor_trace own t (map VPool (filter (fun x => negb (pe_is_woken x)) evs))) = [] /\
  forall v, In v (vouts_votes (flat_map snd (votor_trace own t (map VPool (filter (fun x => negb (pe_is_woken x)) evs))))) ->
            v_signer v = Pool.own e /\ stored_in p (v_slot v) (Pool.own e) (v_kind v).
Proof.
  intros [->|(s & cs & vs & -> & Hv)].
  - cbn. split; [reflexivity | intros v []].
  - cbn [filter pe_is_woken negb map votor_trace].
    destruct (votor_step own t (VPool (EStandstill s cs vs))) as [[t1 o1] pn] eqn:E.
    split; [reflexivity|]. cbn [flat_map snd]. rewrite app_nil_r. intros v Hin. apply Hv.
    destruct (vt_panicked t) eqn:Pn.
    + unfold votor_step in E. rewrite Pn in E. injection E as <- <- <-. destruct Hin.
    + rewrite (standstill_forwarded own t s cs vs Pn) in E. injection E as <- <- <-.
      rewrite vouts_votes_app, vouts_votes_certs, vouts_votes_votes in Hin. exact Hin.
Qed.

Lemma node_step_votor e nd i :
  nd_votor (fst (node_step e nd i)) = votor_after (own e) (nd_votor nd) (nin_votor_ins e (nd_pool nd) i) /\
  nstep_decided (i, snd (node_step e nd i)) = own_votes (votor_trace (own e) (nd_votor nd) (nin_votor_ins e (nd_pool nd) i)).
Proof.
  assert (Pool : forall op, op <> OpStandstill ->
            nd_votor (fst (node_pool_op e nd op)) =
              votor_after (own e) (nd_votor nd)
                (map VPool (filter (fun x => negb (pe_is_woken x)) (po_events (snd (pool_step e (nd_pool nd) op))))) /\
            vouts_votes (no_out (snd (node_pool_op e nd op))) =
              own_votes (votor_trace (own e) (nd_votor nd)
                (map VPool (filter (fun x => negb (pe_is_woken x)) (po_events (snd (pool_step e (nd_pool nd) op))))))).
  { intros op Hop. destruct (node_pool_op_votor e nd op) as [A B]. split; [exact A|]. rewrite B. symmetry.
    apply decided_no_ss. apply filter_no_ss.
    destruct (pool_step e (nd_pool nd) op) as [[p' r] o] eqn:PS. cbn [snd].
    pose proof (proj2 (pool_step_votes e _ op p' r o PS)) as N. destruct op; try exact N. congruence. }
  assert (Vot : forall vi, (forall ev, vi <> VPool ev) ->
            nd_votor (fst (node_votor_in e nd vi)) = votor_after (own e) (nd_votor nd) [vi] /\
            vouts_votes (no_out (snd (node_votor_in e nd vi))) = own_votes (votor_trace (own e) (nd_votor nd) [vi])).
  { intros vi Hvi. unfold node_votor_in. cbn [votor_after votor_trace].
    destruct (votor_step (own e) (nd_votor nd) vi) as [[t' outs] pn]. cbn [fst snd nd_votor no_out].
    split; [reflexivity|]. rewrite own_votes_cons. unfold own_votes. cbn [flat_map]. rewrite app_nil_r.
    destruct vi; try reflexivity. exfalso. exact (Hvi e0 eq_refl). }
  destruct i; cbn [node_step nin_votor_ins nin_pool_op nstep_decided fst snd];
    try (apply Pool; discriminate); try (apply Vot; intros ev; discriminate).
  (* standstill *)
  destruct (node_pool_op_votor e nd OpStandstill) as [A B]. split; [exact A|]. symmetry.
  destruct (pool_step e (nd_pool nd) OpStandstill) as [[p' r] o] eqn:PS. cbn [snd] in *.
  pose proof (proj2 (pool_step_votes e _ _ p' r o PS)) as Bd. cbn in Bd.
  exact (proj1 (standstill_feed e (nd_pool nd) (own e) (nd_votor nd) (po_events o) Bd)).
Qed.

Theorem node_decided_votor_trace : forall e ins nd,
  node_decided (node_trace e nd ins) = own_votes (votor_trace (own e) (nd_votor nd) (node_votor_ins e nd ins)).
Proof.
  induction ins as [|i rest IH]; intros nd; cbn [node_trace node_votor_ins]; [reflexivity|].
  destruct (node_step_votor e nd i) as [A B]. destruct (node_step e nd i) as [nd1 o] eqn:E. cbn [fst snd] in *.
  unfold node_decided. cbn [flat_map]. fold (node_decided (node_trace e nd1 rest)).
  rewrite votor_trace_app, own_votes_app, <- B, <- A, IH. reflexivity.
Qed.

Theorem node_decided_chain : forall e ins,
  ok_chain [] (node_decided (node_trace e node_init ins)) /\
  Forall (fun v => v_signer v = own e) (node_decided (node_trace e node_init ins)).
Proof. intros e ins. rewrite node_decided_votor_trace. apply votor_own_votes_chain. Qed.

(* ====================== standstill bundles re-broadcast earlier decisions ====================== *)
Definition NInv (e : epoch) (sent : list vote) (nd : node) : Prop :=
  forall s k, stored_in (nd_pool nd) s (own e) k -> In (mkVote s k (own e)) sent.

Lemma vkind_eq_true a b : vkind_eq a b = true <-> a = b.
Proof.
  destruct a, b; cbn [vkind_eq]; split; intros H; try discriminate; try reflexivity;
    try (apply N.eqb_eq in H; subst; reflexivity); injection H as ->; apply N.eqb_refl.
Qed.
Lemma vote_eq_true a b : vote_eq a b = true <-> a = b.
Proof.
  unfold vote_eq. destruct a as [s k v], b as [s' k' v']. cbn [v_slot v_kind v_signer]. split.
  - intros H. apply andb_prop in H. destruct H as [H H3]. apply andb_prop in H. destruct H as [H1 H2].
    apply N.eqb_eq in H1. apply N.eqb_eq in H3. apply vkind_eq_true in H2. subst. reflexivity.
  - intros H. injection H as -> -> ->. rewrite !N.eqb_refl. cbn [andb]. rewrite andb_true_r. apply vkind_eq_true. reflexivity.
Qed.

Lemma NInv_init e : NInv e [] node_init.
Proof. intros s k [ss [[] _]]. Qed.

Lemma node_step_sent e nd i sent :
  NInv e sent nd ->
  match i with NVote v => v_signer v = own e -> In v sent | _ => True end ->
  (forall v, In v (nstep_rebroadcast (i, snd (node_step e nd i))) -> In v sent) /\
  NInv e (sent ++ nstep_decided (i, snd (node_step e nd i))) (fst (node_step e nd i)).
Proof.
  intros HI Hl. split.
  - destruct i; cbn [nstep_rebroadcast fst snd]; try (intros x []).
    cbn [node_step]. destruct (node_pool_op_votor e nd OpStandstill) as [_ B]. rewrite B.
    destruct (pool_step e (nd_pool nd) OpStandstill) as [[p' r] o] eqn:PS. cbn [snd].
    pose proof (proj2 (pool_step_votes e _ _ p' r o PS)) as Bd. cbn in Bd.
    intros v Hv. destruct (proj2 (standstill_feed e (nd_pool nd) (own e) (nd_votor nd) (po_events o) Bd) v Hv) as [E1 E2].
    specialize (HI _ _ E2). rewrite <- E1 in HI. destruct v. exact HI.
  - intros s k Hs. apply in_or_app. left. rewrite node_step_pool in Hs.
    destruct (pool_step e (nd_pool nd) (nin_op i)) as [[p' r] o] eqn:PS. cbn [fst] in Hs.
    destruct (proj1 (pool_step_votes e _ _ p' r o PS) s (own e) k Hs) as [X|(vt & Eop & -> & Ev & ->)].
    + apply HI. exact X.
    + destruct i; cbn [nin_op nin_pool_op] in Eop; try discriminate. injection Eop as <-.
      rewrite Ev. destruct v as [s0 k0 v0]. cbn [v_slot v_kind v_signer] in *. apply Hl. symmetry. exact Ev.
Qed.

Lemma NInv_mono e sent more nd : NInv e sent nd -> NInv e (sent ++ more) nd.
Proof. intros H s k X. apply in_or_app. left. apply H. exact X. Qed.

Lemma node_rebroadcast_gen e : forall ins nd sent,
  NInv e sent nd -> loopback_okb (own e) sent (node_trace e nd ins) = true -> rebroadcasts_old sent (node_trace e nd ins).
Proof.
  induction ins as [|i rest IH]; intros nd sent HI HL; cbn [node_trace] in *; [exact I|].
  pose proof (node_step_sent e nd i sent HI) as S.
  destruct (node_step e nd i) as [nd1 o] eqn:E. cbn [fst snd] in S.
  cbn [node_trace loopback_okb rebroadcasts_old fst] in *.
  apply andb_prop in HL. destruct HL as [HL1 HL2].
  destruct S as [S1 S2].
  { destruct i; try exact I. intros Hs. apply orb_prop in HL1. destruct HL1 as [HL1|HL1].
    - rewrite Hs, N.eqb_refl in HL1. discriminate.
    - apply existsb_exists in HL1. destruct HL1 as [x [Hx Ex]]. apply vote_eq_true in Ex. subst x. exact Hx. }
  split; [exact S1 | apply IH; [exact S2 | exact HL2]].
Qed.

(* votes forwarded from a standstill bundle were decided (and broadcast) by the node in an earlier step *)
Theorem node_standstill_rebroadcasts : forall e ins,
  loopback_okb (own e) [] (node_trace e node_init ins) = true ->
  rebroadcasts_old [] (node_trace e node_init ins).
Proof. intros e ins H. apply (node_rebroadcast_gen e ins node_init [] (NInv_init e) H). Qed.

Lemma broadcast_in_decided : forall tr sent,
  rebroadcasts_old sent tr -> forall v, In v (node_broadcast tr) -> In v (sent ++ node_decided tr).
Proof.
  induction tr as [|[i o] rest IH]; intros sent H v Hv; [destruct Hv|].
  cbn [rebroadcasts_old] in H. destruct H as [H1 H2].
  unfold node_broadcast in Hv. cbn [flat_map snd] in Hv. fold (node_broadcast rest) in Hv.
  unfold node_decided. cbn [flat_map]. fold (node_decided rest).
  apply in_app_or in Hv. destruct Hv as [Hv|Hv].
  - destruct i; cbn [nstep_decided nstep_rebroadcast fst snd] in *;
      try (apply in_or_app; right; apply in_or_app; left; exact Hv).
    apply in_or_app. left. apply H1. exact Hv.
  - specialize (IH _ H2 v Hv). rewrite <- app_assoc in IH. exact IH.
Qed.

(* no two votes a node ever broadcasts - decisions and standstill re-broadcasts - are a slashable pair *)
Theorem node_broadcast_never_conflict : forall e ins v w,
  loopback_okb (own e) [] (node_trace e node_init ins) = true ->
  In v (node_broadcast (node_trace e node_init ins)) -> In w (node_broadcast (node_trace e node_init ins)) ->
  v_signer v = own e /\ (v_slot v = v_slot w -> conflicts (v_kind v) (v_kind w) = None).
Proof.
  intros e ins v w HL Hv Hw.
  pose proof (node_standstill_rebroadcasts e ins HL) as R.
  apply (broadcast_in_decided _ [] R) in Hv. apply (broadcast_in_decided _ [] R) in Hw. cbn [app] in Hv, Hw.
  destruct (node_decided_chain e ins) as [C F]. split.
  - rewrite Forall_forall in F. apply F. exact Hv.
  - intros Hs. apply (chain_in_pairwise _ v w C Hv Hw Hs).
Qed.

Theorem node_broadcast_replay_accepts : forall e ins,
  Oracle.VotorRun.replay_own e [] (node_decided (node_trace e node_init ins)) = true.
Proof.
  intros e ins. apply replay_own_conflict_free. apply chain_conflict_free. apply node_decided_chain.
Qed.

(* ====================== witnesses ====================== *)
Definition nv_epoch : epoch := mkEpoch [1; 1; 1; 1] 0.
Definition nv_ins : list nin :=
  [NBlock 1 11 (0, 0); NVote (mkVote 1 (KNotar 11) 0); NVote (mkVote 1 (KNotar 11) 1); NStandstill;
   NTimeout 2; NVote (mkVote 2 KSkip 0); NStandstill].
(* the loopback premise is satisfiable on a run with two non-empty standstill bundles *)
Lemma node_example :
  let tr := node_trace nv_epoch node_init nv_ins in
  loopback_okb (own nv_epoch) [] tr = true /\
  node_decided tr = [mkVote 1 (KNotar 11) 0; mkVote 2 KSkip 0; mkVote 3 KSkip 0] /\
  flat_map nstep_rebroadcast tr = [mkVote 1 (KNotar 11) 0; mkVote 1 (KNotar 11) 0; mkVote 2 KSkip 0].
Proof. vm_compute. repeat split; reflexivity. Qed.

(* ... and it is needed: if a vote carrying the node's signature that the node never cast reaches its pool
   (a forgery, excluded by C09), the next standstill bundle re-broadcasts it, and together with the
   node's own decision the broadcasts contain a slashable pair *)
Lemma loopback_premise_needed :
  let tr := node_trace nv_epoch node_init [NVote (mkVote 1 KSkip 0); NStandstill; NBlock 1 11 (0, 0)] in
  loopback_okb (own nv_epoch) [] tr = false /\
  node_broadcast tr = [mkVote 1 KSkip 0; mkVote 1 (KNotar 11) 0] /\
  conflict_free (node_broadcast tr) = false.
Proof. vm_compute. repeat split; reflexivity. Qed.
