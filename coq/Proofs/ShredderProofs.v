(* Proofs about Model/Shredder.v: padding / sizing arithmetic for every payload length,
   layout validation, the count check, error branches leave the array untouched, and - under the
   explicit premises about the external Reed-Solomon codec (MDS), the stream cipher (involution,
   length preserving) and the hash length - the reconstruction theorem for every subset of >= 32
   positions and all four shredders. *)
From Coq Require Import List NArith ZArith Bool Lia Arith PeanoNat ZifyBool ZifyNat ZifyN.
From AG Require Import Gen.Params Model.Merkle Model.Shredder Proofs.MerkleProofs.
Import ListNotations.
Open Scope N_scope.

Ltac Zify.zify_post_hook ::= Z.div_mod_to_equations.

(* ------------------------------------------------------------------ *)
(* generic list facts                                                  *)
(* ------------------------------------------------------------------ *)
Section ListFacts.
  Context {A : Type}.

  Lemma chunks_aux_fuel : forall n f f' (l : list A), (0 < n)%nat -> (length l <= f)%nat -> (length l <= f')%nat ->
    chunks_aux f n l = chunks_aux f' n l.
  Proof.
    intros n f. induction f as [|f IH]; intros f' l Hn Hf Hf'.
    - destruct l; [|cbn in Hf; lia]. destruct f'; reflexivity.
    - destruct l as [|a l].
      + destruct f'; reflexivity.
      + destruct f' as [|f']; [cbn in Hf'; lia|].
        cbn [chunks_aux]. f_equal. apply IH; try assumption.
        * rewrite skipn_length. cbn [length] in *. lia.
        * rewrite skipn_length. cbn [length] in *. lia.
  Qed.

  Definition chunksn (n : nat) (l : list A) : list (list A) := chunks_aux (length l) n l.

  Lemma chunksn_step : forall n (l : list A), (0 < n)%nat -> l <> [] ->
    chunksn n l = firstn n l :: chunksn n (skipn n l).
  Proof.
    intros n l Hn Hl. unfold chunksn. destruct l as [|a l]; [congruence|].
    cbn [length chunks_aux]. f_equal. apply chunks_aux_fuel; try assumption.
    - rewrite skipn_length. cbn [length]. lia.
    - lia.
  Qed.

  Lemma chunksn_exact : forall m n (l : list A), (0 < n)%nat -> length l = (m * n)%nat ->
    concat (chunksn n l) = l /\ length (chunksn n l) = m /\ Forall (fun c => length c = n) (chunksn n l).
  Proof.
    induction m as [|m IH]; intros n l Hn Hl.
    - destruct l; [|cbn in Hl; lia]. cbn. repeat split; constructor.
    - assert (l <> []) by (intro; subst; cbn in Hl; lia).
      rewrite chunksn_step by assumption.
      destruct (IH n (skipn n l) Hn) as [C [L F]].
      { rewrite skipn_length. lia. }
      cbn [concat length]. rewrite C, L. repeat split.
      + apply firstn_skipn.
      + constructor; [|exact F]. rewrite firstn_length. lia.
  Qed.

  Lemma chunksn_app : forall m n (l1 l2 : list A), (0 < n)%nat -> length l1 = (m * n)%nat ->
    chunksn n (l1 ++ l2) = chunksn n l1 ++ chunksn n l2.
  Proof.
    induction m as [|m IH]; intros n l1 l2 Hn Hl.
    - destruct l1; [|cbn in Hl; lia]. reflexivity.
    - assert (l1 <> []) by (intro; subst; cbn in Hl; lia).
      assert (l1 ++ l2 <> []) by (destruct l1; [congruence|discriminate]).
      rewrite (chunksn_step n (l1 ++ l2)) by assumption.
      rewrite (chunksn_step n l1) by assumption.
      cbn [app]. f_equal.
      + rewrite firstn_app. replace (n - length l1)%nat with 0%nat by lia. cbn [firstn]. apply app_nil_r.
      + rewrite skipn_app. replace (n - length l1)%nat with 0%nat by lia. cbn [skipn].
        apply IH; [assumption|]. rewrite skipn_length. lia.
  Qed.

  Lemma firstn_app_len : forall n (l1 l2 : list A), length l1 = n -> firstn n (l1 ++ l2) = l1.
  Proof.
    intros n l1 l2 E. subst n. rewrite firstn_app, Nat.sub_diag, firstn_O, app_nil_r. apply firstn_all.
  Qed.
  Lemma skipn_app_len : forall n (l1 l2 : list A), length l1 = n -> skipn n (l1 ++ l2) = l2.
  Proof.
    intros n l1 l2 E. subst n. rewrite skipn_app, Nat.sub_diag, skipn_all. reflexivity.
  Qed.

  Lemma skipn_app_len2 : forall n (l1 l2 l3 : list A), (length l1 + length l2)%nat = n -> skipn n (l1 ++ l2 ++ l3) = l3.
  Proof. intros n l1 l2 l3 E. rewrite app_assoc. apply skipn_app_len. rewrite app_length. exact E. Qed.

  Lemma list_case_nonempty : forall (R : Type) (l : list A) (x f : R), (0 < length l)%nat ->
    match l with [] => x | _ :: _ => f end = f.
  Proof. intros R l x f Hl. destruct l; [cbn in Hl; lia|reflexivity]. Qed.

  Lemma nth_error_default : forall (l : list A) n d,
    match nth_error l n with Some x => x | None => d end = nth n l d.
  Proof. induction l as [|a l IH]; intros n d; destruct n; cbn; try reflexivity. apply IH. Qed.

  Lemma rev_repeat : forall (x : A) n, rev (repeat x n) = repeat x n.
  Proof.
    intros x n. induction n as [|n IH]; [reflexivity|].
    cbn [repeat rev]. rewrite IH. clear IH. induction n as [|n IH]; [reflexivity|].
    cbn [repeat app]. f_equal. exact IH.
  Qed.
End ListFacts.

(* ------------------------------------------------------------------ *)
(* sizing arithmetic (pure N)                                          *)
(* ------------------------------------------------------------------ *)
Lemma next_multiple_of_spec : forall a b, 0 < b ->
  a <= next_multiple_of a b /\ next_multiple_of a b < a + b /\ exists k, next_multiple_of a b = k * b.
Proof.
  intros a b Hb. unfold next_multiple_of.
  assert (E := N.div_mod a b ltac:(lia)). assert (L := N.mod_lt a b ltac:(lia)).
  set (q := a / b) in *. set (r := a mod b) in *.
  destruct (N.eqb_spec r 0) as [Hr|Hr].
  - repeat split; try lia. exists q. lia.
  - repeat split; try lia. exists (q + 1). lia.
Qed.

(* padding, shard size, size of the tail buffer and the split point for a payload of length len *)
Definition padding_of (len : N) : N := 2 * DATA_SHREDS - len mod (2 * DATA_SHREDS).
Definition shard_bytes_of (len : N) : N := div_ceil (len + padding_of len) DATA_SHREDS.
Definition last_of (len : N) : N := next_multiple_of (2 * DATA_SHREDS) (shard_bytes_of len).
Definition boundary_of (len : N) : N := len - (last_of len - padding_of len).

Lemma sizing_facts : forall len, len <= MAX_DATA_PER_SLICE ->
  let pad := padding_of len in let sb := shard_bytes_of len in let last := last_of len in
  1 <= pad <= 64 /\ len + pad = DATA_SHREDS * sb /\ N.odd sb = false /\ 2 <= sb <= MAX_DATA_PER_SHRED /\
  pad <= last /\ last - pad <= len /\ (exists k, boundary_of len = k * sb) /\
  boundary_of len + last = len + pad.
Proof.
  intros len Hlen. cbv zeta.
  unfold boundary_of, last_of. set (sb := shard_bytes_of len). set (pad := padding_of len).
  assert (P : 1 <= pad <= 64 /\ (len + pad) mod 64 = 0).
  { unfold pad, padding_of, DATA_SHREDS. lia. }
  assert (S1 : len + pad = 32 * sb /\ sb mod 2 = 0 /\ 2 <= sb <= 1024).
  { unfold sb, shard_bytes_of, div_ceil. fold pad. unfold DATA_SHREDS, MAX_DATA_PER_SLICE in *.
    destruct P as [P1 P2].
    assert ((len + pad) mod 32 = 0) by lia.
    replace (0 <? (len + pad) mod 32) with false by lia. lia. }
  destruct S1 as [S1 [S2 S3]].
  destruct (next_multiple_of_spec (2 * DATA_SHREDS) sb ltac:(lia)) as [N1 [N2 [k Hk]]].
  set (last := next_multiple_of (2 * DATA_SHREDS) sb) in *.
  unfold DATA_SHREDS, MAX_DATA_PER_SHRED in *.
  assert (K : k <= 32).
  { destruct (N.le_gt_cases k 32) as [|G]; [assumption|].
    assert (33 * sb <= k * sb) by (apply N.mul_le_mono_r; lia). lia. }
  assert (O : N.odd sb = false).
  { destruct (N.odd sb) eqn:E; [|reflexivity].
    exfalso. apply N.odd_spec in E. destruct E as [m Hm]. lia. }
  split; [lia|]. split; [lia|]. split; [exact O|]. split; [lia|]. split; [lia|]. split; [lia|].
  split; [|lia].
  exists (32 - k). rewrite N.mul_sub_distr_r. lia.
Qed.

(* ------------------------------------------------------------------ *)
(* the model, generic in bytes / hashes / signatures                   *)
(* ------------------------------------------------------------------ *)
Section ShredderProofs.
  Context {B H Sig : Type}.
  Variable zero marker : B.
  Variable beqb : B -> B -> bool.
  Variable bxor : B -> B -> B.
  Variable b_of_N : N -> B.
  Variable N_of_b : B -> N.
  Variable rs_encode : N -> list (list B) -> list (list B).
  Variable rs_recover : N -> list (option (list B)) -> list (option (list B)) -> list (list B).
  Variable keystream : list B -> list B -> list B.
  Variable hash : list B -> list B.
  Variable hash_leaf : list B -> H.
  Variable hash_pair : H -> H -> H.
  Variable H_eqb : H -> H -> bool.
  Variable sign : header -> H -> Sig.

  (* facts about bytes (discharged for the executable byte type in Section IntBytes below) *)
  Hypothesis beqb_spec : forall a b, beqb a b = true <-> a = b.
  Hypothesis marker_nonzero : marker <> zero.
  Hypothesis byte_roundtrip : forall n, n < 256 -> N_of_b (b_of_N n) = n.
  Hypothesis bxor_invol : forall a b, bxor (bxor a b) b = a.
  Hypothesis H_eqb_spec : forall a b, H_eqb a b = true <-> a = b.

  Notation resize := (resize zero).
  Notation rs_shred := (rs_shred zero marker rs_encode).
  Notation unpad := (unpad zero marker beqb).
  Notation leading_zeros := (leading_zeros zero beqb).
  Notation payload_bytes := (payload_bytes b_of_N).
  Notation decode_payload := (decode_payload N_of_b).
  Notation decode_data := (decode_data N_of_b).
  Notation le_bytes := (le_bytes b_of_N).
  Notation le64 := (le64 b_of_N).
  Notation le_val := (le_val N_of_b).

  Lemma beqb_refl : forall a, beqb a a = true.
  Proof. intros a. apply beqb_spec. reflexivity. Qed.
  Lemma beqb_marker_zero : beqb marker zero = false.
  Proof. destruct (beqb marker zero) eqn:E; [|reflexivity]. apply beqb_spec in E. contradiction. Qed.

  (* the payload followed by the 0x80 marker and zeros up to the next multiple of 2 * DATA_SHREDS *)
  Definition padded (p : list B) : list B :=
    p ++ marker :: repeat zero (N.to_nat (padding_of (lenN p) - 1)).
  (* ... cut into DATA_SHREDS pieces *)
  Definition split_pad (p : list B) : list (list B) := chunks (shard_bytes_of (lenN p)) (padded p).

  Lemma lenN_app : forall (A : Type) (a b : list A), lenN (a ++ b) = lenN a + lenN b.
  Proof. intros. unfold lenN. rewrite app_length. lia. Qed.

  Lemma padded_length : forall p, lenN (padded p) = lenN p + padding_of (lenN p).
  Proof.
    intros p. unfold padded. rewrite lenN_app. unfold lenN at 2. cbn [length]. rewrite repeat_length.
    assert (1 <= padding_of (lenN p)) by (unfold padding_of, DATA_SHREDS; lia). lia.
  Qed.

  (* every payload within the limit: DATA_SHREDS shards of one even, non-zero size <= MAX_DATA_PER_SHRED
     whose concatenation is the padded payload *)
  Lemma split_pad_shape : forall p, lenN p <= MAX_DATA_PER_SLICE ->
    let sb := shard_bytes_of (lenN p) in
    lenN (split_pad p) = DATA_SHREDS /\ Forall (fun c => lenN c = sb) (split_pad p) /\
    concat (split_pad p) = padded p /\ N.odd sb = false /\ 2 <= sb <= MAX_DATA_PER_SHRED.
  Proof.
    intros p Hp. cbv zeta.
    destruct (sizing_facts (lenN p) Hp) as [F1 [F2 [F3 [F4 _]]]].
    set (sb := shard_bytes_of (lenN p)) in *.
    assert (L : length (padded p) = (N.to_nat DATA_SHREDS * N.to_nat sb)%nat).
    { assert (E := padded_length p). unfold lenN in E at 1. lia. }
    destruct (chunksn_exact (N.to_nat DATA_SHREDS) (N.to_nat sb) (padded p) ltac:(lia) L) as [C [Ln Fa]].
    unfold split_pad, chunks. fold sb. fold (chunksn (N.to_nat sb) (padded p)).
    repeat split; try assumption; try lia.
    - unfold lenN. rewrite Ln. lia.
    - eapply Forall_impl; [|exact Fa]. intros c Hc. unfold lenN. cbv beta in Hc. rewrite Hc. lia.
  Qed.

  (* ReedSolomonCoder::shred never panics on a payload within the limit and produces split_pad *)
  Lemma rs_shred_ok : forall nc p, lenN p <= MAX_DATA_PER_SLICE ->
    rs_shred nc p = SOk (mkRaw (split_pad p) (rs_encode nc (split_pad p))).
  Proof.
    intros nc p Hp.
    destruct (sizing_facts (lenN p) Hp) as [F1 [F2 [F3 [F4 [F5 [F6 [[k F7] F8]]]]]]].
    destruct (split_pad_shape p Hp) as [S1 [S2 _]].
    unfold rs_shred.
    replace (MAX_DATA_PER_SLICE <? lenN p) with false by lia.
    fold (padding_of (lenN p)). fold (shard_bytes_of (lenN p)). fold (last_of (lenN p)).
    fold (boundary_of (lenN p)).
    set (sb := shard_bytes_of (lenN p)) in *. set (pad := padding_of (lenN p)) in *.
    set (last := last_of (lenN p)) in *. set (bd := boundary_of (lenN p)) in *.
    replace (sb =? 0) with false by lia. rewrite F3. cbn [orb].
    replace (last <? pad) with false by lia.
    replace (lenN p <? last - pad) with false by lia.
    assert (Hbd : bd <= lenN p) by (unfold bd, boundary_of; lia).
    assert (D : chunks sb (takeN bd p) ++ chunks sb (resize last (dropN bd p ++ [marker])) = split_pad p).
    { assert (R : resize last (dropN bd p ++ [marker]) = dropN bd p ++ marker :: repeat zero (N.to_nat (pad - 1))).
      { unfold Shredder.resize, takeN.
        assert (Ld : lenN (dropN bd p ++ [marker]) = lenN p - bd + 1).
        { rewrite lenN_app. unfold lenN, dropN. rewrite skipn_length. cbn [length]. unfold lenN in Hbd. lia. }
        rewrite firstn_all2 by (unfold lenN in *; lia).
        rewrite Ld. rewrite <- app_assoc. cbn [app]. do 3 f_equal.
        unfold bd, boundary_of. fold last pad. lia. }
      rewrite R. unfold chunks.
      fold (chunksn (N.to_nat sb) (takeN bd p)).
      fold (chunksn (N.to_nat sb) (dropN bd p ++ marker :: repeat zero (N.to_nat (pad - 1)))).
      rewrite <- (chunksn_app (N.to_nat k)).
      - rewrite app_assoc. unfold takeN, dropN. rewrite firstn_skipn. reflexivity.
      - lia.
      - unfold takeN. rewrite firstn_length. unfold lenN in Hbd. lia. }
    rewrite D. rewrite S1, N.eqb_refl. cbn [andb].
    assert (Fb : forallb (fun c : list B => lenN c =? sb) (split_pad p) = true).
    { apply forallb_forall. intros c Hc. rewrite Forall_forall in S2. rewrite (S2 c Hc). apply N.eqb_refl. }
    rewrite Fb. reflexivity.
  Qed.

  Lemma leading_zeros_repeat : forall n t, leading_zeros (repeat zero n ++ marker :: t) = N.of_nat n.
  Proof.
    induction n as [|n IH]; intros t.
    - cbn [repeat app Shredder.leading_zeros]. rewrite beqb_marker_zero. reflexivity.
    - cbn [repeat app Shredder.leading_zeros]. rewrite beqb_refl, IH. lia.
  Qed.

  (* stripping the padding restores exactly the payload *)
  Lemma unpad_padded : forall p, unpad (padded p) = Some p.
  Proof.
    intros p. unfold Shredder.unpad.
    assert (Hpad : 1 <= padding_of (lenN p)) by (unfold padding_of, DATA_SHREDS; lia).
    assert (LZ : leading_zeros (rev (padded p)) = padding_of (lenN p) - 1).
    { unfold padded. rewrite rev_app_distr. cbn [rev]. rewrite rev_repeat. rewrite <- app_assoc. cbn [app].
      rewrite leading_zeros_repeat. lia. }
    rewrite <- rev_alt. rewrite LZ. rewrite padded_length.
    replace (lenN p + padding_of (lenN p) <? padding_of (lenN p) - 1 + 1) with false by lia.
    replace (lenN p + padding_of (lenN p) - (padding_of (lenN p) - 1 + 1)) with (lenN p) by lia.
    unfold padded at 1. rewrite app_nth2 by (unfold lenN; lia).
    replace (N.to_nat (lenN p) - length p)%nat with 0%nat by (unfold lenN; lia).
    cbn [nth]. rewrite beqb_refl. f_equal.
    unfold takeN, padded. rewrite firstn_app. replace (N.to_nat (lenN p) - length p)%nat with 0%nat by (unfold lenN; lia).
    cbn [firstn]. rewrite app_nil_r. apply firstn_all2. unfold lenN. lia.
  Qed.

  Theorem pad_roundtrip : forall p, lenN p <= MAX_DATA_PER_SLICE -> unpad (concat (split_pad p)) = Some p.
  Proof.
    intros p Hp. destruct (split_pad_shape p Hp) as [_ [_ [C _]]]. rewrite C. apply unpad_padded.
  Qed.

  Lemma rs_shred_oversize : forall nc p, MAX_DATA_PER_SLICE < lenN p -> rs_shred nc p = SErrTooMuchData.
  Proof. intros nc p Hp. unfold Shredder.rs_shred. replace (MAX_DATA_PER_SLICE <? lenN p) with true by lia. reflexivity. Qed.

  (* ---- wincode round trip of the slice payload ---- *)
  Lemma le_bytes_length : forall k n, length (le_bytes k n) = k.
  Proof. induction k; intros n; cbn [Shredder.le_bytes length]; [reflexivity|]. rewrite IHk. reflexivity. Qed.

  Lemma le_val_le_bytes : forall k n, n < 256 ^ N.of_nat k -> le_val (le_bytes k n) = n.
  Proof.
    induction k as [|k IH]; intros n Hn.
    - cbn in Hn. cbn. lia.
    - cbn [Shredder.le_bytes Shredder.le_val]. rewrite byte_roundtrip by lia.
      rewrite IH.
      + lia.
      + replace (N.of_nat (S k)) with (N.succ (N.of_nat k)) in Hn by lia. rewrite N.pow_succ_r' in Hn.
        apply N.div_lt_upper_bound; lia.
  Qed.

  Definition slice_wf (s : @slice B) : Prop :=
    match sl_parent s with None => True | Some (ps, ph) => ps < 2 ^ 64 /\ length ph = 32%nat end.

  Lemma decode_data_ok : forall par d, lenN d < 2 ^ 64 -> decode_data par (le64 (lenN d) ++ d) = DOk (par, d).
  Proof.
    intros par d Hd. unfold Shredder.decode_data, Shredder.le64.
    rewrite lenN_app. unfold lenN at 1. rewrite le_bytes_length.
    replace (N.of_nat 8 + lenN d <? 8) with false by lia.
    rewrite firstn_app_len by apply le_bytes_length.
    rewrite le_val_le_bytes by (cbn; lia).
    rewrite skipn_app_len by apply le_bytes_length.
    rewrite N.eqb_refl. reflexivity.
  Qed.

  Lemma decode_encode : forall s, slice_wf s -> lenN (payload_bytes s) <= MAX_DATA_PER_SLICE ->
    decode_payload (payload_bytes s) = DOk (sl_parent s, sl_data s).
  Proof.
    intros s Hwf Hlen. unfold Shredder.decode_payload.
    replace (MAX_DATA_PER_SLICE <? lenN (payload_bytes s)) with false by lia.
    assert (Hd : lenN (sl_data s) < 2 ^ 64).
    { unfold Shredder.payload_bytes in Hlen. rewrite !lenN_app in Hlen. unfold MAX_DATA_PER_SLICE in Hlen.
      assert (2 ^ 64 = 18446744073709551616) by reflexivity. lia. }
    unfold Shredder.payload_bytes in *. unfold slice_wf in Hwf.
    destruct (sl_parent s) as [[ps ph]|].
    - destruct Hwf as [Hps Hph]. cbn [app].
      rewrite (byte_roundtrip 1) by lia. cbn [N.eqb Pos.eqb].
      replace (lenN ((Shredder.le64 b_of_N ps ++ ph) ++ Shredder.le64 b_of_N (lenN (sl_data s)) ++ sl_data s) <? 40) with false.
      2:{ rewrite !lenN_app. unfold lenN, Shredder.le64. rewrite !le_bytes_length. lia. }
      rewrite <- !app_assoc. unfold Shredder.le64.
      rewrite firstn_app_len by apply le_bytes_length.
      rewrite le_val_le_bytes by (cbn; lia).
      rewrite skipn_app_len by apply le_bytes_length.
      rewrite firstn_app_len by exact Hph.
      rewrite skipn_app_len2 by (rewrite le_bytes_length, Hph; reflexivity).
      apply decode_data_ok. exact Hd.
    - cbn [app]. rewrite (byte_roundtrip 0) by lia. cbn [N.eqb].
      apply decode_data_ok. exact Hd.
  Qed.

  (* ---------------------------------------------------------------- *)
  (* Shredder::deshred: error branches, count check                    *)
  (* ---------------------------------------------------------------- *)
  Variable tree_fn : list (list B) -> list (list H).
  Variable proof_fn : list (list H) -> N -> list H.
  Notation deshred := (deshred zero marker beqb bxor N_of_b rs_encode rs_recover keystream hash hash_leaf H_eqb tree_fn proof_fn).
  Notation deshred_validated := (deshred_validated zero marker beqb bxor rs_encode rs_recover keystream hash).
  Notation rs_deshred := (rs_deshred zero marker beqb rs_encode rs_recover).
  Notation shred_slice := (shred_slice zero marker bxor b_of_N rs_encode keystream hash hash_leaf sign tree_fn proof_fn).
  Notation shred_raw := (shred_raw zero marker bxor b_of_N rs_encode keystream hash).
  Notation rs_input := (rs_input bxor b_of_N keystream hash).
  Notation output_shreds := (output_shreds hash_leaf sign tree_fn proof_fn).
  Notation fill_from := (fill_from proof_fn).
  Notation fill_missing := (fill_missing hash_leaf proof_fn).
  Notation empty0 := (empty0 hash_leaf).
  Notation shredT := (@shred B H Sig).

  (* whatever goes wrong, the caller's array comes back exactly as it was supplied *)
  Theorem deshred_failure_leaves_input : forall v (arr : list (option shredT)) r out,
    deshred v arr = (r, out) -> (forall sl, r <> DOk sl) -> out = arr.
  Proof.
    intros v arr r out E Hr. unfold Shredder.deshred in E.
    repeat match type of E with
           | context [match ?x with _ => _ end] => destruct x eqn:?
           end; inversion E; subst; try reflexivity; exfalso; eapply Hr; reflexivity.
  Qed.

  Corollary deshred_error_leaves_input : forall v (arr : list (option shredT)) e out,
    deshred v arr = (DErr e, out) -> out = arr.
  Proof. intros v arr e out E. eapply deshred_failure_leaves_input; [exact E|]. intros sl; discriminate. Qed.

  (* the outcome for fewer than DATA_SHREDS shreds, written without any reference to the codec *)
  Definition deshred_short (v : variant) (arr : list (option shredT)) : dres (@rslice B H) * list (option shredT) :=
    if forallb is_none arr then (DErr NotEnoughShreds, arr) else
    match validate_layout (data_out v) arr with
    | LPanic => (DPanic, arr)
    | LNone => (DErr InvalidLayout, arr)
    | LOk => (DErr NotEnoughShreds, arr)
    end.

  Theorem deshred_lt32 : forall v (arr : list (option shredT)), lenN (present arr) < DATA_SHREDS ->
    deshred v arr = deshred_short v arr.
  Proof.
    intros v arr Hc. unfold Shredder.deshred, deshred_short.
    destruct (forallb is_none arr); [reflexivity|].
    destruct (validate_layout (data_out v) arr); try reflexivity.
    unfold Shredder.deshred_validated, Shredder.rs_deshred.
    replace (lenN (present arr) <? DATA_SHREDS) with true by lia. reflexivity.
  Qed.

  Lemma deshred_short_never_ok : forall v (arr : list (option shredT)) sl out, deshred_short v arr <> (DOk sl, out).
  Proof.
    intros v arr sl out. unfold deshred_short.
    destruct (forallb is_none arr); [discriminate|]. destruct (validate_layout (data_out v) arr); discriminate.
  Qed.

  (* ---------------------------------------------------------------- *)
  (* the leader's output in closed form; masks                         *)
  (* ---------------------------------------------------------------- *)
  Fixpoint mk_out (i : N) (raws : list (list B)) (nd : N) (hdr : header) (lv : list (list H)) (sg : Sig) (rt : H)
    : list shredT :=
    match raws with
    | [] => []
    | d :: t => mkShred (i <? nd) hdr i d sg (proof_fn lv i) rt
                :: mk_out (i + 1) t nd hdr lv sg rt
    end.

  (* keep the entries whose mask bit is set *)
  Fixpoint mask {A : Type} (m : list bool) (l : list A) : list (option A) :=
    match m, l with
    | b :: m', x :: l' => (if b then Some x else None) :: mask m' l'
    | _, _ => []
    end.
  Definition count_true (m : list bool) : N := lenN (filter (fun b => b) m).

  Lemma mask_length : forall (A : Type) m (l : list A), length m = length l -> length (mask m l) = length l.
  Proof. induction m; destruct l; cbn; intros; try lia. rewrite IHm; lia. Qed.

  Lemma mask_app : forall (A : Type) m1 m2 (l1 l2 : list A), length m1 = length l1 ->
    mask (m1 ++ m2) (l1 ++ l2) = mask m1 l1 ++ mask m2 l2.
  Proof. induction m1; destruct l1; cbn; intros; try lia; [reflexivity|]. rewrite IHm1 by lia. reflexivity. Qed.

  Lemma mask_false : forall (A : Type) (l : list A), mask (repeat false (length l)) l = repeat None (length l).
  Proof. induction l; cbn; [reflexivity|]. rewrite IHl. reflexivity. Qed.

  Lemma mask_firstn : forall (A : Type) k m (l : list A), firstn k (mask m l) = mask (firstn k m) (firstn k l).
  Proof. induction k; intros m l; [reflexivity|]. destruct m, l; cbn; try reflexivity. rewrite IHk. reflexivity. Qed.

  Lemma mask_skipn : forall (A : Type) k m (l : list A), skipn k (mask m l) = mask (skipn k m) (skipn k l).
  Proof.
    induction k; intros m l; [reflexivity|]. destruct m, l; cbn [skipn mask]; try reflexivity.
    - destruct (skipn k m); reflexivity.
    - apply IHk.
  Qed.

  Lemma mask_map : forall (A C : Type) (f : A -> C) m (l : list A), map (option_map f) (mask m l) = mask m (map f l).
  Proof. induction m; destruct l; cbn; try reflexivity. rewrite IHm. destruct a; reflexivity. Qed.

  Lemma present_map_Some : forall (A : Type) (l : list A), present (map Some l) = l.
  Proof. induction l; cbn; [reflexivity|]. unfold present in IHl. rewrite IHl. reflexivity. Qed.

  Lemma present_mask_Forall : forall (A : Type) (P : A -> Prop) m (l : list A), Forall P l -> Forall P (present (mask m l)).
  Proof.
    intros A P. induction m; intros l Hl; destruct l; cbn; try constructor.
    inversion Hl; subst. destruct a; cbn.
    - constructor; [assumption|]. apply IHm; assumption.
    - apply IHm; assumption.
  Qed.

  Lemma present_mask_count : forall (A : Type) m (l : list A), length m = length l ->
    lenN (present (mask m l)) = count_true m.
  Proof.
    intros A. unfold count_true, lenN. induction m; intros l Hl; destruct l; cbn in *; try lia.
    destruct a; cbn; specialize (IHm l ltac:(lia)); unfold present in IHm; lia.
  Qed.

  Lemma count_true_app : forall a b, count_true (a ++ b) = count_true a + count_true b.
  Proof. intros. unfold count_true. rewrite filter_app. apply lenN_app. Qed.

  Lemma count_true_false : forall n, count_true (repeat false n) = 0.
  Proof. induction n; cbn; [reflexivity|]. exact IHn. Qed.

  Lemma forallb_is_none_mask : forall (A : Type) m (l : list A), length m = length l -> 0 < count_true m ->
    forallb is_none (mask m l) = false.
  Proof.
    intros A. induction m; intros l Hl Hc; destruct l; cbn in *; try (unfold count_true in Hc; cbn in Hc; lia).
    destruct a; cbn; [reflexivity|]. apply IHm; [lia|]. exact Hc.
  Qed.

  Lemma mk_out_data : forall raws i nd hdr lv sg rt, map sh_data (mk_out i raws nd hdr lv sg rt) = raws.
  Proof. induction raws; intros; cbn; [reflexivity|]. rewrite IHraws. reflexivity. Qed.

  Lemma mk_out_length : forall raws i nd hdr lv sg rt, length (mk_out i raws nd hdr lv sg rt) = length raws.
  Proof. induction raws; intros; cbn; [reflexivity|]. rewrite IHraws. reflexivity. Qed.

  Lemma mk_out_Forall : forall (P : list B -> Prop) raws i nd hdr lv sg rt, Forall P raws ->
    Forall (fun s => P (sh_data s) /\ sh_header s = hdr /\ sh_sig s = sg /\ sh_root s = rt) (mk_out i raws nd hdr lv sg rt).
  Proof.
    induction raws; intros i nd hdr lv sg rt F; cbn; constructor; inversion F; subst.
    - cbn. repeat split. assumption.
    - apply IHraws. assumption.
  Qed.

  Lemma fill_from_mask : forall raws i m nd hdr lv sg rt, length m = length raws ->
    fill_from i raws (mask m (mk_out i raws nd hdr lv sg rt)) nd hdr lv sg rt
    = map Some (mk_out i raws nd hdr lv sg rt).
  Proof.
    induction raws; intros i m nd hdr lv sg rt Hl; destruct m; cbn in Hl; try lia; [reflexivity|].
    cbn [mk_out mask Shredder.fill_from map]. rewrite IHraws by lia. destruct b; reflexivity.
  Qed.

  Lemma check_types_mask : forall raws i m nd hdr lv sg rt,
    check_types nd i (mask m (mk_out i raws nd hdr lv sg rt)) = LOk.
  Proof.
    induction raws; intros i m nd hdr lv sg rt; destruct m; cbn [mk_out mask check_types]; try reflexivity.
    destruct b.
    - cbn [sh_index sh_is_data]. rewrite N.eqb_refl. cbn [negb].
      replace ((i <? nd) && negb (i <? nd) || (nd <=? i) && (i <? nd)) with false by lia.
      apply IHraws.
    - apply IHraws.
  Qed.

  Lemma merge_mask : forall (d : list (list B)) pd restored k, length pd = length d ->
    (forall i, (i < length d)%nat -> nth i pd true = false -> nth (k + i) restored [] = nth i d []) ->
    merge k (mask pd d) restored = d.
  Proof.
    induction d as [|x d IH]; intros pd restored k Hl Hr; destruct pd as [|b pd]; cbn in Hl; try lia; [reflexivity|].
    cbn [mask Shredder.merge]. f_equal.
    - destruct b; [reflexivity|]. specialize (Hr 0%nat ltac:(cbn; lia) eq_refl). rewrite Nat.add_0_r in Hr. exact Hr.
    - apply IH; [lia|]. intros i Hi Hn. specialize (Hr (S i) ltac:(cbn; lia) Hn).
      replace (S k + i)%nat with (k + S i)%nat by lia. exact Hr.
  Qed.

  Lemma sizes_ok_uniform : forall sb (l : list (list B)) acc, Forall (fun c => lenN c = sb) l ->
    acc + lenN l * sb <= MAX_DATA_PER_SLICE_AFTER_PADDING -> sizes_ok acc l = true.
  Proof.
    intros sb. induction l as [|c l IH]; intros acc F Hle; [reflexivity|].
    inversion F; subst. cbn [Shredder.sizes_ok].
    assert (lenN (c :: l) = 1 + lenN l) by (unfold lenN; cbn [length]; lia).
    replace (MAX_DATA_PER_SLICE_AFTER_PADDING <? acc + lenN c) with false by nia.
    apply IH; [assumption|]. nia.
  Qed.

  (* ---------------------------------------------------------------- *)
  (* premises about the external libraries (each introduced where it   *)
  (* is first needed)                                                  *)
  (* ---------------------------------------------------------------- *)
  (* AES-CTR keystream application is length preserving; SHA-256 digests have 32 bytes *)
  Hypothesis ks_len : forall k x, length (keystream k x) = length x.
  Hypothesis hash_len : forall x, length (hash x) = 32%nat.

  Lemma xor_zip_length : forall k h, length (xor_zip bxor k h) = Nat.min (length k) (length h).
  Proof. intros. unfold xor_zip. rewrite map_length, combine_length. reflexivity. Qed.

  Lemma xor_into_zip : forall k h, (length k <= length h)%nat -> xor_into bxor (xor_zip bxor k h) h = k.
  Proof.
    induction k as [|x k IH]; intros h Hl; [reflexivity|].
    destruct h as [|y h]; [cbn in Hl; lia|].
    cbn [xor_zip combine map fst snd Shredder.xor_into]. fold (xor_zip bxor k h).
    rewrite bxor_invol. f_equal. apply IH. cbn in Hl. lia.
  Qed.

  Definition key_overhead (v : variant) : N := match v with Regular | CodingOnly => 0 | Aont | Pets => CIPHER_KEY_BYTES end.

  Lemma rs_input_len : forall v s key, lenN key = CIPHER_KEY_BYTES ->
    lenN (rs_input v s key) = lenN (payload_bytes s) + key_overhead v.
  Proof.
    intros v s key Hk. unfold CIPHER_KEY_BYTES in *. destruct v; cbn [Shredder.rs_input key_overhead].
    - lia.
    - lia.
    - rewrite lenN_app. unfold lenN in *. rewrite ks_len, xor_zip_length, hash_len. unfold CIPHER_KEY_BYTES. lia.
    - rewrite lenN_app. unfold lenN in *. rewrite ks_len. unfold CIPHER_KEY_BYTES. lia.
  Qed.

  Lemma max_data_size_overhead : forall v, max_data_size v + key_overhead v = MAX_DATA_PER_SLICE.
  Proof. destruct v; reflexivity. Qed.

  (* a slice above the shredder's limit is refused *)
  Theorem oversize_refused : forall v s key, lenN key = CIPHER_KEY_BYTES ->
    max_data_size v < lenN (payload_bytes s) -> shred_slice v s key = SErrTooMuchData.
  Proof.
    intros v s key Hk Hbig. unfold Shredder.shred_slice, Shredder.shred_raw.
    rewrite rs_shred_oversize; [reflexivity|].
    rewrite rs_input_len by assumption. assert (M := max_data_size_overhead v). lia.
  Qed.

  (* reed-solomon-simd: the encoder yields nc shards of the input's shard size *)
  Hypothesis RS_len : forall nc d sb, length d = N.to_nat DATA_SHREDS -> Forall (fun c => lenN c = sb) d ->
    length (rs_encode nc d) = N.to_nat nc /\ Forall (fun c => lenN c = sb) (rs_encode nc d).

  Definition vraw (v : variant) (d : list (list B)) : @raw B :=
    let c := rs_encode (coding_out v) d in
    match v with
    | Regular | Aont => mkRaw d c
    | CodingOnly => mkRaw [] c
    | Pets => mkRaw (removelast d) c
    end.

  (* what the leader produces for a slice (closed form of Shredder::shred) *)
  Definition leader_root (v : variant) (s : @slice B) (key : list B) : H :=
    let rw := vraw v (split_pad (rs_input v s key)) in
    root empty0 (tree_fn (r_data rw ++ r_coding rw)).
  Definition leader_out (v : variant) (s : @slice B) (key : list B) : list shredT :=
    let rw := vraw v (split_pad (rs_input v s key)) in
    let lv := tree_fn (r_data rw ++ r_coding rw) in
    mk_out 0 (r_data rw ++ r_coding rw) (lenN (r_data rw)) (sl_header s) lv (sign (sl_header s) (root empty0 lv)) (root empty0 lv).

  Lemma variant_counts : forall v, data_out v + coding_out v = TOTAL_SHREDS /\ data_out v <= DATA_SHREDS /\
                                   DATA_SHREDS <= coding_out v <= TOTAL_SHREDS.
  Proof. destruct v; cbv; repeat split; discriminate. Qed.

  Lemma vraw_shape : forall v d sb, length d = N.to_nat DATA_SHREDS -> Forall (fun c => lenN c = sb) d ->
    r_data (vraw v d) = firstn (N.to_nat (data_out v)) d /\
    lenN (r_data (vraw v d)) = data_out v /\
    r_coding (vraw v d) = rs_encode (coding_out v) d /\
    length (r_coding (vraw v d)) = N.to_nat (coding_out v) /\
    Forall (fun c => lenN c = sb) (r_data (vraw v d) ++ r_coding (vraw v d)).
  Proof.
    intros v d sb Hl F.
    destruct (RS_len (coding_out v) d sb Hl F) as [R1 R2].
    assert (D : r_data (vraw v d) = firstn (N.to_nat (data_out v)) d).
    { destruct v; cbn [vraw r_data data_out].
      - unfold REGULAR_DATA_OUT. rewrite firstn_all2; [reflexivity|]. unfold DATA_SHREDS in Hl. lia.
      - reflexivity.
      - unfold AONT_DATA_OUT. rewrite firstn_all2; [reflexivity|]. unfold DATA_SHREDS in Hl. lia.
      - rewrite removelast_firstn_len. rewrite Hl. reflexivity. }
    assert (C : r_coding (vraw v d) = rs_encode (coding_out v) d) by (destruct v; reflexivity).
    destruct (variant_counts v) as [V1 [V2 V3]].
    repeat split; try assumption.
    - rewrite D. unfold lenN. rewrite firstn_length. lia.
    - rewrite C. exact R1.
    - apply Forall_app. split.
      + rewrite D. rewrite Forall_forall in *. intros x Hx. apply F.
        rewrite <- (firstn_skipn (N.to_nat (data_out v)) d). apply in_or_app. left. exact Hx.
      + rewrite C. exact R2.
  Qed.

  Lemma leaves_length : forall v d sb, length d = N.to_nat DATA_SHREDS -> Forall (fun c => lenN c = sb) d ->
    length (r_data (vraw v d) ++ r_coding (vraw v d)) = N.to_nat TOTAL_SHREDS.
  Proof.
    intros v d sb Hl F. destruct (vraw_shape v d sb Hl F) as [_ [Ln [_ [Lc _]]]].
    destruct (variant_counts v) as [V1 _]. rewrite app_length, Lc. unfold lenN in Ln. lia.
  Qed.

  (* a slice within the limit is shredded without panic into exactly leader_out *)
  Theorem shred_ok : forall v s key, lenN key = CIPHER_KEY_BYTES ->
    lenN (payload_bytes s) <= max_data_size v -> shred_slice v s key = SOk (leader_out v s key).
  Proof.
    intros v s key Hk Hfit.
    assert (Hp : lenN (rs_input v s key) <= MAX_DATA_PER_SLICE).
    { rewrite rs_input_len by assumption. assert (M := max_data_size_overhead v). lia. }
    destruct (split_pad_shape _ Hp) as [S1 [S2 _]].
    assert (Hl : length (split_pad (rs_input v s key)) = N.to_nat DATA_SHREDS) by (unfold lenN in S1; lia).
    unfold Shredder.shred_slice, Shredder.shred_raw. rewrite rs_shred_ok by assumption.
    set (d := split_pad (rs_input v s key)) in *.
    replace (match v with
             | Regular | Aont => mkRaw d (rs_encode (coding_out v) d)
             | CodingOnly => mkRaw [] (r_coding (mkRaw d (rs_encode (coding_out v) d)))
             | Pets => mkRaw (removelast (r_data (mkRaw d (rs_encode (coding_out v) d))))
                             (r_coding (mkRaw d (rs_encode (coding_out v) d)))
             end) with (vraw v d) by (destruct v; reflexivity).
    assert (L64 := leaves_length v d _ Hl S2).
    destruct (vraw_shape v d _ Hl S2) as [_ [Ln [_ [Lc _]]]].
    unfold Shredder.output_shreds, leader_out. fold d.
    set (rw := vraw v d) in *. set (leaves := r_data rw ++ r_coding rw) in *.
    destruct leaves as [|l0 leaves'] eqn:El; [cbn in L64; unfold TOTAL_SHREDS in L64; lia|]. rewrite <- El in *.
    replace (lenN (r_data rw) + lenN (r_coding rw) =? TOTAL_SHREDS) with true.
    2:{ symmetry. apply N.eqb_eq. unfold leaves in L64. rewrite app_length in L64. unfold lenN. lia. }
    cbn [negb]. f_equal. unfold Shredder.fill_missing. fold leaves.
    set (lv := tree_fn leaves). set (nd := lenN (r_data rw)).
    set (out := mk_out 0 leaves nd (sl_header s) lv (sign (sl_header s) (root empty0 lv)) (root empty0 lv)).
    replace (repeat None (N.to_nat TOTAL_SHREDS)) with (mask (repeat false (length out)) out).
    2:{ rewrite mask_false. unfold out. rewrite mk_out_length, L64. reflexivity. }
    unfold out at 2. rewrite fill_from_mask.
    - apply present_map_Some.
    - rewrite repeat_length. unfold out. apply mk_out_length.
  Qed.

  (* ---------------------------------------------------------------- *)
  (* Merkle side: with the real tree builder every shred of the leader *)
  (* carries a proof that verifies under the signed root (uses C15)    *)
  (* ---------------------------------------------------------------- *)
  Hypothesis tree_real : forall l, tree_fn l = real_tree hash_leaf hash_pair l.
  Hypothesis proof_real : forall lv i, proof_fn lv i = real_proof hash_leaf hash_pair lv i.

  Lemma build_levels_length_eq : forall f h h' (l l' : list H), length l = length l' ->
    length (build_levels hash_pair empty0 f h l) = length (build_levels hash_pair empty0 f h' l').
  Proof.
    induction f as [|f IH]; intros h h' l l' E; [reflexivity|].
    destruct l as [|a [|b l]]; destruct l' as [|a' [|b' l']]; cbn in E; try lia; try reflexivity.
    cbn [build_levels length]. f_equal. apply IH.
    unfold Shredder.empty0. rewrite !(pair_up_length hash_leaf hash_pair [] H_eqb 0 H_eqb_spec). cbn [length]. lia.
  Qed.

  Lemma height_total_shreds : forall (l : list H), length l = N.to_nat TOTAL_SHREDS ->
    height (levels hash_pair empty0 l) = 6%nat.
  Proof.
    intros l E. unfold height, levels.
    rewrite (build_levels_length_eq (length l) 0 0 l (repeat empty0 (N.to_nat TOTAL_SHREDS))).
    - rewrite E. reflexivity.
    - rewrite repeat_length. exact E.
  Qed.

  Lemma mk_out_nth : forall raws i j nd hdr lv (sg : Sig) rt dflt, (j < length raws)%nat ->
    nth j (mk_out i raws nd hdr lv sg rt) dflt
    = mkShred (i + N.of_nat j <? nd) hdr (i + N.of_nat j) (nth j raws [])
              sg (proof_fn lv (i + N.of_nat j)) rt.
  Proof.
    induction raws as [|d raws IH]; intros i j nd hdr lv sg rt dflt Hj; [cbn in Hj; lia|].
    destruct j as [|j].
    - cbn [mk_out nth]. replace (i + N.of_nat 0) with i by lia. reflexivity.
    - cbn [mk_out nth]. rewrite IH by (cbn in Hj; lia).
      replace (i + 1 + N.of_nat j) with (i + N.of_nat (S j)) by lia. reflexivity.
  Qed.

  Definition shred_valid (max_height : nat) (hdr : header) (rt : H) (sh : shredT) : Prop :=
    check hash_pair H_eqb max_height (hash_leaf (sh_data sh)) (sh_index sh) rt (sh_proof sh) = true /\
    sh_root sh = rt /\ sh_sig sh = sign hdr rt /\ sh_header sh = hdr.

  (* every one of the TOTAL_SHREDS shreds the leader outputs: position = index, data before coding,
     Merkle proof valid under the root the leader signed together with the header *)
  Theorem leader_shreds_valid : forall v s key,
    lenN key = CIPHER_KEY_BYTES -> lenN (payload_bytes s) <= max_data_size v ->
    length (leader_out v s key) = N.to_nat TOTAL_SHREDS /\
    forall j dflt, (j < N.to_nat TOTAL_SHREDS)%nat ->
      let sh := nth j (leader_out v s key) dflt in
      sh_index sh = N.of_nat j /\ sh_is_data sh = (N.of_nat j <? data_out v) /\
      shred_valid (N.to_nat MAX_MERKLE_TREE_HEIGHT) (sl_header s) (leader_root v s key) sh.
  Proof.
    intros v s key Hk Hfit.
    assert (Hp : lenN (rs_input v s key) <= MAX_DATA_PER_SLICE).
    { rewrite rs_input_len by assumption. assert (M := max_data_size_overhead v). lia. }
    destruct (split_pad_shape _ Hp) as [S1 [S2 _]].
    set (d := split_pad (rs_input v s key)) in *.
    assert (Hl : length d = N.to_nat DATA_SHREDS) by (unfold lenN in S1; lia).
    destruct (vraw_shape v d _ Hl S2) as [_ [Ln _]].
    assert (L64 := leaves_length v d _ Hl S2).
    unfold leader_out, leader_root. fold d.
    set (rw := vraw v d) in *. set (leaves := r_data rw ++ r_coding rw) in *.
    split; [rewrite mk_out_length; exact L64|].
    intros j dflt Hj. cbv zeta. rewrite mk_out_nth by lia.
    cbn [sh_index sh_is_data sh_data sh_proof sh_root sh_sig sh_header].
    rewrite Ln. replace (0 + N.of_nat j) with (N.of_nat j) by lia.
    split; [reflexivity|]. split; [reflexivity|].
    unfold shred_valid. cbn [sh_index sh_is_data sh_data sh_proof sh_root sh_sig sh_header].
    split; [|repeat split].
    rewrite proof_real, tree_real. unfold Shredder.real_tree, Shredder.real_proof.
    set (hl := map hash_leaf leaves).
    assert (NE : hl <> []).
    { unfold hl. intro E. apply (f_equal (@length H)) in E. rewrite map_length, L64 in E. cbn in E. lia. }
    assert (Lh : length hl = N.to_nat TOTAL_SHREDS) by (unfold hl; rewrite map_length; exact L64).
    assert (HT := height_total_shreds hl Lh).
    assert (PC := proof_complete hash_leaf hash_pair [] H_eqb (N.to_nat MAX_MERKLE_TREE_HEIGHT) H_eqb_spec hl NE (N.of_nat j)).
    change (hash_leaf []) with empty0 in PC.
    rewrite HT in PC.
    rewrite (node_leaf hash_leaf hash_pair [] hl) in PC.
    rewrite Nat2N.id in PC. unfold hl in PC at 1.
    rewrite (map_nth hash_leaf leaves [] j) in PC.
    apply PC.
    - unfold TOTAL_SHREDS in Hj. cbn. lia.
    - cbv. lia.
  Qed.

  (* ... and therefore passes ValidatedShred::try_new as soon as the leader's signature verifies *)
  Lemma shred_valid_validate : forall mh hdr rt (sh : shredT) (verify : Sig -> header -> H -> bool),
    (forall h r, verify (sign h r) h r = true) -> shred_valid mh hdr rt sh ->
    validate hash_leaf hash_pair verify sh = true /\ derived_root hash_leaf hash_pair sh = sh_root sh.
  Proof.
    intros mh hdr rt sh verify Hv [C [R [S Hd]]].
    unfold validate, derived_root. unfold check in C.
    apply andb_true_iff in C. destruct C as [_ C3]. apply H_eqb_spec in C3.
    rewrite C3, S, Hd, R. split; [apply Hv|reflexivity].
  Qed.

  (* reed-solomon-simd is MDS: from any DATA_SHREDS of the DATA_SHREDS + nc shards of a codeword the
     decoder restores every original shard that was not supplied *)
  Hypothesis MDS : forall nc d pd pc sb,
    DATA_SHREDS <= nc <= TOTAL_SHREDS ->
    length d = N.to_nat DATA_SHREDS -> Forall (fun c => lenN c = sb) d -> N.odd sb = false -> 2 <= sb <= MAX_DATA_PER_SHRED ->
    length pd = N.to_nat DATA_SHREDS -> length pc = N.to_nat nc -> DATA_SHREDS <= count_true pd + count_true pc ->
    forall i, (i < N.to_nat DATA_SHREDS)%nat -> nth i pd true = false ->
      nth i (rs_recover nc (mask pd d) (mask pc (rs_encode nc d))) [] = nth i d [].
  (* AES-CTR keystream application is an involution *)
  Hypothesis ks_invol : forall k x, keystream k (keystream k x) = x.

  Lemma firstn_map' : forall (A C : Type) (f : A -> C) n l, firstn n (map f l) = map f (firstn n l).
  Proof. induction n; destruct l; cbn; try reflexivity. rewrite IHn. reflexivity. Qed.
  Lemma skipn_map' : forall (A C : Type) (f : A -> C) n l, skipn n (map f l) = map f (skipn n l).
  Proof. induction n; destruct l; cbn; try reflexivity. apply IHn. Qed.

  (* ReedSolomonCoder::deshred on any >= DATA_SHREDS of the leader's shreds *)
  Lemma rs_deshred_mask : forall v p m hdr lv sg rt,
    lenN p <= MAX_DATA_PER_SLICE -> length m = N.to_nat TOTAL_SHREDS -> DATA_SHREDS <= count_true m ->
    let d := split_pad p in
    let rw := vraw v d in
    rs_deshred (coding_out v) (data_out v) (mask m (mk_out 0 (r_data rw ++ r_coding rw) (data_out v) hdr lv sg rt))
    = DOk (p, mkRaw d (rs_encode (coding_out v) d)).
  Proof.
    intros v p m hdr lv sg rt Hp Hm Hc. cbv zeta.
    destruct (split_pad_shape _ Hp) as [S1 [S2 [S3 [S4 S5]]]].
    set (sb := shard_bytes_of (lenN p)) in *. set (d := split_pad p) in *.
    assert (Hl : length d = N.to_nat DATA_SHREDS) by (unfold lenN in S1; lia).
    destruct (vraw_shape v d sb Hl S2) as [D [Ln [C [Lc Fa]]]].
    assert (L64 := leaves_length v d sb Hl S2).
    destruct (variant_counts v) as [V1 [V2 V3]].
    set (rw := vraw v d) in *. set (leaves := r_data rw ++ r_coding rw) in *.
    set (out := mk_out 0 leaves (data_out v) hdr lv sg rt).
    assert (Lo : length out = length leaves) by apply mk_out_length.
    unfold Shredder.rs_deshred.
    rewrite present_mask_count by lia.
    replace (count_true m <? DATA_SHREDS) with false by lia.
    assert (Fp := present_mask_Forall _ _ m out (mk_out_Forall (fun c => lenN c = sb) leaves 0 (data_out v) hdr lv sg rt Fa)).
    assert (Np : lenN (present (mask m out)) = count_true m) by (apply present_mask_count; lia).
    destruct (present (mask m out)) as [|any rest] eqn:Ep.
    { unfold lenN in Np. cbn in Np. unfold DATA_SHREDS in Hc. lia. }
    inversion Fp as [|x l [Hsz _] _]; subst x l. rewrite Hsz.
    replace (sb =? 0) with false by lia. rewrite S4. cbn [orb].
    (* the shards handed to the decoder *)
    set (k := N.to_nat (data_out v)) in *.
    assert (Lrd : length (r_data rw) = k) by (unfold lenN in Ln; lia).
    assert (SI : shard_inputs (data_out v) (mask m out)
                 = (mask (firstn k m ++ repeat false (N.to_nat DATA_SHREDS - k)) d,
                    mask (skipn k m) (rs_encode (coding_out v) d))).
    { unfold shard_inputs, takeN, dropN. fold k. f_equal.
      - rewrite mask_firstn, mask_map, <- firstn_map'. unfold out. rewrite mk_out_data.
        unfold leaves. rewrite firstn_app_len by exact Lrd. rewrite D. fold k.
        rewrite <- (firstn_skipn k d) at 2.
        rewrite mask_app.
        + f_equal. replace (N.to_nat (DATA_SHREDS - data_out v)) with (length (skipn k d)).
          * replace (N.to_nat DATA_SHREDS - k)%nat with (length (skipn k d)); [symmetry; apply mask_false|].
            rewrite skipn_length. lia.
          * rewrite skipn_length. lia.
        + rewrite !firstn_length. lia.
      - rewrite mask_skipn, mask_map, <- skipn_map'. unfold out. rewrite mk_out_data.
        unfold leaves. rewrite skipn_app_len by exact Lrd. rewrite C. reflexivity. }
    rewrite SI.
    set (pd := firstn k m ++ repeat false (N.to_nat DATA_SHREDS - k)).
    set (pc := skipn k m).
    assert (Hmerge : merge 0 (mask pd d) (rs_recover (coding_out v) (mask pd d) (mask pc (rs_encode (coding_out v) d))) = d).
    { apply merge_mask.
      - unfold pd. rewrite app_length, firstn_length, repeat_length. lia.
      - intros i Hi Hn. cbn [Nat.add].
        apply (MDS (coding_out v) d pd pc sb); try assumption; try lia.
        + unfold pd. rewrite app_length, firstn_length, repeat_length. lia.
        + unfold pc. rewrite skipn_length. lia.
        + unfold pd, pc. rewrite count_true_app, count_true_false.
          rewrite <- (firstn_skipn k m) in Hc. rewrite count_true_app in Hc. lia. }
    rewrite Hmerge.
    rewrite (sizes_ok_uniform sb) by (try assumption; rewrite S1; unfold DATA_SHREDS, MAX_DATA_PER_SHRED, MAX_DATA_PER_SLICE_AFTER_PADDING in *; lia).
    cbn [negb]. unfold d at 1. rewrite pad_roundtrip by assumption. reflexivity.
  Qed.

  Lemma decrypt_pets : forall key pb, lenN key = CIPHER_KEY_BYTES ->
    decrypt_payload keystream (keystream key pb ++ key) (fun k _ => k) = DOk pb.
  Proof.
    intros key pb Hk. unfold decrypt_payload. rewrite lenN_app.
    replace (lenN (keystream key pb) + lenN key <? CIPHER_KEY_BYTES) with false by lia.
    replace (lenN (keystream key pb) + lenN key - CIPHER_KEY_BYTES) with (lenN (keystream key pb)) by lia.
    unfold dropN, takeN, lenN. rewrite Nat2N.id.
    rewrite skipn_app_len, firstn_app_len by reflexivity. rewrite ks_invol. reflexivity.
  Qed.

  Lemma decrypt_aont : forall key pb, lenN key = CIPHER_KEY_BYTES ->
    let ct := keystream key pb in
    decrypt_payload keystream (ct ++ xor_zip bxor key (hash ct)) (fun k c => xor_into bxor k (hash c)) = DOk pb.
  Proof.
    intros key pb Hk ct. unfold decrypt_payload. rewrite lenN_app.
    assert (Lx : lenN (xor_zip bxor key (hash ct)) = CIPHER_KEY_BYTES).
    { unfold lenN in *. rewrite xor_zip_length, hash_len. unfold CIPHER_KEY_BYTES in *. lia. }
    replace (lenN ct + lenN (xor_zip bxor key (hash ct)) <? CIPHER_KEY_BYTES) with false by lia.
    replace (lenN ct + lenN (xor_zip bxor key (hash ct)) - CIPHER_KEY_BYTES) with (lenN ct) by lia.
    unfold dropN, takeN. unfold lenN at 1 2 3. rewrite Nat2N.id.
    rewrite skipn_app_len, firstn_app_len by reflexivity.
    rewrite xor_into_zip.
    - unfold ct. rewrite ks_invol. reflexivity.
    - rewrite hash_len. unfold lenN, CIPHER_KEY_BYTES in Hk. lia.
  Qed.

  Lemma deshred_validated_mask : forall v s key m hdr lv sg rt,
    lenN key = CIPHER_KEY_BYTES -> lenN (payload_bytes s) <= max_data_size v ->
    length m = N.to_nat TOTAL_SHREDS -> DATA_SHREDS <= count_true m ->
    let rw := vraw v (split_pad (rs_input v s key)) in
    deshred_validated v (mask m (mk_out 0 (r_data rw ++ r_coding rw) (data_out v) hdr lv sg rt))
    = DOk (payload_bytes s, rw).
  Proof.
    intros v s key m hdr lv sg rt Hk Hfit Hm Hc. cbv zeta.
    assert (Hp : lenN (rs_input v s key) <= MAX_DATA_PER_SLICE).
    { rewrite rs_input_len by assumption. assert (M := max_data_size_overhead v). lia. }
    unfold Shredder.deshred_validated. rewrite rs_deshred_mask by assumption.
    destruct v; cbn [Shredder.rs_input vraw r_data r_coding].
    - reflexivity.
    - reflexivity.
    - rewrite decrypt_aont by assumption. reflexivity.
    - rewrite decrypt_pets by assumption. reflexivity.
  Qed.

  (* ---------------------------------------------------------------- *)
  (* the reconstruction theorem                                        *)
  (* ---------------------------------------------------------------- *)
  Theorem any32_reconstructs : forall v s key m,
    slice_wf s -> lenN key = CIPHER_KEY_BYTES -> lenN (payload_bytes s) <= max_data_size v ->
    length m = N.to_nat TOTAL_SHREDS -> DATA_SHREDS <= count_true m ->
    deshred v (mask m (leader_out v s key))
    = (DOk (mkRSlice s (leader_root v s key)), map Some (leader_out v s key)).
  Proof.
    intros v s key m Hwf Hk Hfit Hm Hc.
    assert (Hp : lenN (rs_input v s key) <= MAX_DATA_PER_SLICE).
    { rewrite rs_input_len by assumption. assert (M := max_data_size_overhead v). lia. }
    destruct (split_pad_shape _ Hp) as [S1 [S2 [S3 [S4 S5]]]].
    set (sb := shard_bytes_of (lenN (rs_input v s key))) in *.
    assert (Hl : length (split_pad (rs_input v s key)) = N.to_nat DATA_SHREDS) by (unfold lenN in S1; lia).
    destruct (vraw_shape v _ sb Hl S2) as [D [Ln [C [Lc Fa]]]].
    assert (L64 := leaves_length v _ sb Hl S2).
    unfold leader_out, leader_root.
    set (rw := vraw v (split_pad (rs_input v s key))) in *.
    set (leaves := r_data rw ++ r_coding rw) in *.
    set (lv := tree_fn leaves). set (rt := root empty0 lv). set (hdr := sl_header s). set (sg := sign hdr rt).
    rewrite Ln.
    set (out := mk_out 0 leaves (data_out v) hdr lv sg rt).
    assert (Lo : length out = length leaves) by apply mk_out_length.
    assert (Fp := present_mask_Forall _ _ m out (mk_out_Forall (fun c => lenN c = sb) leaves 0 (data_out v) hdr lv sg rt Fa)).
    assert (Np : lenN (present (mask m out)) = count_true m) by (apply present_mask_count; lia).
    unfold Shredder.deshred.
    rewrite forallb_is_none_mask by (unfold DATA_SHREDS in Hc; lia).
    (* layout *)
    assert (VL : validate_layout (data_out v) (mask m out) = LOk).
    { unfold validate_layout.
      destruct (present (mask m out)) as [|any rest] eqn:Ep.
      { unfold lenN in Np. cbn in Np. unfold DATA_SHREDS in Hc. lia. }
      inversion Fp as [|x l [Hsz _] Fr]; subst x l. rewrite Hsz.
      replace (sb =? 0) with false by lia. rewrite S4. cbn [orb].
      replace (forallb (fun s0 : shredT => lenN (sh_data s0) =? sb) (any :: rest)) with true.
      - cbn [negb]. apply check_types_mask.
      - symmetry. apply forallb_forall. intros x Hx. rewrite Forall_forall in Fp.
        destruct (Fp x Hx) as [Hx1 _]. rewrite Hx1. apply N.eqb_refl. }
    rewrite VL.
    unfold out, leaves, rw. rewrite deshred_validated_mask by assumption.
    fold rw. fold leaves. fold lv. fold rt. fold hdr. fold sg. fold out.
    destruct (present (mask m out)) as [|any rest] eqn:Ep.
    { unfold lenN in Np. cbn in Np. unfold DATA_SHREDS in Hc. lia. }
    inversion Fp as [|x l [_ [Hh [Hs Hr]]] _]; subst x l.
    rewrite list_case_nonempty by (rewrite L64; unfold TOTAL_SHREDS; lia).
    fold lv. fold rt. rewrite Hr.
    replace (H_eqb rt rt) with true by (symmetry; apply H_eqb_spec; reflexivity). cbn [negb].
    rewrite decode_encode; [|assumption|].
    2:{ assert (M := max_data_size_overhead v). lia. }
    replace (lenN (r_data rw) + lenN (r_coding rw) =? TOTAL_SHREDS) with true.
    2:{ symmetry. apply N.eqb_eq. unfold leaves in L64. rewrite app_length in L64. unfold lenN. lia. }
    cbn [negb]. rewrite Hh, Hs. f_equal.
    - f_equal. unfold hdr. destruct s; reflexivity.
    - unfold Shredder.fill_missing. fold leaves. rewrite Ln. fold rt. unfold out. apply fill_from_mask. lia.
  Qed.

End ShredderProofs.

(* ------------------------------------------------------------------ *)
(* the model as it is RUN (memoised tree, fast_proof) equals the model  *)
(* the theorems talk about (real_tree, real_proof)                      *)
(* ------------------------------------------------------------------ *)
Section RunEquivalence.
  Context {B H Sig : Type}.
  Variable zero marker : B.
  Variable beqb : B -> B -> bool.
  Variable bxor : B -> B -> B.
  Variable b_of_N : N -> B.
  Variable N_of_b : B -> N.
  Variable rs_encode : N -> list (list B) -> list (list B).
  Variable rs_recover : N -> list (option (list B)) -> list (option (list B)) -> list (list B).
  Variable keystream : list B -> list B -> list B.
  Variable hash : list B -> list B.
  Variable hash_leaf : list B -> H.
  Variable hash_pair : H -> H -> H.
  Variable H_eqb : H -> H -> bool.
  Variable sign : header -> H -> Sig.
  Variable tree_fn tree_fn' : list (list B) -> list (list H).
  Variable proof_fn proof_fn' : list (list H) -> N -> list H.
  Hypothesis tree_ext : forall l, tree_fn l = tree_fn' l.
  Hypothesis proof_ext : forall lv i, proof_fn lv i = proof_fn' lv i.

  Lemma fast_proof_from_eq : forall (lv : list (list H)) h i,
    fast_proof_from hash_leaf hash_pair lv h i = proof_from hash_pair (empty0 hash_leaf) lv h i.
  Proof.
    induction lv as [|l rest IH]; intros h i; [reflexivity|].
    destruct rest as [|l2 rest]; [reflexivity|].
    cbn [fast_proof_from proof_from]. f_equal.
    - apply nth_error_default.
    - apply IH.
  Qed.
  Lemma fast_proof_eq : forall (lv : list (list H)) i,
    fast_proof hash_leaf hash_pair lv i = real_proof hash_leaf hash_pair lv i.
  Proof. intros. apply fast_proof_from_eq. Qed.

  Lemma fill_from_ext : forall raws i (arr : list (option (@shred B H Sig))) nd hdr lv sg rt,
    fill_from proof_fn i raws arr nd hdr lv sg rt = fill_from proof_fn' i raws arr nd hdr lv sg rt.
  Proof.
    induction raws as [|d raws IH]; intros i arr nd hdr lv sg rt; [destruct arr; reflexivity|].
    destruct arr as [|o arr]; [reflexivity|]. cbn [fill_from]. rewrite IH, proof_ext. reflexivity.
  Qed.

  Lemma deshred_ext : forall v (arr : list (option (@shred B H Sig))),
    deshred zero marker beqb bxor N_of_b rs_encode rs_recover keystream hash hash_leaf H_eqb tree_fn proof_fn v arr
    = deshred zero marker beqb bxor N_of_b rs_encode rs_recover keystream hash hash_leaf H_eqb tree_fn' proof_fn' v arr.
  Proof.
    intros v arr. unfold deshred.
    destruct (forallb is_none arr); [reflexivity|].
    destruct (validate_layout (data_out v) arr); try reflexivity.
    destruct (deshred_validated zero marker beqb bxor rs_encode rs_recover keystream hash v arr) as [[pb rw]|e|]; try reflexivity.
    destruct (present arr) as [|any rest]; [reflexivity|].
    destruct (r_data rw ++ r_coding rw) eqn:El; [reflexivity|]. rewrite <- El.
    rewrite tree_ext. unfold fill_missing. rewrite fill_from_ext. reflexivity.
  Qed.

  Lemma shred_slice_ext : forall v (s : @slice B) key,
    shred_slice zero marker bxor b_of_N rs_encode keystream hash hash_leaf sign tree_fn proof_fn v s key
    = shred_slice zero marker bxor b_of_N rs_encode keystream hash hash_leaf sign tree_fn' proof_fn' v s key.
  Proof.
    intros v s key. unfold shred_slice.
    destruct (shred_raw zero marker bxor b_of_N rs_encode keystream hash v s key) as [rw| |]; try reflexivity.
    unfold output_shreds.
    destruct (r_data rw ++ r_coding rw) eqn:El; [reflexivity|]. rewrite <- El.
    rewrite tree_ext. unfold fill_missing. rewrite fill_from_ext. reflexivity.
  Qed.
End RunEquivalence.

(* ------------------------------------------------------------------ *)
(* the executable byte type (primitive ints) meets the byte premises    *)
(* ------------------------------------------------------------------ *)
From Coq Require Import Uint63.
From AG Require Import Lib.Sha256 Lib.Hex Model.MerkleSha Model.ShredderSha.

Lemma int_beqb_spec : forall a b : int, Uint63.eqb a b = true <-> a = b.
Proof. exact Uint63.eqb_spec. Qed.
Lemma int_marker_nonzero : i_marker <> i_zero.
Proof. intro E. apply (f_equal Uint63.to_Z) in E. vm_compute in E. discriminate. Qed.
Lemma int_byte_roundtrip : forall n, n < 256 -> N_of_int (int_of_N n) = n.
Proof.
  intros n Hn. unfold N_of_int, int_of_N. rewrite Uint63.of_Z_spec.
  rewrite Z.mod_small.
  - apply N2Z.id.
  - split; [lia|]. assert (256 <= Uint63.wB)%Z by (vm_compute; discriminate). lia.
Qed.
Lemma int_lxor_invol : forall a b : int, PrimInt63.lxor (PrimInt63.lxor a b) b = a.
Proof.
  intros a b. apply Uint63.bit_ext. intro n. rewrite !Uint63.lxor_spec.
  destruct (Uint63.bit a n), (Uint63.bit b n); reflexivity.
Qed.
Lemma bytes_eqb_spec : forall a b : list int, bytes_eqb a b = true <-> a = b.
Proof.
  induction a as [|x a IH]; intros b; destruct b as [|y b]; cbn [bytes_eqb]; split; intro E; try reflexivity; try discriminate.
  - apply andb_true_iff in E. destruct E as [E1 E2]. apply Uint63.eqb_spec in E1. apply IH in E2. subst. reflexivity.
  - inversion E; subst. apply andb_true_iff. split; [apply Uint63.eqb_refl|apply IH; reflexivity].
Qed.
Lemma sha256_length : forall m, length (sha256 m) = 32%nat.
Proof. intros m. unfold sha256, word_bytes. rewrite !app_length. reflexivity. Qed.
