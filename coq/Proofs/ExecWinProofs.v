(* chunk_at's u16 window arithmetic, checked exhaustively over its domain (2 bytes x 8 bit offsets). *)
From Coq Require Import List NArith Bool Lia ZifyBool ZifyNat ZifyN.
From AG Require Import Model.ExecState.
Import ListNotations.
Open Scope N_scope.

(* ---------- the window formula, checked exhaustively over its (small) domain ---------- *)
Definition Nrange (n : nat) : list N := map N.of_nat (seq 0 n).
Lemma Nrange_in : forall n x, x < N.of_nat n -> In x (Nrange n).
Proof.
  intros n x Hx. unfold Nrange. apply in_map_iff. exists (N.to_nat x). split; [lia|].
  apply in_seq. lia.
Qed.
Definition win_spec (b0 lo r : N) : N := ((b0 * 256 + lo) / 2 ^ (11 - r)) mod 32.
Lemma win_chunk_sweep :
  forallb (fun b0 => forallb (fun lo => forallb (fun r => win_chunk b0 lo r =? win_spec b0 lo r)
    (Nrange 8)) (Nrange 256)) (Nrange 256) = true.
Proof. vm_compute. reflexivity. Qed.
Lemma win_chunk_spec : forall b0 lo r, b0 < 256 -> lo < 256 -> r < 8 -> win_chunk b0 lo r = win_spec b0 lo r.
Proof.
  intros b0 lo r H0 H1 H2. pose proof win_chunk_sweep as S.
  rewrite forallb_forall in S. specialize (S b0 (Nrange_in 256 b0 H0)).
  rewrite forallb_forall in S. specialize (S lo (Nrange_in 256 lo H1)).
  rewrite forallb_forall in S. specialize (S r (Nrange_in 8 r H2)).
  apply N.eqb_eq in S. exact S.
Qed.

