(* C10: the leader's slice builder (Model/Producer.v) never underflows on transactions within the
   documented limit, and exactly which streams make it panic. *)
From Coq Require Import List NArith Bool Lia ZifyBool ZifyN.
From AG Require Import Gen.Params Model.Producer.
Import ListNotations.
Open Scope N_scope.

Lemma buffer_space_val : forall hp, buffer_space hp + parent_len hp + 8 = MAX_DATA_PER_SLICE.
Proof. intros [|]; vm_compute; reflexivity. Qed.
Lemma buffer_space_room : forall hp, MAX_TRANSACTION_SIZE + 8 + 8 <= buffer_space hp.
Proof. intros [|]; vm_compute; discriminate. Qed.

(* loop invariant: at the head of the loop a maximal transaction still fits *)
Lemma produce_safe_gen : forall space txs len used,
  MAX_TRANSACTION_SIZE + 8 <= space - len -> len <= space ->
  Forall (fun p => p <= MAX_TRANSACTION_SIZE) txs ->
  match produce space len used txs with
  | PPanic => False
  | PFull l _ | PTimeout l => l <= space
  end.
Proof.
  intros space txs. induction txs as [|p rest IH]; intros len used Hroom Hle Hall; cbn [produce].
  - exact Hle.
  - inversion Hall as [|? ? Hp Hrest]; subst. unfold tx_encoded.
    destruct (space <? len + (8 + p)) eqn:E1; [lia|].
    destruct (space - (len + (8 + p)) <? MAX_TRANSACTION_SIZE + 8) eqn:E2; [lia|].
    apply IH; [lia|lia|exact Hrest].
Qed.

Theorem produce_slice_safe : forall hp txs,
  Forall (fun p => p <= MAX_TRANSACTION_SIZE) txs ->
  match produce_slice hp txs with
  | PPanic => False
  | PFull l _ | PTimeout l => l <= buffer_space hp /\ shred_accepts hp l = true
  end.
Proof.
  intros hp txs Hall. unfold produce_slice.
  pose proof (buffer_space_room hp) as Hr. pose proof (buffer_space_val hp) as Hv.
  pose proof (produce_safe_gen (buffer_space hp) txs 8 0) as H.
  assert (H1 : MAX_TRANSACTION_SIZE + 8 <= buffer_space hp - 8) by lia.
  assert (H2 : 8 <= buffer_space hp) by lia.
  specialize (H H1 H2 Hall).
  destruct (produce (buffer_space hp) 8 0 txs); [exact H| |];
    (split; [exact H|unfold shred_accepts, slice_payload_len; lia]).
Qed.

(* conversely: a panic needs a transaction above the limit *)
Theorem produce_slice_panic_needs_oversize : forall hp txs,
  produce_slice hp txs = PPanic -> Exists (fun p => MAX_TRANSACTION_SIZE < p) txs.
Proof.
  intros hp txs H.
  assert (D : Forall (fun p => p <= MAX_TRANSACTION_SIZE) txs \/ Exists (fun p => MAX_TRANSACTION_SIZE < p) txs).
  { clear H. induction txs as [|p rest IH]; [left; constructor|].
    destruct (p <=? MAX_TRANSACTION_SIZE) eqn:E.
    - destruct IH as [IH|IH]; [left; constructor; [lia|exact IH]|right; apply Exists_cons_tl; exact IH].
    - right. apply Exists_cons_hd. lia. }
  destruct D as [Hall|Hex]; [|exact Hex].
  pose proof (produce_slice_safe hp txs Hall) as S. rewrite H in S. destruct S.
Qed.

(* what the panic is, exactly: the buffer grew beyond the reserved space *)
Definition total (l : list N) : N := fold_right (fun q a => tx_encoded q + a) 0 l.
Lemma total_cons p l : total (p :: l) = tx_encoded p + total l. Proof. reflexivity. Qed.
Lemma total_nil : total [] = 0. Proof. reflexivity. Qed.

Theorem produce_panics_iff : forall space txs len used,
  produce space len used txs = PPanic <->
  exists pre p post, txs = pre ++ p :: post /\
    space < len + total pre + tx_encoded p /\
    (forall k, (k <= length pre)%nat -> k <> O ->
       MAX_TRANSACTION_SIZE + 8 <= space - (len + total (firstn k pre)) /\ len + total (firstn k pre) <= space).
Proof.
  intros space txs. induction txs as [|p rest IH]; intros len used; cbn [produce].
  - split; [discriminate|]. intros [pre [q [post [E _]]]]. destruct pre; discriminate.
  - split.
    + destruct (space <? len + tx_encoded p) eqn:E1.
      * intros _. exists [], p, rest. split; [reflexivity|]. rewrite total_nil. split; [lia|].
        intros k Hk Hn. cbn [length] in Hk. lia.
      * destruct (space - (len + tx_encoded p) <? MAX_TRANSACTION_SIZE + 8) eqn:E2; [discriminate|].
        intros H. apply IH in H. destruct H as [pre [q [post [E [Hov Hpre]]]]].
        exists (p :: pre), q, post. subst rest. split; [reflexivity|]. rewrite total_cons. split; [lia|].
        intros k Hk Hn. destruct k as [|k]; [congruence|]. cbn [firstn]. rewrite total_cons.
        destruct k as [|k].
        -- cbn [firstn]. rewrite total_nil. lia.
        -- cbn [length] in Hk. specialize (Hpre (S k) ltac:(lia) ltac:(discriminate)). lia.
    + intros [pre [q [post [E [Hov Hpre]]]]]. destruct pre as [|p' pre].
      * cbn [app] in E. injection E as -> ->. rewrite total_nil in Hov.
        destruct (space <? len + tx_encoded q) eqn:E1; [reflexivity|lia].
      * cbn [app] in E. injection E as -> ->. rename p' into p. rewrite total_cons in Hov.
        pose proof (Hpre 1%nat ltac:(cbn [length]; lia) ltac:(discriminate)) as H1.
        cbn [firstn] in H1. rewrite total_cons, total_nil in H1.
        destruct (space <? len + tx_encoded p) eqn:E1; [lia|].
        destruct (space - (len + tx_encoded p) <? MAX_TRANSACTION_SIZE + 8) eqn:E2; [lia|].
        apply IH. exists pre, q, post. split; [reflexivity|]. split; [lia|].
        intros k Hk Hn. specialize (Hpre (S k) ltac:(cbn [length]; lia) ltac:(discriminate)).
        cbn [firstn] in Hpre. rewrite total_cons in Hpre. lia.
Qed.

(* ---- the defect: transactions the wire format admits (payload up to MTU - 8 bytes) crash the builder ---- *)
Definition oversize_witness : list N := repeat 512 61 ++ [1100].
Theorem produce_slice_oversize_refuted :
  Forall (fun p => tx_encoded p <= MTU_BYTES) oversize_witness /\
  produce_slice false oversize_witness = PPanic /\ produce_slice true oversize_witness = PPanic.
Proof.
  split; [|split; vm_compute; reflexivity].
  unfold oversize_witness. apply Forall_app. split.
  - apply Forall_forall. intros x Hx. apply repeat_spec in Hx. subst. vm_compute. discriminate.
  - constructor; [vm_compute; discriminate|constructor].
Qed.
(* a flood of maximal datagrams panics every slice that receives 22 of them, whatever came before is irrelevant:
   from a fresh buffer, with or without a parent field *)
Theorem produce_slice_flood_refuted : forall hp, produce_slice hp (repeat (MTU_BYTES - 8) 22) = PPanic.
Proof. intros [|]; vm_compute; reflexivity. Qed.

(* ---- the proposed repair (drop transactions above the limit) is total ---- *)
Lemma produce_fixed_safe_gen : forall space txs len used,
  MAX_TRANSACTION_SIZE + 8 <= space - len -> len <= space ->
  match produce_fixed space len used txs with
  | PPanic => False
  | PFull l _ | PTimeout l => l <= space
  end.
Proof.
  intros space txs. induction txs as [|p rest IH]; intros len used Hroom Hle; cbn [produce_fixed].
  - exact Hle.
  - destruct (MAX_TRANSACTION_SIZE <? p) eqn:E0; [apply IH; assumption|]. unfold tx_encoded.
    destruct (space <? len + (8 + p)) eqn:E1; [lia|].
    destruct (space - (len + (8 + p)) <? MAX_TRANSACTION_SIZE + 8) eqn:E2; [lia|].
    apply IH; lia.
Qed.
Theorem produce_slice_fixed_total : forall hp txs,
  match produce_slice_fixed hp txs with
  | PPanic => False
  | PFull l _ | PTimeout l => l <= buffer_space hp /\ shred_accepts hp l = true
  end.
Proof.
  intros hp txs. unfold produce_slice_fixed.
  pose proof (buffer_space_room hp) as Hr. pose proof (buffer_space_val hp) as Hv.
  pose proof (produce_fixed_safe_gen (buffer_space hp) txs 8 0 ltac:(lia) ltac:(lia)) as H.
  destruct (produce_fixed (buffer_space hp) 8 0 txs); [exact H| |];
    (split; [exact H|unfold shred_accepts, slice_payload_len; lia]).
Qed.

(* ---- optimistic handover ---- *)
Theorem apply_parent_ready_panics_iff : forall o r,
  apply_parent_ready o r = AprPanic <-> (fst r = fst o /\ snd r <> snd o).
Proof.
  intros [os oh] [rs rh]. unfold apply_parent_ready. cbn [fst snd].
  destruct (rh =? oh) eqn:E1; [split; [discriminate|intros [_ H]; apply N.eqb_eq in E1; congruence]|].
  destruct (rs =? os) eqn:E2.
  - split; [intros _; split; [apply N.eqb_eq, E2|apply N.eqb_neq, E1]|reflexivity].
  - split; [discriminate|intros [H _]; apply N.eqb_neq in E2; congruence].
Qed.
(* two certified blocks in the last slot of the previous window (an equivocating leader): the block the
   next leader holds and the one the ParentReady names differ only in their hash *)
Theorem apply_parent_ready_equivocation_refuted : apply_parent_ready (11, 1) (11, 2) = AprPanic.
Proof. reflexivity. Qed.
Theorem apply_parent_ready_fixed_total : forall o r, apply_parent_ready_fixed o r <> AprPanic.
Proof. intros o r. unfold apply_parent_ready_fixed. destruct (_ =? _); discriminate. Qed.
