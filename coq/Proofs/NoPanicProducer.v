(* C10: the leader's slice builder (Model/Producer.v).
   Current tree: never panics for ANY transaction stream, its slice always fits MAX_DATA_PER_SLICE, and what it
   contains is exactly the in-limit transactions among those consumed; apply_parent_ready is total.
   Pinned tree: safe only for transactions within the limit; exactly which streams made it panic; witnesses. *)
From Coq Require Import List NArith Bool Lia ZifyBool ZifyN ZifyNat.
From AG Require Import Gen.Params Model.Producer.
Import ListNotations.
Open Scope N_scope.

Lemma buffer_space_val : forall hp, buffer_space hp + parent_len hp + 8 = MAX_DATA_PER_SLICE.
Proof. intros [|]; vm_compute; reflexivity. Qed.
Lemma buffer_space_room : forall hp, MAX_TRANSACTION_SIZE + 8 + 8 <= buffer_space hp.
Proof. intros [|]; vm_compute; discriminate. Qed.

Definition total (l : list N) : N := fold_right (fun q a => tx_encoded q + a) 0 l.
Lemma total_cons p l : total (p :: l) = tx_encoded p + total l. Proof. reflexivity. Qed.
Lemma total_nil : total [] = 0. Proof. reflexivity. Qed.
Definition in_limit (p : N) : bool := p <=? MAX_TRANSACTION_SIZE.

Lemma filter_in p l : p <= MAX_TRANSACTION_SIZE -> filter in_limit (p :: l) = p :: filter in_limit l.
Proof. intros H. cbn [filter]. unfold in_limit at 1. assert ((p <=? MAX_TRANSACTION_SIZE) = true) as -> by lia. reflexivity. Qed.
Lemma filter_out p l : MAX_TRANSACTION_SIZE < p -> filter in_limit (p :: l) = filter in_limit l.
Proof. intros H. cbn [filter]. unfold in_limit at 1. assert ((p <=? MAX_TRANSACTION_SIZE) = false) as -> by lia. reflexivity. Qed.

(* ---------------- current tree: total, and what the slice contains ---------------- *)
(* loop invariant: at the head of the loop a maximal in-limit transaction still fits *)
Lemma produce_spec_gen : forall space txs len count consumed,
  MAX_TRANSACTION_SIZE + 8 <= space - len -> len <= space ->
  exists (full : bool) (j : nat),
    produce_gen true space len count consumed txs =
      (if full then PFull else PTimeout)
        (len + total (filter in_limit (firstn j txs)))
        (count + N.of_nat (length (filter in_limit (firstn j txs))))
        (consumed + N.of_nat j) /\
    (j <= length txs)%nat /\ (full = false -> j = length txs) /\
    len + total (filter in_limit (firstn j txs)) <= space /\
    (full = true -> space - (len + total (filter in_limit (firstn j txs))) < MAX_TRANSACTION_SIZE + 8).
Proof.
  intros space txs. induction txs as [|p rest IH]; intros len count consumed Hroom Hle; cbn [produce_gen].
  - exists false, O. cbn [firstn filter length total fold_right]. rewrite !N.add_0_r. repeat split; try lia; try discriminate.
  - cbn [andb]. destruct (MAX_TRANSACTION_SIZE <? p) eqn:E0.
    + destruct (IH len count (consumed + 1) Hroom Hle) as [full [j [E [Hj [Hf [Hs Hr]]]]]].
      exists full, (S j). cbn [firstn]. rewrite filter_out by lia.
      rewrite E. split; [destruct full; f_equal; lia|]. cbn [length]. repeat split; try lia; auto; try (intros H; specialize (Hf H); lia).
    + unfold tx_encoded. destruct (space <? len + (8 + p)) eqn:E1; [lia|].
      destruct (space - (len + (8 + p)) <? MAX_TRANSACTION_SIZE + 8) eqn:E2.
      * exists true, 1%nat. cbn [firstn]. rewrite filter_in by lia. cbn [filter length]. rewrite total_cons, total_nil. unfold tx_encoded.
        split; [f_equal; lia|]. repeat split; try lia; try discriminate.
      * destruct (IH (len + (8 + p)) (count + 1) (consumed + 1) ltac:(lia) ltac:(lia)) as [full [j [E [Hj [Hf [Hs Hr]]]]]].
        exists full, (S j). cbn [firstn]. rewrite filter_in by lia. cbn [length]. rewrite total_cons. unfold tx_encoded.
        rewrite E. split; [destruct full; f_equal; lia|].
        repeat split; try lia; try (intros H; specialize (Hf H); lia); try (intros H; specialize (Hr H); lia).
Qed.

(* never a panic, for ANY stream of transactions (payloads of any length), with or without a parent;
   the buffer stays within the reserved space and the slice within the shredder's limit *)
Theorem produce_slice_never_panics : forall hp txs,
  match produce_slice hp txs with
  | PPanic => False
  | PFull l _ _ | PTimeout l _ _ => l <= buffer_space hp /\ slice_payload_len hp l <= MAX_DATA_PER_SLICE /\ shred_accepts hp l = true
  end.
Proof.
  intros hp txs. unfold produce_slice, produce_slice_gen.
  pose proof (buffer_space_room hp) as Hr. pose proof (buffer_space_val hp) as Hv.
  destruct (produce_spec_gen (buffer_space hp) txs 8 0 0 ltac:(lia) ltac:(lia)) as [full [j [E [_ [_ [Hs _]]]]]].
  rewrite E. destruct full; unfold shred_accepts, slice_payload_len; (split; [exact Hs|split; lia]).
Qed.

(* what it built: the in-limit transactions among the consumed ones, in order; the count is their number; the
   loop stops exactly when fewer than MAX_TRANSACTION_SIZE + 8 bytes are left, otherwise it consumes everything *)
Theorem produce_slice_contents : forall hp txs,
  exists (full : bool) (k : N),
    produce_slice hp txs = (if full then PFull else PTimeout) (8 + total (accepted k txs)) (N.of_nat (length (accepted k txs))) k /\
    k <= N.of_nat (length txs) /\ (full = false -> k = N.of_nat (length txs)) /\
    (full = true -> buffer_space hp - (8 + total (accepted k txs)) < MAX_TRANSACTION_SIZE + 8).
Proof.
  intros hp txs. unfold produce_slice, produce_slice_gen.
  pose proof (buffer_space_room hp) as Hr.
  destruct (produce_spec_gen (buffer_space hp) txs 8 0 0 ltac:(lia) ltac:(lia)) as [full [j [E [Hj [Hf [_ Hfull]]]]]].
  exists full, (N.of_nat j). unfold accepted. rewrite Nat2N.id. fold in_limit.
  change (fun p : N => p <=? MAX_TRANSACTION_SIZE) with in_limit.
  rewrite E. split; [reflexivity|]. split; [lia|]. split; [intros H; rewrite (Hf H); reflexivity|exact Hfull].
Qed.

(* ---------------- pinned tree ---------------- *)
Lemma produce_pinned_safe_gen : forall space txs len count consumed,
  MAX_TRANSACTION_SIZE + 8 <= space - len -> len <= space ->
  Forall (fun p => p <= MAX_TRANSACTION_SIZE) txs ->
  match produce_gen false space len count consumed txs with
  | PPanic => False
  | PFull l _ _ | PTimeout l _ _ => l <= space
  end.
Proof.
  intros space txs. induction txs as [|p rest IH]; intros len count consumed Hroom Hle Hall; cbn [produce_gen andb].
  - exact Hle.
  - inversion Hall as [|? ? Hp Hrest]; subst. unfold tx_encoded.
    destruct (space <? len + (8 + p)) eqn:E1; [lia|].
    destruct (space - (len + (8 + p)) <? MAX_TRANSACTION_SIZE + 8) eqn:E2; [lia|].
    apply IH; [lia|lia|exact Hrest].
Qed.

Theorem produce_slice_pinned_safe : forall hp txs,
  Forall (fun p => p <= MAX_TRANSACTION_SIZE) txs ->
  match produce_slice_pinned hp txs with
  | PPanic => False
  | PFull l _ _ | PTimeout l _ _ => l <= buffer_space hp /\ shred_accepts hp l = true
  end.
Proof.
  intros hp txs Hall. unfold produce_slice_pinned, produce_slice_gen.
  pose proof (buffer_space_room hp) as Hr. pose proof (buffer_space_val hp) as Hv.
  pose proof (produce_pinned_safe_gen (buffer_space hp) txs 8 0 0 ltac:(lia) ltac:(lia) Hall) as H.
  destruct (produce_gen false (buffer_space hp) 8 0 0 txs); [exact H| |];
    (split; [exact H|unfold shred_accepts, slice_payload_len; lia]).
Qed.

Theorem produce_slice_pinned_panic_needs_oversize : forall hp txs,
  produce_slice_pinned hp txs = PPanic -> Exists (fun p => MAX_TRANSACTION_SIZE < p) txs.
Proof.
  intros hp txs H.
  assert (D : Forall (fun p => p <= MAX_TRANSACTION_SIZE) txs \/ Exists (fun p => MAX_TRANSACTION_SIZE < p) txs).
  { clear H. induction txs as [|p rest IH]; [left; constructor|].
    destruct (p <=? MAX_TRANSACTION_SIZE) eqn:E.
    - destruct IH as [IH|IH]; [left; constructor; [lia|exact IH]|right; apply Exists_cons_tl; exact IH].
    - right. apply Exists_cons_hd. lia. }
  destruct D as [Hall|Hex]; [|exact Hex].
  pose proof (produce_slice_pinned_safe hp txs Hall) as S. rewrite H in S. destruct S.
Qed.

(* what the pinned panic was, exactly: the buffer grew beyond the reserved space *)
Theorem produce_pinned_panics_iff : forall space txs len count consumed,
  produce_gen false space len count consumed txs = PPanic <->
  exists pre p post, txs = pre ++ p :: post /\
    space < len + total pre + tx_encoded p /\
    (forall k, (k <= length pre)%nat -> k <> O ->
       MAX_TRANSACTION_SIZE + 8 <= space - (len + total (firstn k pre)) /\ len + total (firstn k pre) <= space).
Proof.
  intros space txs. induction txs as [|p rest IH]; intros len count consumed; cbn [produce_gen andb].
  - split; [discriminate|]. intros [pre [q [post [E _]]]]. destruct pre; discriminate.
  - split.
    + destruct (space <? len + tx_encoded p) eqn:E1.
      * intros _. exists [], p, rest. split; [reflexivity|]. rewrite total_nil. split; [lia|].
        intros k Hk Hn. cbn [length] in Hk. lia.
      * destruct (space - (len + tx_encoded p) <? MAX_TRANSACTION_SIZE + 8) eqn:E2; [discriminate|].
        intros H. apply IH in H. destruct H as [pre [q [post [E [Hov Hpre]]]]].
        exists (p :: pre), q, post. subst rest. split; [reflexivity|]. rewrite total_cons. split; [lia|].
        intros k Hk Hn. destruct k as [|k]; [congruence|]. cbn [firstn]. rewrite total_cons.
        destruct k as [|k].
        -- cbn [firstn]. rewrite total_nil. lia.
        -- cbn [length] in Hk. specialize (Hpre (S k) ltac:(lia) ltac:(discriminate)). lia.
    + intros [pre [q [post [E [Hov Hpre]]]]]. destruct pre as [|p' pre].
      * cbn [app] in E. injection E as -> ->. rewrite total_nil in Hov.
        destruct (space <? len + tx_encoded q) eqn:E1; [reflexivity|lia].
      * cbn [app] in E. injection E as -> ->. rename p' into p. rewrite total_cons in Hov.
        pose proof (Hpre 1%nat ltac:(cbn [length]; lia) ltac:(discriminate)) as H1.
        cbn [firstn] in H1. rewrite total_cons, total_nil in H1.
        destruct (space <? len + tx_encoded p) eqn:E1; [lia|].
        destruct (space - (len + tx_encoded p) <? MAX_TRANSACTION_SIZE + 8) eqn:E2; [lia|].
        apply IH. exists pre, q, post. split; [reflexivity|]. split; [lia|].
        intros k Hk Hn. specialize (Hpre (S k) ltac:(cbn [length]; lia) ltac:(discriminate)).
        cbn [firstn] in Hpre. rewrite total_cons in Hpre. lia.
Qed.

(* the pinned defect: transactions the wire format admits (payload up to MTU - 8 bytes) crashed the builder;
   the current tree builds a slice from the same streams *)
Definition oversize_witness : list N := repeat 512 61 ++ [1100].
Theorem produce_slice_pinned_oversize_refuted :
  Forall (fun p => tx_encoded p <= MTU_BYTES) oversize_witness /\
  produce_slice_pinned false oversize_witness = PPanic /\ produce_slice_pinned true oversize_witness = PPanic /\
  produce_slice false oversize_witness = PTimeout 31728 61 62.
Proof.
  split; [|repeat split; vm_compute; reflexivity].
  unfold oversize_witness. apply Forall_app. split.
  - apply Forall_forall. intros x Hx. apply repeat_spec in Hx. subst. vm_compute. discriminate.
  - constructor; [vm_compute; discriminate|constructor].
Qed.
Theorem produce_slice_pinned_flood_refuted : forall hp,
  produce_slice_pinned hp (repeat (MTU_BYTES - 8) 22) = PPanic /\ produce_slice hp (repeat (MTU_BYTES - 8) 22) = PTimeout 8 0 22.
Proof. intros [|]; vm_compute; split; reflexivity. Qed.

(* ---------------- optimistic handover ---------------- *)
Theorem apply_parent_ready_total : forall o r, apply_parent_ready o r <> AprPanic.
Proof. intros o r. unfold apply_parent_ready, apply_parent_ready_gen. destruct (_ =? _); cbn; discriminate. Qed.
Theorem apply_parent_ready_spec : forall o r,
  apply_parent_ready o r = if snd r =? snd o then AprKeep else AprSwitch r.
Proof. intros o r. unfold apply_parent_ready, apply_parent_ready_gen. destruct (_ =? _); reflexivity. Qed.

Theorem apply_parent_ready_pinned_panics_iff : forall o r,
  apply_parent_ready_pinned o r = AprPanic <-> (fst r = fst o /\ snd r <> snd o).
Proof.
  intros [os oh] [rs rh]. unfold apply_parent_ready_pinned, apply_parent_ready_gen. cbn [fst snd negb andb].
  destruct (rh =? oh) eqn:E1; [split; [discriminate|intros [_ H]; apply N.eqb_eq in E1; congruence]|].
  destruct (rs =? os) eqn:E2.
  - split; [intros _; split; [apply N.eqb_eq, E2|apply N.eqb_neq, E1]|reflexivity].
  - split; [discriminate|intros [H _]; apply N.eqb_neq in E2; congruence].
Qed.
(* two certified blocks in the last slot of the previous window (an equivocating leader): the block the next leader
   holds and the one the ParentReady names differ only in their hash *)
Theorem apply_parent_ready_pinned_equivocation_refuted :
  apply_parent_ready_pinned (11, 1) (11, 2) = AprPanic /\ apply_parent_ready (11, 1) (11, 2) = AprSwitch (11, 2).
Proof. split; reflexivity. Qed.
