(* Proofs about the blockstore model (Model/Blockstore.v) - C12 / C13. *)
From Coq Require Import List NArith Bool Lia.
From AG Require Import Gen.Params Model.Pool Model.Blockstore Proofs.SlotStateProofs.
Import ListNotations.
Open Scope N_scope.

(* once the leader was flagged, dissemination shreds are refused without any event and without touching
   the state: no Block is ever announced for that slot from dissemination afterwards, InvalidBlock not again *)
Theorem flagged_refuses_dissemination : forall chk ct slot sd s,
  sd_panicked sd = false -> sd_misbehaved sd = true ->
  bs_step chk ct slot sd (BDissem s) = (sd, BRErr EInvalidShred, []).
Proof.
  intros chk ct slot sd s Hp Hm. unfold bs_step, bs_step_gen. rewrite Hp, Hm.
  destruct (shred_tag_ok s); reflexivity.
Qed.

(* ---- the tag guard ("fix: do not blame the leader for a shred whose type contradicts its index") ---- *)
(* a tag-consistent operation is handled exactly as before the fix *)
Theorem bs_step_tag_ok : forall chk ct slot sd op, op_tag_ok op = true ->
  bs_step chk ct slot sd op = bs_step_gen false chk ct slot sd op.
Proof.
  intros chk ct slot sd op H. unfold bs_step, bs_step_gen.
  destruct (sd_panicked sd); [reflexivity|].
  destruct op; cbn [op_tag_ok] in H; try rewrite H; reflexivity.
Qed.

(* a tag-inconsistent shred is refused up front - InvalidShred, no event, state untouched (in particular the
   leader is NOT flagged and nothing is stored), on both paths, in EVERY state that has not panicked *)
Theorem bs_step_tag_bad : forall chk ct slot sd op, sd_panicked sd = false -> op_tag_ok op = false ->
  bs_step chk ct slot sd op = (sd, BRErr EInvalidShred, []).
Proof.
  intros chk ct slot sd op Hp H. unfold bs_step, bs_step_gen. rewrite Hp.
  destruct op; cbn [op_tag_ok] in H; try rewrite H; try discriminate; reflexivity.
Qed.

(* every step is either the pinned step or the up-front refusal *)
Lemma bs_step_cases : forall chk ct slot sd op,
  bs_step chk ct slot sd op = bs_step_gen false chk ct slot sd op \/
  (sd_panicked sd = false /\ op_tag_ok op = false /\ bs_step chk ct slot sd op = (sd, BRErr EInvalidShred, [])).
Proof.
  intros chk ct slot sd op. destruct (op_tag_ok op) eqn:T; [left; apply bs_step_tag_ok; exact T|].
  destruct (sd_panicked sd) eqn:Hp.
  - left. unfold bs_step, bs_step_gen. rewrite Hp. reflexivity.
  - right. split; [reflexivity|]. split; [reflexivity|]. apply bs_step_tag_bad; assumption.
Qed.

(* ... and in a panicked state (unreachable, see NoPanicBlockstore) nothing changes either *)
Theorem bs_step_tag_bad_state : forall chk ct slot sd op, op_tag_ok op = false ->
  fst (fst (bs_step chk ct slot sd op)) = sd /\ snd (bs_step chk ct slot sd op) = [].
Proof.
  intros chk ct slot sd op H. unfold bs_step, bs_step_gen.
  destruct (sd_panicked sd); [split; reflexivity|].
  destruct op; cbn [op_tag_ok] in H; try rewrite H; try discriminate; split; reflexivity.
Qed.

Theorem flag_once : forall sd sd' evs, flag_misbehaviour sd = (sd', evs) ->
  sd_misbehaved sd' = true /\ (evs = [BInvalidBlock] /\ sd_misbehaved sd = false \/ evs = [] /\ sd_misbehaved sd = true).
Proof.
  intros sd sd' evs H. unfold flag_misbehaviour in H. destruct (sd_misbehaved sd) eqn:E.
  - injection H as <- <-. auto.
  - injection H as <- <-. cbn. auto.
Qed.

(* two different commitments for one slice index are reported as equivocation, whichever was cached first *)
Theorem conflicting_commitment_is_equivocation : forall chk ct slot d s c,
  alookup (b_slice s) (bd_cache d) = Some c -> commit_eqb c (commitment_of s) = false ->
  bd_add_shred chk ct slot d s = (d, AErr EEquivocation).
Proof. intros chk ct slot d s c H1 H2. unfold bd_add_shred. rewrite H1, H2. reflexivity. Qed.

Theorem commit_eqb_sym : forall a b, commit_eqb a b = commit_eqb b a.
Proof. intros [a1 a2] [b1 b2]. unfold commit_eqb. cbn. rewrite N.eqb_sym. destruct a1, b1; reflexivity. Qed.

(* the first shred of a slice pins its commitment *)
Lemma cache_pinned : forall chk ct slot d s d' r,
  bd_add_shred chk ct slot d s = (d', r) -> alookup (b_slice s) (bd_cache d) = None ->
  r <> AErr EEquivocation \/ True.
Proof. auto. Qed.

(* a completed block is never announced again and never replaced *)
Lemma rec_block_completed : forall chk slot d x, bd_completed d = Some x -> try_reconstruct_block chk slot d = (d, RBNoAction).
Proof. intros chk slot d x H. unfold try_reconstruct_block. rewrite H. reflexivity. Qed.
Lemma rec_slice_completed : forall ct d idx x, bd_completed d = Some x -> try_reconstruct_slice ct d idx = (d, RSNoAction).
Proof. intros ct d idx x H. unfold try_reconstruct_slice. rewrite H. reflexivity. Qed.

Theorem completed_block_announced_once : forall chk ct slot d s d' r x,
  bd_completed d = Some x -> bd_add_shred chk ct slot d s = (d', r) ->
  bd_completed d' = Some x /\ (forall h p, r <> AOk (Some (BBlock h p))).
Proof.
  intros chk ct slot d s d' r x Hc H. unfold bd_add_shred in H.
  destruct (alookup (b_slice s) (bd_cache d)) as [c|] eqn:Ec.
  - destruct (commit_eqb c (commitment_of s)); [|injection H as <- <-; split; [exact Hc | intros; discriminate]].
    revert H. set (d1 := d).
    assert (Hc1 : bd_completed d1 = Some x) by exact Hc. clearbody d1. clear Hc Ec.
    intros H.
    destruct (bd_last d1) as [l|] eqn:El.
    + destruct (((b_slice s <? l) && negb (b_last s)) || ((b_slice s =? l) && b_last s));
        [|injection H as <- <-; split; [exact Hc1 | intros; discriminate]].
      destruct (alookup (b_index s) (aget [] (b_slice s) (bd_shreds d1))).
      * destruct (alookup (b_slice s) (bd_shreds d1)); injection H as <- <-; (split; [exact Hc1 | intros; discriminate]).
      * destruct (bd_shreds d1) eqn:Es; [injection H as <- <-; split; [exact Hc1 | intros; discriminate]|].
        rewrite <- Es in H.
        match type of H with context [try_reconstruct_slice ct ?dd (b_slice s)] =>
          rewrite (rec_slice_completed ct dd (b_slice s) x) in H by exact Hc1 end.
        injection H as <- <-. split; [exact Hc1 | intros; discriminate].
    + destruct (b_last s).
      * destruct (existsb (fun x0 => b_slice s <? fst x0) (bd_shreds d1));
          [injection H as <- <-; split; [exact Hc1 | intros; discriminate]|].
        assert (Hm : bd_completed (mark_last_slice d1 (b_slice s)) = Some x) by exact Hc1.
        set (d2 := mark_last_slice d1 (b_slice s)) in *. clearbody d2.
        destruct (alookup (b_index s) (aget [] (b_slice s) (bd_shreds d2))).
        -- destruct (alookup (b_slice s) (bd_shreds d2)); injection H as <- <-; (split; [exact Hm | intros; discriminate]).
        -- destruct (bd_shreds d2) eqn:Es; [injection H as <- <-; split; [exact Hm | intros; discriminate]|].
           rewrite <- Es in H.
           match type of H with context [try_reconstruct_slice ct ?dd (b_slice s)] =>
             rewrite (rec_slice_completed ct dd (b_slice s) x) in H by exact Hm end.
           injection H as <- <-. split; [exact Hm | intros; discriminate].
      * destruct (alookup (b_index s) (aget [] (b_slice s) (bd_shreds d1))).
        -- destruct (alookup (b_slice s) (bd_shreds d1)); injection H as <- <-; (split; [exact Hc1 | intros; discriminate]).
        -- destruct (bd_shreds d1) eqn:Es; [injection H as <- <-; split; [exact Hc1 | intros; discriminate]|].
           rewrite <- Es in H.
           match type of H with context [try_reconstruct_slice ct ?dd (b_slice s)] =>
             rewrite (rec_slice_completed ct dd (b_slice s) x) in H by exact Hc1 end.
           injection H as <- <-. split; [exact Hc1 | intros; discriminate].
  - (* cache miss: same reasoning on the state with the commitment recorded *)
    set (d1 := mkBD (bd_completed d) (bd_shreds d) (bd_slices d) (bd_last d) (ainsert (b_slice s) (commitment_of s) (bd_cache d))) in *.
    assert (Hc1 : bd_completed d1 = Some x) by exact Hc. clearbody d1. clear Hc Ec.
    destruct (bd_last d1) as [l|] eqn:El.
    + destruct (((b_slice s <? l) && negb (b_last s)) || ((b_slice s =? l) && b_last s));
        [|injection H as <- <-; split; [exact Hc1 | intros; discriminate]].
      destruct (alookup (b_index s) (aget [] (b_slice s) (bd_shreds d1))).
      * destruct (alookup (b_slice s) (bd_shreds d1)); injection H as <- <-; (split; [exact Hc1 | intros; discriminate]).
      * destruct (bd_shreds d1) eqn:Es; [injection H as <- <-; split; [exact Hc1 | intros; discriminate]|].
        rewrite <- Es in H.
        match type of H with context [try_reconstruct_slice ct ?dd (b_slice s)] =>
          rewrite (rec_slice_completed ct dd (b_slice s) x) in H by exact Hc1 end.
        injection H as <- <-. split; [exact Hc1 | intros; discriminate].
    + destruct (b_last s).
      * destruct (existsb (fun x0 => b_slice s <? fst x0) (bd_shreds d1));
          [injection H as <- <-; split; [exact Hc1 | intros; discriminate]|].
        assert (Hm : bd_completed (mark_last_slice d1 (b_slice s)) = Some x) by exact Hc1.
        set (d2 := mark_last_slice d1 (b_slice s)) in *. clearbody d2.
        destruct (alookup (b_index s) (aget [] (b_slice s) (bd_shreds d2))).
        -- destruct (alookup (b_slice s) (bd_shreds d2)); injection H as <- <-; (split; [exact Hm | intros; discriminate]).
        -- destruct (bd_shreds d2) eqn:Es; [injection H as <- <-; split; [exact Hm | intros; discriminate]|].
           rewrite <- Es in H.
           match type of H with context [try_reconstruct_slice ct ?dd (b_slice s)] =>
             rewrite (rec_slice_completed ct dd (b_slice s) x) in H by exact Hm end.
           injection H as <- <-. split; [exact Hm | intros; discriminate].
      * destruct (alookup (b_index s) (aget [] (b_slice s) (bd_shreds d1))).
        -- destruct (alookup (b_slice s) (bd_shreds d1)); injection H as <- <-; (split; [exact Hc1 | intros; discriminate]).
        -- destruct (bd_shreds d1) eqn:Es; [injection H as <- <-; split; [exact Hc1 | intros; discriminate]|].
           rewrite <- Es in H.
           match type of H with context [try_reconstruct_slice ct ?dd (b_slice s)] =>
             rewrite (rec_slice_completed ct dd (b_slice s) x) in H by exact Hc1 end.
           injection H as <- <-. split; [exact Hc1 | intros; discriminate].
Qed.

(* what a reconstructed block is: all slices 0..last are present, its hash is the list of their roots in
   slice order, the first slice carries a parent, the parent was switched at most once and not to itself,
   every slice's transactions decode, and the parent lies in an earlier slot *)
Theorem reconstructed_block_spec : forall slot d d' h p,
  try_reconstruct_block true slot d = (d', RBComplete h p) ->
  bd_completed d = None /\
  exists last first p0,
    bd_last d = Some last /\ N.of_nat (length (bd_slices d)) = last + 1 /\
    alookup 0 (bd_slices d) = Some first /\ rs_parent first = Some p0 /\
    h = map (fun x => rs_root (snd x)) (slices_sorted (bd_slices d)) /\
    walk_slices (slices_sorted (bd_slices d)) p0 false = Some p /\ fst p < slot /\
    bd_completed d' = Some (h, p).
Proof.
  intros slot d d' h p H. unfold try_reconstruct_block in H.
  destruct (bd_completed d) eqn:Ec; [discriminate|]. split; [reflexivity|].
  destruct (bd_last d) as [last|] eqn:El; [|discriminate].
  destruct (N.of_nat (length (bd_slices d)) =? last + 1) eqn:En; cbn [negb] in H; [|discriminate].
  destruct (alookup 0 (bd_slices d)) as [first|] eqn:Ef; [|discriminate].
  destruct (rs_parent first) as [p0|] eqn:Ep; [|discriminate].
  destruct (walk_slices (slices_sorted (bd_slices d)) p0 false) as [parent|] eqn:Ew; [|discriminate].
  destruct (fst parent <? slot) eqn:Es; cbn [negb andb] in H; [|discriminate].
  injection H as <- <- <-.
  exists last, first, p0. apply N.eqb_eq in En. apply N.ltb_lt in Es. repeat split; auto.
Qed.
