(* Proofs about the finality tracker and the parent-ready tracker (Model/Pool.v) - C07, C08. *)
From Coq Require Import List NArith Bool Lia ZifyBool ZifyN.
From AG Require Import Gen.Params Model.Pool Model.PoolSpec Proofs.SlotStateProofs.
Import ListNotations.
Open Scope N_scope.

(* ---------------- parent-ready state ---------------- *)
Lemma pt_parents_ready_set t s st s' :
  pt_parents_ready (pt_set t s st) s' =
  if s' =? s then match pr_ready st with Some ids => ids | None => [] end else pt_parents_ready t s'.
Proof.
  unfold pt_parents_ready, pt_set. cbn [pt_states].
  destruct (s' =? s) eqn:E.
  - apply N.eqb_eq in E. subst. rewrite alookup_ainsert_same. reflexivity.
  - rewrite alookup_ainsert_other by (apply N.eqb_neq; exact E). reflexivity.
Qed.

Lemma pt_get_ready t s : match pr_ready (pt_get t s) with Some ids => ids | None => [] end = pt_parents_ready t s.
Proof.
  unfold pt_get, pt_parents_ready, aget. destruct (alookup s (pt_states t)); reflexivity.
Qed.

(* add_to_ready: the pair was not ready before (else the implementation panics), is ready afterwards,
   and no other slot's ready list changes *)
Theorem add_to_ready_once : forall t s id t' w,
  pr_add_to_ready t s id = Some (t', w) ->
  existsb (bid_eqb id) (pt_parents_ready t s) = false /\
  pt_parents_ready t' s = pt_parents_ready t s ++ [id] /\
  (forall s', s' <> s -> pt_parents_ready t' s' = pt_parents_ready t s').
Proof.
  intros t s id t' w H. unfold pr_add_to_ready in H.
  assert (G := pt_get_ready t s).
  destruct (pr_ready (pt_get t s)) as [ids|] eqn:E.
  - destruct (existsb (bid_eqb id) ids) eqn:Ex; [discriminate|]. injection H as <- <-.
    rewrite <- G. repeat split; [exact Ex| |].
    + rewrite pt_parents_ready_set, N.eqb_refl. reflexivity.
    + intros s' Hne. rewrite pt_parents_ready_set. apply N.eqb_neq in Hne. rewrite Hne. reflexivity.
  - injection H as <- <-. rewrite <- G. repeat split.
    + rewrite pt_parents_ready_set, N.eqb_refl. reflexivity.
    + intros s' Hne. rewrite pt_parents_ready_set. apply N.eqb_neq in Hne. rewrite Hne. reflexivity.
Qed.

(* a registered waiter is woken by the first ready parent, exactly then *)
Theorem add_to_ready_wakes : forall t s id t' w,
  pr_add_to_ready t s id = Some (t', w) ->
  w = if pr_waiting (pt_get t s) && match pr_ready (pt_get t s) with None => true | Some _ => false end
      then [EWaiterWoken s id] else [].
Proof.
  intros t s id t' w H. unfold pr_add_to_ready in H.
  destruct (pr_ready (pt_get t s)) as [ids|].
  - destruct (existsb (bid_eqb id) ids); [discriminate|]. injection H as <- <-. rewrite andb_false_r. reflexivity.
  - injection H as <- <-. rewrite andb_true_r. reflexivity.
Qed.

(* pruning keeps exactly the states at or above the new root: nothing is lost above, nothing kept below *)
Theorem pt_prune_spec : forall t r s,
  pt_parents_ready (pt_prune t r) s = if r <=? s then pt_parents_ready t s else [].
Proof.
  intros t r s. unfold pt_parents_ready, pt_prune. cbn [pt_states].
  induction (pt_states t) as [|[k v] l IH]; cbn [filter alookup fst].
  - destruct (r <=? s); reflexivity.
  - destruct (r <=? k) eqn:Ek; cbn [alookup].
    + destruct (s =? k) eqn:Es; [|exact IH].
      apply N.eqb_eq in Es. subst. rewrite Ek. reflexivity.
    + destruct (s =? k) eqn:Es; [|exact IH].
      apply N.eqb_eq in Es. subst. rewrite Ek.
      clear IH. induction l as [|[k2 v2] l IH2]; cbn [filter alookup fst]; [reflexivity|].
      destruct (r <=? k2) eqn:E2; cbn [alookup]; [|exact IH2].
      destruct (k =? k2) eqn:E3; [|exact IH2]. apply N.eqb_eq in E3. subst. congruence.
Qed.

(* ---------------- finality tracker ---------------- *)
Lemma ft_advance_ge fuel status first : first <= ft_advance fuel status first.
Proof.
  revert first. induction fuel as [|f IH]; intros first; cbn [ft_advance]; [lia|].
  destruct (is_decided (alookup (first + 1) status)); [|lia].
  specialize (IH (first + 1)). lia.
Qed.

(* every slot the watermark moves over is decided (finalized, implicitly finalized or implicitly skipped) *)
Lemma ft_advance_decided fuel status first : forall t, first < t <= ft_advance fuel status first ->
  is_decided (alookup t status) = true.
Proof.
  revert first. induction fuel as [|f IH]; intros first t Ht; cbn [ft_advance] in Ht; [lia|].
  destruct (is_decided (alookup (first + 1) status)) eqn:E; [|lia].
  destruct (N.eq_dec t (first + 1)) as [->|Hne]; [exact E|].
  apply (IH (first + 1)). lia.
Qed.

Theorem ft_prune_spec : forall t,
  let t' := ft_prune t in
  ft_first t <= ft_first t' /\ ft_highest t' = ft_highest t /\
  (forall s, ft_first t < s <= ft_first t' -> is_decided (alookup s (ft_status t)) = true) /\
  (forall s st, In (s, st) (ft_status t') -> ft_first t' <= s) /\
  (forall b p, In (b, p) (ft_parents t') -> ft_first t' <= fst b).
Proof.
  intros t. cbv zeta. unfold ft_prune. cbn [ft_first ft_highest ft_status ft_parents].
  repeat split.
  - apply ft_advance_ge.
  - intros s Hs. apply (ft_advance_decided _ _ _ s Hs).
  - intros s st Hin. apply filter_In in Hin. destruct Hin as [_ H]. cbn [fst] in H. apply N.leb_le in H. exact H.
  - intros b p Hin. apply filter_In in Hin. destruct Hin as [_ H]. cbn [fst] in H. apply N.leb_le in H. exact H.
Qed.

(* the pool retains per-slot state only at or above the watermark after pruning *)
Theorem pool_prune_retains_only_undecided_suffix : forall p s ss,
  In (s, ss) (p_slots (pool_prune p)) -> first_unpruned p <= s.
Proof.
  intros p s ss Hin. unfold pool_prune in Hin. cbn [p_slots] in Hin.
  apply filter_In in Hin. destruct Hin as [_ H]. cbn [fst] in H. apply N.leb_le in H. exact H.
Qed.

(* votes and certificates: refused exactly for slots below the watermark or too far ahead *)
Theorem out_of_bounds_spec : forall p s,
  out_of_bounds p s = true <-> (s < first_unpruned p \/ finalized_slot p + 2 * SLOTS_PER_EPOCH <= s).
Proof. intros p s. unfold out_of_bounds. lia. Qed.

Theorem vote_old_refused : forall e p vt,
  p_panicked p = false -> v_slot vt < first_unpruned p ->
  pool_step e p (OpVote vt) = (p, RVerdict VOutOfBounds, po_empty).
Proof.
  intros e p vt Hp Hs. unfold pool_step. rewrite Hp. unfold pool_add_vote, pool_add_vote_gen.
  assert (out_of_bounds p (v_slot vt) = true) as -> by (apply out_of_bounds_spec; left; exact Hs).
  reflexivity.
Qed.
Theorem cert_old_refused : forall e p c,
  p_panicked p = false -> c_slot c < first_unpruned p ->
  pool_step e p (OpCert c) = (p, RVerdict VOutOfBounds, po_empty).
Proof.
  intros e p c Hp Hs. unfold pool_step. rewrite Hp. unfold pool_add_cert.
  assert (out_of_bounds p (c_slot c) = true) as -> by (apply out_of_bounds_spec; left; exact Hs).
  reflexivity.
Qed.
Theorem vote_in_bounds_not_refused : forall e p vt,
  p_panicked p = false -> out_of_bounds p (v_slot vt) = false ->
  snd (fst (pool_step e p (OpVote vt))) <> RVerdict VOutOfBounds.
Proof.
  intros e p vt Hp Hs. unfold pool_step. rewrite Hp. unfold pool_add_vote, pool_add_vote_gen. rewrite Hs.
  destruct (check_slashable _ vt); [cbn; discriminate|].
  destruct (should_ignore _ vt); [cbn; discriminate|].
  destruct (ss_add_vote_gen true e _ vt) as [ss' out].
  destruct (add_certs e _ (o_certs out) po_empty) as [[p2 o]|]; cbn; discriminate.
Qed.

(* ---------------- standstill recovery (C18) ---------------- *)
(* recovery never panics while nothing beyond genesis is finalized (current tree) ... *)
Theorem standstill_safe_at_genesis : forall e p,
  finalized_slot p = 0 -> snd (fst (pool_standstill e p)) <> RPanic.
Proof.
  intros e p H. unfold pool_standstill, pool_standstill_gen. rewrite H.
  destruct (get_final_certs p 0); cbn; discriminate.
Qed.
(* ... whereas the pinned tree panicked on a fresh pool *)
Lemma standstill_pinned_refuted : forall e, snd (fst (pool_standstill_gen false e pool_init)) = RPanic.
Proof. intros e. reflexivity. Qed.

(* whenever recovery does not panic it emits exactly one Standstill event for slot finalized+1 carrying
   the final certificates of the highest finalized slot, every certificate held for later slots and
   the node's own votes for later slots - nothing else, no state change *)
Theorem standstill_bundle_contents : forall e p p' r o,
  pool_standstill e p = (p', r, o) -> r <> RPanic ->
  p' = p /\ po_repair o = [] /\
  let s := finalized_slot p in
  let later := filter (fun kv => s <? fst kv) (slots_sorted (p_slots p)) in
  po_events o = [EStandstill (s + 1)
                   (get_final_certs p s ++ flat_map (fun kv => certs_of_slot (snd kv)) later)
                   (flat_map (fun kv => own_votes_of_slot e (fst kv) (snd kv)) later)].
Proof.
  intros e p p' r o H Hr. unfold pool_standstill, pool_standstill_gen in H.
  destruct (get_final_certs p (finalized_slot p)) as [|c cs] eqn:E.
  - destruct (finalized_slot p =? 0) eqn:Z; cbn [andb] in H.
    + injection H as <- <- <-. repeat split; try reflexivity. cbv zeta. rewrite E. reflexivity.
    + injection H as <- <- <-. congruence.
  - injection H as <- <- <-. repeat split; try reflexivity. cbv zeta. rewrite E. reflexivity.
Qed.
