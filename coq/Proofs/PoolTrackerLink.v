(* C07: how the pool feeds its ParentReadyTracker.  In every pool state reachable by pool_step from
   pool_init, the tracker component is the result of pt_run over some list of tracker operations whose
   pruning roots never move backwards; so every theorem of ParentReadyProofs.v about runs with
   roots_mono applies to the tracker inside every reachable pool. *)
From Coq Require Import List NArith Bool Lia ZifyBool ZifyNat ZifyN.
From AG Require Import Gen.Params Model.Pool Model.TrackerSpec Proofs.SlotStateProofs Proofs.TrackerProofs Proofs.ParentReadyProofs.
Import ListNotations.
Open Scope N_scope.

(* ---------------- FinalityTracker::first_unpruned never decreases ---------------- *)
Lemma ft_skip_between_first : forall slots t ev t' ev' b,
  ft_skip_between t ev slots = Some (t', ev', b) -> ft_first t' = ft_first t.
Proof.
  induction slots as [|s rest IH]; intros t ev t' ev' b H; cbn [ft_skip_between] in H.
  - injection H as <- _ _. reflexivity.
  - destruct (alookup s (ft_status t)) as [[h| |h|h|]|]; try discriminate H;
      try (apply IH in H; exact H). injection H as <- _ _. reflexivity.
Qed.

Lemma ft_handle_impl_first : forall fuel t src b ev t' ev',
  ft_handle_impl fuel t src b ev = Some (t', ev') -> ft_first t' = ft_first t.
Proof.
  induction fuel as [|f IH]; intros t src b ev t' ev' H; cbn [ft_handle_impl] in H; [discriminate|].
  destruct (negb (fst b <? src)); [discriminate|].
  destruct (fst b <? ft_first t); [injection H as <- _; reflexivity|].
  destruct (ft_skip_between t ev _) as [[[t1 ev1] early]|] eqn:Esk; [|discriminate].
  apply ft_skip_between_first in Esk. destruct early; [injection H as <- _; exact Esk|].
  cbv zeta in H.
  assert (Hcont : forall t3, ft_first t3 = ft_first t ->
            match blookup b (ft_parents t3) with
            | Some p => ft_handle_impl f t3 (fst b) p (mkFE (fe_final ev1) (fe_impl_final ev1 ++ [b]) (fe_impl_skipped ev1))
            | None => Some (t3, mkFE (fe_final ev1) (fe_impl_final ev1 ++ [b]) (fe_impl_skipped ev1))
            end = Some (t', ev') -> ft_first t' = ft_first t).
  { intros t3 E3 H3. destruct (blookup b (ft_parents t3)); [apply IH in H3; congruence | injection H3 as <- _; exact E3]. }
  destruct (alookup (fst b) (ft_status t1)) as [[h| |h|h|]|]; try discriminate H;
    try (destruct (h =? snd b); [|discriminate H]);
    try (injection H as <- _; exact Esk);
    apply Hcont in H; try exact H; exact Esk.
Qed.

Lemma ft_prune_first t : ft_first t <= ft_first (ft_prune t).
Proof. unfold ft_prune. cbn [ft_first]. apply ft_advance_ge. Qed.

Lemma ft_hfb_first t b ev t' ev' : ft_handle_finalized_block t b ev = Some (t', ev') -> ft_first t <= ft_first t'.
Proof.
  unfold ft_handle_finalized_block. cbv zeta. cbn [ft_parents].
  destruct (blookup b (ft_parents t)).
  - destruct (ft_handle_impl _ _ _ _ _) as [[t2 ev2]|] eqn:E; [|discriminate]. intros H. injection H as <- _.
    apply ft_handle_impl_first in E. cbn [ft_first] in E. pose proof (ft_prune_first t2). lia.
  - intros H. injection H as <- _. apply (ft_prune_first (mkFT (ft_status t) (ft_parents t) (N.max (fst b) (ft_highest t)) (ft_first t))).
Qed.

Lemma ft_add_parent_first t b p t' ev : ft_add_parent t b p = Some (t', ev) -> ft_first t <= ft_first t'.
Proof.
  unfold ft_add_parent. destruct (negb (fst p <? fst b)); [discriminate|].
  destruct (fst b <? ft_first t); [intros H; injection H as <- _; lia|].
  destruct (blookup b (ft_parents t)) as [p'|].
  { destruct (bid_eqb p p'); [intros H; injection H as <- _; lia | discriminate]. }
  cbv zeta. cbn [ft_status].
  assert (Hd : forall (t'' : ftracker) (ev'' : fin_event),
            Some (mkFT (ft_status t) (binsert b p (ft_parents t)) (ft_highest t) (ft_first t), fe_empty) = Some (t'', ev'') ->
            ft_first t <= ft_first t'') by (intros t'' ev'' H; injection H as <- _; cbn [ft_first]; lia).
  assert (Hi : forall h, (if h =? snd b
                then match ft_handle_impl (ft_fuel (mkFT (ft_status t) (binsert b p (ft_parents t)) (ft_highest t) (ft_first t)))
                             (mkFT (ft_status t) (binsert b p (ft_parents t)) (ft_highest t) (ft_first t)) (fst b) p fe_empty with
                     | Some (t2, ev0) => Some (ft_prune t2, ev0)
                     | None => None
                     end
                else Some (mkFT (ft_status t) (binsert b p (ft_parents t)) (ft_highest t) (ft_first t), fe_empty)) = Some (t', ev) ->
               ft_first t <= ft_first t').
  { intros h. destruct (h =? snd b); [|apply Hd].
    destruct (ft_handle_impl _ _ _ _ _) as [[t2 ev2]|] eqn:E; [|discriminate]. intros H. injection H as <- _.
    apply ft_handle_impl_first in E. cbn [ft_first] in E. pose proof (ft_prune_first t2). lia. }
  destruct (alookup (fst b) (ft_status t)) as [[h| |h|h|]|]; try apply Hd; apply Hi.
Qed.

Lemma ft_mark_fast_finalized_first t b t' ev : ft_mark_fast_finalized t b = Some (t', ev) -> ft_first t <= ft_first t'.
Proof.
  unfold ft_mark_fast_finalized. destruct (fst b <? ft_first t); [intros H; injection H as <- _; lia|]. cbv zeta.
  destruct (alookup (fst b) (ft_status t)) as [[h| |h|h|]|]; try discriminate;
    try (destruct (h =? snd b); [|discriminate]);
    try (intros H; injection H as <- _; cbn [ft_first ft_set_status]; lia);
    intros H; apply ft_hfb_first in H; exact H.
Qed.

Lemma ft_mark_notarized_first t b t' ev : ft_mark_notarized t b = Some (t', ev) -> ft_first t <= ft_first t'.
Proof.
  unfold ft_mark_notarized. destruct (fst b <? ft_first t); [intros H; injection H as <- _; lia|]. cbv zeta.
  destruct (alookup (fst b) (ft_status t)) as [[h| |h|h|]|]; try discriminate;
    try (destruct (h =? snd b); [|discriminate]);
    try (intros H; injection H as <- _; cbn [ft_first ft_set_status]; lia);
    intros H; apply ft_hfb_first in H; exact H.
Qed.

Lemma ft_mark_finalized_first t s t' ev : ft_mark_finalized t s = Some (t', ev) -> ft_first t <= ft_first t'.
Proof.
  unfold ft_mark_finalized. destruct (s <? ft_first t); [intros H; injection H as <- _; lia|]. cbv zeta.
  destruct (alookup s (ft_status t)) as [[h| |h|h|]|]; try discriminate;
    try (intros H; injection H as <- _; cbn [ft_first ft_set_status]; lia);
    intros H; apply ft_hfb_first in H; exact H.
Qed.

(* ---------------- the relation between a pool and the tracker operations issued so far ---------------- *)
Definition Feeds (p : pool) (tops : list ptop) : Prop :=
  roots_mono tops = true /\ (exists ann wk, pt_run tops = Some (p_prt p, ann, wk)) /\
  mk_root (marks_of tops) <= ft_first (p_ft p).

Lemma roots_mono_snoc_intro tops op : roots_mono tops = true ->
  (forall r, op = TPrune r -> mk_root (marks_of tops) <= r) -> roots_mono (tops ++ [op]) = true.
Proof.
  unfold roots_mono. rewrite fold_left_app. cbn [fold_left]. rewrite <- roots_fold_snd. intros H Hr.
  destruct op; cbn [roots_step fst]; try exact H. rewrite H. specialize (Hr r eq_refl). cbn [andb]. lia.
Qed.

Lemma Feeds_ext p p' tops : p_prt p' = p_prt p -> ft_first (p_ft p) <= ft_first (p_ft p') -> Feeds p tops -> Feeds p' tops.
Proof. intros E1 E2 [A [[ann [wk B]] C]]. split; [exact A|]. split; [exists ann, wk; rewrite E1; exact B | lia]. Qed.

Lemma Feeds_step p tops op t' a w p' :
  Feeds p tops -> pt_step (p_prt p) op = Some (t', a, w) -> (forall r, op = TPrune r -> ft_first (p_ft p) <= r) ->
  p_prt p' = t' -> match op with TPrune r => r | _ => ft_first (p_ft p) end <= ft_first (p_ft p') ->
  Feeds p' (tops ++ [op]).
Proof.
  intros [A [[ann [wk B]] C]] Hs Hr E1 E2. split; [|split].
  - apply roots_mono_snoc_intro; [exact A|]. intros r Er. specialize (Hr r Er). lia.
  - exists (ann ++ a), (wk ++ w). rewrite pt_run_snoc, B. cbn [pt_run_step]. rewrite Hs, E1. reflexivity.
  - rewrite marks_of_snoc, mk_root_step. destruct op; lia.
Qed.

(* a tracker satisfying Feeds never panics in a mark, finalization or (forward) prune operation *)
Lemma Feeds_no_panic p tops op : Feeds p tops -> (forall r, op = TPrune r -> ft_first (p_ft p) <= r) ->
  (forall s, op <> TWait s) -> pt_step (p_prt p) op <> None.
Proof.
  intros [A [[ann [wk B]] C]] Hr Hw Hn.
  destruct (run_step_total tops op (p_prt p) ann wk) as [s [E _]]; [|exact B|exact Hn|exact (Hw s E)].
  apply roots_mono_snoc_intro; [exact A|]. intros r Er. specialize (Hr r Er). lia.
Qed.

(* ---------------- pool functions ---------------- *)
Lemma pool_handle_finalization_feeds p ev p1 o tops :
  pool_handle_finalization p ev = Some (p1, o) -> Feeds p tops ->
  Feeds p1 (tops ++ [TFinalize ev; TPrune (ft_first (p_ft p))]) /\ p_ft p1 = p_ft p.
Proof.
  unfold pool_handle_finalization. intros H F.
  destruct (pt_handle_finalization (p_prt p) ev) as [[[t prs] wk]|] eqn:E; [|discriminate].
  injection H as <- _. split; [|reflexivity].
  set (p0 := mkPool (p_slots p) t (p_ft p) (p_waiting p) (p_panicked p)).
  assert (F0 : Feeds p0 (tops ++ [TFinalize ev])).
  { apply (Feeds_step p tops (TFinalize ev) t prs wk p0 F); [exact E | intros r Hr; discriminate | reflexivity | cbn; lia]. }
  change (tops ++ [TFinalize ev; TPrune (ft_first (p_ft p))]) with (tops ++ [TFinalize ev] ++ [TPrune (ft_first (p_ft p))]).
  rewrite app_assoc.
  apply (Feeds_step p0 _ (TPrune (ft_first (p_ft p))) (pt_prune t (ft_first (p_ft p))) [] [] _ F0);
    [reflexivity | intros r Hr; injection Hr as <-; cbn; lia | reflexivity | cbn; unfold first_unpruned; cbn; lia].
Qed.

Lemma notify_children_frame e : forall children p acc p' o,
  notify_children e p children acc = Some (p', o) -> p_prt p' = p_prt p /\ p_ft p' = p_ft p.
Proof.
  unfold notify_children.
  induction children as [|[cs ch] rest IH]; intros p acc p' o H; cbn [notify_children_gen andb] in H.
  - injection H as <- _. split; reflexivity.
  - destruct (cs <? first_unpruned p); [exact (IH _ _ _ _ H)|].
    destruct (notify_parent_certified e cs _ ch) as [[[ss' evs] rps]|]; [|discriminate].
    apply IH in H. destruct H as [H1 H2]. rewrite H1, H2. unfold p_set_ss, p_touch. cbn [p_prt p_ft].
    destruct (alookup cs (p_slots p)); split; reflexivity.
Qed.
Lemma notify_waiting_children_frame e p b p' o :
  notify_waiting_children e p b = Some (p', o) -> p_prt p' = p_prt p /\ p_ft p' = p_ft p.
Proof. unfold notify_waiting_children, notify_waiting_children_gen. intros H. apply notify_children_frame in H. exact H. Qed.

Lemma app_snoc_exists {A} (l : list A) more x : exists more', (l ++ more) ++ [x] = l ++ more'.
Proof. exists (more ++ [x]). rewrite app_assoc. reflexivity. Qed.

Lemma add_valid_cert_feeds e p c p' o tops :
  add_valid_cert e p c = Some (p', o) -> Feeds p tops -> exists more, Feeds p' (tops ++ more).
Proof.
  unfold add_valid_cert. cbv zeta. intros H F.
  set (p0 := p_set_ss p (c_slot c) (ss_add_cert (p_ss p (c_slot c)) c)) in *.
  assert (F0 : Feeds p0 tops) by (apply (Feeds_ext p); [reflexivity | cbn; lia | exact F]).
  assert (Hfin : forall r (p'' : pool) (o'' : pout),
            match r with None => None | Some (q, oo) => Some (q, po_app oo (mkPO [ECertCreated c] [])) end = Some (p'', o'') ->
            exists q oo, r = Some (q, oo) /\ p'' = q).
  { intros r p'' o'' Hr. destruct r as [[q oo]|]; [|discriminate]. injection Hr as <- _. exists q, oo. split; reflexivity. }
  assert (Hnf : forall p1 tops1 b, Feeds p1 tops1 ->
            forall p2 o2, notify_waiting_children e p1 b = Some (p2, o2) ->
            forall t prs wk, pt_mark_notar_fallback (p_prt p2) b = Some (t, prs, wk) ->
            Feeds (pool_with_prt p2 t) (tops1 ++ [TNotarFb b])).
  { intros p1 tops1 b F1 p2 o2 Hn t prs wk Hm. apply notify_waiting_children_frame in Hn. destruct Hn as [N1 N2].
    assert (F2 : Feeds p2 tops1) by (apply (Feeds_ext p1); [exact N1 | rewrite N2; lia | exact F1]).
    apply (Feeds_step p2 tops1 (TNotarFb b) t prs wk _ F2); [exact Hm | intros r Hr; discriminate | reflexivity | cbn; lia]. }
  destruct (c_kind c) as [h|h| |h|] eqn:Ek.
  - (* Notar *)
    destruct (ft_mark_notarized (p_ft p0) (c_slot c, h)) as [[ft' ev]|] eqn:Eft; [|discriminate].
    destruct (pool_handle_finalization (pool_with_ft p0 ft') ev) as [[p1 o1]|] eqn:Eh; [|discriminate].
    destruct (notify_waiting_children e p1 (c_slot c, h)) as [[p2 o2]|] eqn:En; [|discriminate].
    destruct (pt_mark_notar_fallback (p_prt p2) (c_slot c, h)) as [[[t prs] wk]|] eqn:Em; [|discriminate].
    injection H as <- _.
    apply ft_mark_notarized_first in Eft.
    assert (F1 : Feeds (pool_with_ft p0 ft') tops) by (apply (Feeds_ext p0); [reflexivity | cbn; exact Eft | exact F0]).
    destruct (pool_handle_finalization_feeds _ _ _ _ _ Eh F1) as [F2 _].
    eexists. rewrite app_assoc. apply (Hnf p1 _ _ F2 p2 o2 En t prs wk Em).
  - (* NotarFallback *)
    destruct (notify_waiting_children e p0 (c_slot c, h)) as [[p2 o2]|] eqn:En; [|discriminate].
    destruct (pt_mark_notar_fallback (p_prt p2) (c_slot c, h)) as [[[t prs] wk]|] eqn:Em; [|discriminate].
    injection H as <- _.
    eexists. apply (Hnf p0 _ _ F0 p2 o2 En t prs wk Em).
  - (* Skip *)
    destruct (pt_mark_skipped (p_prt p0) (c_slot c)) as [[[t prs] wk]|] eqn:Em; [|discriminate].
    injection H as <- _.
    eexists. apply (Feeds_step p0 tops (TSkip (c_slot c)) t prs wk _ F0); [exact Em | intros r Hr; discriminate | reflexivity | cbn; lia].
  - (* FastFinal *)
    destruct (ft_mark_fast_finalized (p_ft p0) (c_slot c, h)) as [[ft' ev]|] eqn:Eft; [|discriminate].
    destruct (pool_handle_finalization (pool_with_ft p0 ft') ev) as [[p1 o1]|] eqn:Eh; [|discriminate].
    destruct (notify_waiting_children e p1 (c_slot c, h)) as [[p2 o2]|] eqn:En; [|discriminate].
    injection H as <- _.
    apply ft_mark_fast_finalized_first in Eft.
    assert (F1 : Feeds (pool_with_ft p0 ft') tops) by (apply (Feeds_ext p0); [reflexivity | cbn; exact Eft | exact F0]).
    destruct (pool_handle_finalization_feeds _ _ _ _ _ Eh F1) as [F2 _].
    apply notify_waiting_children_frame in En. destruct En as [N1 N2].
    eexists. apply (Feeds_ext p1); [exact N1 | rewrite N2; lia | exact F2].
  - (* Final *)
    destruct (ft_mark_finalized (p_ft p0) (c_slot c)) as [[ft' ev]|] eqn:Eft; [|discriminate].
    apply Hfin in H. destruct H as [q [oo [Hq ->]]].
    apply ft_mark_finalized_first in Eft.
    assert (F1 : Feeds (pool_with_ft p0 ft') tops) by (apply (Feeds_ext p0); [reflexivity | cbn; exact Eft | exact F0]).
    destruct (pool_handle_finalization_feeds _ _ _ _ _ Hq F1) as [F2 _].
    eexists. exact F2.
Qed.

Lemma add_certs_feeds e : forall cs p acc p' o tops,
  add_certs e p cs acc = Some (p', o) -> Feeds p tops -> exists more, Feeds p' (tops ++ more).
Proof.
  induction cs as [|[c|] cs IH]; intros p acc p' o tops H F; cbn [add_certs] in H; [|  |discriminate].
  - injection H as <- _. exists []. rewrite app_nil_r. exact F.
  - destruct (add_valid_cert e p c) as [[p1 o1]|] eqn:E; [|discriminate].
    destruct (add_valid_cert_feeds e p c p1 o1 tops E F) as [m1 F1].
    destruct (IH p1 _ p' o _ H F1) as [m2 F2]. exists (m1 ++ m2). rewrite app_assoc. exact F2.
Qed.

Lemma Feeds_frame p p' tops : p_prt p' = p_prt p -> p_ft p' = p_ft p -> Feeds p tops -> Feeds p' tops.
Proof. intros E1 E2. apply Feeds_ext; [exact E1 | rewrite E2; lia]. Qed.

Lemma p_touch_frame p s : p_prt (p_touch p s) = p_prt p /\ p_ft (p_touch p s) = p_ft p.
Proof. unfold p_touch. destruct (alookup s (p_slots p)); split; reflexivity. Qed.

Lemma pool_step_feeds e p op tops :
  Feeds p tops -> exists more, Feeds (fst (fst (pool_step e p op))) (tops ++ more).
Proof.
  intros F.
  assert (Hsame : forall p', p_prt p' = p_prt p -> p_ft p' = p_ft p -> exists more, Feeds p' (tops ++ more)).
  { intros p' E1 E2. exists []. rewrite app_nil_r. apply (Feeds_frame p); assumption. }
  unfold pool_step. destruct (p_panicked p); [apply Hsame; reflexivity|].
  destruct op as [v|c|b par| |s|].
  - (* vote *)
    unfold pool_add_vote, pool_add_vote_gen. cbv zeta.
    destruct (out_of_bounds p (v_slot v)); [apply Hsame; reflexivity|].
    destruct (p_touch_frame p (v_slot v)) as [T1 T2].
    destruct (check_slashable _ v); [apply Hsame; assumption|].
    destruct (should_ignore _ v); [apply Hsame; assumption|].
    destruct (ss_add_vote_gen true e _ v) as [ss' out].
    destruct (add_certs e _ (o_certs out) po_empty) as [[p2 o]|] eqn:E; [|apply Hsame; assumption].
    cbn [fst]. apply (add_certs_feeds e _ _ _ _ _ _ E). apply (Feeds_frame p); [exact T1 | exact T2 | exact F].
  - (* certificate *)
    unfold pool_add_cert. cbv zeta.
    destruct (out_of_bounds p (c_slot c)); [apply Hsame; reflexivity|].
    destruct (p_touch_frame p (c_slot c)) as [T1 T2].
    destruct (cert_duplicate _ c); [apply Hsame; assumption|].
    destruct (add_valid_cert e (p_touch p (c_slot c)) c) as [[p1 o]|] eqn:E; [|apply Hsame; assumption].
    cbn [fst]. apply (add_valid_cert_feeds e _ _ _ _ _ E). apply (Feeds_frame p); [exact T1 | exact T2 | exact F].
  - (* block *)
    unfold pool_add_block, pool_add_block_gen.
    destruct (negb (fst par <? fst b)); [apply Hsame; reflexivity|].
    destruct (fst b <? first_unpruned p); [apply Hsame; reflexivity|].
    destruct (ft_add_parent (p_ft p) b par) as [[ft' ev]|] eqn:Eft; [|apply Hsame; reflexivity].
    destruct (pool_handle_finalization (pool_with_ft p ft') ev) as [[p1 o1]|] eqn:Eh; [|apply Hsame; reflexivity].
    apply ft_add_parent_first in Eft.
    assert (F1 : Feeds (pool_with_ft p ft') tops) by (apply (Feeds_ext p); [reflexivity | cbn; exact Eft | exact F]).
    destruct (pool_handle_finalization_feeds _ _ _ _ _ Eh F1) as [F2 _].
    assert (Hsame1 : forall p', p_prt p' = p_prt p1 -> p_ft p' = p_ft p1 ->
              exists more, Feeds p' (tops ++ more)).
    { intros p' E1 E2. eexists. apply (Feeds_frame p1); [exact E1 | exact E2 | exact F2]. }
    destruct (fst b <? first_unpruned p1); [apply Hsame1; reflexivity|]. cbv zeta.
    destruct (_ || match alookup (fst par) _ with Some pss => is_nf_or_stronger pss (snd par) | None => false end);
      [|apply Hsame1; reflexivity].
    destruct (notify_parent_certified e (fst b) _ (snd b)) as [[[ss' evs] rps]|]; [|apply Hsame1; reflexivity].
    destruct evs; [destruct rps|]; apply Hsame1; reflexivity.
  - (* standstill *)
    unfold pool_standstill, pool_standstill_gen. cbv zeta.
    destruct (get_final_certs p (finalized_slot p)); [destruct (true && (finalized_slot p =? 0))|]; apply Hsame; reflexivity.
  - (* wait *)
    unfold pool_wait. destruct (pt_wait (p_prt p) s) as [[t r]|] eqn:E; [|apply Hsame; reflexivity].
    exists [TWait s]. apply (Feeds_step p tops (TWait s) t [] [] _ F);
      [cbn [pt_step]; rewrite E; reflexivity | intros r' Hr; discriminate | reflexivity | cbn; lia].
  - apply Hsame; reflexivity.
Qed.

Definition pool_run_ops (e : epoch) (ops : list pool_op) : pool :=
  fold_left (fun p op => fst (fst (pool_step e p op))) ops pool_init.

Theorem pool_feeds_tracker e ops : exists tops, Feeds (pool_run_ops e ops) tops.
Proof.
  unfold pool_run_ops. induction ops as [|op ops IH] using rev_ind.
  - exists []. split; [reflexivity|]. split; [exists [], []; reflexivity | cbn; lia].
  - rewrite fold_left_app. cbn [fold_left]. destruct IH as [tops F].
    destruct (pool_step_feeds e _ op tops F) as [more F']. exists (tops ++ more). exact F'.
Qed.

(* consequences for the tracker inside every reachable pool state *)
Theorem pool_tracker_exact e ops :
  let p := pool_run_ops e ops in
  exists tops, roots_mono tops = true /\ pt_root (p_prt p) = mk_root (marks_of tops) /\
    (forall s b, In b (pt_parents_ready (p_prt p) s) -> ready_spec_m (marks_of tops) s b = true) /\
    (forall s b, retained (marks_of tops) (fst b) = true -> ready_spec_m (marks_of tops) s b = true ->
                 In b (pt_parents_ready (p_prt p) s)) /\
    (forall s, NoDup (pt_parents_ready (p_prt p) s)) /\
    (forall s, pr_waiting (pt_get (p_prt p) s) = true -> pt_parents_ready (p_prt p) s = []).
Proof.
  intros p. destruct (pool_feeds_tracker e ops) as [tops [A [[ann [wk B]] C]]]. fold p in B.
  exists tops. split; [exact A|]. split; [apply (tracker_root tops _ ann wk A B)|].
  split; [apply (ready_sound tops _ ann wk A B)|]. split; [apply (ready_complete tops _ ann wk A B)|].
  split; [apply (ready_nodup tops _ ann wk A B) | apply (waiter_invariant tops _ ann wk A B)].
Qed.

(* the tracker calls made by the pool never hit the duplicate assert of add_to_ready nor run out of fuel *)
Theorem pool_tracker_marks_never_panic e ops op :
  let p := pool_run_ops e ops in
  (forall r, op = TPrune r -> ft_first (p_ft p) <= r) -> (forall s, op <> TWait s) ->
  pt_step (p_prt p) op <> None.
Proof.
  intros p Hr Hw. destruct (pool_feeds_tracker e ops) as [tops F]. apply (Feeds_no_panic p tops op F Hr Hw).
Qed.
